(* Proofs for C17 part 2: the label-index selection (fp_sel), its bridge to the reference
   interpreter applied to the planner's own SQL tree, exactness against the Prometheus meaning of
   matchers, the Select row loop, the raw/down-sampled decision. *)
From Coq Require Import List ZArith NArith String Ascii Bool Lia Arith Sorting.Sorted Sorting.Permutation.
From Qryn Require Import lib.Strs model.Sql model.SqlRender model.Logql model.LogqlPlan
  model.PromSelect model.PromSel model.PromSem model.ProfSel model.ProfSem model.PromCase.
Import ListNotations.
Open Scope string_scope.

(* ====================================================================================== *)
(* A. the list-function reading of fp_sel                                                  *)
(* ====================================================================================== *)
Section FPSEL.
  Variable re_match : string -> string -> bool.
  Local Open Scope N_scope.

  Notation eval_clause := (eval_clause re_match).
  Notation rowmask := (rowmask re_match).

  (* reference meaning: every matcher is witnessed by an index row of that series *)
  Definition series_matches (D t : Z) (cs : list clause) (gin : list ginrow) (fp : N) : Prop :=
    forall c, List.In c cs -> exists r, List.In r gin /\ g_fp r = fp /\ (D <= g_date r)%Z /\ (g_type r = t \/ g_type r = 0%Z)
                                   /\ eval_clause c r = true.

  (* the sum without the UInt8 truncation *)
  Fixpoint rowmask_w (cs : list clause) (i : N) (r : ginrow) : N :=
    match cs with
    | [] => 0
    | c :: cs' => N.shiftl (b2n (eval_clause c r)) i + rowmask_w cs' (i + 1) r
    end.

  Lemma shl_small b i : i < 64 -> N.shiftl (b2n b) i mod (2 ^ 64) = N.shiftl (b2n b) i.
  Proof.
    intros Hi. apply N.mod_small. rewrite N.shiftl_mul_pow2.
    destruct b; cbn [b2n].
    - rewrite N.mul_1_l. apply N.pow_lt_mono_r; lia.
    - rewrite N.mul_0_l. apply N.neq_0_lt_0. apply N.pow_nonzero. lia.
  Qed.

  Lemma rowmask_width cs : forall i r, i + N.of_nat (List.length cs) <= 64 -> rowmask cs i r = rowmask_w cs i r.
  Proof.
    induction cs as [|c cs IH]; intros i r H; cbn [PromSem.rowmask rowmask_w]; [reflexivity|].
    cbn [List.length] in H. rewrite shl_small by lia. rewrite IH by lia. reflexivity.
  Qed.

  Lemma rowmask_testbit : forall cs i r k,
    N.testbit (rowmask_w cs i r) k =
      match nth_error cs (N.to_nat (k - i)) with
      | Some c => (i <=? k) && eval_clause c r
      | None => false
      end.
  Proof.
    induction cs as [|c cs IH]; intros i r k; cbn [rowmask_w].
    - rewrite N.bits_0. destruct (N.to_nat (k - i)); reflexivity.
    - assert (Hdis : N.land (N.shiftl (b2n (eval_clause c r)) i) (rowmask_w cs (i + 1) r) = 0).
      { apply N.bits_inj_0. intros m. rewrite N.land_spec, IH.
        destruct (N.ltb_spec m i) as [Hlt|Hge].
        - rewrite N.shiftl_spec_low by lia. reflexivity.
        - rewrite N.shiftl_spec_high' by lia.
          destruct (N.eqb_spec m i) as [->|Hne].
          + replace (i + 1 <=? i) with false by (symmetry; apply N.leb_gt; lia).
            destruct (nth_error cs _); rewrite ?andb_false_r; reflexivity.
          + destruct (eval_clause c r); cbn [b2n].
            * rewrite N.bits_above_log2; [reflexivity|]. cbn. lia.
            * rewrite N.bits_0. reflexivity. }
      rewrite (N.add_nocarry_lxor _ _ Hdis), N.lxor_spec, IH.
      destruct (N.ltb_spec k i) as [Hlt|Hge].
      + rewrite N.shiftl_spec_low by lia.
        replace (i <=? k) with false by (symmetry; apply N.leb_gt; lia).
        replace (i + 1 <=? k) with false by (symmetry; apply N.leb_gt; lia).
        replace (N.to_nat (k - i)) with 0%nat by lia. cbn.
        destruct (nth_error cs _); reflexivity.
      + rewrite N.shiftl_spec_high' by lia.
        replace (i <=? k) with true by (symmetry; apply N.leb_le; lia).
        destruct (N.eqb_spec k i) as [->|Hne].
        * replace (i - i) with 0 by lia. cbn [N.to_nat nth_error].
          replace (i + 1 <=? i) with false by (symmetry; apply N.leb_gt; lia).
          destruct (eval_clause c r); cbn; destruct (nth_error cs _); reflexivity.
        * replace (N.to_nat (k - i)) with (S (N.to_nat (k - (i + 1)))) by lia.
          cbn [nth_error].
          replace (i + 1 <=? k) with true by (symmetry; apply N.leb_le; lia).
          assert (N.testbit (b2n (eval_clause c r)) (k - i) = false) as ->.
          { destruct (eval_clause c r); cbn [b2n]; [|apply N.bits_0].
            apply N.bits_above_log2. cbn. lia. }
          rewrite xorb_false_l. reflexivity.
  Qed.

  Lemma fold_lor_testbit : forall (f : ginrow -> N) rows acc k,
    N.testbit (fold_left (fun a r => N.lor a (f r)) rows acc) k =
    N.testbit acc k || existsb (fun r => N.testbit (f r) k) rows.
  Proof.
    induction rows as [|r rows IH]; intros acc k; cbn [fold_left existsb].
    - now rewrite orb_false_r.
    - rewrite IH, N.lor_spec. now rewrite orb_assoc.
  Qed.

  Lemma ones_testbit n k : N.testbit (2 ^ n - 1) k = (k <? n).
  Proof.
    rewrite <- N.pred_sub, <- N.ones_equiv. destruct (N.ltb_spec k n).
    - now apply N.ones_spec_low.
    - now apply N.ones_spec_high.
  Qed.

  Lemma group_bit_or_width cs rows : N.of_nat (List.length cs) <= 64 ->
    group_bit_or re_match cs rows = fold_left (fun acc r => N.lor acc (rowmask_w cs 0 r)) rows 0.
  Proof.
    intros H. unfold group_bit_or. generalize 0 at 2 4. induction rows as [|r rows IH]; intros acc; cbn [fold_left]; [reflexivity|].
    rewrite rowmask_width by lia. apply IH.
  Qed.

  Lemma having_iff cs rows : N.of_nat (List.length cs) <= 64 ->
    group_bit_or re_match cs rows = 2 ^ (N.of_nat (List.length cs)) - 1 <->
    forall c, List.In c cs -> exists r, List.In r rows /\ eval_clause c r = true.
  Proof.
    intros Hw. rewrite group_bit_or_width by assumption. split.
    - intros H c Hc. apply In_nth_error in Hc. destruct Hc as [j Hj].
      assert (Hb : N.testbit (2 ^ N.of_nat (List.length cs) - 1) (N.of_nat j) = true).
      { rewrite ones_testbit. apply N.ltb_lt.
        assert (j < List.length cs)%nat by (apply nth_error_Some; congruence). lia. }
      rewrite <- H, fold_lor_testbit, N.bits_0 in Hb. cbn in Hb.
      apply existsb_exists in Hb. destruct Hb as [r [Hr Hbit]].
      rewrite rowmask_testbit in Hbit.
      replace (N.to_nat (N.of_nat j - 0)) with j in Hbit by lia.
      rewrite Hj in Hbit. exists r. split; [assumption|].
      now apply andb_prop in Hbit.
    - intros H. apply N.bits_inj. intros k.
      rewrite fold_lor_testbit, N.bits_0, ones_testbit. cbn.
      destruct (N.ltb_spec k (N.of_nat (List.length cs))) as [Hlt|Hge].
      + destruct (nth_error cs (N.to_nat k)) as [c|] eqn:Hc.
        2:{ apply nth_error_None in Hc. lia. }
        destruct (H c (nth_error_In _ _ Hc)) as [r [Hr Hev]].
        apply existsb_exists. exists r. split; [assumption|].
        rewrite rowmask_testbit. replace (k - 0) with k by lia. rewrite Hc, Hev.
        replace (0 <=? k) with true by (symmetry; apply N.leb_le; lia). reflexivity.
      + apply not_true_is_false. intros Hex. apply existsb_exists in Hex.
        destruct Hex as [r [_ Hbit]]. rewrite rowmask_testbit in Hbit.
        replace (k - 0) with k in Hbit by lia.
        destruct (nth_error cs (N.to_nat k)) eqn:Hc; [|discriminate].
        assert (N.to_nat k < List.length cs)%nat by (apply nth_error_Some; congruence). lia.
  Qed.

  Theorem fp_sel_correct D t cs gin fp : cs <> [] -> (List.length cs <= 63)%nat ->
    List.In fp (fp_sel re_match D t cs gin) <-> series_matches D t cs gin fp.
  Proof.
    intros Hne Hw. unfold fp_sel, series_matches.
    rewrite filter_In, nodup_In, in_map_iff, N.eqb_eq, having_iff by lia.
    split.
    - intros [_ H] c Hc. destruct (H c Hc) as [r [Hr Hev]].
      unfold group_of in Hr. apply filter_In in Hr. destruct Hr as [Hr Hfp].
      apply filter_In in Hr. destruct Hr as [Hr Hwk]. unfold where_ok in Hwk.
      apply andb_prop in Hwk. destruct Hwk as [Hwk _]. apply andb_prop in Hwk. destruct Hwk as [Hd Ht].
      exists r. split; [assumption|]. split; [now apply N.eqb_eq|]. split; [now apply Z.leb_le|].
      split; [|assumption].
      apply orb_prop in Ht. destruct Ht as [Ht|Ht]; apply Z.eqb_eq in Ht; auto.
    - intros H.
      assert (Hin : forall c, List.In c cs ->
                exists r, List.In r (group_of (filter (where_ok re_match D t cs) gin) fp) /\ eval_clause c r = true).
      { intros c Hc. destruct (H c Hc) as [r [Hr [Hfp [Hd [Ht Hev]]]]]. exists r. split; [|assumption].
        unfold group_of. apply filter_In. split; [|now apply N.eqb_eq].
        apply filter_In. split; [assumption|]. unfold where_ok.
        apply andb_true_intro. split; [apply andb_true_intro; split|].
        - now apply Z.leb_le.
        - apply orb_true_intro. destruct Ht as [Ht|Ht]; [left|right]; now apply Z.eqb_eq.
        - apply existsb_exists. exists c. auto. }
      split; [|assumption].
      destruct cs as [|c0 cs']; [congruence|].
      destruct (Hin c0 (or_introl eq_refl)) as [r [Hr _]].
      unfold group_of in Hr. apply filter_In in Hr. destruct Hr as [Hr Hfp].
      exists r. split; [now apply N.eqb_eq|assumption].
  Qed.
End FPSEL.

(* ====================================================================================== *)
(* B. bridge: the reference interpreter applied to the planner's own tree = fp_sel         *)
(* ====================================================================================== *)

Section BRIDGE.
  Variable re_match : string -> string -> bool.
  Variable cte : select -> option (list N).
  Notation ev := (ev re_match cte).

  Lemma ev_LOp rho fn cl :
    ev rho (LOp fn cl) = match all_some (map (ev rho) cl) with Some vs => lop_apply fn vs | None => None end.
  Proof.
    cbn [PromSem.ev].
    match goal with |- context [all_some (?f cl)] => assert (H : forall l, f l = map (ev rho) l) end.
    { induction l as [|x l IH]; [reflexivity|]. cbn [map]. rewrite <- IH. reflexivity. }
    rewrite H. reflexivity.
  Qed.

  Lemma ev_Fn_match rho a p :
    ev rho (Fn "match" [a; StrV p]) = match ev rho a with Some (VS h) => Some (b2v (re_match h p)) | _ => None end.
  Proof.
    cbn. destruct (ev rho a) as [[z|s|l|l]|]; reflexivity.
  Qed.

  Lemma gin_key r : gin_env r "key" = Some (VS (g_key r)). Proof. reflexivity. Qed.
  Lemma gin_val r : gin_env r "val" = Some (VS (g_val r)). Proof. reflexivity. Qed.
  Lemma gin_date r : gin_env r "date" = Some (VI (g_date r)). Proof. reflexivity. Qed.
  Lemma gin_type r : gin_env r "type" = Some (VI (g_type r)). Proof. reflexivity. Qed.
  Lemma gin_fp r : gin_env r "fingerprint" = Some (VI (Z.of_N (g_fp r))). Proof. reflexivity. Qed.

  Lemma ev_sel_clause r m :
    ev (gin_env r) (sel_clause m) = Some (b2v (eval_clause re_match (clause_of m) r)).
  Proof.
    unfold sel_clause, And, Eq, val_clause, Neq, sql_match, eval_clause, clause_of, eval_vcond. cbn [c_key c_cond].
    destruct (m_op m); cbn;
      destruct (String.eqb (g_key r) (m_name m)); try destruct (String.eqb (g_val r) (m_val m));
      try destruct (re_match (g_val r) (m_val m)); reflexivity.
  Qed.

  Definition sel_type (c : pctx) : Z := if Z.eqb (c_type c) 0 then 1%Z else c_type c.

  Lemma truthy_b2v b : truthy (b2v b) = Some b.
  Proof. destruct b; reflexivity. Qed.
  Lemma is_true_b2v b : is_true (Some (b2v b)) = b.
  Proof. destruct b; reflexivity. Qed.

  Lemma all_some_map_Some {A B} (f : A -> B) l : all_some (map (fun x => Some (f x)) l) = Some (map f l).
  Proof. induction l as [|x l IH]; [reflexivity|]. cbn [map all_some]. rewrite IH. reflexivity. Qed.

  Lemma ev_or_clauses r ms :
    ev (gin_env r) (Or (map sel_clause ms)) =
    Some (b2v (existsb (fun c => eval_clause re_match c r) (map clause_of ms))).
  Proof.
    unfold Or. rewrite (ev_LOp (gin_env r) OOr (map sel_clause ms)).
    rewrite map_map.
    rewrite (map_ext _ (fun m => Some (b2v (eval_clause re_match (clause_of m) r)))) by (intros; apply ev_sel_clause).
    rewrite all_some_map_Some. cbn [lop_apply]. rewrite map_map.
    rewrite (map_ext _ (fun m => Some (eval_clause re_match (clause_of m) r))) by (intros; apply truthy_b2v).
    rewrite all_some_map_Some. cbn [omap]. do 2 f_equal.
    induction ms as [|m ms IH]; [reflexivity|]. cbn [map existsb]. rewrite IH. reflexivity.
  Qed.

  Lemma stream_select_where c ms :
    s_where (stream_select c ms) =
    Some (And [Ge (Id "date") (format_from_date c); get_types c; Or (map sel_clause ms)]).
  Proof. reflexivity. Qed.
  Lemma stream_select_having c ms :
    s_having (stream_select c ms) =
    Some (And [Eq (BitSetAnd (map sel_clause ms)) (IntV (2 ^ Z.of_nat (List.length (map sel_clause ms)) - 1))]).
  Proof. reflexivity. Qed.

  Lemma ev_where r c ms :
    is_true (ev (gin_env r) (And [Ge (Id "date") (format_from_date c); get_types c; Or (map sel_clause ms)])) =
    where_ok re_match (from_day (c_from_ns c)) (sel_type c) (map clause_of ms) r.
  Proof.
    unfold And. rewrite (ev_LOp (gin_env r) OAnd). cbn [map]. rewrite ev_or_clauses.
    unfold where_ok, get_types, format_from_date, Ge, sel_type.
    cbn. destruct (Z.ltb (g_date r) (from_day (c_from_ns c))) eqn:Hd.
    - replace (from_day (c_from_ns c) <=? g_date r)%Z with false by (symmetry; apply Z.leb_gt; apply Z.ltb_lt; exact Hd).
      cbn. destruct (g_type r =? (if c_type c =? 0 then 1 else c_type c))%Z, (g_type r =? 0)%Z; cbn;
        try match goal with |- context [existsb ?f ?l] => destruct (existsb f l) end; reflexivity.
    - replace (from_day (c_from_ns c) <=? g_date r)%Z with true by (symmetry; apply Z.leb_le; apply Z.ltb_ge; exact Hd).
      cbn. destruct (g_type r =? (if c_type c =? 0 then 1 else c_type c))%Z, (g_type r =? 0)%Z; cbn;
        try match goal with |- context [existsb ?f ?l] => destruct (existsb f l) end; reflexivity.
  Qed.

  Notation eva := (eva re_match cte).
  Lemma eva_LOp g fn cl :
    eva g (LOp fn cl) = match all_some (map (eva g) cl) with Some vs => lop_apply fn vs | None => None end.
  Proof.
    cbn [PromSem.eva].
    match goal with |- context [all_some (?f cl)] => assert (H : forall l, f l = map (eva g) l) end.
    { induction l as [|x l IH]; [reflexivity|]. cbn [map]. rewrite <- IH. reflexivity. }
    rewrite H. reflexivity.
  Qed.

  Lemma b2z_b2n b : Z.to_N (b2z b) = b2n b. Proof. destruct b; reflexivity. Qed.

  Lemma bitset_row_clauses r ms : forall i,
    bitset_row re_match cte (map sel_clause ms) i (gin_env r) = Some (rowmask re_match (map clause_of ms) i r).
  Proof.
    induction ms as [|m ms IH]; intros i; [reflexivity|].
    cbn [map PromSem.bitset_row PromSem.rowmask]. rewrite ev_sel_clause, IH. unfold b2v, shl8. rewrite b2z_b2n. reflexivity.
  Qed.

  Lemma fold_lor_map {A} (f : A -> N) l : forall acc,
    fold_left N.lor (map f l) acc = fold_left (fun a r => N.lor a (f r)) l acc.
  Proof. induction l as [|x l IH]; intros acc; [reflexivity|]. cbn [map fold_left]. apply IH. Qed.

  Lemma pow2m1 n : Z.of_N (2 ^ N.of_nat n - 1) = (2 ^ Z.of_nat n - 1)%Z.
  Proof.
    assert (H : (1 <= 2 ^ N.of_nat n)%N).
    { assert (2 ^ N.of_nat n <> 0)%N by (apply N.pow_nonzero; lia). lia. }
    rewrite N2Z.inj_sub by exact H. rewrite N2Z.inj_pow. rewrite nat_N_Z. reflexivity.
  Qed.

  Lemma eva_having grp ms :
    is_true (eva (map gin_env grp)
               (And [Eq (BitSetAnd (map sel_clause ms)) (IntV (2 ^ Z.of_nat (List.length (map sel_clause ms)) - 1))])) =
    N.eqb (group_bit_or re_match (map clause_of ms) grp) (2 ^ N.of_nat (List.length (map clause_of ms)) - 1).
  Proof.
    unfold And, Eq. rewrite (eva_LOp (map gin_env grp) OAnd). cbn [map].
    rewrite (eva_LOp (map gin_env grp) OEq). cbn [map PromSem.eva].
    rewrite map_map.
    rewrite (map_ext _ (fun r => Some (rowmask re_match (map clause_of ms) 0 r))) by (intros; apply bitset_row_clauses).
    rewrite all_some_map_Some. cbn [omap all_some lop_apply val_eqb].
    rewrite fold_lor_map. fold (group_bit_or re_match (map clause_of ms) grp).
    rewrite !map_length. rewrite <- pow2m1.
    cbn [truthy map all_some omap].
    destruct (N.eqb_spec (group_bit_or re_match (map clause_of ms) grp) (2 ^ N.of_nat (List.length ms) - 1)) as [He|Hne].
    - rewrite He, Z.eqb_refl. reflexivity.
    - replace (Z.of_N (group_bit_or re_match (map clause_of ms) grp) =? Z.of_N (2 ^ N.of_nat (List.length ms) - 1))%Z with false.
      + reflexivity.
      + symmetry. apply Z.eqb_neq. intros H. apply Hne. now apply N2Z.inj.
  Qed.

  Lemma filter_map_comm {A B} (f : B -> bool) (g : A -> B) l : filter f (map g l) = map g (filter (fun x => f (g x)) l).
  Proof. induction l as [|x l IH]; [reflexivity|]. cbn [map filter]. destruct (f (g x)); cbn [map]; rewrite IH; reflexivity. Qed.

  Lemma env_fp_gin r : env_fp (gin_env r) = Some (g_fp r).
  Proof. unfold env_fp. rewrite gin_fp. rewrite N2Z.id. reflexivity. Qed.

  Lemma flat_fp rows : flat_map (fun rho => match env_fp rho with Some f => [f] | None => [] end) (map gin_env rows) = map g_fp rows.
  Proof. induction rows as [|r rows IH]; [reflexivity|]. cbn [map flat_map]. rewrite env_fp_gin, IH. reflexivity. Qed.

  Theorem eval_fpq_stream_select c ms gin :
    eval_fpq re_match cte (stream_select c ms) (map gin_env gin) =
    fp_sel re_match (from_day (c_from_ns c)) (sel_type c) (map clause_of ms) gin.
  Proof.
    unfold eval_fpq, fp_sel. rewrite stream_select_where, stream_select_having.
    rewrite filter_map_comm.
    rewrite (filter_ext _ (where_ok re_match (from_day (c_from_ns c)) (sel_type c) (map clause_of ms))) by (intros; apply ev_where).
    rewrite flat_fp.
    apply filter_ext. intros fp.
    rewrite filter_map_comm.
    rewrite (filter_ext (fun x => opt_eqb_N (env_fp (gin_env x)) fp) (fun r => N.eqb (g_fp r) fp))
      by (intros; rewrite env_fp_gin; reflexivity).
    fold (group_of (filter (where_ok re_match (from_day (c_from_ns c)) (sel_type c) (map clause_of ms)) gin) fp).
    apply eva_having.
  Qed.
End BRIDGE.

(* ====================================================================================== *)
(* B'. bridge for fingerprintsQuery after fix e2b3950 (absent labels): the matchers that accept   *)
(*     the empty string are planned as exclusions (fingerprint IN (<rejected>) == 0)       *)
(* ====================================================================================== *)
Section ABSENT.
  Variable re_match re_full : string -> string -> bool.

  Definition pos_ms (ms : list matcher) : list matcher := filter (fun m => negb (accepts_empty re_full m)) ms.
  Definition neg_ms (ms : list matcher) : list matcher := filter (accepts_empty re_full) ms.
  Definition neg_clause (m : matcher) : clause := clause_of (prom_matcher (inverse m)).
  Definition pos_clauses (ms : list matcher) : list clause := map clause_of (map prom_matcher (pos_ms ms)).
  Definition neg_clauses (ms : list matcher) : list clause := map neg_clause (neg_ms ms).

  Lemma fold_and_where_fields (f : matcher -> expr) neg : forall q l,
    s_where q = Some (And l) ->
    s_where (fold_left (fun q m => and_where [f m] q) neg q) = Some (And (l ++ map f neg)) /\
    s_having (fold_left (fun q m => and_where [f m] q) neg q) = s_having q.
  Proof.
    induction neg as [|m neg IH]; intros q l Hw; cbn [fold_left map].
    - rewrite app_nil_r. split; [exact Hw|reflexivity].
    - destruct (IH (and_where [f m] q) (l ++ [f m])%list) as [H1 H2].
      + unfold and_where. rewrite Hw. reflexivity.
      + rewrite H1, H2. rewrite <- app_assoc. split; reflexivity.
  Qed.

  Lemma fingerprints_query_fields c ms :
    s_where (fingerprints_query re_full c ms) =
      Some (And ([Ge (Id "date") (format_from_date c); get_types c; Or (map sel_clause (map prom_matcher (pos_ms ms)))]
                 ++ map (not_rejected c) (neg_ms ms))) /\
    s_having (fingerprints_query re_full c ms) = s_having (stream_select c (map prom_matcher (pos_ms ms))).
  Proof.
    unfold fingerprints_query. fold (pos_ms ms). fold (neg_ms ms).
    apply fold_and_where_fields. apply stream_select_where.
  Qed.

  Section ROWS.
  Variable gin : list ginrow.
  Let nested : select -> option (list N) := fun q' => Some (eval_fpq re_match no_cte q' (map gin_env gin)).
  Notation ev := (ev re_match nested).

  Lemma ev_date_bound r c :
    ev (gin_env r) (Ge (Id "date") (format_from_date c)) = Some (b2v (from_day (c_from_ns c) <=? g_date r)%Z).
  Proof.
    unfold Ge, format_from_date. cbn.
    destruct (Z.ltb (g_date r) (from_day (c_from_ns c))) eqn:Hd.
    - replace (from_day (c_from_ns c) <=? g_date r)%Z with false by (symmetry; apply Z.leb_gt; apply Z.ltb_lt; exact Hd). reflexivity.
    - replace (from_day (c_from_ns c) <=? g_date r)%Z with true by (symmetry; apply Z.leb_le; apply Z.ltb_ge; exact Hd). reflexivity.
  Qed.
  Lemma ev_types r c :
    ev (gin_env r) (get_types c) = Some (b2v ((g_type r =? sel_type c)%Z || (g_type r =? 0)%Z)).
  Proof.
    unfold get_types, sel_type. cbn.
    destruct (g_type r =? (if c_type c =? 0 then 1 else c_type c))%Z, (g_type r =? 0)%Z; reflexivity.
  Qed.
  Lemma ev_not_rejected r c m :
    ev (gin_env r) (not_rejected c m) =
    Some (b2v (negb (existsb (N.eqb (g_fp r)) (fp_sel re_match (from_day (c_from_ns c)) (sel_type c) [neg_clause m] gin)))).
  Proof.
    unfold not_rejected, Eq. rewrite (ev_LOp re_match nested). cbn [map].
    assert (Hin : ev (gin_env r) (In (Id "fingerprint") [SubQ (rejected_query c m)]) =
                  Some (b2v (existsb (N.eqb (g_fp r)) (fp_sel re_match (from_day (c_from_ns c)) (sel_type c) [neg_clause m] gin)))).
    { cbn [PromSem.ev]. rewrite gin_fp. unfold nested, rejected_query. rewrite eval_fpq_stream_select. rewrite N2Z.id. reflexivity. }
    rewrite Hin. cbn [PromSem.ev all_some omap lop_apply].
    destruct (existsb (N.eqb (g_fp r)) (fp_sel re_match (from_day (c_from_ns c)) (sel_type c) [neg_clause m] gin)); reflexivity.
  Qed.

  Lemma ev_and_all rho es (bs : list bool) :
    map (ev rho) es = map (fun b => Some (b2v b)) bs -> is_true (ev rho (And es)) = forallb (fun b => b) bs.
  Proof.
    intros H. unfold And. rewrite (ev_LOp re_match nested), H, all_some_map_Some. cbn [lop_apply]. rewrite map_map.
    rewrite (map_ext _ (fun b => Some b)) by (intros; apply truthy_b2v). rewrite all_some_map_Some. cbn [omap].
    rewrite map_id. apply is_true_b2v.
  Qed.

  Lemma ev_fingerprints_where r c ms :
    is_true (ev (gin_env r)
               (And ([Ge (Id "date") (format_from_date c); get_types c; Or (map sel_clause (map prom_matcher (pos_ms ms)))]
                     ++ map (not_rejected c) (neg_ms ms)))) =
    where_ok re_match (from_day (c_from_ns c)) (sel_type c) (pos_clauses ms) r &&
    negb (rejected re_match (from_day (c_from_ns c)) (sel_type c) (neg_clauses ms) gin (g_fp r)).
  Proof.
    rewrite (ev_and_all _ _
      ([(from_day (c_from_ns c) <=? g_date r)%Z; ((g_type r =? sel_type c)%Z || (g_type r =? 0)%Z);
        existsb (fun cl => eval_clause re_match cl r) (pos_clauses ms)]
       ++ map (fun m => negb (existsb (N.eqb (g_fp r)) (fp_sel re_match (from_day (c_from_ns c)) (sel_type c) [neg_clause m] gin)))
              (neg_ms ms))).
    - rewrite forallb_app. cbn [forallb]. unfold where_ok. rewrite andb_true_r, !andb_assoc. f_equal.
      unfold rejected, neg_clauses. generalize (neg_ms ms). intros l.
      induction l as [|m l IH]; [reflexivity|]. cbn [map forallb existsb]. rewrite IH, negb_orb. reflexivity.
    - rewrite !map_app. cbn [map]. rewrite ev_date_bound, ev_types.
      rewrite (ev_or_clauses re_match nested). fold (pos_clauses ms). f_equal.
      rewrite !map_map. apply map_ext. intros m. apply ev_not_rejected.
  Qed.
  End ROWS.

  Lemma filter_andb {A} (f g : A -> bool) l : filter (fun x => f x && g x) l = filter f (filter g l).
  Proof.
    induction l as [|x l IH]; [reflexivity|]. cbn [filter].
    destruct (g x); cbn [filter]; destruct (f x); cbn [andb]; rewrite IH; reflexivity.
  Qed.

  (* the reference interpreter applied to the statement fingerprintsQuery builds = the list reading fp_sel_abs *)
  Theorem eval_fp_sel_fingerprints_query c ms gin :
    eval_fp_sel re_match (fingerprints_query re_full c ms) gin =
    fp_sel_abs re_match (from_day (c_from_ns c)) (sel_type c) (pos_clauses ms) (neg_clauses ms) gin.
  Proof.
    unfold eval_fp_sel, eval_fpq, fp_sel_abs, fp_sel.
    destruct (fingerprints_query_fields c ms) as [Hw Hh]. rewrite Hw, Hh, stream_select_having.
    rewrite filter_map_comm.
    rewrite (filter_ext _ (fun r => where_ok re_match (from_day (c_from_ns c)) (sel_type c) (pos_clauses ms) r &&
                                    negb (rejected re_match (from_day (c_from_ns c)) (sel_type c) (neg_clauses ms) gin (g_fp r))))
      by (intros; apply ev_fingerprints_where).
    rewrite filter_andb.
    set (gin' := filter (fun r => negb (rejected re_match (from_day (c_from_ns c)) (sel_type c) (neg_clauses ms) gin (g_fp r))) gin).
    rewrite flat_fp.
    apply filter_ext. intros fp.
    rewrite filter_map_comm.
    rewrite (filter_ext (fun x => opt_eqb_N (env_fp (gin_env x)) fp) (fun r => N.eqb (g_fp r) fp))
      by (intros; rewrite env_fp_gin; reflexivity).
    fold (group_of (filter (where_ok re_match (from_day (c_from_ns c)) (sel_type c) (pos_clauses ms)) gin') fp).
    unfold pos_clauses. apply eva_having.
  Qed.

  (* which fingerprints that is: every matcher that rejects "" is witnessed by an index row, and no index row
     carries a value that a matcher accepting "" rejects *)
  Theorem fp_sel_abs_correct D t pos neg gin fp : pos <> [] -> (List.length pos <= 63)%nat ->
    List.In fp (fp_sel_abs re_match D t pos neg gin) <->
    series_matches re_match D t pos gin fp /\
    ~ (exists n r, List.In n neg /\ List.In r gin /\ g_fp r = fp /\ (D <= g_date r)%Z /\ (g_type r = t \/ g_type r = 0%Z)
                   /\ eval_clause re_match n r = true).
  Proof.
    intros Hne Hlen. unfold fp_sel_abs. rewrite fp_sel_correct by assumption.
    assert (Hrej : rejected re_match D t neg gin fp = true <->
                   exists n r, List.In n neg /\ List.In r gin /\ g_fp r = fp /\ (D <= g_date r)%Z /\ (g_type r = t \/ g_type r = 0%Z)
                               /\ eval_clause re_match n r = true).
    { unfold rejected. rewrite existsb_exists. split.
      - intros [n [Hn Hex]]. apply existsb_exists in Hex. destruct Hex as [y [Hy He]]. apply N.eqb_eq in He. subst y.
        apply fp_sel_correct in Hy; [|discriminate|cbn; lia].
        destruct (Hy n (or_introl eq_refl)) as [r Hr]. exists n, r. tauto.
      - intros [n [r [Hn [Hr [Hfp [Hd [Ht Hev]]]]]]]. exists n. split; [assumption|]. apply existsb_exists. exists fp.
        split; [|now apply N.eqb_eq]. apply fp_sel_correct; [discriminate|cbn; lia|].
        intros c' [<-|[]]. exists r. tauto. }
    unfold series_matches. split.
    - intros H. split.
      + intros c Hc. destruct (H c Hc) as [r [Hr Hrest]]. apply filter_In in Hr. exists r. tauto.
      + intros Hex. apply Hrej in Hex.
        destruct pos as [|c0 pos']; [congruence|]. destruct (H c0 (or_introl eq_refl)) as [r [Hr [Hfp _]]].
        apply filter_In in Hr. destruct Hr as [_ Hr]. rewrite Hfp, Hex in Hr. discriminate.
    - intros [H Hno] c Hc. destruct (H c Hc) as [r [Hr [Hfp Hrest]]]. exists r. split; [|tauto].
      apply filter_In. split; [assumption|]. rewrite Hfp.
      destruct (rejected re_match D t neg gin fp) eqn:E; [|reflexivity]. exfalso. apply Hno. now apply Hrej.
  Qed.
End ABSENT.

(* ====================================================================================== *)
(* C. the index query against the Prometheus meaning of the matchers                       *)
(* ====================================================================================== *)

Section EXACT.
  Variable re_match re_full : string -> string -> bool.

  (* the label index and the series table describe the same stored metric series, from day D on *)
  Record db_ok (D : Z) (gin : list ginrow) (series : list tsrow) : Prop := {
    index_sound : forall r, List.In r gin -> (D <= g_date r)%Z -> (g_type r = 2 \/ g_type r = 0)%Z ->
      exists s, List.In s series /\ t_fp s = g_fp r /\ (D <= t_date s)%Z /\ (t_type s = 2 \/ t_type s = 0)%Z
                /\ List.In (g_key r, g_val r) (t_labels s);
    index_complete : forall s, List.In s series -> (D <= t_date s)%Z -> (t_type s = 2 \/ t_type s = 0)%Z ->
      forall k v, List.In (k, v) (t_labels s) ->
      exists r, List.In r gin /\ g_fp r = t_fp s /\ g_key r = k /\ g_val r = v /\ (D <= g_date r)%Z
                /\ (g_type r = 2 \/ g_type r = 0)%Z;
    (* among the METRIC series rows a fingerprint stands for one label set; the series rows of log streams (type 1) are free:
       a log stream may share a fingerprint with a metric series (32-bit Bernstein fingerprints) under another label set *)
    fp_functional : forall s1 s2, List.In s1 series -> List.In s2 series ->
      (t_type s1 = 2 \/ t_type s1 = 0)%Z -> (t_type s2 = 2 \/ t_type s2 = 0)%Z -> t_fp s1 = t_fp s2 -> t_labels s1 = t_labels s2;
    keys_unique : forall s, List.In s series -> NoDup (map fst (t_labels s))
  }.

  Lemma label_value_in l k v : NoDup (map fst l) -> List.In (k, v) l -> label_value l k = v.
  Proof.
    unfold label_value. induction l as [|[k' v'] l IH]; intros Hnd Hin; [contradiction|].
    cbn [find fst]. destruct (String.eqb_spec k' k) as [->|Hne].
    - cbn [snd]. destruct Hin as [Heq|Hin]; [congruence|].
      exfalso. inversion Hnd as [|? ? Hnot _]; subst. apply Hnot. cbn [map fst].
      change k with (fst (k, v)). now apply in_map.
    - destruct Hin as [Heq|Hin]; [congruence|]. apply IH; [|assumption]. now inversion Hnd.
  Qed.

  Lemma has_label_in l k : has_label l k = true -> List.In (k, label_value l k) l.
  Proof.
    unfold has_label, label_value. induction l as [|[k' v'] l IH]; cbn [existsb find fst]; [discriminate|].
    destruct (String.eqb_spec k' k) as [->|Hne]; cbn [orb snd].
    - intros _. now left.
    - intros H. right. now apply IH.
  Qed.

  Lemma no_label_value l k : has_label l k = false -> label_value l k = "".
  Proof.
    unfold has_label, label_value. induction l as [|[k' v'] l IH]; cbn [existsb find fst]; [reflexivity|].
    destruct (String.eqb k' k); cbn [orb]; [discriminate|]. exact IH.
  Qed.

  Hypothesis anchor_law : forall v p, re_match v (anchor p) = re_full v p.

  Lemma vcond_prom m v :
    eval_vcond re_match (c_cond (clause_of (prom_matcher m))) v = prom_match_val re_full (m_op m) (m_val m) v.
  Proof.
    unfold clause_of, prom_matcher. destruct (m_op m) eqn:Hop; cbn [m_op m_val c_cond eval_vcond prom_match_val]; rewrite ?Hop; cbn [eval_vcond];
      try reflexivity.
    - rewrite anchor_law. destruct (re_full v (m_val m)); reflexivity.
    - rewrite anchor_law. destruct (re_full v (m_val m)); reflexivity.
  Qed.
  Lemma key_prom m : c_key (clause_of (prom_matcher m)) = m_name m.
  Proof. unfold clause_of, prom_matcher. destruct (m_op m); reflexivity. Qed.

  Lemma vcond_inverse m v :
    eval_vcond re_match (c_cond (neg_clause m)) v = negb (prom_match_val re_full (m_op m) (m_val m) v).
  Proof.
    unfold neg_clause, clause_of, prom_matcher, inverse.
    destruct (m_op m) eqn:Hop; cbn [m_op m_val c_cond eval_vcond prom_match_val].
    - reflexivity.
    - now rewrite negb_involutive.
    - rewrite anchor_law. destruct (re_full v (m_val m)); reflexivity.
    - rewrite anchor_law. destruct (re_full v (m_val m)); reflexivity.
  Qed.
  Lemma key_inverse m : c_key (neg_clause m) = m_name m.
  Proof. unfold neg_clause, clause_of, prom_matcher, inverse. destruct (m_op m); reflexivity. Qed.

  Lemma filter_len {A} (f : A -> bool) l : (List.length (filter f l) <= List.length l)%nat.
  Proof. induction l as [|x l IH]; [apply le_n|]. cbn [filter]. destruct (f x); cbn [List.length]; lia. Qed.

  Lemma selective_pos ms : selective re_full ms = true -> pos_ms re_full ms <> [].
  Proof.
    unfold selective, pos_ms. intros H. apply existsb_exists in H. destruct H as [m [Hm Hr]].
    intros E. assert (Hin : List.In m (filter (fun m => negb (accepts_empty re_full m)) ms)) by (apply filter_In; split; assumption).
    rewrite E in Hin. contradiction.
  Qed.

  (* the fingerprints the repaired fingerprintsQuery selects = the stored metric series whose labels satisfy
     every matcher in the Prometheus sense (an absent label reads as the empty string) *)
  Theorem prom_fp_select D gin series ms fp :
    db_ok D gin series -> selective re_full ms = true -> (List.length ms <= 63)%nat ->
    (List.In fp (fp_sel_abs re_match D 2 (pos_clauses re_full ms) (neg_clauses re_full ms) gin) <->
     List.In fp (expected_fps re_full D ms series)).
  Proof.
    intros Hdb Hsel Hlen.
    assert (Hpne : pos_clauses re_full ms <> []).
    { unfold pos_clauses. intros E. apply map_eq_nil in E. apply map_eq_nil in E. now apply (selective_pos ms Hsel). }
    assert (Hplen : (List.length (pos_clauses re_full ms) <= 63)%nat).
    { unfold pos_clauses, pos_ms. rewrite !map_length. pose proof (filter_len (fun m => negb (accepts_empty re_full m)) ms). lia. }
    rewrite fp_sel_abs_correct by assumption.
    unfold expected_fps. rewrite nodup_In, in_map_iff. split.
    - intros [Hsm Hno].
      destruct (pos_clauses re_full ms) as [|c0 cs'] eqn:Epos; [congruence|].
      destruct (Hsm c0 (or_introl eq_refl)) as [r0 [Hr0 [Hfp0 [Hd0 [Ht0 _]]]]].
      destruct (index_sound _ _ _ Hdb r0 Hr0 Hd0 Ht0) as [s0 [Hs0 [Hsfp [Hsd [Hst _]]]]].
      exists s0. split; [congruence|]. apply filter_In. split; [assumption|].
      apply andb_true_intro. split.
      + unfold metric_series. apply andb_true_intro. split; [now apply Z.leb_le|].
        apply orb_true_intro. destruct Hst as [Hst|Hst]; [left|right]; now apply Z.eqb_eq.
      + unfold prom_matches. apply forallb_forall. intros m Hm.
        destruct (accepts_empty re_full m) eqn:Hacc.
        * (* the matcher accepts "": no index row of the series may carry a rejected value *)
          destruct (has_label (t_labels s0) (m_name m)) eqn:Hh.
          -- destruct (prom_match_val re_full (m_op m) (m_val m) (label_value (t_labels s0) (m_name m))) eqn:Hv; [reflexivity|].
             exfalso. apply Hno. apply has_label_in in Hh.
             destruct (index_complete _ _ _ Hdb s0 Hs0 Hsd Hst _ _ Hh) as [r [Hr [Hrfp [Hk [Hval [Hrd Hrt]]]]]].
             exists (neg_clause m), r. split.
             { unfold neg_clauses, neg_ms. apply in_map. apply filter_In. split; assumption. }
             split; [assumption|]. split; [congruence|]. split; [assumption|]. split; [assumption|].
             unfold eval_clause. apply andb_true_intro. split.
             ++ rewrite key_inverse, Hk. apply String.eqb_refl.
             ++ rewrite vcond_inverse, Hval, Hv. reflexivity.
          -- rewrite (no_label_value _ _ Hh). exact Hacc.
        * assert (Hc : List.In (clause_of (prom_matcher m)) (c0 :: cs')).
          { rewrite <- Epos. unfold pos_clauses, pos_ms. apply in_map. apply in_map. apply filter_In. split; [assumption|].
            now rewrite Hacc. }
          destruct (Hsm _ Hc) as [r [Hr [Hfp [Hd [Ht Hev]]]]].
          destruct (index_sound _ _ _ Hdb r Hr Hd Ht) as [s [Hs [Hsfp' [_ [Hst' Hlab]]]]].
          assert (Hl : t_labels s = t_labels s0) by (apply (fp_functional _ _ _ Hdb); try assumption; congruence).
          rewrite Hl in Hlab.
          unfold eval_clause in Hev. apply andb_prop in Hev. destruct Hev as [Hk Hv].
          rewrite key_prom in Hk. apply String.eqb_eq in Hk. rewrite Hk in Hlab.
          rewrite (label_value_in _ _ _ (keys_unique _ _ _ Hdb s0 Hs0) Hlab).
          rewrite <- vcond_prom. exact Hv.
    - intros [s [Hfp Hs]]. apply filter_In in Hs. destruct Hs as [Hs Hok].
      apply andb_prop in Hok. destruct Hok as [Hmet Hpm].
      unfold metric_series in Hmet. apply andb_prop in Hmet. destruct Hmet as [Hd Ht].
      apply Z.leb_le in Hd.
      assert (Ht' : (t_type s = 2 \/ t_type s = 0)%Z).
      { apply orb_prop in Ht. destruct Ht as [Ht|Ht]; apply Z.eqb_eq in Ht; auto. }
      unfold prom_matches in Hpm. rewrite forallb_forall in Hpm.
      split.
      + intros c Hc. unfold pos_clauses, pos_ms in Hc. apply in_map_iff in Hc. destruct Hc as [m' [Hc Hm']].
        apply in_map_iff in Hm'. destruct Hm' as [m [Hm' Hm]]. subst m' c.
        apply filter_In in Hm. destruct Hm as [Hm Hrej]. apply negb_true_iff in Hrej.
        specialize (Hpm m Hm).
        assert (Hhas : has_label (t_labels s) (m_name m) = true).
        { destruct (has_label (t_labels s) (m_name m)) eqn:Hh; [reflexivity|].
          rewrite (no_label_value _ _ Hh) in Hpm. unfold accepts_empty in Hrej. congruence. }
        apply has_label_in in Hhas.
        destruct (index_complete _ _ _ Hdb s Hs Hd Ht' _ _ Hhas) as [r [Hr [Hrfp [Hk [Hv [Hrd Hrt]]]]]].
        exists r. split; [assumption|]. split; [congruence|]. split; [assumption|]. split; [assumption|].
        unfold eval_clause. apply andb_true_intro. split.
        * rewrite key_prom, Hk. apply String.eqb_refl.
        * rewrite vcond_prom, Hv. exact Hpm.
      + intros [n [r [Hn [Hr [Hrfp [Hrd [Hrt Hev]]]]]]].
        unfold neg_clauses, neg_ms in Hn. apply in_map_iff in Hn. destruct Hn as [m [<- Hm]].
        apply filter_In in Hm. destruct Hm as [Hm _]. specialize (Hpm m Hm).
        destruct (index_sound _ _ _ Hdb r Hr Hrd Hrt) as [s' [Hs' [Hsfp' [_ [Hst' Hlab]]]]].
        assert (Hl : t_labels s' = t_labels s) by (apply (fp_functional _ _ _ Hdb); try assumption; congruence).
        rewrite Hl in Hlab.
        unfold eval_clause in Hev. apply andb_prop in Hev. destruct Hev as [Hk Hv].
        rewrite key_inverse in Hk. apply String.eqb_eq in Hk. rewrite Hk in Hlab.
        rewrite (label_value_in _ _ _ (keys_unique _ _ _ Hdb s Hs) Hlab) in Hpm.
        rewrite vcond_inverse, Hpm in Hv. discriminate.
  Qed.
End EXACT.

(* ====================================================================================== *)
(* C'. bridge for the main query of the raw path (hints.Step = 0)                          *)
(* ====================================================================================== *)

Section MAINQ.
  Variable re_match re_full : string -> string -> bool.
  Notation fingerprints_query := (fingerprints_query re_full).

  Definition raw_query (c : pctx) (ms : list matcher) : select :=
    and_where [In (Id "samples.fingerprint") [WRef "fp_sel" (fingerprints_query c ms)]]
      (add_withs [("fp_sel", fingerprints_query c ms)] (init_clickhouse c)).

  Definition raw_where (c : pctx) (ms : list matcher) : expr :=
    And [Ge (Id "samples.timestamp_ns") (IntV (c_from_ns c)); Lt (Id "samples.timestamp_ns") (IntV (c_to_ns c + 1000000));
         get_types c; In (Id "samples.fingerprint") [WRef "fp_sel" (fingerprints_query c ms)]].
  Definition raw_cols : list expr :=
    [SimpleCol "samples.fingerprint" "fingerprint"; SimpleCol "samples.value" "value"; ts_ms_col].

  Lemma raw_query_fields c ms : (c_limit c <= 0)%Z ->
    s_where (raw_query c ms) = Some (raw_where c ms) /\ s_cols (raw_query c ms) = raw_cols /\
    s_orderby (raw_query c ms) = [Ord (Id "fingerprint") true; Ord (Id "samples.timestamp_ns") true] /\
    s_groupby (raw_query c ms) = [] /\ s_limit (raw_query c ms) = None.
  Proof.
    intros Hl. unfold raw_query, init_clickhouse, with_limit.
    replace (0 <? c_limit c)%Z with false by (symmetry; apply Z.ltb_ge; exact Hl).
    repeat split; reflexivity.
  Qed.

  Definition the_cte (db : database) : select -> option (list N) := fun fq => Some (eval_fp_sel re_match fq (d_gin db)).
  Definition the_fps (c : pctx) (ms : list matcher) (db : database) : list N :=
    fp_sel_abs re_match (from_day (c_from_ns c)) (sel_type c) (pos_clauses re_full ms) (neg_clauses re_full ms) (d_gin db).

  Lemma the_cte_fpq c ms db : the_cte db (fingerprints_query c ms) = Some (the_fps c ms db).
  Proof. unfold the_cte, the_fps. now rewrite eval_fp_sel_fingerprints_query. Qed.

  Notation aenv db r := (alias_env re_match (the_cte db) raw_cols (sample_base_env r)).

  Lemma aenv_ts db r : aenv db r "samples.timestamp_ns" = Some (VI (sm_ts_ns r)). Proof. reflexivity. Qed.
  Lemma aenv_type db r : aenv db r "type" = Some (VI (sm_type r)). Proof. reflexivity. Qed.
  Lemma aenv_sfp db r : aenv db r "samples.fingerprint" = Some (VI (Z.of_N (sm_fp r))). Proof. reflexivity. Qed.
  Lemma aenv_fp db r : aenv db r "fingerprint" = Some (VI (Z.of_N (sm_fp r))). Proof. reflexivity. Qed.
  Lemma aenv_value db r : aenv db r "value" = Some (VI (sm_value r)). Proof. reflexivity. Qed.
  Lemma aenv_ms db r : aenv db r "timestamp_ms" = Some (VI (Z.quot (sm_ts_ns r) 1000000)). Proof. reflexivity. Qed.

  Lemma ev_raw_where c ms db r :
    is_true (ev re_match (the_cte db) (aenv db r) (raw_where c ms)) =
    sample_ok (c_from_ns c) (c_to_ns c) (sel_type c) (the_fps c ms db) r.
  Proof.
    unfold raw_where, And. rewrite (ev_LOp re_match (the_cte db) (aenv db r) OAnd). cbn [map].
    assert (H4 : ev re_match (the_cte db) (aenv db r) (In (Id "samples.fingerprint") [WRef "fp_sel" (fingerprints_query c ms)]) =
                 Some (b2v (existsb (N.eqb (sm_fp r)) (the_fps c ms db)))).
    { cbn [PromSem.ev]. rewrite aenv_sfp, the_cte_fpq, N2Z.id. reflexivity. }
    rewrite H4.
    unfold Ge, Lt, get_types, sample_ok, sel_type.
    cbn - [existsb the_fps Z.add].
    destruct (Z.ltb (sm_ts_ns r) (c_from_ns c)) eqn:Hl.
    - replace (c_from_ns c <=? sm_ts_ns r)%Z with false by (symmetry; apply Z.leb_gt; apply Z.ltb_lt; exact Hl). reflexivity.
    - replace (c_from_ns c <=? sm_ts_ns r)%Z with true by (symmetry; apply Z.leb_le; apply Z.ltb_ge; exact Hl).
      cbn - [existsb the_fps Z.add].
      destruct (sm_ts_ns r <? c_to_ns c + 1000000)%Z; cbn - [existsb the_fps Z.add]; [|reflexivity].
      destruct (sm_type r =? (if c_type c =? 0 then 1 else c_type c))%Z, (sm_type r =? 0)%Z; cbn - [existsb the_fps];
        destruct (existsb (N.eqb (sm_fp r)) (the_fps c ms db)); reflexivity.
  Qed.

  Lemma insert_sorted_map {A B} (f : A -> B) (lt1 : A -> A -> bool) (lt2 : B -> B -> bool) :
    (forall a b, lt2 (f a) (f b) = lt1 a b) ->
    forall x l, insert_sorted lt2 (f x) (map f l) = map f (insert_sorted lt1 x l).
  Proof.
    intros H x l. induction l as [|y l IH]; [reflexivity|].
    cbn [map insert_sorted]. rewrite H. destruct (lt1 x y); cbn [map]; [reflexivity|]. now rewrite IH.
  Qed.
  Lemma isort_map {A B} (f : A -> B) (lt1 : A -> A -> bool) (lt2 : B -> B -> bool) :
    (forall a b, lt2 (f a) (f b) = lt1 a b) -> forall l, isort lt2 (map f l) = map f (isort lt1 l).
  Proof.
    intros H l. unfold isort. change (@nil B) with (map f []). generalize (@nil A).
    induction l as [|x l IH]; intros acc; [reflexivity|].
    cbn [map fold_left]. rewrite (insert_sorted_map f lt1 lt2 H). apply IH.
  Qed.

  Definition keyed_row (r : samplerow) : list Z * row := ([Z.of_N (sm_fp r); sm_ts_ns r], to_row r).

  Lemma key_lt_sample a b : key_lt (fst (keyed_row a)) (fst (keyed_row b)) = PromSem.sample_lt a b.
  Proof.
    unfold keyed_row, key_lt, PromSem.sample_lt. cbn [fst].
    destruct (N.ltb_spec (sm_fp a) (sm_fp b)) as [Hlt|Hge].
    - replace (Z.of_N (sm_fp a) <? Z.of_N (sm_fp b))%Z with true by (symmetry; apply Z.ltb_lt; lia). reflexivity.
    - replace (Z.of_N (sm_fp a) <? Z.of_N (sm_fp b))%Z with false by (symmetry; apply Z.ltb_ge; lia).
      cbn [orb]. destruct (N.eqb_spec (sm_fp a) (sm_fp b)) as [He|Hne].
      + rewrite He, Z.ltb_irrefl. cbn [andb]. destruct (sm_ts_ns a <? sm_ts_ns b)%Z; [reflexivity|].
        destruct (sm_ts_ns b <? sm_ts_ns a)%Z; reflexivity.
      + replace (Z.of_N (sm_fp b) <? Z.of_N (sm_fp a))%Z with true by (symmetry; apply Z.ltb_lt; lia). reflexivity.
  Qed.

  Theorem eval_main_raw c ms db : (c_limit c <= 0)%Z ->
    eval_main re_match (raw_query c ms) db =
    Some (raw_rows (c_from_ns c) (c_to_ns c) (sel_type c) (the_fps c ms db) (d_samples db)).
  Proof.
    intros Hl. destruct (raw_query_fields c ms Hl) as [Hw [Hc [Ho [Hg Hlim]]]].
    unfold eval_main. rewrite Hw, Hc, Ho, Hg, Hlim. fold (the_cte db).
    rewrite filter_map_comm.
    rewrite (filter_ext _ (sample_ok (c_from_ns c) (c_to_ns c) (sel_type c) (the_fps c ms db))) by (intros; apply ev_raw_where).
    set (kept := filter (sample_ok (c_from_ns c) (c_to_ns c) (sel_type c) (the_fps c ms db)) (d_samples db)).
    rewrite !map_map.
    rewrite (map_ext _ (fun r => Some (keyed_row r))).
    2:{ intros r. cbn [map all_some PromSem.ev]. rewrite aenv_fp, aenv_ts, aenv_value, aenv_ms.
        cbn [omap all_some]. unfold keyed_row, to_row. rewrite N2Z.id. reflexivity. }
    rewrite all_some_map_Some.
    rewrite (isort_map keyed_row PromSem.sample_lt) by (intros; apply key_lt_sample).
    rewrite map_map. unfold raw_rows. fold kept. reflexivity.
  Qed.
End MAINQ.

(* ====================================================================================== *)
(* D. CLokiQuerier.Select's row loop                                                       *)
(* ====================================================================================== *)
Open Scope list_scope.

Definition smp (r : row) : sample := (r_ts r, r_val r).
Definition new_series (r : row) : pseries := {| ps_fp := r_fp r; ps_samples := [smp r] |}.
Definition absorb (s : pseries) (gs : list pseries) : list pseries :=
  match gs with
  | g :: gs' => if N.eqb (ps_fp g) (ps_fp s)
                then {| ps_fp := ps_fp s; ps_samples := ps_samples s ++ ps_samples g |} :: gs'
                else s :: gs
  | [] => [s]
  end.
(* the grouping, right to left: maximal runs of equal fingerprints *)
Fixpoint groups (rows : list row) : list pseries :=
  match rows with [] => [] | r :: rest => absorb (new_series r) (groups rest) end.

Lemma apply_mr_fp mr s : ps_fp (apply_mr mr s) = ps_fp s.
Proof. unfold apply_mr. destruct mr; reflexivity. Qed.

Lemma groups_head_fp r rest : exists g gs, groups (r :: rest) = g :: gs /\ ps_fp g = r_fp r.
Proof.
  cbn [groups]. unfold absorb. destruct (groups rest) as [|g gs].
  - eexists _, _. split; reflexivity.
  - destruct (N.eqb (ps_fp g) (ps_fp (new_series r))); eexists _, _; split; reflexivity.
Qed.

Definition finish (mr : bool) (st : list pseries) : list pseries :=
  match st with [] => [] | s :: ss => rev (apply_mr mr s :: ss) end.

Lemma loop_absorb mr : forall rows s ss,
  finish mr (fold_left (loop_step mr) rows (s :: ss)) = rev ss ++ map (apply_mr mr) (absorb s (groups rows)).
Proof.
  induction rows as [|r rest IH]; intros s ss.
  - cbn [fold_left finish groups absorb map rev]. reflexivity.
  - cbn [fold_left]. unfold loop_step at 2. fold (smp r).
    destruct (N.eqb_spec (r_fp r) (ps_fp s)) as [Heq|Hne].
    + rewrite IH. f_equal. f_equal.
      cbn [groups]. destruct (groups rest) as [|g gs]; unfold absorb; cbn [ps_fp ps_samples new_series]; rewrite Heq.
      * rewrite N.eqb_refl. reflexivity.
      * destruct (N.eqb (ps_fp g) (ps_fp s)) eqn:E; cbn [ps_fp ps_samples]; rewrite ?N.eqb_refl, ?E.
        -- rewrite <- app_assoc. reflexivity.
        -- cbn [new_series ps_fp ps_samples]. rewrite Heq, N.eqb_refl. reflexivity.
    + fold (new_series r). rewrite IH. cbn [rev]. rewrite <- app_assoc. f_equal. cbn [app].
      destruct (groups_head_fp r rest) as [g [gs [Hg Hfp]]].
      change (absorb {| ps_fp := r_fp r; ps_samples := [smp r] |} (groups rest)) with (groups (r :: rest)).
      rewrite Hg. unfold absorb.
      replace (N.eqb (ps_fp g) (ps_fp s)) with false by (symmetry; apply N.eqb_neq; congruence).
      cbn [map]. reflexivity.
Qed.

Theorem select_loop_groups mr rows : select_loop mr rows = map (apply_mr mr) (groups rows).
Proof.
  unfold select_loop. destruct rows as [|r rest]; [reflexivity|].
  cbn [fold_left]. unfold loop_step at 2.
  exact (loop_absorb mr rest (new_series r) []).
Qed.

(* fingerprint-contiguous: a row's fingerprint continues on the next row or never comes back *)
Fixpoint contiguousb (rows : list row) : bool :=
  match rows with
  | [] => true
  | r :: rest => contiguousb rest &&
                 (match rest with n :: _ => N.eqb (r_fp n) (r_fp r) | [] => false end
                  || negb (existsb (fun x => N.eqb (r_fp x) (r_fp r)) rest))
  end.

Lemma rows_of_cons fp r rest :
  rows_of fp (r :: rest) = if N.eqb (r_fp r) fp then smp r :: rows_of fp rest else rows_of fp rest.
Proof. unfold rows_of. cbn [filter]. destruct (N.eqb (r_fp r) fp); reflexivity. Qed.

Lemma rows_of_absent fp rows : existsb (fun x => N.eqb (r_fp x) fp) rows = false -> rows_of fp rows = [].
Proof.
  induction rows as [|r rest IH]; [reflexivity|]. cbn [existsb]. intros H. apply orb_false_elim in H. destruct H as [H1 H2].
  rewrite rows_of_cons, H1. now apply IH.
Qed.

Lemma groups_spec : forall rows, contiguousb rows = true ->
  NoDup (map ps_fp (groups rows)) /\
  (forall fp, List.In fp (map r_fp rows) <-> List.In fp (map ps_fp (groups rows))) /\
  (forall s, List.In s (groups rows) -> ps_samples s = rows_of (ps_fp s) rows).
Proof.
  induction rows as [|r rest IH]; intros Hc.
  - cbn. split; [constructor|]. split; [tauto|]. tauto.
  - cbn [contiguousb] in Hc. apply andb_prop in Hc. destruct Hc as [Hc Hnext].
    destruct (IH Hc) as [Hnd [Hfps Hsmp]]. clear IH.
    cbn [groups]. unfold absorb.
    destruct (groups rest) as [|g gs] eqn:Hg.
    + (* rest has no row *)
      assert (rest = []) as ->.
      { destruct rest as [|n rest']; [reflexivity|]. exfalso. apply (proj1 (Hfps (r_fp n))). now left. }
      cbn. split; [constructor; [tauto|constructor]|]. split; [tauto|].
      intros s [<-|[]]. cbn. rewrite N.eqb_refl. reflexivity.
    + cbn [new_series ps_fp ps_samples].
      destruct (N.eqb_spec (ps_fp g) (r_fp r)) as [Heq|Hne].
      * (* the run continues *)
        cbn [map ps_fp]. split; [rewrite <- Heq; exact Hnd|]. split.
        -- intros fp. specialize (Hfps fp). cbn [map List.In ps_fp] in *. rewrite Heq in Hfps. tauto.
        -- intros s [<-|Hs]; cbn [ps_fp ps_samples].
           ++ rewrite rows_of_cons, N.eqb_refl. cbn [app]. f_equal. rewrite <- Heq. apply Hsmp. now left.
           ++ rewrite rows_of_cons.
              assert (Hd : ps_fp s <> ps_fp g).
              { cbn [map] in Hnd. inversion Hnd as [|? ? Hnot _]; subst. intros E. apply Hnot. rewrite <- E. now apply in_map. }
              replace (N.eqb (r_fp r) (ps_fp s)) with false by (symmetry; apply N.eqb_neq; congruence).
              apply Hsmp. now right.
      * (* a new run: the fingerprint does not occur in the rest *)
        assert (Habs : existsb (fun x => N.eqb (r_fp x) (r_fp r)) rest = false).
        { destruct rest as [|n rest']; [reflexivity|].
          destruct (groups_head_fp n rest') as [g' [gs' [Hg' Hfp']]]. rewrite Hg in Hg'. inversion Hg'; subst g' gs'.
          apply orb_prop in Hnext. destruct Hnext as [Hn|Hn].
          - apply N.eqb_eq in Hn. congruence.
          - now apply negb_true_iff in Hn. }
        assert (Hnotin : ~ List.In (r_fp r) (map ps_fp (g :: gs))).
        { intros Hin. apply (Hfps (r_fp r)) in Hin. apply in_map_iff in Hin. destruct Hin as [x [Hx Hin]].
          assert (existsb (fun x => N.eqb (r_fp x) (r_fp r)) rest = true).
          { apply existsb_exists. exists x. split; [assumption|]. now apply N.eqb_eq. }
          congruence. }
        cbn [map ps_fp]. split; [constructor; assumption|]. split.
        -- intros fp. cbn [map List.In]. rewrite (Hfps fp). cbn [map List.In]. tauto.
        -- intros s [<-|Hs]; cbn [new_series ps_fp ps_samples].
           ++ rewrite rows_of_cons, N.eqb_refl. f_equal. symmetry. now apply rows_of_absent.
           ++ rewrite rows_of_cons.
              assert (Hd : r_fp r <> ps_fp s).
              { intros E. apply Hnotin. rewrite E. now apply in_map. }
              replace (N.eqb (r_fp r) (ps_fp s)) with false by (symmetry; now apply N.eqb_neq).
              now apply Hsmp.
Qed.

Theorem select_loop_spec mr rows : contiguousb rows = true ->
  NoDup (map ps_fp (select_loop mr rows)) /\
  (forall fp, List.In fp (map r_fp rows) <-> List.In fp (map ps_fp (select_loop mr rows))) /\
  (forall s, List.In s (select_loop mr rows) ->
     ps_samples s = if mr then map_result_count (rows_of (ps_fp s) rows) else rows_of (ps_fp s) rows).
Proof.
  intros Hc. destruct (groups_spec rows Hc) as [Hnd [Hfps Hsmp]].
  rewrite select_loop_groups.
  assert (Hmap : map ps_fp (map (apply_mr mr) (groups rows)) = map ps_fp (groups rows)).
  { rewrite map_map. apply map_ext. intros. apply apply_mr_fp. }
  rewrite Hmap. split; [assumption|]. split; [assumption|].
  intros s Hs. apply in_map_iff in Hs. destruct Hs as [g [<- Hg]].
  rewrite apply_mr_fp. unfold apply_mr. destruct mr; cbn [ps_samples]; rewrite (Hsmp g Hg); reflexivity.
Qed.

(* ====================================================================================== *)
(* E. rows ordered by (fingerprint, time): contiguity and ascending time per fingerprint   *)
(* ====================================================================================== *)

(* ---- insertion sort yields a list ordered by (fingerprint, timestamp_ns) ---- *)
Definition sle (a b : samplerow) : Prop :=
  (sm_fp a < sm_fp b)%N \/ (sm_fp a = sm_fp b /\ (sm_ts_ns a <= sm_ts_ns b)%Z).

Lemma sample_lt_false a b : PromSem.sample_lt a b = false -> sle b a.
Proof.
  unfold PromSem.sample_lt, sle. intros H. apply orb_false_elim in H. destruct H as [H1 H2].
  apply N.ltb_ge in H1. destruct (N.eqb_spec (sm_fp a) (sm_fp b)) as [He|Hne].
  - cbn [andb] in H2. apply Z.ltb_ge in H2. right. split; [congruence|assumption].
  - left. lia.
Qed.
Lemma sample_lt_true a b : PromSem.sample_lt a b = true -> sle a b.
Proof.
  unfold PromSem.sample_lt, sle. intros H. apply orb_prop in H. destruct H as [H|H].
  - left. now apply N.ltb_lt.
  - apply andb_prop in H. destruct H as [H1 H2]. apply N.eqb_eq in H1. apply Z.ltb_lt in H2. right. split; [assumption|lia].
Qed.
Lemma sle_trans a b c : sle a b -> sle b c -> sle a c.
Proof. unfold sle. intros [H1|[H1 H1']] [H2|[H2 H2']]; [left; lia|left; lia|left; lia|right; split; [congruence|lia]]. Qed.

Lemma insert_sorted_in {A} (lt : A -> A -> bool) x l y : List.In y (insert_sorted lt x l) <-> y = x \/ List.In y l.
Proof.
  induction l as [|z l IH]; cbn [insert_sorted List.In]; [intuition congruence|].
  destruct (lt x z); cbn [List.In]; [intuition congruence|]. rewrite IH. intuition congruence.
Qed.
Lemma isort_in {A} (lt : A -> A -> bool) l y : List.In y (isort lt l) <-> List.In y l.
Proof.
  unfold isort. assert (H : forall acc, List.In y (fold_left (fun acc x => insert_sorted lt x acc) l acc) <-> List.In y l \/ List.In y acc).
  { induction l as [|x l IH]; intros acc; cbn [fold_left List.In]; [tauto|]. rewrite IH, insert_sorted_in. intuition congruence. }
  rewrite H. cbn [List.In]. tauto.
Qed.

Lemma insert_sorted_sorted x l : StronglySorted sle l -> StronglySorted sle (insert_sorted PromSem.sample_lt x l).
Proof.
  induction l as [|y l IH]; intros Hs; cbn [insert_sorted].
  - constructor; constructor.
  - destruct (PromSem.sample_lt x y) eqn:Hlt.
    + constructor; [assumption|]. inversion Hs as [|? ? Hs' Hall]; subst.
      constructor; [now apply sample_lt_true|].
      apply Forall_forall. intros z Hz. rewrite Forall_forall in Hall.
      apply (sle_trans _ y); [now apply sample_lt_true|now apply Hall].
    + inversion Hs as [|? ? Hs' Hall]; subst. constructor; [now apply IH|].
      apply Forall_forall. intros z Hz. apply insert_sorted_in in Hz. destruct Hz as [->|Hz].
      * now apply sample_lt_false.
      * rewrite Forall_forall in Hall. now apply Hall.
Qed.
Lemma isort_sorted l : StronglySorted sle (isort PromSem.sample_lt l).
Proof.
  unfold isort. assert (H : forall acc, StronglySorted sle acc -> StronglySorted sle (fold_left (fun acc x => insert_sorted PromSem.sample_lt x acc) l acc)).
  { induction l as [|x l IH]; intros acc Ha; cbn [fold_left]; [assumption|]. apply IH. now apply insert_sorted_sorted. }
  apply H. constructor.
Qed.

(* ---- rows ordered by (fingerprint, time) are fingerprint-contiguous, ascending in time per fingerprint ---- *)
Lemma sorted_contiguous l : StronglySorted sle l -> contiguousb (map to_row l) = true.
Proof.
  induction l as [|a l IH]; intros Hs; [reflexivity|].
  inversion Hs as [|? ? Hs' Hall]; subst. cbn [map contiguousb]. rewrite (IH Hs'). cbn [andb].
  destruct l as [|b l']; [reflexivity|]. cbn [map].
  destruct (N.eqb_spec (r_fp (to_row b)) (r_fp (to_row a))) as [He|Hne]; [reflexivity|]. cbn [orb].
  apply negb_true_iff. apply not_true_is_false. intros Hex. apply existsb_exists in Hex. destruct Hex as [x [Hx Hfp]].
  apply N.eqb_eq in Hfp. change (to_row b :: map to_row l') with (map to_row (b :: l')) in Hx.
  apply in_map_iff in Hx. destruct Hx as [z [<- Hz]].
  rewrite Forall_forall in Hall. cbn [to_row r_fp] in *.
  assert (Hab := Hall b (or_introl eq_refl)).
  inversion Hs' as [|? ? _ Hallb]; subst. rewrite Forall_forall in Hallb.
  assert (Hbz : sle b z) by (destruct Hz as [->|Hz]; [right; split; [reflexivity|lia]|now apply Hallb]).
  unfold sle in *. lia.
Qed.

Lemma filter_sorted (f : samplerow -> bool) l : StronglySorted sle l -> StronglySorted sle (filter f l).
Proof.
  induction l as [|a l IH]; intros Hs; [constructor|]. inversion Hs as [|? ? Hs' Hall]; subst. cbn [filter].
  destruct (f a); [|now apply IH]. constructor; [now apply IH|].
  apply Forall_forall. intros z Hz. apply filter_In in Hz. rewrite Forall_forall in Hall. now apply Hall.
Qed.

(* timestamps (ms) of the rows of one fingerprint never decrease *)
Lemma sorted_fp_ascending l fp : StronglySorted sle l ->
  StronglySorted Z.le (map fst (rows_of fp (map to_row l))).
Proof.
  intros Hs. unfold rows_of. rewrite filter_map_comm, !map_map. cbn [to_row r_fp r_ts r_val fst].
  assert (Hf := filter_sorted (fun x => N.eqb (sm_fp x) fp) l Hs).
  assert (Hfp : forall x, List.In x (filter (fun x => N.eqb (sm_fp x) fp) l) -> sm_fp x = fp).
  { intros x Hx. apply filter_In in Hx. now apply N.eqb_eq. }
  remember (filter (fun x => N.eqb (sm_fp x) fp) l) as fl eqn:E. clear E Hs l.
  induction fl as [|a l IH]; [constructor|]. inversion Hf as [|? ? Hs' Hall]; subst.
  cbn [map]. constructor; [apply IH; [assumption|intros; apply Hfp; now right]|].
  apply Forall_forall. intros z Hz. apply in_map_iff in Hz. destruct Hz as [b [<- Hb]].
  rewrite Forall_forall in Hall. specialize (Hall b Hb).
  assert (sm_fp a = fp) by (apply Hfp; now left). assert (sm_fp b = fp) by (apply Hfp; now right).
  unfold sle in Hall. assert (Hle : (sm_ts_ns a <= sm_ts_ns b)%Z) by lia.
  apply Z.quot_le_mono; lia.
Qed.

(* ====================================================================================== *)
(* F. the raw / down-sampled decision                                                      *)
(* ====================================================================================== *)
Open Scope string_scope.

(* functions the down-sampled table cannot answer: listed with `false` in supportedFunctions *)
Definition explicitly_unsupported : list string := ["quantile_over_time"; "stddev_over_time"; "stdvar_over_time"].

Definition unsupported_flag (f : string) : bool :=
  match map_get f supported_functions with Some b => negb b | None => false end.

Lemma unsupported_flag_spec f : unsupported_flag f = mem_str f explicitly_unsupported.
Proof.
  unfold unsupported_flag, supported_functions, explicitly_unsupported, mem_str.
  cbn [map_get existsb].
  repeat match goal with
         | |- context [String.eqb f ?k] =>
           let E := fresh "E" in
           destruct (String.eqb f k) eqn:E; [apply String.eqb_eq in E; subst f; reflexivity|]
         end.
  reflexivity.
Qed.

Theorem use_raw_data_spec h :
  use_raw_data h = true <->
  (~ (15000 | h_start h)%Z \/ (h_step h < 15000)%Z \/ (0 < h_range h < 15000)%Z \/ List.In (h_func h) explicitly_unsupported).
Proof.
  unfold use_raw_data.
  assert (Hflag : (let '(is_supported, ok) := match map_get (h_func h) supported_functions with
                                             | Some b => (b, true) | None => (false, false) end in
                   negb (is_supported || negb ok)) = mem_str (h_func h) explicitly_unsupported).
  { rewrite <- unsupported_flag_spec. unfold unsupported_flag.
    destruct (map_get (h_func h) supported_functions) as [[|]|]; reflexivity. }
  destruct (match map_get (h_func h) supported_functions with Some b => (b, true) | None => (false, false) end) as [sup ok].
  rewrite Hflag. clear Hflag.
  rewrite !orb_true_iff, negb_true_iff, Z.eqb_neq, andb_true_iff, !Z.ltb_lt.
  assert (Hdiv : Z.rem (h_start h) 15000 <> 0%Z <-> ~ (15000 | h_start h)%Z).
  { rewrite Z.rem_divide by lia. tauto. }
  assert (Hmem : mem_str (h_func h) explicitly_unsupported = true <-> List.In (h_func h) explicitly_unsupported).
  { unfold mem_str. rewrite existsb_exists. split.
    - intros [x [Hx He]]. apply String.eqb_eq in He. now subst.
    - intros Hin. exists (h_func h). split; [assumption|apply String.eqb_refl]. }
  rewrite Hdiv, Hmem. tauto.
Qed.

(* ====================================================================================== *)
(* G. composition: the rows answered to Select's statement = the Prometheus meaning        *)
(* ====================================================================================== *)

Section COMPOSE.
  Variable re_match re_full : string -> string -> bool.

  Lemma existsb_ext_in (l1 l2 : list N) x : (forall fp, List.In fp l1 <-> List.In fp l2) ->
    existsb (N.eqb x) l1 = existsb (N.eqb x) l2.
  Proof.
    intros H. destruct (existsb (N.eqb x) l1) eqn:E1; symmetry.
    - apply existsb_exists in E1. destruct E1 as [y [Hy He]]. apply existsb_exists. exists y. split; [now apply H|assumption].
    - apply not_true_is_false. intros E2. apply existsb_exists in E2. destruct E2 as [y [Hy He]].
      assert (existsb (N.eqb x) l1 = true) by (apply existsb_exists; exists y; split; [now apply H|assumption]). congruence.
  Qed.

  Lemma raw_rows_ext f t ty l1 l2 samples : (forall fp, List.In fp l1 <-> List.In fp l2) ->
    raw_rows f t ty l1 samples = raw_rows f t ty l2 samples.
  Proof.
    intros H. unfold raw_rows. do 2 f_equal. apply filter_ext. intros s. unfold sample_ok. f_equal. now apply existsb_ext_in.
  Qed.

  Lemma prom_ctx_fields cluster dbname h :
    let c := prom_ctx cluster dbname h in
    c_from_ns c = (h_start h * 1000000)%Z /\ c_to_ns c = (h_end h * 1000000)%Z /\ c_limit c = 0%Z /\ c_type c = 2%Z.
  Proof. destruct cluster; cbn; repeat split; reflexivity. Qed.

  (* what ClickHouse answers (under the reference reading) to the statement Select sends *)
  Definition prom_query_rows (cluster : bool) (dbname : string) (h : hints) (ms : list matcher) (db : database) : option (list row) :=
    eval_prom re_match (fst (querier_transpile re_full cluster dbname h ms)) db.

  (* the nanosecond bounds of the statement are the millisecond range [Start, End] *)
  Lemma window_ns_ms (a e t : Z) :
    ((a * 1000000 <=? t) && (t <? e * 1000000 + 1000000))%Z = ((a <=? t / 1000000) && (t / 1000000 <=? e))%Z.
  Proof.
    assert (Hk : (0 < 1000000)%Z) by lia.
    pose proof (Z.mul_div_le t 1000000 Hk) as H1. pose proof (Z.mul_succ_div_gt t 1000000 Hk) as H2.
    remember (t / 1000000)%Z as q eqn:Eq. clear Eq.
    assert (E1 : (a * 1000000 <=? t)%Z = (a <=? q)%Z).
    { destruct (Z.leb_spec (a * 1000000) t), (Z.leb_spec a q); try reflexivity; lia. }
    assert (E2 : (t <? e * 1000000 + 1000000)%Z = (q <=? e)%Z).
    { destruct (Z.ltb_spec t (e * 1000000 + 1000000)), (Z.leb_spec q e); try reflexivity; lia. }
    now rewrite E1, E2.
  Qed.

  Lemma expected_rows_raw h ms db :
    expected_rows re_full h ms db =
    raw_rows (h_start h * 1000000) (h_end h * 1000000) 2 (expected_fps re_full (from_day (h_start h * 1000000)) ms (d_series db)) (d_samples db).
  Proof.
    unfold expected_rows, raw_rows. do 2 f_equal. apply filter_ext. intros s.
    unfold sample_ok, in_range_ms, metric_sample. now rewrite window_ns_ms.
  Qed.

  Hypothesis anchor_law : forall v p, re_match v (anchor p) = re_full v p.

  Theorem prom_rows_exact cluster dbname h ms db :
    use_raw_data h = true -> h_step h = 0%Z ->
    db_ok (from_day (h_start h * 1000000)) (d_gin db) (d_series db) ->
    selective re_full ms = true -> (List.length ms <= 63)%nat ->
    prom_query_rows cluster dbname h ms db = Some (expected_rows re_full h ms db).
  Proof.
    intros Hraw Hstep Hdb Hne Hlen.
    unfold prom_query_rows, querier_transpile. rewrite Hraw. cbn [fst].
    unfold transpile_label_matchers. rewrite Hstep. cbn [Z.eqb].
    fold (raw_query re_full (prom_ctx cluster dbname h) ms).
    destruct (prom_ctx_fields cluster dbname h) as [Hf [Ht [Hl Hty]]].
    unfold eval_prom.
    destruct (raw_query_fields re_full (prom_ctx cluster dbname h) ms ltac:(lia)) as [_ [_ [_ [Hgb _]]]]. rewrite Hgb.
    rewrite eval_main_raw by lia. f_equal.
    rewrite expected_rows_raw. unfold the_fps, sel_type. rewrite Hf, Ht, Hty. cbn [Z.eqb].
    apply raw_rows_ext. intros fp. now apply (prom_fp_select re_match re_full anchor_law).
  Qed.
End COMPOSE.

(* ====================================================================================== *)
(* H. Select up to the labels; refutation witnesses                                        *)
(* ====================================================================================== *)

Section SELECTED.
  Variable re_match re_full : string -> string -> bool.

  (* the stored samples inside the requested range [Start, End] (milliseconds, both ends included), of metric type *)
  Definition window_ok (h : hints) (s : samplerow) : bool := in_range_ms h s && metric_sample s.
  Lemma window_ok_ns h s fps :
    sample_ok (h_start h * 1000000) (h_end h * 1000000) 2 fps s = window_ok h s && existsb (N.eqb (sm_fp s)) fps.
  Proof. unfold sample_ok, window_ok, in_range_ms, metric_sample. now rewrite window_ns_ms. Qed.

  Lemma raw_rows_fps f t ty fps samples fp :
    List.In fp (map r_fp (raw_rows f t ty fps samples)) <->
    exists s, List.In s samples /\ sample_ok f t ty fps s = true /\ sm_fp s = fp.
  Proof.
    unfold raw_rows. rewrite map_map. cbn [to_row r_fp]. rewrite in_map_iff. split.
    - intros [s [Hfp Hs]]. apply isort_in in Hs. apply filter_In in Hs. exists s. tauto.
    - intros [s [Hs [Hok Hfp]]]. exists s. split; [assumption|]. apply isort_in. apply filter_In. tauto.
  Qed.

  Hypothesis anchor_law : forall v p, re_match v (anchor p) = re_full v p.

  (* Select, up to the labels: the statement is evaluated, the rows are grouped *)
  Theorem prom_select_series_exact cluster dbname h ms db :
    use_raw_data h = true -> h_step h = 0%Z ->
    db_ok (from_day (h_start h * 1000000)) (d_gin db) (d_series db) ->
    selective re_full ms = true -> (List.length ms <= 63)%nat ->
    exists rows, prom_query_rows re_match re_full cluster dbname h ms db = Some rows /\
      let ss := select_loop (snd (querier_transpile re_full cluster dbname h ms)) rows in
      NoDup (map ps_fp ss) /\
      (forall fp, List.In fp (map ps_fp ss) <->
                  List.In fp (expected_fps re_full (from_day (h_start h * 1000000)) ms (d_series db)) /\
                  exists s, List.In s (d_samples db) /\ window_ok h s = true /\ sm_fp s = fp) /\
      (forall s, List.In s ss ->
         ps_samples s = rows_of (ps_fp s) rows /\
         StronglySorted Z.le (map fst (ps_samples s)) /\
         (forall x, List.In x (ps_samples s) <->
            exists sm, List.In sm (d_samples db) /\ window_ok h sm = true /\ sm_fp sm = ps_fp s /\
                       x = (Z.quot (sm_ts_ns sm) 1000000, sm_value sm))).
  Proof.
    intros Hraw Hstep Hdb Hne Hlen.
    exists (expected_rows re_full h ms db). split; [now apply prom_rows_exact|].
    unfold querier_transpile. rewrite Hraw. cbn [snd].
    set (fps := expected_fps re_full (from_day (h_start h * 1000000)) ms (d_series db)).
    rewrite expected_rows_raw. fold fps. unfold raw_rows.
    set (kept := isort PromSem.sample_lt (filter (sample_ok (h_start h * 1000000) (h_end h * 1000000) 2 fps) (d_samples db))).
    assert (Hsorted : StronglySorted sle kept) by apply isort_sorted.
    destruct (select_loop_spec false (map to_row kept) (sorted_contiguous kept Hsorted)) as [Hnd [Hfps Hsmp]].
    split; [assumption|]. split.
    - intros fp. rewrite <- Hfps.
      change (map to_row kept) with (raw_rows (h_start h * 1000000) (h_end h * 1000000) 2 fps (d_samples db)).
      rewrite raw_rows_fps. setoid_rewrite window_ok_ns. split.
      + intros [s [Hs [Hok Hfp]]]. apply andb_prop in Hok. destruct Hok as [Hw Hex].
        split; [|exists s; tauto]. apply existsb_exists in Hex. destruct Hex as [y [Hy He]]. apply N.eqb_eq in He. congruence.
      + intros [Hin [s [Hs [Hw Hfp]]]]. exists s. split; [assumption|]. split; [|assumption].
        rewrite Hw. cbn [andb]. apply existsb_exists. exists fp. split; [assumption|]. now apply N.eqb_eq.
    - intros s Hs. split; [now apply Hsmp|]. rewrite (Hsmp s Hs). split; [now apply sorted_fp_ascending|].
      intros x. unfold rows_of. rewrite filter_map_comm, map_map. cbn [to_row r_fp r_ts r_val]. rewrite in_map_iff. split.
      + intros [sm [Hx Hsm]]. apply filter_In in Hsm. destruct Hsm as [Hsm Hfp]. apply isort_in in Hsm. apply filter_In in Hsm.
        destruct Hsm as [Hsm Hok]. rewrite window_ok_ns in Hok. apply andb_prop in Hok. destruct Hok as [Hw _].
        exists sm. split; [assumption|]. split; [exact Hw|]. split; [now apply N.eqb_eq|now symmetry].
      + intros [sm [Hsm [Hw [Hfp ->]]]]. exists sm. split; [reflexivity|]. apply filter_In. split; [|now apply N.eqb_eq].
        apply isort_in. apply filter_In. split; [assumption|]. rewrite window_ok_ns, Hw. cbn [andb].
        apply existsb_exists. exists (ps_fp s). split; [|now apply N.eqb_eq].
        assert (Hin : List.In (ps_fp s) (map ps_fp (select_loop false (map to_row kept)))) by now apply in_map.
        apply Hfps in Hin. change (map to_row kept) with (raw_rows (h_start h * 1000000) (h_end h * 1000000) 2 fps (d_samples db)) in Hin.
        apply raw_rows_fps in Hin. destruct Hin as [s' [_ [Hok' Hfp']]]. rewrite window_ok_ns in Hok'. apply andb_prop in Hok'.
        destruct Hok' as [_ Hex]. apply existsb_exists in Hex. destruct Hex as [y [Hy He]]. apply N.eqb_eq in He. congruence.
  Qed.
End SELECTED.

(* ---- refutations, by computation on concrete databases ---- *)
Definition re_lit (h p : string) : bool := String.eqb h p.       (* any oracle will do: no regex matcher in the witnesses *)

Definition w_series : list tsrow :=
  [{| t_date := 19675; t_fp := 31; t_type := 2; t_labels := [("__name__", "up"); ("instance", "h:9090")] |};
   {| t_date := 19675; t_fp := 32; t_type := 2; t_labels := [("__name__", "up"); ("env", "dev")] |}].
Definition gin_of (series : list tsrow) : list ginrow :=
  flat_map (fun s => map (fun kv => {| g_date := t_date s; g_key := fst kv; g_val := snd kv; g_fp := t_fp s; g_type := t_type s |}) (t_labels s)) series.
Definition w_db : database :=
  {| d_gin := gin_of w_series;
     d_samples := [{| sm_fp := 31; sm_type := 2; sm_ts_ns := 1700000001000000000; sm_value := 1 |};
                   {| sm_fp := 32; sm_type := 2; sm_ts_ns := 1700000001000000000; sm_value := 2 |}];
     d_series := w_series |}.
Definition w_hints : hints := {| h_start := 1700000000000; h_end := 1700003600000; h_step := 0; h_func := ""; h_range := 0 |}.
Definition w_ms : list matcher := [{| m_name := "__name__"; m_op := MEq; m_val := "up" |}; {| m_name := "env"; m_op := MNeq; m_val := "prod" |}].

Lemma gin_of_in series r : List.In r (gin_of series) <->
  exists s kv, List.In s series /\ List.In kv (t_labels s) /\
               r = {| g_date := t_date s; g_key := fst kv; g_val := snd kv; g_fp := t_fp s; g_type := t_type s |}.
Proof.
  unfold gin_of. rewrite in_flat_map. split.
  - intros [s [Hs Hr]]. apply in_map_iff in Hr. destruct Hr as [kv [<- Hkv]]. exists s, kv. tauto.
  - intros [s [kv [Hs [Hkv ->]]]]. exists s. split; [assumption|]. apply in_map_iff. exists kv. tauto.
Qed.

(* an index derived from the series table is consistent with it *)
Lemma gin_of_db_ok D series :
  (forall s1 s2, List.In s1 series -> List.In s2 series -> t_fp s1 = t_fp s2 -> t_labels s1 = t_labels s2) ->
  (forall s, List.In s series -> NoDup (map fst (t_labels s))) ->
  db_ok D (gin_of series) series.
Proof.
  intros Hf Hk. constructor; [| |intros s1 s2 H1 H2 _ _; now apply Hf|exact Hk].
  - intros r Hr Hd Ht. apply gin_of_in in Hr. destruct Hr as [s [[k v] [Hs [Hkv ->]]]]. cbn in *.
    exists s. repeat split; assumption.
  - intros s Hs Hd Ht k v Hkv.
    exists {| g_date := t_date s; g_key := k; g_val := v; g_fp := t_fp s; g_type := t_type s |}.
    split; [apply gin_of_in; exists s, (k, v); tauto|]. cbn. repeat split; assumption.
Qed.

Lemma w_db_ok : db_ok (from_day (h_start w_hints * 1000000)) (d_gin w_db) (d_series w_db).
Proof.
  apply gin_of_db_ok.
  - intros s1 s2 H1 H2. cbn in H1, H2. destruct H1 as [<-|[<-|[]]], H2 as [<-|[<-|[]]]; cbn; intros E; try reflexivity; discriminate.
  - intros s Hs. cbn in Hs. destruct Hs as [<-|[<-|[]]]; cbn; repeat constructor; cbn; intuition discriminate.
Qed.

(* Prometheus selects both series (series 31 has no env label: "" != "prod"); so does the statement since the
   fix e2b3950 (before it, only series 32 was selected: the former theorem prom_select_exact_refuted) *)
Lemma w_rows : prom_query_rows re_lit re_lit false "qryn" w_hints w_ms w_db =
  Some [{| r_fp := 31; r_val := 1; r_ts := 1700000001000 |}; {| r_fp := 32; r_val := 2; r_ts := 1700000001000 |}].
Proof. vm_compute. reflexivity. Qed.
Lemma w_expected : expected_rows re_lit w_hints w_ms w_db =
  [{| r_fp := 31; r_val := 1; r_ts := 1700000001000 |}; {| r_fp := 32; r_val := 2; r_ts := 1700000001000 |}].
Proof. vm_compute. reflexivity. Qed.

(* nine matchers, a series carrying exactly these labels: selected *)
Definition nine : list (string * string) :=
  [("a","1");("b","2");("c","3");("d","4");("e","5");("f","6");("g","7");("h","8");("i","9")].
Definition n_series : list tsrow := [{| t_date := 19675; t_fp := 41; t_type := 2; t_labels := nine |}].
Definition n_db : database :=
  {| d_gin := gin_of n_series;
     d_samples := [{| sm_fp := 41; sm_type := 2; sm_ts_ns := 1700000001000000000; sm_value := 1 |}];
     d_series := n_series |}.
Definition n_ms : list matcher := map (fun kv => {| m_name := fst kv; m_op := MEq; m_val := snd kv |}) nine.
(* (before fix 052673d the ninth bit was shifted out of UInt8 and nothing was selected) *)
Lemma n_rows : prom_query_rows re_lit re_lit false "qryn" w_hints n_ms n_db = Some [{| r_fp := 41; r_val := 1; r_ts := 1700000001000 |}].
Proof. vm_compute. reflexivity. Qed.
Lemma n_expected : expected_rows re_lit w_hints n_ms n_db = [{| r_fp := 41; r_val := 1; r_ts := 1700000001000 |}].
Proof. vm_compute. reflexivity. Qed.

(* ---- the same for an oracle pair that trivially obeys the anchoring law (the witnesses hold no regex matcher) ---- *)
Definition re_none (h p : string) : bool := false.
Lemma w_rows_none : prom_query_rows re_none re_none false "qryn" w_hints w_ms w_db =
  Some [{| r_fp := 31; r_val := 1; r_ts := 1700000001000 |}; {| r_fp := 32; r_val := 2; r_ts := 1700000001000 |}].
Proof. vm_compute. reflexivity. Qed.
Lemma w_expected_none : expected_rows re_none w_hints w_ms w_db =
  [{| r_fp := 31; r_val := 1; r_ts := 1700000001000 |}; {| r_fp := 32; r_val := 2; r_ts := 1700000001000 |}].
Proof. vm_compute. reflexivity. Qed.
Lemma n_rows_none : prom_query_rows re_none re_none false "qryn" w_hints n_ms n_db = Some [{| r_fp := 41; r_val := 1; r_ts := 1700000001000 |}].
Proof. vm_compute. reflexivity. Qed.
Lemma n_expected_none : expected_rows re_none w_hints n_ms n_db = [{| r_fp := 41; r_val := 1; r_ts := 1700000001000 |}].
Proof. vm_compute. reflexivity. Qed.
Lemma n_db_ok : db_ok (from_day (h_start w_hints * 1000000)) (d_gin n_db) (d_series n_db).
Proof.
  apply gin_of_db_ok.
  - intros s1 s2 H1 H2. cbn in H1, H2. destruct H1 as [<-|[]], H2 as [<-|[]]. reflexivity.
  - intros s Hs. cbn in Hs. destruct Hs as [<-|[]]. cbn. repeat constructor; cbn; intuition discriminate.
Qed.

(* non-vacuity of the exactness theorem, on the matcher set that used to refute it: {__name__="up", env!="prod"}
   over a series without an env label *)
Definition g_ms : list matcher := [{| m_name := "__name__"; m_op := MEq; m_val := "up" |}; {| m_name := "env"; m_op := MEq; m_val := "dev" |}].
Example exact_hypotheses_met :
  use_raw_data w_hints = true /\ h_step w_hints = 0%Z /\
  db_ok (from_day (h_start w_hints * 1000000)) (d_gin w_db) (d_series w_db) /\
  selective re_none w_ms = true /\ (List.length w_ms <= 63)%nat /\
  accepts_empty re_none {| m_name := "env"; m_op := MNeq; m_val := "prod" |} = true /\
  expected_rows re_none w_hints w_ms w_db =
    [{| r_fp := 31; r_val := 1; r_ts := 1700000001000 |}; {| r_fp := 32; r_val := 2; r_ts := 1700000001000 |}] /\
  prom_query_rows re_none re_none false "qryn" w_hints g_ms w_db = Some [{| r_fp := 32; r_val := 2; r_ts := 1700000001000 |}].
Proof.
  split; [reflexivity|]. split; [reflexivity|]. split; [exact w_db_ok|]. split; [reflexivity|]. split; [cbn; lia|].
  split; [reflexivity|]. split; [exact w_expected_none|]. vm_compute. reflexivity.
Qed.

(* the requested range is closed in milliseconds: a sample exactly at Start and one within the last millisecond of
   End are handed out (before fix f155c1f the statement said timestamp_ns > Start and <= End in nanoseconds) *)
Definition b_db : database :=
  {| d_gin := gin_of w_series;
     d_samples := [{| sm_fp := 32; sm_type := 2; sm_ts_ns := 1700000000000000000; sm_value := 7 |};
                   {| sm_fp := 32; sm_type := 2; sm_ts_ns := 1700003600000999999; sm_value := 8 |};
                   {| sm_fp := 32; sm_type := 2; sm_ts_ns := 1699999999999999999; sm_value := 5 |};
                   {| sm_fp := 32; sm_type := 2; sm_ts_ns := 1700003600001000000; sm_value := 9 |}];
     d_series := w_series |}.
Example window_bounds_included :
  prom_query_rows re_none re_none false "qryn" w_hints g_ms b_db =
    Some [{| r_fp := 32; r_val := 7; r_ts := 1700000000000 |}; {| r_fp := 32; r_val := 8; r_ts := 1700003600000 |}] /\
  expected_rows re_none w_hints g_ms b_db =
    [{| r_fp := 32; r_val := 7; r_ts := 1700000000000 |}; {| r_fp := 32; r_val := 8; r_ts := 1700003600000 |}].
Proof. split; vm_compute; reflexivity. Qed.
Example contiguous_example :
  contiguousb [{| r_fp := 3; r_val := 1; r_ts := 10 |}; {| r_fp := 3; r_val := 4; r_ts := 20 |}; {| r_fp := 7; r_val := 2; r_ts := 5 |}] = true.
Proof. reflexivity. Qed.

(* ====================================================================================== *)
(* I. profile selectors: the reading of the statement, and the Pyroscope meaning           *)
(* ====================================================================================== *)
Open Scope string_scope.
Section PROF.
  Variable re_match : string -> string -> bool.

  Lemma split_selectors_spec sels :
    let '(g, kv) := split_selectors sels in
    (forall x, List.In x g <-> exists s p, List.In s sels /\ pseudo_of (sl_name s) = Some p /\ x = (p, sl_op s, sl_val s)) /\
    (forall k, List.In k kv <-> List.In k sels /\ pseudo_of (sl_name k) = None).
  Proof.
    induction sels as [|s sels IH]; cbn [split_selectors].
    - split; [intros x; split; [intros []|intros [s [p [[] _]]]]|intros k; split; [intros []|intros [[] _]]].
    - destruct (split_selectors sels) as [g kv]. destruct IH as [IHg IHk].
      destruct (pseudo_of (sl_name s)) as [p|] eqn:Hp.
      + split.
        * intros x. cbn [List.In]. rewrite IHg. split.
          -- intros [<-|[s' [p' [Hs' [Hp' Hx]]]]]; [exists s, p; tauto|exists s', p'; tauto].
          -- intros [s' [p' [[<-|Hs'] [Hp' ->]]]]; [left; congruence|right; exists s', p'; tauto].
        * intros k. rewrite IHk. cbn [List.In]. split; [tauto|]. intros [[<-|Hk] Hn]; [congruence|tauto].
      + split.
        * intros x. rewrite IHg. cbn [List.In]. split.
          -- intros [s' [p' [Hs' H]]]. exists s', p'. tauto.
          -- intros [s' [p' [[<-|Hs'] [Hp' Hx]]]]; [congruence|exists s', p'; tauto].
        * intros k. cbn [List.In]. rewrite IHk. split; [intros [<-|[H1 H2]]; tauto|]. intros [[<-|Hk] Hn]; tauto.
  Qed.

  Definition prow_sem (D1 D2 : Z) (g : list (pseudo * mop * string)) (rows : list pginrow) (fp : N) (r : pginrow) : Prop :=
    List.In r rows /\ pg_fp r = fp /\ (D1 <= pg_date r)%Z /\ (pg_date r <= D2)%Z /\ forallb (fun x => global_ok re_match x r) g = true.

  (* the reading of the profile selector statement: which fingerprints it returns *)
  Theorem prof_sel_correct D1 D2 sels rows fp :
    let '(g, kv) := split_selectors sels in
    (List.length kv <= 63)%nat ->
    (List.In fp (prof_fp_sel re_match D1 D2 sels rows) <->
     match kv with
     | [] => exists r, prow_sem D1 D2 g rows fp r
     | _ => forall k, List.In k kv -> exists r, prow_sem D1 D2 g rows fp r /\ eval_clause re_match (sel_clause_of k) (to_gin r) = true
     end).
  Proof.
    unfold prof_fp_sel. destruct (split_selectors sels) as [g kv]. intros Hlen.
    assert (Hrow : forall cs r, List.In r (filter (prow_ok re_match D1 D2 g cs) rows) <->
              List.In r rows /\ (D1 <= pg_date r)%Z /\ (pg_date r <= D2)%Z /\ forallb (fun x => global_ok re_match x r) g = true /\
              match cs with [] => True | _ => existsb (fun c => eval_clause re_match c (to_gin r)) cs = true end).
    { intros cs r. rewrite filter_In. unfold prow_ok. rewrite !andb_true_iff, !Z.leb_le.
      destruct cs; [intuition|]. intuition. }
    destruct kv as [|k0 kv'].
    - cbn [map]. rewrite nodup_In, in_map_iff. unfold prow_sem. split.
      + intros [r [Hfp Hr]]. apply Hrow in Hr. exists r. tauto.
      + intros [r Hr]. exists r. split; [tauto|]. apply Hrow. tauto.
    - cbn [map]. set (c0 := sel_clause_of k0). set (cs' := map sel_clause_of kv'). set (cs := c0 :: cs').
      assert (Hmap : cs = map sel_clause_of (k0 :: kv')) by reflexivity.
      rewrite filter_In, nodup_In, in_map_iff, N.eqb_eq.
      rewrite (having_iff re_match cs) by (rewrite Hmap, map_length; lia).
      assert (Hrow' : forall r, List.In r (filter (prow_ok re_match D1 D2 g cs) rows) <->
                List.In r rows /\ (D1 <= pg_date r)%Z /\ (pg_date r <= D2)%Z /\ forallb (fun x => global_ok re_match x r) g = true /\
                existsb (fun c => eval_clause re_match c (to_gin r)) cs = true) by (intros r; apply (Hrow cs r)).
      split.
      + intros [_ H] k Hk. destruct (H (sel_clause_of k)) as [r' [Hr' Hev]]; [rewrite Hmap; now apply in_map|].
        unfold group_of in Hr'. apply filter_In in Hr'. destruct Hr' as [Hr' Hfp]. apply in_map_iff in Hr'.
        destruct Hr' as [r [<- Hr]]. apply Hrow' in Hr. exists r. split; [|assumption].
        unfold prow_sem. apply N.eqb_eq in Hfp. cbn [to_gin g_fp] in Hfp. tauto.
      + intros H.
        assert (Hin : forall c, List.In c cs -> exists r', List.In r' (group_of (map to_gin (filter (prow_ok re_match D1 D2 g cs) rows)) fp)
                                                    /\ eval_clause re_match c r' = true).
        { intros c Hc. rewrite Hmap in Hc. apply in_map_iff in Hc. destruct Hc as [k [<- Hk]].
          destruct (H k Hk) as [r [[Hr [Hfp [Hd1 [Hd2 Hg]]]] Hev]]. exists (to_gin r). split; [|assumption].
          unfold group_of. apply filter_In. split; [|cbn [to_gin g_fp]; now apply N.eqb_eq].
          apply in_map. apply Hrow'. repeat split; try assumption.
          apply existsb_exists. exists (sel_clause_of k). split; [rewrite Hmap; now apply in_map|assumption]. }
        split; [|exact Hin].
        destruct (Hin c0) as [r' [Hr' _]]; [now left|].
        unfold group_of in Hr'. apply filter_In in Hr'. destruct Hr' as [Hr' Hfp]. apply in_map_iff in Hr'.
        destruct Hr' as [r [<- Hr]]. exists r. split; [apply N.eqb_eq in Hfp; exact Hfp|exact Hr].
  Qed.
End PROF.

Section PROFEXACT.
  Variable re_match re_full : string -> string -> bool.
  Hypothesis anchor_law : forall v p, re_match v (anchor p) = re_full v p.

  Lemma psv_name s : sl_name (prof_selector_val s) = sl_name s.
  Proof. unfold prof_selector_val. destruct (sl_op s); reflexivity. Qed.
  Lemma psv_op s : sl_op (prof_selector_val s) = sl_op s.
  Proof. unfold prof_selector_val. destruct (sl_op s) eqn:E; cbn; congruence. Qed.
  Lemma cmp_anchor s x :
    cmp_ok re_match (sl_op (prof_selector_val s)) (sl_val (prof_selector_val s)) x = cmp_ok re_full (sl_op s) (sl_val s) x.
  Proof.
    unfold prof_selector_val, cmp_ok. destruct (sl_op s) eqn:E; cbn [sl_op sl_val]; rewrite ?E; try reflexivity; now rewrite anchor_law.
  Qed.
  Lemma existsb_ext' {A} (f g : A -> bool) l : (forall x, f x = g x) -> existsb f l = existsb g l.
  Proof. intros H. induction l as [|x l IH]; [reflexivity|]. cbn [existsb]. now rewrite H, IH. Qed.
  Lemma pseudo_anchor p s parts svc stu :
    pseudo_ok re_match p (sl_op (prof_selector_val s)) (sl_val (prof_selector_val s)) parts svc stu =
    pseudo_ok re_full p (sl_op s) (sl_val s) parts svc stu.
  Proof.
    unfold pseudo_ok. destruct p; try apply cmp_anchor; apply existsb_ext'; intros; apply cmp_anchor.
  Qed.
  Lemma clause_anchor s r :
    eval_clause re_match (sel_clause_of (prof_selector_val s)) r =
    String.eqb (g_key r) (sl_name s) && prom_match_val re_full (sl_op s) (sl_val s) (g_val r).
  Proof.
    unfold eval_clause, sel_clause_of, clause_of. cbn [c_key c_cond m_name m_op m_val]. rewrite psv_name. f_equal.
    unfold prof_selector_val, prom_match_val. destruct (sl_op s) eqn:E; cbn [sl_op sl_val eval_vcond]; rewrite ?E; cbn [eval_vcond]; try reflexivity.
    - rewrite anchor_law. destruct (re_full (g_val r) (sl_val s)); reflexivity.
    - rewrite anchor_law. destruct (re_full (g_val r) (sl_val s)); reflexivity.
  Qed.

  Definition row_of (s : pstored) (kv : string * string) : pginrow :=
    {| pg_date := p_date s; pg_key := fst kv; pg_val := snd kv; pg_fp := p_fp s; pg_type_id := p_type_id s;
       pg_service := p_service s; pg_stu := p_stu s |}.
  Lemma pgin_of_in series r : List.In r (pgin_of series) <-> exists s kv, List.In s series /\ List.In kv (p_labels s) /\ r = row_of s kv.
  Proof.
    unfold pgin_of. rewrite in_flat_map. split.
    - intros [s [Hs Hr]]. apply in_map_iff in Hr. destruct Hr as [kv [<- Hkv]]. exists s, kv. tauto.
    - intros [s [kv [Hs [Hkv ->]]]]. exists s. split; [assumption|]. apply in_map_iff. exists kv. tauto.
  Qed.

  Record pdb_ok (series : list pstored) : Prop := {
    plabels_functional : forall s1 s2, List.In s1 series -> List.In s2 series -> p_fp s1 = p_fp s2 -> p_labels s1 = p_labels s2;
    pkeys_unique : forall s, List.In s series -> NoDup (map fst (p_labels s));
    plabels_nonempty : forall s, List.In s series -> p_labels s <> []
  }.
  Definition selector_guard (series : list pstored) (sel : selector) : Prop :=
    pseudo_of (sl_name sel) = None ->
    prom_match_val re_full (sl_op sel) (sl_val sel) "" = false \/
    (forall s, List.In s series -> has_label (p_labels s) (sl_name sel) = true).

  Theorem prof_fp_select D1 D2 sels series fp :
    pdb_ok series ->
    (List.length (snd (split_selectors (map prof_selector_val sels))) <= 63)%nat ->
    (forall sel, List.In sel sels -> selector_guard series sel) ->
    (List.In fp (prof_fp_sel re_match D1 D2 (map prof_selector_val sels) (pgin_of series)) <->
     List.In fp (prof_expected re_full D1 D2 sels series)).
  Proof.
    intros Hdb Hlen Hguard.
    assert (Hcorr := prof_sel_correct re_match D1 D2 (map prof_selector_val sels) (pgin_of series) fp).
    assert (Hspec := split_selectors_spec (map prof_selector_val sels)).
    destruct (split_selectors (map prof_selector_val sels)) as [g kv]. cbn [snd] in Hlen.
    destruct Hspec as [Hg Hkv]. rewrite (Hcorr Hlen). clear Hcorr.
    (* facts used in both directions *)
    assert (Hglob : forall s kv0, forallb (fun x => global_ok re_match x (row_of s kv0)) g = true <->
                    (forall sel p, List.In sel sels -> pseudo_of (sl_name sel) = Some p ->
                       pseudo_ok re_full p (sl_op sel) (sl_val sel) (split_char ":" (p_type_id s) "") (p_service s) (p_stu s) = true)).
    { intros s kv0. rewrite forallb_forall. split.
      - intros H sel p Hsel Hp. rewrite <- pseudo_anchor.
        apply (H (p, sl_op (prof_selector_val sel), sl_val (prof_selector_val sel))).
        apply Hg. exists (prof_selector_val sel), p. split; [now apply in_map|]. rewrite psv_name. tauto.
      - intros H x Hx. apply Hg in Hx. destruct Hx as [s' [p [Hs' [Hp ->]]]]. apply in_map_iff in Hs'.
        destruct Hs' as [sel [<- Hsel]]. rewrite psv_name in Hp. unfold global_ok, type_parts. cbn [row_of pg_type_id pg_service pg_stu].
        rewrite pseudo_anchor. now apply (H sel p). }
    assert (Hkv' : forall k, List.In k kv <-> exists sel, List.In sel sels /\ pseudo_of (sl_name sel) = None /\ k = prof_selector_val sel).
    { intros k. rewrite Hkv. split.
      - intros [Hk Hn]. apply in_map_iff in Hk. destruct Hk as [sel [<- Hsel]]. rewrite psv_name in Hn. exists sel. tauto.
      - intros [sel [Hsel [Hn ->]]]. split; [now apply in_map|]. now rewrite psv_name. }
    unfold prof_expected. rewrite nodup_In, in_map_iff.
    assert (Hmatch : forall s, List.In s series -> p_fp s = fp -> (D1 <= p_date s)%Z -> (p_date s <= D2)%Z ->
               (forall sel, List.In sel sels -> sel_matches re_full sel s = true) ->
               exists s0, p_fp s0 = fp /\ List.In s0 (filter (fun s => (D1 <=? p_date s)%Z && (p_date s <=? D2)%Z && forallb (fun sel => sel_matches re_full sel s) sels) series)).
    { intros s Hs Hfp Hd1 Hd2 Hall. exists s. split; [assumption|]. apply filter_In. split; [assumption|].
      rewrite !andb_true_iff, !Z.leb_le, forallb_forall. tauto. }
    split.
    - (* the statement's answer satisfies the Pyroscope meaning *)
      intros Hsem.
      assert (Hsome : exists r, prow_sem re_match D1 D2 g (pgin_of series) fp r).
      { destruct kv as [|k0 kv']; [exact Hsem|]. destruct (Hsem k0 (or_introl eq_refl)) as [r [Hr _]]. now exists r. }
      destruct Hsome as [r0 [Hr0 [Hfp0 [Hd1 [Hd2 Hg0]]]]].
      apply pgin_of_in in Hr0. destruct Hr0 as [s0 [kv0 [Hs0 [Hkv0 ->]]]]. cbn [row_of pg_fp pg_date] in Hfp0, Hd1, Hd2.
      apply (Hmatch s0 Hs0 Hfp0 Hd1 Hd2). intros sel Hsel. unfold sel_matches.
      destruct (pseudo_of (sl_name sel)) as [p|] eqn:Hp.
      + now apply (proj1 (Hglob s0 kv0) Hg0 sel p).
      + assert (Hk : List.In (prof_selector_val sel) kv) by (apply Hkv'; exists sel; tauto).
        destruct kv as [|k0 kv']; [contradiction|].
        destruct (Hsem _ Hk) as [r [[Hr [Hfp _]] Hev]].
        apply pgin_of_in in Hr. destruct Hr as [s [[k v] [Hs [Hkvs ->]]]]. cbn [row_of pg_fp] in Hfp.
        rewrite clause_anchor in Hev. cbn [to_gin row_of g_key g_val pg_key pg_val fst snd] in Hev.
        apply andb_prop in Hev. destruct Hev as [Hkey Hval]. apply String.eqb_eq in Hkey. subst k.
        assert (Hl : p_labels s = p_labels s0) by (apply (plabels_functional _ Hdb); congruence).
        rewrite Hl in Hkvs. rewrite (label_value_in _ _ _ (pkeys_unique _ Hdb s0 Hs0) Hkvs). exact Hval.
    - (* every series with the Pyroscope meaning is answered *)
      intros [s [Hfp Hs]]. apply filter_In in Hs. destruct Hs as [Hs Hok].
      rewrite !andb_true_iff, !Z.leb_le, forallb_forall in Hok. destruct Hok as [[Hd1 Hd2] Hall].
      assert (Hrow : forall kv0, List.In kv0 (p_labels s) -> prow_sem re_match D1 D2 g (pgin_of series) fp (row_of s kv0)).
      { intros kv0 Hkv0. unfold prow_sem. split; [apply pgin_of_in; exists s, kv0; tauto|]. cbn [row_of pg_fp pg_date].
        split; [assumption|]. split; [assumption|]. split; [assumption|].
        apply Hglob. intros sel p Hsel Hp. specialize (Hall sel Hsel). unfold sel_matches in Hall. now rewrite Hp in Hall. }
      destruct kv as [|k0 kv'].
      + destruct (p_labels s) as [|kv0 l] eqn:El; [exfalso; now apply (plabels_nonempty _ Hdb s Hs)|].
        exists (row_of s kv0). apply Hrow. now left.
      + intros k Hk. apply Hkv' in Hk. destruct Hk as [sel [Hsel [Hn ->]]].
        assert (Hm := Hall sel Hsel). unfold sel_matches in Hm. rewrite Hn in Hm.
        assert (Hhas : has_label (p_labels s) (sl_name sel) = true).
        { destruct (Hguard sel Hsel Hn) as [Hrej|Hallhas]; [|now apply Hallhas].
          destruct (has_label (p_labels s) (sl_name sel)) eqn:Hh; [reflexivity|].
          rewrite (no_label_value _ _ Hh) in Hm. congruence. }
        apply has_label_in in Hhas.
        exists (row_of s (sl_name sel, label_value (p_labels s) (sl_name sel))). split; [now apply Hrow|].
        rewrite clause_anchor. cbn [to_gin row_of g_key g_val pg_key pg_val fst snd]. rewrite String.eqb_refl. exact Hm.
  Qed.
End PROFEXACT.

(* refutation witness: one stored profile series without a region label *)
Definition pw_series : list pstored :=
  [{| p_fp := 61; p_date := 19675; p_type_id := "process_cpu:cpu:nanoseconds"; p_service := "api";
      p_stu := [("cpu", "nanoseconds")]; p_labels := [("pod", "p-1")] |}].
Definition pw_sels : list selector := [{| sl_name := "region"; sl_op := MNeq; sl_val := "eu-west" |}].
Lemma pw_db_ok : pdb_ok pw_series.
Proof.
  constructor.
  - intros s1 s2 [<-|[]] [<-|[]] _. reflexivity.
  - intros s [<-|[]]. cbn. repeat constructor. intros [].
  - intros s [<-|[]]. discriminate.
Qed.
Lemma pw_selected : prof_fp_sel re_none 19675 19675 (map prof_selector_val pw_sels) (pgin_of pw_series) = [].
Proof. vm_compute. reflexivity. Qed.
Lemma pw_expected : prof_expected re_none 19675 19675 pw_sels pw_series = [61%N].
Proof. vm_compute. reflexivity. Qed.
(* non-vacuity of the partial theorem: a pseudo label and a present label, on the same series *)
Definition pg_sels : list selector :=
  [{| sl_name := "__name__"; sl_op := MEq; sl_val := "process_cpu" |}; {| sl_name := "__sample_type__"; sl_op := MEq; sl_val := "cpu" |};
   {| sl_name := "pod"; sl_op := MEq; sl_val := "p-1" |}].
Example prof_partial_hypotheses_met :
  pdb_ok pw_series /\ (List.length (snd (split_selectors (map prof_selector_val pg_sels))) <= 63)%nat /\
  (forall sel, List.In sel pg_sels -> selector_guard re_none pw_series sel) /\
  prof_fp_sel re_none 19675 19675 (map prof_selector_val pg_sels) (pgin_of pw_series) = [61%N].
Proof.
  split; [exact pw_db_ok|]. split; [cbn; lia|]. split; [|vm_compute; reflexivity].
  intros sel [<-|[<-|[<-|[]]]] Hn; try discriminate Hn. left. reflexivity.
Qed.

(* ====================================================================================== *)
(* J. processHints: what the engine sees after step bucketing / the modulo filter         *)
(* ====================================================================================== *)
Open Scope list_scope.
Open Scope Z_scope.
(* ---------------- range filter ---------------- *)
Lemma filter_filter_implied {A} (f g : A -> bool) l :
  (forall x, List.In x l -> f x = true -> g x = true) -> filter f (filter g l) = filter f l.
Proof.
  induction l as [|x l IH]; intros H; [reflexivity|]. cbn [filter].
  destruct (g x) eqn:Hg; cbn [filter].
  - destruct (f x); rewrite IH by (intros; apply H; [now right|assumption]); reflexivity.
  - destruct (f x) eqn:Hf; [rewrite (H x (or_introl eq_refl) Hf) in Hg; discriminate|].
    apply IH. intros; apply H; [now right|assumption].
Qed.

Lemma range_keep_in_window step range k s :
  0 <= range < step -> 0 <= fst s -> k * step - range <= fst s <= k * step -> range_keep step range s = true.
Proof.
  intros Hr Hnn Hw. unfold range_keep. rewrite Z.rem_mod_nonneg by lia.
  destruct (Z.eq_dec (fst s) (k * step)) as [He|Hne].
  - rewrite He, Z.mod_mul by lia. reflexivity.
  - apply orb_true_iff. right. apply Z.leb_le.
    assert (Hm : fst s mod step = fst s - (k - 1) * step).
    { symmetry. apply (Z.mod_unique _ _ (k - 1)); lia. }
    rewrite Hm. lia.
Qed.

(* evaluation times on the absolute step grid: every range window keeps all its samples *)
Theorem range_filter_keeps_windows step range k l :
  0 <= range < step -> Forall (fun s => 0 <= fst s) l ->
  window range (k * step) (range_filter step range l) = window range (k * step) l.
Proof.
  intros Hr Hnn. unfold window, range_filter. apply filter_filter_implied.
  intros s Hs Hw. rewrite Forall_forall in Hnn. apply andb_prop in Hw. destruct Hw as [H1 H2].
  apply Z.leb_le in H1. apply Z.leb_le in H2. apply (range_keep_in_window step range k); [assumption|now apply Hnn|lia].
Qed.

(* ---------------- step buckets ---------------- *)
Definition asc (l : list sample) : Prop := StronglySorted (fun a b => fst a <= fst b) l.

Lemma bucket_ge start step ts : 0 < step -> start <= ts -> ts <= bucket_of start step ts.
Proof.
  intros Hs Hts. unfold bucket_of. rewrite Z.quot_div_nonneg by lia.
  set (a := ts - start + step - 1).
  assert (H : a = step * (a / step) + a mod step) by (apply Z.div_mod; lia).
  assert (Hm := Z.mod_pos_bound a step Hs).
  replace (a / step * step) with (step * (a / step)) by ring. unfold a in *. lia.
Qed.
Lemma bucket_grid start step ts j : 0 < step -> start <= ts ->
  (ts <= start + j * step <-> bucket_of start step ts <= start + j * step).
Proof.
  intros Hs Hts. split.
  - intros H. unfold bucket_of. rewrite Z.quot_div_nonneg by lia.
    assert (Hd : (ts - start + step - 1) / step <= j).
    { assert (Hlt : (ts - start + step - 1) / step < j + 1); [|lia].
      apply Z.div_lt_upper_bound; [assumption|]. replace (step * (j + 1)) with (j * step + step) by ring. lia. }
    assert (Hmul : (ts - start + step - 1) / step * step <= j * step) by (apply Z.mul_le_mono_nonneg_r; lia).
    lia.
  - intros H. assert (Hb := bucket_ge start step ts Hs Hts). lia.
Qed.

Definition last_opt {A} (l : list A) : option A := match rev l with x :: _ => Some x | [] => None end.
Lemma last_opt_cons {A} (x : A) l : l <> [] -> last_opt (x :: l) = last_opt l.
Proof.
  intros Hne. unfold last_opt. cbn [rev]. destruct (rev l) eqn:E.
  - exfalso. apply Hne. apply (f_equal (@rev A)) in E. rewrite rev_involutive in E; exact E.
  - reflexivity.
Qed.
Lemma last_opt_app {A} (l1 l2 : list A) : l2 <> [] -> last_opt (l1 ++ l2) = last_opt l2.
Proof.
  intros Hne. unfold last_opt. rewrite rev_app_distr. destruct (rev l2) eqn:E; [|reflexivity].
  exfalso. apply Hne. apply (f_equal (@rev A)) in E. rewrite rev_involutive in E; exact E.
Qed.

Lemma latest_le_filter T l : latest_le T l = last_opt (filter (fun s => fst s <=? T) l).
Proof.
  unfold latest_le.
  assert (H : forall acc, fold_left (fun acc s => if fst s <=? T then Some s else acc) l acc =
                          match last_opt (filter (fun s => fst s <=? T) l) with Some x => Some x | None => acc end).
  { induction l as [|s l IH]; intros acc; [reflexivity|]. cbn [fold_left filter].
    destruct (fst s <=? T) eqn:E; rewrite IH.
    - destruct (filter (fun s0 => fst s0 <=? T) l) as [|y r] eqn:Ef; [reflexivity|].
      rewrite (@last_opt_cons (Z * Z)%type s (y :: r)) by discriminate. destruct (last_opt (y :: r)) eqn:El; [reflexivity|].
      exfalso. unfold last_opt in El. destruct (rev (y :: r)) eqn:Er; [|discriminate].
      apply (f_equal (@rev sample)) in Er. rewrite rev_involutive in Er. discriminate.
    - reflexivity. }
  rewrite H. destruct (last_opt _); reflexivity.
Qed.

Lemma bucket_series_head start step s r : exists v r', bucket_series start step (s :: r) = (bucket_of start step (fst s), v) :: r'.
Proof.
  cbn [bucket_series]. destruct (bucket_series start step r) as [|s' r'] eqn:E; [eexists _, _; reflexivity|].
  destruct (Z.eqb_spec (fst s') (bucket_of start step (fst s))) as [He|Hne].
  - exists (snd s'), r'. rewrite <- He. now destruct s'.
  - eexists _, _. reflexivity.
Qed.
Lemma bucket_series_nonempty start step l : l <> [] -> bucket_series start step l <> [].
Proof. destruct l as [|s r]; [congruence|]. intros _. destruct (bucket_series_head start step s r) as [v [r' ->]]. discriminate. Qed.

Lemma bucket_series_stamps start step l x : List.In x (bucket_series start step l) ->
  exists s, List.In s l /\ fst x = bucket_of start step (fst s).
Proof.
  revert x. induction l as [|s r IH]; intros x Hx; [contradiction|]. cbn [bucket_series] in Hx.
  destruct (bucket_series start step r) as [|s' r'] eqn:E.
  - destruct Hx as [<-|[]]. exists s. split; [now left|reflexivity].
  - destruct (Z.eqb (fst s') (bucket_of start step (fst s))).
    + destruct (IH x Hx) as [y [Hy He]]. exists y. split; [now right|assumption].
    + destruct Hx as [<-|Hx]; [exists s; split; [now left|reflexivity]|].
      destruct (IH x Hx) as [y [Hy He]]. exists y. split; [now right|assumption].
Qed.

(* the last bucket carries the value of the last sample *)
Lemma bucket_series_last start step l :
  last_opt (bucket_series start step l) = option_map (fun s => (bucket_of start step (fst s), snd s)) (last_opt l).
Proof.
  induction l as [|s r IH]; [reflexivity|]. destruct r as [|s2 r2]; [reflexivity|].
  rewrite (@last_opt_cons sample s (s2 :: r2)) by discriminate. rewrite <- IH.
  remember (s2 :: r2) as r eqn:Er. cbn [bucket_series].
  destruct (bucket_series start step r) as [|s' r'] eqn:E.
  - exfalso. apply (bucket_series_nonempty start step r); [subst; discriminate|assumption].
  - destruct (Z.eqb (fst s') (bucket_of start step (fst s))); [reflexivity|].
    rewrite (@last_opt_cons sample _ (s' :: r')) by discriminate. reflexivity.
Qed.

(* a prefix whose buckets are all below the buckets of the rest is bucketed on its own *)
Lemma bucket_series_app start step T l1 l2 :
  Forall (fun s => bucket_of start step (fst s) <= T) l1 -> Forall (fun s => T < bucket_of start step (fst s)) l2 ->
  bucket_series start step (l1 ++ l2) = bucket_series start step l1 ++ bucket_series start step l2.
Proof.
  intros H1 H2. induction l1 as [|s r IH]; [reflexivity|].
  inversion H1 as [|? ? Hs Hr]; subst. specialize (IH Hr).
  destruct r as [|s2 r2].
  - cbn [app] in *. destruct l2 as [|t l2']; [reflexivity|].
    inversion H2 as [|? ? Ht _]; subst.
    remember (t :: l2') as l2 eqn:El2.
    assert (E' : exists v r', bucket_series start step l2 = (bucket_of start step (fst t), v) :: r') by (subst l2; apply bucket_series_head).
    destruct E' as [v [r' E]]. cbn [bucket_series]. rewrite E. cbn [fst app].
    replace (bucket_of start step (fst t) =? bucket_of start step (fst s)) with false by (symmetry; apply Z.eqb_neq; lia).
    reflexivity.
  - remember (s2 :: r2) as r eqn:Er.
    assert (E' : exists v r', bucket_series start step r = (bucket_of start step (fst s2), v) :: r') by (subst r; apply bucket_series_head).
    destruct E' as [v [r' E]].
    change ((s :: r) ++ l2) with (s :: (r ++ l2)). cbn [bucket_series]. rewrite IH, E. cbn [app fst].
    destruct (bucket_of start step (fst s2) =? bucket_of start step (fst s)); reflexivity.
Qed.

Lemma asc_split T l : asc l ->
  l = filter (fun s => fst s <=? T) l ++ filter (fun s => negb (fst s <=? T)) l.
Proof.
  induction l as [|s r IH]; intros Ha; [reflexivity|]. inversion Ha as [|? ? Hr Hall]; subst. cbn [filter].
  destruct (fst s <=? T) eqn:E; cbn [negb app].
  - f_equal. now apply IH.
  - assert (Hnone : filter (fun s0 => fst s0 <=? T) r = []).
    { apply Z.leb_gt in E. rewrite Forall_forall in Hall. clear IH Ha Hr.
      induction r as [|y r IH]; [reflexivity|]. cbn [filter].
      assert (fst s <= fst y) by (apply Hall; now left).
      replace (fst y <=? T) with false by (symmetry; apply Z.leb_gt; lia). apply IH. intros; apply Hall; now right. }
    rewrite Hnone. cbn [app]. f_equal.
    assert (Hall' : filter (fun s0 => negb (fst s0 <=? T)) r = r).
    { apply Z.leb_gt in E. rewrite Forall_forall in Hall. clear IH Ha Hr Hnone.
      induction r as [|y r IH]; [reflexivity|]. cbn [filter].
      assert (fst s <= fst y) by (apply Hall; now left).
      replace (fst y <=? T) with false by (symmetry; apply Z.leb_gt; lia). cbn [negb]. f_equal. apply IH. intros; apply Hall; now right. }
    now rewrite Hall'.
Qed.

Lemma filter_all {A} (f : A -> bool) l : (forall x, List.In x l -> f x = true) -> filter f l = l.
Proof. induction l as [|x l IH]; intros H; [reflexivity|]. cbn [filter]. rewrite (H x (or_introl eq_refl)). f_equal. apply IH. intros; apply H; now right. Qed.
Lemma filter_none {A} (f : A -> bool) l : (forall x, List.In x l -> f x = false) -> filter f l = [].
Proof. induction l as [|x l IH]; intros H; [reflexivity|]. cbn [filter]. rewrite (H x (or_introl eq_refl)). apply IH. intros; apply H; now right. Qed.

(* At an evaluation time on the bucket grid the bucketed series shows the latest raw sample, re-stamped with its bucket end *)
Lemma step_bucket_latest_full start step j l :
  0 < step -> asc l -> Forall (fun s => start <= fst s) l ->
  latest_le (start + j * step) (bucket_series start step l) =
  option_map (fun s => (bucket_of start step (fst s), snd s)) (latest_le (start + j * step) l).
Proof.
  intros Hs Ha Hge. set (T := start + j * step).
  rewrite !latest_le_filter.
  set (l1 := filter (fun s => fst s <=? T) l). set (l2 := filter (fun s => negb (fst s <=? T)) l).
  assert (Hl : l = l1 ++ l2) by (apply asc_split; assumption).
  rewrite Forall_forall in Hge.
  assert (H1 : Forall (fun s => bucket_of start step (fst s) <= T) l1).
  { apply Forall_forall. intros s Hin. apply filter_In in Hin. destruct Hin as [Hin Hle]. apply Z.leb_le in Hle.
    apply (bucket_grid start step (fst s) j Hs (Hge s Hin)). exact Hle. }
  assert (H2 : Forall (fun s => T < bucket_of start step (fst s)) l2).
  { apply Forall_forall. intros s Hin. apply filter_In in Hin. destruct Hin as [Hin Hgt]. apply negb_true_iff in Hgt. apply Z.leb_gt in Hgt.
    assert (Hb := bucket_ge start step (fst s) Hs (Hge s Hin)). lia. }
  assert (Hf : filter (fun s => fst s <=? T) (bucket_series start step l) = bucket_series start step l1).
  { rewrite Hl at 1. rewrite (bucket_series_app start step T l1 l2 H1 H2). rewrite filter_app.
    assert (Ha1 : filter (fun s => fst s <=? T) (bucket_series start step l1) = bucket_series start step l1).
    { apply filter_all. intros x Hx. destruct (bucket_series_stamps _ _ _ _ Hx) as [s [Hin He]].
      rewrite He. apply Z.leb_le. rewrite Forall_forall in H1. now apply H1. }
    assert (Ha2 : filter (fun s => fst s <=? T) (bucket_series start step l2) = []).
    { apply filter_none. intros x Hx. destruct (bucket_series_stamps _ _ _ _ Hx) as [s [Hin He]].
      rewrite He. apply Z.leb_gt. rewrite Forall_forall in H2. now apply H2. }
    transitivity (bucket_series start step l1 ++ []); [|apply app_nil_r]. f_equal; [exact Ha1|exact Ha2]. }
  rewrite Hf. apply bucket_series_last.
Qed.

Theorem step_bucket_latest start step j l :
  0 < step -> asc l -> Forall (fun s => start <= fst s) l ->
  option_map snd (latest_le (start + j * step) (bucket_series start step l)) = option_map snd (latest_le (start + j * step) l).
Proof.
  intros Hs Ha Hge. rewrite (step_bucket_latest_full start step j l Hs Ha Hge).
  destruct (latest_le (start + j * step) l); reflexivity.
Qed.

(* what Prometheus shows at a grid time is also shown after bucketing (the re-stamped sample is not older) *)
Theorem step_bucket_visible start step j L l v :
  0 < step -> asc l -> Forall (fun s => start <= fst s) l ->
  visible L (start + j * step) l = Some v -> visible L (start + j * step) (bucket_series start step l) = Some v.
Proof.
  intros Hs Ha Hge. unfold visible. rewrite (step_bucket_latest_full start step j l Hs Ha Hge).
  destruct (latest_le (start + j * step) l) as [s|] eqn:El; [|discriminate]. cbn [option_map fst snd].
  destruct (start + j * step - L <=? fst s) eqn:E; [|discriminate]. intros Hv.
  assert (Hin : List.In s l).
  { rewrite latest_le_filter in El. unfold last_opt in El. destruct (rev (filter (fun s0 => fst s0 <=? start + j * step) l)) as [|x r] eqn:Er; [discriminate|].
    inversion El; subst x. assert (Hx : List.In s (rev (filter (fun s0 => fst s0 <=? start + j * step) l))) by (rewrite Er; now left).
    apply in_rev in Hx. apply filter_In in Hx. tauto. }
  rewrite Forall_forall in Hge. assert (Hb := bucket_ge start step (fst s) Hs (Hge s Hin)).
  apply Z.leb_le in E. replace (start + j * step - L <=? bucket_of start step (fst s)) with true by (symmetry; apply Z.leb_le; lia).
  exact Hv.
Qed.

(* refutations by computation *)
Example step_bucket_off_grid : visible 300 6 [(5, 1)] = Some 1 /\ visible 300 6 (bucket_series 0 7 [(5, 1)]) = None.
Proof. split; reflexivity. Qed.
Example step_bucket_staleness_edge : visible 14 14 [(-3, 1)] = None /\ visible 14 14 (bucket_series (-7) 7 [(-3, 1)]) = Some 1.
Proof. split; reflexivity. Qed.
Example range_filter_off_grid : window 5 3 [(1, 9)] = [(1, 9)] /\ window 5 3 (range_filter 10 5 [(1, 9)]) = [].
Proof. split; reflexivity. Qed.


(* ====================================================================================== *)
(* K. Select end to end: labels request, ReshuffleSeries, final sort                       *)
(* ====================================================================================== *)
Open Scope string_scope.
Open Scope list_scope.
(* ---- insertion sort is a permutation ---- *)
Lemma insert_sorted_perm {A} (lt : A -> A -> bool) x l : Permutation (insert_sorted lt x l) (x :: l).
Proof.
  induction l as [|y l IH]; cbn [insert_sorted]; [apply Permutation_refl|].
  destruct (lt x y); [apply Permutation_refl|].
  apply Permutation_trans with (y :: x :: l); [now apply perm_skip|apply perm_swap].
Qed.
Lemma isort_perm {A} (lt : A -> A -> bool) l : Permutation (isort lt l) l.
Proof.
  unfold isort.
  assert (H : forall acc, Permutation (fold_left (fun acc x => insert_sorted lt x acc) l acc) (acc ++ l)).
  { induction l as [|x l IH]; intros acc; cbn [fold_left]; [rewrite app_nil_r; apply Permutation_refl|].
    apply Permutation_trans with (insert_sorted lt x acc ++ l); [apply IH|].
    apply Permutation_trans with ((x :: acc) ++ l); [apply Permutation_app_tail; apply insert_sorted_perm|].
    cbn [app]. apply Permutation_middle. }
  apply (H []).
Qed.

(* ---- ReshuffleSeries does nothing when the label strings are pairwise distinct ---- *)
Lemma labels_eqb_spec (a b : labels) : labels_eqb a b = true <-> a = b.
Proof.
  unfold labels_eqb. revert b. induction a as [|[k v] a IH]; intros [|[k' v'] b]; cbn [list_eqb]; try (split; [discriminate|discriminate]); [tauto|].
  unfold pair_eqb at 1. cbn [fst snd]. rewrite !andb_true_iff, IH, !String.eqb_eq. split.
  - intros [[-> ->] ->]. reflexivity.
  - intros E. inversion E. tauto.
Qed.

Lemma reshuffle_go_id : forall (l : list (labels * pseries)) seen,
  NoDup (map fst l) -> (forall k, List.In k seen -> ~ List.In k (map fst l)) ->
  reshuffle_go seen l = map snd l.
Proof.
  induction l as [|[k s] rest IH]; intros seen Hnd Hseen; [reflexivity|].
  cbn [reshuffle_go map snd fst] in *. inversion Hnd as [|? ? Hk Hnd']; subst.
  assert (Hex : existsb (labels_eqb k) seen = false).
  { apply not_true_is_false. intros H. apply existsb_exists in H. destruct H as [k' [Hin He]]. apply labels_eqb_spec in He. subst k'.
    apply (Hseen k Hin). now left. }
  rewrite Hex.
  assert (Hdups : filter (fun ks : labels * pseries => labels_eqb (fst ks) k) rest = []).
  { clear -Hk. induction rest as [|[k' s'] r IHr]; [reflexivity|]. cbn [filter fst map] in *.
    destruct (labels_eqb k' k) eqn:E; [apply labels_eqb_spec in E; subst k'; exfalso; apply Hk; now left|]. apply IHr. intros H. apply Hk. now right. }
  rewrite Hdups. cbn [fold_left]. f_equal; [now destruct s|].
  apply IH; [assumption|]. intros k' [<-|Hin]; [assumption|]. intros H. apply (Hseen k' Hin). now right.
Qed.
Lemma reshuffle_id getl ss :
  NoDup (map (fun s => getl (ps_fp s)) ss) -> reshuffle getl ss = ss.
Proof.
  intros Hnd. unfold reshuffle. rewrite reshuffle_go_id.
  - rewrite map_map. cbn [snd]. apply map_id.
  - rewrite map_map. cbn [fst]. exact Hnd.
  - intros k [].
Qed.

(* ---- labelsGetter: the labels answered for a fingerprint ---- *)
Lemma find_app_last {A} (p : A -> bool) l x :
  find p (l ++ [x]) = match find p l with Some y => Some y | None => if p x then Some x else None end.
Proof. induction l as [|y l IH]; cbn [app find]; [reflexivity|]. destruct (p y); [reflexivity|exact IH]. Qed.

Lemma fingerprints_has_find fetch fp :
  fingerprints_has fetch fp =
  match find (fun fr => N.eqb (fst fr) fp) (rev fetch) with Some fr => Some (sort_labels (snd fr)) | None => None end.
Proof.
  unfold fingerprints_has.
  assert (H : forall acc, fold_left (fun acc fr => if N.eqb (fst fr) fp then Some (sort_labels (snd fr)) else acc) fetch acc =
                          match find (fun fr => N.eqb (fst fr) fp) (rev fetch) with Some fr => Some (sort_labels (snd fr)) | None => acc end).
  { induction fetch as [|fr fetch IH]; intros acc; [reflexivity|]. cbn [fold_left rev]. rewrite IH, find_app_last.
    destruct (find (fun fr0 : N * labels => N.eqb (fst fr0) fp) (rev fetch)); [reflexivity|]. destruct (N.eqb (fst fr) fp); reflexivity. }
  apply H.
Qed.

Lemma fingerprints_has_spec fetch fp :
  match fingerprints_has fetch fp with
  | Some l => exists fr, List.In fr fetch /\ fst fr = fp /\ l = sort_labels (snd fr)
  | None => forall fr, List.In fr fetch -> fst fr <> fp
  end.
Proof.
  rewrite fingerprints_has_find. destruct (find (fun fr0 : N * labels => N.eqb (fst fr0) fp) (rev fetch)) as [fr|] eqn:E.
  - apply find_some in E. destruct E as [Hin He]. exists fr. split; [now apply in_rev|]. split; [now apply N.eqb_eq|reflexivity].
  - intros fr Hin He. assert (Hn := find_none _ _ E fr). cbv beta in Hn. rewrite He, N.eqb_refl in Hn.
    assert (Hr : List.In fr (rev fetch)) by (rewrite <- in_rev; exact Hin). specialize (Hn Hr). discriminate.
Qed.

Lemma metric_row_spec s : metric_row s = true <-> (t_type s = 2 \/ t_type s = 0)%Z.
Proof. unfold metric_row. rewrite orb_true_iff, !Z.eqb_eq. tauto. Qed.

Lemma labels_get_own D1 D2 fps series s :
  (forall s1 s2, List.In s1 series -> List.In s2 series -> (t_type s1 = 2 \/ t_type s1 = 0)%Z -> (t_type s2 = 2 \/ t_type s2 = 0)%Z ->
     t_fp s1 = t_fp s2 -> t_labels s1 = t_labels s2) ->
  List.In s series -> (t_type s = 2 \/ t_type s = 0)%Z -> (D1 <= t_date s)%Z -> (t_date s <= D2)%Z -> List.In (t_fp s) fps ->
  labels_get (fetch_rows D1 D2 fps series) (t_fp s) = sort_labels (sort_labels (t_labels s)).
Proof.
  intros Hf Hs Hty Hd1 Hd2 Hfp. unfold labels_get.
  assert (Hspec := fingerprints_has_spec (fetch_rows D1 D2 fps series) (t_fp s)).
  destruct (fingerprints_has (fetch_rows D1 D2 fps series) (t_fp s)) as [l|].
  - destruct Hspec as [fr [Hin [Hfr ->]]]. unfold fetch_rows in Hin. apply in_map_iff in Hin.
    destruct Hin as [s' [<- Hs']]. apply filter_In in Hs'. destruct Hs' as [Hs' Hok']. cbn [fst snd] in *.
    apply andb_prop in Hok'. destruct Hok' as [_ Hty']. apply metric_row_spec in Hty'.
    now rewrite (Hf s' s Hs' Hs Hty' Hty Hfr).
  - exfalso. apply (Hspec (t_fp s, t_labels s)); [|reflexivity].
    unfold fetch_rows. apply in_map_iff. exists s. split; [reflexivity|]. apply filter_In. split; [assumption|].
    rewrite !andb_true_iff, !Z.leb_le, metric_row_spec. split; [|assumption]. split; [tauto|].
    apply existsb_exists. exists (t_fp s). split; [assumption|apply N.eqb_refl].
Qed.

Lemma NoDup_map_inj_on {A B} (g : A -> B) l :
  NoDup l -> (forall x y, List.In x l -> List.In y l -> g x = g y -> x = y) -> NoDup (map g l).
Proof.
  induction l as [|x l IH]; intros Hnd Hinj; [constructor|]. inversion Hnd as [|? ? Hx Hnd']; subst. cbn [map]. constructor.
  - intros Hin. apply in_map_iff in Hin. destruct Hin as [y [He Hy]].
    assert (y = x) by (apply Hinj; [now right|now left|assumption]). subst y. contradiction.
  - apply IH; [assumption|]. intros a b Ha Hb. apply Hinj; now right.
Qed.

Section FINAL.
  Variable re_match re_full : string -> string -> bool.
  Hypothesis anchor_law : forall v p, re_match v (anchor p) = re_full v p.

  Definition day_from (h : hints) : Z := from_day (h_start h * 1000000).
  Definition day_to (h : hints) : Z := (h_end h / 86400000)%Z.
  (* what CLokiQuerier.Select returns, the two statements being answered by the reference interpreter *)
  Definition prom_select (cluster : bool) (dbname : string) (h : hints) (ms : list matcher) (db : database) : option (list out_series) :=
    match prom_query_rows re_match re_full cluster dbname h ms db with
    | Some rows => Some (select_series (snd (querier_transpile re_full cluster dbname h ms)) rows
                           (fetch_rows (day_from h) (day_to h) (fps_of rows) (d_series db)))
    | None => None
    end.

  Theorem prom_select_exact_series cluster dbname h ms db :
    use_raw_data h = true -> h_step h = 0%Z ->
    db_ok (day_from h) (d_gin db) (d_series db) ->
    selective re_full ms = true -> (List.length ms <= 63)%nat ->
    (* a sample inside the window belongs to a METRIC series announced between the two date bounds of the labels request
       (the writer announces a series per sample type; the request reads metric-typed rows only) *)
    (forall sm, List.In sm (d_samples db) -> window_ok h sm = true ->
       exists s, List.In s (d_series db) /\ t_fp s = sm_fp sm /\ (t_type s = 2 \/ t_type s = 0)%Z /\
                 (day_from h <= t_date s)%Z /\ (t_date s <= day_to h)%Z) ->
    (* stored series with one label set (as the sorted list) carry one fingerprint: the fingerprint is a hash of the labels *)
    (forall s1 s2, List.In s1 (d_series db) -> List.In s2 (d_series db) ->
       sort_labels (sort_labels (t_labels s1)) = sort_labels (sort_labels (t_labels s2)) -> t_fp s1 = t_fp s2) ->
    exists rows out, prom_query_rows re_match re_full cluster dbname h ms db = Some rows /\
      prom_select cluster dbname h ms db = Some out /\
      NoDup (map o_fp out) /\
      (forall fp, List.In fp (map o_fp out) <->
                  List.In fp (expected_fps re_full (day_from h) ms (d_series db)) /\
                  exists s, List.In s (d_samples db) /\ window_ok h s = true /\ sm_fp s = fp) /\
      (forall o, List.In o out ->
         (exists s, List.In s (d_series db) /\ t_fp s = o_fp o /\ prom_matches re_full ms (t_labels s) = true /\
                    o_labels o = sort_labels (sort_labels (t_labels s)) /\
                    (forall kv, List.In kv (o_labels o) <-> List.In kv (t_labels s))) /\
         o_samples o = rows_of (o_fp o) rows /\
         StronglySorted Z.le (map fst (o_samples o))).
  Proof.
    intros Hraw Hstep Hdb Hne Hlen Hrows Hdist.
    destruct (prom_select_series_exact re_match re_full anchor_law cluster dbname h ms db Hraw Hstep Hdb Hne Hlen)
      as [rows [Hq [Hnd [Hfps Hss]]]].
    unfold prom_select. rewrite Hq.
    set (mr := snd (querier_transpile re_full cluster dbname h ms)) in *.
    set (ss := select_loop mr rows) in *.
    set (fetch := fetch_rows (day_from h) (day_to h) (fps_of rows) (d_series db)).
    set (getl := labels_get fetch).
    (* the labels of every assembled series *)
    assert (Hfpin : forall s', List.In s' ss -> List.In (ps_fp s') (fps_of rows)).
    { intros s' Hs'. unfold fps_of. apply nodup_In.
      destruct (Hss s' Hs') as [Hsm _]. 
      assert (Hin : List.In (ps_fp s') (map ps_fp ss)) by now apply in_map.
      apply Hfps in Hin. destruct Hin as [_ [sm [Hsm1 [Hw Hfp]]]].
      (* the fingerprint occurs among the rows: its series is non-empty *)
      destruct (Hss s' Hs') as [Heq [_ Hx]].
      assert (Hxin : List.In (Z.quot (sm_ts_ns sm) 1000000, sm_value sm) (ps_samples s')) by (apply Hx; exists sm; tauto).
      rewrite Heq in Hxin. unfold rows_of in Hxin. apply in_map_iff in Hxin. destruct Hxin as [r [_ Hr]].
      apply filter_In in Hr. destruct Hr as [Hr Hfpr]. apply N.eqb_eq in Hfpr. rewrite <- Hfpr. now apply in_map. }
    assert (Hlab : forall s', List.In s' ss -> exists s, List.In s (d_series db) /\ t_fp s = ps_fp s' /\
                     (t_type s = 2 \/ t_type s = 0)%Z /\
                     getl (ps_fp s') = sort_labels (sort_labels (t_labels s))).
    { intros s' Hs'.
      assert (Hin : List.In (ps_fp s') (map ps_fp ss)) by now apply in_map.
      apply Hfps in Hin. destruct Hin as [_ [sm [Hsm1 [Hw Hfp]]]].
      destruct (Hrows sm Hsm1 Hw) as [s [Hs [Hsfp [Hsty [Hd1 Hd2]]]]].
      exists s. split; [assumption|]. split; [congruence|]. split; [assumption|].
      unfold getl, fetch. rewrite <- Hfp, <- Hsfp.
      apply labels_get_own; try assumption; [apply (fp_functional _ _ _ Hdb)|].
      rewrite Hsfp, Hfp. now apply Hfpin. }
    assert (Hkeys : NoDup (map (fun s => getl (ps_fp s)) ss)).
    { rewrite <- (map_map ps_fp (fun fp => getl fp)). apply NoDup_map_inj_on; [assumption|].
      intros x y Hx Hy He. apply in_map_iff in Hx. destruct Hx as [sx [<- Hsx]]. apply in_map_iff in Hy. destruct Hy as [sy [<- Hsy]].
      destruct (Hlab sx Hsx) as [s1 [Hs1 [Hf1 [_ Hl1]]]]. destruct (Hlab sy Hsy) as [s2 [Hs2 [Hf2 [_ Hl2]]]].
      rewrite Hl1, Hl2 in He. rewrite <- Hf1, <- Hf2. now apply Hdist. }
    set (mk := fun s => {| o_labels := getl (ps_fp s); o_fp := ps_fp s; o_samples := ps_samples s |}).
    assert (Hout : select_series mr rows fetch = isort out_lt (map mk ss)).
    { unfold select_series. fold getl. fold ss. rewrite (reshuffle_id getl ss Hkeys). reflexivity. }
    exists rows, (isort out_lt (map mk ss)). split; [reflexivity|]. split; [now rewrite Hout|].
    assert (Hperm := isort_perm out_lt (map mk ss)).
    assert (Hfpmap : map o_fp (map mk ss) = map ps_fp ss) by (rewrite map_map; reflexivity).
    split; [|split].
    - apply (Permutation_NoDup (l := map o_fp (map mk ss))); [apply Permutation_map; now apply Permutation_sym|]. now rewrite Hfpmap.
    - intros fp. rewrite <- Hfps, <- Hfpmap. split; intros Hin.
      + apply (Permutation_in _ (Permutation_map o_fp Hperm)). exact Hin.
      + apply (Permutation_in _ (Permutation_map o_fp (Permutation_sym Hperm))). exact Hin.
    - intros o Ho. apply (Permutation_in _ Hperm) in Ho. apply in_map_iff in Ho. destruct Ho as [s' [<- Hs']].
      cbn [mk o_labels o_fp o_samples]. destruct (Hss s' Hs') as [Heq [Hasc _]].
      split; [|split; assumption].
      destruct (Hlab s' Hs') as [s [Hs [Hsfp [Hsty Hl]]]].
      assert (Hin : List.In (ps_fp s') (map ps_fp ss)) by now apply in_map.
      apply Hfps in Hin. destruct Hin as [Hexp _]. unfold expected_fps in Hexp. apply nodup_In in Hexp.
      apply in_map_iff in Hexp. destruct Hexp as [sm [Hsmfp Hsm]]. apply filter_In in Hsm. destruct Hsm as [Hsm Hok].
      apply andb_prop in Hok. destruct Hok as [Hmet Hpm].
      assert (Hsmty : (t_type sm = 2 \/ t_type sm = 0)%Z).
      { unfold metric_series in Hmet. apply andb_prop in Hmet. destruct Hmet as [_ Hmet]. apply orb_prop in Hmet.
        destruct Hmet as [Hmet|Hmet]; apply Z.eqb_eq in Hmet; auto. }
      exists s. split; [assumption|]. split; [assumption|]. split.
      + rewrite (fp_functional _ _ _ Hdb s sm Hs Hsm Hsty Hsmty) by congruence. exact Hpm.
      + split; [exact Hl|]. intros kv. rewrite Hl. unfold sort_labels. rewrite !isort_in. tauto.
  Qed.
End FINAL.

Example final_select_nonvacuous :
  prom_select re_none re_none false "qryn" w_hints g_ms w_db =
  Some [{| o_labels := [("__name__", "up"); ("env", "dev")]; o_fp := 32; o_samples := [(1700000001000, 2)] |}] /\
  (* {__name__="up", env!="prod"}: the series without an env label comes first (fewer labels after __name__ ... by name) *)
  prom_select re_none re_none false "qryn" w_hints w_ms w_db =
  Some [{| o_labels := [("__name__", "up"); ("env", "dev")]; o_fp := 32; o_samples := [(1700000001000, 2)] |};
        {| o_labels := [("__name__", "up"); ("instance", "h:9090")]; o_fp := 31; o_samples := [(1700000001000, 1)] |}].
Proof. split; vm_compute; reflexivity. Qed.
Example final_hypotheses_met :
  (forall sm, List.In sm (d_samples w_db) -> window_ok w_hints sm = true ->
     exists s, List.In s (d_series w_db) /\ t_fp s = sm_fp sm /\ (day_from w_hints <= t_date s)%Z /\ (t_date s <= day_to w_hints)%Z) /\
  (forall s1 s2, List.In s1 (d_series w_db) -> List.In s2 (d_series w_db) ->
     sort_labels (sort_labels (t_labels s1)) = sort_labels (sort_labels (t_labels s2)) -> t_fp s1 = t_fp s2).
Proof.
  split.
  - intros sm [<-|[<-|[]]] _.
    + eexists. split; [left; reflexivity|]. split; [reflexivity|]. split; vm_compute; discriminate.
    + eexists. split; [right; left; reflexivity|]. split; [reflexivity|]. split; vm_compute; discriminate.
  - intros s1 s2 [<-|[<-|[]]] [<-|[<-|[]]]; try reflexivity; vm_compute; intros E; discriminate E.
Qed.

(* ====================================================================================== *)
(* L. bridge: the interpreter applied to the profile selector planner's own tree           *)
(* ====================================================================================== *)
Open Scope string_scope.
Open Scope list_scope.
Section PBRIDGE.
  Variable re : string -> string -> bool.
  Variable cte : select -> option (list N).
  Notation ev := (ev re cte).

  Lemma ev_matcher_clause rho field op v x :
    ev rho field = Some (VS x) -> ev rho (matcher_clause field op v) = Some (b2v (cmp_ok re op v x)).
  Proof.
    intros H. unfold matcher_clause, Eq, Neq, cmp_ok.
    destruct op; rewrite (ev_LOp re cte); cbn [map].
    - rewrite H. cbn. destruct (String.eqb x v); reflexivity.
    - rewrite H. cbn. destruct (String.eqb x v); reflexivity.
    - rewrite (ev_Fn_match re cte), H. cbn. destruct (re x v); reflexivity.
    - rewrite (ev_Fn_match re cte), H. cbn. destruct (re x v); reflexivity.
  Qed.

  Lemma pg_type_id_env r : pgin_env r "type_id" = Some (VS (pg_type_id r)). Proof. reflexivity. Qed.
  Lemma pg_parts_env r : pgin_env r "_parts" = Some (VArr (map VS (type_parts r))). Proof. reflexivity. Qed.
  Lemma pg_service_env r : pgin_env r "service_name" = Some (VS (pg_service r)). Proof. reflexivity. Qed.
  Lemma pg_stu_env r : pgin_env r "sample_types_units" = Some (VArr (map (fun ab => VTup [VS (fst ab); VS (snd ab)]) (pg_stu r))). Proof. reflexivity. Qed.

  Lemma nth_map_VS k parts : nth k (map VS parts) (VS "") = VS (nth k parts "").
  Proof. change (VS "") with (VS ""). apply map_nth. Qed.

  Lemma ev_type_part r k : (1 <= k)%Z ->
    ev (pgin_env r) (type_part k) = Some (VS (nth (Z.to_nat (k - 1)) (type_parts r) "")).
  Proof.
    intros Hk. unfold type_part. cbn [PromSem.ev]. rewrite pg_type_id_env. cbn. unfold type_parts.
    now rewrite nth_map_VS.
  Qed.

  Definition xenv (a b : string) (rho : env) : env :=
    fun n => if String.eqb n "x.1" then Some (VS a) else if String.eqb n "x.2" then Some (VS b) else rho n.

  Lemma existsb_id_map {A} (f : A -> bool) l : existsb (fun b => b) (map f l) = existsb f l.
  Proof. induction l as [|x l IH]; [reflexivity|]. cbn [map existsb]. now rewrite IH. Qed.

  Lemma ev_array_exists r body (f : string * string -> bool) :
    (forall a b, ev (xenv a b (pgin_env r)) body = Some (b2v (f (a, b)))) ->
    ev (pgin_env r) (array_exists body) = Some (b2v (existsb f (pg_stu r))).
  Proof.
    intros H. unfold array_exists. cbn [PromSem.ev]. cbn [String.eqb Ascii.eqb Bool.eqb]. rewrite pg_stu_env.
    rewrite map_map.
    rewrite (map_ext _ (fun ab => Some (f ab))).
    2:{ intros [a b]. cbn [fst snd]. fold (xenv a b (pgin_env r)). rewrite H. cbn [omap]. now rewrite is_true_b2v. }
    rewrite all_some_map_Some. cbn [omap]. now rewrite existsb_id_map.
  Qed.

  Lemma eq_one_b2v rho e b : ev rho e = Some (b2v b) -> ev rho (Eq e (IntV 1)) = Some (b2v b).
  Proof. intros H. unfold Eq. rewrite (ev_LOp re cte). cbn [map]. rewrite H. cbn. destruct b; reflexivity. Qed.

  Lemma ev_profile_type_field r a b :
    ev (xenv a b (pgin_env r)) profile_type_field =
    Some (VS (subst_braces "{}:{}:{}:{}:{}" [nth 0 (type_parts r) ""; a; b; nth 1 (type_parts r) ""; nth 2 (type_parts r) ""])).
  Proof.
    unfold profile_type_field. cbn [PromSem.ev]. cbn [String.eqb Ascii.eqb Bool.eqb].
    unfold xenv. cbn [String.eqb Ascii.eqb Bool.eqb].
    rewrite pg_type_id_env, pg_parts_env. cbn. unfold type_parts. rewrite !nth_map_VS. reflexivity.
  Qed.

  Lemma ev_global_clause r p op v :
    ev (pgin_env r) (global_clause p op v) = Some (b2v (pseudo_ok re p op v (type_parts r) (pg_service r) (pg_stu r))).
  Proof.
    destruct p; cbn [global_clause pseudo_ok].
    - apply ev_matcher_clause. now rewrite ev_type_part.
    - apply ev_matcher_clause. now rewrite ev_type_part.
    - apply ev_matcher_clause. now rewrite ev_type_part.
    - apply eq_one_b2v. apply (ev_array_exists r _ (fun ab => cmp_ok re op v (fst ab))). intros a b. now apply ev_matcher_clause.
    - apply eq_one_b2v. apply (ev_array_exists r _ (fun ab => cmp_ok re op v (snd ab))). intros a b. now apply ev_matcher_clause.
    - apply eq_one_b2v.
      apply (ev_array_exists r _ (fun ab => cmp_ok re op v (subst_braces "{}:{}:{}:{}:{}"
               [nth 0 (type_parts r) ""; fst ab; snd ab; nth 1 (type_parts r) ""; nth 2 (type_parts r) ""]))).
      intros a b. apply ev_matcher_clause. apply ev_profile_type_field.
    - apply ev_matcher_clause. apply pg_service_env.
  Qed.

  Lemma pg_key_env r : pgin_env r "key" = Some (VS (pg_key r)). Proof. reflexivity. Qed.
  Lemma pg_val_env r : pgin_env r "val" = Some (VS (pg_val r)). Proof. reflexivity. Qed.
  Lemma pg_date_env r : pgin_env r "date" = Some (VI (pg_date r)). Proof. reflexivity. Qed.
  Lemma pg_fp_env r : pgin_env r "fingerprint" = Some (VI (Z.of_N (pg_fp r))). Proof. reflexivity. Qed.

  Lemma cmp_ok_vcond op v x :
    cmp_ok re op v x = eval_vcond re (match op with MEq => VEq v | MNeq => VNeq v | MRe => VRe v | MNre => VNre v end) x.
  Proof. destruct op; cbn [cmp_ok eval_vcond]; try reflexivity; destruct (re x v); reflexivity. Qed.

  Lemma ev_kv_clause r s :
    ev (pgin_env r) (kv_clause s) = Some (b2v (eval_clause re (sel_clause_of s) (to_gin r))).
  Proof.
    unfold kv_clause, And. rewrite (ev_LOp re cte). cbn [map].
    rewrite (ev_matcher_clause (pgin_env r) (Id "val") (sl_op s) (sl_val s) (pg_val r)) by apply pg_val_env.
    unfold Eq. rewrite (ev_LOp re cte). cbn [map PromSem.ev]. rewrite pg_key_env. cbn [all_some omap lop_apply val_eqb map truthy].
    unfold eval_clause, sel_clause_of, clause_of. cbn [c_key c_cond m_name m_op m_val to_gin g_key g_val].
    rewrite <- cmp_ok_vcond. destruct (String.eqb (pg_key r) (sl_name s)), (cmp_ok re (sl_op s) (sl_val s) (pg_val r)); reflexivity.
  Qed.

  Definition gexpr (x : pseudo * mop * string) : expr := let '(p, op, v) := x in global_clause p op v.

  Lemma get_matchers_split sels :
    get_matchers sels =
    (map gexpr (fst (split_selectors (map prof_selector_val sels))), map kv_clause (snd (split_selectors (map prof_selector_val sels)))).
  Proof.
    induction sels as [|s sels IH]; [reflexivity|]. cbn [get_matchers map split_selectors]. rewrite IH.
    destruct (split_selectors (map prof_selector_val sels)) as [g kv]. cbn [fst snd].
    destruct (pseudo_of (sl_name (prof_selector_val s))); reflexivity.
  Qed.

  Lemma forallb_id_map {A} (f : A -> bool) l : forallb (fun b => b) (map f l) = forallb f l.
  Proof. induction l as [|x l IH]; [reflexivity|]. cbn [map forallb]. now rewrite IH. Qed.

  (* an `and` / `or` list whose members all have a boolean value *)
  Lemma ev_and_bools rho es (bs : list bool) :
    map (ev rho) es = map (fun b => Some (b2v b)) bs -> ev rho (And es) = Some (b2v (forallb (fun b => b) bs)).
  Proof.
    intros H. unfold And. rewrite (ev_LOp re cte), H, all_some_map_Some. cbn [lop_apply]. rewrite map_map.
    rewrite (map_ext _ (fun b => Some b)) by (intros; apply truthy_b2v). rewrite all_some_map_Some. cbn [omap]. now rewrite map_id.
  Qed.
  Lemma ev_or_bools rho es (bs : list bool) :
    map (ev rho) es = map (fun b => Some (b2v b)) bs -> ev rho (Or es) = Some (b2v (existsb (fun b => b) bs)).
  Proof.
    intros H. unfold Or. rewrite (ev_LOp re cte), H, all_some_map_Some. cbn [lop_apply]. rewrite map_map.
    rewrite (map_ext _ (fun b => Some b)) by (intros; apply truthy_b2v). rewrite all_some_map_Some. cbn [omap]. now rewrite map_id.
  Qed.

  Lemma ev_globals r g :
    ev (pgin_env r) (And (map gexpr g)) = Some (b2v (forallb (fun x => global_ok re x r) g)).
  Proof.
    rewrite (ev_and_bools _ _ (map (fun x => global_ok re x r) g)); [now rewrite forallb_id_map|].
    rewrite !map_map. apply map_ext. intros [[p op] v]. cbn [gexpr global_ok]. apply ev_global_clause.
  Qed.
  Lemma ev_kvs r kv :
    ev (pgin_env r) (Or (map kv_clause kv)) = Some (b2v (existsb (fun c => eval_clause re c (to_gin r)) (map sel_clause_of kv))).
  Proof.
    rewrite (ev_or_bools _ _ (map (fun s => eval_clause re (sel_clause_of s) (to_gin r)) kv)).
    - rewrite existsb_id_map. do 2 f_equal. induction kv as [|k kv IH]; [reflexivity|]. cbn [map existsb]. now rewrite IH.
    - rewrite !map_map. apply map_ext. intros s. apply ev_kv_clause.
  Qed.

  Lemma ev_dates r D1 D2 :
    ev (pgin_env r) (Ge (Id "date") (DateV D1)) = Some (b2v (D1 <=? pg_date r)%Z) /\
    ev (pgin_env r) (Le (Id "date") (DateV D2)) = Some (b2v (pg_date r <=? D2)%Z).
  Proof.
    unfold Ge, Le. rewrite !(ev_LOp re cte). cbn [map PromSem.ev]. rewrite pg_date_env. cbn. split.
    - destruct (Z.ltb_spec (pg_date r) D1); destruct (Z.leb_spec D1 (pg_date r)); try reflexivity; lia.
    - destruct (Z.ltb_spec D2 (pg_date r)); destruct (Z.leb_spec (pg_date r) D2); try reflexivity; lia.
  Qed.

  Notation eva := (eva re cte).
  Lemma pbitset_row r kv : forall i,
    bitset_row re cte (map kv_clause kv) i (pgin_env r) = Some (rowmask re (map sel_clause_of kv) i (to_gin r)).
  Proof.
    induction kv as [|k kv IH]; intros i; [reflexivity|].
    cbn [map PromSem.bitset_row PromSem.rowmask]. rewrite ev_kv_clause, IH. unfold b2v, shl8. rewrite b2z_b2n. reflexivity.
  Qed.

  Lemma peva_having grp kv :
    is_true (eva (map pgin_env grp)
               (And [Eq (BitSetAnd (map kv_clause kv)) (IntV (2 ^ Z.of_nat (List.length (map kv_clause kv)) - 1))])) =
    N.eqb (group_bit_or re (map sel_clause_of kv) (map to_gin grp)) (2 ^ N.of_nat (List.length (map sel_clause_of kv)) - 1).
  Proof.
    unfold And, Eq. rewrite (eva_LOp re cte (map pgin_env grp) OAnd). cbn [map].
    rewrite (eva_LOp re cte (map pgin_env grp) OEq). cbn [map PromSem.eva].
    rewrite map_map.
    rewrite (map_ext _ (fun r => Some (rowmask re (map sel_clause_of kv) 0 (to_gin r)))) by (intros; apply pbitset_row).
    rewrite all_some_map_Some. cbn [omap all_some lop_apply val_eqb].
    rewrite fold_lor_map.
    assert (Hg : fold_left (fun a r => N.lor a (rowmask re (map sel_clause_of kv) 0 (to_gin r))) grp 0%N =
                 group_bit_or re (map sel_clause_of kv) (map to_gin grp)).
    { unfold group_bit_or.
      assert (H : forall acc, fold_left (fun a r => N.lor a (rowmask re (map sel_clause_of kv) 0 (to_gin r))) grp acc =
                              fold_left (fun a r => N.lor a (rowmask re (map sel_clause_of kv) 0 r)) (map to_gin grp) acc).
      { induction grp as [|r grp IH]; intros acc; [reflexivity|]. cbn [map fold_left]. apply IH. }
      apply H. }
    rewrite Hg. rewrite !map_length. rewrite <- pow2m1.
    cbn [truthy map all_some omap].
    destruct (N.eqb_spec (group_bit_or re (map sel_clause_of kv) (map to_gin grp)) (2 ^ N.of_nat (List.length kv) - 1)) as [He|Hne].
    - rewrite He, Z.eqb_refl. reflexivity.
    - replace (Z.of_N (group_bit_or re (map sel_clause_of kv) (map to_gin grp)) =? Z.of_N (2 ^ N.of_nat (List.length kv) - 1))%Z with false.
      + reflexivity.
      + symmetry. apply Z.eqb_neq. intros H. apply Hne. now apply N2Z.inj.
  Qed.

  Lemma penv_fp r : env_fp (pgin_env r) = Some (pg_fp r).
  Proof. unfold env_fp. rewrite pg_fp_env, N2Z.id. reflexivity. Qed.
  Lemma pflat_fp rows : flat_map (fun rho => match env_fp rho with Some f => [f] | None => [] end) (map pgin_env rows) = map pg_fp rows.
  Proof. induction rows as [|r rows IH]; [reflexivity|]. cbn [map flat_map]. rewrite penv_fp, IH. reflexivity. Qed.

  (* the WHERE clause in its four shapes *)
  Lemma pwhere r D1 D2 g kv w :
    w = And ([Ge (Id "date") (DateV D1); Le (Id "date") (DateV D2)]
             ++ match g with [] => [] | _ => [And (map gexpr g)] end
             ++ match kv with [] => [] | _ => [Or (map kv_clause kv)] end) ->
    is_true (ev (pgin_env r) w) = prow_ok re D1 D2 g (map sel_clause_of kv) r.
  Proof.
    intros ->. destruct (ev_dates r D1 D2) as [Hd1 Hd2]. unfold prow_ok.
    destruct g as [|x g'], kv as [|k kv'].
    - rewrite (ev_and_bools _ _ [(D1 <=? pg_date r)%Z; (pg_date r <=? D2)%Z]) by (cbn [map app]; now rewrite Hd1, Hd2).
      cbn [map forallb]. rewrite is_true_b2v. now rewrite !andb_true_r.
    - assert (Hk := ev_kvs r (k :: kv')). remember (map kv_clause (k :: kv')) as ke. remember (map sel_clause_of (k :: kv')) as cs.
      rewrite (ev_and_bools _ _ [(D1 <=? pg_date r)%Z; (pg_date r <=? D2)%Z; existsb (fun c => eval_clause re c (to_gin r)) cs])
        by (cbn [map app]; now rewrite Hd1, Hd2, Hk).
      cbn [forallb]. rewrite is_true_b2v. destruct cs; [discriminate|]. now rewrite !andb_true_r, andb_assoc.
    - assert (Hgl := ev_globals r (x :: g')). remember (map gexpr (x :: g')) as ge. remember (x :: g') as g.
      rewrite (ev_and_bools _ _ [(D1 <=? pg_date r)%Z; (pg_date r <=? D2)%Z; forallb (fun y => global_ok re y r) g])
        by (cbn [map app]; now rewrite Hd1, Hd2, Hgl).
      cbn [forallb map]. rewrite is_true_b2v. now rewrite !andb_true_r, andb_assoc.
    - assert (Hk := ev_kvs r (k :: kv')). assert (Hgl := ev_globals r (x :: g')).
      remember (map kv_clause (k :: kv')) as ke. remember (map sel_clause_of (k :: kv')) as cs.
      remember (map gexpr (x :: g')) as ge. remember (x :: g') as g.
      rewrite (ev_and_bools _ _ [(D1 <=? pg_date r)%Z; (pg_date r <=? D2)%Z; forallb (fun y => global_ok re y r) g;
                                 existsb (fun c => eval_clause re c (to_gin r)) cs])
        by (cbn [map app]; now rewrite Hd1, Hd2, Hgl, Hk).
      cbn [forallb]. rewrite is_true_b2v. destruct cs; [discriminate|]. now rewrite !andb_true_r, !andb_assoc.
  Qed.

  Lemma eval_fpq_shape q w h envs rows1 : s_where q = Some w -> s_having q = h ->
    filter (fun rho => is_true (ev rho w)) envs = rows1 ->
    eval_fpq re cte q envs =
    (let fps := nodup N.eq_dec (flat_map (fun rho => match env_fp rho with Some f => [f] | None => [] end) rows1) in
     match h with
     | Some hv => filter (fun fp => is_true (eva (filter (fun rho => opt_eqb_N (env_fp rho) fp) rows1) hv)) fps
     | None => fps
     end).
  Proof. intros Hw Hh <-. unfold eval_fpq. rewrite Hw, Hh. reflexivity. Qed.

  Theorem eval_prof_selector tbl from_ns to_ns sels rows :
    eval_fpq re cte (prof_selector tbl from_ns to_ns sels) (map pgin_env rows) =
    prof_fp_sel re (from_day from_ns) (to_ns / (86400 * 1000000000))%Z (map prof_selector_val sels) rows.
  Proof.
    unfold prof_selector, prof_fp_sel. rewrite get_matchers_split.
    destruct (split_selectors (map prof_selector_val sels)) as [g kv]. cbn [fst snd].
    set (D1 := from_day from_ns). set (D2 := (to_ns / (86400 * 1000000000))%Z).
    set (dates := [Ge (Id "date") (DateV D1); Le (Id "date") (DateV D2)]).
    assert (Hw : forall w,
              w = And (dates ++ match g with [] => [] | _ => [And (map gexpr g)] end
                             ++ match kv with [] => [] | _ => [Or (map kv_clause kv)] end) ->
              filter (fun rho => is_true (ev rho w)) (map pgin_env rows) =
              map pgin_env (filter (prow_ok re D1 D2 g (map sel_clause_of kv)) rows)).
    { intros w Hweq. rewrite filter_map_comm. f_equal. apply filter_ext. intros r. now apply pwhere. }
    assert (Hhave : forall fp rows1 (k : selector) kv',
              is_true (eva (filter (fun rho => opt_eqb_N (env_fp rho) fp) (map pgin_env rows1))
                         (And [Eq (BitSetAnd (map kv_clause (k :: kv'))) (IntV (2 ^ Z.of_nat (List.length (map kv_clause (k :: kv'))) - 1))])) =
              N.eqb (group_bit_or re (map sel_clause_of (k :: kv')) (group_of (map to_gin rows1) fp))
                    (2 ^ N.of_nat (List.length (map sel_clause_of (k :: kv'))) - 1)).
    { intros fp rows1 k kv'. rewrite filter_map_comm.
      rewrite (filter_ext (fun x => opt_eqb_N (env_fp (pgin_env x)) fp) (fun r => N.eqb (pg_fp r) fp)) by (intros; now rewrite penv_fp).
      unfold group_of. rewrite filter_map_comm. cbn [to_gin g_fp]. apply peva_having. }
    destruct g as [|x g'], kv as [|k kv'].
    - erewrite eval_fpq_shape; [|reflexivity|reflexivity|apply Hw; reflexivity]. cbv zeta.
      rewrite pflat_fp. reflexivity.
    - erewrite eval_fpq_shape; [|reflexivity|reflexivity|apply Hw; reflexivity]. cbv zeta.
      rewrite pflat_fp. cbn [map]. apply filter_ext. intros fp. apply (Hhave fp _ k kv').
    - erewrite eval_fpq_shape; [|reflexivity|reflexivity|apply Hw; reflexivity]. cbv zeta.
      rewrite pflat_fp. reflexivity.
    - erewrite eval_fpq_shape; [|reflexivity|reflexivity|apply Hw; reflexivity]. cbv zeta.
      rewrite pflat_fp. cbn [map]. apply filter_ext. intros fp. apply (Hhave fp _ k kv').
  Qed.
End PBRIDGE.

(* ====================================================================================== *)
(* M. several Selects on one querier                                                      *)
(* ====================================================================================== *)
Open Scope list_scope.
Definition planned_fps (mr : bool) (from_ms to_ms : Z) (rows : list row) : list N :=
  lg_plan (fold_left lg_plan_fp (map ps_fp (select_loop mr rows)) (new_getter from_ms to_ms)).

Lemma plan_fold_fields fps g :
  lg_from (fold_left lg_plan_fp fps g) = lg_from g /\ lg_to (fold_left lg_plan_fp fps g) = lg_to g /\
  lg_has (fold_left lg_plan_fp fps g) = lg_has g /\
  (forall fp, List.In fp fps -> List.In fp (lg_plan (fold_left lg_plan_fp fps g))).
Proof.
  revert g. induction fps as [|fp fps IH]; intros g; cbn [fold_left]; [repeat split; intros fp []|].
  destruct (IH (lg_plan_fp g fp)) as [H1 [H2 [H3 H4]]].
  assert (Hf : lg_from (lg_plan_fp g fp) = lg_from g /\ lg_to (lg_plan_fp g fp) = lg_to g /\ lg_has (lg_plan_fp g fp) = lg_has g /\
               List.In fp (lg_plan (lg_plan_fp g fp)) /\ (forall x, List.In x (lg_plan g) -> List.In x (lg_plan (lg_plan_fp g fp)))).
  { unfold lg_plan_fp. destruct (existsb (N.eqb fp) (lg_plan g)) eqn:E; cbn.
    - repeat split; try reflexivity; [|tauto]. apply existsb_exists in E. destruct E as [y [Hy He]]. apply N.eqb_eq in He. now subst.
    - repeat split; try reflexivity; [apply in_or_app; right; now left|intros; apply in_or_app; now left]. }
  destruct Hf as [F1 [F2 [F3 [F4 F5]]]].
  split; [congruence|]. split; [congruence|]. split; [congruence|].
  intros x [Hx|Hx]; [subst x|now apply H4].
  clear -F4. revert F4. generalize (lg_plan_fp g fp). induction fps as [|y fps IH]; intros g' Hin; cbn [fold_left]; [assumption|].
  apply IH. unfold lg_plan_fp. destruct (existsb (N.eqb y) (lg_plan g')); cbn; [assumption|apply in_or_app; now left].
Qed.

(* a Select on a querier = the pure assembly select_series over the reply to ITS OWN labels request *)
Theorem select_step_meaning answer st c :
  snd (select_step answer st c) =
  select_series (cl_mr c) (cl_rows c) (answer (cl_from c) (cl_to c) (planned_fps (cl_mr c) (cl_from c) (cl_to c) (cl_rows c))).
Proof.
  unfold select_step, select_series, planned_fps. cbn [snd].
  set (ss := select_loop (cl_mr c) (cl_rows c)).
  set (g1 := fold_left lg_plan_fp (map ps_fp ss) (new_getter (cl_from c) (cl_to c))).
  destruct (plan_fold_fields (map ps_fp ss) (new_getter (cl_from c) (cl_to c))) as [Hf [Ht [Hh Hin]]]. fold g1 in Hf, Ht, Hh, Hin.
  cbn [new_getter lg_from lg_to lg_has] in Hf, Ht, Hh.
  unfold lg_fetch. destruct (lg_plan g1) as [|fp0 fps] eqn:Ep.
  - (* nothing planned: no series was opened *)
    destruct ss as [|s ss']; [reflexivity|]. exfalso. apply (Hin (ps_fp s)). now left.
  - assert (Hget : forall fp, lg_get {| lg_from := lg_from g1; lg_to := lg_to g1; lg_has := lg_has g1 ++ answer (lg_from g1) (lg_to g1) (fp0 :: fps); lg_plan := lg_plan g1 |} fp
                   = labels_get (answer (cl_from c) (cl_to c) (fp0 :: fps)) fp).
    { intros fp. unfold lg_get. cbn [lg_has]. rewrite Hh, Hf, Ht. reflexivity. }
    assert (Hext : forall (f g : N -> labels), (forall fp, f fp = g fp) ->
              isort out_lt (map (fun s => {| o_labels := f (ps_fp s); o_fp := ps_fp s; o_samples := ps_samples s |}) (reshuffle f ss)) =
              isort out_lt (map (fun s => {| o_labels := g (ps_fp s); o_fp := ps_fp s; o_samples := ps_samples s |}) (reshuffle g ss))).
    { intros f g Hfg. f_equal. unfold reshuffle.
      rewrite (map_ext (fun s => (f (ps_fp s), s)) (fun s => (g (ps_fp s), s))) by (intros; now rewrite Hfg).
      apply map_ext. intros; now rewrite Hfg. }
    rewrite Ep in *. apply Hext. exact Hget.
Qed.

(* the result of a Select does not depend on what the querier did before *)
Theorem select_step_independent answer st1 st2 c : snd (select_step answer st1 c) = snd (select_step answer st2 c).
Proof. now rewrite !select_step_meaning. Qed.

Lemma run_selects_map answer cs : forall st, run_selects answer st cs = map (fun c => snd (select_step answer None c)) cs.
Proof.
  induction cs as [|c cs IH]; intros st; [reflexivity|]. cbn [run_selects map].
  destruct (select_step answer st c) as [st' out] eqn:E. rewrite IH. f_equal.
  change out with (snd (st', out)). rewrite <- E. apply select_step_independent.
Qed.

Theorem run_selects_independent answer st1 st2 pre1 pre2 c :
  last (run_selects answer st1 (pre1 ++ [c])) [] = last (run_selects answer st2 (pre2 ++ [c])) [].
Proof. rewrite !run_selects_map, !map_app. cbn [map]. now rewrite !last_last. Qed.

(* ====================================================================================== *)
(* N. processHints: the two SQL expressions under the interpreter = the list readings      *)
(* ====================================================================================== *)
Section HINTEXPR.
  Variable re_match : string -> string -> bool.
  Variable cte : select -> option (list N).
  Definition ts_env (name : string) (ts : Z) : env := fun n => if String.eqb n name then Some (VI ts) else None.

  (* the bucket column of processHints, under the interpreter = bucket_of of the list reading bucket_series *)
  Lemma ev_bucket_expr h ts : h_step h <> 0%Z ->
    ev re_match cte (ts_env "spls.timestamp_ms" ts) (bucket_expr h) = Some (VI (bucket_of (h_start h) (h_step h) ts)).
  Proof.
    intros Hs. unfold bucket_expr, bucket_of. cbn.
    destruct (Z.eqb_spec (h_step h) 0) as [E|_]; [contradiction|]. reflexivity.
  Qed.

  (* the modulo condition of processHints, under the interpreter = range_keep of the list reading range_filter *)
  Lemma ev_range_cond h ts v :
    ev re_match cte (ts_env "timestamp_ms" ts)
       (Or [Eq (ms_in_step "timestamp_ms" (h_step h)) (IntV 0);
            Ge (ms_in_step "timestamp_ms" (h_step h)) (IntV (h_step h - h_range h))]) =
    Some (b2v (range_keep (h_step h) (h_range h) (ts, v))).
  Proof.
    unfold range_keep, ms_in_step, Or, Eq, Ge. cbn.
    destruct (Z.rem ts (h_step h) =? 0)%Z; cbn.
    - destruct (Z.rem ts (h_step h) <? h_step h - h_range h)%Z; reflexivity.
    - destruct (Z.ltb_spec (Z.rem ts (h_step h)) (h_step h - h_range h)) as [H|H]; cbn.
      + replace (h_step h - h_range h <=? Z.rem ts (h_step h))%Z with false by (symmetry; apply Z.leb_gt; exact H). reflexivity.
      + replace (h_step h - h_range h <=? Z.rem ts (h_step h))%Z with true by (symmetry; apply Z.leb_le; exact H). reflexivity.
  Qed.
End HINTEXPR.
