(* Round 8 (builder b8-c17): prom_select_exact_series WITHOUT its last hypothesis "stored series with one label set
   carry one fingerprint".  A label set IS stored under several fingerprints in ordinary operation (the fingerprint
   function is a configuration switch: CityHash64 / 32-bit Bernstein; a writer restart under the other setting stores the
   same label set under a second fingerprint).  For every consistent database, every matcher list (<= 63, one of them
   rejecting ""), raw path with Step = 0, with BOTH statements answered by the reference interpreter:
   Select hands every label set of a matching stored series that has a sample in the window to the engine exactly once,
   under its own sorted label list, with exactly the in-range samples of ALL matching fingerprints stored under that label
   set (no other sample, none lost), ascending by timestamp.  Composition of prom_select_series_exact (the statements)
   with PromSelMergeProofs.select_series_merge_exact (the assembly). *)
From Coq Require Import List ZArith NArith String Bool Lia Permutation Sorted.
From Qryn Require Import lib.Strs model.Logql model.LogqlPlan model.PromSel model.PromSem model.PromCase model.PromSelect
  model.PromSelDup proofs.PromSelProofs proofs.PromSelDupProofs proofs.PromSelMergeProofs.
Import ListNotations.

Lemma ts_le_map_fst l : StronglySorted ts_le l -> StronglySorted Z.le (map fst l).
Proof.
  induction 1 as [|x l Hs IH Hall]; cbn [map]; constructor; auto.
  rewrite Forall_forall in *. intros z Hz. apply in_map_iff in Hz as [y [<- Hy]]. now apply Hall.
Qed.

Section SHARED.
  Variable re_match re_full : string -> string -> bool.
  Hypothesis anchor_law : forall v p, re_match v (anchor p) = re_full v p.

  Theorem prom_select_exact_shared_label_sets_lemma cluster dbname h ms db :
    use_raw_data h = true -> h_step h = 0%Z ->
    db_ok (day_from h) (d_gin db) (d_series db) ->
    selective re_full ms = true -> (List.length ms <= 63)%nat ->
    (forall sm, List.In sm (d_samples db) -> window_ok h sm = true ->
       exists s, List.In s (d_series db) /\ t_fp s = sm_fp sm /\ (t_type s = 2 \/ t_type s = 0)%Z /\
                 (day_from h <= t_date s)%Z /\ (t_date s <= day_to h)%Z) ->
    exists out, prom_select re_match re_full cluster dbname h ms db = Some out /\
      NoDup (map o_labels out) /\
      (forall o, List.In o out ->
         (exists s, List.In s (d_series db) /\ t_fp s = o_fp o /\ (t_type s = 2 \/ t_type s = 0)%Z /\
                    prom_matches re_full ms (t_labels s) = true /\
                    o_labels o = sort_labels (sort_labels (t_labels s))) /\
         (forall x, List.In x (o_samples o) <->
            exists sm s, List.In sm (d_samples db) /\ window_ok h sm = true /\
                         List.In (sm_fp sm) (expected_fps re_full (day_from h) ms (d_series db)) /\
                         List.In s (d_series db) /\ t_fp s = sm_fp sm /\ (t_type s = 2 \/ t_type s = 0)%Z /\
                         sort_labels (sort_labels (t_labels s)) = o_labels o /\
                         x = (Z.quot (sm_ts_ns sm) 1000000, sm_value sm)) /\
         StronglySorted Z.le (map fst (o_samples o))) /\
      (forall sm, List.In sm (d_samples db) -> window_ok h sm = true ->
         List.In (sm_fp sm) (expected_fps re_full (day_from h) ms (d_series db)) ->
         exists o s, List.In o out /\ List.In s (d_series db) /\ t_fp s = sm_fp sm /\ (t_type s = 2 \/ t_type s = 0)%Z /\
                     o_labels o = sort_labels (sort_labels (t_labels s))).
  Proof.
    intros Hraw Hstep Hdb Hne Hlen Hrows.
    destruct (prom_select_series_exact re_match re_full anchor_law cluster dbname h ms db Hraw Hstep Hdb Hne Hlen)
      as [rows [Hq [Hnd [Hfps Hss]]]].
    assert (Hrows_eq : rows = expected_rows re_full h ms db).
    { pose proof (prom_rows_exact re_match re_full anchor_law cluster dbname h ms db Hraw Hstep Hdb Hne Hlen) as E.
      rewrite Hq in E. now inversion E. }
    assert (Hc : contiguousb rows = true).
    { rewrite Hrows_eq, expected_rows_raw. unfold raw_rows. apply sorted_contiguous, isort_sorted. }
    assert (Hmr : snd (querier_transpile re_full cluster dbname h ms) = false).
    { unfold querier_transpile. rewrite Hraw. reflexivity. }
    unfold prom_select. rewrite Hq, Hmr. rewrite Hmr in Hnd, Hfps, Hss.
    set (ss := select_loop false rows) in *.
    set (fetch := fetch_rows (day_from h) (day_to h) (fps_of rows) (d_series db)).
    set (getl := labels_get fetch).
    destruct (select_loop_spec false rows Hc) as [_ [Hfps' _]]. fold ss in Hfps'.
    assert (Hfpin : forall s', List.In s' ss -> List.In (ps_fp s') (fps_of rows)).
    { intros s' Hs'. unfold fps_of. apply nodup_In. apply Hfps'. now apply in_map. }
    assert (Hss_of : forall fp, List.In fp (fps_of rows) -> exists s', List.In s' ss /\ ps_fp s' = fp).
    { intros fp Hfp. unfold fps_of in Hfp. apply nodup_In in Hfp. apply Hfps' in Hfp. apply in_map_iff in Hfp as [s' [E Hs']]. now exists s'. }
    assert (Hlab : forall s', List.In s' ss -> exists s, List.In s (d_series db) /\ t_fp s = ps_fp s' /\
                     (t_type s = 2 \/ t_type s = 0)%Z /\
                     getl (ps_fp s') = sort_labels (sort_labels (t_labels s))).
    { intros s' Hs'.
      assert (Hin : List.In (ps_fp s') (map ps_fp ss)) by now apply in_map.
      apply Hfps in Hin. destruct Hin as [_ [sm [Hsm1 [Hw Hfp]]]].
      destruct (Hrows sm Hsm1 Hw) as [s [Hs [Hsfp [Hsty [Hd1 Hd2]]]]].
      exists s. split; [assumption|]. split; [congruence|]. split; [assumption|].
      unfold getl, fetch. rewrite <- Hfp, <- Hsfp.
      apply labels_get_own; try assumption; [apply (fp_functional _ _ _ Hdb)|].
      rewrite Hsfp, Hfp. now apply Hfpin. }
    destruct (select_series_merge_exact false rows fetch Hc) as [HND [HS HC]].
    eexists. split; [reflexivity|]. split; [exact HND|]. split.
    - intros o Ho. destruct (HS o Ho) as [Hg [Hperm [Hone Hmany]]].
      pose proof Hg as Hg0. apply group_fps_in in Hg as [Hgin Hgl].
      destruct (Hss_of _ Hgin) as [s' [Hs' Es']].
      split; [|split].
      + destruct (Hlab s' Hs') as [s [Hs [Hsfp [Hsty Hl]]]].
        assert (Hin : List.In (ps_fp s') (map ps_fp ss)) by now apply in_map.
        apply Hfps in Hin. destruct Hin as [Hexp _]. unfold expected_fps in Hexp. apply nodup_In in Hexp.
        apply in_map_iff in Hexp. destruct Hexp as [sm [Hsmfp Hsm]]. apply filter_In in Hsm. destruct Hsm as [Hsm Hok].
        apply andb_prop in Hok. destruct Hok as [Hmet Hpm].
        assert (Hsmty : (t_type sm = 2 \/ t_type sm = 0)%Z).
        { unfold metric_series in Hmet. apply andb_prop in Hmet. destruct Hmet as [_ Hmet]. apply orb_prop in Hmet.
          destruct Hmet as [Hmet|Hmet]; apply Z.eqb_eq in Hmet; auto. }
        exists s. split; [assumption|]. split; [congruence|]. split; [assumption|]. split.
        * rewrite (fp_functional _ _ _ Hdb s sm Hs Hsm Hsty Hsmty) by congruence. exact Hpm.
        * rewrite <- Hl, Es'. symmetry. exact Hgl.
      + intros x. split.
        * intros Hx. apply (Permutation_in _ Hperm) in Hx. apply in_flat_map in Hx as [fp [Hfp Hx]].
          apply group_fps_in in Hfp as [Hfp1 Hfp2]. destruct (Hss_of fp Hfp1) as [s1 [Hs1 E1]].
          destruct (Hss s1 Hs1) as [Heq [_ Hiff]]. unfold own_samples in Hx. rewrite <- E1, <- Heq in Hx.
          apply Hiff in Hx as [sm [Hsm [Hw [Hsmfp ->]]]].
          destruct (Hlab s1 Hs1) as [s [Hs [Hsfp [Hsty Hl]]]].
          exists sm, s. split; [assumption|]. split; [assumption|]. split.
          { rewrite Hsmfp. apply (Hfps (ps_fp s1)). now apply in_map. }
          split; [assumption|]. split; [congruence|]. split; [assumption|]. split; [|reflexivity].
          rewrite <- Hl, E1. exact Hfp2.
        * intros [sm [s [Hsm [Hw [Hexp [Hs [Hsfp [Hsty [Hl ->]]]]]]]]].
          assert (Hin : List.In (sm_fp sm) (map ps_fp ss)) by (apply Hfps; split; [exact Hexp|exists sm; auto]).
          apply in_map_iff in Hin as [s1 [E1 Hs1]]. destruct (Hss s1 Hs1) as [Heq [_ Hiff]].
          apply (Permutation_in _ (Permutation_sym Hperm)). apply in_flat_map. exists (sm_fp sm). split.
          -- apply group_fps_in. split; [rewrite <- E1; now apply Hfpin|].
             destruct (Hlab s1 Hs1) as [s0 [Hs0 [Hs0fp [Hs0ty Hl0]]]].
             rewrite <- E1. fold getl. rewrite Hl0.
             rewrite (fp_functional _ _ _ Hdb s0 s Hs0 Hs Hs0ty Hsty) by congruence. exact Hl.
          -- unfold own_samples. rewrite <- E1, <- Heq. apply Hiff. exists sm. auto.
      + destruct (group_fps rows fetch (o_labels o)) as [|fp [|fp2 rest]] eqn:G.
        * destruct Hg0.
        * destruct (Hone fp eq_refl) as [E1 E2]. rewrite E2. unfold own_samples.
          destruct (Hss s' Hs') as [Heq [Hasc _]]. rewrite <- E1, <- Es', <- Heq. exact Hasc.
        * apply ts_le_map_fst, Hmany. cbn [List.length]. lia.
    - intros sm Hsm Hw Hexp.
      assert (Hin : List.In (sm_fp sm) (map ps_fp ss)) by (apply Hfps; split; [exact Hexp|exists sm; auto]).
      apply in_map_iff in Hin as [s1 [E1 Hs1]].
      destruct (HC (sm_fp sm)) as [o [Ho Hol]]; [rewrite <- E1; now apply Hfpin|].
      destruct (Hlab s1 Hs1) as [s [Hs [Hsfp [Hsty Hl]]]].
      exists o, s. split; [assumption|]. split; [assumption|]. split; [congruence|]. split; [assumption|].
      rewrite Hol, <- E1. exact Hl.
  Qed.
End SHARED.

(* ---------- the hypotheses are satisfiable by a database that the old theorem excludes: {up, env=dev} stored under
   fingerprints 32 and 34 (both with a sample in the window), {up, instance=h:9090} under 31 ---------- *)
Definition sh_series : list tsrow :=
  [{| t_date := 19675; t_fp := 31; t_type := 2; t_labels := [("__name__", "up"); ("instance", "h:9090")] |};
   {| t_date := 19675; t_fp := 32; t_type := 2; t_labels := [("__name__", "up"); ("env", "dev")] |};
   {| t_date := 19675; t_fp := 34; t_type := 2; t_labels := [("env", "dev"); ("__name__", "up")] |}]%string.
Definition sh_db : database :=
  {| d_gin := gin_of sh_series;
     d_samples := [{| sm_fp := 31; sm_type := 2; sm_ts_ns := 1700000001000000000; sm_value := 1 |};
                   {| sm_fp := 32; sm_type := 2; sm_ts_ns := 1700000003000000000; sm_value := 2 |};
                   {| sm_fp := 34; sm_type := 2; sm_ts_ns := 1700000002000000000; sm_value := 4 |};
                   {| sm_fp := 32; sm_type := 2; sm_ts_ns := 1700000001000000000; sm_value := 3 |}];
     d_series := sh_series |}.

Lemma sh_db_ok : db_ok (day_from w_hints) (d_gin sh_db) (d_series sh_db).
Proof.
  apply gin_of_db_ok.
  - intros s1 s2 H1 H2. cbn in H1, H2. destruct H1 as [<-|[<-|[<-|[]]]], H2 as [<-|[<-|[<-|[]]]]; cbn; intros E; try reflexivity; discriminate.
  - intros s Hs. cbn in Hs. destruct Hs as [<-|[<-|[<-|[]]]]; cbn; repeat constructor; cbn; intuition discriminate.
Qed.

Lemma shared_label_set_witness :
  selective re_none w_ms = true
  /\ (forall sm, List.In sm (d_samples sh_db) -> window_ok w_hints sm = true ->
       exists s, List.In s (d_series sh_db) /\ t_fp s = sm_fp sm /\ (t_type s = 2 \/ t_type s = 0)%Z /\
                 (day_from w_hints <= t_date s)%Z /\ (t_date s <= day_to w_hints)%Z)
  /\ (* the hypothesis of prom_select_exact_series fails on this database *)
     (exists s1 s2, List.In s1 (d_series sh_db) /\ List.In s2 (d_series sh_db) /\
        sort_labels (sort_labels (t_labels s1)) = sort_labels (sort_labels (t_labels s2)) /\ t_fp s1 <> t_fp s2)
  /\ prom_select re_none re_none false "qryn" w_hints w_ms sh_db =
     Some [{| o_labels := [("__name__", "up"); ("env", "dev")]; o_fp := 32;
              o_samples := [(1700000001000, 3); (1700000002000, 4); (1700000003000, 2)] |};
           {| o_labels := [("__name__", "up"); ("instance", "h:9090")]; o_fp := 31; o_samples := [(1700000001000, 1)] |}]%string%Z%N.
Proof.
  split; [vm_compute; reflexivity|]. split.
  - intros sm Hsm _. cbn in Hsm.
    destruct Hsm as [<-|[<-|[<-|[<-|[]]]]].
    + eexists. split; [left; reflexivity|]. split; [reflexivity|]. split; [left; reflexivity|]. split; vm_compute; discriminate.
    + eexists. split; [right; left; reflexivity|]. split; [reflexivity|]. split; [left; reflexivity|]. split; vm_compute; discriminate.
    + eexists. split; [right; right; left; reflexivity|]. split; [reflexivity|]. split; [left; reflexivity|]. split; vm_compute; discriminate.
    + eexists. split; [right; left; reflexivity|]. split; [reflexivity|]. split; [left; reflexivity|]. split; vm_compute; discriminate.
  - split.
    + do 2 eexists. split; [right; left; reflexivity|]. split; [right; right; left; reflexivity|]. split; [vm_compute; reflexivity|]. cbn. discriminate.
    + vm_compute. reflexivity.
Qed.
