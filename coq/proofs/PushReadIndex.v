(* C01 / C04: what "the parser leaves out the series rows it finds in the cache" (model/PushRead.v strip_items) means in
   terms of C04's model of onEntries (model/SeriesIndex.v, reused as it is): the series rows a body gives rise to against a
   cache C are exactly the rows it gives rise to against the empty cache, minus those C holds --
       snd (parse C ss) = filter (not in C) (snd (parse [] ss))
   so the `full` emission of RPush is C04's parse [] and strip-by-cache is C04's parse C. *)
From Coq Require Import List ZArith Bool Lia.
From Qryn Require model.SeriesIndex.
Import ListNotations.
Module SI := SeriesIndex.

Lemma row_eqb_eq x y : SI.row_eqb x y = true <-> x = y.
Proof.
  destruct x as [[a b] c], y as [[a' b'] c']. unfold SI.row_eqb. rewrite !andb_true_iff, !Z.eqb_eq. split.
  - intros [[-> ->] ->]. reflexivity.
  - intros H. inversion H; subst. auto.
Qed.
Lemma row_eqb_refl x : SI.row_eqb x x = true.
Proof. now apply row_eqb_eq. Qed.
Lemma mem_row_in x l : SI.mem_row x l = true <-> In x l.
Proof.
  unfold SI.mem_row. rewrite existsb_exists. split.
  - intros (y & Hy & E). apply row_eqb_eq in E. now subst.
  - intros H. exists x. split; [exact H|apply row_eqb_refl].
Qed.
Lemma mem_row_app x a b : SI.mem_row x (a ++ b) = SI.mem_row x a || SI.mem_row x b.
Proof. unfold SI.mem_row. apply existsb_app. Qed.
Lemma mem_row_filter x p l : SI.mem_row x (filter p l) = SI.mem_row x l && p x.
Proof.
  apply eq_true_iff_eq. rewrite andb_true_iff, !mem_row_in, filter_In. tauto.
Qed.

(* the two runs -- against C and against nothing -- stay related *)
Definition Rel (C : list SI.row) (ac a0 : list SI.row * list SI.row) : Prop :=
  snd ac = filter (fun x => negb (SI.mem_row x C)) (snd a0) /\
  (forall x, SI.mem_row x (fst ac) = SI.mem_row x C || SI.mem_row x (snd ac)) /\
  (forall x, SI.mem_row x (fst a0) = SI.mem_row x (snd a0)).

Lemma mem_cons x y l : SI.mem_row x (y :: l) = SI.row_eqb x y || SI.mem_row x l.
Proof. reflexivity. Qed.

Lemma Rel_type C d fp t ac a0 : Rel C ac a0 -> Rel C (SI.announce_type d fp ac t) (SI.announce_type d fp a0 t).
Proof.
  destruct ac as [cc rc], a0 as [c0 r0]. intros (R1 & R2 & R3). cbn [fst snd] in *. unfold SI.announce_type.
  set (x := (d, fp, SI.tcode t)). rewrite (R2 x), (R3 x).
  destruct (SI.mem_row x C) eqn:MC; cbn [orb].
  - (* the cache holds it: left out; the empty-cache run emits it unless announced *)
    destruct (SI.mem_row x r0) eqn:M0; unfold Rel; cbn [fst snd]; [split; [exact R1|split; assumption]|].
    split; [|split].
    + rewrite filter_app. cbn [filter]. rewrite MC. cbn [negb]. now rewrite app_nil_r.
    + exact R2.
    + intros y. rewrite mem_cons, mem_row_app, (R3 y). cbn [SI.mem_row existsb]. rewrite orb_false_r. apply orb_comm.
  - (* not in the cache: announced by this request in the one run iff in the other *)
    assert (E : SI.mem_row x rc = SI.mem_row x r0).
    { rewrite R1, mem_row_filter, MC. cbn [negb]. apply andb_true_r. }
    rewrite E. destruct (SI.mem_row x r0) eqn:M0; unfold Rel; cbn [fst snd]; [split; [exact R1|split; assumption]|].
    split; [|split].
    + rewrite filter_app. cbn [filter]. rewrite MC. cbn [negb]. now rewrite R1.
    + intros y. rewrite mem_cons, mem_row_app, (R2 y). cbn [SI.mem_row existsb]. rewrite orb_false_r.
      destruct (SI.row_eqb y x), (SI.mem_row y C), (SI.mem_row y rc); reflexivity.
    + intros y. rewrite mem_cons, mem_row_app, (R3 y). cbn [SI.mem_row existsb]. rewrite orb_false_r. apply orb_comm.
Qed.

Lemma Rel_fold {A} (f : list SI.row * list SI.row -> A -> list SI.row * list SI.row) C :
  (forall ac a0 y, Rel C ac a0 -> Rel C (f ac y) (f a0 y)) ->
  forall l ac a0, Rel C ac a0 -> Rel C (fold_left f l ac) (fold_left f l a0).
Proof. intros H l. induction l as [|y l IH]; intros ac a0 R; cbn; [exact R|]. apply IH, H, R. Qed.

Lemma Rel_entries C ac a0 s : Rel C ac a0 -> Rel C (SI.on_entries ac s) (SI.on_entries a0 s).
Proof.
  intros R. unfold SI.on_entries. apply Rel_fold; [|exact R]. intros b b0 d Rb. unfold SI.announce.
  apply Rel_fold; [|exact Rb]. intros e e0 t Re. apply Rel_type, Re.
Qed.

(* The series rows a body gives rise to against the cache C are those it gives rise to against an empty cache that C does
   not hold, in the same order (C04's parse on both sides). *)
Theorem parse_is_strip C ss :
  snd (SI.parse C ss) = filter (fun x => negb (SI.mem_row x C)) (snd (SI.parse [] ss)).
Proof.
  unfold SI.parse. assert (R0 : Rel C (C, []) ([], [])).
  { split; [reflexivity|]. split; intros x; cbn [fst snd]; [cbn [SI.mem_row existsb]; now rewrite orb_false_r|reflexivity]. }
  destruct (Rel_fold SI.on_entries C (fun ac a0 s R => Rel_entries C ac a0 s R) ss _ _ R0) as (R1 & _). exact R1.
Qed.

(* a row is left out iff the cache holds it (and the request would otherwise have announced it) *)
Corollary left_out_iff_cached C ss x : In x (snd (SI.parse [] ss)) ->
  (In x (snd (SI.parse C ss)) <-> SI.mem_row x C = false).
Proof.
  intros H. rewrite parse_is_strip, filter_In, negb_true_iff. tauto.
Qed.
