(* C10 — C11's TraceQL renderer (model/TqSql.v) = flat . tq_pieces, for every tree; hence the token theorem of
   SqlPiecesProofs applies to every TraceQL statement whose segmented text passes pok. *)
From Coq Require Import List ZArith NArith String Ascii Bool.
From Qryn Require Import lib.Strs model.Quote model.ChLex model.SqlSites model.SqlPieces model.TqSql model.TqPieces.
From Qryn Require Import proofs.QuoteProofs proofs.SqlPiecesProofs.
Import ListNotations.
Open Scope string_scope.

(* ---------- structural induction over TqSql.expr / TqSql.select (mutual, nested through lists) ---------- *)
Section TqInd.
  Variable P : expr -> Prop.
  Variable Q : select -> Prop.
  Definition TPopt (x : option expr) : Prop := match x with None => True | Some e => P e end.
  Definition TPjoin (j : jkind * expr * option expr) : Prop := P (snd (fst j)) /\ TPopt (snd j).
  Hypothesis H_Id : forall s, P (Id s).
  Hypothesis H_Raw : forall s, P (Raw s).
  Hypothesis H_NumLit : forall s, P (NumLit s).
  Hypothesis H_RawStr : forall s, P (RawStr s).
  Hypothesis H_StrV : forall s, P (StrV s).
  Hypothesis H_IntV : forall z, P (IntV z).
  Hypothesis H_FloatV : forall s, P (FloatV s).
  Hypothesis H_LOp : forall fn cl, Forall P cl -> P (LOp fn cl).
  Hypothesis H_InE : forall l r, P l -> Forall P r -> P (InE l r).
  Hypothesis H_WRef : forall a, P (WRef a).
  Hypothesis H_Col : forall e a, P e -> P (Col e a).
  Hypothesis H_Ord : forall e d, P e -> P (Ord e d).
  Hypothesis H_Fn : forall f args, Forall P args -> P (Fn f args).
  Hypothesis H_PFn : forall f ps args, Forall P ps -> Forall P args -> P (PFn f ps args).
  Hypothesis H_Distinct : forall e, P e -> P (Distinct e).
  Hypothesis H_Bin : forall op a b, P a -> P b -> P (Bin op a b).
  Hypothesis H_EqBare : forall a b, P a -> P b -> P (EqBare a b).
  Hypothesis H_Tuple : forall l, Forall P l -> P (Tuple l).
  Hypothesis H_Lambda : forall x b, P b -> P (Lambda x b).
  Hypothesis H_BitSet : forall l, Forall P l -> P (BitSet l).
  Hypothesis H_BitSet8 : forall l, Forall P l -> P (BitSet8 l).
  Hypothesis H_BitAnd : forall l r, P l -> P r -> P (BitAnd l r).
  Hypothesis H_GroupBitOr : forall e a, P e -> P (GroupBitOr e a).
  Hypothesis H_MatchRe : forall f re, P f -> P (MatchRe f re).
  Hypothesis H_AttrValue : forall a, P (AttrValue a).
  Hypothesis H_Intersect : forall l, Forall Q l -> P (Intersect l).
  Hypothesis H_Union : forall l, Forall Q l -> P (Union l).
  Hypothesis H_Sel : forall withs d cols from joins pw wh hv gb ob lim,
    Forall (fun w => Q (snd w)) withs -> Forall P cols -> TPopt from -> Forall TPjoin joins ->
    TPopt pw -> TPopt wh -> TPopt hv -> Forall P gb -> Forall P ob -> TPopt lim ->
    Q (Sel withs d cols from joins pw wh hv gb ob lim).

  Fixpoint tq_expr_ind (e : expr) : P e :=
    let all := fix go (l : list expr) : Forall P l :=
      match l with [] => Forall_nil _ | x :: r => Forall_cons x (tq_expr_ind x) (go r) end in
    let alls := fix go (l : list select) : Forall Q l :=
      match l with [] => Forall_nil _ | x :: r => Forall_cons x (tq_sel_ind x) (go r) end in
    match e with
    | Id s => H_Id s | Raw s => H_Raw s | NumLit s => H_NumLit s | RawStr s => H_RawStr s | StrV s => H_StrV s
    | IntV z => H_IntV z | FloatV s => H_FloatV s
    | LOp fn cl => H_LOp fn cl (all cl)
    | InE l r => H_InE l r (tq_expr_ind l) (all r)
    | WRef a => H_WRef a
    | Col e a => H_Col e a (tq_expr_ind e)
    | Ord e d => H_Ord e d (tq_expr_ind e)
    | Fn f args => H_Fn f args (all args)
    | PFn f ps args => H_PFn f ps args (all ps) (all args)
    | Distinct e => H_Distinct e (tq_expr_ind e)
    | Bin op a b => H_Bin op a b (tq_expr_ind a) (tq_expr_ind b)
    | EqBare a b => H_EqBare a b (tq_expr_ind a) (tq_expr_ind b)
    | Tuple l => H_Tuple l (all l)
    | Lambda x b => H_Lambda x b (tq_expr_ind b)
    | BitSet l => H_BitSet l (all l)
    | BitSet8 l => H_BitSet8 l (all l)
    | BitAnd l r => H_BitAnd l r (tq_expr_ind l) (tq_expr_ind r)
    | GroupBitOr e a => H_GroupBitOr e a (tq_expr_ind e)
    | MatchRe f re => H_MatchRe f re (tq_expr_ind f)
    | AttrValue a => H_AttrValue a
    | Intersect l => H_Intersect l (alls l)
    | Union l => H_Union l (alls l)
    end
  with tq_sel_ind (s : select) : Q s :=
    let all := fix go (l : list expr) : Forall P l :=
      match l with [] => Forall_nil _ | x :: r => Forall_cons x (tq_expr_ind x) (go r) end in
    let opt := fun (x : option expr) => match x return TPopt x with None => I | Some e => tq_expr_ind e end in
    match s with
    | Sel withs d cols from joins pw wh hv gb ob lim =>
      H_Sel withs d cols from joins pw wh hv gb ob lim
        ((fix go (l : list (string * select)) : Forall (fun w => Q (snd w)) l :=
            match l with [] => Forall_nil _ | w :: r => Forall_cons w (tq_sel_ind (snd w)) (go r) end) withs)
        (all cols) (opt from)
        ((fix go (l : list (jkind * expr * option expr)) : Forall TPjoin l :=
            match l with [] => Forall_nil _ | j :: r => Forall_cons j (conj (tq_expr_ind (snd (fst j))) (opt (snd j))) (go r) end) joins)
        (opt pw) (opt wh) (opt hv) (all gb) (all ob) (opt lim)
    end.
End TqInd.

(* ---------- agreement ---------- *)
Lemma tq_esc_is_esc : forall s, TqSql.esc s = Quote.esc s.
Proof. induction s as [|c s IH]; [reflexivity|]. cbn [TqSql.esc Quote.esc]. rewrite IH. reflexivity. Qed.
Lemma tq_quote_is_render_quote s : TqSql.quote s = SqlRender.quote s.
Proof. transitivity (Quote.quote s); [|symmetry; apply render_quote_is_quote]. unfold TqSql.quote, Quote.quote. now rewrite tq_esc_is_esc. Qed.

Lemma tq_join_is_join sep l : TqSql.join sep l = Strs.join sep l.
Proof. induction l as [|x l IH]; [reflexivity|]. destruct l; [reflexivity|]. cbn [TqSql.join Strs.join] in *. now rewrite IH. Qed.

Lemma flat_pjoin_tq sep l : flat (pjoin sep l) = TqSql.join sep (map flat l).
Proof. rewrite flat_pjoin. symmetry. apply tq_join_is_join. Qed.

Lemma map_agree {A} (f : A -> string) (g : A -> rtext) l :
  Forall (fun x => f x = flat (g x)) l -> map f l = map flat (map g l).
Proof. induction 1 as [|x l Hx _ IH]; [reflexivity|]. cbn [map]. now rewrite Hx, IH. Qed.

Lemma flat_tq_bitset : forall ss i, map flat (tq_bitset ss i) = bitset_strs (map flat ss) i.
Proof.
  induction ss as [|s ss IH]; intro i; [reflexivity|].
  cbn [tq_bitset bitset_strs map]. rewrite IH. f_equal.
  cbn [flat flat1]. rewrite flat_app. cbn [flat flat1]. rewrite sapp_nil_r. reflexivity.
Qed.
Lemma flat_tq_bitset8 : forall ss i, map flat (tq_bitset8 ss i) = bitset8_strs (map flat ss) i.
Proof.
  induction ss as [|s ss IH]; intro i; [reflexivity|].
  cbn [tq_bitset8 bitset8_strs map]. rewrite IH. f_equal.
  cbn [flat flat1]. rewrite flat_app. cbn [flat flat1]. rewrite sapp_nil_r. reflexivity.
Qed.

Lemma concat_cons x r : String.concat "" (x :: r) = x ++ String.concat "" r.
Proof. destruct r; [cbn [String.concat]; now rewrite sapp_nil_r|reflexivity]. Qed.

Definition tq_agree (e : expr) : Prop := rexpr e = flat (tq_pexpr e).
Definition tq_agree_sel (s : select) : Prop := forall top, rsel top s = flat (tq_psel top s).

Lemma tq_ropt_agree kw o : TPopt tq_agree o -> ropt rexpr kw o = flat (tq_popt tq_pexpr kw o).
Proof. destruct o as [e|]; intro H; [|reflexivity]. cbn [ropt tq_popt flat flat1]. now rewrite H. Qed.

Lemma tq_rlist_agree kw l : Forall tq_agree l -> rlist rexpr kw l = flat (tq_plist tq_pexpr kw l).
Proof.
  intro H. destruct l as [|e l]; [reflexivity|]. unfold rlist, tq_plist. cbn [flat flat1].
  rewrite flat_pjoin_tq, (map_agree rexpr tq_pexpr _ H). reflexivity.
Qed.

Ltac fl := repeat (rewrite ?flat_app, ?flat_pjoin_tq; cbn [flat flat1]); rewrite ?sapp_nil_r.

Lemma tq_render_flat_all : (forall e, tq_agree e) /\ (forall s, tq_agree_sel s).
Proof.
  assert (HS : forall withs d cols from joins pw wh hv gb ob lim,
    Forall (fun w => tq_agree_sel (snd w)) withs -> Forall tq_agree cols -> TPopt tq_agree from -> Forall (TPjoin tq_agree) joins ->
    TPopt tq_agree pw -> TPopt tq_agree wh -> TPopt tq_agree hv -> Forall tq_agree gb -> Forall tq_agree ob -> TPopt tq_agree lim ->
    tq_agree_sel (Sel withs d cols from joins pw wh hv gb ob lim)).
  { intros withs d cols from joins pw wh hv gb ob lim Hw Hc Hf Hj Hpw Hwh Hhv Hgb Hob Hlim top.
    cbn [rsel tq_psel].
    rewrite (tq_ropt_agree " PREWHERE " _ Hpw), (tq_ropt_agree " WHERE " _ Hwh), (tq_ropt_agree " HAVING " _ Hhv),
            (tq_ropt_agree " LIMIT " _ Hlim), (tq_rlist_agree " GROUP BY " _ Hgb), (tq_rlist_agree " ORDER BY " _ Hob).
    rewrite flat_app. cbn [flat flat1]. rewrite !flat_app. rewrite flat_pjoin_tq, (map_agree rexpr tq_pexpr _ Hc).
    f_equal.
    - destruct top; [|reflexivity]. destruct withs as [|w0 ws]; [reflexivity|].
      cbn [flat flat1]. rewrite flat_pjoin_tq. f_equal. f_equal.
      rewrite map_map. clear - Hw. induction Hw as [|w l Hq _ IH]; [reflexivity|].
      cbn [map]. rewrite IH. f_equal. rewrite (Hq false). cbn [flat flat1]. rewrite flat_app. cbn [flat flat1]. now rewrite sapp_nil_r.
    - f_equal. f_equal. f_equal. f_equal.
      destruct from as [f|]; [|reflexivity]. cbn in Hf. cbn [flat flat1]. rewrite flat_app, Hf. f_equal. f_equal.
      clear - Hj. induction Hj as [|[[k t] on] l [Ht Hon] _ IH]; [reflexivity|].
      cbn [map List.concat fst snd] in *. rewrite concat_cons, flat_app, IH. f_equal.
      cbn [flat flat1]. rewrite flat_app, Ht. cbn [flat flat1].
      destruct on as [c|]; [cbn in Hon; rewrite Hon; cbn [flat flat1]|]; rewrite ?sapp_nil_r; reflexivity. }
  assert (HE : forall e, tq_agree e).
  { apply (tq_expr_ind tq_agree tq_agree_sel); try exact HS; unfold tq_agree.
    - intros; cbn [rexpr tq_pexpr flat flat1]; now rewrite sapp_nil_r.
    - intros; cbn [rexpr tq_pexpr flat flat1]; now rewrite sapp_nil_r.
    - intros; cbn [rexpr tq_pexpr flat flat1]; now rewrite sapp_nil_r.
    - intros; cbn [rexpr tq_pexpr flat flat1]; now rewrite !sapp_nil_r.
    - intros; cbn [rexpr tq_pexpr flat flat1]; now rewrite sapp_nil_r, tq_quote_is_render_quote.
    - intros; cbn [rexpr tq_pexpr flat flat1]; now rewrite sapp_nil_r.
    - intros; cbn [rexpr tq_pexpr flat flat1]; now rewrite sapp_nil_r.
    - intros fn cl H. cbn [rexpr tq_pexpr]. rewrite flat_pjoin_tq, map_map. f_equal.
      clear - H. induction H as [|x l Hx _ IH]; [reflexivity|]. cbn [map]. now rewrite IH, Hx, flat_paren.
    - intros l r Hl Hr. cbn [rexpr tq_pexpr]. fl. now rewrite Hl, (map_agree rexpr tq_pexpr _ Hr).
    - intros; cbn [rexpr tq_pexpr flat flat1]; now rewrite sapp_nil_r.
    - intros e a He. cbn [rexpr tq_pexpr]. destruct (String.eqb a ""); [exact He|]. fl. now rewrite He.
    - intros e d He. cbn [rexpr tq_pexpr]. fl. now rewrite He.
    - intros f args H. cbn [rexpr tq_pexpr]. fl. now rewrite (map_agree rexpr tq_pexpr _ H).
    - intros f ps args Hp Ha. cbn [rexpr tq_pexpr]. fl. now rewrite (map_agree rexpr tq_pexpr _ Hp), (map_agree rexpr tq_pexpr _ Ha).
    - intros e He. cbn [rexpr tq_pexpr]. fl. now rewrite He.
    - intros op a b Ha Hb. cbn [rexpr tq_pexpr]. fl. now rewrite Ha, Hb.
    - intros a b Ha Hb. cbn [rexpr tq_pexpr]. fl. now rewrite Ha, Hb.
    - intros l H. cbn [rexpr tq_pexpr]. fl. now rewrite (map_agree rexpr tq_pexpr _ H).
    - intros x b Hb. cbn [rexpr tq_pexpr]. fl. now rewrite Hb.
    - intros l H. cbn [rexpr tq_pexpr]. rewrite flat_pjoin_tq, flat_tq_bitset, (map_agree rexpr tq_pexpr _ H). reflexivity.
    - intros l H. cbn [rexpr tq_pexpr]. rewrite flat_pjoin_tq, flat_tq_bitset8, (map_agree rexpr tq_pexpr _ H). reflexivity.
    - intros l r Hl Hr. cbn [rexpr tq_pexpr]. fl. now rewrite Hl, Hr.
    - intros e a He. cbn [rexpr tq_pexpr]. destruct (String.eqb a ""); fl; now rewrite He.
    - intros f re Hf. cbn [rexpr tq_pexpr]. fl. now rewrite Hf, tq_quote_is_render_quote.
    - intros a. cbn [rexpr tq_pexpr]. fl. now rewrite tq_quote_is_render_quote.
    - intros l H. cbn [rexpr tq_pexpr]. fl. f_equal. f_equal. f_equal.
      clear - H. induction H as [|x l Hx _ IH]; [reflexivity|]. cbn [map]. now rewrite IH, (Hx true).
    - intros l H. cbn [rexpr tq_pexpr]. fl. f_equal. f_equal. f_equal.
      clear - H. induction H as [|x l Hx _ IH]; [reflexivity|]. cbn [map]. now rewrite IH, (Hx true). }
  split; [exact HE|].
  exact (tq_sel_ind tq_agree tq_agree_sel
    (fun s => HE (Id s)) (fun s => HE (Raw s)) (fun s => HE (NumLit s)) (fun s => HE (RawStr s)) (fun s => HE (StrV s))
    (fun z => HE (IntV z)) (fun s => HE (FloatV s)) (fun fn cl _ => HE (LOp fn cl)) (fun l r _ _ => HE (InE l r))
    (fun a => HE (WRef a)) (fun e a _ => HE (Col e a)) (fun e d _ => HE (Ord e d)) (fun f args _ => HE (Fn f args))
    (fun f ps args _ _ => HE (PFn f ps args)) (fun e _ => HE (Distinct e)) (fun op a b _ _ => HE (Bin op a b))
    (fun a b _ _ => HE (EqBare a b)) (fun l _ => HE (Tuple l)) (fun x b _ => HE (Lambda x b)) (fun l _ => HE (BitSet l))
    (fun l _ => HE (BitSet8 l)) (fun l r _ _ => HE (BitAnd l r)) (fun e a _ => HE (GroupBitOr e a))
    (fun f re _ => HE (MatchRe f re)) (fun a => HE (AttrValue a)) (fun l _ => HE (Intersect l)) (fun l _ => HE (Union l)) HS).
Qed.

(* C11's renderer is the flattening of the segmented renderer *)
Lemma tq_render_pieces s : TqSql.render s = flat (tq_pieces s).
Proof. exact (proj2 tq_render_flat_all s true). Qed.

(* hence: every TraceQL statement whose segmented text passes pok lexes to the planner's own tokens plus exactly one
   literal per StringVal / matchRe expression / sqlAttrValue name / raw-quoted string *)
Lemma tq_rendered_tokens s : pok QN (tq_pieces s) = true ->
  lex (TqSql.render s) = etoks QN (tq_pieces s) /\ lits (lex (TqSql.render s)) = elits QN (tq_pieces s).
Proof. intro H. rewrite tq_render_pieces, (lex_pieces _ H). split; [reflexivity|apply lits_etoks]. Qed.

(* ---------- replacing the values of a TraceQL tree replaces the value pieces and nothing else ---------- *)
Lemma pm_cons f x r : pm f (x :: r) = map_lit f x :: pm f r.
Proof. reflexivity. Qed.
Lemma pm_nil f : pm f [] = [].
Proof. reflexivity. Qed.
Ltac pmn := repeat (rewrite ?pm_app, ?pm_cons, ?pm_nil, ?pm_pjoin); cbn [map_lit].

Lemma pm_tq_bitset f : forall ss i, map (pm f) (tq_bitset ss i) = tq_bitset (map (pm f) ss) i.
Proof.
  induction ss as [|s ss IH]; intro i; [reflexivity|].
  cbn [tq_bitset map]. rewrite IH. f_equal. pmn. reflexivity.
Qed.
Lemma pm_tq_bitset8 f : forall ss i, map (pm f) (tq_bitset8 ss i) = tq_bitset8 (map (pm f) ss) i.
Proof.
  induction ss as [|s ss IH]; intro i; [reflexivity|].
  cbn [tq_bitset8 map]. rewrite IH. f_equal. pmn. reflexivity.
Qed.

Lemma map_agree2 {A} f (g : A -> rtext) (h : A -> A) l :
  Forall (fun x => g (h x) = pm f (g x)) l -> map g (map h l) = map (pm f) (map g l).
Proof. induction 1 as [|x l Hx _ IH]; [reflexivity|]. cbn [map]. now rewrite Hx, IH. Qed.

Section TqSubst.
  Variable f : string -> string.
  Definition tq_agree2 (e : expr) : Prop := tq_pexpr (tq_subst f e) = pm f (tq_pexpr e).
  Definition tq_agree2_sel (s : select) : Prop := forall top, tq_psel top (tq_subst_sel f s) = pm f (tq_psel top s).

  Lemma tq_popt_map kw x : TPopt tq_agree2 x ->
    tq_popt tq_pexpr kw (map_opt (tq_subst f) x) = pm f (tq_popt tq_pexpr kw x).
  Proof. destruct x as [e|]; intro H; [|reflexivity]. cbn [map_opt tq_popt]. rewrite H. reflexivity. Qed.

  Lemma tq_plist_map kw l : Forall tq_agree2 l ->
    tq_plist tq_pexpr kw (map (tq_subst f) l) = pm f (tq_plist tq_pexpr kw l).
  Proof.
    intro H. destruct l as [|e l]; [reflexivity|]. unfold tq_plist.
    change (map (tq_subst f) (e :: l)) with (tq_subst f e :: map (tq_subst f) l) at 1. cbv iota.
    change (tq_subst f e :: map (tq_subst f) l) with (map (tq_subst f) (e :: l)).
    rewrite (map_agree2 f tq_pexpr (tq_subst f) _ H). pmn. reflexivity.
  Qed.

  Lemma tq_subst_pieces_all : (forall e, tq_agree2 e) /\ (forall s, tq_agree2_sel s).
  Proof.
    assert (HS : forall withs d cols from joins pw wh hv gb ob lim,
      Forall (fun w => tq_agree2_sel (snd w)) withs -> Forall tq_agree2 cols -> TPopt tq_agree2 from -> Forall (TPjoin tq_agree2) joins ->
      TPopt tq_agree2 pw -> TPopt tq_agree2 wh -> TPopt tq_agree2 hv -> Forall tq_agree2 gb -> Forall tq_agree2 ob -> TPopt tq_agree2 lim ->
      tq_agree2_sel (Sel withs d cols from joins pw wh hv gb ob lim)).
    { intros withs d cols from joins pw wh hv gb ob lim Hw Hc Hf Hj Hpw Hwh Hhv Hgb Hob Hlim top.
      cbn [tq_subst_sel tq_psel].
      rewrite (tq_popt_map " PREWHERE " _ Hpw), (tq_popt_map " WHERE " _ Hwh), (tq_popt_map " HAVING " _ Hhv),
              (tq_popt_map " LIMIT " _ Hlim), (tq_plist_map " GROUP BY " _ Hgb), (tq_plist_map " ORDER BY " _ Hob).
      rewrite (map_agree2 f tq_pexpr (tq_subst f) _ Hc).
      rewrite (pm_app f _ (RTxt " SELECT " :: _)). rewrite !pm_cons. cbn [map_lit]. rewrite !pm_app, pm_pjoin.
      f_equal; [|f_equal; f_equal; f_equal; f_equal].
      - destruct top; [|reflexivity]. destruct withs as [|w0 ws]; [reflexivity|].
        change (map (fun w => (fst w, tq_subst_sel f (snd w))) (w0 :: ws))
          with ((fst w0, tq_subst_sel f (snd w0)) :: map (fun w => (fst w, tq_subst_sel f (snd w))) ws) at 1. cbv iota.
        change ((fst w0, tq_subst_sel f (snd w0)) :: map (fun w => (fst w, tq_subst_sel f (snd w))) ws)
          with (map (fun w => (fst w, tq_subst_sel f (snd w))) (w0 :: ws)).
        rewrite pm_cons, pm_pjoin. cbn [map_lit]. f_equal. f_equal. rewrite !map_map.
        clear - Hw. induction Hw as [|w l Hq _ IH]; [reflexivity|].
        cbn [map]. rewrite IH. f_equal. cbn [fst snd]. rewrite (Hq false). pmn. reflexivity.
      - destruct from as [e|]; [|reflexivity]. cbn in Hf. cbn [map_opt]. rewrite Hf. pmn. f_equal. f_equal.
        clear - Hj. induction Hj as [|[[k t] on] l [Ht Hon] _ IH]; [reflexivity|].
        cbn [map List.concat fst snd] in *. rewrite IH, pm_app. f_equal. rewrite Ht. pmn.
        destruct on as [c|]; [cbn in Hon; cbn [map_opt]; rewrite Hon; pmn; reflexivity|reflexivity]. }
    assert (HE : forall e, tq_agree2 e).
    { apply (tq_expr_ind tq_agree2 tq_agree2_sel); try exact HS; unfold tq_agree2.
      - reflexivity.
      - reflexivity.
      - reflexivity.
      - reflexivity.
      - reflexivity.
      - reflexivity.
      - reflexivity.
      - intros fn cl H. cbn [tq_subst tq_pexpr]. rewrite pm_pjoin, !map_map. f_equal.
        clear - H. induction H as [|x l Hx _ IH]; [reflexivity|]. cbn [map]. now rewrite IH, Hx, pm_paren.
      - intros l r Hl Hr. cbn [tq_subst tq_pexpr]. rewrite Hl, (map_agree2 f tq_pexpr (tq_subst f) _ Hr). pmn. reflexivity.
      - reflexivity.
      - intros e a He. cbn [tq_subst tq_pexpr]. destruct (String.eqb a ""); [exact He|]. rewrite He. pmn. reflexivity.
      - intros e d He. cbn [tq_subst tq_pexpr]. rewrite He. pmn. reflexivity.
      - intros g args H. cbn [tq_subst tq_pexpr]. rewrite (map_agree2 f tq_pexpr (tq_subst f) _ H). pmn. reflexivity.
      - intros g ps args Hp Ha. cbn [tq_subst tq_pexpr].
        rewrite (map_agree2 f tq_pexpr (tq_subst f) _ Hp), (map_agree2 f tq_pexpr (tq_subst f) _ Ha). pmn. reflexivity.
      - intros e He. cbn [tq_subst tq_pexpr]. rewrite He. pmn. reflexivity.
      - intros op a b Ha Hb. cbn [tq_subst tq_pexpr]. rewrite Ha, Hb. pmn. reflexivity.
      - intros a b Ha Hb. cbn [tq_subst tq_pexpr]. rewrite Ha, Hb. pmn. reflexivity.
      - intros l H. cbn [tq_subst tq_pexpr]. rewrite (map_agree2 f tq_pexpr (tq_subst f) _ H). pmn. reflexivity.
      - intros x b Hb. cbn [tq_subst tq_pexpr]. rewrite Hb. pmn. reflexivity.
      - intros l H. cbn [tq_subst tq_pexpr]. rewrite (map_agree2 f tq_pexpr (tq_subst f) _ H), pm_pjoin, pm_tq_bitset. reflexivity.
      - intros l H. cbn [tq_subst tq_pexpr]. rewrite (map_agree2 f tq_pexpr (tq_subst f) _ H), pm_pjoin, pm_tq_bitset8. reflexivity.
      - intros l r Hl Hr. cbn [tq_subst tq_pexpr]. rewrite Hl, Hr. pmn. reflexivity.
      - intros e a He. cbn [tq_subst tq_pexpr]. rewrite He. destruct (String.eqb a ""); pmn; reflexivity.
      - intros fl re Hf. cbn [tq_subst tq_pexpr]. rewrite Hf. pmn. reflexivity.
      - reflexivity.
      - intros l H. cbn [tq_subst tq_pexpr].
        rewrite (map_agree2 f (tq_psel true) (tq_subst_sel f) l); [pmn; reflexivity|].
        clear - H. induction H as [|x l Hx _ IH]; constructor; [exact (Hx true)|exact IH].
      - intros l H. cbn [tq_subst tq_pexpr].
        rewrite (map_agree2 f (tq_psel true) (tq_subst_sel f) l); [pmn; reflexivity|].
        clear - H. induction H as [|x l Hx _ IH]; constructor; [exact (Hx true)|exact IH]. }
    split; [exact HE|].
    exact (tq_sel_ind tq_agree2 tq_agree2_sel
      (fun s => HE (Id s)) (fun s => HE (Raw s)) (fun s => HE (NumLit s)) (fun s => HE (RawStr s)) (fun s => HE (StrV s))
      (fun z => HE (IntV z)) (fun s => HE (FloatV s)) (fun fn cl _ => HE (LOp fn cl)) (fun l r _ _ => HE (InE l r))
      (fun a => HE (WRef a)) (fun e a _ => HE (Col e a)) (fun e d _ => HE (Ord e d)) (fun g args _ => HE (Fn g args))
      (fun g ps args _ _ => HE (PFn g ps args)) (fun e _ => HE (Distinct e)) (fun op a b _ _ => HE (Bin op a b))
      (fun a b _ _ => HE (EqBare a b)) (fun l _ => HE (Tuple l)) (fun x b _ => HE (Lambda x b)) (fun l _ => HE (BitSet l))
      (fun l _ => HE (BitSet8 l)) (fun l r _ _ => HE (BitAnd l r)) (fun e a _ => HE (GroupBitOr e a))
      (fun fl re _ => HE (MatchRe fl re)) (fun a => HE (AttrValue a)) (fun l _ => HE (Intersect l)) (fun l _ => HE (Union l)) HS).
  Qed.

  Lemma tq_pieces_subst s : tq_pieces (tq_subst_sel f s) = pm f (tq_pieces s).
  Proof. exact (proj2 tq_subst_pieces_all s true). Qed.

  (* for ALL replacements of the values of a TraceQL tree the statement keeps its token skeleton, has exactly one literal per
     value piece, and those literals decode to the new values *)
  Lemma tq_values_keep_structure s : pok QN (tq_pieces s) = true ->
    pok QN (tq_pieces (tq_subst_sel f s)) = true /\
    skeleton (lex (TqSql.render (tq_subst_sel f s))) = skeleton (lex (TqSql.render s)) /\
    lex (TqSql.render (tq_subst_sel f s)) = etoks QN (pm f (tq_pieces s)) /\
    lits (lex (TqSql.render (tq_subst_sel f s))) = elits QN (pm f (tq_pieces s)) /\
    rvalues (pm f (tq_pieces s)) = map f (rvalues (tq_pieces s)).
  Proof.
    intro Hok. rewrite !tq_render_pieces, tq_pieces_subst.
    assert (Hq : forallb (all_chars plain_char) (rqids (pm f (tq_pieces s))) = true)
      by (rewrite rqids_pm; exact (pok_plain_qids _ QN Hok)).
    destruct (same_shape_same_skeleton _ (pm f (tq_pieces s)) (eq_sym (shape_pm f (tq_pieces s))) Hq Hok) as [Hok' Hsk].
    split; [exact Hok'|]. split; [exact Hsk|]. rewrite (lex_pieces _ Hok').
    split; [reflexivity|]. split; [apply lits_etoks|apply rvalues_pm].
  Qed.
End TqSubst.
