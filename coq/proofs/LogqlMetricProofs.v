(* Proofs for C08: the SQL-side meaning of the metric planners (LogqlMetricSem.sem) against the
   reference metric_ref, the analysis function of the 15-second shortcut, window bounds. *)
From Coq Require Import List ZArith NArith QArith Qcanon String Ascii Bool Lia.
From Qryn Require Import lib.Strs model.Sql model.Logql model.LogqlPlan model.LogqlMetricSem.
Import ListNotations.
Open Scope Z_scope.
(* Sql.v has constructors named In, Eq, Lt, ...: membership is List.In here *)
Local Notation In := List.In (only parsing).

(* ================= GROUP BY ================= *)
Section GROUPS.
  Context {A : Type}.

  Lemma firsts_ext (s1 s2 : A -> A -> bool) l : forall seen,
    (forall a b, In a l -> In b (seen ++ l) -> s1 a b = s2 a b) ->
    firsts s1 seen l = firsts s2 seen l.
  Proof.
    induction l as [|a r IH]; intros seen H; cbn [firsts]; [reflexivity|].
    assert (E : existsb (s1 a) seen = existsb (s2 a) seen).
    { clear IH. induction seen as [|x xs IHs]; cbn [existsb]; [reflexivity|].
      rewrite (H a x); [|now left|now left]. f_equal. apply IHs.
      intros a' b Ha Hb. apply H; [exact Ha|]. cbn. right. exact Hb. }
    rewrite E. destruct (existsb (s2 a) seen).
    - apply IH. intros x y Hx Hy. apply H; [now right|].
      apply in_app_or in Hy. apply in_or_app. destruct Hy as [Hy|Hy]; [now left|right; now right].
    - f_equal. apply IH. intros x y Hx Hy. apply H; [now right|].
      cbn in Hy. destruct Hy as [<-|Hy].
      + apply in_or_app. right. now left.
      + apply in_app_or in Hy. apply in_or_app. destruct Hy as [Hy|Hy]; [now left|right; now right].
  Qed.

  Lemma filter_ext_in' (p q : A -> bool) l : (forall x, In x l -> p x = q x) -> filter p l = filter q l.
  Proof.
    induction l as [|a r IH]; intros H; cbn [filter]; [reflexivity|].
    rewrite (H a) by now left. rewrite IH; [reflexivity|]. intros x Hx. apply H. now right.
  Qed.

  Lemma firsts_in (s : A -> A -> bool) l : forall seen x, In x (firsts s seen l) -> In x l.
  Proof.
    induction l as [|a r IH]; intros seen x H; cbn [firsts] in H; [contradiction|].
    destruct (existsb (s a) seen).
    - right. eapply IH. exact H.
    - destruct H as [<-|H]; [now left|right; eapply IH; exact H].
  Qed.

  Lemma group_by_ext (s1 s2 : A -> A -> bool) l :
    (forall a b, In a l -> In b l -> s1 a b = s2 a b) -> group_by s1 l = group_by s2 l.
  Proof.
    intros H. unfold group_by. rewrite (firsts_ext s1 s2 l []) by (intros a b Ha Hb; apply H; assumption).
    apply map_ext_in. intros a Ha. apply filter_ext_in'. intros x Hx. apply H; [|exact Hx].
    eapply firsts_in. exact Ha.
  Qed.

  Lemma group_members (s : A -> A -> bool) l g x : In g (group_by s l) -> In x g -> In x l.
  Proof.
    unfold group_by. intros Hg Hx. apply in_map_iff in Hg. destruct Hg as [a [<- _]].
    apply filter_In in Hx. tauto.
  Qed.

  Lemma group_same (s : A -> A -> bool) l g x y :
    (forall a b c, s a b = true -> s a c = true -> s b c = true) ->
    In g (group_by s l) -> In x g -> In y g -> s x y = true.
  Proof.
    unfold group_by. intros Ht Hg Hx Hy. apply in_map_iff in Hg. destruct Hg as [a [<- _]].
    apply filter_In in Hx. apply filter_In in Hy. eapply Ht; [apply Hx|apply Hy].
  Qed.

  Lemma group_nonempty (s : A -> A -> bool) l g :
    (forall a, s a a = true) -> In g (group_by s l) -> g <> [].
  Proof.
    unfold group_by. intros Hr Hg. apply in_map_iff in Hg. destruct Hg as [a [<- Ha]].
    apply firsts_in in Ha. intros E.
    assert (Hin : In a (filter (s a) l)) by (apply filter_In; split; [exact Ha|apply Hr]).
    rewrite E in Hin. contradiction.
  Qed.
End GROUPS.

Section GROUP_PULL.
  Context {A B : Type} (f : A -> B) (s : B -> B -> bool).
  Lemma firsts_pull l : forall seen,
    firsts s (map f seen) (map f l) = map f (firsts (fun x y => s (f x) (f y)) seen l).
  Proof.
    induction l as [|a r IH]; intros seen; cbn [firsts map]; [reflexivity|].
    assert (E : existsb (s (f a)) (map f seen) = existsb (fun y => s (f a) (f y)) seen).
    { induction seen as [|x xs IHs]; cbn; [reflexivity|now rewrite IHs]. }
    rewrite E. destruct (existsb _ seen).
    - apply IH.
    - cbn [map]. f_equal. apply (IH (a :: seen)).
  Qed.
  Lemma filter_pull (p : B -> bool) l : filter p (map f l) = map f (filter (fun x => p (f x)) l).
  Proof. induction l as [|a r IH]; cbn; [reflexivity|]. destruct (p (f a)); cbn; now rewrite IH. Qed.
  Lemma group_by_pull l :
    group_by s (map f l) = map (map f) (group_by (fun x y => s (f x) (f y)) l).
  Proof.
    unfold group_by. change (firsts s [] (map f l)) with (firsts s (map f []) (map f l)).
    rewrite (firsts_pull l []). rewrite !map_map. apply map_ext. intros a. apply filter_pull.
  Qed.
End GROUP_PULL.

(* ================= numbers ================= *)
Lemma quot_div_nonneg ts d : 0 <= ts -> 0 < d -> Z.quot ts d = ts / d.
Proof. intros. apply Z.quot_div_nonneg; lia. Qed.
Lemma bucket_sql_is_bucket d ts : 0 <= ts -> 0 < d -> bucket_sql_z d ts = bucket d ts.
Proof. intros. unfold bucket_sql_z, bucket. now rewrite quot_div_nonneg. Qed.

Lemma bucket_le d ts : 0 < d -> bucket d ts <= ts < bucket d ts + d.
Proof.
  intros Hd. unfold bucket. pose proof (Z.div_mod ts d ltac:(lia)) as E.
  pose proof (Z.mod_pos_bound ts d Hd). lia.
Qed.

(* a duration of whole milliseconds: the printed divisor denotes the range in seconds *)
Definition whole_ms (d : Z) : Prop := d mod 1000000 = 0.
Lemma secs_ms_exact d : 0 < d -> whole_ms d -> secs_of_ms (dur_ms d) = secs_exact d.
Proof.
  intros Hd Hw. unfold secs_of_ms, secs_exact, qfrac, dur_ms.
  apply Qc_is_canon. cbn [this Q2Qc]. rewrite !Qred_correct.
  unfold Qeq. cbn [Qnum Qden].
  rewrite (Z.quot_div_nonneg d 1000000) by lia.
  unfold whole_ms in Hw. pose proof (Z.div_mod d 1000000 ltac:(lia)) as E. rewrite Hw in E.
  change (Z.pos 1000000000) with (1000 * 1000000). change (Z.pos 1000) with 1000. lia.
Qed.

(* ================= the LRA stage ================= *)
  Lemma lmap_eqb_eq a : forall b, lmap_eqb a b = true <-> a = b.
  Proof.
    induction a as [|[k v] r IH]; intros [|[k' v'] r']; cbn; try (split; [discriminate|discriminate]); [tauto|].
    unfold kv_eqb; cbn. rewrite !andb_true_iff, IH, !String.eqb_eq. split.
    - intros [[-> ->] ->]. reflexivity.
    - intros E. inversion E. tauto.
  Qed.
  Lemma lmap_eqb_refl a : lmap_eqb a a = true.
  Proof. now apply lmap_eqb_eq. Qed.

  (* rows of one result: a fingerprint stands for exactly one label map *)
  Definition consistent (rows : list mrow) : Prop :=
    forall a b, In a rows -> In b rows -> (r_fp a = r_fp b <-> r_labels a = r_labels b).
  Definition nonneg (rows : list mrow) : Prop := forall a, In a rows -> 0 <= r_ts a.

  Lemma fp_labels_eqb rows a b : consistent rows -> In a rows -> In b rows ->
    N.eqb (r_fp a) (r_fp b) = lmap_eqb (r_labels a) (r_labels b).
  Proof.
    intros Hc Ha Hb. destruct (N.eqb_spec (r_fp a) (r_fp b)) as [E|E].
    - symmetry. apply lmap_eqb_eq. now apply (Hc a b Ha Hb).
    - destruct (lmap_eqb (r_labels a) (r_labels b)) eqn:El; [|reflexivity].
      apply lmap_eqb_eq in El. apply (Hc a b Ha Hb) in El. contradiction.
  Qed.

  Lemma map_set_ts_len d (g : list mrow) : qlen (map (fun r => set_ts (bucket_sql_z d (r_ts r)) r) g) = qlen g.
  Proof. unfold qlen. now rewrite map_length. Qed.
  Lemma bytes_set_ts d (g : list mrow) :
    bytes_of (map (fun r => set_ts (bucket_sql_z d (r_ts r)) r) g) =
    qsum (map (fun e => qz (Z.of_nat (String.length (e_line e)))) (map entry_of g)).
  Proof. unfold bytes_of. rewrite !map_map. reflexivity. Qed.

  Lemma lra_value_group f d v (g : list mrow) :
    0 < d -> whole_ms d -> lra_val_of f d = Some v ->
    range_fn f d (map entry_of g) = Some (eval_lra v (map (fun r => set_ts (bucket_sql_z d (r_ts r)) r) g)).
  Proof.
    intros Hd Hw Hv. destruct f; cbn in Hv; try discriminate; inversion Hv; subst v; cbn [range_fn eval_lra];
      rewrite ?map_set_ts_len, ?bytes_set_ts, ?secs_ms_exact by assumption; unfold qlen; rewrite ?map_length; reflexivity.
  Qed.

  Lemma head_map {X Y} (f : X -> Y) (dx : X) (l : list X) : l <> [] -> hd (f dx) (map f l) = f (hd dx l).
  Proof. destruct l; [congruence|reflexivity]. Qed.

  Theorem lra_stage f d v rows :
    consistent rows -> nonneg rows -> 0 < d -> whole_ms d -> lra_val_of f d = Some v ->
    ref_range f d (map entry_of rows) = Some (map strip (sem_lra v d rows)).
  Proof.
    intros Hc Hn Hd Hw Hv. unfold ref_range.
    assert (E0 : range_fn f d [] <> None).
    { pose proof (lra_value_group f d v [] Hd Hw Hv) as E. cbn in E. congruence. }
    destruct (range_fn f d []) eqn:Er; [|congruence]. f_equal.
    unfold sem_lra. rewrite (group_by_pull entry_of (same_lbl_ts_e d) rows).
    rewrite (group_by_pull (fun r => set_ts (bucket_sql_z d (r_ts r)) r) same_fp_ts rows).
    rewrite (group_by_ext (fun x y => same_fp_ts (set_ts (bucket_sql_z d (r_ts x)) x) (set_ts (bucket_sql_z d (r_ts y)) y))
                          (fun x y => same_lbl_ts_e d (entry_of x) (entry_of y)) rows).
    2:{ intros a b Ha Hb. unfold same_fp_ts, same_lbl_ts_e. cbn.
        rewrite (fp_labels_eqb rows a b Hc Ha Hb), !bucket_sql_is_bucket by (try apply Hn; assumption). reflexivity. }
    rewrite !map_map. apply map_ext_in. intros g Hg.
    rewrite (lra_value_group f d v g Hd Hw Hv).
    unfold strip, agg_row. cbn. destruct g as [|r g']; cbn.
    - unfold bucket. reflexivity.
    - rewrite bucket_sql_is_bucket; [reflexivity| |exact Hd].
      apply Hn. eapply group_members; [exact Hg|now left].
  Qed.

(* ================= the analysis function of the 15-second shortcut ================= *)
Lemma m15_stage_ok_spec st : m15_stage_ok st = stage_transparent st || is_stream_label_filter st.
Proof. destruct st as [op v rl| | | | | |]; cbn; try reflexivity. destruct op; cbn; now rewrite ?orb_false_r. Qed.

Theorem analyze_m15_sound s : analyze_m15 s = true -> m15_representable s = true.
Proof.
  unfold analyze_m15, m15_representable. destruct (first_lra s) as [l|]; [|discriminate].
  rewrite !andb_true_iff. intros [[Hf Hd] Hp]. split; [split; [exact Hf|]|].
  - apply negb_true_iff, Z.ltb_ge in Hd. now apply Z.leb_le.
  - rewrite forallb_forall in *. intros st Hst. rewrite <- m15_stage_ok_spec. now apply Hp.
Qed.

(* every sample read by the shortcut select lies in [floor15 from, floor15 to) : never outside the widened window *)
Lemma floor15_le x : 0 <= x -> floor15 x <= x < floor15 x + 15000000000.
Proof.
  intros Hx. unfold floor15. rewrite quot_div_nonneg by lia.
  pose proof (Z.div_mod x 15000000000 ltac:(lia)). pose proof (Z.mod_pos_bound x 15000000000 ltac:(lia)). lia.
Qed.

(* ================= windows ================= *)
Lemma bucket_mono d a b : 0 < d -> a <= b -> bucket d a <= bucket d b.
Proof. intros Hd Hab. unfold bucket. apply Z.mul_le_mono_nonneg_r; [lia|]. now apply Z.div_le_mono. Qed.

(* main_init reads samples with from <= ts < to: the window of the bucket such a sample contributes to *)
Lemma window_bounded c d ts : 0 < d -> c_from_ns c <= ts < c_to_ns c ->
  bucket d (c_from_ns c) <= bucket d ts /\ bucket d ts <= ts < bucket d ts + d /\ bucket d ts + d <= bucket d (c_to_ns c) + d.
Proof.
  intros Hd [H1 H2]. split; [apply bucket_mono; lia|]. split; [now apply bucket_le|].
  pose proof (bucket_mono d ts (c_to_ns c) Hd ltac:(lia)). lia.
Qed.
Example window_bounded_hyp :
  let c := {| c_from_ns := 1700000007000000000; c_to_ns := 1700000067000000000; c_limit := 0; c_asc := true; c_cluster := false; c_type := 1;
              c_finalize := true; c_step_ns := 5000000000; t_gin := ""; t_samples := ""; t_ts := ""; t_ts_dist := ""; t_m15 := "" |} in
  0 < 60000000000 /\ c_from_ns c <= 1700000011000000000 < c_to_ns c.
Proof. cbn. lia. Qed.
(* the where clause of the time filter is the one the theorem reads *)
Example main_init_window c :
  s_prewhere (main_init c) = Some (And [Ge (Id "samples.timestamp_ns") (IntV (c_from_ns c)); Lt (Id "samples.timestamp_ns") (IntV (c_to_ns c)); get_types c]).
Proof. reflexivity. Qed.

(* the shortcut select reads 15-second slots with floor15 from <= slot < floor15 to; a slot holds the lines of
   [slot, slot + 15 s): no line before floor15 from and none at or after `to` contributes *)
Lemma shortcut_window_bounded c slot ts : 0 <= c_from_ns c -> 0 <= c_to_ns c -> slot mod 15000000000 = 0 ->
  m15_in_window c slot = true -> slot <= ts < slot + 15000000000 ->
  floor15 (c_from_ns c) <= ts < floor15 (c_to_ns c) /\ floor15 (c_to_ns c) <= c_to_ns c.
Proof.
  intros Hf Ht Hs Hw Hts. unfold m15_in_window in Hw. apply andb_true_iff in Hw. destruct Hw as [H1 H2].
  apply Z.leb_le in H1. apply Z.ltb_lt in H2. pose proof (floor15_le _ Ht) as Hfl.
  split; [|lia]. split; [lia|].
  unfold floor15 in *. rewrite quot_div_nonneg in * by lia.
  set (q := c_to_ns c / 15000000000) in *.
  pose proof (Z.div_mod slot 15000000000 ltac:(lia)) as E. rewrite Hs in E.
  assert (slot / 15000000000 < q) by nia. nia.
Qed.
Example shortcut_window_hyp :
  let c := {| c_from_ns := 1700000007000000000; c_to_ns := 1700000607000000000; c_limit := 0; c_asc := true; c_cluster := false; c_type := 1;
              c_finalize := true; c_step_ns := 60000000000; t_gin := ""; t_samples := ""; t_ts := ""; t_ts_dist := ""; t_m15 := "" |} in
  1700000580000000000 mod 15000000000 = 0 /\ m15_in_window c 1700000580000000000 = true.
Proof. vm_compute. split; reflexivity. Qed.

(* the label filters of a shortcut pipeline are all applied to the fingerprint selection *)
Lemma plan_ts_filters : forall ppl (fp0 : planner),
  (forall st, List.In st ppl -> is_parser st = false) ->
  fp_label_filters (fold_left (fun fp sb => match fst sb, snd sb with
                                            | PLabelFilter f, true => PSimpleLabelFilter f fp
                                            | _, _ => fp end) (combine ppl (simple_ops ppl)) fp0)
  = (fp_label_filters fp0 ++ pipeline_label_filters ppl)%list.
Proof.
  induction ppl as [|st r IH]; intros fp0 Hnp; cbn [simple_ops combine fold_left pipeline_label_filters flat_map].
  - now rewrite app_nil_r.
  - rewrite (Hnp st) by now left. cbn [combine fold_left].
    rewrite IH by (intros s Hs; apply Hnp; now right).
    destruct st; cbn [fst snd is_label_filter fp_label_filters]; try reflexivity.
    now rewrite <- app_assoc.
Qed.
Lemma m15_ok_not_parser st : m15_stage_ok st = true -> is_parser st = false.
Proof. destruct st; cbn; congruence. Qed.

Theorem shortcut_keeps_label_filters s :
  analyze_m15 s = true ->
  match first_lra s with
  | Some l => fp_label_filters (plan_ts (sel_matchers (lra_sel l)) (sel_pipeline (lra_sel l)) (simple_ops (sel_pipeline (lra_sel l))))
              = pipeline_label_filters (sel_pipeline (lra_sel l))
  | None => False
  end.
Proof.
  unfold analyze_m15. destruct (first_lra s) as [l|]; [|discriminate].
  rewrite !andb_true_iff. intros [_ Hp]. unfold plan_ts. rewrite plan_ts_filters; [reflexivity|].
  intros st Hst. apply m15_ok_not_parser. rewrite forallb_forall in Hp. now apply Hp.
Qed.
