(* Proofs for C08: the SQL-side meaning of the metric planners (LogqlMetricSem.sem) against the
   reference metric_ref, the analysis function of the 15-second shortcut, window bounds. *)
From Coq Require Import List ZArith NArith QArith Qcanon String Ascii Bool Lia.
From Qryn Require Import lib.Strs model.Sql model.Logql model.LogqlPlan model.LogqlMetricSem.
Import ListNotations.
Open Scope Z_scope.
(* Sql.v has constructors named In, Eq, Lt, ...: membership is List.In here *)
Local Notation In := List.In (only parsing).

(* ================= GROUP BY ================= *)
Section GROUPS.
  Context {A : Type}.

  Lemma firsts_ext (s1 s2 : A -> A -> bool) l : forall seen,
    (forall a b, In a l -> In b (seen ++ l) -> s1 a b = s2 a b) ->
    firsts s1 seen l = firsts s2 seen l.
  Proof.
    induction l as [|a r IH]; intros seen H; cbn [firsts]; [reflexivity|].
    assert (E : existsb (s1 a) seen = existsb (s2 a) seen).
    { clear IH. induction seen as [|x xs IHs]; cbn [existsb]; [reflexivity|].
      rewrite (H a x); [|now left|now left]. f_equal. apply IHs.
      intros a' b Ha Hb. apply H; [exact Ha|]. cbn. right. exact Hb. }
    rewrite E. destruct (existsb (s2 a) seen).
    - apply IH. intros x y Hx Hy. apply H; [now right|].
      apply in_app_or in Hy. apply in_or_app. destruct Hy as [Hy|Hy]; [now left|right; now right].
    - f_equal. apply IH. intros x y Hx Hy. apply H; [now right|].
      cbn in Hy. destruct Hy as [<-|Hy].
      + apply in_or_app. right. now left.
      + apply in_app_or in Hy. apply in_or_app. destruct Hy as [Hy|Hy]; [now left|right; now right].
  Qed.

  Lemma filter_ext_in' (p q : A -> bool) l : (forall x, In x l -> p x = q x) -> filter p l = filter q l.
  Proof.
    induction l as [|a r IH]; intros H; cbn [filter]; [reflexivity|].
    rewrite (H a) by now left. rewrite IH; [reflexivity|]. intros x Hx. apply H. now right.
  Qed.

  Lemma firsts_in (s : A -> A -> bool) l : forall seen x, In x (firsts s seen l) -> In x l.
  Proof.
    induction l as [|a r IH]; intros seen x H; cbn [firsts] in H; [contradiction|].
    destruct (existsb (s a) seen).
    - right. eapply IH. exact H.
    - destruct H as [<-|H]; [now left|right; eapply IH; exact H].
  Qed.

  Lemma group_by_ext (s1 s2 : A -> A -> bool) l :
    (forall a b, In a l -> In b l -> s1 a b = s2 a b) -> group_by s1 l = group_by s2 l.
  Proof.
    intros H. unfold group_by. rewrite (firsts_ext s1 s2 l []) by (intros a b Ha Hb; apply H; assumption).
    apply map_ext_in. intros a Ha. apply filter_ext_in'. intros x Hx. apply H; [|exact Hx].
    eapply firsts_in. exact Ha.
  Qed.

  Lemma group_members (s : A -> A -> bool) l g x : In g (group_by s l) -> In x g -> In x l.
  Proof.
    unfold group_by. intros Hg Hx. apply in_map_iff in Hg. destruct Hg as [a [<- _]].
    apply filter_In in Hx. tauto.
  Qed.

  Lemma group_same (s : A -> A -> bool) l g x y :
    (forall a b c, s a b = true -> s a c = true -> s b c = true) ->
    In g (group_by s l) -> In x g -> In y g -> s x y = true.
  Proof.
    unfold group_by. intros Ht Hg Hx Hy. apply in_map_iff in Hg. destruct Hg as [a [<- _]].
    apply filter_In in Hx. apply filter_In in Hy. eapply Ht; [apply Hx|apply Hy].
  Qed.

  Lemma group_nonempty (s : A -> A -> bool) l g :
    (forall a, s a a = true) -> In g (group_by s l) -> g <> [].
  Proof.
    unfold group_by. intros Hr Hg. apply in_map_iff in Hg. destruct Hg as [a [<- Ha]].
    apply firsts_in in Ha. intros E.
    assert (Hin : In a (filter (s a) l)) by (apply filter_In; split; [exact Ha|apply Hr]).
    rewrite E in Hin. contradiction.
  Qed.

  (* distinct groups have different keys *)
  Lemma firsts_not_seen (s : A -> A -> bool) l : forall seen x, In x (firsts s seen l) -> existsb (s x) seen = false.
  Proof.
    induction l as [|a r IH]; intros seen x H; cbn [firsts] in H; [contradiction|].
    destruct (existsb (s a) seen) eqn:E.
    - now apply IH.
    - destruct H as [<-|H]; [exact E|]. apply IH in H. cbn [existsb] in H. apply orb_false_iff in H. tauto.
  Qed.
  Lemma firsts_distinct (s : A -> A -> bool) l : forall seen,
    ForallOrdPairs (fun a b => s b a = false) (firsts s seen l).
  Proof.
    induction l as [|a r IH]; intros seen; cbn [firsts]; [constructor|].
    destruct (existsb (s a) seen); [apply IH|]. constructor; [|apply IH].
    apply Forall_forall. intros x Hx. apply firsts_not_seen in Hx. cbn [existsb] in Hx. apply orb_false_iff in Hx. tauto.
  Qed.
End GROUPS.

Section GROUP_PULL.
  Context {A B : Type} (f : A -> B) (s : B -> B -> bool).
  Lemma firsts_pull l : forall seen,
    firsts s (map f seen) (map f l) = map f (firsts (fun x y => s (f x) (f y)) seen l).
  Proof.
    induction l as [|a r IH]; intros seen; cbn [firsts map]; [reflexivity|].
    assert (E : existsb (s (f a)) (map f seen) = existsb (fun y => s (f a) (f y)) seen).
    { induction seen as [|x xs IHs]; cbn; [reflexivity|now rewrite IHs]. }
    rewrite E. destruct (existsb _ seen).
    - apply IH.
    - cbn [map]. f_equal. apply (IH (a :: seen)).
  Qed.
  Lemma filter_pull (p : B -> bool) l : filter p (map f l) = map f (filter (fun x => p (f x)) l).
  Proof. induction l as [|a r IH]; cbn; [reflexivity|]. destruct (p (f a)); cbn; now rewrite IH. Qed.
  Lemma group_by_pull l :
    group_by s (map f l) = map (map f) (group_by (fun x y => s (f x) (f y)) l).
  Proof.
    unfold group_by. change (firsts s [] (map f l)) with (firsts s (map f []) (map f l)).
    rewrite (firsts_pull l []). rewrite !map_map. apply map_ext. intros a. apply filter_pull.
  Qed.
End GROUP_PULL.

(* ================= numbers ================= *)
Lemma quot_div_nonneg ts d : 0 <= ts -> 0 < d -> Z.quot ts d = ts / d.
Proof. intros. apply Z.quot_div_nonneg; lia. Qed.
Lemma bucket_sql_is_bucket d ts : 0 <= ts -> 0 < d -> bucket_sql_z d ts = bucket d ts.
Proof. intros. unfold bucket_sql_z, bucket. now rewrite quot_div_nonneg. Qed.

Lemma bucket_le d ts : 0 < d -> bucket d ts <= ts < bucket d ts + d.
Proof.
  intros Hd. unfold bucket. pose proof (Z.div_mod ts d ltac:(lia)) as E.
  pose proof (Z.mod_pos_bound ts d Hd). lia.
Qed.

(* ================= the LRA stage ================= *)
  Lemma lmap_eqb_eq a : forall b, lmap_eqb a b = true <-> a = b.
  Proof.
    induction a as [|[k v] r IH]; intros [|[k' v'] r']; cbn; try (split; [discriminate|discriminate]); [tauto|].
    unfold kv_eqb; cbn. rewrite !andb_true_iff, IH, !String.eqb_eq. split.
    - intros [[-> ->] ->]. reflexivity.
    - intros E. inversion E. tauto.
  Qed.
  Lemma lmap_eqb_refl a : lmap_eqb a a = true.
  Proof. now apply lmap_eqb_eq. Qed.

  (* rows of one result: a fingerprint stands for exactly one label map *)
  Definition consistent (rows : list mrow) : Prop :=
    forall a b, In a rows -> In b rows -> (r_fp a = r_fp b <-> r_labels a = r_labels b).
  Definition nonneg (rows : list mrow) : Prop := forall a, In a rows -> 0 <= r_ts a.

  Lemma fp_labels_eqb rows a b : consistent rows -> In a rows -> In b rows ->
    N.eqb (r_fp a) (r_fp b) = lmap_eqb (r_labels a) (r_labels b).
  Proof.
    intros Hc Ha Hb. destruct (N.eqb_spec (r_fp a) (r_fp b)) as [E|E].
    - symmetry. apply lmap_eqb_eq. now apply (Hc a b Ha Hb).
    - destruct (lmap_eqb (r_labels a) (r_labels b)) eqn:El; [|reflexivity].
      apply lmap_eqb_eq in El. apply (Hc a b Ha Hb) in El. contradiction.
  Qed.

  Lemma map_set_ts_len d (g : list mrow) : qlen (map (fun r => set_ts (bucket_sql_z d (r_ts r)) r) g) = qlen g.
  Proof. unfold qlen. now rewrite map_length. Qed.
  Lemma bytes_set_ts d (g : list mrow) :
    bytes_of (map (fun r => set_ts (bucket_sql_z d (r_ts r)) r) g) =
    qsum (map (fun e => qz (Z.of_nat (String.length (e_line e)))) (map entry_of g)).
  Proof. unfold bytes_of. rewrite !map_map. reflexivity. Qed.

  Lemma lra_value_group f d v (g : list mrow) :
    0 < d -> lra_val_of f d = Some v ->
    range_fn f d (map entry_of g) = Some (eval_lra v (map (fun r => set_ts (bucket_sql_z d (r_ts r)) r) g)).
  Proof.
    intros Hd Hv. destruct f; cbn in Hv; try discriminate; inversion Hv; subst v; cbn [range_fn eval_lra];
      rewrite ?map_set_ts_len, ?bytes_set_ts; unfold qlen; rewrite ?map_length; reflexivity.
  Qed.

  Theorem lra_stage f d v rows :
    consistent rows -> nonneg rows -> 0 < d -> lra_val_of f d = Some v ->
    ref_range f d (map entry_of rows) = Some (map strip (sem_lra v d rows)).
  Proof.
    intros Hc Hn Hd Hv. unfold ref_range.
    assert (E0 : range_fn f d [] <> None).
    { pose proof (lra_value_group f d v [] Hd Hv) as E. cbn in E. congruence. }
    destruct (range_fn f d []) eqn:Er; [|congruence]. f_equal.
    unfold sem_lra. rewrite (group_by_pull entry_of (same_lbl_ts_e d) rows).
    rewrite (group_by_pull (fun r => set_ts (bucket_sql_z d (r_ts r)) r) same_fp_ts rows).
    rewrite (group_by_ext (fun x y => same_fp_ts (set_ts (bucket_sql_z d (r_ts x)) x) (set_ts (bucket_sql_z d (r_ts y)) y))
                          (fun x y => same_lbl_ts_e d (entry_of x) (entry_of y)) rows).
    2:{ intros a b Ha Hb. unfold same_fp_ts, same_lbl_ts_e. cbn.
        rewrite (fp_labels_eqb rows a b Hc Ha Hb), !bucket_sql_is_bucket by (try apply Hn; assumption). reflexivity. }
    rewrite !map_map. apply map_ext_in. intros g Hg.
    rewrite (lra_value_group f d v g Hd Hv).
    unfold strip, agg_row. cbn. destruct g as [|r g']; cbn.
    - unfold bucket. reflexivity.
    - rewrite bucket_sql_is_bucket; [reflexivity| |exact Hd].
      apply Hn. eapply group_members; [exact Hg|now left].
  Qed.

(* ================= the analysis function of the 15-second shortcut ================= *)
Lemma m15_stage_ok_spec st : m15_stage_ok st = stage_transparent st || is_stream_label_filter st.
Proof. destruct st as [op v rl| | | | | |]; cbn; try reflexivity. destruct op; cbn; now rewrite ?orb_false_r. Qed.

Theorem analyze_m15_sound s : analyze_m15 s = true -> m15_representable s = true.
Proof.
  unfold analyze_m15, m15_representable. destruct (first_lra s) as [l|]; [|discriminate].
  rewrite !andb_true_iff. intros [[[Hf Hd] Hr] Hp].
  apply negb_true_iff, Z.ltb_ge in Hd. apply Z.eqb_eq in Hr.
  split; [split; [split; [exact Hf|now apply Z.leb_le]|]|].
  - apply Z.eqb_eq. rewrite <- Hr. symmetry. apply Z.rem_mod_nonneg; lia.
  - rewrite forallb_forall in *. intros st Hst. rewrite <- m15_stage_ok_spec. now apply Hp.
Qed.

(* a window made of whole 15-second slots: the slot of a line falls into the window of the line *)
Lemma bucket_floor15 k ts : 0 <= ts -> 0 < k ->
  bucket_sql_z (15000000000 * k) (floor15 ts) = bucket_sql_z (15000000000 * k) ts.
Proof.
  intros Hts Hk. unfold bucket_sql_z, floor15. f_equal.
  rewrite (quot_div_nonneg ts 15000000000) by lia.
  assert (H0 : 0 <= ts / 15000000000 * 15000000000) by (apply Z.mul_nonneg_nonneg; [apply Z.div_pos|]; lia).
  rewrite (quot_div_nonneg _ (15000000000 * k) H0) by lia.
  rewrite (quot_div_nonneg ts (15000000000 * k)) by lia.
  rewrite <- !Z.div_div by lia. f_equal. now rewrite Z.div_mul by lia.
Qed.

(* the shortcut select over the roll-up of any row list yields what the LRA select yields over the rows themselves *)
Definition m15_as_lra (v : m15_val) : lra_val := match v with MVCount => LVCount | MVCountDiv ms => LVCountDiv ms end.
Theorem shortcut_value_correct v k rows : nonneg rows -> 0 < k ->
  sem_m15 v (15000000000 * k) (m15_rows rows) = sem_lra (m15_as_lra v) (15000000000 * k) rows.
Proof.
  intros Hn Hk. unfold sem_m15, sem_lra, m15_rows. rewrite map_map.
  rewrite (map_ext_in (fun x => set_ts (bucket_sql_z (15000000000 * k) (r_ts (set_ts (floor15 (r_ts x)) x))) (set_ts (floor15 (r_ts x)) x))
                      (fun r => set_ts (bucket_sql_z (15000000000 * k) (r_ts r)) r)).
  2:{ intros r Hr. pose proof (bucket_floor15 k (r_ts r) (Hn r Hr) Hk) as E.
      set (d := 15000000000 * k) in *. unfold set_ts. cbn [r_ts r_fp r_labels r_line r_val]. now rewrite E. }
  apply map_ext. intros g. destruct v; reflexivity.
Qed.
(* ... and a range that is not made of whole slots is attributed wrongly: the line at 25 s of a [20s] query *)
Example shortcut_needs_whole_slots :
  bucket_sql_z 20000000000 (floor15 25000000000) <> bucket_sql_z 20000000000 25000000000.
Proof. vm_compute. discriminate. Qed.
Lemma analyze_m15_whole_slots s : analyze_m15 s = true ->
  match first_lra s with Some l => exists k, 0 < k /\ lra_dur_ns l = 15000000000 * k | None => False end.
Proof.
  unfold analyze_m15. destruct (first_lra s) as [l|]; [|discriminate].
  rewrite !andb_true_iff. intros [[[Hf Hd] Hr] Hp].
  apply negb_true_iff, Z.ltb_ge in Hd. apply Z.eqb_eq in Hr.
  exists (lra_dur_ns l / 15000000000). rewrite Z.rem_mod_nonneg in Hr by lia.
  pose proof (Z.div_mod (lra_dur_ns l) 15000000000 ltac:(lia)) as E. rewrite Hr in E.
  split; [|lia]. apply Z.div_str_pos. lia.
Qed.

(* every sample read by the shortcut select lies in [floor15 from, floor15 to) : never outside the widened window *)
Lemma floor15_le x : 0 <= x -> floor15 x <= x < floor15 x + 15000000000.
Proof.
  intros Hx. unfold floor15. rewrite quot_div_nonneg by lia.
  pose proof (Z.div_mod x 15000000000 ltac:(lia)). pose proof (Z.mod_pos_bound x 15000000000 ltac:(lia)). lia.
Qed.

(* ================= windows ================= *)
Lemma bucket_mono d a b : 0 < d -> a <= b -> bucket d a <= bucket d b.
Proof. intros Hd Hab. unfold bucket. apply Z.mul_le_mono_nonneg_r; [lia|]. now apply Z.div_le_mono. Qed.

(* main_init reads samples with from <= ts < to: the window of the bucket such a sample contributes to *)
Lemma window_bounded c d ts : 0 < d -> c_from_ns c <= ts < c_to_ns c ->
  bucket d (c_from_ns c) <= bucket d ts /\ bucket d ts <= ts < bucket d ts + d /\ bucket d ts + d <= bucket d (c_to_ns c) + d.
Proof.
  intros Hd [H1 H2]. split; [apply bucket_mono; lia|]. split; [now apply bucket_le|].
  pose proof (bucket_mono d ts (c_to_ns c) Hd ltac:(lia)). lia.
Qed.
Example window_bounded_hyp :
  let c := {| c_from_ns := 1700000007000000000; c_to_ns := 1700000067000000000; c_limit := 0; c_asc := true; c_cluster := false; c_type := 1;
              c_finalize := true; c_step_ns := 5000000000; t_gin := ""; t_samples := ""; t_ts := ""; t_ts_dist := ""; t_m15 := "" |} in
  0 < 60000000000 /\ c_from_ns c <= 1700000011000000000 < c_to_ns c.
Proof. cbn. lia. Qed.
(* the where clause of the time filter is the one the theorem reads *)
Example main_init_window c :
  s_prewhere (main_init c) = Some (And [Ge (Id "samples.timestamp_ns") (IntV (c_from_ns c)); Lt (Id "samples.timestamp_ns") (IntV (c_to_ns c)); get_types c]).
Proof. reflexivity. Qed.

(* the shortcut select reads 15-second slots with floor15 from <= slot < floor15 to; a slot holds the lines of
   [slot, slot + 15 s): no line before floor15 from and none at or after `to` contributes *)
Lemma shortcut_window_bounded c slot ts : 0 <= c_from_ns c -> 0 <= c_to_ns c -> slot mod 15000000000 = 0 ->
  m15_in_window c slot = true -> slot <= ts < slot + 15000000000 ->
  floor15 (c_from_ns c) <= ts < floor15 (c_to_ns c) /\ floor15 (c_to_ns c) <= c_to_ns c.
Proof.
  intros Hf Ht Hs Hw Hts. unfold m15_in_window in Hw. apply andb_true_iff in Hw. destruct Hw as [H1 H2].
  apply Z.leb_le in H1. apply Z.ltb_lt in H2. pose proof (floor15_le _ Ht) as Hfl.
  split; [|lia]. split; [lia|].
  unfold floor15 in *. rewrite quot_div_nonneg in * by lia.
  set (q := c_to_ns c / 15000000000) in *.
  pose proof (Z.div_mod slot 15000000000 ltac:(lia)) as E. rewrite Hs in E.
  assert (slot / 15000000000 < q) by nia. nia.
Qed.
Example shortcut_window_hyp :
  let c := {| c_from_ns := 1700000007000000000; c_to_ns := 1700000607000000000; c_limit := 0; c_asc := true; c_cluster := false; c_type := 1;
              c_finalize := true; c_step_ns := 60000000000; t_gin := ""; t_samples := ""; t_ts := ""; t_ts_dist := ""; t_m15 := "" |} in
  1700000580000000000 mod 15000000000 = 0 /\ m15_in_window c 1700000580000000000 = true.
Proof. vm_compute. split; reflexivity. Qed.

(* the label filters of a shortcut pipeline are all applied to the fingerprint selection *)
Lemma plan_ts_filters : forall ppl (fp0 : planner),
  (forall st, List.In st ppl -> is_relabel st = false) ->
  fp_label_filters (fold_left (fun fp sb => match fst sb, snd sb with
                                            | PLabelFilter f, true => PSimpleLabelFilter f fp
                                            | _, _ => fp end) (combine ppl (simple_ops ppl)) fp0)
  = (fp_label_filters fp0 ++ pipeline_label_filters ppl)%list.
Proof.
  induction ppl as [|st r IH]; intros fp0 Hnp; cbn [simple_ops combine fold_left pipeline_label_filters flat_map].
  - now rewrite app_nil_r.
  - rewrite (Hnp st) by now left. cbn [combine fold_left].
    rewrite IH by (intros s Hs; apply Hnp; now right).
    destruct st; cbn [fst snd is_label_filter fp_label_filters]; try reflexivity.
    now rewrite <- app_assoc.
Qed.
Lemma m15_ok_not_parser st : m15_stage_ok st = true -> is_relabel st = false.
Proof. destruct st; cbn; congruence. Qed.

Theorem shortcut_keeps_label_filters s :
  analyze_m15 s = true ->
  match first_lra s with
  | Some l => fp_label_filters (plan_ts (sel_matchers (lra_sel l)) (sel_pipeline (lra_sel l)) (simple_ops (sel_pipeline (lra_sel l))))
              = pipeline_label_filters (sel_pipeline (lra_sel l))
  | None => False
  end.
Proof.
  unfold analyze_m15. destruct (first_lra s) as [l|]; [|discriminate].
  rewrite !andb_true_iff. intros [_ Hp]. unfold plan_ts. rewrite plan_ts_filters; [reflexivity|].
  intros st Hst. apply m15_ok_not_parser. rewrite forallb_forall in Hp. now apply Hp.
Qed.

(* ================= the remaining stages ================= *)
Section STAGES.
  Variable fp : lmap -> N.
  Variable to_float : string -> Qc.
  Variable quantile_o : string -> list Qc -> Qc.
  Variable varpop stddevpop : list Qc -> Qc.
  Hypothesis fp_inj : forall a b, fp a = fp b -> a = b.           (* no collisions of cityHash64 on label maps *)

  Definition u_of (r : mrow) : usample := {| u_labels := r_labels r; u_ts := r_ts r; u_val := r_val r |}.

  (* --- invariants --- *)
  Lemma consistent_sub rows rows' : consistent rows -> (forall r, In r rows' -> In r rows) -> consistent rows'.
  Proof. intros Hc Hs a b Ha Hb. apply Hc; now apply Hs. Qed.
  Lemma nonneg_sub rows rows' : nonneg rows -> (forall r, In r rows' -> In r rows) -> nonneg rows'.
  Proof. intros Hn Hs a Ha. apply Hn. now apply Hs. Qed.

  Lemma head_in (g : list mrow) : g <> [] -> In (head_row g) g.
  Proof. destruct g; [congruence|]. intros _. now left. Qed.
  Lemma same_fp_ts_refl a : same_fp_ts a a = true.
  Proof. unfold same_fp_ts. now rewrite N.eqb_refl, Z.eqb_refl. Qed.

  (* rows built by agg_row from groups of a list: fingerprint/labels/timestamp come from a member of the list *)
  Lemma agg_rows_from (rows : list mrow) (groups : list (list mrow)) (val : list mrow -> Qc) r :
    (forall g, In g groups -> g <> [] /\ forall x, In x g -> In x rows) ->
    In r (map (fun g => agg_row (val g) g) groups) ->
    exists h, In h rows /\ r_fp r = r_fp h /\ r_labels r = r_labels h /\ r_ts r = r_ts h.
  Proof.
    intros Hg Hr. apply in_map_iff in Hr. destruct Hr as [g [<- Hin]].
    destruct (Hg g Hin) as [Hne Hsub]. exists (head_row g). split; [apply Hsub, head_in, Hne|]. cbn. auto.
  Qed.
  Lemma consistent_from rows rows' :
    consistent rows ->
    (forall r, In r rows' -> exists h, In h rows /\ r_fp r = r_fp h /\ r_labels r = r_labels h /\ r_ts r = r_ts h) ->
    consistent rows'.
  Proof.
    intros Hc Hf a b Ha Hb. destruct (Hf a Ha) as [ha [Hha [E1 [E2 _]]]]. destruct (Hf b Hb) as [hb [Hhb [E3 [E4 _]]]].
    rewrite E1, E2, E3, E4. now apply Hc.
  Qed.
  Lemma nonneg_from rows rows' :
    nonneg rows ->
    (forall r, In r rows' -> exists h, In h rows /\ r_fp r = r_fp h /\ r_labels r = r_labels h /\ r_ts r = r_ts h) ->
    nonneg rows'.
  Proof. intros Hn Hf a Ha. destruct (Hf a Ha) as [h [Hh [_ [_ E]]]]. rewrite E. now apply Hn. Qed.

  Lemma groups_wf (same : mrow -> mrow -> bool) rows :
    (forall a, same a a = true) ->
    forall g, In g (group_by same rows) -> g <> [] /\ forall x, In x g -> In x rows.
  Proof. intros Hr g Hg. split; [eapply group_nonempty; eauto|]. intros x Hx. eapply group_members; eauto. Qed.

  Lemma sem_lra_from v d rows r : In r (sem_lra v d rows) ->
    exists h, In h rows /\ r_fp r = r_fp h /\ r_labels r = r_labels h /\ r_ts r = bucket_sql_z d (r_ts h).
  Proof.
    unfold sem_lra. intros Hr.
    destruct (agg_rows_from _ _ _ r (groups_wf same_fp_ts _ same_fp_ts_refl) Hr) as [h [Hh [E1 [E2 E3]]]].
    apply in_map_iff in Hh. destruct Hh as [x [<- Hx]]. exists x. cbn in *. auto.
  Qed.
  Lemma bucket_sql_nonneg d ts : 0 <= ts -> 0 < d -> 0 <= bucket_sql_z d ts.
  Proof. intros. rewrite bucket_sql_is_bucket by assumption. unfold bucket. apply Z.mul_nonneg_nonneg; [apply Z.div_pos|]; lia. Qed.
  Lemma sem_lra_inv v d rows : consistent rows -> nonneg rows -> 0 < d ->
    consistent (sem_lra v d rows) /\ nonneg (sem_lra v d rows).
  Proof.
    intros Hc Hn Hd. split.
    - intros a b Ha Hb. destruct (sem_lra_from _ _ _ _ Ha) as [ha [Hha [E1 [E2 _]]]].
      destruct (sem_lra_from _ _ _ _ Hb) as [hb [Hhb [E3 [E4 _]]]]. rewrite E1, E2, E3, E4. now apply Hc.
    - intros a Ha. destruct (sem_lra_from _ _ _ _ Ha) as [ha [Hha [_ [_ E]]]]. rewrite E. apply bucket_sql_nonneg; [now apply Hn|exact Hd].
  Qed.

  (* --- unwrap --- *)
  Lemma sem_unwrap_shape label rows :
    map (fun r => (r_fp r, r_ts r, r_labels r, r_line r)) (sem_unwrap to_float label rows) = map (fun r => (r_fp r, r_ts r, r_labels r, r_line r)) rows.
  Proof. unfold sem_unwrap. rewrite map_map. reflexivity. Qed.

  (* --- by / without --- *)
  Lemma sem_bw_consistent labels by_ rows : consistent (sem_bw fp labels by_ rows).
  Proof.
    intros a b Ha Hb. unfold sem_bw in *. apply in_map_iff in Ha. apply in_map_iff in Hb.
    destruct Ha as [x [<- _]]. destruct Hb as [y [<- _]]. cbn. split; [apply fp_inj|now intros ->].
  Qed.
  Lemma sem_bw_nonneg labels by_ rows : nonneg rows -> nonneg (sem_bw fp labels by_ rows).
  Proof. intros Hn a Ha. unfold sem_bw in Ha. apply in_map_iff in Ha. destruct Ha as [x [<- Hx]]. cbn. now apply Hn. Qed.

  (* --- the unwrapped range aggregation --- *)
  Lemma argmin_map {X Y} (f : X -> Y) (tx : X -> Z) (ty : Y -> Z) (l : list X) :
    (forall x, ty (f x) = tx x) -> argmin_ts ty (map f l) = option_map f (argmin_ts tx l).
  Proof.
    intros H. destruct l as [|x r]; [reflexivity|]. cbn [map argmin_ts option_map]. f_equal.
    revert x. induction r as [|y r IH]; intros x; cbn [map fold_left]; [reflexivity|].
    rewrite !H. destruct (Z.ltb (tx y) (tx x)); apply IH.
  Qed.
  Lemma argmax_map {X Y} (f : X -> Y) (tx : X -> Z) (ty : Y -> Z) (l : list X) :
    (forall x, ty (f x) = tx x) -> argmax_ts ty (map f l) = option_map f (argmax_ts tx l).
  Proof.
    intros H. destruct l as [|x r]; [reflexivity|]. cbn [map argmax_ts option_map]. f_equal.
    revert x. induction r as [|y r IH]; intros x; cbn [map fold_left]; [reflexivity|].
    rewrite !H. destruct (Z.ltb (tx x) (tx y)); apply IH.
  Qed.

  Definition pair_ts (d : Z) (r : mrow) : mrow * Z := (set_ts (bucket_sql_z d (r_ts r)) r, r_ts r).
  Lemma uw_value_group f d v (g : list mrow) :
    0 < d -> uw_val_of f d = Some v ->
    urange_fn varpop stddevpop f d (map (fun u => (u_ts u, u_val u)) (map u_of g)) = Some (eval_uw varpop stddevpop v (map (pair_ts d) g)).
  Proof.
    intros Hd Hv.
    assert (Evals : map snd (map (fun u => (u_ts u, u_val u)) (map u_of g)) = map (fun x => r_val (fst x)) (map (pair_ts d) g)).
    { rewrite !map_map. reflexivity. }
    assert (Emin : match argmin_ts fst (map (fun u => (u_ts u, u_val u)) (map u_of g)) with Some x => snd x | None => qz 0 end =
                   match argmin_ts snd (map (pair_ts d) g) with Some x => r_val (fst x) | None => qz 0 end).
    { rewrite !map_map. rewrite (argmin_map (fun x => (u_ts (u_of x), u_val (u_of x))) r_ts fst g) by reflexivity.
      rewrite (argmin_map (pair_ts d) r_ts snd g) by reflexivity. destruct (argmin_ts r_ts g); reflexivity. }
    assert (Emax : match argmax_ts fst (map (fun u => (u_ts u, u_val u)) (map u_of g)) with Some x => snd x | None => qz 0 end =
                   match argmax_ts snd (map (pair_ts d) g) with Some x => r_val (fst x) | None => qz 0 end).
    { rewrite !map_map. rewrite (argmax_map (fun x => (u_ts (u_of x), u_val (u_of x))) r_ts fst g) by reflexivity.
      rewrite (argmax_map (pair_ts d) r_ts snd g) by reflexivity. destruct (argmax_ts r_ts g); reflexivity. }
    destruct f; cbn in Hv; try discriminate; inversion Hv; subst v; cbn [urange_fn eval_uw];
      rewrite ?Evals, ?Emin, ?Emax; reflexivity.
  Qed.

  Lemma same_pair_eq d rows a b : consistent rows -> nonneg rows -> 0 < d -> In a rows -> In b rows ->
    same_fp_ts2 (pair_ts d a) (pair_ts d b) = same_u d (u_of a) (u_of b).
  Proof.
    intros Hc Hn Hd Ha Hb. unfold same_fp_ts2, same_fp_ts, same_u, pair_ts. cbn.
    rewrite (fp_labels_eqb rows a b Hc Ha Hb), !bucket_sql_is_bucket by (try apply Hn; assumption). reflexivity.
  Qed.

  Theorem uwfn_stage f d v rows :
    consistent rows -> nonneg rows -> 0 < d -> uw_val_of f d = Some v ->
    ref_urange varpop stddevpop f d (map u_of rows) = Some (map strip (sem_uwfn varpop stddevpop v d rows)).
  Proof.
    intros Hc Hn Hd Hv. unfold ref_urange.
    assert (E0 : urange_fn varpop stddevpop f d [] <> None).
    { pose proof (uw_value_group f d v [] Hd Hv) as E. cbn in E. congruence. }
    destruct (urange_fn varpop stddevpop f d []) eqn:Er; [|congruence]. f_equal.
    unfold sem_uwfn. rewrite (group_by_pull u_of (same_u d) rows).
    change (map (fun r => (set_ts (bucket_sql_z d (r_ts r)) r, r_ts r)) rows) with (map (pair_ts d) rows).
    rewrite (group_by_pull (pair_ts d) same_fp_ts2 rows).
    rewrite (group_by_ext (fun x y => same_fp_ts2 (pair_ts d x) (pair_ts d y)) (fun x y => same_u d (u_of x) (u_of y)) rows)
      by (intros a b Ha Hb; now apply (same_pair_eq d rows)).
    rewrite !map_map. apply map_ext_in. intros g Hg.
    rewrite (uw_value_group f d v g Hd Hv).
    unfold strip, agg_row. cbn. destruct g as [|r g']; cbn.
    - unfold bucket. reflexivity.
    - rewrite bucket_sql_is_bucket; [reflexivity| |exact Hd]. apply Hn. eapply group_members; [exact Hg|now left].
  Qed.

  Lemma same_fp_ts2_refl a : same_fp_ts2 a a = true.
  Proof. apply same_fp_ts_refl. Qed.
  Lemma sem_uwfn_from v d rows r : In r (sem_uwfn varpop stddevpop v d rows) ->
    exists h, In h rows /\ r_fp r = r_fp h /\ r_labels r = r_labels h /\ r_ts r = bucket_sql_z d (r_ts h).
  Proof.
    unfold sem_uwfn. intros Hr. apply in_map_iff in Hr. destruct Hr as [g [<- Hg]].
    pose proof (group_nonempty same_fp_ts2 _ g same_fp_ts2_refl Hg) as Hne.
    destruct g as [|[x t] g']; [congruence|].
    assert (Hin : In (x, t) (map (fun r => (set_ts (bucket_sql_z d (r_ts r)) r, r_ts r)) rows)) by (eapply group_members; [exact Hg|now left]).
    apply in_map_iff in Hin. destruct Hin as [y [E Hy]]. inversion E; subst. exists y. cbn. auto.
  Qed.
  Lemma sem_uwfn_inv v d rows : consistent rows -> nonneg rows -> 0 < d ->
    consistent (sem_uwfn varpop stddevpop v d rows) /\ nonneg (sem_uwfn varpop stddevpop v d rows).
  Proof.
    intros Hc Hn Hd. split.
    - intros a b Ha Hb. destruct (sem_uwfn_from _ _ _ _ Ha) as [ha [Hha [E1 [E2 _]]]].
      destruct (sem_uwfn_from _ _ _ _ Hb) as [hb [Hhb [E3 [E4 _]]]]. rewrite E1, E2, E3, E4. now apply Hc.
    - intros a Ha. destruct (sem_uwfn_from _ _ _ _ Ha) as [ha [Hha [_ [_ E]]]]. rewrite E. apply bucket_sql_nonneg; [now apply Hn|exact Hd].
  Qed.
  (* --- quantile --- *)
  Theorem quantile_stage param d rows :
    consistent rows -> nonneg rows -> 0 < d ->
    ref_quantile quantile_o param d (map u_of rows) = map strip (sem_quantile quantile_o param d rows).
  Proof.
    intros Hc Hn Hd. unfold ref_quantile, sem_quantile.
    rewrite (group_by_pull u_of (same_u d) rows).
    rewrite (group_by_pull (fun r => set_ts (bucket_sql_z d (r_ts r)) r) same_fp_ts rows).
    rewrite (group_by_ext (fun x y => same_fp_ts (set_ts (bucket_sql_z d (r_ts x)) x) (set_ts (bucket_sql_z d (r_ts y)) y))
                          (fun x y => same_u d (u_of x) (u_of y)) rows).
    2:{ intros a b Ha Hb. unfold same_fp_ts, same_u. cbn.
        rewrite (fp_labels_eqb rows a b Hc Ha Hb), !bucket_sql_is_bucket by (try apply Hn; assumption). reflexivity. }
    rewrite !map_map. apply map_ext_in. intros g Hg.
    unfold strip, agg_row. cbn. rewrite !map_map. cbn.
    destruct g as [|r g']; cbn.
    - unfold bucket. reflexivity.
    - rewrite bucket_sql_is_bucket; [reflexivity| |exact Hd]. apply Hn. eapply group_members; [exact Hg|now left].
  Qed.
  Lemma sem_quantile_from param d rows r : In r (sem_quantile quantile_o param d rows) ->
    exists h, In h rows /\ r_fp r = r_fp h /\ r_labels r = r_labels h /\ r_ts r = bucket_sql_z d (r_ts h).
  Proof.
    unfold sem_quantile. intros Hr.
    destruct (agg_rows_from _ _ _ r (groups_wf same_fp_ts _ same_fp_ts_refl) Hr) as [h [Hh [E1 [E2 E3]]]].
    apply in_map_iff in Hh. destruct Hh as [x [<- Hx]]. exists x. cbn in *. auto.
  Qed.
  Lemma sem_quantile_inv param d rows : consistent rows -> nonneg rows -> 0 < d ->
    consistent (sem_quantile quantile_o param d rows) /\ nonneg (sem_quantile quantile_o param d rows).
  Proof.
    intros Hc Hn Hd. split.
    - intros a b Ha Hb. destruct (sem_quantile_from _ _ _ _ Ha) as [ha [Hha [E1 [E2 _]]]].
      destruct (sem_quantile_from _ _ _ _ Hb) as [hb [Hhb [E3 [E4 _]]]]. rewrite E1, E2, E3, E4. now apply Hc.
    - intros a Ha. destruct (sem_quantile_from _ _ _ _ Ha) as [ha [Hha [_ [_ E]]]]. rewrite E. apply bucket_sql_nonneg; [now apply Hn|exact Hd].
  Qed.

  (* --- vector aggregation --- *)
  Definition maybe_bw (g : option by_without) (rows : list mrow) : list mrow :=
    match g with Some b => sem_bw fp (bw_labels b) (bw_by b) rows | None => rows end.
  Lemma maybe_bw_strip g rows :
    map strip (maybe_bw g rows) = map (fun r => {| v_labels := regroup g (v_labels r); v_ts := v_ts r; v_val := v_val r |}) (map strip rows).
  Proof.
    destruct g as [b|]; cbn [maybe_bw regroup]; unfold sem_bw; rewrite !map_map; apply map_ext; intros r; reflexivity.
  Qed.
  Lemma maybe_bw_inv g rows : consistent rows -> nonneg rows -> consistent (maybe_bw g rows) /\ nonneg (maybe_bw g rows).
  Proof.
    intros Hc Hn. destruct g as [b|]; cbn [maybe_bw]; [|tauto]. split; [apply sem_bw_consistent|now apply sem_bw_nonneg].
  Qed.
  Lemma maybe_bw_u g rows label :
    map u_of (maybe_bw g (sem_unwrap to_float label rows)) = usamples to_float label g (map entry_of rows).
  Proof.
    unfold usamples, sem_unwrap. destruct g as [b|]; cbn [maybe_bw regroup]; unfold sem_bw; rewrite !map_map; apply map_ext; intros r; reflexivity.
  Qed.

  Theorem agg_stage f rows :
    consistent rows ->
    map strip (sem_agg varpop stddevpop f rows) =
    map (fun w => {| v_labels := v_labels (head_vrow w); v_ts := v_ts (head_vrow w); v_val := eval_agg varpop stddevpop f (map v_val w) |})
        (group_by same_lbl_ts (map strip rows)).
  Proof.
    intros Hc. unfold sem_agg. rewrite (group_by_pull strip same_lbl_ts rows).
    rewrite (group_by_ext same_fp_ts (fun x y => same_lbl_ts (strip x) (strip y)) rows).
    2:{ intros a b Ha Hb. unfold same_fp_ts, same_lbl_ts. cbn. now rewrite (fp_labels_eqb rows a b Hc Ha Hb). }
    rewrite !map_map. apply map_ext. intros g. unfold strip, agg_row. cbn. rewrite !map_map. cbn.
    destruct g; reflexivity.
  Qed.
  Corollary agg_stage_ref f g rows :
    consistent (maybe_bw g rows) ->
    ref_agg varpop stddevpop f g (map strip rows) = map strip (sem_agg varpop stddevpop f (maybe_bw g rows)).
  Proof. intros Hc. unfold ref_agg. rewrite <- maybe_bw_strip. symmetry. now apply agg_stage. Qed.
  Lemma sem_agg_from f rows r : In r (sem_agg varpop stddevpop f rows) ->
    exists h, In h rows /\ r_fp r = r_fp h /\ r_labels r = r_labels h /\ r_ts r = r_ts h.
  Proof. unfold sem_agg. intros Hr. exact (agg_rows_from _ _ _ r (groups_wf same_fp_ts _ same_fp_ts_refl) Hr). Qed.
  Lemma sem_agg_inv f rows : consistent rows -> nonneg rows ->
    consistent (sem_agg varpop stddevpop f rows) /\ nonneg (sem_agg varpop stddevpop f rows).
  Proof.
    intros Hc Hn. split; [apply (consistent_from rows)|apply (nonneg_from rows)]; try assumption; intros r Hr; now apply (sem_agg_from f).
  Qed.

  (* output series are identified by exactly the grouped label set: one row per (label set, timestamp), and the label set
     of a row is the by/without image of the label set of an input row *)
  Lemma fop_map {X Y} (f : X -> Y) (R : X -> X -> Prop) (Q : Y -> Y -> Prop) (l : list X) :
    (forall a b, In a l -> In b l -> R a b -> Q (f a) (f b)) -> ForallOrdPairs R l -> ForallOrdPairs Q (map f l).
  Proof.
    intros H Hl. induction Hl as [|a l Ha Hl IH]; cbn [map]; constructor.
    - apply Forall_forall. intros y Hy. apply in_map_iff in Hy. destruct Hy as [b [<- Hb]].
      apply H; [now left|now right|]. rewrite Forall_forall in Ha. now apply Ha.
    - apply IH. intros x y Hx Hy. apply H; now right.
  Qed.
  Lemma fop_nodup {X} (l : list X) : ForallOrdPairs (fun a b => a <> b) l -> NoDup l.
  Proof.
    intros H. induction H as [|a l Ha Hl IH]; constructor; [|exact IH].
    intros Hin. rewrite Forall_forall in Ha. now apply (Ha a Hin).
  Qed.
  Theorem agg_series_identity f g rows :
    consistent rows ->
    NoDup (map (fun r => (r_labels r, r_ts r)) (sem_agg varpop stddevpop f (maybe_bw g rows))) /\
    forall r, In r (sem_agg varpop stddevpop f (maybe_bw g rows)) -> exists h, In h rows /\ r_labels r = regroup g (r_labels h) /\ r_ts r = r_ts h.
  Proof.
    intros Hc0.
    assert (Hc : consistent (maybe_bw g rows)) by (destruct g; cbn [maybe_bw]; [apply sem_bw_consistent|exact Hc0]).
    split.
    - apply fop_nodup. unfold sem_agg, group_by. rewrite !map_map.
      eapply fop_map; [|apply (firsts_distinct same_fp_ts (maybe_bw g rows) [])].
      intros a b Ha Hb Hs. cbn beta. intros E.
      apply firsts_in in Ha. apply firsts_in in Hb.
      assert (Ha' : In a (filter (same_fp_ts a) (maybe_bw g rows))) by (apply filter_In; split; [exact Ha|apply same_fp_ts_refl]).
      assert (Hb' : In b (filter (same_fp_ts b) (maybe_bw g rows))) by (apply filter_In; split; [exact Hb|apply same_fp_ts_refl]).
      destruct (filter (same_fp_ts a) (maybe_bw g rows)) as [|ha ga] eqn:Ea; [contradiction|].
      destruct (filter (same_fp_ts b) (maybe_bw g rows)) as [|hb gb] eqn:Eb; [contradiction|].
      cbn in E. inversion E as [[El Et]].
      assert (Hha : In ha (maybe_bw g rows) /\ same_fp_ts a ha = true) by (apply filter_In; rewrite Ea; now left).
      assert (Hhb : In hb (maybe_bw g rows) /\ same_fp_ts b hb = true) by (apply filter_In; rewrite Eb; now left).
      destruct Hha as [Hha1 Hha2]. destruct Hhb as [Hhb1 Hhb2].
      unfold same_fp_ts in *. apply andb_true_iff in Hha2. apply andb_true_iff in Hhb2.
      destruct Hha2 as [F1 T1]. destruct Hhb2 as [F2 T2].
      apply N.eqb_eq in F1. apply N.eqb_eq in F2. apply Z.eqb_eq in T1. apply Z.eqb_eq in T2.
      apply (Hc ha hb Hha1 Hhb1) in El.
      assert (X : N.eqb (r_fp b) (r_fp a) && Z.eqb (r_ts b) (r_ts a) = true) by (apply andb_true_iff; split; [apply N.eqb_eq|apply Z.eqb_eq]; congruence).
      congruence.
    - intros r Hr. destruct (sem_agg_from f _ r Hr) as [h [Hh [_ [El Et]]]].
      destruct g as [b|]; cbn [maybe_bw regroup] in *.
      + unfold sem_bw in Hh. apply in_map_iff in Hh. destruct Hh as [x [<- Hx]]. exists x. cbn in *. auto.
      + exists h. auto.
  Qed.

  (* --- comparison --- *)
  Lemma cmp_stage fn v rows :
    ref_cmp (Some {| cmp_fn := fn; cmp_val := v |}) (map strip rows) = map strip (sem_cmp fn v rows).
  Proof.
    cbn [ref_cmp cmp_fn cmp_val]. unfold sem_cmp. induction rows as [|r rows IH]; cbn; [reflexivity|].
    destruct (cmp_holds fn (r_val r) (dec_value v)); cbn; now rewrite IH.
  Qed.
  Lemma sem_cmp_inv fn v rows : consistent rows -> nonneg rows -> consistent (sem_cmp fn v rows) /\ nonneg (sem_cmp fn v rows).
  Proof.
    intros Hc Hn. split; [apply (consistent_sub rows)|apply (nonneg_sub rows)]; try assumption;
      intros r Hr; unfold sem_cmp in Hr; apply filter_In in Hr; tauto.
  Qed.

  (* --- step re-bucketing --- *)
  Theorem step_stage step d rows :
    consistent rows -> nonneg rows -> 0 < step ->
    ref_step step d (map strip rows) = map strip (if Z.leb step d then rows else sem_stepfix step rows).
  Proof.
    intros Hc Hn Hs. unfold ref_step. destruct (Z.leb step d); [reflexivity|].
    unfold sem_stepfix. rewrite (group_by_pull strip (same_step step) rows).
    change (map (fun r => (set_ts (bucket_sql_z step (r_ts r)) r, r_ts r)) rows) with (map (pair_ts step) rows).
    rewrite (group_by_pull (pair_ts step) same_fp_ts2 rows).
    rewrite (group_by_ext (fun x y => same_fp_ts2 (pair_ts step x) (pair_ts step y)) (fun x y => same_step step (strip x) (strip y)) rows).
    2:{ intros a b Ha Hb. unfold same_fp_ts2, same_fp_ts, same_step, pair_ts. cbn.
        rewrite (fp_labels_eqb rows a b Hc Ha Hb), !bucket_sql_is_bucket by (try apply Hn; assumption). reflexivity. }
    rewrite !map_map. apply map_ext_in. intros g Hg.
    rewrite (argmin_map strip r_ts v_ts g) by reflexivity.
    rewrite (argmin_map (pair_ts step) r_ts snd g) by reflexivity.
    unfold strip at 1, agg_row. cbn. rewrite !map_map. cbn.
    destruct g as [|r g']; cbn.
    - unfold bucket. reflexivity.
    - rewrite bucket_sql_is_bucket; [|apply Hn; eapply group_members; [exact Hg|now left]|exact Hs].
      f_equal. destruct (fold_left _ g' r); reflexivity.
  Qed.
End STAGES.

(* ================= top / bottom k ================= *)
Lemma qltb_lt a b : qltb a b = true <-> (a < b)%Qc.
Proof. unfold qltb. rewrite Qclt_alt. destruct (a ?= b)%Qc; split; congruence. Qed.
Lemma qeqb_eq a b : qeqb a b = true <-> a = b.
Proof. unfold qeqb. rewrite Qceq_alt. destruct (a ?= b)%Qc; split; congruence. Qed.
Lemma qcompare_antisym a b : (b ?= a)%Qc = CompOpp (a ?= b)%Qc.
Proof. unfold Qccompare. symmetry. apply Qcompare_antisym. Qed.

Definition tk_key (top : bool) (r : mrow) : Qc := if top then Qcopp (r_val r) else r_val r.
Lemma tk_before_char top a b :
  tk_before top a b = match (tk_key top a ?= tk_key top b)%Qc with Datatypes.Lt => true | Datatypes.Eq => N.leb (r_fp a) (r_fp b) | Datatypes.Gt => false end.
Proof.
  unfold tk_before, tk_key, qltb, qeqb. destruct top; cbn;
  match goal with |- context [(?x ?= ?y)%Qc] => destruct (x ?= y)%Qc end; reflexivity.
Qed.
Lemma tk_total top a b : tk_before top a b = false -> tk_before top b a = true.
Proof.
  rewrite !tk_before_char, (qcompare_antisym (tk_key top a) (tk_key top b)).
  destruct (tk_key top a ?= tk_key top b)%Qc; cbn; try congruence.
  intros H. apply N.leb_gt in H. apply N.leb_le. lia.
Qed.
Lemma tk_trans top a b c : tk_before top a b = true -> tk_before top b c = true -> tk_before top a c = true.
Proof.
  rewrite !tk_before_char.
  destruct (tk_key top a ?= tk_key top b)%Qc eqn:E1; try discriminate;
  destruct (tk_key top b ?= tk_key top c)%Qc eqn:E2; try discriminate; intros H1 H2.
  - apply Qceq_alt in E1. apply Qceq_alt in E2. rewrite E1, E2.
    assert (E : (tk_key top c ?= tk_key top c)%Qc = Datatypes.Eq) by now apply Qceq_alt. rewrite E.
    apply N.leb_le in H1. apply N.leb_le in H2. apply N.leb_le. lia.
  - apply Qceq_alt in E1. rewrite E1, E2. reflexivity.
  - apply Qceq_alt in E2. rewrite <- E2, E1. reflexivity.
  - apply Qclt_alt in E1. apply Qclt_alt in E2.
    assert (E : (tk_key top a ?= tk_key top c)%Qc = Datatypes.Lt) by (apply Qclt_alt; eapply Qclt_trans; eassumption).
    now rewrite E.
Qed.
(* sorting before means: not a smaller value (top) / not a larger value (bottom) *)
Lemma tk_before_val top a b : tk_before top a b = true ->
  if top then (r_val b <= r_val a)%Qc else (r_val a <= r_val b)%Qc.
Proof.
  rewrite tk_before_char. unfold tk_key.
  assert (Hle : forall x y : Qc, (x ?= y)%Qc <> Datatypes.Gt -> (x <= y)%Qc).
  { intros x y H. destruct (x ?= y)%Qc eqn:E; [apply Qceq_alt in E; subst; apply Qcle_refl|apply Qclt_alt in E; now apply Qclt_le_weak|congruence]. }
  destruct top; intros H.
  - assert (Hk : (- r_val a <= - r_val b)%Qc) by (apply Hle; destruct (- r_val a ?= - r_val b)%Qc; congruence).
    apply Qcopp_le_compat in Hk. now rewrite !Qcopp_involutive in Hk.
  - apply Hle. destruct (r_val a ?= r_val b)%Qc; congruence.
Qed.

Lemma in_skipn_l {A} (l : list A) k x : In x (skipn k l) -> In x l.
Proof. intros H. rewrite <- (firstn_skipn k l). apply in_or_app. now right. Qed.
Lemma in_firstn_l {A} (l : list A) k x : In x (firstn k l) -> In x l.
Proof. intros H. rewrite <- (firstn_skipn k l). apply in_or_app. now left. Qed.

Section SORT.
  Variable le : mrow -> mrow -> bool.
  Hypothesis le_total : forall a b, le a b = false -> le b a = true.
  Hypothesis le_trans : forall a b c, le a b = true -> le b c = true -> le a c = true.

  Fixpoint sorted (l : list mrow) : Prop :=
    match l with [] => True | x :: r => (forall y, In y r -> le x y = true) /\ sorted r end.
  Lemma insert_in x l y : In y (insert_by le x l) <-> x = y \/ In y l.
  Proof.
    induction l as [|a r IH]; cbn; [tauto|]. destruct (le x a); cbn; [tauto|]. rewrite IH. tauto.
  Qed.
  Lemma insert_sorted x l : sorted l -> sorted (insert_by le x l).
  Proof.
    induction l as [|a r IH]; cbn [insert_by sorted]; [intros _; split; [intros y []|exact I]|].
    intros [Ha Hr]. destruct (le x a) eqn:E; cbn [sorted].
    - split; [|split; assumption]. intros y [<-|Hy]; [exact E|]. eapply le_trans; [exact E|now apply Ha].
    - split; [|now apply IH]. intros y Hy. apply insert_in in Hy. destruct Hy as [<-|Hy]; [now apply le_total|now apply Ha].
  Qed.
  Lemma sort_in l y : In y (sort_by le l) <-> In y l.
  Proof. unfold sort_by. induction l as [|a r IH]; cbn [fold_right]; [tauto|]. rewrite insert_in, IH. cbn. tauto. Qed.
  Lemma sort_sorted l : sorted (sort_by le l).
  Proof. unfold sort_by. induction l as [|a r IH]; cbn [fold_right]; [exact I|now apply insert_sorted]. Qed.
  Lemma insert_length x l : List.length (insert_by le x l) = S (List.length l).
  Proof. induction l as [|a r IH]; cbn; [reflexivity|]. destruct (le x a); cbn; [reflexivity|now rewrite IH]. Qed.
  Lemma sort_length l : List.length (sort_by le l) = List.length l.
  Proof. unfold sort_by. induction l as [|a r IH]; cbn [fold_right]; [reflexivity|]. now rewrite insert_length, IH. Qed.
  Lemma sorted_split l : forall k x y, sorted l -> In x (firstn k l) -> In y (skipn k l) -> le x y = true.
  Proof.
    induction l as [|a r IH]; intros k x y Hs Hx Hy; destruct k; cbn in *; try contradiction.
    destruct Hs as [Ha Hr]. destruct Hx as [<-|Hx].
    - apply Ha. eapply (in_skipn_l r k). exact Hy.
    - eapply IH; eassumption.
  Qed.
End SORT.

(* the k rows TopKPlanner keeps of the rows of one timestamp: k of them (all when there are fewer), rows of the input,
   and every row left out has a value not above (topk) / not below (bottomk) every row kept *)
Theorem topk_group_correct k top (g : list mrow) :
  let kept := firstn k (sort_by (tk_before top) g) in
  let dropped := skipn k (sort_by (tk_before top) g) in
  List.length kept = Nat.min k (List.length g) /\
  (forall r, In r kept -> In r g) /\
  (forall r, In r g -> In r kept \/ In r dropped) /\
  (forall x y, In x kept -> In y dropped -> if top then (r_val y <= r_val x)%Qc else (r_val x <= r_val y)%Qc).
Proof.
  cbn zeta. split; [|split; [|split]].
  - now rewrite firstn_length, sort_length.
  - intros r Hr. apply (sort_in (tk_before top)). eapply (in_firstn_l _ k). exact Hr.
  - intros r Hr. apply (sort_in (tk_before top)) in Hr. rewrite <- (firstn_skipn k (sort_by (tk_before top) g)) in Hr.
    now apply in_app_or in Hr.
  - intros x y Hx Hy. apply tk_before_val.
    eapply (sorted_split (tk_before top)); [apply sort_sorted; [apply tk_total|apply tk_trans]|exact Hx|exact Hy].
Qed.

(* ================= the planner chain ================= *)
(* planners of the log part (and unwrap): sem passes the base rows through them, changing at most the value column *)
Fixpoint nmh (p : planner) : bool :=
  match p with
  | PUnwrapP _ m => nmh m
  | PLabelsJoin m _ _ _ => nmh m
  | PMainFinalizer m _ _ => nmh m
  | PLraP _ _ _ _ | PUnwrapFnP _ _ _ | PByWithoutP _ _ _ _ | PAggOpP _ _ _ | PComparisonP _ _ _ | PTopKP _ _ _
  | PQuantileP _ _ _ | PStepFixP _ _ | PMetrics15 _ _ => false
  | PFingerprintFilter _ (PMetrics15 _ _) => false
  | _ => true
  end.
Definition shape (rows : list mrow) := map (fun r => (r_fp r, r_ts r, r_labels r, r_line r)) rows.

Lemma shape_in rows rows' r : shape rows = shape rows' -> In r rows ->
  exists r', In r' rows' /\ r_fp r = r_fp r' /\ r_labels r = r_labels r' /\ r_ts r = r_ts r'.
Proof.
  revert rows'. induction rows as [|a l IH]; intros [|b l'] E Hr; cbn in *; try contradiction; try discriminate.
  inversion E as [[E1 E2 E3 E4 E5]]. destruct Hr as [<-|Hr].
  - exists b. auto.
  - destruct (IH l' E5 Hr) as [r' [Hr' Hx]]. exists r'. auto.
Qed.
Lemma shape_consistent rows rows' : shape rows = shape rows' -> consistent rows' -> consistent rows.
Proof. intros E Hc. apply (consistent_from rows'); [exact Hc|]. intros r Hr. now apply (shape_in rows rows'). Qed.
Lemma shape_nonneg rows rows' : shape rows = shape rows' -> nonneg rows' -> nonneg rows.
Proof. intros E Hn. apply (nonneg_from rows'); [exact Hn|]. intros r Hr. now apply (shape_in rows rows'). Qed.
Lemma shape_entries rows rows' : shape rows = shape rows' -> map entry_of rows = map entry_of rows'.
Proof.
  revert rows'. induction rows as [|a l IH]; intros [|b l'] E; cbn in *; try discriminate; [reflexivity|].
  inversion E as [[E1 E2 E3 E4 E5]]. rewrite (IH l' E5). unfold entry_of. now rewrite E2, E3, E4.
Qed.

Section CHAIN.
  Variable fp : lmap -> N.
  Variable to_float : string -> Qc.
  Variable quantile_o : string -> list Qc -> Qc.
  Variable varpop stddevpop : list Qc -> Qc.
  Hypothesis fp_inj : forall a b, fp a = fp b -> a = b.
  Notation sem := (sem fp to_float quantile_o varpop stddevpop).

  Lemma sem_nmh c base : forall p, nmh p = true -> exists rows0, sem p c base = Some rows0 /\ shape rows0 = shape base.
  Proof.
    induction p; cbn [nmh LogqlMetricSem.sem]; intros H; try discriminate; try (exists base; split; reflexivity).
    - (* PFingerprintFilter: not over the shortcut planner *) destruct p2; try discriminate; exists base; split; reflexivity.
    - (* PLabelsJoin *) now apply IHp1.
    - (* PMainFinalizer *) now apply IHp.
    - (* PUnwrapP *) destruct (IHp H) as [rows0 [E S]]. rewrite E. eexists. split; [reflexivity|].
      unfold shape in *. now rewrite sem_unwrap_shape.
  Qed.

  (* --- shape of planSpl's result --- *)
  Lemma plan_stage_nmh s b cur cur2 : plan_stage s b cur = Some cur2 -> nmh cur = true -> nmh cur2 = true.
  Proof.
    destruct s; cbn; intros E H; inversion E; subst; try destruct b; cbn; auto.
  Qed.
  Lemma plan_spl_nmh : forall ppl simple renew i lji fpp cur spl,
    plan_spl ppl simple renew i lji fpp cur = Some spl -> nmh cur = true -> nmh spl = true.
  Proof.
    induction ppl as [|s r IH]; intros simple renew i lji fpp cur spl E H; cbn [plan_spl] in E.
    - destruct simple, renew; inversion E; subst; exact H.
    - destruct simple as [|b bs]; [inversion E; subst; exact H|]. destruct renew as [|rn rns]; [inversion E; subst; exact H|].
      set (cur1 := if match lji with Some j => Nat.eqb i j | None => false end
                   then PLabelsJoin (PMainOrderBy ["timestamp_ns"%string] cur) fpp PTimeSeriesInit true else cur) in E.
      assert (H1 : nmh cur1 = true) by (unfold cur1; destruct (match lji with Some j => Nat.eqb i j | None => false end); [reflexivity|exact H]).
      destruct (plan_stage s b cur1) as [cur2|] eqn:Es; [|discriminate].
      pose proof (plan_stage_nmh _ _ _ _ Es H1) as H2.
      eapply IH; [exact E|]. destruct rn; [reflexivity|exact H2].
  Qed.

  Fixpoint last_st (l : list stage) : option stage :=
    match l with [] => None | s :: r => match r with [] => Some s | _ => last_st r end end.
  Lemma rev_head_last (l : list stage) : hd_error (rev l) = last_st l.
  Proof.
    induction l as [|a r IH]; [reflexivity|]. cbn [rev last_st]. destruct r as [|b r'].
    - reflexivity.
    - rewrite <- IH. destruct (rev (b :: r')) eqn:E; [|reflexivity].
      apply (f_equal (@List.length stage)) in E. rewrite rev_length in E. discriminate.
  Qed.
  Lemma unwrap_label_last sel : unwrap_label sel = match last_st (sel_pipeline sel) with Some (PUnwrap l) => Some l | _ => None end.
  Proof. unfold unwrap_label. rewrite <- rev_head_last. destruct (rev (sel_pipeline sel)) as [|[] ?]; reflexivity. Qed.
  Lemma last_is_unwrap_last ppl : last_is_unwrap ppl = match last_st ppl with Some (PUnwrap _) => true | _ => false end.
  Proof. unfold last_is_unwrap. rewrite <- rev_head_last. destruct (rev ppl) as [|[] ?]; reflexivity. Qed.

  Lemma plan_spl_unwrap : forall ppl simple i lji rl ri fpp cur spl label,
    List.length simple = List.length ppl ->
    plan_spl ppl simple (renew_after ppl rl ri) i lji fpp cur = Some spl -> nmh cur = true ->
    last_st ppl = Some (PUnwrap label) ->
    exists spl', spl = PUnwrapP label spl' /\ nmh spl' = true.
  Proof.
    induction ppl as [|s r IH]; intros simple i lji rl ri fpp cur spl label Hl E H Hlast; [discriminate|].
    destruct simple as [|b bs]; [discriminate|]. cbn [renew_after plan_spl] in E.
    set (cur1 := if match lji with Some j => Nat.eqb i j | None => false end
                 then PLabelsJoin (PMainOrderBy ["timestamp_ns"%string] cur) fpp PTimeSeriesInit true else cur) in E.
    assert (H1 : nmh cur1 = true) by (unfold cur1; destruct (match lji with Some j => Nat.eqb i j | None => false end); [reflexivity|exact H]).
    destruct (plan_stage s b cur1) as [cur2|] eqn:Es; [|discriminate].
    pose proof (plan_stage_nmh _ _ _ _ Es H1) as H2.
    destruct r as [|s' r'].
    - cbn in Hlast. inversion Hlast; subst s. cbn in Es. inversion Es; subst cur2.
      destruct bs; cbn in E; inversion E; subst spl; exists cur1; split; auto.
    - cbn [last_st] in Hlast. eapply (IH bs); [cbn in Hl |- *; lia|exact E| |exact Hlast].
      match goal with |- nmh (if ?bb then _ else _) = true => destruct bb end; [reflexivity|exact H2].
  Qed.

  Lemma simple_ops_length ppl : List.length (simple_ops ppl) = List.length ppl.
  Proof.
    induction ppl as [|s r IH]; [reflexivity|]. cbn [simple_ops]. destruct (is_relabel s); cbn; [now rewrite map_length|now rewrite IH].
  Qed.

  (* --- the tail every metric plan ends with --- *)
  Definition post_step (c : pctx) (d : Z) (rows : list mrow) : list mrow :=
    if Z.leb (c_step_ns c) d then rows else sem_stepfix (c_step_ns c) rows.
  Lemma sem_tail c base (b : bool) d X fpp fin :
    sem (PMainFinalizer (if b then PLabelsJoin (PStepFixP d X) fpp PTimeSeriesInit false else PStepFixP d X) true fin) c base =
    option_map (post_step c d) (sem X c base).
  Proof. destruct b; cbn [LogqlMetricSem.sem]; destruct (sem X c base); reflexivity. Qed.

  Lemma sem_cmp_opt c base cmp X :
    sem (plan_cmp cmp X) c base =
    option_map (fun rows => match cmp with Some x => sem_cmp (cmp_fn x) (cmp_val x) rows | None => rows end) (sem X c base).
  Proof. destruct cmp as [x|]; cbn [plan_cmp LogqlMetricSem.sem]; destruct (sem X c base); reflexivity. Qed.
  Lemma sem_bw_opt c base pre suf use_ts X :
    sem (plan_bw pre suf use_ts X) c base = option_map (maybe_bw fp (grouping pre suf)) (sem X c base).
  Proof.
    unfold plan_bw, grouping. destruct (match suf with Some b => Some b | None => pre end) as [b|];
      cbn [LogqlMetricSem.sem maybe_bw]; destruct (sem X c base); reflexivity.
  Qed.

  Definition cmp_rows (cmp : option comparison) (rows : list mrow) : list mrow :=
    match cmp with Some x => sem_cmp (cmp_fn x) (cmp_val x) rows | None => rows end.
  Lemma cmp_rows_ref cmp rows : ref_cmp cmp (map strip rows) = map strip (cmp_rows cmp rows).
  Proof. destruct cmp as [[fn v]|]; [apply cmp_stage|reflexivity]. Qed.
  Lemma cmp_rows_inv cmp rows : consistent rows -> nonneg rows -> consistent (cmp_rows cmp rows) /\ nonneg (cmp_rows cmp rows).
  Proof. intros Hc Hn. destruct cmp as [x|]; cbn [cmp_rows]; [now apply sem_cmp_inv|tauto]. Qed.

  (* apply_mfns over fo_cmp *)
  Lemma apply_cmp lj li cmp X : apply_mfns lj li (fo_cmp cmp) X = Some (plan_cmp cmp X).
  Proof. destruct cmp; reflexivity. Qed.
  Lemma apply_mfns_app lj li a b X :
    apply_mfns lj li (a ++ b) X = match apply_mfns lj li a X with Some Y => apply_mfns lj li b Y | None => None end.
  Proof.
    revert X. induction a as [|f a IH]; intros X; cbn [app apply_mfns]; [reflexivity|].
    destruct (apply_mfn lj li f X); [apply IH|reflexivity].
  Qed.

  (* --- the range-aggregation part of a chain, log or unwrapped --- *)
  Definition lra_chain (lj : bool) (l : lra) (spl : planner) : planner :=
    plan_cmp (lra_cmp l)
      (if last_is_unwrap (sel_pipeline (lra_sel l))
       then PUnwrapFnP (lra_f l) (lra_dur_ns l) (plan_bw (lra_prefix l) (lra_suffix l) (negb lj) spl)
       else PLraP (lra_f l) (lra_dur_ns l) lj spl).
  Lemma apply_fo_lra lj li l acc lidx X :
    apply_mfns lj li (fst (fo_lra l acc lidx)) X =
    match apply_mfns lj li acc X with Some Y => Some (lra_chain lj l Y) | None => None end.
  Proof.
    unfold fo_lra, lra_chain. destruct (last_is_unwrap (sel_pipeline (lra_sel l))); cbn [fst];
      rewrite apply_mfns_app; destruct (apply_mfns lj li acc X) as [Y|]; try reflexivity;
      cbn [app apply_mfns apply_mfn]; apply apply_cmp.
  Qed.

  Definition dur_ok (d : Z) : Prop := 0 < d.

  (* the rows a range aggregation yields from the rows leaving the log pipeline *)
  Theorem lra_chain_correct c base lj l spl ppl simple i lji rl ri fpp cur :
    sel_pipeline (lra_sel l) = ppl -> List.length simple = List.length ppl ->
    plan_spl ppl simple (renew_after ppl rl ri) i lji fpp cur = Some spl -> nmh cur = true ->
    dur_ok (lra_dur_ns l) -> consistent base -> nonneg base ->
    match sem (lra_chain lj l spl) c base with
    | Some rows => ref_lra to_float varpop stddevpop l (map entry_of base) = Some (map strip rows) /\ consistent rows /\ nonneg rows
    | None => ref_lra to_float varpop stddevpop l (map entry_of base) = None
    end.
  Proof.
    intros Hp Hl Espl Hcur Hd Hc Hn. unfold lra_chain, ref_lra. unfold dur_ok in Hd.
    rewrite sem_cmp_opt, unwrap_label_last, last_is_unwrap_last, Hp.
    pose proof (plan_spl_nmh _ _ _ _ _ _ _ _ Espl Hcur) as Hnm.
    assert (Ebool : match last_st ppl with Some (PUnwrap _) => true | _ => false end =
                    is_some (match last_st ppl with Some (PUnwrap l0) => Some l0 | _ => None end))
      by (destruct (last_st ppl) as [[]|]; reflexivity).
    rewrite Ebool. clear Ebool.
    destruct (match last_st ppl with Some (PUnwrap l0) => Some l0 | _ => None end) as [label|] eqn:Eul; cbn [is_some].
    2:{ destruct (sem_nmh c base spl Hnm) as [rows0 [E0 S0]].
        cbn [LogqlMetricSem.sem]. rewrite E0.
        pose proof (shape_consistent _ _ S0 Hc) as Hc0. pose proof (shape_nonneg _ _ S0 Hn) as Hn0.
        rewrite <- (shape_entries _ _ S0).
        destruct (lra_val_of (lra_f l) (lra_dur_ns l)) as [v|] eqn:Ev; cbn [option_map].
        - rewrite (lra_stage _ _ v rows0 Hc0 Hn0 Hd Ev), cmp_rows_ref.
          destruct (sem_lra_inv fp fp_inj v (lra_dur_ns l) rows0 Hc0 Hn0 Hd) as [Hc1 Hn1].
          destruct (cmp_rows_inv (lra_cmp l) _ Hc1 Hn1). auto.
        - unfold ref_range. destruct (lra_f l); cbn in Ev; try discriminate; reflexivity. }
    assert (Elast : last_st ppl = Some (PUnwrap label)) by (destruct (last_st ppl) as [[]|]; congruence).
    (* unwrapped *)
    destruct (plan_spl_unwrap _ _ _ _ _ _ _ _ _ label Hl Espl Hcur Elast) as [spl' [-> Hnm']].
    destruct (sem_nmh c base spl' Hnm') as [rows0 [E0 S0]].
    cbn [LogqlMetricSem.sem]. rewrite sem_bw_opt. cbn [LogqlMetricSem.sem]. rewrite E0. cbn [option_map].
    pose proof (shape_consistent _ _ S0 Hc) as Hc0. pose proof (shape_nonneg _ _ S0 Hn) as Hn0.
    rewrite <- (shape_entries _ _ S0).
    set (g := grouping (lra_prefix l) (lra_suffix l)).
    set (rows1 := maybe_bw fp g (sem_unwrap to_float label rows0)).
    assert (Hinv : consistent rows1 /\ nonneg rows1).
    { apply (maybe_bw_inv fp fp_inj).
      - eapply shape_consistent; [apply sem_unwrap_shape|exact Hc0].
      - eapply shape_nonneg; [apply sem_unwrap_shape|exact Hn0]. }
    destruct Hinv as [Hc1 Hn1].
    rewrite <- (maybe_bw_u fp to_float g rows0 label). fold rows1.
    destruct (uw_val_of (lra_f l) (lra_dur_ns l)) as [v|] eqn:Ev; cbn [option_map].
    - rewrite (uwfn_stage varpop stddevpop _ _ v rows1 Hc1 Hn1 Hd Ev), cmp_rows_ref.
      destruct (sem_uwfn_inv fp varpop stddevpop fp_inj v (lra_dur_ns l) rows1 Hc1 Hn1 Hd) as [Hc2 Hn2].
      destruct (cmp_rows_inv (lra_cmp l) _ Hc2 Hn2). auto.
    - unfold ref_urange. destruct (lra_f l); cbn in Ev; try discriminate; reflexivity.
  Qed.
  (* --- plan_metric, unfolded for a script that does not take the shortcut --- *)
  Definition spl_of (s : script) : option planner :=
    let sel := stream_selector s in
    let ppl := sel_pipeline sel in
    let simple := simple_ops ppl in
    let fpp := plan_ts (sel_matchers sel) ppl simple in
    plan_spl ppl simple (renew_after ppl (labels_join_idx ppl simple 0) 0) 0 (labels_join_idx ppl simple 0) fpp (PFingerprintFilter fpp PMainInit).
  Definition lj_of (s : script) : bool :=
    let ppl := sel_pipeline (stream_selector s) in is_some (labels_join_idx ppl (simple_ops ppl) 0).
  Lemma plan_metric_unfold s fin : analyze_m15 s = false ->
    plan_metric s fin =
    match spl_of s with
    | None => None
    | Some spl =>
      match apply_mfns (lj_of s) (is_some (snd (function_order s))) (fst (function_order s)) spl with
      | None => None
      | Some cur =>
        Some (PMainFinalizer (if negb (lj_of s) && negb (is_some (snd (function_order s)))
                              then PLabelsJoin (PStepFixP (get_duration s) cur)
                                     (plan_ts (sel_matchers (stream_selector s)) (sel_pipeline (stream_selector s)) (simple_ops (sel_pipeline (stream_selector s))))
                                     PTimeSeriesInit false
                              else PStepFixP (get_duration s) cur) true fin)
      end
    end.
  Proof.
    intros Ha. unfold plan_metric, spl_of, lj_of. rewrite Ha. cbv zeta.
    destruct (plan_spl _ _ _ _ _ _ _) as [spl|]; cbn [bind]; [|reflexivity].
    destruct (function_order s) as [order lidx]. cbn [fst snd].
    destruct (apply_mfns _ _ order spl) as [cur|]; cbn [bind]; reflexivity.
  Qed.

  Definition script_ok (s : script) : Prop :=
    match s with
    | SLra l => dur_ok (lra_dur_ns l)
    | SAgg a => dur_ok (lra_dur_ns (agg_lra a))
    | SQuantile q => 0 < q_dur_ns q /\ unwrap_label (q_sel q) <> None
    | _ => False
    end.

  Notation mref := (metric_ref to_float quantile_o varpop stddevpop).

  Lemma finish_step c d rows (ref : option (list vrow)) :
    0 < c_step_ns c ->
    match rows with
    | Some r => ref = Some (map strip r) /\ consistent r /\ nonneg r
    | None => ref = None
    end ->
    option_map (map strip) (option_map (post_step c d) rows) =
    match ref with Some v => Some (ref_step (c_step_ns c) d v) | None => None end.
  Proof.
    intros Hs H. destruct rows as [r|]; cbn [option_map].
    - destruct H as [-> [Hc Hn]]. f_equal. unfold post_step. symmetry. now apply step_stage.
    - now rewrite H.
  Qed.

  (* the planner chain apply_mfns builds for a range-aggregation / vector-aggregation / quantile script *)
  Definition chain (lj li : bool) (s : script) (spl : planner) : planner :=
    match s with
    | SLra l => lra_chain lj l spl
    | SAgg a => plan_cmp (agg_cmp a) (PAggOpP (agg_f a) (lj || li) (plan_bw (agg_prefix a) (agg_suffix a) (negb lj) (lra_chain lj (agg_lra a) spl)))
    | SQuantile q => plan_cmp (q_cmp q) (PQuantileP (q_param q) (q_dur_ns q) (plan_bw (q_prefix q) (q_suffix q) (negb lj) spl))
    | _ => spl
    end.
  Lemma apply_chain lj li s spl : script_ok s ->
    apply_mfns lj li (fst (function_order s)) spl = Some (chain lj li s spl).
  Proof.
    destruct s as [sel|l|a|t|q|]; cbn [script_ok]; try contradiction; intros _; cbn [function_order chain].
    - rewrite apply_fo_lra. reflexivity.
    - unfold fo_agg. rewrite (surjective_pairing (fo_lra (agg_lra a) [] None)). cbn [fst snd].
      rewrite apply_mfns_app, apply_fo_lra. cbn [apply_mfns app apply_mfn]. now rewrite apply_cmp.
    - unfold fo_quantile. cbn [fst app apply_mfns apply_mfn]. now rewrite apply_cmp.
  Qed.

  (* the reference before the step re-bucketing *)
  Definition inner_ref (s : script) (es : list entry) : option (list vrow) :=
    match s with
    | SLra l => ref_lra to_float varpop stddevpop l es
    | SAgg a => ref_aggop to_float varpop stddevpop a es
    | SQuantile q => Some (ref_quant to_float quantile_o q es)
    | _ => None
    end.
  Lemma metric_ref_inner s c es :
    mref s c es = match inner_ref s es with Some v => Some (ref_step (c_step_ns c) (get_duration s) v) | None => None end.
  Proof. destruct s; reflexivity. Qed.

  Theorem inner_correct c base s spl lj li :
    spl_of s = Some spl -> script_ok s -> consistent base -> nonneg base ->
    match sem (chain lj li s spl) c base with
    | Some rows => inner_ref s (map entry_of base) = Some (map strip rows) /\ consistent rows /\ nonneg rows
    | None => inner_ref s (map entry_of base) = None
    end.
  Proof.
    intros Espl Hok Hc Hn. unfold spl_of in Espl.
    assert (Hcur : forall fpp, nmh (PFingerprintFilter fpp PMainInit) = true) by reflexivity.
    destruct s as [sel|l|a|t|q|]; cbn [script_ok] in Hok; try contradiction; cbn [chain inner_ref stream_selector] in *.
    - (* SLra *)
      eapply lra_chain_correct; try eassumption; try reflexivity; try apply simple_ops_length; try apply Hcur.
    - (* SAgg *)
      unfold ref_aggop. rewrite sem_cmp_opt. cbn [LogqlMetricSem.sem]. rewrite sem_bw_opt.
      pose proof (lra_chain_correct c base lj (agg_lra a) spl _ _ _ _ _ _ _ _ eq_refl (simple_ops_length _) Espl (Hcur _) Hok Hc Hn) as Hl.
      destruct (sem (lra_chain lj (agg_lra a) spl) c base) as [rows|]; cbn [option_map].
      + destruct Hl as [-> [Hc1 Hn1]].
        destruct (maybe_bw_inv fp fp_inj (grouping (agg_prefix a) (agg_suffix a)) rows Hc1 Hn1) as [Hc2 Hn2].
        rewrite (agg_stage_ref fp varpop stddevpop (agg_f a) _ rows Hc2), cmp_rows_ref.
        destruct (sem_agg_inv fp varpop stddevpop fp_inj (agg_f a) _ Hc2 Hn2) as [Hc3 Hn3].
        destruct (cmp_rows_inv (agg_cmp a) _ Hc3 Hn3). auto.
      + now rewrite Hl.
    - (* SQuantile *)
      destruct Hok as [Hd Hul]. unfold ref_quant.
      rewrite sem_cmp_opt. cbn [LogqlMetricSem.sem]. rewrite sem_bw_opt.
      rewrite unwrap_label_last in Hul |- *.
      destruct (last_st (sel_pipeline (q_sel q))) as [[| | | | |label|]|] eqn:Elast; try congruence.
      destruct (plan_spl_unwrap _ _ _ _ _ _ _ _ _ label (simple_ops_length _) Espl (Hcur _) Elast) as [spl' [-> Hnm']].
      destruct (sem_nmh c base spl' Hnm') as [rows0 [E0 S0]].
      cbn [LogqlMetricSem.sem]. rewrite E0. cbn [option_map].
      pose proof (shape_consistent _ _ S0 Hc) as Hc0. pose proof (shape_nonneg _ _ S0 Hn) as Hn0.
      rewrite <- (shape_entries _ _ S0).
      set (g := grouping (q_prefix q) (q_suffix q)).
      set (rows1 := maybe_bw fp g (sem_unwrap to_float label rows0)).
      assert (Hinv : consistent rows1 /\ nonneg rows1).
      { apply (maybe_bw_inv fp fp_inj).
        - eapply shape_consistent; [apply sem_unwrap_shape|exact Hc0].
        - eapply shape_nonneg; [apply sem_unwrap_shape|exact Hn0]. }
      destruct Hinv as [Hc1 Hn1].
      rewrite <- (maybe_bw_u fp to_float g rows0 label). fold rows1.
      rewrite (quantile_stage quantile_o (q_param q) (q_dur_ns q) rows1 Hc1 Hn1 Hd), cmp_rows_ref.
      destruct (sem_quantile_inv fp quantile_o fp_inj (q_param q) (q_dur_ns q) rows1 Hc1 Hn1 Hd) as [Hc2 Hn2].
      destruct (cmp_rows_inv (q_cmp q) _ Hc2 Hn2). auto.
  Qed.

  Theorem metric_correct c base s fin p :
    analyze_m15 s = false -> plan_metric s fin = Some p -> script_ok s ->
    0 < c_step_ns c -> consistent base -> nonneg base ->
    option_map (map strip) (sem p c base) = mref s c (map entry_of base).
  Proof.
    intros Ha Hp Hok Hs Hc Hn. rewrite (plan_metric_unfold s fin Ha) in Hp.
    destruct (spl_of s) as [spl|] eqn:Espl; [|discriminate].
    rewrite (apply_chain _ _ s spl Hok) in Hp. inversion Hp; subst p; clear Hp.
    rewrite sem_tail, metric_ref_inner. apply finish_step; [exact Hs|].
    now apply inner_correct.
  Qed.

  (* --- topk / bottomk over such a script --- *)
  Definition tk_inner (t : topk) : script :=
    match tk_arg t with TKLra l => SLra l | TKAgg a => SAgg a | TKQuantile q => SQuantile q end.
  (* per timestamp of the input, the rows kept are topk_group_correct's `kept` of the rows of that timestamp *)
  Definition topk_spec (k : Z) (top : bool) (inp out : list mrow) : Prop :=
    map strip out = map strip (flat_map (fun g => firstn (Z.to_nat k) (sort_by (tk_before top) g)) (group_by same_ts inp)).
  Lemma sem_topk_spec k top inp : topk_spec k top inp (sem_topk k top inp).
  Proof.
    unfold topk_spec, sem_topk. induction (group_by same_ts inp) as [|g r IH]; [reflexivity|].
    cbn [flat_map]. rewrite !map_app, IH, map_map. reflexivity.
  Qed.
  Lemma sem_topk_from k top inp r : In r (sem_topk k top inp) ->
    exists h, In h inp /\ r_fp r = r_fp h /\ r_labels r = r_labels h /\ r_ts r = r_ts h.
  Proof.
    unfold sem_topk. intros Hr. apply in_flat_map in Hr. destruct Hr as [g [Hg Hr]].
    apply in_map_iff in Hr. destruct Hr as [x [<- Hx]]. apply in_firstn_l in Hx.
    apply (proj1 (sort_in (tk_before top) g x)) in Hx. exists x. split; [exact (group_members same_ts inp g x Hg Hx)|]. cbn. auto.
  Qed.

  Theorem topk_correct c base t fin p :
    analyze_m15 (STopK t) = false -> plan_metric (STopK t) fin = Some p -> script_ok (tk_inner t) ->
    0 < c_step_ns c -> consistent base -> nonneg base ->
    match sem p c base with
    | Some out =>
      exists inner kept, inner_ref (tk_inner t) (map entry_of base) = Some (map strip inner) /\
                         topk_spec (tk_len t) (tk_top t) inner kept /\
                         map strip out = ref_step (c_step_ns c) (get_duration (STopK t)) (ref_cmp (tk_cmp t) (map strip kept))
    | None => inner_ref (tk_inner t) (map entry_of base) = None
    end.
  Proof.
    intros Ha Hp Hok Hs Hc Hn. rewrite (plan_metric_unfold (STopK t) fin Ha) in Hp.
    destruct (spl_of (STopK t)) as [spl|] eqn:Espl; [|discriminate].
    assert (Espl' : spl_of (tk_inner t) = Some spl) by (unfold tk_inner, spl_of in *; cbn [stream_selector] in *; destruct (tk_arg t); exact Espl).
    assert (Eord : fst (function_order (STopK t)) = (fst (function_order (tk_inner t)) ++ [MTopK t] ++ fo_cmp (tk_cmp t))%list).
    { unfold tk_inner. cbn [function_order]. destruct (tk_arg t) as [l|a|q]; cbn [function_order];
        [destruct (fo_lra l [] None)|destruct (fo_agg a [] None)|destruct (fo_quantile q [] None)]; reflexivity. }
    rewrite Eord, apply_mfns_app, (apply_chain _ _ (tk_inner t) spl Hok) in Hp.
    cbn [app apply_mfns apply_mfn] in Hp. unfold plan_topk in Hp.
    destruct (Z.ltb (tk_len t) 0); [discriminate|]. rewrite apply_cmp in Hp. inversion Hp; subst p; clear Hp.
    rewrite sem_tail, sem_cmp_opt. cbn [LogqlMetricSem.sem].
    pose proof (inner_correct c base (tk_inner t) spl (lj_of (STopK t)) (is_some (snd (function_order (STopK t)))) Espl' Hok Hc Hn) as Hi.
    destruct (sem (chain _ _ (tk_inner t) spl) c base) as [inner|]; cbn [option_map]; [|exact Hi].
    destruct Hi as [Hi [Hc1 Hn1]].
    exists inner, (sem_topk (tk_len t) (tk_top t) inner). split; [exact Hi|]. split; [apply sem_topk_spec|].
    assert (Hfrom : forall r, In r (sem_topk (tk_len t) (tk_top t) inner) ->
                    exists h, In h inner /\ r_fp r = r_fp h /\ r_labels r = r_labels h /\ r_ts r = r_ts h) by apply sem_topk_from.
    pose proof (consistent_from _ _ Hc1 Hfrom) as Hc2. pose proof (nonneg_from _ _ Hn1 Hfrom) as Hn2.
    destruct (cmp_rows_inv (tk_cmp t) _ Hc2 Hn2) as [Hc3 Hn3].
    rewrite cmp_rows_ref. unfold post_step. symmetry. now apply step_stage.
  Qed.
  (* --- scripts answered from the roll-up table --- *)
  Lemma last_st_in (l : list stage) st : last_st l = Some st -> In st l.
  Proof.
    induction l as [|a r IH]; [discriminate|]. cbn [last_st]. destruct r as [|b r'].
    - intros E. inversion E. now left.
    - intros E. right. now apply IH.
  Qed.
  Lemma m15_no_unwrap l : forallb m15_stage_ok (sel_pipeline (lra_sel l)) = true -> unwrap_label (lra_sel l) = None.
  Proof.
    intros H. rewrite unwrap_label_last. destruct (last_st (sel_pipeline (lra_sel l))) as [st|] eqn:E; [|reflexivity].
    apply last_st_in in E. rewrite forallb_forall in H. apply H in E. destruct st; try reflexivity. discriminate.
  Qed.

  Lemma m15_lra_correct c base fpp l :
    (match lra_f l with FRate | FCountOverTime => true | _ => false end) = true ->
    (exists k, 0 < k /\ lra_dur_ns l = 15000000000 * k) ->
    forallb m15_stage_ok (sel_pipeline (lra_sel l)) = true ->
    consistent base -> nonneg base ->
    exists rows, sem (m15_lra fpp l) c base = Some rows /\
                 ref_lra to_float varpop stddevpop l (map entry_of base) = Some (map strip rows) /\ consistent rows /\ nonneg rows.
  Proof.
    intros Hf [k [Hk Hd]] Hst Hc Hn. unfold m15_lra, ref_lra. rewrite sem_cmp_opt, (m15_no_unwrap l Hst).
    cbn [LogqlMetricSem.sem].
    assert (Hv : exists v, m15_val_of (lra_f l) (lra_dur_ns l) = Some v /\ lra_val_of (lra_f l) (lra_dur_ns l) = Some (m15_as_lra v)).
    { destruct (lra_f l); try discriminate; eexists; split; reflexivity. }
    destruct Hv as [v [Ev El]]. rewrite Ev. cbn [option_map]. unfold sem_m15_rows.
    rewrite Hd in *. rewrite (shortcut_value_correct v k base Hn Hk).
    assert (Hpos : 0 < 15000000000 * k) by lia.
    rewrite (lra_stage _ _ _ base Hc Hn Hpos El), cmp_rows_ref.
    destruct (sem_lra_inv fp fp_inj (m15_as_lra v) _ base Hc Hn Hpos) as [Hc1 Hn1].
    destruct (cmp_rows_inv (lra_cmp l) _ Hc1 Hn1). eauto.
  Qed.

  (* a script answered from metrics_15s: with the lines of the selected streams as base rows, the shortcut plan computes
     the reference too (the stages it does not plan keep every line; the label filters select the streams) *)
  Theorem shortcut_metric_correct c base s fin p :
    analyze_m15 s = true -> plan_metric s fin = Some p ->
    (match s with SLra _ | SAgg _ => True | _ => False end) ->
    0 < c_step_ns c -> consistent base -> nonneg base ->
    option_map (map strip) (sem p c base) = mref s c (map entry_of base).
  Proof.
    intros Ha Hp Hk Hs Hc Hn. pose proof Ha as Ha'. unfold analyze_m15 in Ha'.
    pose proof (analyze_m15_whole_slots s Ha) as Hw.
    unfold plan_metric in Hp. rewrite Ha in Hp. cbv zeta in Hp.
    destruct s as [sel|l|a|t|q|]; try contradiction; cbn [first_lra stream_selector plan_m15 bind] in *.
    - (* SLra *)
      rewrite !andb_true_iff in Ha'. destruct Ha' as [[[Hf _] _] Hst].
      inversion Hp; subst p; clear Hp. cbn [andb negb].
      rewrite (sem_tail c base true), metric_ref_inner. cbn [inner_ref get_duration].
      apply finish_step; [exact Hs|].
      destruct (m15_lra_correct c base (plan_ts (sel_matchers (lra_sel l)) (sel_pipeline (lra_sel l)) (simple_ops (sel_pipeline (lra_sel l)))) l Hf Hw Hst Hc Hn)
        as [rows [-> H]]. exact H.
    - (* SAgg *)
      rewrite !andb_true_iff in Ha'. destruct Ha' as [[[Hf _] _] Hst].
      unfold m15_agg in Hp. cbn [bind] in Hp. inversion Hp; subst p; clear Hp.
      match goal with |- context [PMainFinalizer (if ?b then _ else _) true fin] => rewrite (sem_tail c base b) end.
      rewrite metric_ref_inner. cbn [inner_ref get_duration]. unfold ref_aggop.
      apply finish_step; [exact Hs|].
      rewrite sem_cmp_opt. cbn [LogqlMetricSem.sem]. rewrite sem_bw_opt.
      destruct (m15_lra_correct c base (plan_ts (sel_matchers (lra_sel (agg_lra a))) (sel_pipeline (lra_sel (agg_lra a))) (simple_ops (sel_pipeline (lra_sel (agg_lra a)))))
                  (agg_lra a) Hf Hw Hst Hc Hn) as [rows [-> [-> [Hc1 Hn1]]]].
      cbn [option_map].
      destruct (maybe_bw_inv fp fp_inj (grouping (agg_prefix a) (agg_suffix a)) rows Hc1 Hn1) as [Hc2 Hn2].
      rewrite (agg_stage_ref fp varpop stddevpop (agg_f a) _ rows Hc2), cmp_rows_ref.
      destruct (sem_agg_inv fp varpop stddevpop fp_inj (agg_f a) _ Hc2 Hn2) as [Hc3 Hn3].
      destruct (cmp_rows_inv (agg_cmp a) _ Hc3 Hn3). auto.
  Qed.

  (* --- topk / bottomk over a script answered from the roll-up table --- *)
  Lemma m15_agg_correct c base fpp a :
    (match lra_f (agg_lra a) with FRate | FCountOverTime => true | _ => false end) = true ->
    (exists k, 0 < k /\ lra_dur_ns (agg_lra a) = 15000000000 * k) ->
    forallb m15_stage_ok (sel_pipeline (lra_sel (agg_lra a))) = true ->
    consistent base -> nonneg base ->
    exists rows, sem (fst (m15_agg fpp a)) c base = Some rows /\
                 ref_aggop to_float varpop stddevpop a (map entry_of base) = Some (map strip rows) /\ consistent rows /\ nonneg rows.
  Proof.
    intros Hf Hw Hst Hc Hn. unfold m15_agg. cbn [fst]. unfold ref_aggop.
    rewrite sem_cmp_opt. cbn [LogqlMetricSem.sem]. rewrite sem_bw_opt.
    destruct (m15_lra_correct c base fpp (agg_lra a) Hf Hw Hst Hc Hn) as [rows [-> [-> [Hc1 Hn1]]]].
    cbn [option_map].
    destruct (maybe_bw_inv fp fp_inj (grouping (agg_prefix a) (agg_suffix a)) rows Hc1 Hn1) as [Hc2 Hn2].
    rewrite (agg_stage_ref fp varpop stddevpop (agg_f a) _ rows Hc2), cmp_rows_ref.
    destruct (sem_agg_inv fp varpop stddevpop fp_inj (agg_f a) _ Hc2 Hn2) as [Hc3 Hn3].
    destruct (cmp_rows_inv (agg_cmp a) _ Hc3 Hn3). eauto.
  Qed.

  Theorem topk_shortcut_correct c base t fin p :
    analyze_m15 (STopK t) = true -> plan_metric (STopK t) fin = Some p ->
    0 < c_step_ns c -> consistent base -> nonneg base ->
    exists out inner kept,
      sem p c base = Some out /\
      inner_ref (tk_inner t) (map entry_of base) = Some (map strip inner) /\
      topk_spec (tk_len t) (tk_top t) inner kept /\
      map strip out = ref_step (c_step_ns c) (get_duration (STopK t)) (ref_cmp (tk_cmp t) (map strip kept)).
  Proof.
    intros Ha Hp Hs Hc Hn. pose proof Ha as Ha'. unfold analyze_m15 in Ha'.
    pose proof (analyze_m15_whole_slots (STopK t) Ha) as Hw.
    unfold plan_metric in Hp. rewrite Ha in Hp. cbv zeta in Hp.
    cbn [first_lra stream_selector plan_m15 bind] in *. unfold tk_inner. cbn [get_duration].
    set (fpp := plan_ts _ _ _) in Hp.
    assert (Hinner : exists X wl rows, (match tk_arg t with TKLra l => Some (m15_lra fpp l, false) | TKAgg a => Some (m15_agg fpp a) | TKQuantile _ => None end) = Some (X, wl) /\
              sem X c base = Some rows /\
              inner_ref (match tk_arg t with TKLra l => SLra l | TKAgg a => SAgg a | TKQuantile q => SQuantile q end) (map entry_of base) = Some (map strip rows) /\
              consistent rows /\ nonneg rows).
    { destruct (tk_arg t) as [l|a|q]; [| |discriminate].
      - rewrite !andb_true_iff in Ha'. destruct Ha' as [[[Hf _] _] Hst].
        destruct (m15_lra_correct c base fpp l Hf Hw Hst Hc Hn) as [rows [E1 [E2 [Hc1 Hn1]]]].
        exists (m15_lra fpp l), false, rows. cbn [inner_ref]. auto.
      - rewrite !andb_true_iff in Ha'. destruct Ha' as [[[Hf _] _] Hst].
        destruct (m15_agg_correct c base fpp a Hf Hw Hst Hc Hn) as [rows [E1 [E2 [Hc1 Hn1]]]].
        exists (fst (m15_agg fpp a)), (snd (m15_agg fpp a)), rows. cbn [inner_ref]. rewrite <- surjective_pairing. auto. }
    destruct Hinner as [X [wl [inner [EX [Esem [Eref [Hc1 Hn1]]]]]]]. rewrite EX in Hp.
    unfold plan_topk in Hp. destruct (Z.ltb (tk_len t) 0); [discriminate|]. cbn [bind] in Hp.
    inversion Hp; subst p; clear Hp.
    match goal with |- context [PMainFinalizer (if ?b then _ else _) true fin] => rewrite (sem_tail c base b) end.
    rewrite sem_cmp_opt. cbn [LogqlMetricSem.sem]. rewrite Esem. cbn [option_map].
    eexists. exists inner, (sem_topk (tk_len t) (tk_top t) inner). split; [reflexivity|]. split; [exact Eref|]. split; [apply sem_topk_spec|].
    assert (Hfrom : forall r, In r (sem_topk (tk_len t) (tk_top t) inner) ->
                    exists h, In h inner /\ r_fp r = r_fp h /\ r_labels r = r_labels h /\ r_ts r = r_ts h) by apply sem_topk_from.
    pose proof (consistent_from _ _ Hc1 Hfrom) as Hc2. pose proof (nonneg_from _ _ Hn1 Hfrom) as Hn2.
    destruct (cmp_rows_inv (tk_cmp t) _ Hc2 Hn2) as [Hc3 Hn3].
    rewrite cmp_rows_ref. unfold post_step.
    assert (Ed : (match tk_arg t with TKLra l => lra_dur_ns l | TKAgg a => lra_dur_ns (agg_lra a) | TKQuantile q => q_dur_ns q end)
                 = get_duration (STopK t)) by reflexivity.
    symmetry. now apply step_stage.
  Qed.
End CHAIN.

(* hypotheses of metric_correct are met by a concrete query: sum by (a) (rate({a="b"} | json x="x" [5s]) > 1), step 15 s,
   two streams *)
Definition ex_sel : strsel :=
  {| sel_matchers := [{| m_name := "a"; m_op := MEq; m_val := "b" |}]%string;
     sel_pipeline := [PParser PJson [{| pp_label := "x"; pp_val := "x"; pp_path := Some ["x"] |}]]%string |}.
Definition ex_script : script :=
  SAgg {| agg_f := ASum; agg_prefix := Some {| bw_by := true; bw_labels := ["a"]%string |};
          agg_lra := {| lra_f := FRate; lra_prefix := None; lra_sel := ex_sel; lra_dur_ns := 5000000000; lra_suffix := None;
                        lra_cmp := Some {| cmp_fn := CGt; cmp_val := "1.000000" |} |};
          agg_suffix := None; agg_cmp := None |}.
Definition ex_base : list mrow :=
  [ {| r_fp := 1%N; r_ts := 1700000001000000000; r_labels := [("a","b");("x","1")]%string; r_line := "{""x"":1}"; r_val := qz 0 |};
    {| r_fp := 2%N; r_ts := 1700000002000000000; r_labels := [("a","b");("x","2")]%string; r_line := "{""x"":2}"; r_val := qz 0 |} ].
Example metric_correct_hyp :
  analyze_m15 ex_script = false /\ (exists p, plan_metric ex_script true = Some p) /\ script_ok ex_script /\
  consistent ex_base /\ nonneg ex_base.
Proof.
  split; [reflexivity|]. split; [eexists; reflexivity|]. split; [reflexivity|]. split.
  - intros a b [<-|[<-|[]]] [<-|[<-|[]]]; cbn; split; congruence.
  - intros a [<-|[<-|[]]]; cbn; lia.
Qed.

(* ================= Go post-processors ================= *)
Lemma fix_window_aligned from to d : 0 <= from -> 0 <= to -> 0 < d ->
  fix_from from d mod d = 0 /\ fix_from from d <= from < fix_from from d + d /\
  fix_to to d mod d = 0 /\ to < fix_to to d <= to + d.
Proof.
  intros Hf Ht Hd. unfold fix_from, fix_to. rewrite !quot_div_nonneg by lia.
  pose proof (Z.div_mod from d ltac:(lia)). pose proof (Z.mod_pos_bound from d Hd).
  pose proof (Z.div_mod to d ltac:(lia)). pose proof (Z.mod_pos_bound to d Hd).
  split; [apply Z.mod_mul; lia|]. split; [lia|]. split; [|lia].
  replace (to / d * d + d) with ((to / d + 1) * d) by lia. apply Z.mod_mul; lia.
Qed.
Example fix_window_hyp : 0 <= 1700083884000000000 /\ 0 <= 1700083888000000000 /\ 0 < 7000000000.
Proof. lia. Qed.

Section POSTPROOFS.
  Context {V : Type} (is_zero : V -> bool) (zero : V).

  Lemma zero_eater_spec (bs : list (list (pentry V))) :
    List.concat (zero_eater is_zero bs) = filter (fun e => negb (is_zero (pe_val e))) (List.concat bs) /\
    forall b, In b (zero_eater is_zero bs) -> b <> [].
  Proof.
    unfold zero_eater. split.
    - induction bs as [|b r IH]; [reflexivity|]. cbn [map filter List.concat].
      rewrite filter_app, <- IH.
      destruct (filter (fun e => negb (is_zero (pe_val e))) b) eqn:E; cbn; [reflexivity|reflexivity].
    - intros b Hb. apply filter_In in Hb. destruct Hb as [_ Hb]. destruct b; [discriminate|congruence].
  Qed.

  Lemma fill_length (vals : list V) : forall i lo hi v, List.length (fill vals i lo hi v) = List.length vals.
  Proof. induction vals as [|x r IH]; intros; cbn; [reflexivity|now rewrite IH]. Qed.
  Lemma fix_place_length from step d n (vals : list V) (e : pentry V) : List.length (fix_place from step d n vals e) = List.length vals.
  Proof. unfold fix_place. destruct (_ || _); [reflexivity|apply fill_length]. Qed.

  Lemma zrange_combine_in (vals : list V) : forall s i v, In (i, v) (combine (zrange (List.length vals) s) vals) ->
    s <= i < s + Z.of_nat (List.length vals).
  Proof.
    induction vals as [|x r IH]; intros s i v H; cbn in H; [contradiction|].
    destruct H as [H|H].
    - inversion H; subst. cbn [List.length]. lia.
    - apply IH in H. cbn [List.length]. lia.
  Qed.
  Lemma fix_export_grid from step f (vals : list V) b (e : pentry V) :
    In b (fix_export is_zero from step f vals) -> In e b ->
    exists i, 0 <= i < Z.of_nat (List.length vals) /\ pe_ts e = from + i * step /\ pe_fp e = f /\ is_zero (pe_val e) = false.
  Proof.
    unfold fix_export. set (es := flat_map _ _). intros Hb He.
    assert (Hin : In e es) by (destruct es; [contradiction|destruct Hb as [<-|[]]; exact He]).
    unfold es in Hin. apply in_flat_map in Hin. destruct Hin as [[i v] [Hiv Hx]]. cbn [fst snd] in Hx.
    destruct (is_zero v) eqn:Ez; [contradiction|]. destruct Hx as [<-|[]].
    apply zrange_combine_in in Hiv. exists i. cbn. auto with zarith.
  Qed.

  Lemma fix_run_grid from step d n : forall (es : list (pentry V)) st b (e : pentry V),
    (match st with Some (_, vals) => List.length vals = Z.to_nat n | None => True end) ->
    In b (fix_run is_zero zero from step d n st es) -> In e b ->
    exists i, 0 <= i < Z.of_nat (Z.to_nat n) /\ pe_ts e = from + i * step /\ is_zero (pe_val e) = false.
  Proof.
    induction es as [|x r IH]; intros st b e Hst Hb He; cbn [fix_run] in Hb.
    - destruct st as [[f vals]|]; [|contradiction].
      destruct (fix_export_grid _ _ _ _ _ _ Hb He) as [i [Hi [Ht [_ Hz]]]]. rewrite Hst in Hi. eauto.
    - destruct st as [[f vals]|].
      + destruct (N.eqb (pe_fp x) f).
        * eapply IH; [|exact Hb|exact He]. cbn. now rewrite fix_place_length.
        * apply in_app_or in Hb. destruct Hb as [Hb|Hb].
          -- destruct (fix_export_grid _ _ _ _ _ _ Hb He) as [i [Hi [Ht [_ Hz]]]]. rewrite Hst in Hi. eauto.
          -- eapply IH; [|exact Hb|exact He]. cbn. now rewrite fix_place_length, repeat_length.
      + eapply IH; [|exact Hb|exact He]. cbn. now rewrite fix_place_length, repeat_length.
  Qed.

  (* every point FixPeriodPlanner reports lies on the step grid from `from`, inside the array, and is not zero *)
  Theorem fix_period_grid from to step d (bs : list (list (pentry V))) b (e : pentry V) :
    In b (fix_period is_zero zero from to step d bs) -> In e b ->
    exists i, 0 <= i < Z.of_nat (Z.to_nat (Z.quot (to - from) step + 1)) /\ pe_ts e = from + i * step /\ is_zero (pe_val e) = false.
  Proof. unfold fix_period. intros Hb He. eapply fix_run_grid; [|exact Hb|exact He]. exact I. Qed.
End POSTPROOFS.


(* hypotheses of shortcut_metric_correct are met: sum by (a) (rate({a="b"} | level="x" |= "" [1m])) *)
Definition ex_short : script :=
  SAgg {| agg_f := ASum; agg_prefix := Some {| bw_by := true; bw_labels := ["a"]%string |};
          agg_lra := {| lra_f := FRate; lra_prefix := None;
                        lra_sel := {| sel_matchers := [{| m_name := "a"; m_op := MEq; m_val := "b" |}]%string;
                                      sel_pipeline := [PLabelFilter (LF (HSimple {| slf_label := "level"; slf_fn := LEq; slf_str := Some "x"; slf_num := None |}) None None);
                                                       PLineFilter LFContains "" None]%string |};
                        lra_dur_ns := 60000000000; lra_suffix := None; lra_cmp := None |};
          agg_suffix := None; agg_cmp := None |}.
Example shortcut_metric_hyp : analyze_m15 ex_short = true /\ exists p, plan_metric ex_short true = Some p.
Proof. split; [reflexivity|eexists; reflexivity]. Qed.

(* ================= every planned stage takes effect (the non-shortcut path) ================= *)
(* what planSpl does with one stage: it wraps the current planner into the planner of the stage, except for a label
   filter flagged simple (before the first parser), which plan_ts applies to the fingerprint selection instead;
   label_format is refused (None), so no stage of a planned pipeline is dropped *)
Definition wraps (st : stage) (cur cur' : planner) : Prop :=
  match st with
  | PLineFilter op v rl => cur' = PLineFilterP op v rl cur
  | PLabelFilter f => cur' = PLabelFilterP f cur
  | PParser fn ps => cur' = PParserP fn ps cur
  | PUnwrap l => cur' = PUnwrapP l cur
  | PDrop ps => cur' = PDropP ps cur
  | PLineFormat t => cur' = PLineFormatP t cur
  | PLabelFormat => False
  end.
Theorem plan_stage_effect st b cur cur' :
  (b = true -> is_label_filter st = true) -> plan_stage st b cur = Some cur' ->
  (is_label_filter st = true /\ b = true /\ cur' = cur) \/ wraps st cur cur'.
Proof.
  intros Hb E. destruct st as [op v rl|f|fn ps|t| |l|ps]; cbn [plan_stage] in E; try discriminate.
  - right. inversion E. reflexivity.
  - destruct b; inversion E; [left; auto|right; reflexivity].
  - right. inversion E. reflexivity.
  - right. inversion E. reflexivity. (* line_format *)
  - right. inversion E. reflexivity.
  - destruct b; [specialize (Hb eq_refl); discriminate|]. right. inversion E. reflexivity.
Qed.
Lemma simple_ops_label_filters ppl : forall st b, In (st, b) (combine ppl (simple_ops ppl)) -> b = true -> is_label_filter st = true.
Proof.
  induction ppl as [|s r IH]; intros st b H Hb; cbn [simple_ops] in H; [contradiction|].
  destruct (is_relabel s).
  - subst b. change (map (fun _ : stage => false) (s :: r)) with (false :: map (fun _ : stage => false) r) in H.
    cbn [combine] in H. destruct H as [H|H]; [inversion H|].
    exfalso. clear IH. induction r as [|x r IHr]; cbn in H; [contradiction|]. destruct H as [H|H]; [inversion H|auto].
  - cbn [combine] in H. destruct H as [H|H]; [inversion H; subst; assumption|]. now apply (IH st b).
Qed.
Lemma plan_ts_flagged : forall ppl simple (fp0 : planner),
  fp_label_filters (fold_left (fun fp sb => match fst sb, snd sb with
                                            | PLabelFilter f, true => PSimpleLabelFilter f fp
                                            | _, _ => fp end) (combine ppl simple) fp0)
  = (fp_label_filters fp0 ++ flat_map (fun sb => match fst sb, snd sb with PLabelFilter f, true => [f] | _, _ => [] end) (combine ppl simple))%list.
Proof.
  induction ppl as [|st r IH]; intros simple fp0; [cbn; now rewrite app_nil_r|].
  destruct simple as [|b bs]; [cbn; now rewrite app_nil_r|]. cbn [combine fold_left flat_map fst snd].
  rewrite IH. destruct st; try reflexivity. destruct b; [|reflexivity]. cbn [fp_label_filters]. now rewrite <- app_assoc.
Qed.
(* the label filters flagged simple are exactly those applied to the fingerprint selection *)
Theorem simple_filters_applied ms ppl :
  fp_label_filters (plan_ts ms ppl (simple_ops ppl)) =
  flat_map (fun sb => match fst sb, snd sb with PLabelFilter f, true => [f] | _, _ => [] end) (combine ppl (simple_ops ppl)).
Proof. unfold plan_ts. now rewrite plan_ts_flagged. Qed.

(* hypotheses of topk_correct / topk_shortcut_correct are met: topk(2, sum by (a) (rate({a="b"} | json x="x" [5s]) > 1)) on the
   regular path, bottomk(1, sum by (a) (rate({a="b"} | level="x" |= "" [1m]))) on the roll-up path *)
Definition ex_topk : topk :=
  {| tk_top := true; tk_len := 2; tk_arg := match ex_script with SAgg a => TKAgg a | _ => TKQuantile {| q_param := ""; q_prefix := None; q_sel := ex_sel; q_dur_ns := 1; q_suffix := None; q_cmp := None |} end; tk_cmp := None |}.
Definition ex_topk_short : topk :=
  {| tk_top := false; tk_len := 1; tk_arg := match ex_short with SAgg a => TKAgg a | _ => TKQuantile {| q_param := ""; q_prefix := None; q_sel := ex_sel; q_dur_ns := 1; q_suffix := None; q_cmp := None |} end; tk_cmp := None |}.
Example topk_hyp :
  analyze_m15 (STopK ex_topk) = false /\ (exists p, plan_metric (STopK ex_topk) true = Some p) /\ script_ok (tk_inner ex_topk) /\
  analyze_m15 (STopK ex_topk_short) = true /\ (exists p, plan_metric (STopK ex_topk_short) true = Some p).
Proof.
  split; [reflexivity|]. split; [eexists; reflexivity|]. split; [cbv; reflexivity|]. split; [reflexivity|eexists; reflexivity].
Qed.
