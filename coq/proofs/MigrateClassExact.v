(* C18 -- the classification `guarded` is exact: a statement outside the guarded classes that exec_ch accepts on a
   catalogue without duplicate names is REJECTED when sent once more right afterwards.  So a statement is
   re-executable wherever it is accepted iff it is guarded, and a failing `scripts_guarded` obligation always comes
   with a concrete non-re-executable statement (never a false alarm of the classification). *)
From Coq Require Import List String NArith ZArith Bool Arith Lia.
From Qryn Require Import model.Migrate proofs.MigrateProofs proofs.MigrateClusterProofs proofs.MigrateClassProofs.
Import ListNotations.
Open Scope nat_scope.

Lemma is_prefix_trans : forall a b c, is_prefix a b = true -> is_prefix b c = true -> is_prefix a c = true.
Proof.
  induction a as [|x a IH]; intros [|y b] [|z c] H1 H2; cbn in *; try reflexivity; try discriminate.
  apply andb_true_iff in H1. destruct H1 as [E1 H1]. apply andb_true_iff in H2. destruct H2 as [E2 H2].
  apply String.eqb_eq in E1, E2. subst. rewrite String.eqb_refl. cbn. eapply IH; eauto.
Qed.
Lemma is_prefix_antisym : forall a b, is_prefix a b = true -> is_prefix b a = true -> a = b.
Proof.
  induction a as [|x a IH]; intros [|y b] H1 H2; cbn in *; try reflexivity; try discriminate.
  apply andb_true_iff in H1. destruct H1 as [E1 H1]. apply andb_true_iff in H2. destruct H2 as [_ H2].
  apply String.eqb_eq in E1. subst. f_equal. now apply IH.
Qed.

(* columns only grow, every ADDed column is there afterwards (no assumption on the keys) *)
Lemma alter_cols : forall cmds o f o' f', fold_left alter_step cmds (Some (o, f)) = Some (o', f') ->
  mem_incl (o_cols o) (o_cols o') /\
  Forall (fun c => match c with AddColumn _ col _ => mem col (o_cols o') = true | _ => True end) cmds /\
  is_prefix (o_okey o) (o_okey o') = true /\
  Forall (fun K => is_prefix K (o_okey o') = true) (alter_keys cmds).
Proof.
  induction cmds as [|c r IH]; intros o f o' f' H.
  - cbn in H. inversion H; subst. cbn. split; [intros x Hx; exact Hx|]. split; [constructor|]. split; [apply is_prefix_refl|constructor].
  - cbn [fold_left] in H.
    destruct (alter_step (Some (o, f)) c) as [[o1 f1]|] eqn:E; [|rewrite alter_none in H; discriminate].
    destruct (IH _ _ _ _ H) as (Hi & Ha & Hp & Hk).
    destruct c as [ine col alias|key]; cbn [alter_step] in E.
    + assert (Ho1 : mem_incl (o_cols o) (o_cols o1) /\ mem col (o_cols o1) = true /\ o_okey o1 = o_okey o).
      { destruct (mem col (o_cols o)) eqn:M.
        - destruct ine; inversion E; subst. split; [intros x Hx; exact Hx|auto].
        - destruct (String.eqb alias "" || mem alias (o_cols o)); inversion E; subst. cbn.
          split; [intros x Hx; now apply mem_app_l|]. split; [apply mem_app_r|reflexivity]. }
      destruct Ho1 as (Hi1 & Hc1 & Hk1).
      split; [intros x Hx; apply Hi, Hi1, Hx|]. split; [constructor; [apply Hi, Hc1|exact Ha]|].
      cbn [alter_keys]. rewrite <- Hk1. auto.
    + destruct (is_prefix (o_okey o) key) eqn:P; cbn [andb] in E; [|discriminate].
      destruct (forallb (fun x => mem x f) (skipn (List.length (o_okey o)) key)); inversion E; subst.
      cbn [o_cols o_okey] in Hi, Hp. split; [exact Hi|]. split; [constructor; [exact I|exact Ha]|].
      split; [exact (is_prefix_trans _ _ _ P Hp)|]. cbn [alter_keys]. constructor; [exact Hp|exact Hk].
Qed.

(* sent once more on its own result, an accepted ALTER either is the guarded no-op or is rejected *)
Lemma alter_second_run : forall cmds o f r,
  Forall (fun c => match c with AddColumn _ col _ => mem col (o_cols o) = true | _ => True end) cmds ->
  Forall (fun K => is_prefix K (o_okey o) = true) (alter_keys cmds) ->
  fold_left alter_step cmds (Some (o, f)) = Some r ->
  forallb cmd_guarded cmds = true /\ Forall (fun K => K = o_okey o) (alter_keys cmds).
Proof.
  induction cmds as [|c rest IH]; intros o f r HA HK H; [cbn; auto|].
  inversion HA as [|? ? Hc HA']; subst. cbn [fold_left] in H.
  destruct c as [ine col alias|key]; cbn [alter_step] in H.
  - rewrite Hc in H. destruct ine; [|rewrite alter_none in H; discriminate].
    cbn [alter_keys] in HK. destruct (IH _ _ _ HA' HK H) as [G Hs]. cbn. auto.
  - cbn [alter_keys] in HK. inversion HK as [|? ? Hk1 HK']; subst.
    destruct (is_prefix (o_okey o) key) eqn:P; cbn [andb] in H; [|rewrite alter_none in H; discriminate].
    pose proof (is_prefix_antisym _ _ Hk1 P) as ->.
    destruct (forallb (fun x => mem x f) (skipn (List.length (o_okey o)) (o_okey o))); [|rewrite alter_none in H; discriminate].
    assert (Eo : {| o_kind := o_kind o; o_engine := o_engine o; o_repl := o_repl o; o_cols := o_cols o; o_okey := o_okey o;
                    o_to := o_to o; o_def := o_def o |} = o) by (destruct o; reflexivity).
    rewrite Eo in H. destruct (IH _ _ _ HA' HK' H) as [G Hs]. cbn [forallb cmd_guarded alter_keys andb]. auto.
Qed.

Lemma same_keys_of_const K ks : Forall (fun k => k = K) ks -> same_keys ks = true.
Proof.
  intros H. destruct ks as [|k r]; [reflexivity|]. inversion H as [|? ? Hk Hr]; subst. cbn.
  induction r as [|x r IH]; [reflexivity|]. inversion Hr; subst. cbn.
  rewrite (list_eqb_refl _ String.eqb_refl). cbn. now apply IH.
Qed.

Lemma alter_unguarded_fails cmds o o' f' :
  forallb cmd_guarded cmds && same_keys (alter_keys cmds) = false ->
  fold_left alter_step cmds (Some (o, [])) = Some (o', f') ->
  fold_left alter_step cmds (Some (o', [])) = None.
Proof.
  intros HG H. destruct (alter_cols _ _ _ _ _ H) as (_ & Ha & _ & Hk).
  destruct (fold_left alter_step cmds (Some (o', []))) as [r|] eqn:E; [|reflexivity].
  destruct (alter_second_run _ _ _ _ Ha Hk E) as [G Hs].
  rewrite G, (same_keys_of_const _ _ Hs) in HG. discriminate.
Qed.

Theorem unguarded_rejected_on_resend (cloud : bool) s c c1 :
  wf c -> guarded s = false -> exec_ch cloud s c = Some c1 -> exec_ch cloud s c1 = None.
Proof.
  unfold wf. intros Hwf HG.
  destruct s as [ine n cols okey e r|ine n srcs def|ine n to srcs def|ie n|ie a b|n cmds|n key|]; cbn [guarded] in HG; try subst; unfold exec_ch.
  - destruct (has n (c_objs c)) eqn:H; [discriminate|]. intros E; inversion E; subst. cbn [c_objs]. now rewrite has_insert_same.
  - destruct (has n (c_objs c)) eqn:H; [discriminate|].
    destruct (forallb (fun s => has s (c_objs c)) srcs); intros E; inversion E; subst. cbn [c_objs]. now rewrite has_insert_same.
  - destruct (has n (c_objs c)) eqn:H; [discriminate|].
    destruct (has to (c_objs c) && forallb (fun s => has s (c_objs c)) srcs); intros E; inversion E; subst. cbn [c_objs]. now rewrite has_insert_same.
  - destruct (has n (c_objs c)) eqn:H; [|discriminate]. intros E; inversion E; subst. cbn [c_objs].
    assert (Hn : has n (remove n (c_objs c)) = false) by (apply has_false, lookup_remove_same, Hwf). now rewrite Hn.
  - destruct (lookup a (c_objs c)) as [o|] eqn:La; [|discriminate].
    destruct (has b (c_objs c)) eqn:Hb; [discriminate|]. intros E; inversion E; subst. cbn [c_objs].
    assert (Hab : a <> b). { intros ->. unfold has in Hb. rewrite La in Hb. discriminate. }
    now rewrite (lookup_insert_other a b o _ Hab), (lookup_remove_same a _ Hwf).
  - destruct (lookup n (c_objs c)) as [o|] eqn:L; [|discriminate].
    destruct (fold_left alter_step cmds (Some (o, []))) as [[o' f']|] eqn:F; [|discriminate].
    intros E; inversion E; subst. cbn [c_objs]. unfold replace.
    pose proof (lookup_remove_same n _ Hwf) as Hrm.
    now rewrite (lookup_insert_same n o' _ Hrm), (alter_unguarded_fails _ _ _ _ HG F).
  - discriminate.
  - discriminate.
Qed.

(* guarded is exactly "re-executable wherever accepted" *)
Corollary guarded_exact (cloud : bool) s c c1 : wf c -> exec_ch cloud s c = Some c1 ->
  (guarded s = true <-> exec_ch cloud s c1 = Some c1).
Proof.
  intros W E. split; [intros G; exact (guarded_idem cloud s c c1 W G E)|].
  intros E1. destruct (guarded s) eqn:G; [reflexivity|]. rewrite (unguarded_rejected_on_resend cloud s c c1 W G E) in E1. discriminate.
Qed.
