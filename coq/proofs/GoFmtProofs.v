From Coq Require Import List String Ascii Bool NArith Lia.
From Qryn Require Import model.Quote model.ChLex.
From Qryn Require Import model.GoFmt.
Import ListNotations.
Open Scope string_scope.

Lemma fmt_verb_free_text_gen : forall t args, pct_free t = true -> fmt_go t args = Some (t ++ extra args).
Proof.
  induction t as [|c r IH]; intros args H; cbn in *.
  - reflexivity.
  - apply andb_true_iff in H. destruct H as [Hc Hr].
    destruct (is_pct c); [discriminate|]. rewrite (IH args Hr). reflexivity.
Qed.

(* a format without a percent sign is printed as it stands (no operands left over) *)
Lemma fmt_verb_free_text : forall t, pct_free t = true -> fmt_go t [] = Some t.
Proof.
  intros t H. rewrite fmt_verb_free_text_gen by exact H. cbn. f_equal.
  clear H. induction t as [|c r IH]; cbn; [reflexivity|]. rewrite IH. reflexivity.
Qed.

Lemma fmt_app_text : forall t f args, pct_free t = true ->
  fmt_go (t ++ f) args = option_map (fun o => t ++ o) (fmt_go f args).
Proof.
  induction t as [|c r IH]; intros f args H; cbn in *.
  - destruct (fmt_go f args); reflexivity.
  - apply andb_true_iff in H. destruct H as [Hc Hr].
    destruct (is_pct c); [discriminate|]. rewrite (IH f args Hr).
    destruct (fmt_go f args); reflexivity.
Qed.

(* text, then %s: the text, the operand, and the rest of the format over the remaining operands *)
Lemma fmt_text_then_s : forall t f a args, pct_free t = true ->
  fmt_go (t ++ "%s" ++ f) (a :: args) = option_map (fun o => t ++ a ++ o) (fmt_go f args).
Proof.
  intros t f a args H. rewrite fmt_app_text by exact H. cbn.
  destruct (fmt_go f args); reflexivity.
Qed.

Lemma forallb_tl : forall (A : Type) (p : A -> bool) a l, forallb p (a :: l) = true -> p a = true /\ forallb p l = true.
Proof. intros A p a l H. cbn in H. apply andb_true_iff in H. exact H. Qed.

(* the census's reading of a constant format: texts without a percent sign, %s between them, as many operands as verbs *)
Lemma fmt_constant_format : forall texts args,
  forallb pct_free texts = true -> S (List.length args) = List.length texts ->
  fmt_go (mkformat texts) args = Some (interleave texts args).
Proof.
  induction texts as [|t ts IH]; intros args Hp Hl.
  - cbn in Hl. discriminate.
  - destruct (forallb_tl _ _ _ _ Hp) as [Ht Hts].
    destruct ts as [|t2 ts2].
    + destruct args; [|cbn in Hl; discriminate]. cbn [mkformat interleave].
      apply fmt_verb_free_text. exact Ht.
    + destruct args as [|a r]; [cbn in Hl; discriminate|].
      change (mkformat (t :: t2 :: ts2)) with (t ++ "%s" ++ mkformat (t2 :: ts2)).
      change (interleave (t :: t2 :: ts2) (a :: r)) with (t ++ a ++ interleave (t2 :: ts2) r).
      rewrite fmt_text_then_s by exact Ht.
      rewrite (IH r Hts) by (cbn in Hl |- *; lia). reflexivity.
Qed.

(* the escaper copies a percent sign: a quoted value is not a verb-free text *)
Lemma quote_keeps_percent : quote_seq "%" = "'%'".
Proof. reflexivity. Qed.

(* seeded change C10-e, in the model: the JOIN clause printed with the rendered sub-select as part of the FORMAT.  For the value %'
   the escaper writes '%\'' ; package fmt reads %\ as a verb without operand: the backslash is gone, the quote closes the literal, the
   closing quote opens another one that never ends *)
Definition join_as_format (tp rendered : string) : option string := fmt_go (" %s JOIN " ++ rendered) [tp].
Definition join_as_text (tp rendered : string) : string := " " ++ tp ++ " JOIN " ++ rendered.

Lemma join_format_witness :
  join_as_format "INNER ANY" ("(SELECT 1 WHERE val == " ++ quote_seq "%'" ++ ")")
  = Some " INNER ANY JOIN (SELECT 1 WHERE val == '%!\(MISSING)'')".
Proof. vm_compute. reflexivity. Qed.

Lemma rendered_text_as_format_refuted :
  exists v out,
    join_as_format "INNER ANY" ("(SELECT 1 WHERE val == " ++ quote_seq v ++ ")") = Some out /\
    has_err (lex out) = true /\
    has_err (lex (join_as_text "INNER ANY" ("(SELECT 1 WHERE val == " ++ quote_seq v ++ ")"))) = false.
Proof.
  exists "%'". eexists. split; [exact join_format_witness|]. split; vm_compute; reflexivity.
Qed.

(* the literal's MEANING changes even when the statement still lexes: %% loses a byte, a verb eats the operand *)
Lemma rendered_text_as_format_changes_values :
  join_as_format "INNER ANY" (quote_seq "50%%off") = Some (" INNER ANY JOIN " ++ quote_seq "50%off") /\
  join_as_format "INNER ANY" (quote_seq "a%sb") = Some (" INNER ANY JOIN " ++ quote_seq "a%!s(MISSING)b").
Proof. split; vm_compute; reflexivity. Qed.

(* written as text (the code as it stands), the clause is the type, the keyword and the rendered select, whatever bytes it holds;
   as a format it is that only for verb-free rendered text *)
Lemma join_format_safe_only_without_percent : forall tp r, pct_free tp = true -> pct_free r = true ->
  join_as_format tp r = Some (join_as_text tp r).
Proof.
  intros tp r Htp Hr. unfold join_as_format, join_as_text.
  change (" %s JOIN " ++ r) with (" " ++ "%s" ++ (" JOIN " ++ r)).
  rewrite fmt_text_then_s by reflexivity.
  rewrite fmt_verb_free_text.
  - reflexivity.
  - cbn. exact Hr.
Qed.

Example constant_format_example :
  fmt_go (mkformat ["match("; ", "; ")"]) ["val"; "'x'"] = Some "match(val, 'x')".
Proof. reflexivity. Qed.
