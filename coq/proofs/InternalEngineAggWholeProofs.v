(* C09: the aggregation stage as a whole.  For a stream of data rows and io.EOF entries (the entry that ends every
   ClickHouse result; anywhere in the stream, any batching), of at most 2000 series, the stage does not fail and what it
   sends is a permutation of what the reference sem_agg defines for the data rows, as ONE list (the order between series
   is the ascending fingerprint in Go's output and the first appearance in the reference: unspecified, hence a
   permutation; inside a series both orders are the bucket order).  Fingerprints are compared up to `erase`: the
   statement needs no link between the incoming fingerprints and hash.go, only that the upstream gives one
   fingerprint to one label set (what ClickHouse delivers, and what the parser / by-without stages establish).         *)
From Coq Require Import List ZArith NArith Bool String Ascii Permutation Lia.
From Qryn Require Import model.InternalEngine proofs.InternalEngineProofs proofs.InternalEngineAggProofs.
Import ListNotations.
Open Scope Z_scope.

(* label-set equality is decided by lbls_eqb *)
Lemma pair_eqb_eq a b : pair_eqb a b = true <-> a = b.
Proof.
  destruct a as [a1 a2], b as [b1 b2]. unfold pair_eqb. cbn [fst snd]. rewrite andb_true_iff, !String.eqb_eq.
  split; [intros [-> ->]; reflexivity|intros H; inversion H; auto].
Qed.
Lemma lbls_eqb_eq : forall a b, lbls_eqb a b = true <-> a = b.
Proof.
  induction a as [|x r IH]; intros [|y r']; cbn [lbls_eqb]; try (split; [discriminate|discriminate]); [tauto|].
  rewrite andb_true_iff, pair_eqb_eq, IH. split; [intros [-> ->]; reflexivity|intros H; inversion H; auto].
Qed.
Lemma lbls_eqb_refl a : lbls_eqb a a = true.
Proof. now apply lbls_eqb_eq. Qed.

Section AGGWHOLE.
  Variable V : Type.
  Variables (v0 v1 : V) (vadd vdiv : V -> V -> V) (vltb vleb veqb : V -> V -> bool) (vofZ : Z -> V).
  Variable panic_kills : bool.
  Variable re_match : string -> string -> bool.
  Variable pfloat : string -> option V.
  Variable parse : N -> string -> option lbls.
  Variable tmpl : N -> lbls -> option string.
  Notation entry := (entry V).
  Notation proj := (proj V).
  Notation lbl_of := (lbl_of V).
  Notation erase := (erase V).
  Notation data_of := (data_of V).
  Notation agg_ops := (agg_ops V v0 v1 vadd vdiv vltb veqb vofZ).
  Notation agg_on_entry := (agg_on_entry V v0 v1 vadd vltb veqb vofZ).
  Notation cells_inv := (cells_inv V v0 v1 vadd vltb veqb vofZ).
  Notation series_out := (series_out V v0 v1 vadd vdiv vltb veqb vofZ).
  Notation in_window := (in_window V).
  Notation skeys := (skeys V).

  (* ---------------------------------------------------------------------------------------------------------- *)
  (* distinct_lbls: the label sets of a list, each once, in order of first appearance                              *)
  Notation distinct_lbls := (distinct_lbls V).

  Lemma existsb_lbls m seen : existsb (lbls_eqb m) seen = true <-> In m seen.
  Proof.
    rewrite existsb_exists. split.
    - intros [x [Hx E]]. apply lbls_eqb_eq in E. now subst.
    - intros H. exists m. split; [exact H|apply lbls_eqb_refl].
  Qed.

  Lemma distinct_in : forall (l : list entry) seen m,
    In m (distinct_lbls l seen) <-> In m seen \/ exists e, In e l /\ lbl_of e = m.
  Proof.
    induction l as [|e r IH]; intros seen m; cbn [InternalEngine.distinct_lbls].
    - rewrite <- in_rev. split; [tauto|]. intros [H|[e [[] _]]]. exact H.
    - destruct (existsb (lbls_eqb (lbl_of e)) seen) eqn:E; rewrite IH.
      + apply existsb_lbls in E. split.
        * intros [H|[x [Hx Hm]]]; [now left|right; exists x; split; [now right|exact Hm]].
        * intros [H|[x [[<-|Hx] Hm]]]; [now left|left; now subst|right; now exists x].
      + split.
        * intros [[<-|H]|[x [Hx Hm]]]; [right; exists e; split; [now left|reflexivity]|now left|right; exists x; split; [now right|exact Hm]].
        * intros [H|[x [[<-|Hx] Hm]]]; [left; now right|left; now left|right; now exists x].
  Qed.

  Lemma distinct_nodup : forall (l : list entry) seen, NoDup seen -> NoDup (distinct_lbls l seen).
  Proof.
    induction l as [|e r IH]; intros seen Hs; cbn [InternalEngine.distinct_lbls].
    - apply NoDup_rev. exact Hs.
    - destruct (existsb (lbls_eqb (lbl_of e)) seen) eqn:E; apply IH; [exact Hs|].
      constructor; [|exact Hs]. intros Hin. apply existsb_lbls in Hin. congruence.
  Qed.

  (* ---------------------------------------------------------------------------------------------------------- *)
  (* io.EOF entries inside the stream change nothing                                                               *)
  Definition row_or_eof (c : ctx) (dur : Z) (e : entry) : Prop :=
    (e_err V e = ENone /\ in_window c dur e) \/ e_err V e = EEof.
  Definition agg_stream_ok (c : ctx) (dur : Z) (l : list entry) : Prop := Forall (row_or_eof c dur) l.

  Lemma agg_entry_same k c dur ss e ss' e' : agg_on_entry k c dur ss e = Ok (ss', e') -> e' = e.
  Proof.
    unfold InternalEngine.agg_on_entry. destruct (e_err V e); try discriminate; [|intros H; now inversion H].
    destruct (match streams_find V ss (e_fp V e) with Some s => Ok s | None => _ end) as [s|x]; [|discriminate].
    destruct (agg_add V v0 v1 vadd vltb veqb vofZ k c dur e (s_values V s)); [|discriminate]. intros H. now inversion H.
  Qed.

  Lemma fold_skips_eof k c dur : forall l ss, agg_stream_ok c dur l ->
    fold_entries V (agg_ops k c dur) ss l =
    match fold_entries V (agg_ops k c dur) ss (data_of l) with Ok (ss', _) => Ok (ss', l) | Fail x => Fail x end.
  Proof.
    induction l as [|e r IH]; intros ss Hok; [reflexivity|]. inversion Hok as [|? ? He Hr]; subst.
    unfold InternalEngine.data_of. cbn [fold_entries filter]. fold (data_of r). destruct He as [[He _]|He].
    - rewrite He. cbn [errk_eqb fold_entries]. cbn [on_entry InternalEngine.agg_ops].
      destruct (agg_on_entry k c dur ss e) as [[s1 e1]|x] eqn:E1; [|reflexivity].
      rewrite (agg_entry_same _ _ _ _ _ _ _ E1). rewrite (IH s1 Hr).
      destruct (fold_entries V (agg_ops k c dur) s1 (data_of r)) as [[s2 r2]|x]; reflexivity.
    - rewrite He. cbn [errk_eqb]. cbn [on_entry InternalEngine.agg_ops]. unfold InternalEngine.agg_on_entry. rewrite He.
      rewrite (IH ss Hr). destruct (fold_entries V (agg_ops k c dur) ss (data_of r)) as [[s2 r2]|x]; reflexivity.
  Qed.

  Lemma data_of_stream_ok c dur l : agg_stream_ok c dur l -> agg_input_ok V c dur (data_of l).
  Proof.
    unfold agg_stream_ok, agg_input_ok, InternalEngine.data_of. induction 1 as [|e r He _ IH]; cbn [filter]; [constructor|].
    destruct He as [[He Hw]|He]; rewrite He; cbn [errk_eqb]; [constructor; [split; assumption|exact IH]|exact IH].
  Qed.

  (* ---------------------------------------------------------------------------------------------------------- *)
  (* the stage does not fail when the rows are in the window and there are at most 2000 series                     *)
  Definition fps (l : list entry) : list N := nodup N.eq_dec (map (e_fp V) l).

  Lemma skeys_nodup : forall ss lo, skeys lo ss -> NoDup (map fst ss).
  Proof.
    induction ss as [|[f s] r IH]; intros lo H; cbn [map]; [constructor|]. cbn [InternalEngineProofs.skeys] in H.
    destruct H as [_ H]. constructor; [|exact (IH _ H)]. cbn [fst]. intros Hin. apply in_map_iff in Hin.
    destruct Hin as [[g s'] [Eg Hin]]. cbn [fst] in Eg. subst g.
    pose proof (skeys_lower V r f H f s' Hin). lia.
  Qed.

  Lemma find_some_in : forall (ss : streams V) f s, streams_find V ss f = Some s -> In (f, s) ss.
  Proof.
    induction ss as [|[g s'] r IH]; intros f s H; [discriminate|]. cbn [streams_find] in H.
    destruct (N.eqb_spec f g) as [->|_]; [inversion H; now left|right; now apply IH].
  Qed.

  Lemma proj_in f (l : list entry) e rest : proj f l = e :: rest -> In e l /\ e_fp V e = f.
  Proof.
    intros P. assert (Hi : In e (proj f l)) by (rewrite P; now left). unfold InternalEngineProofs.proj in Hi.
    apply filter_In in Hi. destruct Hi as [Hi E]. apply N.eqb_eq in E. auto.
  Qed.

  Lemma in_proj f (l : list entry) e : In e l -> e_fp V e = f -> proj f l <> [].
  Proof.
    intros Hi E P. assert (H : In e (proj f l)) by (unfold InternalEngineProofs.proj; apply filter_In; split; [exact Hi|now apply N.eqb_eq]).
    rewrite P in H. destruct H.
  Qed.

  Lemma step_ok k c dur ss seen e :
    agg_covered k = true -> e_err V e = ENone -> in_window c dur e -> cells_inv k c dur ss seen ->
    (streams_find V ss (e_fp V e) = None -> Z.of_nat (List.length ss) < 2000) ->
    exists ss', agg_on_entry k c dur ss e = Ok (ss', e).
  Proof.
    intros Hk He Hw Inv Hlen. unfold InternalEngine.agg_on_entry. rewrite He.
    pose proof (bucket_in_window V c dur e Hw) as Hb. specialize (Inv (e_fp V e)).
    destruct (streams_find V ss (e_fp V e)) as [s|] eqn:F.
    - destruct Inv as [_ [Len _]]. rewrite (agg_add_in_window V v0 v1 vadd vltb veqb vofZ k c dur e (s_values V s) Hk Hw Len). eexists; reflexivity.
    - specialize (Hlen eq_refl). replace (2000 <=? Z.of_nat (List.length ss)) with false by (symmetry; apply Z.leb_gt; lia).
      assert (Hnew : exists vs, new_values V v0 v1 k c dur = Ok vs /\ Z.of_nat (List.length vs) = 2 * stream_len c dur).
      { unfold new_values. replace (stream_len c dur * 2 <? 0) with false by (symmetry; apply Z.ltb_ge; lia).
        replace (stream_len c dur * 2 =? 0) with false by (symmetry; apply Z.eqb_neq; lia).
        destruct k as [fn|fn|fn]; try (eexists; split; [reflexivity|rewrite repeat_length; lia]).
        destruct fn; eexists; (split; [reflexivity|rewrite repeat_length; lia]). }
      destruct Hnew as [vs [Hn Len]]. rewrite Hn. cbn [s_values s_labels].
      rewrite (agg_add_in_window V v0 v1 vadd vltb veqb vofZ k c dur e vs Hk Hw Len). eexists; reflexivity.
  Qed.

  Lemma keys_seen k c dur ss seen : cells_inv k c dur ss seen -> skeys None ss ->
    incl (map fst ss) (map (e_fp V) seen).
  Proof.
    intros Inv Hk f Hin. apply in_map_iff in Hin. destruct Hin as [[g s] [E Hin]]. cbn [fst] in E. subst g.
    pose proof (skeys_find V ss None f s Hk Hin) as F. specialize (Inv f). rewrite F in Inv.
    destruct Inv as [[e0 [rest [P _]]] _]. destruct (proj_in _ _ _ _ P) as [Hi E]. apply in_map_iff. exists e0. auto.
  Qed.

  Lemma fold_total k c dur : agg_covered k = true -> forall l ss seen,
    agg_input_ok V c dur l -> cells_inv k c dur ss seen -> skeys None ss ->
    (List.length (fps (seen ++ l)) <= 2000)%nat ->
    exists ss', fold_entries V (agg_ops k c dur) ss l = Ok (ss', l).
  Proof.
    intros Hk. induction l as [|e r IH]; intros ss seen Hin Inv Hkeys Hn; [eexists; reflexivity|].
    inversion Hin as [|? ? [He Hw] Hr]; subst. cbn [fold_entries on_entry InternalEngine.agg_ops].
    assert (Hlen : streams_find V ss (e_fp V e) = None -> Z.of_nat (List.length ss) < 2000).
    { intros F. assert (ND : NoDup (e_fp V e :: map fst ss)).
      { constructor; [|exact (skeys_nodup ss None Hkeys)]. intros Hi. apply in_map_iff in Hi. destruct Hi as [[g s] [E Hi]].
        cbn [fst] in E. subst g. rewrite (skeys_find V ss None _ s Hkeys Hi) in F. discriminate. }
      assert (IN : incl (e_fp V e :: map fst ss) (fps (seen ++ e :: r))).
      { intros f [<-|Hf]; unfold fps; apply nodup_In; rewrite map_app; apply in_or_app.
        - right. now left.
        - left. exact (keys_seen k c dur ss seen Inv Hkeys f Hf). }
      pose proof (NoDup_incl_length ND IN) as L. cbn [List.length] in L. rewrite map_length in L. lia. }
    destruct (step_ok k c dur ss seen e Hk He Hw Inv Hlen) as [s1 E1]. rewrite E1.
    destruct (agg_step V v0 v1 vadd vltb veqb vofZ k c dur ss seen e s1 e Hk He Hw Inv E1) as [Inv1 _].
    assert (K1 : skeys None s1).
    { apply (agg_fold_keys V v0 v1 vadd vdiv vltb veqb vofZ k c dur [e] ss s1 [e] Hkeys). cbn [fold_entries on_entry InternalEngine.agg_ops]. now rewrite E1. }
    destruct (IH s1 (seen ++ [e]) Hr Inv1 K1) as [s2 E2]; [now rewrite <- app_assoc|]. rewrite E2. eexists; reflexivity.
  Qed.

  (* ---------------------------------------------------------------------------------------------------------- *)
  (* what the stage sends, as one list: the series in ascending fingerprint                                        *)
  Lemma agg_out_concat k c dur l ss : 0 <= stream_len c dur -> cells_inv k c dur ss l -> skeys None ss ->
    List.concat (agg_on_end V v0 vdiv vltb veqb vofZ k c dur ss) =
    flat_map (fun f => series_out k c dur f (lbl_first V l f) l) (map fst ss).
  Proof.
    intros HN Inv Hkeys. unfold agg_on_end. rewrite concat_filter_nonempty, flat_map_concat_map, map_map. f_equal.
    apply map_ext_in. intros [g s] Hin'. cbn [fst snd].
    pose proof (skeys_find V ss None g s Hkeys Hin') as Fg.
    pose proof (Inv g) as Ig. rewrite Fg in Ig. destruct Ig as [[e0 [rest [Pg _]]] _].
    rewrite (stream_emits V v0 v1 vadd vdiv vltb veqb vofZ k c dur l ss g s e0 rest HN Inv Fg Pg). unfold lbl_first. now rewrite Pg.
  Qed.

  Lemma series_out_data k c dur f lb l : Forall (fun e => e_err V e = ENone) (series_out k c dur f lb l).
  Proof.
    unfold InternalEngineProofs.series_out. apply Forall_forall. intros e He. apply in_flat_map in He. destruct He as [b [_ He]].
    cbv zeta in He. destruct (vltb v0 _); [|destruct He]. destruct He as [<-|[]]. reflexivity.
  Qed.

  (* ---------------------------------------------------------------------------------------------------------- *)
  (* against the reference, as one list                                                                            *)
  Variable fpf : lbls -> N.
  Notation sem_buckets := (sem_buckets V v0 v1 vadd vdiv vltb vofZ).
  Notation sem_agg := (sem_agg V v0 v1 vadd vdiv vltb vofZ fpf).
  Notation run_stage := (run_stage V v0 v1 vadd vdiv vltb vleb veqb vofZ panic_kills fpf re_match pfloat parse tmpl).

  (* the upstream gives one fingerprint to one label set and one label set to one fingerprint *)
  Definition one_fp_per_set (l : list entry) : Prop :=
    forall a b, In a l -> In b l -> (e_fp V a = e_fp V b <-> lbl_of a = lbl_of b).
  (* the fingerprint under which the rows of label set m arrive *)
  Definition fp_of (l : list entry) (m : lbls) : N :=
    match filter (fun e => lbls_eqb (lbl_of e) m) l with e :: _ => e_fp V e | [] => 0%N end.

  Lemma fp_of_spec l e : one_fp_per_set l -> In e l -> fp_of l (lbl_of e) = e_fp V e.
  Proof.
    intros Hid He. unfold fp_of. destruct (filter (fun x => lbls_eqb (lbl_of x) (lbl_of e)) l) as [|e' r] eqn:F.
    - exfalso. assert (Hi : In e (filter (fun x => lbls_eqb (lbl_of x) (lbl_of e)) l)) by (apply filter_In; split; [exact He|apply lbls_eqb_refl]).
      rewrite F in Hi. destruct Hi.
    - assert (Hi : In e' (filter (fun x => lbls_eqb (lbl_of x) (lbl_of e)) l)) by (rewrite F; now left).
      apply filter_In in Hi. destruct Hi as [Hi E]. apply lbls_eqb_eq in E. now apply (Hid e' e Hi He).
  Qed.

  (* the reference's entries do not depend on the fingerprint function, up to the fingerprint *)
  Lemma sem_buckets_erase (g1 g2 : lbls -> N) k c dur m es : forall n i,
    map erase (sem_buckets g1 k c dur m es i n) = map erase (sem_buckets g2 k c dur m es i n).
  Proof.
    induction n as [|n IH]; intros i; [reflexivity|].
    destruct k as [fn|fn|fn]; destruct fn; cbn [InternalEngine.sem_buckets];
      match goal with |- context [match ?x with _ => _ end] => destruct x end; cbn [map]; rewrite ?IH; reflexivity.
  Qed.

  Lemma sem_bucket_value_nil k dur : sem_bucket_value V v0 v1 vadd vdiv vltb vofZ k dur [] = None.
  Proof. reflexivity. Qed.

  (* a further bucket that holds no entry adds nothing (all functions but absent_over_time) *)
  Lemma sem_buckets_extra k c dur m es : agg_specified k = true -> forall n i,
    (forall e, In e es -> bucket_of V c dur e <> i + Z.of_nat n) ->
    sem_buckets fpf k c dur m es i (S n) = sem_buckets fpf k c dur m es i n.
  Proof.
    intros Hk. induction n as [|n IH]; intros i Hb.
    - rewrite (sem_buckets_step V v0 v1 vadd vdiv vltb vofZ fpf k c dur m es i 0 Hk).
      replace (filter (fun e => bucket_of V c dur e =? i) es) with (@nil entry); [reflexivity|].
      symmetry. clear - Hb. induction es as [|e r IHr]; [reflexivity|]. cbn [filter].
      destruct (Z.eqb_spec (bucket_of V c dur e) i) as [E|_].
      + exfalso. apply (Hb e (or_introl eq_refl)). cbn. lia.
      + apply IHr. intros x Hx. apply Hb. now right.
    - rewrite (sem_buckets_step V v0 v1 vadd vdiv vltb vofZ fpf k c dur m es i (S n) Hk).
      rewrite (sem_buckets_step V v0 v1 vadd vdiv vltb vofZ fpf k c dur m es i n Hk).
      rewrite (IH (i + 1)); [reflexivity|]. intros e He. specialize (Hb e He). lia.
  Qed.

  Lemma NoDup_map_inj_in {A B} (g : A -> B) : forall l, NoDup l -> (forall x y, In x l -> In y l -> g x = g y -> x = y) -> NoDup (map g l).
  Proof.
    induction l as [|x r IH]; intros ND Hinj; cbn [map]; [constructor|]. inversion ND as [|? ? Hni ND']; subst. constructor.
    - intros Hi. apply in_map_iff in Hi. destruct Hi as [y [E Hy]]. apply Hni.
      rewrite (Hinj x y (or_introl eq_refl) (or_intror Hy) (eq_sym E)). exact Hy.
    - apply IH; [exact ND'|]. intros a b Ha Hb. apply Hinj; now right.
  Qed.

  Lemma flat_map_map {A B C} (g : A -> B) (F : B -> list C) (l : list A) : flat_map F (map g l) = flat_map (fun x => F (g x)) l.
  Proof. induction l as [|x r IH]; cbn; [reflexivity|]. now rewrite IH. Qed.

  Lemma filter_all {A} (p : A -> bool) (l : list A) : (forall x, In x l -> p x = true) -> filter p l = l.
  Proof. induction l as [|x r IH]; intros H; cbn; [reflexivity|]. rewrite (H x (or_introl eq_refl)), IH; [reflexivity|]. intros y Hy. apply H. now right. Qed.

  Lemma map_erase_flat_map {A} (F G : A -> list entry) (l : list A) :
    (forall x, In x l -> map erase (F x) = map erase (G x)) -> map erase (flat_map F l) = map erase (flat_map G l).
  Proof.
    induction l as [|x r IH]; intros H; cbn [flat_map]; [reflexivity|]. rewrite !map_app, (H x (or_introl eq_refl)), IH; [reflexivity|].
    intros y Hy. apply H. now right.
  Qed.

  (* number of reference buckets against the length of the engine's arrays *)
  Lemma nbuckets_cases c dur : 0 < dur -> 0 <= c_to c - c_from c ->
    (c_to c - c_from c = stream_len c dur * dur /\ sem_nbuckets c dur = Z.to_nat (stream_len c dur)) \/
    (c_to c - c_from c <> stream_len c dur * dur /\ sem_nbuckets c dur = S (Z.to_nat (stream_len c dur))).
  Proof.
    intros Hd HT. unfold sem_nbuckets, stream_len. set (T := c_to c - c_from c) in *.
    rewrite !Z.quot_div_nonneg by lia.
    pose proof (Z.div_mod T dur ltac:(lia)) as DM. pose proof (Z.mod_pos_bound T dur Hd) as MB.
    assert (Hq : 0 <= T / dur) by (apply Z.div_pos; lia).
    destruct (Z.eq_dec (T mod dur) 0) as [E|NE].
    - left. split; [lia|]. f_equal. symmetry. apply (Z.div_unique _ _ _ (dur - 1)); lia.
    - right. split; [lia|]. replace ((T + dur - 1) / dur) with (T / dur + 1); [lia|].
      apply (Z.div_unique _ _ _ (T mod dur - 1)); lia.
  Qed.

  Section FACTS.
    Hypothesis H00 : vltb v0 v0 = false.
    Hypothesis H01 : vltb v0 v1 = true.
    Hypothesis Heq0 : veqb v0 v0 = true.
    Hypothesis Hne1 : veqb v1 v0 = false.
    Hypothesis H0p1 : vltb v0 (vadd v0 v1) = true.
    Hypothesis Hpos : forall x, vltb v0 x = true -> vltb v0 (vadd x v1) = true.
    Hypothesis Hnz : forall x, vltb v0 x = true -> veqb x v0 = false.

    (* one series against the reference, whatever fingerprint it arrives under *)
    Lemma series_erase k c dur m l e' :
      agg_covered k = true -> agg_input_ok V c dur l -> one_fp_per_set l -> In e' l -> lbl_of e' = m ->
      map erase (series_out k c dur (e_fp V e') (Some m) l) =
      map erase (sem_buckets fpf k c dur m (filter (fun e => lbls_eqb (lbl_of e) m) l) 0 (Z.to_nat (stream_len c dur))).
    Proof.
      intros Hk Hin Hid He' Hm.
      rewrite (series_sem_covered V v0 v1 vadd vdiv vltb veqb vofZ (fun _ => e_fp V e') H00 H01 Heq0 Hne1 H0p1 Hpos Hnz
                 k c dur m (e_fp V e') l Hk eq_refl).
      - apply sem_buckets_erase.
      - intros e He. destruct (N.eqb_spec (e_fp V e) (e_fp V e')) as [E|NE].
        + symmetry. apply lbls_eqb_eq. rewrite <- Hm. now apply (Hid e e' He He').
        + destruct (lbls_eqb (lbl_of e) m) eqn:L; [|reflexivity]. exfalso. apply NE. apply lbls_eqb_eq in L.
          apply (Hid e e' He He'). congruence.
      - intros e He. unfold agg_input_ok in Hin. rewrite Forall_forall in Hin. destruct (Hin e He) as [_ Hw].
        pose proof (bucket_in_window V c dur e Hw). lia.
    Qed.

    Lemma agg_whole k c dur bs :
      agg_covered k = true ->
      agg_stream_ok c dur (List.concat bs) ->
      Forall (data_row V) (data_of (List.concat bs)) ->
      one_fp_per_set (data_of (List.concat bs)) ->
      (List.length (fps (data_of (List.concat bs))) <= 2000)%nat ->
      agg_specified k = true \/ c_to c - c_from c = stream_len c dur * dur ->
      exists out,
        List.concat (run_stage c (SAgg V k dur) bs) = out /\ Forall (fun e => e_err V e = ENone) out /\
        Permutation (map erase out) (map erase (sem_agg k c dur (data_of (List.concat bs)))).
    Proof.
      intros Hk Hok Hrows Hid Hn Hdiv. set (rows := data_of (List.concat bs)) in *.
      pose proof (data_of_stream_ok c dur _ Hok) as Hin. fold rows in Hin.
      destruct (fold_total k c dur Hk rows [] [] Hin (cells_inv_nil V v0 v1 vadd vltb veqb vofZ k c dur) I Hn) as [ss Hf].
      destruct (agg_fold V v0 v1 vadd vdiv vltb veqb vofZ k c dur Hk rows [] [] ss rows Hin (cells_inv_nil V v0 v1 vadd vltb veqb vofZ k c dur) Hf) as [Inv _].
      cbn [app] in Inv. pose proof (agg_fold_keys V v0 v1 vadd vdiv vltb veqb vofZ k c dur rows [] ss rows I Hf) as Hkeys.
      assert (Hrun : List.concat (run_stage c (SAgg V k dur) bs) = List.concat (agg_on_end V v0 vdiv vltb veqb vofZ k c dur ss)).
      { cbn [InternalEngine.run_stage]. rewrite (wrap_end_only V v0 panic_kills (agg_ops k c dur) (fun s b => eq_refl) bs []).
        cbn [wrap]. rewrite (fold_skips_eof k c dur (List.concat bs) [] Hok). fold rows. rewrite Hf.
        cbn [on_slice on_end InternalEngine.agg_ops app]. reflexivity. }
      assert (Hcase : rows = [] \/ exists r0, In r0 rows) by (destruct rows as [|r0 r']; [now left|right; exists r0; now left]).
      destruct Hcase as [Erows|[r0 Hr0]].
      { (* no data row at all *)
        rewrite Erows in *. cbn [fold_entries] in Hf. inversion Hf; subst ss. exists []. rewrite Hrun. split; [reflexivity|]. split; [constructor|].
        cbn. constructor. }
      assert (Hall : forall e, In e rows -> e_err V e = ENone /\ in_window c dur e).
      { unfold agg_input_ok in Hin. now rewrite Forall_forall in Hin. }
      assert (Hlab : forall e, In e rows -> e_lbl V e = Some (lbl_of e)).
      { intros e He. rewrite Forall_forall in Hrows. destruct (Hrows e He) as [_ [m Hm]]. unfold InternalEngine.lbl_of. now rewrite Hm. }
      destruct (Hall r0 Hr0) as [_ Hw0]. pose proof (bucket_in_window V c dur r0 Hw0) as Hb0.
      assert (HN : 0 <= stream_len c dur) by lia. destruct Hw0 as [Hd Hts0].
      assert (HT : stream_len c dur * dur <= c_to c - c_from c).
      { unfold stream_len. destruct (Z_lt_le_dec (c_to c - c_from c) 0) as [Hneg|Hnn].
        - exfalso. assert (Z.quot (c_to c - c_from c) dur <= 0); [|unfold stream_len in *; lia].
          rewrite <- (Z.opp_involutive (c_to c - c_from c)), Z.quot_opp_l by lia.
          assert (0 <= Z.quot (- (c_to c - c_from c)) dur) by (apply Z.quot_pos; lia). lia.
        - rewrite Z.quot_div_nonneg by lia. rewrite Z.mul_comm. apply Z.mul_div_le. lia. }
      set (D := distinct_lbls rows []).
      set (F := fun f => series_out k c dur f (lbl_first V rows f) rows).
      exists (flat_map F (map fst ss)). split; [rewrite Hrun; exact (agg_out_concat k c dur rows ss HN Inv Hkeys)|]. split.
      { apply Forall_forall. intros e He. apply in_flat_map in He. destruct He as [f [_ He]].
        pose proof (series_out_data k c dur f (lbl_first V rows f) rows) as Hd'. rewrite Forall_forall in Hd'. now apply Hd'. }
      (* the keys of the stream table are the fingerprints of the distinct label sets *)
      assert (HD : forall m, In m D <-> exists e, In e rows /\ lbl_of e = m).
      { intros m. unfold D. rewrite distinct_in. split; [intros [[]|H]; exact H|now right]. }
      assert (HK : forall f, In f (map fst ss) <-> exists e, In e rows /\ e_fp V e = f).
      { intros f. split.
        - intros Hi. apply (keys_seen k c dur ss rows Inv Hkeys) in Hi. apply in_map_iff in Hi. destruct Hi as [e [E Hi]]. now exists e.
        - intros [e [He E]]. pose proof (Inv f) as If. destruct (streams_find V ss f) as [s|] eqn:Fs.
          + apply find_some_in in Fs. apply in_map_iff. now exists (f, s).
          + exfalso. exact (in_proj f rows e He E If). }
      assert (HP : Permutation (map fst ss) (map (fp_of rows) D)).
      { apply NoDup_Permutation.
        - exact (skeys_nodup ss None Hkeys).
        - apply NoDup_map_inj_in; [apply distinct_nodup; constructor|]. intros m m' Hm Hm' E.
          apply HD in Hm. apply HD in Hm'. destruct Hm as [e [He Lm]]. destruct Hm' as [e' [He' Lm']].
          rewrite <- Lm, <- Lm' in E. rewrite !fp_of_spec in E by assumption.
          apply (Hid e e' He He') in E. congruence.
        - intros f. rewrite HK, in_map_iff. split.
          + intros [e [He E]]. exists (lbl_of e). split; [rewrite fp_of_spec by assumption; exact E|apply HD; now exists e].
          + intros [m [E Hm]]. apply HD in Hm. destruct Hm as [e [He Le]]. exists e. split; [exact He|].
            rewrite <- E, <- Le. symmetry. now apply fp_of_spec. }
      transitivity (map erase (flat_map F (map (fp_of rows) D))).
      { apply Permutation_map. apply (Permutation_flat_map F). exact HP. }
      rewrite flat_map_map.
      assert (Hsem : sem_agg k c dur rows =
                     flat_map (fun m => sem_buckets fpf k c dur m (filter (fun e => lbls_eqb (lbl_of e) m) rows) 0 (sem_nbuckets c dur)) D).
      { unfold InternalEngine.sem_agg. rewrite (filter_all _ rows); [unfold D; now rewrite flat_map_concat_map|].
        intros e He. destruct (Hall e He) as [_ [_ Hts]]. apply andb_true_iff. split; [apply Z.leb_le; lia|apply Z.ltb_lt; lia]. }
      rewrite Hsem. apply Permutation_refl'. apply map_erase_flat_map. intros m Hm. apply HD in Hm. destruct Hm as [e' [He' Lm]].
      assert (EF : F (fp_of rows m) = series_out k c dur (e_fp V e') (Some m) rows).
      { assert (Efp : fp_of rows m = e_fp V e') by (rewrite <- Lm; now apply fp_of_spec). unfold F. rewrite Efp. f_equal. unfold lbl_first.
        destruct (InternalEngineProofs.proj V (e_fp V e') rows) as [|e0 rest] eqn:P; [exfalso; exact (in_proj _ rows e' He' eq_refl P)|].
        destruct (proj_in _ _ _ _ P) as [He0 E0]. cbv beta iota. rewrite (Hlab e0 He0). f_equal. rewrite <- Lm. now apply (Hid e0 e' He0 He'). }
      rewrite EF, (series_erase k c dur m rows e' Hk Hin Hid He' Lm). f_equal.
      destruct (nbuckets_cases c dur Hd ltac:(lia)) as [[_ ->]|[Hnd ->]]; [reflexivity|].
      destruct Hdiv as [Hspec|Hdiv]; [|contradiction]. symmetry. apply (sem_buckets_extra k c dur m _ Hspec).
      intros e He. apply filter_In in He. destruct He as [He _]. destruct (Hall e He) as [_ Hw].
      pose proof (bucket_in_window V c dur e Hw). lia.
    Qed.


    Lemma agg_whole_stmt k c dur bs :
      agg_covered k = true ->
      agg_stream_ok c dur (List.concat bs) ->
      Forall (data_row V) (data_of (List.concat bs)) ->
      one_fp_per_set (data_of (List.concat bs)) ->
      (List.length (fps (data_of (List.concat bs))) <= 2000)%nat ->
      agg_specified k = true \/ c_to c - c_from c = stream_len c dur * dur ->
      Forall (fun e => e_err V e = ENone) (List.concat (run_stage c (SAgg V k dur) bs)) /\
      Permutation (map erase (List.concat (run_stage c (SAgg V k dur) bs)))
                  (map erase (sem_agg k c dur (data_of (List.concat bs)))).
    Proof.
      intros Hk Hok Hrows Hid Hn Hdiv. destruct (agg_whole k c dur bs Hk Hok Hrows Hid Hn Hdiv) as [out [E [H1 H2]]].
      rewrite E. split; assumption.
    Qed.
  End FACTS.
End AGGWHOLE.
