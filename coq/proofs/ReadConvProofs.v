(* C12 -- whatever an implementation-defined float -> int64 conversion yields, the Loki range controller and the planner
   only let through contexts in which the unrecovered arithmetic is safe (model/ReadConv.v). *)
From Coq Require Import List ZArith Bool Lia.
From Qryn Require Import model.Pipeline model.ReadPath model.ReadConv proofs.PipelineProofs proofs.ReadPathProofs.
Import ListNotations.
Open Scope Z_scope.

Lemma plan_ns_guard : forall sh0 q from_ns to_ns ms lim sh c, 0 < ms -> from_ns <= to_ns ->
  plan_ns sh0 q from_ns to_ns ms lim = PRun sh c -> shape_guard sh c = true.
Proof.
  intros sh0 q from_ns to_ns ms lim sh c Hms Hft Hp. unfold plan_ns in Hp.
  destruct (q_dur_s q <=? 0) eqn:Ed.
  - destruct sh0; try discriminate; injection Hp as <- <-; reflexivity.
  - apply Z.leb_gt in Ed. cbv zeta in Hp. cbn [f_to f_from f_step] in Hp.
    pose proof max_elems_val as Hmax. unfold max_points, max_windows in Hp.
    destruct sh0.
    + destruct (q_query_err q); [discriminate|]. injection Hp as <- <-. reflexivity.
    + destruct (q_query_err q); [discriminate|]. injection Hp as <- <-. reflexivity.
    + destruct (int64_limit <=? _) eqn:Ei in Hp; [discriminate|].
      destruct (11000 <? _) eqn:Ep in Hp; [discriminate|]. apply Z.ltb_ge in Ep.
      destruct (q_query_err q); [discriminate|]. injection Hp as <- <-.
      unfold shape_guard, fix_guard. cbn [p_fix f_to f_from f_step f_dur].
      rewrite !andb_true_iff. split; [split; [split|]|].
      * apply Z.ltb_lt. lia.
      * apply Z.ltb_lt. lia.
      * apply Z.leb_le. lia.
      * apply Z.leb_le. lia.
    + destruct (int64_limit <=? _) eqn:Ei in Hp; [discriminate|].
      destruct (11000 <? _) eqn:Ep in Hp; [discriminate|]. apply Z.ltb_ge in Ep.
      destruct (100000 <? _) eqn:Ew in Hp; [discriminate|]. apply Z.ltb_ge in Ew.
      destruct (q_query_err q); [discriminate|]. injection Hp as <- <-.
      unfold shape_guard, fix_guard. cbn [p_fix p_slen f_to f_from f_step f_dur].
      rewrite !andb_true_iff. split; [split; [split; [split|]|]|].
      * apply Z.ltb_lt. lia.
      * apply Z.ltb_lt. lia.
      * apply Z.leb_le. lia.
      * apply Z.leb_le. lia.
      * apply Z.leb_le. lia.
Qed.

(* for EVERY value the three conversions may yield *)
Lemma conv_guard : forall q s e step any_s any_e any_step sh c,
  range_prelude_ns q s e step any_s any_e any_step = PRun sh c -> shape_guard sh c = true.
Proof.
  intros q s e step any_s any_e any_step sh c H. unfold range_prelude_ns in H.
  destruct (negb (q_has_query q)); [discriminate|].
  destruct s as [| |fs]; try discriminate. destruct e as [| |fe]; try discriminate.
  cbv zeta in H.
  destruct (match step with FpAbsent => Some 1000 | FpBad => None | FpNum f => Some (conv any_step f) end) as [ms|]; [|discriminate].
  destruct (limit_of 0 (q_limit q) <? 0); [discriminate|].
  destruct (ms <=? 0) eqn:Em; [discriminate|]. apply Z.leb_gt in Em.
  destruct (conv any_e fe <? conv any_s fs) eqn:Er; [discriminate|]. apply Z.ltb_ge in Er.
  destruct (q_shape q) as [sh0|]; [|discriminate]. destruct (q_boot_fail q); [discriminate|].
  eapply plan_ns_guard; eauto.
Qed.

Lemma conv_chain_terminates : forall q s e stp any_s any_e any_step sh c rows,
  range_prelude_ns q s e stp any_s any_e any_step = PRun sh c ->
  let c0 := init_config (map MRow rows) (stages_of sh c) in
  Acc (fun c' c1 : config st msg => step c1 c') c0 /\
  forall cf, star c0 cf -> crashed cf = false /\ (quiescent cf -> all_done (cells cf)).
Proof. intros q s e stp any_s any_e any_step sh c rows H. apply read_chain_terminates. eapply conv_guard. exact H. Qed.

(* the hypotheses are met: start = NaN (undefined, here the amd64 value), end exact, a log query runs; with the arm64
   value of the same conversion (0) the same request runs as well; a rate query over that window is refused *)
Definition nan_start_request (sh : shape) : request :=
  mkReq false true (Some sh) 60 PAbsent PAbsent PAbsent PAbsent [mkRow 1 1700000041000000000 2 ROk] (-1) false false.
Lemma conv_examples :
  (exists c, range_prelude_ns (nan_start_request ShLog) (FpNum FUndef) (FpNum (FExact 1700000340000000000)) FpAbsent
               (-9223372036854775808) 0 0 = PRun ShLog c) /\
  (exists c, range_prelude_ns (nan_start_request ShLog) (FpNum FUndef) (FpNum (FExact 1700000340000000000)) FpAbsent 0 0 0 = PRun ShLog c) /\
  range_prelude_ns (nan_start_request ShRate) (FpNum FUndef) (FpNum (FExact 1700000340000000000)) FpAbsent
               (-9223372036854775808) 0 0 = PResp O5xx /\
  range_prelude_ns (nan_start_request ShRate) (FpNum (FExact 1700000040000000000)) (FpNum FUndef) FpAbsent
               0 (-9223372036854775808) 0 = PResp O4xx /\
  (exists c, range_prelude_ns (nan_start_request ShRate) (FpNum (FExact 1700000040000000000)) (FpNum FUndef) (FpNum FUndef)
               0 1700000340000000000 15000 = PRun ShRate c).
Proof. repeat split; try (eexists; vm_compute; reflexivity); vm_compute; reflexivity. Qed.
