(* C10 — every instance of a statement shape that passes tpl_ok has the same token skeleton, and its
   literals at the holes are the values *)
From Coq Require Import List String Ascii Bool.
From Qryn Require Import model.Quote model.ChLex model.SqlTemplate proofs.QuoteProofs proofs.ChLexProofs.
Import ListNotations.
Open Scope string_scope.

Lemma run_after_literal_cons s c r :
  c <> "'"%char ->
  run (QStrQ s) (String c r) = (TStr s :: snd (step_normal c) ++ run (fst (step_normal c)) r)%list.
Proof.
  intro H. cbn [run step]. rewrite (proj2 (Ascii.eqb_neq _ _) H).
  unfold emit_then. destruct (step_normal c) as [q out]. reflexivity.
Qed.

Lemma tpl_run : forall rest q t s, tpl_ok q t rest = true ->
  run q (fill t rest (quote s)) = tpl_toks q t rest s.
Proof.
  induction rest as [|t' rest' IH]; intros q t s H.
  - unfold fill. cbn. now rewrite sapp_nil_r.
  - unfold fill in *. cbn [fill_rest tpl_ok tpl_toks] in *.
    apply andb_true_iff in H. destruct H as [Hopen H].
    rewrite run_app. destruct (quote_after (after q t) s Hopen) as [Ha Ho].
    rewrite run_app, Ha, Ho.
    destruct t' as [|c r].
    + destruct rest' as [|x y]; [|discriminate]. reflexivity.
    + apply andb_true_iff in H. destruct H as [Hc H]. apply negb_true_iff in Hc. apply Ascii.eqb_neq in Hc.
      change (String c r ++ fill_rest rest' (quote s)) with (String c (r ++ fill_rest rest' (quote s))).
      rewrite run_after_literal_cons by assumption.
      specialize (IH (fst (step_normal c)) r s H). unfold fill in IH. rewrite IH. reflexivity.
Qed.

Lemma tpl_skeleton : forall rest q t s1 s2,
  skeleton (tpl_toks q t rest s1) = skeleton (tpl_toks q t rest s2).
Proof.
  induction rest as [|t' rest' IH]; intros q t s1 s2; [reflexivity|].
  cbn [tpl_toks]. rewrite !skeleton_app. cbn [skeleton map skel1].
  destruct t' as [|c r]; [reflexivity|].
  fold (skeleton (snd (step_normal c) ++ tpl_toks (fst (step_normal c)) r rest' s1)).
  fold (skeleton (snd (step_normal c) ++ tpl_toks (fst (step_normal c)) r rest' s2)).
  rewrite !skeleton_app, (IH _ _ s1 s2). reflexivity.
Qed.

Lemma tpl_skeleton_invariant t rest s1 s2 : tpl_ok QN t rest = true ->
  skeleton (lex (fill t rest (quote s1))) = skeleton (lex (fill t rest (quote s2))).
Proof. intro H. unfold lex. rewrite !tpl_run by assumption. apply tpl_skeleton. Qed.

Lemma tpl_instance_tokens t rest s : tpl_ok QN t rest = true ->
  lex (fill t rest (quote s)) = tpl_toks QN t rest s.
Proof. intro H. unfold lex. now apply tpl_run. Qed.

(* ------------------------------------------------------------------ *)
(* The machine's control does not depend on the bytes decoded so far: states that differ only in the
   content of a string literal under construction produce the same skeleton.                          *)

Definition sim (q1 q2 : st) : Prop :=
  match q1, q2 with
  | QStr _, QStr _ | QStrB _, QStrB _ | QStrX _, QStrX _ | QStrX1 _ _, QStrX1 _ _ | QStrQ _, QStrQ _ => True
  | _, _ => q1 = q2
  end.

Lemma sim_refl q : sim q q.
Proof. destruct q; cbn; auto. Qed.

Lemma emit_then_sim a b c :
  sim (fst (emit_then (TStr a) c)) (fst (emit_then (TStr b) c)) /\
  skeleton (snd (emit_then (TStr a) c)) = skeleton (snd (emit_then (TStr b) c)).
Proof. unfold emit_then. destruct (step_normal c) as [q out]. cbn. split; [apply sim_refl|reflexivity]. Qed.

Lemma step_sim q1 q2 c : sim q1 q2 ->
  sim (fst (step q1 c)) (fst (step q2 c)) /\ skeleton (snd (step q1 c)) = skeleton (snd (step q2 c)).
Proof.
  intro H.
  destruct q1; destruct q2; cbn [sim] in H; try discriminate H;
  try (injection H; intros; subst; split; [apply sim_refl|reflexivity]);
  try (split; [apply sim_refl|reflexivity]).
  - (* QStr *) cbn [step]. destruct (Ascii.eqb c "'"); [cbn; auto|]. destruct (Ascii.eqb c "\"); cbn; auto.
  - (* QStrB *) cbn [step]. destruct (Ascii.eqb c "x"); [cbn; auto|]. destruct (Ascii.eqb c "N"); cbn; auto.
  - (* QStrX *) cbn; auto.
  - (* QStrX1 *) cbn; auto.
  - (* QStrQ *) cbn [step]. destruct (Ascii.eqb c "'"); [cbn; auto|]. apply emit_then_sim.
Qed.

Lemma flush_sim q1 q2 : sim q1 q2 -> skeleton (flush q1) = skeleton (flush q2).
Proof.
  destruct q1; destruct q2; cbn [sim]; intro H; try discriminate H;
  try (injection H; intros; subst; reflexivity); reflexivity.
Qed.

Lemma run_sim : forall s q1 q2, sim q1 q2 -> skeleton (run q1 s) = skeleton (run q2 s).
Proof.
  induction s as [|c s IH]; intros q1 q2 H; [now apply flush_sim|].
  cbn [run]. destruct (step_sim q1 q2 c H) as [Hs Ho].
  destruct (step q1 c) as [q1' o1]. destruct (step q2 c) as [q2' o2]. cbn [fst snd] in *.
  rewrite !skeleton_app, Ho, (IH _ _ Hs). reflexivity.
Qed.

Lemma after_sim : forall s q1 q2, sim q1 q2 -> sim (after q1 s) (after q2 s).
Proof.
  induction s as [|c s IH]; intros q1 q2 H; [assumption|].
  cbn [after]. apply IH. exact (proj1 (step_sim q1 q2 c H)).
Qed.

Lemma outs_sim : forall s q1 q2, sim q1 q2 -> skeleton (outs q1 s) = skeleton (outs q2 s).
Proof.
  induction s as [|c s IH]; intros q1 q2 H; [reflexivity|].
  cbn [outs]. destruct (step_sim q1 q2 c H) as [Hs Ho].
  rewrite !skeleton_app, Ho, (IH _ _ Hs). reflexivity.
Qed.

Lemma sim_in_body q1 q2 : sim q1 q2 -> in_body q2 = true -> exists a1 a2, q1 = QStr a1 /\ q2 = QStr a2.
Proof.
  destruct q2; cbn [in_body]; try discriminate. intros H _.
  destruct q1; cbn [sim] in H; try discriminate H. eauto.
Qed.

Lemma tplq_run : forall rest q1 q2 t s1 s2, sim q1 q2 -> tplq_ok q2 t rest = true ->
  skeleton (run q1 (fill t rest (esc s1))) = skeleton (run q2 (fill t rest (esc s2))).
Proof.
  induction rest as [|t' rest' IH]; intros q1 q2 t s1 s2 Hsim Hok.
  - unfold fill. cbn. rewrite !sapp_nil_r. now apply run_sim.
  - unfold fill in *. cbn [fill_rest tplq_ok] in *.
    apply andb_true_iff in Hok. destruct Hok as [Hbody Hrest].
    rewrite (run_app t q1), (run_app t q2), !skeleton_app, (outs_sim t q1 q2 Hsim).
    destruct (sim_in_body _ _ (after_sim t q1 q2 Hsim) Hbody) as (a1 & a2 & E1 & E2).
    rewrite E1, E2. rewrite (run_app (esc s1)), (run_app (esc s2)).
    destruct (esc_in_literal s1 a1) as [A1 O1]. destruct (esc_in_literal s2 a2) as [A2 O2].
    rewrite A1, O1, A2, O2. cbn [app].
    f_equal.
    transitivity (skeleton (run (QStr EmptyString) (t' ++ fill_rest rest' (esc s2)))).
    + apply (IH (QStr (a1 ++ s1)) (QStr EmptyString) t' s1 s2); [exact I|assumption].
    + symmetry. apply (IH (QStr (a2 ++ s2)) (QStr EmptyString) t' s2 s2); [exact I|assumption].
Qed.

Lemma tplq_skeleton_invariant t rest s1 s2 : tplq_ok QN t rest = true ->
  skeleton (lex (fill t rest (esc s1))) = skeleton (lex (fill t rest (esc s2))).
Proof. intro H. unfold lex. apply tplq_run; [apply sim_refl|assumption]. Qed.
