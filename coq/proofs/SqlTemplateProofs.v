(* C10 — every instance of a statement shape that passes tpl_ok has the same token skeleton, and its
   literals at the holes are the values *)
From Coq Require Import List String Ascii Bool.
From Qryn Require Import model.Quote model.ChLex model.SqlTemplate proofs.QuoteProofs proofs.ChLexProofs.
Import ListNotations.
Open Scope string_scope.

Lemma run_after_literal_cons s c r :
  c <> "'"%char ->
  run (QStrQ s) (String c r) = (TStr s :: snd (step_normal c) ++ run (fst (step_normal c)) r)%list.
Proof.
  intro H. cbn [run step]. rewrite (proj2 (Ascii.eqb_neq _ _) H).
  unfold emit_then. destruct (step_normal c) as [q out]. reflexivity.
Qed.

Lemma tpl_run : forall rest q t s, tpl_ok q t rest = true ->
  run q (fill t rest (quote s)) = tpl_toks q t rest s.
Proof.
  induction rest as [|t' rest' IH]; intros q t s H.
  - unfold fill. cbn. now rewrite sapp_nil_r.
  - unfold fill in *. cbn [fill_rest tpl_ok tpl_toks] in *.
    apply andb_true_iff in H. destruct H as [Hopen H].
    rewrite run_app. destruct (quote_after (after q t) s Hopen) as [Ha Ho].
    rewrite run_app, Ha, Ho.
    destruct t' as [|c r].
    + destruct rest' as [|x y]; [|discriminate]. reflexivity.
    + apply andb_true_iff in H. destruct H as [Hc H]. apply negb_true_iff in Hc. apply Ascii.eqb_neq in Hc.
      change (String c r ++ fill_rest rest' (quote s)) with (String c (r ++ fill_rest rest' (quote s))).
      rewrite run_after_literal_cons by assumption.
      specialize (IH (fst (step_normal c)) r s H). unfold fill in IH. rewrite IH. reflexivity.
Qed.

Lemma tpl_skeleton : forall rest q t s1 s2,
  skeleton (tpl_toks q t rest s1) = skeleton (tpl_toks q t rest s2).
Proof.
  induction rest as [|t' rest' IH]; intros q t s1 s2; [reflexivity|].
  cbn [tpl_toks]. rewrite !skeleton_app. cbn [skeleton map skel1].
  destruct t' as [|c r]; [reflexivity|].
  fold (skeleton (snd (step_normal c) ++ tpl_toks (fst (step_normal c)) r rest' s1)).
  fold (skeleton (snd (step_normal c) ++ tpl_toks (fst (step_normal c)) r rest' s2)).
  rewrite !skeleton_app, (IH _ _ s1 s2). reflexivity.
Qed.

Lemma tpl_skeleton_invariant t rest s1 s2 : tpl_ok QN t rest = true ->
  skeleton (lex (fill t rest (quote s1))) = skeleton (lex (fill t rest (quote s2))).
Proof. intro H. unfold lex. rewrite !tpl_run by assumption. apply tpl_skeleton. Qed.

Lemma tpl_instance_tokens t rest s : tpl_ok QN t rest = true ->
  lex (fill t rest (quote s)) = tpl_toks QN t rest s.
Proof. intro H. unfold lex. now apply tpl_run. Qed.
