(* C12 -- proofs about the generic pipeline LTS of model/Pipeline.v:
   every schedule is finite (lexicographic measure), and under the consumer contract (good_node) a chain can
   only stop with every goroutine returned, every channel closed and the cursor released -- or crashed, which
   nofault_node excludes. The statements quantify over ALL interleavings (the step relation is
   nondeterministic), all node behaviours, all row scripts, all chain lengths. *)
From Coq Require Import List ZArith Bool Lia Arith Wellfounded.
From Qryn Require Import model.Pipeline.
Import ListNotations.

Section LTSProofs.
Variables S M : Type.
Notation cellT := (cell S M).
Notation configT := (config S M).

(* ------------------------------------------------------------------ lexicographic order *)
Lemma lexlt_length : forall l l', lexlt l l' -> length l = length l'.
Proof. induction 1; simpl; congruence. Qed.

Lemma lexlt_wf : well_founded lexlt.
Proof.
  assert (H : forall n l, length l = n -> Acc lexlt l).
  { induction n as [|n IHn].
    - intros [|a l] Hl; [|discriminate]. constructor. intros y Hy. inversion Hy.
    - intros [|a l] Hl; [discriminate|]. injection Hl as Hl.
      revert l Hl. induction a as [a IHa] using lt_wf_ind. intros l Hl.
      pose proof (IHn l Hl) as Hacc. revert Hl. induction Hacc as [l _ IHl]. intros Hl.
      constructor. intros y Hy. inversion Hy as [a0 b l0 l1 Hlt Hlen | a0 l0 l1 Hlex]; subst.
      + apply IHa; [exact Hlt | congruence].
      + apply IHl; [exact Hlex | first [apply lexlt_length; exact Hlex | rewrite (lexlt_length _ _ Hlex); assumption]]. }
  intros l. apply (H (length l)). reflexivity.
Qed.

(* ------------------------------------------------------------------ every transition decreases the measure *)
Lemma mcell_set_recv : forall (p : cellT) s, mcell (set_st p (CRecv s)) = m_recv S M (c_node p) s.
Proof. reflexivity. Qed.

Lemma lstep_measure : forall canc (l : list cellT) canc' k l',
  lstep canc l canc' k l' -> lexlt (map mcell l') (map mcell l).
Proof.
  intros canc l canc' k l' H. induction H; simpl.
  - (* send/recv *) apply lex_hd; [|simpl; rewrite !map_length; reflexivity].
    unfold mcell, set_st; simpl. rewrite H. destruct a; simpl; lia.
  - (* send/out *) apply lex_hd; [|reflexivity].
    unfold mcell, set_st; simpl. rewrite H. destruct a; simpl; lia.
  - (* send/drain *) apply lex_hd; [|simpl; rewrite !map_length; reflexivity].
    unfold mcell, set_st; simpl. rewrite H. destruct a; simpl; lia.
  - (* close *) apply lex_tl. apply lex_hd; [|rewrite !map_length; reflexivity].
    unfold mcell at 2. rewrite H0. unfold mcell, set_st; simpl. unfold m_recv.
    destruct (cr_fault (n_on_close (c_node q) canc s)); destruct canc; simpl; lia.
  - apply lex_hd; [|rewrite !map_length; reflexivity].
    unfold mcell at 2. rewrite H. unfold mcell, set_st; simpl. lia.
  - apply lex_hd; [|rewrite !map_length; reflexivity].
    unfold mcell at 2. rewrite H. unfold mcell, set_st; simpl. lia.
  - apply lex_hd; [|rewrite !map_length; reflexivity].
    unfold mcell at 2. rewrite H. unfold mcell, set_st; simpl. lia.
  - apply lex_tl. exact IHlstep.
Qed.

Lemma lstep_canc_mono : forall canc (l : list cellT) canc' k l',
  lstep canc l canc' k l' -> canc = true -> canc' = true.
Proof. intros canc l canc' k l' H. induction H; intros Hc; subst; simpl; auto. Qed.

(* configurations: the client can leave once (first component), then the cells *)
Definition cmeasure (c : configT) : list nat := (if cancelled c then 0 else 1) :: map mcell (cells c).

Lemma step_measure : forall c c' : configT, step c c' -> lexlt (cmeasure c') (cmeasure c).
Proof.
  intros c c' [_ [Hs | [Hc [Hc' [_ Hcells]]]]]; unfold cmeasure.
  - pose proof (lstep_measure _ _ _ _ _ Hs) as Hm.
    destruct (cancelled c) eqn:E1; destruct (cancelled c') eqn:E2.
    + apply lex_tl. exact Hm.
    + (* a cancelled context stays cancelled *)
      exfalso. pose proof (lstep_canc_mono _ _ _ _ _ Hs eq_refl). discriminate.
    + apply lex_hd; [auto|]. rewrite !map_length.
      apply lexlt_length in Hm. rewrite !map_length in Hm. exact Hm.
    + apply lex_tl. exact Hm.
  - rewrite Hc, Hc', Hcells. apply lex_hd; [auto|reflexivity].
Qed.

Lemma step_wf : well_founded (fun c' c : configT => step c c').
Proof.
  apply wf_incl with (R2 := fun c' c : configT => lexlt (cmeasure c') (cmeasure c)).
  - intros c' c H. apply step_measure. exact H.
  - apply (wf_inverse_image configT (list nat) lexlt cmeasure). apply lexlt_wf.
Qed.

(* ------------------------------------------------------------------ invariants *)

(* a cell leaves (or has left) without draining only once its upstream has closed *)
Fixpoint chain_ok (l : list cellT) : Prop :=
  match l with
  | p :: tl => match tl with
               | q :: _ => exiting_nodrain (c_st q) = true -> closed_st (c_st p) = true
               | [] => True
               end /\ chain_ok tl
  | [] => True
  end.
Definition head_ok (l : list cellT) : Prop :=
  match l with
  | p :: _ => match c_st p with CRecv _ => False | CSend _ (ACont _) => False | _ => True end
  | [] => True
  end.
Definition nodes_good (l : list cellT) : Prop := Forall (fun c => good_node (c_node c)) l.
Definition nodes_nofault (l : list cellT) : Prop := Forall (fun c => nofault_node (c_node c)) l.
Definition no_afault (l : list cellT) : Prop := Forall cell_ok l.

Lemma nodes_pred_step : forall (P : node S M -> Prop) canc (l : list cellT) canc' k l',
  lstep canc l canc' k l' -> Forall (fun c => P (c_node c)) l -> Forall (fun c => P (c_node c)) l'.
Proof.
  intros P canc l canc' k l' H. induction H; intros HF;
    repeat match goal with Hf : Forall _ (_ :: _) |- _ => inversion Hf; clear Hf; subst end;
    repeat constructor; simpl; auto.
Qed.

(* the first cell of the list can only become "exiting without drain" if it already was *)
Definition hd_ex (l : list cellT) : bool := match l with c :: _ => exiting_nodrain (c_st c) | [] => false end.

Lemma hd_exiting_back : forall canc (l : list cellT) canc' k l',
  lstep canc l canc' k l' -> k = false -> hd_ex l' = true -> hd_ex l = true.
Proof.
  intros canc l canc' k l' H. induction H; intros Hk Hex; simpl in *; try discriminate;
    try (rewrite H in *; simpl in *); auto.
Qed.

Lemma chain_ok_step : forall canc (l : list cellT) canc' l',
  lstep canc l canc' false l' -> nodes_good l -> chain_ok l -> chain_ok l'.
Proof.
  intros canc l canc' l' H. remember false as k eqn:Hk. induction H; intros HG HC; try discriminate.
  - (* send/recv *) simpl in *. destruct HC as [_ [Hq Hl]]. split; [|split].
    + intros Hex. exfalso. inversion HG as [|? ? _ HG']; subst. inversion HG' as [|? ? Hgq _]; subst.
      specialize (Hgq canc s m). destruct (rr_next (n_on_msg (c_node q) canc s m)) as [s'|d|]; simpl in Hex; try discriminate.
      destruct d; [discriminate|]. apply Hgq. reflexivity.
    + destruct l as [|r l]; [exact I|]. intros Hex. specialize (Hq Hex). rewrite H0 in Hq. discriminate.
    + exact Hl.
  - simpl. auto.
  - (* send/drain *) simpl in *. destruct HC as [_ [Hq Hl]]. split; [|split; assumption].
    intros Hex. rewrite H0 in Hex. discriminate.
  - (* close *) simpl in *. destruct HC as [_ [Hq Hl]]. split; [|split].
    + intros _. rewrite H. reflexivity.
    + destruct l as [|r l]; [exact I|]. intros Hex. specialize (Hq Hex). rewrite H0 in Hq. discriminate.
    + exact Hl.
  - (* cont *) simpl in *. destruct HC as [Hp Hl]. split; [|exact Hl].
    destruct l as [|r l]; [exact I|]. intros Hex. specialize (Hp Hex). rewrite H in Hp. discriminate.
  - (* exit *) simpl in *. destruct HC as [Hp Hl]. split; [|exact Hl].
    destruct l as [|r l]; [exact I|]. intros _. reflexivity.
  - (* skip *) simpl in *. destruct HC as [Hp Hl]. inversion HG as [|? ? _ HG']; subst.
    split; [|apply IHlstep; auto].
    destruct l' as [|c' tl']; [exact I|]. destruct l as [|c tl]; [inversion H|].
    intros Hex. apply Hp. apply (hd_exiting_back _ _ _ _ _ H eq_refl). exact Hex.
Qed.

Lemma head_ok_step : forall canc (l : list cellT) canc' k l',
  lstep canc l canc' k l' -> head_ok l -> head_ok l'.
Proof.
  intros canc l canc' k l' H HH. inversion H; subst; simpl in *; auto;
    repeat match goal with Hp : c_st ?p = _ |- _ => rewrite Hp in *; clear Hp end; simpl in *; auto;
    try (destruct a; auto); try (destruct d; auto).
Qed.

Lemma no_afault_step : forall canc (l : list cellT) canc' k l',
  lstep canc l canc' k l' -> nodes_nofault l -> no_afault l -> no_afault l' /\ k = false.
Proof.
  intros canc l canc' k l' H. unfold nodes_nofault, no_afault. induction H; intros HN HA.
  - inversion HN as [|? ? Hnp HN1]; subst. inversion HN1 as [|? ? Hnq HN2]; subst.
    inversion HA as [|? ? Hap HA1]; subst. inversion HA1 as [|? ? Haq HA2]; subst.
    split; [|reflexivity]. constructor; [|constructor; [|exact HA2]]; unfold cell_ok in *; simpl.
    + rewrite H in Hap. destruct a; auto.
    + rewrite H0 in Haq. destruct Hnq as [Hnq _]. specialize (Hnq canc s m Haq).
      destruct (rr_next (n_on_msg (c_node q) canc s m)); simpl; auto.
  - inversion HA as [|? ? Hap HA1]; subst. split; [|reflexivity]. constructor; [|constructor]; unfold cell_ok in *; simpl.
    rewrite H in Hap. destruct a; auto.
  - inversion HA as [|? ? Hap HA1]; subst. split; [|reflexivity]. constructor; [|exact HA1]; unfold cell_ok in *; simpl.
    rewrite H in Hap. destruct a; auto.
  - inversion HN as [|? ? Hnp HN1]; subst. inversion HN1 as [|? ? Hnq HN2]; subst.
    inversion HA as [|? ? Hap HA1]; subst. inversion HA1 as [|? ? Haq HA2]; subst.
    split; [|reflexivity]. constructor; [exact Hap|constructor; [|exact HA2]]; unfold cell_ok in *; simpl.
    rewrite H0 in Haq. destruct Hnq as [_ Hnq]. rewrite (Hnq canc s Haq). exact I.
  - inversion HA as [|? ? Hap HA1]; subst. split; [|reflexivity]. constructor; [|exact HA1].
    unfold cell_ok in *; simpl. rewrite H in Hap. exact Hap.
  - inversion HA as [|? ? Hap HA1]; subst. split; [|reflexivity]. constructor; [|exact HA1].
    unfold cell_ok; simpl. exact I.
  - exfalso. inversion HA as [|? ? Hap HA1]; subst. unfold cell_ok in Hap. rewrite H in Hap. exact Hap.
  - inversion HN as [|? ? Hnp HN1]; subst. inversion HA as [|? ? Hap HA1]; subst.
    destruct (IHlstep HN1 HA1) as [IH1 IH2]. split; [|exact IH2]. constructor; auto.
Qed.

(* ------------------------------------------------------------------ deadlock freedom *)
Definition lstuck (canc : bool) (l : list cellT) : Prop := forall canc' k l', ~ lstep canc l canc' k l'.

Lemma lstuck_tail : forall canc p (l : list cellT), lstuck canc (p :: l) -> lstuck canc l.
Proof. intros canc p l H canc' k l' Hs. eapply H. apply ls_skip. exact Hs. Qed.

(* in a blocked chain nobody is in the middle of a send *)
Lemma stuck_no_pending : forall canc (l : list cellT), chain_ok l -> lstuck canc l ->
  match l with p :: _ => forall m ms a, c_st p <> CSend (m :: ms) a | [] => True end.
Proof.
  intros canc l. induction l as [|p l IH]; [intros; exact I|].
  intros HC HS m ms a Hp. destruct l as [|q l2].
  - eapply HS. eapply ls_send_out. exact Hp.
  - simpl in HC. destruct HC as [Hpq HC]. pose proof (lstuck_tail _ _ _ HS) as HS'.
    specialize (IH HC HS'). simpl in IH.
    destruct (c_st q) as [s|o a'|d] eqn:Eq.
    + eapply HS. eapply ls_send_recv; eauto.
    + destruct o as [|m' o'].
      * destruct a' as [s'|d'|].
        -- eapply HS'. eapply ls_cont. exact Eq.
        -- eapply HS'. eapply ls_exit. exact Eq.
        -- eapply HS'. eapply ls_fault. exact Eq.
      * eapply IH. reflexivity.
    + destruct d.
      * eapply HS. eapply ls_send_drain; eauto.
      * simpl in Hpq. specialize (Hpq eq_refl). rewrite Hp in Hpq. discriminate.
Qed.

Lemma stuck_all_done : forall canc (l : list cellT), chain_ok l -> lstuck canc l ->
  match l with p :: _ => (forall s, c_st p <> CRecv s) | [] => True end ->
  all_done l.
Proof.
  intros canc l. induction l as [|p l IH]; intros HC HS Hhd; [constructor|].
  pose proof (stuck_no_pending _ _ HC HS) as Hnp. simpl in Hnp.
  assert (Hcl : closed_st (c_st p) = true).
  { destruct (c_st p) as [s|o a|d] eqn:Ep.
    - exfalso. eapply Hhd. reflexivity.
    - exfalso. destruct o as [|m o].
      + destruct a as [s'|d'|].
        * eapply HS. eapply ls_cont. exact Ep.
        * eapply HS. eapply ls_exit. exact Ep.
        * eapply HS. eapply ls_fault. exact Ep.
      + eapply Hnp. reflexivity.
    - reflexivity. }
  constructor; [exact Hcl|].
  simpl in HC. destruct HC as [_ HC]. apply IH; [exact HC | eapply lstuck_tail; eauto |].
  destruct l as [|q l2]; [exact I|]. intros s Eq.
  destruct (c_st p) as [|?|d] eqn:Ep; try discriminate.
  eapply HS. eapply ls_close; eauto.
Qed.

(* ------------------------------------------------------------------ configurations *)
Definition inv (c : configT) : Prop := nodes_good (cells c) /\ chain_ok (cells c) /\ head_ok (cells c).

Lemma star_not_crashed_back : forall c1 c2 : configT, star c1 c2 -> crashed c2 = false -> crashed c1 = false.
Proof. intros c1 c2 H Hc. destruct H as [c | c1 c2 c3 [Hs _] _]; auto. Qed.

Lemma inv_step : forall c c' : configT, inv c -> step c c' -> crashed c' = false -> inv c'.
Proof.
  intros c c' [HG [HC HH]] [_ [Hs | [_ [_ [_ Hcells]]]]] Hk.
  - rewrite Hk in Hs. unfold inv. split; [|split].
    + eapply (nodes_pred_step (fun n => good_node n)); eauto.
    + eapply chain_ok_step; eauto.
    + eapply head_ok_step; eauto.
  - unfold inv. rewrite Hcells. auto.
Qed.

Lemma inv_star : forall c c' : configT, star c c' -> inv c -> crashed c' = false -> inv c'.
Proof.
  intros c c' H. induction H as [c | c1 c2 c3 Hs Hst IH]; intros Hi Hk; [exact Hi|].
  apply IH; [|exact Hk]. eapply inv_step; eauto. eapply star_not_crashed_back; eauto.
Qed.

(* no goroutine is ever left behind, whatever the interleaving: a chain of good nodes can only stop
   completely finished -- unless the process has crashed *)
Lemma good_chain_no_leak : forall c0 c : configT,
  inv c0 -> star c0 c -> quiescent c -> crashed c = true \/ all_done (cells c).
Proof.
  intros c0 c Hi Hst HS. destruct (crashed c) eqn:Hk; [left; reflexivity|right].
  pose proof (inv_star _ _ Hst Hi Hk) as [HG [HC HH]].
  eapply stuck_all_done; eauto.
  destruct (cells c) as [|p l]; [exact I|]. simpl in HH. intros s Ep. rewrite Ep in HH. exact HH.
Qed.

Lemma nofault_star : forall c c' : configT, star c c' ->
  crashed c = false -> nodes_nofault (cells c) -> no_afault (cells c) ->
  crashed c' = false /\ nodes_nofault (cells c') /\ no_afault (cells c').
Proof.
  intros c c' H. induction H as [c | c1 c2 c3 [Hc [Hs | [_ [_ [Hk2 Hcells]]]]] Hst IH]; intros Hk HN HA; [auto| |].
  - destruct (no_afault_step _ _ _ _ _ Hs HN HA) as [HA' Hk'].
    apply IH; auto. eapply (nodes_pred_step (fun n => nofault_node n)); eauto.
  - apply IH; auto; rewrite Hcells; assumption.
Qed.

Lemma chain_ok_fresh : forall (p : cellT) (l : list cellT), Forall fresh_stage l -> chain_ok (p :: l).
Proof.
  intros p l. revert p. induction l as [|q l IH]; intros p HF; simpl; [auto|].
  inversion HF as [|? ? [Hq _] HF']; subst. split.
  - intros Hex. rewrite Hq in Hex. discriminate.
  - apply IH. exact HF'.
Qed.

Lemma init_inv : forall (rows : list M) (stages : list cellT),
  Forall (fun c => good_node (c_node c)) stages -> Forall fresh_stage stages -> inv (init_config rows stages).
Proof.
  intros rows stages HG HF. unfold inv. split; [|split].
  - constructor; [|exact HG]. simpl. intros canc s m Hn. discriminate.
  - simpl cells. apply chain_ok_fresh. exact HF.
  - simpl. exact I.
Qed.

(* THE generic theorem: every schedule of a chain of good, fault-free nodes over any row script is finite and
   can only end with every goroutine returned (channel closed, cursor released), the process alive *)
Theorem chain_terminates : forall (rows : list M) (stages : list cellT),
  Forall (fun c => good_node (c_node c)) stages ->
  Forall (fun c => nofault_node (c_node c)) stages ->
  Forall fresh_stage stages ->
  let c0 := init_config rows stages in
  Acc (fun c' c : configT => step c c') c0 /\
  forall c, star c0 c -> crashed c = false /\ (quiescent c -> all_done (cells c)).
Proof.
  intros rows stages HG HN HF c0. split; [apply step_wf|].
  intros c Hst.
  assert (Hnf : crashed c = false /\ nodes_nofault (cells c) /\ no_afault (cells c)).
  { eapply nofault_star; eauto.
    - constructor; [|exact HN]. simpl. split; intros; reflexivity.
    - constructor; [exact I|]. eapply Forall_impl; [|exact HF]. intros a [_ Ha]. exact Ha. }
  destruct Hnf as [Hk _]. split; [exact Hk|]. intros HS.
  destruct (good_chain_no_leak c0 c (init_inv rows stages HG HF) Hst HS) as [Hc|Hd]; [congruence|exact Hd].
Qed.

(* without the fault-freedom assumption: still no leak, the only other way to stop is the crash *)
Theorem chain_no_leak : forall (rows : list M) (stages : list cellT),
  Forall (fun c => good_node (c_node c)) stages ->
  Forall fresh_stage stages ->
  let c0 := init_config rows stages in
  Acc (fun c' c : configT => step c c') c0 /\
  forall c, star c0 c -> quiescent c -> crashed c = true \/ all_done (cells c).
Proof.
  intros rows stages HG HF c0. split; [apply step_wf|].
  intros c Hst HS. eapply good_chain_no_leak; eauto. apply init_inv; assumption.
Qed.

(* ------------------------------------------------------------------ fault-freedom relative to a predicate on messages *)
Section OnMessages.
Variable okm : M -> bool.
Definition nodes_nofault_on (l : list cellT) : Prop := Forall (fun c => nofault_node_on okm (c_node c)) l.
Definition pends_ok (l : list cellT) : Prop := Forall (pend_ok okm) l.

Lemma pend_tail : forall (p : cellT) m ms a, pend_ok okm p -> c_st p = CSend (m :: ms) a ->
  okm m = true /\ pend_ok okm (set_st p (CSend ms a)).
Proof.
  intros p m ms a Hp E. unfold pend_ok in *. rewrite E in Hp. simpl in Hp. apply andb_prop in Hp.
  destruct Hp as [Hm Hms]. split; [exact Hm|]. simpl. exact Hms.
Qed.

Lemma no_afault_on_step : forall canc (l : list cellT) canc' k l',
  lstep canc l canc' k l' -> nodes_nofault_on l -> no_afault l -> pends_ok l ->
  no_afault l' /\ pends_ok l' /\ k = false.
Proof.
  intros canc l canc' k l' H. unfold nodes_nofault_on, no_afault, pends_ok. induction H; intros HN HA HP.
  - inversion HN as [|? ? Hnp HN1]; subst. inversion HN1 as [|? ? Hnq HN2]; subst.
    inversion HA as [|? ? Hap HA1]; subst. inversion HA1 as [|? ? Haq HA2]; subst.
    inversion HP as [|? ? Hpp HP1]; subst. inversion HP1 as [|? ? Hpq HP2]; subst.
    destruct (pend_tail _ _ _ _ Hpp H) as [Hm Hp'].
    assert (Haq' : n_ok (c_node q) s = true) by (unfold cell_ok in Haq; rewrite H0 in Haq; exact Haq).
    destruct Hnq as [Hnq _]. destruct (Hnq canc s m Haq' Hm) as [Hnx Hout].
    split; [|split; [|reflexivity]].
    + constructor; [|constructor; [|exact HA2]]; unfold cell_ok in *; simpl.
      * rewrite H in Hap. destruct a; auto.
      * destruct (rr_next (n_on_msg (c_node q) canc s m)); simpl; auto.
    + constructor; [exact Hp'|constructor; [|exact HP2]]. unfold pend_ok. simpl. exact Hout.
  - inversion HA as [|? ? Hap HA1]; subst. inversion HP as [|? ? Hpp HP1]; subst.
    destruct (pend_tail _ _ _ _ Hpp H) as [_ Hp'].
    split; [|split; [|reflexivity]]; constructor; try constructor; auto.
    unfold cell_ok in *; simpl. rewrite H in Hap. destruct a; auto.
  - inversion HA as [|? ? Hap HA1]; subst. inversion HP as [|? ? Hpp HP1]; subst.
    destruct (pend_tail _ _ _ _ Hpp H) as [_ Hp'].
    split; [|split; [|reflexivity]]; constructor; auto.
    unfold cell_ok in *; simpl. rewrite H in Hap. destruct a; auto.
  - inversion HN as [|? ? Hnp HN1]; subst. inversion HN1 as [|? ? Hnq HN2]; subst.
    inversion HA as [|? ? Hap HA1]; subst. inversion HA1 as [|? ? Haq HA2]; subst.
    inversion HP as [|? ? Hpp HP1]; subst. inversion HP1 as [|? ? Hpq HP2]; subst.
    assert (Haq' : n_ok (c_node q) s = true) by (unfold cell_ok in Haq; rewrite H0 in Haq; exact Haq).
    destruct Hnq as [_ Hnq]. destruct (Hnq canc s Haq') as [Hf Hout].
    split; [|split; [|reflexivity]].
    + constructor; [exact Hap|constructor; [|exact HA2]]. unfold cell_ok; simpl. rewrite Hf. exact I.
    + constructor; [exact Hpp|constructor; [|exact HP2]]. unfold pend_ok. simpl. exact Hout.
  - inversion HA as [|? ? Hap HA1]; subst. inversion HP as [|? ? Hpp HP1]; subst.
    split; [|split; [|reflexivity]]; constructor; auto.
    + unfold cell_ok in *; simpl. rewrite H in Hap. exact Hap.
    + unfold pend_ok; simpl. exact I.
  - inversion HA as [|? ? Hap HA1]; subst. inversion HP as [|? ? Hpp HP1]; subst.
    split; [|split; [|reflexivity]]; constructor; auto.
    + unfold cell_ok; simpl. exact I.
    + unfold pend_ok; simpl. exact I.
  - exfalso. inversion HA as [|? ? Hap HA1]; subst. unfold cell_ok in Hap. rewrite H in Hap. exact Hap.
  - inversion HN as [|? ? Hnp HN1]; subst. inversion HA as [|? ? Hap HA1]; subst. inversion HP as [|? ? Hpp HP1]; subst.
    destruct (IHlstep HN1 HA1 HP1) as [IH1 [IH2 IH3]]. split; [|split; [|exact IH3]]; constructor; auto.
Qed.

Lemma nofault_on_star : forall c c' : configT, star c c' ->
  crashed c = false -> nodes_nofault_on (cells c) -> no_afault (cells c) -> pends_ok (cells c) ->
  crashed c' = false.
Proof.
  intros c c' H. induction H as [c | c1 c2 c3 [Hc [Hs | [_ [_ [Hk2 Hcells]]]]] Hst IH]; intros Hk HN HA HP; [auto| |].
  - destruct (no_afault_on_step _ _ _ _ _ Hs HN HA HP) as [HA' [HP' Hk']].
    apply IH; auto. eapply (nodes_pred_step (fun n => nofault_node_on okm n)); eauto.
  - apply IH; auto; rewrite Hcells; assumption.
Qed.

(* the generic theorem relative to acceptable messages: if the rows the database delivers are acceptable, every
   schedule is finite, never crashes and can only end with every goroutine returned *)
Theorem chain_terminates_on : forall (rows : list M) (stages : list cellT),
  forallb okm rows = true ->
  Forall (fun c => good_node (c_node c)) stages ->
  Forall (fun c => nofault_node_on okm (c_node c)) stages ->
  Forall fresh_stage stages -> Forall (pend_ok okm) stages ->
  let c0 := init_config rows stages in
  Acc (fun c' c : configT => step c c') c0 /\
  forall c, star c0 c -> crashed c = false /\ (quiescent c -> all_done (cells c)).
Proof.
  intros rows stages Hrows HG HN HF HP c0. split; [apply step_wf|].
  intros c Hst.
  assert (Hk : crashed c = false).
  { eapply nofault_on_star; eauto.
    - constructor; [|exact HN]. simpl. split; intros; split; reflexivity.
    - constructor; [exact I|]. eapply Forall_impl; [|exact HF]. intros a [_ Ha]. exact Ha.
    - constructor; [|exact HP]. unfold pend_ok. simpl. exact Hrows. }
  split; [exact Hk|]. intros HS.
  destruct (good_chain_no_leak c0 c (init_inv rows stages HG HF) Hst HS) as [Hc|Hd]; [congruence|exact Hd].
Qed.
End OnMessages.

(* a returned goroutine stays returned: its channel is closed exactly once *)
Lemma done_stable : forall canc (l : list cellT) canc' k l',
  lstep canc l canc' k l' -> forall i c, nth_error l i = Some c -> closed_st (c_st c) = true -> nth_error l' i = Some c.
Proof.
  intros canc l canc' k l' H. induction H; intros i c Hn Hc.
  - destruct i as [|[|i]]; simpl in *; try exact Hn; injection Hn as <-.
    + rewrite H in Hc. discriminate.
    + rewrite H0 in Hc. discriminate.
  - destruct i as [|i]; simpl in *; [injection Hn as <-; rewrite H in Hc; discriminate|destruct i; discriminate].
  - destruct i as [|[|i]]; simpl in *; try exact Hn. injection Hn as <-. rewrite H in Hc. discriminate.
  - destruct i as [|[|i]]; simpl in *; try exact Hn. injection Hn as <-. rewrite H0 in Hc. discriminate.
  - destruct i as [|i]; simpl in *; [injection Hn as <-; rewrite H in Hc; discriminate|exact Hn].
  - destruct i as [|i]; simpl in *; [injection Hn as <-; rewrite H in Hc; discriminate|exact Hn].
  - destruct i as [|i]; simpl in *; [injection Hn as <-; rewrite H in Hc; discriminate|exact Hn].
  - destruct i as [|i]; simpl in *; [exact Hn|]. apply IHlstep; assumption.
Qed.

(* ------------------------------------------------------------------ the executable scheduler is a schedule *)
Lemma sched_sound : forall canc (l : list cellT) canc' k l',
  sched canc l = Some (canc', k, l') -> lstep canc l canc' k l'.
Proof.
  intros canc l. induction l as [|p tl IH]; intros canc' k l' H; [discriminate|].
  simpl in H.
  destruct (c_st p) as [s|o a|d] eqn:Ep.
  - destruct (sched canc tl) as [[[c1 k1] tl1]|] eqn:Es; [|discriminate].
    injection H as <- <- <-. apply ls_skip. apply IH. reflexivity.
  - destruct o as [|m ms].
    + destruct a as [s|d|]; injection H as <- <- <-.
      * apply ls_cont; exact Ep.
      * apply ls_exit; exact Ep.
      * apply ls_fault; exact Ep.
    + destruct tl as [|q l2].
      * injection H as <- <- <-. eapply ls_send_out; exact Ep.
      * destruct (c_st q) as [s|o' a'|d] eqn:Eq.
        -- injection H as <- <- <-. eapply ls_send_recv; eauto.
        -- destruct (sched canc (q :: l2)) as [[[c1 k1] tl1]|] eqn:Es; [|discriminate].
           injection H as <- <- <-. apply ls_skip. apply IH. reflexivity.
        -- destruct d.
           ++ injection H as <- <- <-. eapply ls_send_drain; eauto.
           ++ destruct (sched canc (q :: l2)) as [[[c1 k1] tl1]|] eqn:Es; [|discriminate].
              injection H as <- <- <-. apply ls_skip. apply IH. reflexivity.
  - destruct tl as [|q l2].
    + simpl in H. discriminate.
    + destruct (c_st q) as [s|o' a'|d'] eqn:Eq.
      * injection H as <- <- <-. eapply ls_close; eauto.
      * destruct (sched canc (q :: l2)) as [[[c1 k1] tl1]|] eqn:Es; [|discriminate].
        injection H as <- <- <-. apply ls_skip. apply IH. reflexivity.
      * destruct (sched canc (q :: l2)) as [[[c1 k1] tl1]|] eqn:Es; [|discriminate].
        injection H as <- <- <-. apply ls_skip. apply IH. reflexivity.
Qed.

Lemma sched_complete : forall canc (l : list cellT), sched canc l = None -> lstuck canc l.
Proof.
  intros canc l. induction l as [|p tl IH]; intros H canc' k l' Hs; [inversion Hs|].
  simpl in H.
  assert (Htl : sched canc tl = None).
  { destruct (sched canc tl) as [[[c1 k1] tl1]|]; [|reflexivity].
    destruct (c_st p) as [s|[|m ms] [s|d|]|d]; try discriminate;
      destruct tl as [|q l2]; try discriminate; destruct (c_st q) as [?|? ?|[|]]; discriminate. }
  rewrite Htl in H.
  inversion Hs; subst;
    try (repeat match goal with Hx : c_st _ = _ |- _ => rewrite Hx in H; clear Hx end; simpl in H; discriminate).
  eapply IH; eauto.
Qed.

End LTSProofs.
