(* End-to-end form of property C04 with the day the read side searches: the date lemma of property C13
   (proofs/ScansProofs.attrs_day_in_bounds, props/C13.index_date_range_covers_window) is USED here, not assumed. *)
From Coq Require Import List ZArith Lia String Bool Permutation.
From Qryn Require Import model.GoQuote model.LabelJson model.Fingerprint model.Labels model.ProtoLabels
  model.SeriesIndex model.SeriesDoc model.Dates proofs.SeriesIndexProofs proofs.JsonQuoteProofs proofs.DatesProofs
  proofs.DiscoverProofs.
From Qryn Require model.Scans model.ScanCases model.LogqlPlan proofs.ScansProofs.
Import ListNotations.
Open Scope Z_scope.

(* the three day functions agree: the day the history model files a sample under (SeriesIndex.day_of), the value the
   writer process in zone tz puts into the date column (Dates.series_day, tied to the code by --mode dates) and the
   stored day of C13's lemma *)
Lemma series_day_is_model_day tz ts :
  0 <= ts -> ts < 65536 * 86400 * 1000000000 -> series_day tz ts = day_of ts.
Proof.
  intros H0 H1. rewrite (series_day_is_utc_day tz ts H0 H1). unfold utc_day, secs_of_ns, day_of.
  now rewrite Z.quot_div_nonneg by lia.
Qed.

Lemma model_day_is_c13_day tz ts : day_of ts = ScanCases.attrs_stored_day tz ts.
Proof. reflexivity. Qed.

(* every date bound the reader writes for a window [from, to) (date >= day(from), date >= FormatFromDate(from),
   date <= day(to); ns) keeps the series row of a sample inside the window, for every zone of the writer process *)
Lemma series_day_in_reader_bounds tz from to ts :
  0 <= ts -> ts < 65536 * 86400 * 1000000000 -> from <= ts < to ->
  Scans.day_of_ns from <= series_day tz ts <= Scans.day_of_ns to /\ LogqlPlan.from_day from <= series_day tz ts.
Proof.
  intros H0 H1 Hw. rewrite (series_day_is_model_day tz ts H0 H1), (model_day_is_c13_day tz ts).
  exact (ScansProofs.attrs_day_in_bounds tz from to ts Hw).
Qed.

Section E2E_WINDOW.
  Variable fp_of : list label -> Z.

  Theorem acked_sample_discoverable_in_window (h : list laction) :
    (forall s1 s2, In s1 (lstreams h) -> In s2 (lstreams h) ->
       fp_of (ls_labels s1) = fp_of (ls_labels s2) -> Permutation (ls_labels s1) (ls_labels s2)) ->
    forall s0 e tz from to, In s0 (lstreams h) -> In e (ls_entries s0) ->
    0 <= e_ts e -> e_ts e < 65536 * 86400 * 1000000000 ->
    In (fp_of (ls_labels s0), day_of (e_ts e), tcode (e_type e)) (acked (lrun fp_of h)) ->
    from <= e_ts e < to ->
    let d := series_day tz (e_ts e) in
    In (d, fp_of (ls_labels s0), tcode (e_type e)) (ts_rows (lrun fp_of h)) /\
    (Scans.day_of_ns from <= d <= Scans.day_of_ns to /\ LogqlPlan.from_day from <= d) /\
    exists s, In s (lstreams h) /\ from_stream (to_stream fp_of s) (d, fp_of (ls_labels s0), tcode (e_type e)) /\
              Permutation (ls_labels s0) (ls_labels s) /\
              forall isprint, json_decode (encode_labels isprint (ls_labels s)) = Some (ls_labels s).
  Proof.
    intros Hinj s0 e tz from to Hs0 He H0 H1 Hack Hw d.
    assert (Hd : d = day_of (e_ts e)) by (apply series_day_is_model_day; assumption).
    destruct (acked_sample_discoverable fp_of h Hinj s0 _ _ Hs0 Hack) as [Hrow Hex].
    rewrite Hd. split; [exact Hrow|]. split; [|exact Hex].
    rewrite <- Hd. apply series_day_in_reader_bounds; assumption.
  Qed.
End E2E_WINDOW.

(* the hypotheses are met: the history of DiscoverProofs.discoverable_hypotheses_met, its first acknowledged stream,
   a writer five hours west of UTC, a one-hour query window around the sample *)
Example discoverable_in_window_hypotheses_met :
  In ex_ls2 (lstreams ex_lh) /\
  (exists e, In e (ls_entries ex_ls2) /\ 0 <= e_ts e < 65536 * 86400 * 1000000000 /\
     In (ex_fp (ls_labels ex_ls2), day_of (e_ts e), tcode (e_type e)) (acked (lrun ex_fp ex_lh)) /\
     e_ts e - 1800 * 1000000000 <= e_ts e < e_ts e + 1800 * 1000000000 /\
     series_day (-18000) (e_ts e) = 19732).
Proof.
  split; [vm_compute; auto|]. exists {| e_ts := 1704888060000000000; e_type := TLog |}.
  split; [now left|]. cbn [e_ts e_type]. split; [lia|]. split; [vm_compute; auto|]. split; [lia|vm_compute; reflexivity].
Qed.
