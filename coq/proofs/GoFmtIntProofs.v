From Coq Require Import List String Ascii Bool NArith ZArith Lia DecimalString.
From Qryn Require Import model.Quote model.ChLex model.SqlSites proofs.QuoteProofs proofs.SqlSitesProofs.
From Qryn Require Import model.GoFmt proofs.GoFmtProofs.
From Qryn Require Import model.GoFmtInt.
Import ListNotations.
Open Scope string_scope.

(* ---- the model of round 5 is the string-operand part of this one *)
Lemma extra_list2_str : forall args, extra_list2 (map OStr args) = extra_list args.
Proof.
  induction args as [|a r IH]; [reflexivity|].
  destruct r as [|b r']; [reflexivity|].
  change (extra_list2 (map OStr (a :: b :: r'))) with ("string" ++ "=" ++ a ++ ", " ++ extra_list2 (map OStr (b :: r'))).
  rewrite IH. reflexivity.
Qed.

Lemma extra2_str : forall args, extra2 (map OStr args) = extra args.
Proof.
  intros [|a r]; [reflexivity|]. unfold extra2, extra. cbn [map]. rewrite <- (extra_list2_str (a :: r)). reflexivity.
Qed.

Lemma fmt_go2_refines_fmt_go : forall f args, fmt_go2 f (map OStr args) = fmt_go f args.
Proof.
  fix IH 1. intros f args. destruct f as [|c r]; [cbn; now rewrite extra2_str|].
  cbn [fmt_go2 fmt_go]. destruct (is_pct c).
  - destruct r as [|v r']; [now rewrite extra2_str|].
    destruct (spec_byte v || other_notation v || (128 <=? N_of_ascii v)%N); [reflexivity|].
    destruct (is_pct v); [now rewrite IH|].
    destruct args as [|a rest].
    + pose proof (IH r' []) as E. cbn in E |- *. rewrite E. reflexivity.
    + cbn [map print_verb2 print_verb good_verb show ty_of]. destruct (plain_verb v); rewrite IH; reflexivity.
  - rewrite IH. reflexivity.
Qed.

(* ---- texts between verbs *)
Lemma fmt2_app_text : forall t f args, pct_free t = true ->
  fmt_go2 (t ++ f) args = option_map (fun o => t ++ o) (fmt_go2 f args).
Proof.
  induction t as [|c r IH]; intros f args H; cbn in *.
  - destruct (fmt_go2 f args); reflexivity.
  - apply andb_true_iff in H. destruct H as [Hc Hr].
    destruct (is_pct c); [discriminate|]. rewrite (IH f args Hr).
    destruct (fmt_go2 f args); reflexivity.
Qed.

Lemma fmt2_verb_free_text : forall t, pct_free t = true -> fmt_go2 t [] = Some t.
Proof.
  induction t as [|c r IH]; intros H; cbn in *; [reflexivity|].
  apply andb_true_iff in H. destruct H as [Hc Hr]. destruct (is_pct c); [discriminate|]. rewrite (IH Hr). reflexivity.
Qed.

(* text, then the verb the operand calls for (%s for a string, %d for an integer): the text, the operand's text, the rest *)
Lemma fmt2_text_then_verb : forall t f a args, pct_free t = true ->
  fmt_go2 (t ++ verb_of a ++ f) (a :: args) = option_map (fun o => t ++ show a ++ o) (fmt_go2 f args).
Proof.
  intros t f a args H. rewrite fmt2_app_text by exact H.
  destruct a as [s|ty z]; cbn; destruct (fmt_go2 f args); reflexivity.
Qed.

(* the census's reading of a constant format with string and numeric verbs *)
Lemma fmt2_constant_format : forall texts ops,
  forallb pct_free texts = true -> S (List.length ops) = List.length texts ->
  fmt_go2 (mkformat2 texts ops) ops = Some (interleave texts (map show ops)).
Proof.
  induction texts as [|t ts IH]; intros ops Hp Hl.
  - cbn in Hl. discriminate.
  - destruct (forallb_tl _ _ _ _ Hp) as [Ht Hts].
    destruct ts as [|t2 ts2].
    + destruct ops; [|cbn in Hl; discriminate]. cbn [mkformat2 interleave map].
      apply fmt2_verb_free_text. exact Ht.
    + destruct ops as [|a r]; [cbn in Hl; discriminate|].
      change (mkformat2 (t :: t2 :: ts2) (a :: r)) with (t ++ verb_of a ++ mkformat2 (t2 :: ts2) r).
      change (interleave (t :: t2 :: ts2) (map show (a :: r))) with (t ++ show a ++ interleave (t2 :: ts2) (map show r)).
      rewrite fmt2_text_then_verb by exact Ht.
      rewrite (IH r Hts) by (cbn in Hl |- *; lia). reflexivity.
Qed.

(* ---- what %d prints for an integer: a text over "-0123456789", for EVERY integer *)
Lemma dec_uint_digits0 : forall u, over dec_alphabet (NilEmpty.string_of_uint u) = true.
Proof. induction u; try reflexivity; exact IHu. Qed.
Lemma dec_uint_digits : forall u, over dec_alphabet (NilZero.string_of_uint u) = true.
Proof. intros u. destruct u; try reflexivity; exact (dec_uint_digits0 _). Qed.

Lemma dec_over_dec_alphabet : forall z, over dec_alphabet (dec z) = true.
Proof.
  intros z. unfold dec. destruct (Z.to_int z) as [u|u]; cbn [NilZero.string_of_int].
  - apply dec_uint_digits.
  - change (over dec_alphabet (String "-" (NilZero.string_of_uint u)) = true). cbn. apply dec_uint_digits.
Qed.

Lemma over_mono : forall a b s, all_chars (fun c => mem_char c b) a = true -> over a s = true -> over b s = true.
Proof.
  intros a b s Hab. unfold over. induction s as [|c r IH]; cbn; [reflexivity|].
  intros H. apply andb_true_iff in H. destruct H as [Hc Hr]. rewrite (IH Hr), andb_true_r.
  clear - Hab Hc. induction a as [|d a' IHa]; cbn in *; [discriminate|].
  apply andb_true_iff in Hab. destruct Hab as [Hd Ha'].
  apply orb_true_iff in Hc. destruct Hc as [Hc|Hc].
  - apply Ascii.eqb_eq in Hc. subst. exact Hd.
  - apply IHa; assumption.
Qed.

Lemma dec_over_numeric_alphabet : forall z, over numeric_alphabet (dec z) = true.
Proof. intros z. apply (over_mono dec_alphabet); [reflexivity|apply dec_over_dec_alphabet]. Qed.

(* hence, with numeric_text: the text %d prints is unchanged by the escaper, and inside a literal it stays inside it *)
Lemma dec_is_harmless : forall z acc,
  esc (dec z) = dec z /\ after (QStr acc) (dec z) = QStr (acc ++ dec z) /\ outs (QStr acc) (dec z) = [].
Proof. intros z acc. apply (numeric_text numeric_alphabet eq_refl). apply dec_over_numeric_alphabet. Qed.

(* a numeric site as the census reads it: constant verb-free texts around ONE %d over an integer: for every integer the printed
   text is the two texts around a text over "-0123456789" *)
Lemma numeric_site_prints_a_number : forall pre post ty z, pct_free pre = true -> pct_free post = true ->
  fmt_go2 (pre ++ "%d" ++ post) [OInt ty z] = Some (pre ++ dec z ++ post) /\ over dec_alphabet (dec z) = true.
Proof.
  intros pre post ty z Hpre Hpost. split; [|apply dec_over_dec_alphabet].
  change "%d" with (verb_of (OInt ty z)). rewrite fmt2_text_then_verb by exact Hpre.
  rewrite fmt2_verb_free_text by exact Hpost. reflexivity.
Qed.

(* why go/types must prove the operand an integer: under %d a STRING operand is printed with all its bytes - package fmt's
   bad-verb notation %!d(string=...) - outside any literal *)
Lemma numeric_verb_over_string_operand : forall pre post s, pct_free pre = true -> pct_free post = true ->
  fmt_go2 (pre ++ "%d" ++ post) [OStr s] = Some (pre ++ "%!d(string=" ++ s ++ ")" ++ post).
Proof.
  intros pre post s Hpre Hpost. rewrite fmt2_app_text by exact Hpre. cbn.
  rewrite fmt2_verb_free_text by exact Hpost. cbn.
  rewrite sapp_assoc. reflexivity.
Qed.

Lemma sapp_nil_r : forall s : string, s ++ "" = s.
Proof. induction s as [|c r IH]; cbn; [reflexivity|]. rewrite IH. reflexivity. Qed.

(* a witness: the string operand ' under %d : the statement no longer lexes, while every integer keeps it one number *)
Lemma numeric_verb_over_string_operand_refuted :
  exists s out, fmt_go2 "SELECT 1 LIMIT %d" [OStr s] = Some out /\ has_err (lex out) = true /\
    forall ty z, exists out', fmt_go2 "SELECT 1 LIMIT %d" [OInt ty z] = Some out' /\ out' = "SELECT 1 LIMIT " ++ dec z.
Proof.
  exists "'". eexists. split; [vm_compute; reflexivity|]. split; [vm_compute; reflexivity|].
  intros ty z.
  destruct (numeric_site_prints_a_number "SELECT 1 LIMIT " "" ty z eq_refl eq_refl) as [H _].
  rewrite !sapp_nil_r in H. eexists. split; [exact H|reflexivity].
Qed.

Example fmt2_examples :
  fmt_go2 (mkformat2 ["toDateTime("; ") AND val == "; " LIMIT "; ""] [OInt "int64" (-1700000000); OStr "'x'"; OInt "int" 100])
          [OInt "int64" (-1700000000); OStr "'x'"; OInt "int" 100] = Some "toDateTime(-1700000000) AND val == 'x' LIMIT 100" /\
  dec 0 = "0" /\ dec (-9223372036854775808) = "-9223372036854775808" /\
  fmt_go2 "%s|%d|%v" [OInt "int" 5; OStr "a"; OInt "int64" 7; OStr "b"] = Some "%!s(int=5)|%!d(string=a)|7%!(EXTRA string=b)".
Proof. repeat split; vm_compute; reflexivity. Qed.
