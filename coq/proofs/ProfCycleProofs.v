(* Property C16: (1) the exact class of node-id collisions, (2) stored trees cannot be cyclic.
   getNodeId hashes (parent id, function id) only; the depth enters through the 9 level bits min(depth, 511).  So two
   frames share a node id exactly when their clamped levels agree and the upper 55 bits of the two hashes agree
   (node_id_eq_iff); the hypothesis of tree_conserves fails exactly when such a pair has different parents
   (collision_class).  computeFlameGraphDiff has no guard against cyclic Nodes maps (BFS has one): for EVERY hash the rows
   of one stored tree name as parent a row stored earlier (stored_rows_parents_first, stored_rows_rank), so no stored tree
   holds a cycle, at any depth, collisions included; across profiles the level of a row is min(level of its parent + 1, 511)
   for every hash (stored_rows_levels), so along any chain of stored rows the level grows strictly below 511
   (chain_levels): a cycle in a merged tree consists of ids of level 511 only, it needs frames deeper than 511 in at
   least two profiles (one stored tree has none) and a collision among the 55 hash bits that closes the chain; profiles
   with stacks of at most 511 frames never contribute a row to a cycle (shallow_rows_below_clamp). *)
From Coq Require Import List NArith ZArith Bool Lia.
From Qryn Require Import model.Pprof proofs.PprofProofs.
Import ListNotations.
Open Scope N_scope.

(* ------------------------------------------------------------------ the collision class *)
Definition hash_bits (h : N -> N -> N) (p f : N) : N := N.shiftr (m64 (h p f)) hash_shift.

Lemma hash_bits_small h p f : hash_bits h p f < 2 ^ 55.
Proof.
  unfold hash_bits. rewrite N.shiftr_div_pow2. apply N.div_lt_upper_bound; [discriminate|].
  change (2 ^ hash_shift * 2 ^ 55) with two64N. rewrite m64_mod. apply N.mod_lt. discriminate.
Qed.

Lemma node_id_hash_bits h p f d : N.land (node_id h p f d) (N.ones 55) = hash_bits h p f.
Proof.
  unfold node_id. fold (hash_bits h p f). rewrite N.land_lor_distr_l, !N.land_ones.
  rewrite N.shiftl_mul_pow2. change depth_shift with 55. rewrite N.mod_mul by discriminate.
  rewrite N.lor_0_r. apply N.mod_small. apply hash_bits_small.
Qed.

Lemma node_id_eq_iff h p f d p' f' d' :
  node_id h p f d = node_id h p' f' d' <->
  N.min d depth_clamp = N.min d' depth_clamp /\ hash_bits h p f = hash_bits h p' f'.
Proof.
  split.
  - intro H. split.
    + rewrite <- (node_level h p f d), <- (node_level h p' f' d'), H. reflexivity.
    + rewrite <- (node_id_hash_bits h p f d), <- (node_id_hash_bits h p' f' d'), H. reflexivity.
  - intros [H1 H2]. unfold node_id. fold (hash_bits h p f). fold (hash_bits h p' f'). rewrite H1, H2. reflexivity.
Qed.

(* the hypothesis of tree_conserves fails exactly on this class: two occurring frames of the same clamped level whose
   hashes agree on the upper 55 bits although their parents differ *)
Lemma forallb_false {A} (f : A -> bool) l : forallb f l = false -> exists x, In x l /\ f x = false.
Proof.
  induction l as [|a l IH]; cbn [forallb]; [discriminate|]. intro H. apply andb_false_iff in H. destruct H as [H|H].
  - exists a. split; [left; reflexivity|exact H].
  - destruct (IH H) as [x [Hx Hf]]. exists x. split; [right; exact Hx|exact Hf].
Qed.

Theorem collision_class h T :
  ~ parent_determined h T <->
  exists p f d p' f' d', In (p, f, d) T /\ In (p', f', d') T /\ p <> p' /\
    N.min d depth_clamp = N.min d' depth_clamp /\ hash_bits h p f = hash_bits h p' f'.
Proof.
  split.
  - intro H. destruct (parent_determined_b h T) eqn:E; [exfalso; apply H; apply parent_determined_b_sound; exact E|].
    unfold parent_determined_b in E. destruct (forallb_false _ _ E) as [[[p f] d] [Ha Ea]].
    destruct (forallb_false _ _ Ea) as [[[p' f'] d'] [Hb Eb]].
    destruct (N.eqb (node_id h p f d) (node_id h p' f' d')) eqn:En; [|discriminate]. cbn [implb] in Eb.
    apply N.eqb_eq in En. apply node_id_eq_iff in En. destruct En as [H1 H2].
    exists p, f, d, p', f', d'. split; [exact Ha|]. split; [exact Hb|]. split; [apply N.eqb_neq; exact Eb|]. split; assumption.
  - intros [p [f [d [p' [f' [d' [H1 [H2 [Hne [Hl Hh]]]]]]]]]] H. apply Hne. apply (H p f d p' f' d' H1 H2).
    apply node_id_eq_iff. split; assumption.
Qed.

(* ------------------------------------------------------------------ one stored tree is never cyclic (every hash)
   rows are kept in insertion order (the Go map, as an association list): a row names as parent 0 or a row inserted
   before it -- a collision adds values to an existing row and leaves its parent alone *)
Fixpoint parents_first (seen : list N) (t : tree) : Prop :=
  match t with
  | [] => True
  | n :: r => (n_parent n = 0 \/ In (n_parent n) seen) /\ parents_first (n_id n :: seen) r
  end.

Lemma parents_first_weaken t : forall seen seen', (forall x, In x seen -> In x seen') -> parents_first seen t -> parents_first seen' t.
Proof.
  induction t as [|n r IH]; intros seen seen' Hs H; cbn [parents_first] in *; [exact I|]. destruct H as [H1 H2]. split.
  - destruct H1 as [H1|H1]; [left; exact H1|right; apply Hs; exact H1].
  - apply (IH (n_id n :: seen)); [|exact H2]. intros x [Hx|Hx]; [left; exact Hx|right; apply Hs; exact Hx].
Qed.

Lemma bump_parents_first p f i leaf vs zero : forall t seen, parents_first seen t ->
  p = 0 \/ In p (seen ++ map n_id t) -> parents_first seen (bump t p f i leaf vs zero).
Proof.
  induction t as [|n r IH]; intros seen Ht Hp; cbn [bump].
  - cbn [parents_first]. split; [|exact I]. rewrite app_nil_r in Hp. exact Hp.
  - cbn [parents_first] in Ht. destruct Ht as [H1 H2]. destruct (N.eqb (n_id n) i).
    + cbn [parents_first n_parent n_id]. split; assumption.
    + cbn [parents_first]. split; [exact H1|]. apply IH; [exact H2|]. destruct Hp as [Hp|Hp]; [left; exact Hp|right].
      cbn [map] in Hp. apply in_app_or in Hp. apply in_or_app. destruct Hp as [Hp|[Hp|Hp]].
      * left. right. exact Hp.
      * left. left. exact Hp.
      * right. exact Hp.
Qed.

Lemma walk_parents_first h : forall rest t p d vs zero, parents_first [] t -> p = 0 \/ In p (map n_id t) ->
  parents_first [] (walk h t p d rest vs zero).
Proof.
  induction rest as [|f rest IH]; intros t p d vs zero Ht Hp; cbn [walk]; [exact Ht|].
  apply IH.
  - apply bump_parents_first; [exact Ht|exact Hp].
  - right. apply bump_keeps. right. reflexivity.
Qed.

Theorem stored_rows_parents_first h na nt ss : parents_first [] (stored_tree h na nt ss).
Proof.
  unfold stored_tree, post_process.
  assert (G : forall ss t, parents_first [] t -> parents_first [] (fold_left (add_sample h (zero_vals nt)) ss t)).
  { clear ss. induction ss as [|s ss IH]; intros t Ht; cbn [fold_left]; [exact Ht|]. apply IH. unfold add_sample.
    apply walk_parents_first; [exact Ht|left; reflexivity]. }
  apply G. exact I.
Qed.

(* the same as a rank that strictly decreases along every stored parent edge: the position of the row in insertion order *)
Fixpoint pos_of (x : N) (t : tree) : nat :=
  match t with
  | [] => O
  | n :: r => if N.eqb (n_id n) x then O else S (pos_of x r)
  end.

Lemma pos_of_in x t : In x (map n_id t) -> (pos_of x t < length t)%nat.
Proof.
  induction t as [|n r IH]; cbn [map In pos_of length]; [intros []|]. intros H. destruct (N.eqb (n_id n) x) eqn:E; [lia|].
  apply N.eqb_neq in E. destruct H as [H|H]; [contradiction|]. specialize (IH H). lia.
Qed.

Lemma parents_first_rank t : forall seen, parents_first seen t -> NoDup (map n_id t) ->
  forall n, In n t -> n_parent n = 0 \/ In (n_parent n) seen \/ (pos_of (n_parent n) t < pos_of (n_id n) t)%nat.
Proof.
  induction t as [|m r IH]; intros seen Ht Hnd n Hn; [destruct Hn|].
  cbn [parents_first] in Ht. destruct Ht as [H1 H2]. cbn [map] in Hnd. apply NoDup_cons_iff in Hnd. destruct Hnd as [Hnot Hnd].
  destruct Hn as [<-|Hn].
  - destruct H1 as [H1|H1]; [left; exact H1|right; left; exact H1].
  - destruct (IH _ H2 Hnd n Hn) as [H|[H|H]].
    + left. exact H.
    + destruct H as [H|H].
      * right. right. cbn [pos_of]. rewrite <- H, N.eqb_refl.
        destruct (N.eqb (n_id m) (n_id n)) eqn:E; [|lia]. apply N.eqb_eq in E. exfalso. apply Hnot. rewrite E. apply in_map. exact Hn.
      * right. left. exact H.
    + right. right. cbn [pos_of].
      destruct (N.eqb (n_id m) (n_id n)) eqn:E; [apply N.eqb_eq in E; exfalso; apply Hnot; rewrite E; apply in_map; exact Hn|].
      destruct (N.eqb (n_id m) (n_parent n)); lia.
Qed.

Theorem stored_rows_rank h na nt ss : let t := stored_tree h na nt ss in
  forall n, In n t -> n_parent n <> 0 -> (pos_of (n_parent n) t < pos_of (n_id n) t)%nat.
Proof.
  intros t n Hn Hp. destruct (post_process_nodup_range h nt (normalize na ss)) as [Hnd _].
  destruct (parents_first_rank t [] (stored_rows_parents_first h na nt ss) Hnd n Hn) as [H|[[]|H]]; [contradiction|exact H].
Qed.

(* ------------------------------------------------------------------ levels along stored parent edges (every hash) *)
Definition LevelInv (t : tree) : Prop :=
  forall n, In n t -> level_of (n_id n) = N.min (level_of (n_parent n) + 1) depth_clamp.

Lemma bump_levels t p f i leaf vs zero : LevelInv t -> level_of i = N.min (level_of p + 1) depth_clamp ->
  LevelInv (bump t p f i leaf vs zero).
Proof.
  intros Ht Hi m Hm. destruct (bump_in _ _ _ _ _ _ _ _ Hm) as [[n [Hn [Hp Hid]]]|[Hp Hid]].
  - rewrite Hp, Hid. apply Ht. exact Hn.
  - rewrite Hp, Hid. exact Hi.
Qed.

Lemma walk_levels h : forall rest t p d vs zero, LevelInv t -> level_of p = N.min (d - 1) depth_clamp -> 1 <= d ->
  LevelInv (walk h t p d rest vs zero).
Proof.
  induction rest as [|f rest IH]; intros t p d vs zero Ht Hp Hd; cbn [walk]; [exact Ht|].
  apply IH.
  - apply bump_levels; [exact Ht|]. rewrite node_level, Hp. unfold depth_clamp. lia.
  - rewrite node_level. f_equal. lia.
  - lia.
Qed.

Theorem stored_rows_levels h na nt ss : LevelInv (stored_tree h na nt ss).
Proof.
  unfold stored_tree, post_process.
  assert (G : forall ss t, LevelInv t -> LevelInv (fold_left (add_sample h (zero_vals nt)) ss t)).
  { clear ss. induction ss as [|s ss IH]; intros t Ht; cbn [fold_left]; [exact Ht|]. apply IH. unfold add_sample.
    apply walk_levels; [exact Ht|reflexivity|lia]. }
  apply G. intros n [].
Qed.

(* a chain of rows from x to y: each row names the previous id as its parent *)
Fixpoint chain (x : N) (rs : list node) (y : N) : Prop :=
  match rs with
  | [] => x = y
  | r :: rest => n_parent r = x /\ chain (n_id r) rest y
  end.

(* along a non-empty chain of rows with the level equation the level reaches at least min(level of the start + 1, 511):
   it grows strictly when the chain starts below the clamp, so a cycle (x = y) consists of ids of level >= 511 only *)
Theorem chain_levels : forall rs x y, (forall r, In r rs -> level_of (n_id r) = N.min (level_of (n_parent r) + 1) depth_clamp) ->
  rs <> [] -> chain x rs y -> N.min (level_of x + 1) depth_clamp <= level_of y.
Proof.
  induction rs as [|r rest IH]; intros x y Hl Hne Hc; [contradiction|].
  cbn [chain] in Hc. destruct Hc as [Hp Hc]. pose proof (Hl r (or_introl eq_refl)) as Hr. rewrite Hp in Hr.
  destruct rest as [|r' rest'].
  - cbn [chain] in Hc. subst y. rewrite Hr. lia.
  - pose proof (IH (n_id r) y (fun q Hq => Hl q (or_intror Hq)) ltac:(discriminate) Hc) as H1.
    rewrite Hr in H1. unfold depth_clamp in *. lia.
Qed.

Corollary cycle_only_at_clamp rs x : (forall r, In r rs -> level_of (n_id r) = N.min (level_of (n_parent r) + 1) depth_clamp) ->
  rs <> [] -> chain x rs x -> depth_clamp <= level_of x.
Proof. intros Hl Hne Hc. pose proof (chain_levels rs x x Hl Hne Hc) as H. unfold depth_clamp in *. lia. Qed.

Corollary no_cycle_through_row_below_clamp rs x : (forall r, In r rs -> level_of (n_id r) = N.min (level_of (n_parent r) + 1) depth_clamp) ->
  (exists r rest, rs = r :: rest /\ level_of (n_parent r) < depth_clamp) -> ~ chain x rs x.
Proof.
  intros Hl [r [rest [-> Hlt]]] Hc. pose proof (cycle_only_at_clamp _ _ Hl ltac:(discriminate) Hc) as H.
  cbn [chain] in Hc. destruct Hc as [Hp _]. rewrite Hp in Hlt. lia.
Qed.

(* profiles whose stacks have at most 511 frames: every stored row's parent lies below the clamp, so (chain_levels) no
   such row is on a cycle of any merged tree *)
Definition BelowClamp (t : tree) : Prop := forall n, In n t -> level_of (n_parent n) < depth_clamp.

Lemma walk_below h : forall rest t p d vs zero, BelowClamp t -> level_of p = d - 1 -> 1 <= d ->
  d + N.of_nat (length rest) <= depth_clamp + 1 -> BelowClamp (walk h t p d rest vs zero).
Proof.
  induction rest as [|f rest IH]; intros t p d vs zero Ht Hp Hd Hlen; cbn [walk]; [exact Ht|].
  cbn [length] in Hlen. apply IH.
  - intros m Hm. destruct (bump_in _ _ _ _ _ _ _ _ Hm) as [[n [Hn [Hpp _]]]|[Hpp _]].
    + rewrite Hpp. apply Ht. exact Hn.
    + rewrite Hpp, Hp. unfold depth_clamp in *. lia.
  - rewrite node_level. unfold depth_clamp in *. lia.
  - lia.
  - lia.
Qed.

Theorem shallow_rows_below_clamp h na nt ss :
  (forall s, In s ss -> (length (s_stack s) <= 511)%nat) -> BelowClamp (stored_tree h na nt ss).
Proof.
  intro Hs. unfold stored_tree, post_process.
  assert (G : forall ss t, (forall s, In s ss -> (1 <= length (s_stack s) <= 511)%nat) -> BelowClamp t ->
                           BelowClamp (fold_left (add_sample h (zero_vals nt)) ss t)).
  { clear. induction ss as [|s ss IH]; intros t Hs Ht; cbn [fold_left]; [exact Ht|].
    apply IH; [intros q Hq; apply Hs; right; exact Hq|]. unfold add_sample.
    apply walk_below; [exact Ht|reflexivity|lia|]. rewrite rev_length. specialize (Hs s (or_introl eq_refl)). unfold depth_clamp. lia. }
  apply G; [|intros n []]. intros s Hin. unfold normalize in Hin. apply in_map_iff in Hin. destruct Hin as [s0 [<- Hs0]].
  cbn [s_stack]. unfold eff_stack. specialize (Hs s0 Hs0). destruct (s_stack s0); cbn [length] in *; lia.
Qed.

Lemma shallow_profiles_never_on_a_cycle h na nt ss :
  (forall s, In s ss -> (length (s_stack s) <= 511)%nat) ->
  forall (rs : list node) (r : node) (rest : list node) (x : N),
    (forall q, In q rs -> level_of (n_id q) = N.min (level_of (n_parent q) + 1) depth_clamp) ->
    rs = r :: rest -> In r (stored_tree h na nt ss) -> ~ chain x rs x.
Proof.
  intros Hs rs r rest x Hl Hrs Hr. apply no_cycle_through_row_below_clamp; [exact Hl|].
  exists r, rest. split; [exact Hrs|]. exact (shallow_rows_below_clamp h na nt ss Hs r Hr).
Qed.

Example chain_levels_applies :
  let t := stored_tree city16 0 1 [ {| s_stack := [5; 7]; s_values := [1%Z] |} ] in
  exists r1 r2, t = [r1; r2] /\ chain 0 t (n_id r2) /\ level_of (n_id r1) = 1 /\ level_of (n_id r2) = 2 /\
                n_parent r2 = n_id r1 /\ (pos_of (n_parent r2) t < pos_of (n_id r2) t)%nat.
Proof. vm_compute. do 2 eexists. split; [reflexivity|]. cbn. repeat split; try reflexivity; try lia. Qed.

(* ------------------------------------------------------------------ int64 overflow of the totals
   every stored and merged number is an int64 sum that wraps silently; the theorems of this property are therefore
   equalities modulo 2^64.  The bound under which the flame graph total of a profile IS the sum of its sample values:
   the absolute values of the selected sample type add up to less than 2^63.  One step beyond (two samples of 2^62) the
   total wraps to -2^63 for every hash. *)
Open Scope Z_scope.
Definition abs_weight (k : nat) (ss : list sample) : Z := sumZ (map (fun s => Z.abs (nth k (s_values s) 0)) ss).

Lemma full_weight_abs k ss : Z.abs (full_weight k ss) <= abs_weight k ss.
Proof.
  unfold full_weight, abs_weight. induction ss as [|s ss IH]; unfold sumZ in *; cbn [map fold_right]; lia.
Qed.

Theorem root_total_exact h na nt ss k : (k < nt)%nat -> abs_weight k ss < two63 ->
  wrap64 (child_tot k (stored_tree h na nt ss) 0%N) = full_weight k ss.
Proof.
  intros Hk Hb. rewrite (root_sum_any_hash h na nt ss k Hk). apply wrap64_small.
  pose proof (full_weight_abs k ss). unfold two63 in *. lia.
Qed.

Definition overflow_profile : list sample :=
  [ {| s_stack := [1%N]; s_values := [4611686018427387904] |}; {| s_stack := [1%N]; s_values := [4611686018427387904] |} ].

Theorem root_total_wraps_beyond_bound : forall h na,
  abs_weight 0 overflow_profile = two63 /\
  full_weight 0 overflow_profile = two63 /\
  wrap64 (child_tot 0 (stored_tree h na 1 overflow_profile) 0%N) = - two63.
Proof.
  intros h na. split; [vm_compute; reflexivity|]. split; [vm_compute; reflexivity|].
  rewrite (root_sum_any_hash h na 1 overflow_profile 0 ltac:(lia)). vm_compute. reflexivity.
Qed.
