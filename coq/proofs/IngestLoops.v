(* C02: the loops of the ProcessRequest closures append like model/Ingest.v `eff` (see model/IngestBridge.v loops_ok). *)
From Coq Require Import List String ZArith NArith Bool Lia.
From Qryn Require Import model.Ingest model.IngestBridge.
Import ListNotations.
Open Scope string_scope.

Lemma opt_str_eqb_true : forall a b, opt_str_eqb a b = true -> a = Some b.
Proof.
  intros [x|] b H; cbn in H; [|discriminate H].
  apply String.eqb_eq in H. now subst.
Qed.

Lemma counts_aux : forall cs0 loops (len : string -> nat) (cs : list (string * string)) (fs : list string),
  List.length cs = List.length fs ->
  forallb (fun cf : (string * string) * string => opt_str_eqb (loop_count_field cs0 loops (fst (fst cf))) (snd cf)) (combine cs fs) = true ->
  map (fun cf : string * string => match loop_count_field cs0 loops (fst cf) with Some f => len f | None => O end) cs = map len fs.
Proof.
  intros cs0 loops len cs.
  induction cs as [|c cs IH]; intros [|f fs] L H; cbn in L; try discriminate L; [reflexivity|].
  cbn [combine forallb fst snd] in H. apply andb_true_iff in H. destruct H as [H1 H2].
  apply opt_str_eqb_true in H1.
  cbn [map]. rewrite H1. f_equal. apply IH; [lia|exact H2].
Qed.

(* every closure whose regenerated loop table passes loops_ok appends, to every column, one value per element of the field the
   model's eff counts for that column -- for EVERY request (any field lengths) *)
Theorem checked_loops_append_like_eff :
  forall gen lp s loops guarded k cs (len : string -> nat),
    loops_ok gen lp = true ->
    List.In (s, loops, guarded) lp ->
    service_kind s = Some k ->
    find (fun sc : string * list (string * string) => String.eqb (fst sc) s) gen = Some (s, cs) ->
    guarded = 0%Z
    /\ (forall l : loop_t, List.In l loops -> snd l = 0%Z)
    /\ appended_counts cs loops len = map len (count_fields k).
Proof.
  intros gen lp s loops guarded k cs len OK IN SK FD.
  unfold loops_ok in OK. apply andb_true_iff in OK. destruct OK as [_ OK].
  rewrite forallb_forall in OK. specialize (OK _ IN). cbn beta iota in OK.
  rewrite SK, FD in OK. cbn [snd fst] in OK.
  repeat (apply andb_true_iff in OK; destruct OK as [OK ?]).
  split; [apply Z.eqb_eq; assumption|]. split.
  - intros l INl. match goal with H : forallb (fun l : loop_t => Z.eqb (snd l) 0) loops = true |- _ => rewrite forallb_forall in H; apply Z.eqb_eq; apply H; exact INl end.
  - unfold appended_counts. apply counts_aux; [apply Nat.eqb_eq; assumption | assumption].
Qed.

(* hence a table (all fields of the request n elements long) makes every column grow by n: the open batch stays rectangular *)
Corollary checked_loops_keep_the_batch_rectangular :
  forall gen lp s loops guarded k cs (len : string -> nat) n,
    loops_ok gen lp = true -> List.In (s, loops, guarded) lp -> service_kind s = Some k ->
    find (fun sc : string * list (string * string) => String.eqb (fst sc) s) gen = Some (s, cs) ->
    (forall f, List.In f (count_fields k) -> len f = n) ->
    forall c, List.In c (appended_counts cs loops len) -> c = n.
Proof.
  intros gen lp s loops guarded k cs len n OK IN SK FD EQ c INc.
  destruct (checked_loops_append_like_eff gen lp s loops guarded k cs len OK IN SK FD) as (_ & _ & E).
  rewrite E in INc. apply in_map_iff in INc. destruct INc as (f & <- & INf). now apply EQ.
Qed.

(* non-vacuity: the table of the unchanged time-series closure passes; the seeded change C02-e (an `if` + `continue` in the loop that
   appends date and labels) does not, and neither does a table whose Labels column has a loop of its own over MLabels (eff_series
   counts MDate) *)
Definition six_tables (series : list loop_t) : list (string * list (string * string)) * list (string * list loop_t * Z) :=
  let simple k := map (fun f => (f, f)) (kind_fields k) in
  ([("metrics", simple KMetrics); ("profile", simple KProfile); ("samples", simple KSamples); ("time_series", series_columns_model);
    ("traces", simple KSpans); ("traces_tags", simple KTags)],
   [("metrics", [], 0%Z); ("profile", [], 0%Z); ("samples", [], 0%Z); ("time_series", series, 0%Z); ("traces", [], 0%Z); ("traces_tags", [], 0%Z)]).
Example unchanged_series_loops_pass : loops_ok (fst (six_tables series_loops_model)) (snd (six_tables series_loops_model)) = true.
Proof. vm_compute. reflexivity. Qed.
Example c02e_loops_are_rejected : loops_ok (fst (six_tables series_loops_c02e)) (snd (six_tables series_loops_c02e)) = false.
Proof. vm_compute. reflexivity. Qed.
Example labels_loop_of_its_own_is_rejected :
  loops_ok (fst (six_tables [("MDate", ["Date"], 0%Z); ("MLabels", ["Labels"], 0%Z)])) (snd (six_tables [("MDate", ["Date"], 0%Z); ("MLabels", ["Labels"], 0%Z)])) = false.
Proof. vm_compute. reflexivity. Qed.
Example series_counts_demo :
  appended_counts series_columns_model series_loops_model (fun f => if String.eqb f "MLabels" then 5 else 3)%nat = [3; 3; 3; 3]%nat.
Proof. vm_compute. reflexivity. Qed.
