(* Property C11, layers "group per trace" and "LIMIT": what ORDER BY max(timestamp_ns) DESC LIMIT k of the evaluator
   (a stable insertion sort followed by firstn) selects, and why the typed answer of index_grouped
   (TraceqlGroupedProofs.grouped_answer) over ANY content T of index_search that has the same members as the matched
   spans of the reference meaning is accepted by result_ok: every returned trace matches with exactly its matched spans,
   no trace twice, and the returned traces are all matching traces or a top-`limit` selection of them by recency.
   answer_ok.  Generic in the HAVING predicate (P on the SQL side, Pref on the reference side). *)
From Coq Require Import List ZArith NArith QArith String Ascii Bool Lia Permutation Sorted.
From Qryn Require Import model.TqSql model.Traceql model.TraceqlPlan model.TraceqlSem model.TraceqlCase
     proofs.TraceqlBridgeLib proofs.TraceqlIndexSearchProofs proofs.TraceqlGroupedProofs.
Import ListNotations.
Open Scope string_scope.
Open Scope list_scope.
Open Scope nat_scope.

Lemma in_skipn' {A} (x : A) : forall k l, In x (skipn k l) -> In x l.
Proof. induction k as [|k IH]; intros l H; [exact H|]. destruct l as [|y l]; [exact H|]. right. now apply IH. Qed.
Lemma in_firstn' {A} (x : A) : forall k l, In x (firstn k l) -> In x l.
Proof.
  induction k as [|k IH]; intros l H; [destruct H|]. destruct l as [|y l]; [destruct H|].
  destruct H as [->|H]; [now left|right; now apply IH].
Qed.

(* ================================================================ insertion sort, typed *)
Section SORT.
  Context {A : Type}.
  Fixpoint ins_desc (x : Z * A) (l : list (Z * A)) : list (Z * A) :=
    match l with
    | [] => [x]
    | y :: r => if (fst y <? fst x)%Z then x :: l else y :: ins_desc x r
    end.
  Definition isort (l : list (Z * A)) : list (Z * A) := fold_left (fun acc x => ins_desc x acc) l [].
  Definition enc (p : Z * A) : list value * A := ([VInt (fst p)], snd p).

  Lemma key_before_int x y : key_before [true] [VInt x] [VInt y] = Some (y <? x)%Z.
  Proof.
    cbn [key_before vleb]. destruct (Z.leb x y) eqn:E1, (Z.leb y x) eqn:E2; cbn [andb negb]; f_equal; lia.
  Qed.

  Lemma ins_sorted_enc x l : ins_sorted [true] (enc x) (map enc l) = Some (map enc (ins_desc x l)).
  Proof.
    induction l as [|y l IH]; [reflexivity|]. cbn [map ins_sorted ins_desc].
    unfold enc at 1 2. cbn [fst]. rewrite key_before_int.
    destruct (fst y <? fst x)%Z; [reflexivity|]. fold (enc x). now rewrite IH.
  Qed.

  Lemma sort_by_enc l : sort_by [true] (map enc l) = Some (map enc (isort l)).
  Proof.
    unfold sort_by, isort. change (Some (@nil (list value * A))) with (Some (map enc [])).
    generalize (@nil (Z * A)) as acc. induction l as [|x l IH]; intros acc; [reflexivity|].
    cbn [map fold_left]. rewrite ins_sorted_enc. apply IH.
  Qed.

  Definition desc (l : list (Z * A)) : Prop := StronglySorted (fun a b => (fst b <= fst a)%Z) l.

  Lemma ins_desc_perm x l : Permutation (x :: l) (ins_desc x l).
  Proof.
    induction l as [|y l IH]; [reflexivity|]. cbn [ins_desc]. destruct (fst y <? fst x)%Z; [reflexivity|].
    rewrite perm_swap. now constructor.
  Qed.
  Lemma ins_desc_sorted x l : desc l -> desc (ins_desc x l).
  Proof.
    induction l as [|y l IH]; intros H; cbn [ins_desc].
    - constructor; constructor.
    - inversion H as [|? ? Hs Hf]; subst. destruct (fst y <? fst x)%Z eqn:E.
      + constructor; [assumption|]. constructor; [lia|]. eapply Forall_impl; [|exact Hf]. intros b Hb. cbv beta in *. lia.
      + constructor; [now apply IH|].
        assert (Hp : Permutation (x :: l) (ins_desc x l)) by apply ins_desc_perm.
        eapply Permutation_Forall; [exact Hp|]. constructor; [lia|assumption].
  Qed.
  Lemma isort_spec l : Permutation l (isort l) /\ desc (isort l).
  Proof.
    unfold isort. assert (G : forall acc, desc acc -> Permutation (l ++ acc) (fold_left (fun a x => ins_desc x a) l acc)
                                                      /\ desc (fold_left (fun a x => ins_desc x a) l acc)).
    { induction l as [|x l IH]; intros acc Ha; cbn [fold_left app]; [split; [reflexivity|assumption]|].
      destruct (IH (ins_desc x acc) (ins_desc_sorted x acc Ha)) as [Hp Hd]. split; [|assumption].
      rewrite <- Hp. rewrite <- (ins_desc_perm x acc). apply Permutation_middle. }
    destruct (G [] (SSorted_nil _)) as [Hp Hd]. rewrite app_nil_r in Hp. now split.
  Qed.

  Lemma desc_firstn_skipn (S : list (Z * A)) : desc S -> forall k x y, In x (firstn k S) -> In y (skipn k S) -> (fst y <= fst x)%Z.
  Proof.
    induction 1 as [|a S' Hs IH Hf]; intros k x y Hx Hy.
    - destruct k; destruct Hx.
    - destruct k as [|k]; [destruct Hx|]. cbn [firstn skipn] in Hx, Hy. destruct Hx as [<-|Hx].
      + rewrite Forall_forall in Hf. apply Hf. eapply in_skipn'; exact Hy.
      + eapply IH; eassumption.
  Qed.
End SORT.

(* ================================================================ small list facts *)
Lemma distinct_strs_NoDup l : NoDup l -> distinct_strs l = true.
Proof.
  induction 1 as [|x l Hx Hnd IH]; [reflexivity|]. cbn [distinct_strs]. rewrite IH, andb_true_r.
  apply negb_true_iff. apply not_true_is_false. intros H. apply existsb_exists in H. destruct H as [y [Hy E]].
  apply String.eqb_eq in E. now subst y.
Qed.

Lemma same_set_iff a b : (forall x, In x a <-> In x b) -> same_set a b = true.
Proof.
  intros H. unfold same_set. apply andb_true_iff. split; apply forallb_forall; intros x Hx; apply existsb_exists; exists x;
    (split; [now apply H|apply String.eqb_refl]).
Qed.

Lemma NoDup_map_on {A B} (h : A -> B) l :
  NoDup l -> (forall x y, In x l -> In y l -> h x = h y -> x = y) -> NoDup (map h l).
Proof.
  induction 1 as [|x l Hx Hnd IH]; intros Hinj; cbn [map]; constructor.
  - intros Hin. apply in_map_iff in Hin. destruct Hin as [y [E Hy]].
    assert (y = x) by (apply Hinj; [now right|now left|assumption]). now subst y.
  - apply IH. intros a b Ha Hb. apply Hinj; now right.
Qed.

Lemma NoDup_app_l {A} (a b : list A) : NoDup (a ++ b) -> NoDup a.
Proof.
  induction a as [|x a IH]; intros H; [constructor|]. cbn [app] in H. inversion H as [|? ? Hx Hnd]; subst.
  constructor; [|now apply IH]. intros Hin. apply Hx. apply in_or_app. now left.
Qed.

Lemma NoDup_map_filter {A B} (h : A -> B) p l : NoDup (map h l) -> NoDup (map h (filter p l)).
Proof.
  induction l as [|x l IH]; intros H; [constructor|]. cbn [map] in H. inversion H as [|? ? Hx Hnd]; subst.
  cbn [filter]. destruct (p x); [|now apply IH]. cbn [map]. constructor; [|now apply IH].
  intros Hin. apply Hx. apply in_map_iff in Hin. destruct Hin as [y [E Hy]]. apply filter_In in Hy.
  apply in_map_iff. exists y. now split.
Qed.

Lemma flat_map_if {A B} (p : A -> bool) (h : A -> B) l :
  flat_map (fun x => if p x then [h x] else []) l = map h (filter p l).
Proof. induction l as [|x l IH]; [reflexivity|]. cbn [flat_map filter]. destruct (p x); cbn [map app]; now rewrite IH. Qed.

Lemma NoDup_nodup_by_str l : forall seen, NoDup (nodup_by String.eqb l seen).
Proof.
  induction l as [|x l IH]; intros seen; cbn [nodup_by]; [constructor|].
  destruct (existsb (String.eqb x) seen); [apply IH|]. constructor; [|apply IH].
  intros Hin. destruct (nodup_by_spec String.eqb String.eqb_refl String.eqb_sym l (x :: seen)) as [N1 _].
  destruct (N1 x Hin) as [_ Hex]. cbn [existsb] in Hex. now rewrite String.eqb_refl in Hex.
Qed.
Lemma nodup_by_str_in l x : In x (nodup_by String.eqb l []) <-> In x l.
Proof.
  destruct (nodup_by_spec String.eqb String.eqb_refl String.eqb_sym l []) as [N1 N2]. split.
  - intros H. now apply N1.
  - intros H. destruct (N2 x H) as [Hs|[r [Hr E]]]; [discriminate|]. apply String.eqb_eq in E. now subst r.
Qed.

(* ================================================================ the answer of index_grouped is accepted *)
Section ANSWER.
  Variable T : list mspan.             (* the rows of index_search *)
  Variable matched : list span.        (* the spans of the reference meaning that satisfy the selector *)
  Variable f : span -> mspan.
  Hypothesis f_trace : forall sp, m_trace (f sp) = sp_trace sp.
  Hypothesis f_span : forall sp, m_span (f sp) = sp_span sp.
  Hypothesis f_ts : forall sp, m_ts (f sp) = sp_ts sp.
  Hypothesis Hmem : forall m, In m T <-> exists sp, In sp matched /\ m = f sp.

  Variable P : list mspan -> bool.     (* HAVING, on the rows of one trace *)
  Variable Pref : list span -> bool.   (* the aggregate filter of the reference meaning, on the matched spans of one trace *)
  Definition ms (t : string) : list span := filter (fun sp => String.eqb (sp_trace sp) t) matched.
  Let G : list (list mspan) := group_rows same_tr T.
  Hypothesis HP : forall g, In g G -> P g = Pref (ms (g_trace g)).
  Hypothesis Hcap : forall g, In g G -> List.length g <= 100.      (* groupArray(100): more spans of a trace are cut off *)

  Variable c : ctx.
  Hypothesis Hk : (0 <= limit c)%Z.

  Definition mkt (t : string) : tres :=
    {| t_trace := t; t_spans := map sp_span (ms t); t_key := Zmax_l (map sp_ts (ms t)) |}.
  Definition traces_ref : list string := nodup_by String.eqb (map sp_trace matched) [].
  Definition all_ref : list tres := flat_map (fun t => if Pref (ms t) then [mkt t] else []) traces_ref.
  Let L : list string := filter (fun t => Pref (ms t)) traces_ref.
  Let KG : list (list mspan) := filter P G.

  Lemma all_ref_eq : all_ref = map mkt L.
  Proof. unfold all_ref, L. apply flat_map_if. Qed.

  (* ---------- the groups ---------- *)
  Lemma grp_shape g : In g G -> exists r0 g', g = r0 :: g' /\ g = filter (same_tr r0) T.
  Proof. intros Hg. destruct (group_rows_spec same_tr same_tr_refl same_tr_sym same_tr_trans T) as [Hcls _]. now apply Hcls. Qed.

  Lemma grp_members g : In g G -> forall m, In m g <-> In m T /\ m_trace m = g_trace g.
  Proof.
    intros Hg m. destruct (grp_shape g Hg) as [r0 [g' [E Ef]]]. rewrite Ef at 1. rewrite filter_In. subst g. cbn [g_trace].
    unfold same_tr. rewrite String.eqb_eq. split; intros [H1 H2]; split; auto.
  Qed.

  Lemma grp_proj {X} (pm : mspan -> X) (ps : span -> X) : (forall sp, pm (f sp) = ps sp) ->
    forall g, In g G -> forall x, In x (map pm g) <-> In x (map ps (ms (g_trace g))).
  Proof.
    intros Hpf g Hg x. rewrite !in_map_iff. split.
    - intros [m [<- Hm]]. apply (grp_members g Hg) in Hm. destruct Hm as [HmT Et].
      apply Hmem in HmT. destruct HmT as [sp [Hsp ->]]. exists sp. split; [symmetry; apply Hpf|].
      unfold ms. apply filter_In. split; [assumption|]. rewrite f_trace in Et. rewrite Et. apply String.eqb_refl.
    - intros [sp [<- Hsp]]. unfold ms in Hsp. apply filter_In in Hsp. destruct Hsp as [Hsp Et]. apply String.eqb_eq in Et.
      exists (f sp). split; [apply Hpf|]. apply (grp_members g Hg). split; [apply Hmem; now exists sp|now rewrite f_trace].
  Qed.

  Lemma grp_nonempty g : In g G -> g <> [].
  Proof. intros Hg. destruct (grp_shape g Hg) as [r0 [g' [-> _]]]. discriminate. Qed.

  Lemma grp_key g : In g G -> g_key g = t_key (mkt (g_trace g)).
  Proof.
    intros Hg. unfold g_key, mkt. cbn [t_key]. apply Zmax_l_set.
    - destruct (grp_shape g Hg) as [r0 [g' [-> _]]]. discriminate.
    - exact (grp_proj m_ts sp_ts f_ts g Hg).
  Qed.

  Lemma grp_spans_set g : In g G -> same_set (g_spans g) (t_spans (mkt (g_trace g))) = true.
  Proof.
    intros Hg. apply same_set_iff. intros x. unfold g_spans. rewrite firstn_all2 by (rewrite map_length; now apply Hcap).
    exact (grp_proj m_span sp_span f_span g Hg x).
  Qed.

  Lemma grp_trace_ref g : In g G -> In (g_trace g) traces_ref.
  Proof.
    intros Hg. destruct (grp_shape g Hg) as [r0 [g' [E Ef]]].
    assert (Hr0 : In r0 g) by (rewrite E; now left). apply (grp_members g Hg) in Hr0. destruct Hr0 as [HT Et].
    apply Hmem in HT. destruct HT as [sp [Hsp ->]]. unfold traces_ref. apply nodup_by_str_in. rewrite <- Et, f_trace. now apply in_map.
  Qed.

  Lemma ref_trace_grp t : In t traces_ref -> exists g, In g G /\ g_trace g = t.
  Proof.
    intros Ht. unfold traces_ref in Ht. apply (proj1 (nodup_by_str_in _ _)) in Ht. apply in_map_iff in Ht. destruct Ht as [sp [<- Hsp]].
    assert (HT : In (f sp) T) by (apply Hmem; now exists sp).
    destruct (group_rows_spec same_tr same_tr_refl same_tr_sym same_tr_trans T) as [_ [Hcov _]].
    destruct (Hcov (f sp) HT) as [g [r0 [g' [Hg [E Er]]]]]. exists g. split; [assumption|]. subst g. cbn [g_trace].
    unfold same_tr in Er. apply String.eqb_eq in Er. now rewrite Er, f_trace.
  Qed.

  Lemma grp_traces_NoDup : NoDup (map g_trace G).
  Proof.
    destruct (group_rows_spec same_tr same_tr_refl same_tr_sym same_tr_trans T) as [Hcls [_ [Hdis Hnd]]].
    apply NoDup_map_on; [assumption|]. intros g1 g2 H1 H2 E.
    destruct (Hcls g1 H1) as [r1 [t1 [E1 _]]]. destruct (Hcls g2 H2) as [r2 [t2 [E2 _]]].
    apply (Hdis g1 g2 r1 r2 t1 t2 H1 H2 E1 E2). subst g1 g2. cbn [g_trace] in E. unfold same_tr. rewrite E. apply String.eqb_refl.
  Qed.

  (* the traces of the kept groups are the traces of the reference answer *)
  Lemma kept_traces t : In t (map g_trace KG) <-> In t L.
  Proof.
    unfold KG, L. rewrite in_map_iff, filter_In. split.
    - intros [g [<- Hg]]. apply filter_In in Hg. destruct Hg as [Hg Hp]. split; [now apply grp_trace_ref|]. now rewrite <- (HP g Hg).
    - intros [Ht Hp]. destruct (ref_trace_grp t Ht) as [g [Hg <-]]. exists g. split; [reflexivity|].
      apply filter_In. split; [assumption|]. now rewrite (HP g Hg).
  Qed.
  Lemma L_NoDup : NoDup L.
  Proof. unfold L. apply NoDup_filter. apply NoDup_nodup_by_str. Qed.
  Lemma KG_traces_NoDup : NoDup (map g_trace KG).
  Proof. unfold KG. apply NoDup_map_filter. apply grp_traces_NoDup. Qed.
  Lemma KG_length : List.length KG = List.length L.
  Proof.
    rewrite <- (map_length g_trace KG). apply Permutation_length.
    apply NoDup_Permutation; [apply KG_traces_NoDup|apply L_NoDup|apply kept_traces].
  Qed.

  Lemma find_mkt t l : In t l -> find_tres t (map mkt l) = Some (mkt t).
  Proof.
    unfold find_tres. induction l as [|t0 l IH]; intros H; [destruct H|]. cbn [map find t_trace mkt].
    destruct (String.eqb t0 t) eqn:E; [apply String.eqb_eq in E; now subst t0|].
    apply IH. destruct H as [->|H]; [now rewrite String.eqb_refl in E|assumption].
  Qed.

  (* ---------- what is selected ---------- *)
  Definition lim_of : option expr := if Z.eqb (limit c) 0 then None else Some (IntV (limit c)).

  Definition sel_spec (SEL : list (list mspan)) : Prop :=
    exists rest, Permutation (SEL ++ rest) KG
                 /\ (limit c = 0%Z -> rest = [])
                 /\ (limit c <> 0%Z -> List.length SEL = Nat.min (Z.to_nat (limit c)) (List.length KG))
                 /\ forall x y, In x SEL -> In y rest -> (g_key y <= g_key x)%Z.

  Lemma grouped_answer_spec SEL : grouped_answer T P lim_of = Some SEL -> sel_spec SEL.
  Proof.
    unfold grouped_answer, lim_of, tgroups. fold G. fold KG. destruct (Z.eqb (limit c) 0) eqn:E0.
    - intros H. injection H as <-. exists []. rewrite app_nil_r. repeat split; try reflexivity.
      + intros Hn. apply Z.eqb_eq in E0. contradiction.
      + intros x y _ [].
    - change (map (fun g => ([VInt (g_key g)], g)) KG) with (map (fun g => enc (g_key g, g)) KG).
      rewrite <- (map_map (fun g => (g_key g, g)) enc), sort_by_enc.
      set (S := isort (map (fun g => (g_key g, g)) KG)). intros H. injection H as <-.
      destruct (isort_spec (map (fun g => (g_key g, g)) KG)) as [Hp Hd]. fold S in Hp, Hd.
      rewrite map_map. cbn [enc snd]. set (k := Z.to_nat (limit c)).
      assert (Hkeys : forall p, In p S -> fst p = g_key (snd p)).
      { intros p Hp'. apply (Permutation_in _ (Permutation_sym Hp)) in Hp'. apply in_map_iff in Hp'. destruct Hp' as [g [<- _]]. reflexivity. }
      change (fun x : Z * list mspan => snd x) with (@snd Z (list mspan)). rewrite firstn_map.
      exists (map snd (skipn k S)). split; [|split; [|split]].
      + rewrite <- map_app, firstn_skipn.
        assert (E : KG = map snd (map (fun g => (g_key g, g)) KG)) by (rewrite map_map; cbn [snd]; now rewrite map_id).
        apply Permutation_sym. rewrite E. apply Permutation_map. exact Hp.
      + intros Hz. rewrite Hz in E0. discriminate.
      + intros _. rewrite map_length, firstn_length. f_equal.
        rewrite <- (Permutation_length Hp). now rewrite map_length.
      + intros x y Hx Hy.
        apply in_map_iff in Hx. destruct Hx as [px [<- Hx]]. apply in_map_iff in Hy. destruct Hy as [py [<- Hy]].
        rewrite <- (Hkeys px) by (eapply in_firstn'; exact Hx).
        rewrite <- (Hkeys py) by (eapply in_skipn'; exact Hy).
        eapply desc_firstn_skipn; eassumption.
  Qed.

  Theorem answer_ok_j (J : list string -> list string -> bool) SEL :
    (forall g, In g G -> J (g_spans g) (t_spans (mkt (g_trace g))) = true) ->
    grouped_answer T P lim_of = Some SEL ->
    result_ok_j J c all_ref (map (fun g => (g_trace g, g_spans g)) SEL) = true.
  Proof.
    intros HJ Hans. destruct (grouped_answer_spec SEL Hans) as [rest [Hperm [Hz [Hlen Htop]]]].
    assert (HselKG : forall g, In g SEL -> In g KG).
    { intros g Hg. eapply Permutation_in; [exact Hperm|]. apply in_or_app. now left. }
    assert (HKG : forall g, In g KG -> In g G /\ In (g_trace g) L).
    { intros g Hg. split; [unfold KG in Hg; now apply filter_In in Hg|]. apply kept_traces. now apply in_map. }
    set (res := map (fun g => (g_trace g, g_spans g)) SEL).
    assert (Hkeyed : flat_map (fun r => match find_tres (fst r) all_ref with
                                        | Some t => if J (snd r) (t_spans t) then [t] else []
                                        | None => [] end) res
                     = map (fun g => mkt (g_trace g)) SEL).
    { unfold res. clear Hperm Hz Hlen Htop Hans. induction SEL as [|g l IH]; [reflexivity|].
      cbn [map flat_map fst snd]. destruct (HKG g (HselKG g (or_introl eq_refl))) as [HgG HgL].
      rewrite all_ref_eq, (find_mkt _ _ HgL), (HJ g HgG). cbn [app]. f_equal.
      rewrite <- all_ref_eq. apply IH. intros g' Hg'. apply HselKG. now right. }
    unfold result_ok_j. fold res. rewrite Hkeyed. apply andb_true_iff. split; [apply andb_true_iff; split|].
    - unfold res. rewrite !map_length. apply Nat.eqb_refl.
    - apply distinct_strs_NoDup. unfold res. rewrite map_map. cbn [fst].
      assert (Hnd : NoDup (map g_trace (SEL ++ rest))).
      { eapply Permutation_NoDup; [apply Permutation_map; symmetry; exact Hperm|apply KG_traces_NoDup]. }
      rewrite map_app in Hnd. now apply NoDup_app_l in Hnd.
    - unfold is_topk. apply andb_true_iff. split; [apply andb_true_iff; split|].
      + apply forallb_forall. intros x Hx. apply in_map_iff in Hx. destruct Hx as [g [<- Hg]].
        apply existsb_exists. exists (mkt (g_trace g)). split.
        * rewrite all_ref_eq. apply in_map. now apply (HKG g (HselKG g Hg)).
        * now rewrite String.eqb_refl, Z.eqb_refl.
      + rewrite map_length, all_ref_eq, map_length, <- KG_length.
        destruct (Z.eqb (limit c) 0) eqn:E0.
        * apply Z.eqb_eq in E0. rewrite <- (Permutation_length Hperm), (Hz E0), app_nil_r. apply Nat.eqb_refl.
        * apply Z.eqb_neq in E0. rewrite (Hlen E0). apply Nat.eqb_refl.
      + apply forallb_forall. intros y Hy. rewrite all_ref_eq in Hy. apply in_map_iff in Hy. destruct Hy as [t [<- Ht]].
        apply kept_traces in Ht. apply in_map_iff in Ht. destruct Ht as [g [<- Hg]].
        assert (Hg' : In g (SEL ++ rest)) by (eapply Permutation_in; [symmetry; exact Hperm|exact Hg]).
        apply orb_true_iff. apply in_app_or in Hg'. destruct Hg' as [Hs|Hr].
        * left. apply existsb_exists. exists (mkt (g_trace g)). split; [now apply in_map_iff; exists g|apply String.eqb_refl].
        * right. apply forallb_forall. intros x Hx. apply in_map_iff in Hx. destruct Hx as [g' [<- Hg'']].
          apply Z.leb_le. rewrite <- (grp_key g) by (now apply (HKG g Hg)). rewrite <- (grp_key g') by (now apply (HKG g' (HselKG g' Hg''))).
          now apply Htop.
  Qed.


  (* the span list of a group against the matched spans of its trace when more than 100 may match: the first 100 of a duplicate-free
     list with the same members *)
  Lemma NoDup_firstn {A} (l : list A) : forall k, NoDup l -> NoDup (firstn k l).
  Proof.
    induction l as [|x l IH]; intros k H; [destruct k; constructor|]. destruct k as [|k]; [constructor|]. cbn [firstn].
    inversion H as [|? ? Hx Hnd]; subst. constructor; [|now apply IH]. intros Hin. apply Hx. eapply in_firstn'; exact Hin.
  Qed.
  Lemma grp_spans_cap g : In g G -> NoDup (map m_span g) -> NoDup (map sp_span (ms (g_trace g))) ->
    cap_set 100 (g_spans g) (t_spans (mkt (g_trace g))) = true.
  Proof.
    intros Hg N1 N2. unfold cap_set, g_spans. cbn [mkt t_spans].
    pose proof (grp_proj m_span sp_span f_span g Hg) as Hset.
    apply andb_true_iff. split; [apply andb_true_iff; split|].
    - apply forallb_forall. intros x Hx. apply existsb_exists. exists x. split; [|apply String.eqb_refl]. apply Hset. eapply in_firstn'; exact Hx.
    - apply distinct_strs_NoDup. now apply NoDup_firstn.
    - apply Nat.eqb_eq. rewrite firstn_length. f_equal. apply Permutation_length. now apply NoDup_Permutation.
  Qed.

  Theorem answer_ok SEL : grouped_answer T P lim_of = Some SEL ->
    result_ok c all_ref (map (fun g => (g_trace g, g_spans g)) SEL) = true.
  Proof. intros Hans. apply (answer_ok_j same_set SEL); [|exact Hans]. intros g Hg. now apply grp_spans_set. Qed.
End ANSWER.
