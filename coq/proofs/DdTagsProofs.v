(* Proofs about model/DdTags.v (property C04): on a ddtags text that IS a comma-separated list of well-formed tags (any
   well-formed UTF-8 runes of the classes) the walk of the regular expression returns exactly those tags, in order. *)
From Coq Require Import List ZArith Lia String Ascii Bool Permutation.
From Qryn Require Import model.GoQuote model.GoJson model.DdTags.
Import ListNotations.
Open Scope Z_scope.

(* ------------------------------------------------------------------ DecodeRuneInString looks at the rune's own bytes only *)
Lemma decode_rune_app s t r w : decode_rune s = Some (r, w) ->
  decode_rune (append s t) = Some (r, w) /\ (1 <= w <= String.length s)%nat.
Proof.
  destruct s as [|c0 s]; [discriminate|]. unfold decode_rune. cbn [append].
  destruct (byte c0 <? 128); [intros H; inversion H; subst; split; [reflexivity|cbn [String.length]; lia]|].
  destruct (in_rng 194 223 (byte c0)).
  { destruct s as [|c1 s]; [discriminate|]. cbn [append]. destruct (is_cont (byte c1)); [|discriminate].
    intros H; inversion H; subst; split; [reflexivity|cbn [String.length]; lia]. }
  destruct (in_rng 224 239 (byte c0)).
  { destruct s as [|c1 [|c2 s]]; try discriminate. cbn [append].
    destruct (in_rng (if byte c0 =? 224 then 160 else 128) (if byte c0 =? 237 then 159 else 191) (byte c1) && is_cont (byte c2)); [|discriminate].
    intros H; inversion H; subst; split; [reflexivity|cbn [String.length]; lia]. }
  destruct (in_rng 240 244 (byte c0)); [|discriminate].
  destruct s as [|c1 [|c2 [|c3 s]]]; try discriminate. cbn [append].
  destruct (in_rng (if byte c0 =? 240 then 144 else 128) (if byte c0 =? 244 then 143 else 191) (byte c1) && is_cont (byte c2) && is_cont (byte c3)); [|discriminate].
  intros H; inversion H; subst; split; [reflexivity|cbn [String.length]; lia].
Qed.

Lemma length_append a b : String.length (append a b) = (String.length a + String.length b)%nat.
Proof. induction a as [|c a IH]; cbn [append String.length]; [reflexivity|now rewrite IH]. Qed.
Lemma append_nil_r s : append s EmptyString = s.
Proof. induction s as [|c s IH]; cbn [append]; [reflexivity|now rewrite IH]. Qed.
Lemma append_assoc a b c : append (append a b) c = append a (append b c).
Proof. induction a as [|x a IH]; cbn [append]; [reflexivity|now rewrite IH]. Qed.

Lemma sdrop_app : forall w s t, (w <= String.length s)%nat -> sdrop w (append s t) = append (sdrop w s) t.
Proof.
  induction w as [|w IH]; intros s t H; [destruct s; reflexivity|].
  destruct s as [|c s]; [cbn in H; lia|]. cbn [append sdrop]. apply IH. cbn [String.length] in H. lia.
Qed.
Lemma stake_app : forall w s t, (w <= String.length s)%nat -> stake w (append s t) = stake w s.
Proof.
  induction w as [|w IH]; intros s t H; [destruct s; reflexivity|].
  destruct s as [|c s]; [cbn in H; lia|]. cbn [append stake]. f_equal. apply IH. cbn [String.length] in H. lia.
Qed.
Lemma stake_sdrop : forall w s, append (stake w s) (sdrop w s) = s.
Proof.
  induction w as [|w IH]; intros s; [destruct s; reflexivity|]. destruct s as [|c s]; [reflexivity|].
  cbn [stake sdrop append]. now rewrite IH.
Qed.
Lemma sdrop_length : forall w s, (w <= String.length s)%nat -> String.length (sdrop w s) = (String.length s - w)%nat.
Proof.
  induction w as [|w IH]; intros s H; [destruct s; cbn; lia|]. destruct s as [|c s]; [cbn in H; lia|].
  cbn [sdrop String.length]. rewrite IH; [lia|]. cbn [String.length] in H. lia.
Qed.

Section P.
  Variable lh : Z -> bool.

  (* s consists of well-formed UTF-8 runes that all satisfy p *)
  Fixpoint rune_run (p : Z -> bool) (fuel : nat) (s : string) : bool :=
    match s with
    | EmptyString => true
    | String _ _ =>
      match fuel with
      | O => false
      | S f => match decode_rune s with
               | Some (r, w) => p r && rune_run p f (sdrop w s)
               | None => false
               end
      end
    end.
  (* name: a letter, then name runes; value: at least one value rune *)
  Definition wf_name (s : string) : bool :=
    match decode_rune s with
    | Some (r, _) => is_letter lh r && rune_run (name_rune lh) (String.length s) s
    | None => false
    end.
  Definition wf_value (s : string) : bool :=
    match s with EmptyString => false | _ => rune_run (value_rune lh) (String.length s) s end.
  Definition wf_tag (kv : string * string) : bool := wf_name (fst kv) && wf_value (snd kv).
  Definition tag_text (kv : string * string) : string := append (fst kv) (String ":" (snd kv)).
  Definition tags_text (tags : list (string * string)) : string := join_with "," (map tag_text tags).

  Lemma rune_at_ascii c r : byte c <? 128 = true -> rune_at (String c r) = (byte c, 1%nat).
  Proof. intros H. unfold rune_at, decode_rune. now rewrite H. Qed.

  (* the maximal run: all of s1, when what follows is empty or an ASCII byte outside the class *)
  Lemma span_run (p : Z -> bool) : forall f s1 rest fuel,
    rune_run p f s1 = true ->
    (rest = EmptyString \/ exists d r, rest = String d r /\ byte d <? 128 = true /\ p (byte d) = false) ->
    (String.length (append s1 rest) <= fuel)%nat ->
    span p fuel (append s1 rest) = (s1, rest).
  Proof.
    induction f as [|f IH]; intros s1 rest fuel Hrun Hrest Hf.
    - destruct s1 as [|c s1]; [|discriminate Hrun]. cbn [append] in *.
      destruct Hrest as [->|[d [r [-> [Hd Hp]]]]]; [destruct fuel; reflexivity|].
      destruct fuel as [|fu]; [cbn in Hf; lia|]. cbn [span]. rewrite (rune_at_ascii d r Hd). now rewrite Hp.
    - destruct s1 as [|c s1].
      + cbn [append] in *. destruct Hrest as [->|[d [r [-> [Hd Hp]]]]]; [destruct fuel; reflexivity|].
        destruct fuel as [|fu]; [cbn in Hf; lia|]. cbn [span]. rewrite (rune_at_ascii d r Hd). now rewrite Hp.
      + cbn [rune_run] in Hrun. destruct (decode_rune (String c s1)) as [[r w]|] eqn:Ed; [|discriminate Hrun].
        apply andb_true_iff in Hrun. destruct Hrun as [Hp Hrun].
        destruct (decode_rune_app _ rest _ _ Ed) as [Ed' [Hw1 Hw2]].
        destruct fuel as [|fu]; [cbn in Hf; lia|].
        change (append (String c s1) rest) with (String c (append s1 rest)) in *.
        cbn [span]. unfold rune_at. rewrite Ed'. rewrite Hp.
        change (String c (append s1 rest)) with (append (String c s1) rest).
        rewrite (sdrop_app w (String c s1) rest Hw2), (stake_app w (String c s1) rest Hw2).
        rewrite (IH (sdrop w (String c s1)) rest fu Hrun Hrest).
        * now rewrite stake_sdrop.
        * rewrite length_append, sdrop_length by exact Hw2.
          change (String c (append s1 rest)) with (append (String c s1) rest) in Hf. rewrite length_append in Hf. lia.
  Qed.

  Lemma byte_colon : byte ":" = 58. Proof. reflexivity. Qed.
  Lemma byte_comma : byte "," = 44. Proof. reflexivity. Qed.

  (* one well-formed tag at the head of the text, followed by the end or by a comma *)
  Lemma match_here_tag n v tail :
    wf_name n = true -> wf_value v = true ->
    (tail = EmptyString \/ exists r, tail = String "," r) ->
    match_here lh (append n (String ":" (append v tail))) =
    Some ((n, v), match tail with EmptyString => EmptyString | String _ r => r end).
  Proof.
    intros Hn Hv Htail. unfold match_here. unfold wf_name in Hn.
    destruct (decode_rune n) as [[r0 w0]|] eqn:Ed; [|discriminate Hn].
    apply andb_true_iff in Hn. destruct Hn as [Hl Hrun].
    destruct (decode_rune_app n (String ":" (append v tail)) _ _ Ed) as [Ed' _].
    unfold rune_at at 1. rewrite Ed'. cbn [fst]. rewrite Hl.
    rewrite (span_run (name_rune lh) (String.length n) n (String ":" (append v tail))); cycle 1.
    - exact Hrun.
    - right. exists ":"%char, (append v tail). split; [reflexivity|]. split; reflexivity.
    - apply Nat.le_refl.
    - rewrite byte_colon. cbn [Z.eqb Pos.eqb].
      destruct v as [|d v']; [discriminate Hv|]. cbn [wf_value] in Hv.
      rewrite (span_run (value_rune lh) (String.length (String d v')) (String d v') tail); cycle 1.
      + exact Hv.
      + destruct Htail as [->|[r ->]]; [now left|]. right. exists ","%char, r. split; [reflexivity|]. split; reflexivity.
      + apply Nat.le_refl.
      + destruct Htail as [->|[r ->]]; [reflexivity|]. rewrite byte_comma. reflexivity.
  Qed.

  Lemma wf_name_nonempty n : wf_name n = true -> exists c r, n = String c r.
  Proof. unfold wf_name. destruct n as [|c r]; [discriminate|eauto]. Qed.

  Lemma tags_text_cons kv kv2 tags : tags_text (kv :: kv2 :: tags) = append (tag_text kv) (String "," (tags_text (kv2 :: tags))).
  Proof. reflexivity. Qed.

  Lemma dd_tags_f_tags : forall tags fuel,
    forallb wf_tag tags = true -> (String.length (tags_text tags) <= fuel)%nat ->
    dd_tags_f lh fuel (tags_text tags) = tags.
  Proof.
    induction tags as [|kv tags IH]; intros fuel Hwf Hf.
    - destruct fuel; reflexivity.
    - cbn [forallb] in Hwf. apply andb_true_iff in Hwf. destruct Hwf as [Hkv Hwf].
      pose proof Hkv as Hkv'. unfold wf_tag in Hkv'. apply andb_true_iff in Hkv'. destruct Hkv' as [Hn Hv].
      destruct kv as [n v]. cbn [fst snd] in Hn, Hv.
      destruct (wf_name_nonempty n Hn) as [c [r En]].
      destruct tags as [|kv2 tags'].
      + pose proof (match_here_tag n v EmptyString Hn Hv (or_introl eq_refl)) as M1.
        unfold tags_text in *. cbn [map join_with] in *. unfold tag_text in *. cbn [fst snd] in *.
        rewrite append_nil_r in M1.
        destruct fuel as [|f]; [subst n; cbn in Hf; lia|].
        assert (Es : exists c' r', append n (String ":" v) = String c' r') by (subst n; cbn [append]; eauto).
        destruct Es as [c' [r' Es]]. cbn [dd_tags_f]. rewrite Es. rewrite <- Es. rewrite M1. destruct f; reflexivity.
      + pose proof (match_here_tag n v (String "," (tags_text (kv2 :: tags'))) Hn Hv (or_intror (ex_intro _ _ eq_refl))) as M2.
        assert (E : tags_text ((n, v) :: kv2 :: tags') = append n (String ":" (append v (String "," (tags_text (kv2 :: tags')))))).
        { rewrite tags_text_cons. unfold tag_text. cbn [fst snd]. rewrite append_assoc. reflexivity. }
        rewrite E in *. destruct fuel as [|f]; [subst n; cbn in Hf; lia|].
        assert (Es : exists c' r', append n (String ":" (append v (String "," (tags_text (kv2 :: tags'))))) = String c' r') by (subst n; cbn [append]; eauto).
        destruct Es as [c' [r' Es]]. cbn [dd_tags_f]. rewrite Es. rewrite <- Es. rewrite M2. f_equal.
        apply IH; [exact Hwf|]. rewrite !length_append in Hf. cbn [String.length] in Hf. rewrite !length_append in Hf.
        cbn [String.length] in Hf. subst n. cbn [String.length] in Hf. lia.
  Qed.

  (* the regular expression inverts the rendering of well-formed tags *)
  Theorem dd_tags_of_tags_text tags : forallb wf_tag tags = true -> dd_tags lh (tags_text tags) = tags.
  Proof. intros H. unfold dd_tags. apply dd_tags_f_tags; [exact H|apply Nat.le_refl]. Qed.
End P.

(* "é" = c3 a9 (U+00E9), "日" = e6 97 a5 (U+65E5): letters by the oracle *)
Definition ex_letter_hi (r : Z) : bool := (r =? 233) || (r =? 26085).
Definition s_e_acute : string := String (chr 195) (String (chr 169) EmptyString).
Definition s_ri : string := String (chr 230) (String (chr 151) (String (chr 165) EmptyString)).
Example dd_tags_hypotheses_met :
  forallb (wf_tag ex_letter_hi) [("env", "prod"); ("k8s.pod/name", "web-1:8080"); ("a\b", "c/d");
                                 (append s_e_acute "n0", append "caf" s_e_acute); (s_ri, s_ri)]%string = true /\
  tags_text [("env", "prod"); ("k8s.pod/name", "web-1:8080")]%string = "env:prod,k8s.pod/name:web-1:8080"%string.
Proof. split; vm_compute; reflexivity. Qed.

(* outside the well-formed fragment the walk still is what Go's regexp does (compared with the code on every run);
   e.g. a tag whose name starts with a digit loses the digit, junk between commas is skipped *)
Example dd_tags_junk :
  dd_tags (fun _ => false) "9x:1,novalue,a b:c,k:v!,x:y:z"%string = [("x", "1"); ("b", "c"); ("x", "y:z")]%string.
Proof. vm_compute. reflexivity. Qed.
