(* Proofs about model/DdTags.v (property C04): on a ddtags text that IS a comma-separated list of well-formed ASCII tags the
   walk of the regular expression returns exactly those tags, in order. *)
From Coq Require Import List ZArith Lia String Ascii Bool Permutation.
From Qryn Require Import model.GoQuote model.GoJson model.DdTags.
Import ListNotations.
Open Scope Z_scope.

Section P.
  Variable lh : Z -> bool.

  Definition a_name_byte (c : ascii) : bool := (byte c <? 128) && name_rune lh (byte c).
  Definition a_value_byte (c : ascii) : bool := (byte c <? 128) && value_rune lh (byte c).
  Fixpoint all_bytes (p : ascii -> bool) (s : string) : bool :=
    match s with EmptyString => true | String c r => p c && all_bytes p r end.
  (* name: an ASCII letter, then ASCII name bytes; value: at least one ASCII value byte *)
  Definition wf_name (s : string) : bool :=
    match s with
    | EmptyString => false
    | String c r => (byte c <? 128) && is_letter lh (byte c) && all_bytes a_name_byte s
    end.
  Definition wf_value (s : string) : bool :=
    match s with EmptyString => false | _ => all_bytes a_value_byte s end.
  Definition wf_tag (kv : string * string) : bool := wf_name (fst kv) && wf_value (snd kv).
  Definition tag_text (kv : string * string) : string := append (fst kv) (String ":" (snd kv)).
  Definition tags_text (tags : list (string * string)) : string := join_with "," (map tag_text tags).

  Lemma rune_at_ascii c r : byte c <? 128 = true -> rune_at (String c r) = (byte c, 1%nat).
  Proof. intros H. unfold rune_at, decode_rune. now rewrite H. Qed.

  Lemma length_append a b : String.length (append a b) = (String.length a + String.length b)%nat.
  Proof. induction a as [|c a IH]; cbn [append String.length]; [reflexivity|now rewrite IH]. Qed.

  (* the maximal run: all of s1, when what follows is empty or an ASCII byte outside the class *)
  Lemma span_ascii (p : Z -> bool) : forall s1 rest fuel,
    all_bytes (fun c => (byte c <? 128) && p (byte c)) s1 = true ->
    (rest = EmptyString \/ exists d r, rest = String d r /\ byte d <? 128 = true /\ p (byte d) = false) ->
    (String.length (append s1 rest) <= fuel)%nat ->
    span p fuel (append s1 rest) = (s1, rest).
  Proof.
    induction s1 as [|c s1 IH]; intros rest fuel Hall Hrest Hf; cbn [append] in *.
    - destruct Hrest as [->|[d [r [-> [Hd Hp]]]]]; [destruct fuel; reflexivity|].
      destruct fuel as [|f]; [cbn in Hf; lia|].
      cbn [span]. rewrite (rune_at_ascii d r Hd). now rewrite Hp.
    - destruct fuel as [|f]; [cbn in Hf; lia|]. cbn [all_bytes] in Hall. apply andb_true_iff in Hall.
      destruct Hall as [Hc Hall]. apply andb_true_iff in Hc. destruct Hc as [Hc Hp].
      cbn [span]. rewrite (rune_at_ascii c _ Hc), Hp. cbn [sdrop stake].
      rewrite (IH rest f Hall Hrest); [reflexivity|]. cbn [String.length] in Hf. lia.
  Qed.

  Lemma name_not_colon : name_rune lh 58 = false.
  Proof. reflexivity. Qed.
  Lemma value_not_comma : value_rune lh 44 = false.
  Proof. reflexivity. Qed.

  Lemma byte_colon : byte ":" = 58. Proof. reflexivity. Qed.
  Lemma byte_comma : byte "," = 44. Proof. reflexivity. Qed.

  (* one well-formed tag at the head of the text, followed by the end or by a comma *)
  Lemma match_here_tag n v rest :
    wf_name n = true -> wf_value v = true ->
    match_here lh (append n (String ":" (append v EmptyString))) = Some ((n, v), EmptyString) /\
    match_here lh (append n (String ":" (append v (String "," rest)))) = Some ((n, v), rest).
  Proof.
    intros Hn Hv.
    assert (G : forall tail, (tail = EmptyString \/ exists r, tail = String "," r) ->
              match_here lh (append n (String ":" (append v tail))) =
              Some ((n, v), match tail with EmptyString => EmptyString | String _ r => r end)).
    { intros tail Htail. unfold match_here.
      destruct n as [|c n']; [discriminate Hn|]. cbn [wf_name] in Hn.
      apply andb_true_iff in Hn. destruct Hn as [Hn Hall]. apply andb_true_iff in Hn. destruct Hn as [Hc Hl].
      cbn [append]. rewrite (rune_at_ascii c _ Hc). cbn [fst]. rewrite Hl.
      change (String c (append n' (String ":" (append v tail)))) with (append (String c n') (String ":" (append v tail))).
      rewrite (span_ascii (name_rune lh) (String c n') (String ":" (append v tail))); cycle 1.
      - exact Hall.
      - right. exists ":"%char, (append v tail). split; [reflexivity|]. split; reflexivity.
      - apply Nat.le_refl.
      - rewrite byte_colon. cbn [Z.eqb Pos.eqb].
        destruct v as [|d v']; [discriminate Hv|]. cbn [wf_value] in Hv.
        rewrite (span_ascii (value_rune lh) (String d v') tail); cycle 1.
        + exact Hv.
        + destruct Htail as [->|[r ->]]; [now left|]. right. exists ","%char, r. split; [reflexivity|]. split; reflexivity.
        + apply Nat.le_refl.
        + destruct Htail as [->|[r ->]]; [reflexivity|]. rewrite byte_comma. reflexivity. }
    split.
    - apply (G EmptyString). now left.
    - apply (G (String "," rest)). right. now exists rest.
  Qed.

  Lemma append_nil_r s : append s EmptyString = s.
  Proof. induction s as [|c s IH]; cbn [append]; [reflexivity|now rewrite IH]. Qed.
  Lemma append_assoc a b c : append (append a b) c = append a (append b c).
  Proof. induction a as [|x a IH]; cbn [append]; [reflexivity|now rewrite IH]. Qed.

  Lemma tags_text_cons kv kv2 tags : tags_text (kv :: kv2 :: tags) = append (tag_text kv) (String "," (tags_text (kv2 :: tags))).
  Proof. reflexivity. Qed.

  Lemma tag_text_nonempty kv : wf_tag kv = true -> exists c r, tag_text kv = String c r.
  Proof.
    destruct kv as [n v]. unfold wf_tag, tag_text. cbn [fst snd]. intros H. apply andb_true_iff in H. destruct H as [Hn _].
    destruct n as [|c n']; [discriminate Hn|]. cbn [append]. eauto.
  Qed.

  Lemma dd_tags_f_tags : forall tags fuel,
    forallb wf_tag tags = true -> (String.length (tags_text tags) <= fuel)%nat ->
    dd_tags_f lh fuel (tags_text tags) = tags.
  Proof.
    induction tags as [|kv tags IH]; intros fuel Hwf Hf.
    - destruct fuel; reflexivity.
    - cbn [forallb] in Hwf. apply andb_true_iff in Hwf. destruct Hwf as [Hkv Hwf].
      destruct (tag_text_nonempty kv Hkv) as [c [r Ec]].
      pose proof Hkv as Hkv'. unfold wf_tag in Hkv'. apply andb_true_iff in Hkv'. destruct Hkv' as [Hn Hv].
      destruct kv as [n v]. cbn [fst snd] in Hn, Hv.
      destruct (match_here_tag n v EmptyString Hn Hv) as [M1 _].
      destruct tags as [|kv2 tags'].
      + unfold tags_text in *. cbn [map join_with] in *. unfold tag_text in *. cbn [fst snd] in *.
        rewrite append_nil_r in M1.
        destruct fuel as [|f]; [rewrite Ec in Hf; cbn in Hf; lia|].
        cbn [dd_tags_f]. rewrite Ec. rewrite <- Ec. rewrite M1. destruct f; reflexivity.
      + destruct (match_here_tag n v (tags_text (kv2 :: tags')) Hn Hv) as [_ M2].
        assert (E : tags_text ((n, v) :: kv2 :: tags') = append n (String ":" (append v (String "," (tags_text (kv2 :: tags')))))).
        { rewrite tags_text_cons. unfold tag_text. cbn [fst snd]. rewrite append_assoc. reflexivity. }
        rewrite E in *. destruct fuel as [|f].
        { unfold tag_text in Ec. cbn [fst snd] in Ec. destruct n; [discriminate Hn|]. cbn in Hf. lia. }
        assert (Es : exists c' r', append n (String ":" (append v (String "," (tags_text (kv2 :: tags'))))) = String c' r').
        { destruct n as [|c' n']; [discriminate Hn|]. cbn [append]. eauto. }
        destruct Es as [c' [r' Es]]. cbn [dd_tags_f]. rewrite Es. rewrite <- Es. rewrite M2. f_equal.
        apply IH; [exact Hwf|]. rewrite !length_append in Hf. cbn [String.length] in Hf. rewrite !length_append in Hf.
        cbn [String.length] in Hf. lia.
  Qed.

  (* the regular expression inverts the rendering of well-formed tags *)
  Theorem dd_tags_of_tags_text tags : forallb wf_tag tags = true -> dd_tags lh (tags_text tags) = tags.
  Proof. intros H. unfold dd_tags. apply dd_tags_f_tags; [exact H|apply Nat.le_refl]. Qed.
End P.

Example dd_tags_hypotheses_met :
  forallb (wf_tag (fun _ => false)) [("env", "prod"); ("k8s.pod/name", "web-1:8080"); ("a\b", "c/d")]%string = true /\
  tags_text [("env", "prod"); ("k8s.pod/name", "web-1:8080")]%string = "env:prod,k8s.pod/name:web-1:8080"%string.
Proof. split; vm_compute; reflexivity. Qed.

(* outside the well-formed fragment the walk still is what Go's regexp does (compared with the code on every run);
   e.g. a tag whose name starts with a digit loses the digit, junk between commas is skipped *)
Example dd_tags_junk :
  dd_tags (fun _ => false) "9x:1,novalue,a b:c,k:v!,x:y:z"%string = [("x", "1"); ("b", "c"); ("x", "y:z")]%string.
Proof. vm_compute. reflexivity. Qed.
