(* C01: ConfirmSeries (model/PushConfirm.v).  The wrapped system refines the system without the cache, so every theorem
   of props/C01.v / C02.v holds of it; a series row enters the announcement cache only after every sub-request of the
   push -- the series request among them -- was in a block whose Do returned without error; a push that fails confirms
   nothing. *)
From Coq Require Import List NArith ZArith Bool Lia.
From Qryn Require Import model.Ingest model.PushHandler model.IngestSpec model.PushConfirm proofs.IngestBase proofs.IngestAck
  proofs.IngestSpecProofs proofs.IngestHandler proofs.IngestLive proofs.IngestLiveAll.
Import ListNotations.

Lemma base_events_map es : base_events (map CE es) = es.
Proof. induction es as [|e es IH]; cbn; [reflexivity|now rewrite IH]. Qed.
Lemma base_events_app a b : base_events (a ++ b) = base_events a ++ base_events b.
Proof. induction a as [|[e|h k] a IH]; cbn; [reflexivity|now rewrite IH|assumption]. Qed.
Lemma confirm_events_map es : confirm_events (map CE es) = [].
Proof. induction es as [|e es IH]; cbn; [reflexivity|assumption]. Qed.
Lemma confirm_events_app a b : confirm_events (a ++ b) = confirm_events a ++ confirm_events b.
Proof. induction a as [|[e|h k] a IH]; cbn; [reflexivity|assumption|now rewrite IH]. Qed.

Lemma cstep_base c b c' es : cstep c (CBase b) = Some (c', es) ->
  exists eb, gstep (base c) b = Some (base c', eb) /\ es = map CE eb /\ fpcache c' = fpcache c /\ confirmed c' = confirmed c.
Proof.
  cbn. match goal with |- (if ?g then _ else _) = _ -> _ => destruct g end; [|discriminate].
  destruct (gstep (base c) b) as [[g' eb]|]; [|discriminate]. intros H; inversion H; subst. exists eb. auto.
Qed.

(* the confirmation loop runs exactly where doParse would go on to return nil: the success answer is enabled *)
Lemma confirm_as_answer c h c' es : cstep c (CConfirm h) = Some (c', es) ->
  exists keys hd, es = [EConfirm h keys] /\ series_keys (reqs_of (h_subs hd)) = Some keys /\
    nth_error (hs (base c)) h = Some hd /\ h_items hd = [] /\ h_answer hd = None /\ verdict (h_subs hd) = Some true /\
    mem_nat h (confirmed c) = false /\
    base c' = base c /\ fpcache c' = fpcache c ++ keys /\ confirmed c' = h :: confirmed c /\
    exists g', gstep (base c) (GAnswer h) = Some (g', [EAnswer h (reqs_of (h_subs hd)) true]).
Proof.
  cbn. destruct (nth_error (hs (base c)) h) as [hd|] eqn:Hh; [|discriminate].
  destruct (h_items hd) eqn:Hit; [|discriminate]. destruct (h_answer hd) eqn:Han; [discriminate|].
  destruct (verdict (h_subs hd)) as [[|]|] eqn:V; try discriminate.
  destruct (mem_nat h (confirmed c)) eqn:M; [discriminate|].
  destruct (series_keys (reqs_of (h_subs hd))) as [keys|] eqn:K; [|discriminate].
  intros H; inversion H; subst; clear H. exists keys, hd. cbn. rewrite Hit, Han, V. eauto 15.
Qed.

(* ---------------------------------------------------------------- refinement *)
Theorem crun_refines tr : forall c c' es, crun c tr = Some (c', es) ->
  grun (base c) (base_trace tr) = Some (base c', base_events es).
Proof.
  induction tr as [|a tr IH]; intros c c' es H; cbn in H.
  - inversion H; subst. reflexivity.
  - destruct (cstep c a) as [[c1 e1]|] eqn:Es; [|discriminate]. destruct (crun c1 tr) as [[c2 e2]|] eqn:Er; [|discriminate].
    inversion H; subst; clear H. rewrite base_events_app. specialize (IH _ _ _ Er). destruct a as [b|h].
    + destruct (cstep_base _ _ _ _ Es) as (eb & G & -> & _). cbn [base_trace grun]. rewrite G, IH, base_events_map. reflexivity.
    + destruct (confirm_as_answer _ _ _ _ Es) as (keys & hd & -> & _ & _ & _ & _ & _ & _ & Eb & _). cbn [base_trace base_events app].
      rewrite <- Eb. exact IH.
Qed.

(* ---------------------------------------------------------------- a confirmation is a success answer that could be given *)
Lemma split_map_CE eb : forall e2 ces1 h keys ces2, map CE eb ++ e2 = ces1 ++ EConfirm h keys :: ces2 ->
  exists ces1', ces1 = map CE eb ++ ces1' /\ e2 = ces1' ++ EConfirm h keys :: ces2.
Proof.
  induction eb as [|x eb IH]; intros e2 ces1 h keys ces2 H; cbn in H.
  - exists ces1. auto.
  - destruct ces1 as [|y ces1]; cbn in H; [discriminate|]. inversion H; subst.
    destruct (IH _ _ _ _ _ H2) as (ces1' & -> & ->). exists ces1'. auto.
Qed.

Lemma crun_confirm_gen g0 tr : forall c0 c ces tr0 es0,
  grun g0 tr0 = Some (base c0, es0) -> crun c0 tr = Some (c, ces) ->
  forall ces1 h keys ces2, ces = ces1 ++ EConfirm h keys :: ces2 ->
  exists reqs trp trs g', series_keys reqs = Some keys /\ base_trace tr = trp ++ trs /\
    grun g0 (tr0 ++ trp ++ [GAnswer h]) = Some (g', es0 ++ base_events ces1 ++ [EAnswer h reqs true]).
Proof.
  induction tr as [|a tr IH]; intros c0 c ces tr0 es0 H0 Hrun ces1 h keys ces2 E; cbn in Hrun.
  - inversion Hrun; subst. destruct ces1; discriminate.
  - destruct (cstep c0 a) as [[c1 e1]|] eqn:Es; [|discriminate]. destruct (crun c1 tr) as [[c2 e2]|] eqn:Er; [|discriminate].
    injection Hrun as Hc Hces. subst c2. rewrite <- Hces in E. clear Hces. destruct a as [b|h0].
    + destruct (cstep_base _ _ _ _ Es) as (eb & G & -> & _).
      destruct (split_map_CE _ _ _ _ _ _ E) as (ces1' & -> & E2).
      assert (H1 : grun g0 (tr0 ++ [b]) = Some (base c1, es0 ++ eb)).
      { eapply grun_app; [exact H0|]. cbn [grun]. rewrite G. now rewrite app_nil_r. }
      destruct (IH _ _ _ _ _ H1 Er _ _ _ _ E2) as (reqs & trp & trs & g' & K & Bt & R).
      exists reqs, (b :: trp), trs, g'. split; [assumption|]. split; [cbn; now rewrite Bt|].
      rewrite base_events_app, base_events_map. rewrite <- app_assoc in R. cbn in R. rewrite <- !app_assoc in R. rewrite <- !app_assoc. exact R.
    + destruct (confirm_as_answer _ _ _ _ Es) as (k0 & hd & -> & K & Hh & Hit & Han & V & M & Eb & Ec & Ecf & g' & Ga).
      destruct ces1 as [|x ces1]; cbn in E; inversion E; subst.
      * exists (reqs_of (h_subs hd)), [], (base_trace tr), g'. split; [assumption|]. split; [reflexivity|].
        cbn [app base_events]. eapply grun_app; [exact H0|]. cbn [grun]. rewrite Ga. reflexivity.
      * rewrite <- Eb in H0. destruct (IH _ _ _ _ _ H0 Er _ _ _ _ eq_refl) as (reqs & trp & trs & g2 & K2 & Bt & R).
        exists reqs, trp, trs, g2. auto.
Qed.

Lemma run_mon_app {M} (step : M -> event -> option M) a : forall m b,
  run_mon step m (a ++ b) = match run_mon step m a with Some m' => run_mon step m' b | None => None end.
Proof. induction a as [|e a IH]; intros m b; cbn; [reflexivity|]. destruct (step m e); [apply IH|reflexivity]. Qed.

(* For every configuration and every interleaving of well-formed requests: whenever the confirmation loop of push h runs
   (EConfirm h keys), the keys are those of the series requests of the push, and -- m being the state of the
   acknowledgement monitor on the events so far -- EVERY sub-request of every chunk of the push (the series requests
   among them) is covered by blocks whose Do returned without error. *)
Theorem confirm_only_after_all_inserts cfg n tr c ces :
  forallb act_wf (base_trace tr) = true -> crun (cinit cfg n) tr = Some (c, ces) ->
  forall ces1 h keys ces2, ces = ces1 ++ EConfirm h keys :: ces2 ->
  exists reqs m, series_keys reqs = Some keys /\
    run_mon (amon_step true) (amon_init (length cfg)) (base_events ces1) = Some m /\
    forallb (fun kr => covered true (a_acked m) (fst kr) (snd kr)) reqs = true.
Proof.
  intros W Hrun ces1 h keys ces2 E.
  destruct (crun_confirm_gen (ginit cfg n) tr (cinit cfg n) c ces [] [] eq_refl Hrun _ _ _ _ E) as (reqs & trp & trs & g' & K & Bt & R).
  cbn [app] in R. exists reqs.
  assert (Wp : forallb act_wf (trp ++ [GAnswer h]) = true).
  { rewrite Bt, forallb_app in W. apply andb_true_iff in W as [W _]. rewrite forallb_app, W. reflexivity. }
  pose proof (ack_sound_gen _ _ _ _ _ _ (trace_wf_ok _ Wp) R) as A. rewrite run_mon_app in A.
  destruct (run_mon (amon_step true) (amon_init (length cfg)) (base_events ces1)) as [m|]; [|congruence].
  exists m. split; [assumption|]. split; [reflexivity|]. cbn in A.
  destruct (forallb _ reqs); [reflexivity|congruence].
Qed.

(* the cache holds exactly what the confirmation loops entered, in order *)
Theorem cache_grows_only_by_confirmations tr : forall c c' es, crun c tr = Some (c', es) ->
  fpcache c' = fpcache c ++ concat (map snd (confirm_events es)).
Proof.
  induction tr as [|a tr IH]; intros c c' es H; cbn in H.
  - inversion H; subst. cbn. now rewrite app_nil_r.
  - destruct (cstep c a) as [[c1 e1]|] eqn:Es; [|discriminate]. destruct (crun c1 tr) as [[c2 e2]|] eqn:Er; [|discriminate].
    inversion H; subst; clear H. rewrite (IH _ _ _ Er), confirm_events_app, map_app, concat_app. destruct a as [b|h].
    + destruct (cstep_base _ _ _ _ Es) as (eb & _ & -> & Ec & _). rewrite Ec, confirm_events_map. reflexivity.
    + destruct (confirm_as_answer _ _ _ _ Es) as (keys & hd & -> & _ & _ & _ & _ & _ & _ & _ & Ec & _). rewrite Ec. cbn.
      now rewrite app_nil_r, app_assoc.
Qed.

Lemma verdict_true_all l : verdict l = Some true -> forall sp, In sp l -> sp_result sp = Some true.
Proof.
  induction l as [|x l IH]; cbn; [intros _ sp []|]. destruct (sp_result x) as [[|]|] eqn:R; try discriminate.
  intros V sp [<-|Hin]; [assumption|auto].
Qed.

(* skipped on failure: the loop runs only when the parser has finished without error, nothing was answered yet and
   EVERY sub-push of the push has its result and that result is success; it runs once per push *)
Theorem confirmation_needs_every_sub_push_to_succeed c h c' es : cstep c (CConfirm h) = Some (c', es) ->
  exists hd, nth_error (hs (base c)) h = Some hd /\ h_items hd = [] /\ h_answer hd = None /\
    (forall sp, In sp (h_subs hd) -> sp_result sp = Some true) /\ mem_nat h (confirmed c) = false /\
    mem_nat h (confirmed c') = true.
Proof.
  intros H. destruct (confirm_as_answer _ _ _ _ H) as (keys & hd & _ & _ & Hh & Hit & Han & V & M & _ & _ & Ecf & _).
  exists hd. split; [assumption|]. split; [assumption|]. split; [assumption|]. split; [exact (verdict_true_all _ V)|].
  split; [assumption|]. rewrite Ecf. cbn. now rewrite Nat.eqb_refl.
Qed.

(* ... and it comes before the status: a success answer is only given by a push that has confirmed *)
Theorem success_answer_needs_confirmation c h c' es reqs :
  cstep c (CBase (GAnswer h)) = Some (c', es) -> In (CE (EAnswer h reqs true)) es -> mem_nat h (confirmed c) = true.
Proof.
  cbn. destruct (nth_error (hs (base c)) h) as [hd|] eqn:Hh; [|intros H; discriminate].
  destruct (h_items hd) eqn:Hit; [|destruct (match verdict (h_subs hd) with Some true => _ | _ => true end); discriminate].
  destruct (h_answer hd) eqn:Han; [destruct (match verdict (h_subs hd) with Some true => _ | _ => true end); discriminate|].
  destruct (verdict (h_subs hd)) as [[|]|] eqn:V.
  - destruct (mem_nat h (confirmed c)); [reflexivity|discriminate].
  - intros H; inversion H; subst. cbn. intros [X|[]]. discriminate.
  - discriminate.
Qed.

(* ---------------------------------------------------------------- non-vacuity *)
(* the demo run (failed INSERT, retry, success) with the confirmation loop before the answer: the series row 5 enters the
   cache; without the loop the success answer is not enabled *)
Definition cdemo : list cact := map CBase (removelast IngestSpecProofs.demo_trace) ++ [CConfirm 0; CBase (GAnswer 0)].
Example cdemo_runs :
  forallb act_wf (base_trace cdemo) = true /\
  exists c ces, crun (cinit IngestSpecProofs.demo_cfg 2) cdemo = Some (c, ces) /\ fpcache c = [5%N] /\ confirmed c = [0%nat] /\
    confirm_events ces = [(0%nat, [5%N])] /\
    crun (cinit IngestSpecProofs.demo_cfg 2) (map CBase IngestSpecProofs.demo_trace) = None.
Proof.
  split; [vm_compute; reflexivity|].
  destruct (crun (cinit IngestSpecProofs.demo_cfg 2) cdemo) as [[c ces]|] eqn:E; [|vm_compute in E; discriminate].
  exists c, ces. split; [reflexivity|]. vm_compute in E. inversion E; subst. clear E.
  repeat (split; [reflexivity|]). vm_compute. reflexivity.
Qed.
