(* The date cell of the tag-index rows does not depend on the zone of the writer process, and it is the UTC day of the row's
   timestamp_ns (property C06, "tag-index rows bearing the same ids and times"). *)
From Coq Require Import List ZArith Bool String Lia Permutation.
From Qryn Require Import model.Spans proofs.SpansProofs proofs.SpansTimeProofs.
From Qryn Require Import model.SpansZone.
Import ListNotations.
Open Scope Z_scope.

Lemma quot_1e9_bound ts : in_int64 ts = true -> -9223372038 < Z.quot ts 1000000000 < 9223372038.
Proof.
  unfold in_int64, two63. intros H. apply andb_prop in H. destruct H as [Hl Hh].
  apply Z.leb_le in Hl. apply Z.ltb_lt in Hh.
  pose proof (Z.quot_rem' ts 1000000000) as E.
  pose proof (Z.rem_bound_abs ts 1000000000 ltac:(discriminate)) as B.
  change (Z.abs 1000000000) with 1000000000 in B.
  generalize dependent (Z.rem ts 1000000000). generalize dependent (Z.quot ts 1000000000). intros q r E B.
  apply Z.abs_lt in B. lia.
Qed.

(* onSpan's expression: the same day in every zone, the one Spans.date_of computes *)
Lemma span_date_zone_free (local : location) ts : in_int64 ts = true -> span_date false local ts = date_of ts.
Proof.
  intros H. pose proof (quot_1e9_bound ts H) as B.
  unfold span_date, span_date_time, in_utc, time_unix, to_date, is_zero, date_of. cbn [gt_sec gt_nsec gt_off].
  replace (0 / 1000000000) with 0 by reflexivity. rewrite Z.add_0_r.
  replace (Z.quot ts 1000000000 =? zero_sec) with false; [cbn [andb]; rewrite Z.add_0_r; reflexivity|].
  symmetry. apply Z.eqb_neq. unfold zero_sec. lia.
Qed.

Lemma date_of_utc_day ts : 0 <= ts < 65536 * ns_per_day -> date_of ts = utc_day ts.
Proof.
  intros [H0 H1]. unfold date_of, utc_day, ns_per_day in *.
  rewrite (Z.quot_div_nonneg ts 1000000000) by lia.
  rewrite Z.quot_div_nonneg; [|apply Z.div_pos; lia|lia].
  rewrite Z.div_div by lia. replace (1000000000 * 86400) with (86400 * 1000000000) by reflexivity.
  apply Z.mod_small. split; [apply Z.div_pos; lia|]. apply Z.div_lt_upper_bound; lia.
Qed.

Lemma date_in_window from ts to : 0 <= from -> from <= ts -> ts <= to -> to < 65536 * ns_per_day ->
  utc_day from <= date_of ts <= utc_day to.
Proof.
  intros. rewrite date_of_utc_day by lia. unfold utc_day, ns_per_day. split; apply Z.div_le_mono; lia.
Qed.

(* ---- the times of pushed spans are int64 *)
Lemma wrap64_in z : in_int64 (wrap64 z) = true.
Proof.
  unfold in_int64, wrap64. pose proof (Z.mod_pos_bound (z + two63) two64 ltac:(reflexivity)) as B.
  unfold two64, two63 in *. apply andb_true_intro. split; [apply Z.leb_le|apply Z.ltb_lt]; lia.
Qed.

Lemma time_field_in v x : time_field v = Some x -> in_int64 x = true.
Proof.
  unfold time_field, ns_of_us. destruct (string_or_int64 v) as [u|]; [|discriminate].
  destruct (in_int64 (u * 1000)) eqn:E; [|discriminate]. intros H. injection H as <-. exact E.
Qed.

Lemma opt_time_in o x : opt_field o 0 time_field = Some x -> in_int64 x = true.
Proof.
  unfold opt_field. destruct o as [v|]; [apply time_field_in|]. intros H. injection H as <-. reflexivity.
Qed.

Lemma otlp_pushed_ts ra s p : otlp_pushed ra s = Some p -> in_int64 (p_ts p) = true.
Proof.
  unfold otlp_pushed. destruct (flat_attrs true (populate (o_attrs s ++ ra)) []); [|discriminate].
  intros H. injection H as <-. cbn [p_ts]. apply wrap64_in.
Qed.

Lemma zipkin_pushed_ts e p : zipkin_pushed e = Some p -> in_int64 (p_ts p) = true.
Proof.
  unfold zipkin_pushed. destruct e; try discriminate.
  destruct (jget "traceId" _); [|discriminate]. destruct (jget "id" _); [|discriminate].
  destruct (hex_field 32 _); [|discriminate]. destruct (hex_field 16 _); [|discriminate].
  destruct (opt_field (jget "parentId" _) _ _); [|discriminate].
  destruct (opt_field (jget "timestamp" _) 0 time_field) as [ts|] eqn:Ets; [|discriminate].
  destruct (opt_field (jget "duration" _) 0 time_field); [|discriminate].
  destruct (opt_field (jget "name" _) _ _); [|discriminate].
  destruct (_ && _); [|discriminate].
  intros H. injection H as <-. cbn [p_ts]. exact (opt_time_in _ _ Ets).
Qed.

Lemma mapM_Forall_out {A B} (f : A -> option B) (P : B -> Prop) :
  (forall x y, f x = Some y -> P y) -> forall l ys, mapM f l = Some ys -> Forall P ys.
Proof.
  intros Hf l. induction l as [|x l IH]; intros ys H; cbn in H.
  - injection H as <-. constructor.
  - destruct (f x) as [y|] eqn:E; [|discriminate]. destruct (mapM f l) as [ys'|]; [|discriminate].
    injection H as <-. constructor; [exact (Hf _ _ E)|apply IH; reflexivity].
Qed.

Lemma pushed_ts_int64 inp ps : pushed_of inp = Some ps -> Forall (fun p => in_int64 (p_ts p) = true) ps.
Proof.
  destruct inp as [b|nd es]; cbn [pushed_of].
  - apply mapM_Forall_out. intros [ra s] p. apply otlp_pushed_ts.
  - destruct (forallb z_wellformed es); [|discriminate]. apply mapM_Forall_out. exact zipkin_pushed_ts.
Qed.

(* ---- the rows of a request in a writer of any zone *)
Lemma tags_of_redate d p tags : d (p_ts p) = date_of (p_ts p) -> tags_of p tags -> tags_of p (map (set_date d) tags).
Proof.
  intros Hd [Hall Hperm]. split.
  - intros a Ha. apply in_map_iff in Ha. destruct Ha as [a0 [<- Ha0]]. destruct (Hall a0 Ha0) as [H1 [H2 [H3 [H4 H5]]]].
    cbn [set_date a_trace a_span a_ts a_dur a_date]. rewrite H3. auto.
  - rewrite map_map. replace (map (fun x => kv_of (set_date d x)) tags) with (map kv_of tags); [exact Hperm|].
    apply map_ext. intros a. reflexivity.
Qed.

Lemma tag_rows_any_zone (local : location) inp rows ps :
  decode fixed inp = Some rows -> pushed_of inp = Some ps ->
  decode_in_zone false local fixed inp = Some (redate (span_date false local) rows) /\
  Forall2 tags_of ps (map snd (redate (span_date false local) rows)).
Proof.
  intros Hd Hp. split; [unfold decode_in_zone; rewrite Hd; reflexivity|].
  pose proof (tag_rows_of_span_l _ _ _ Hd Hp) as F. pose proof (pushed_ts_int64 _ _ Hp) as I.
  unfold redate. rewrite map_map. cbn [snd].
  rewrite <- (map_map snd (map (set_date (span_date false local)))).
  clear Hd Hp. revert I. induction F as [|p tags ps' l' Ht F IH]; intros I; cbn [map]; constructor.
  - inversion I as [|? ? Hi I']; subst. apply tags_of_redate; [apply span_date_zone_free; exact Hi|exact Ht].
  - inversion I as [|? ? Hi I']; subst. apply IH. exact I'.
Qed.

(* the rows themselves are the same rows in every zone (same cells, not only the same relation to the pushed spans) *)
Lemma set_date_id d a : d (a_ts a) = a_date a -> set_date d a = a.
Proof. destruct a as [k v t s ts du da]. unfold set_date. cbn [a_key a_val a_trace a_span a_ts a_dur a_date]. intros H. rewrite H. reflexivity. Qed.

Lemma decode_zone_free (local : location) inp rows ps :
  decode fixed inp = Some rows -> pushed_of inp = Some ps -> decode_in_zone false local fixed inp = decode fixed inp.
Proof.
  intros Hd Hp. unfold decode_in_zone. rewrite Hd. cbn [option_map]. f_equal.
  pose proof (tag_rows_of_span_l _ _ _ Hd Hp) as F. pose proof (pushed_ts_int64 _ _ Hp) as I.
  unfold redate. revert F I. generalize ps. clear Hd Hp ps.
  induction rows as [|[r tags] rows IH]; intros ps F I; [reflexivity|].
  cbn [map fst snd] in *. inversion F as [|p t ps' l' Ht F']; subst. inversion I as [|? ? Hi I']; subst.
  f_equal; [|apply (IH ps'); assumption].
  f_equal. rewrite <- (map_id tags) at 2. apply map_ext_in. intros a Ha.
  destruct Ht as [Hall _]. destruct (Hall a Ha) as [_ [_ [H3 [_ H5]]]].
  apply set_date_id. rewrite H3, H5. apply span_date_zone_free. exact Hi.
Qed.

(* ---- examples *)
(* 2024-03-10T00:30:00.654321Z in a writer at UTC-5 and 2024-03-10T20:15:00.654321Z at UTC+9 (the demo of seeded change C06-f):
   onSpan's expression gives day 19792 in both; without .UTC() the days are 19791 and 19793, outside the days
   [19792, 19792] a search of the 20 minutes around either span reads *)
Example ex_zone_free :
  span_date false (fixed_zone (-18000)) 1710030600654321000 = 19792 /\ span_date false (fixed_zone 32400) 1710101700654321000 = 19792
  /\ in_int64 1710030600654321000 = true /\ date_of 1710030600654321000 = 19792.
Proof. vm_compute. repeat split. Qed.
Example legacy_local_day :
  span_date true (fixed_zone (-18000)) 1710030600654321000 = 19791 /\ span_date true (fixed_zone 32400) 1710101700654321000 = 19793
  /\ utc_day (1710030600654321000 - 600000000000) = 19792 /\ utc_day (1710101700654321000 + 600000000000) = 19792.
Proof. vm_compute. repeat split. Qed.
(* the hypotheses of date_in_window are met *)
Example ex_window : utc_day (1710030600654321000 - 600000000000) <= date_of 1710030600654321000 <= utc_day (1710030600654321000 + 600000000000).
Proof. apply date_in_window; vm_compute; congruence. Qed.
