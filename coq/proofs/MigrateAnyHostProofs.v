(* C18, round 8: a history of process starts in which EVERY start may reach the cluster through a different host
   (Migrate.multi_run_at; round 7 proved facts about ONE start through another host and generated only the last
   start elsewhere).

   1. never_ahead_any_host: the property's monitor accepts the whole call log of any such history, under any
      failures / partial ON CLUSTER applications, for any script lists and ON CLUSTER flags, any number of hosts:
      "a version is never recorded for a script that did not complete, scripts reach the database in file
      order, nothing recorded runs again" does not depend on which host a start is connected to.
   2. same_host_is_multi_run / converges_same_host: when every start goes through the SAME host j (whatever j),
      the history is the old multi_run on the host list with 0 and j exchanged: convergence, the expected schema
      (hosts 0 and j exchanged), versions recorded, later starts through ANY host run no script.
   3. resumed_elsewhere_witness: the guard "same host" of 2 cannot be dropped for the repository's scripts.  Cluster
      name set, 2 hosts: a start through host 0 is cut off after log.sql #24 (ALTER TABLE .. ADD COLUMN type_v2 ..
      ALIAS, a statement WITHOUT ON CLUSTER) took effect, the next start goes through host 1 and completes: the
      monitor accepts everything, both later starts return nil, every version is recorded, a further start runs
      nothing -- and the hosts end in a schema that no uninterrupted run (through either host) produces: the type_v2
      column of one table lives on host 0, the others on host 1. *)
From Coq Require Import List Arith Lia Bool NArith.
From Qryn Require Import model.Migrate proofs.MigrateProofs proofs.MigrateClusterProofs proofs.MigrateShardProofs
  proofs.MigrateConcrete gen.GenScripts.
Import ListNotations.
Open Scope nat_scope.

Section AnyHost.
  Variable scripts : stream -> list stmt.
  Variable oncl : stream -> list bool.

  Notation hexec c := (cl_exec cat stmt (exec_ch (cloud c))).
  Notation hpexec c := (cl_pexec cat stmt (exec_ch (cloud c))).

  Lemma link_set_cat (d : db (ccat cat)) hs m : Link (ccat cat) d m -> Link (ccat cat) (set_cat (ccat cat) d hs) m.
  Proof. intros H k. exact (H k). Qed.

  Lemma start_at_mon c j os (d : db (ccat cat)) m : Link (ccat cat) d m ->
    exists m', mon_run m (r_log (fst (start_at scripts oncl c j os d))) = Some m' /\
               Link (ccat cat) (snd (start_at scripts oncl c j os d)) m'.
  Proof.
    intros HL. unfold start_at. cbn [fst snd].
    set (d' := set_cat (ccat cat) d (swap_hosts j (d_cat d))).
    destruct (run_streams_mon (ccat cat) (cstmt stmt) (hexec c) (hpexec c) (cl_scripts scripts oncl c) c (streams_of c) os d' m
                (link_set_cat d _ m HL)) as (m1 & Hm & HL1).
    exists m1. split; [exact Hm|]. apply link_set_cat. exact HL1.
  Qed.

  Lemma multi_run_at_mon c : forall runs (d : db (ccat cat)) m, Link (ccat cat) d m ->
    exists m', mon_run m (snd (multi_run_at scripts oncl c runs d)) = Some m' /\
               Link (ccat cat) (fst (multi_run_at scripts oncl c runs d)) m'.
  Proof.
    induction runs as [|[j os] runs IH]; intros d m HL; cbn [multi_run_at].
    - cbn. eauto.
    - destruct (start_at_mon c j os d m HL) as (m1 & Hm1 & HL1). cbn [fst snd].
      destruct (start_at scripts oncl c j os d) as [u d1]. cbn [fst snd] in *.
      destruct (IH d1 m1 HL1) as (m2 & Hm2 & HL2).
      destruct (multi_run_at scripts oncl c runs d1) as [d' l]. cbn [fst snd] in *.
      rewrite mon_run_app, Hm1. eauto.
  Qed.

  Theorem never_ahead_any_host c (runs : list (nat * list outcome)) (hs : ccat cat) :
    exists m, mon_run mst0 (snd (multi_run_at scripts oncl c runs (db0 (ccat cat) hs))) = Some m /\
              forall k, m_rec m k <= d_vers (fst (multi_run_at scripts oncl c runs (db0 (ccat cat) hs))) k /\
                        d_vers (fst (multi_run_at scripts oncl c runs (db0 (ccat cat) hs))) k <= m_app m k.
  Proof. apply multi_run_at_mon. intros k. cbn. lia. Qed.

  (* ---- every start through the same host j = the old multi_run on the exchanged host list ---- *)
  Lemma set_cat_swap_back (d : db (ccat cat)) j :
    set_cat (ccat cat) (set_cat (ccat cat) d (swap_hosts j (d_cat d))) (swap_hosts j (swap_hosts j (d_cat d))) = d.
  Proof. rewrite swap_hosts_involutive. destruct d. reflexivity. Qed.

  Lemma swap_then_swap_back (d : db (ccat cat)) j :
    set_cat (ccat cat) (set_cat (ccat cat) d (swap_hosts j (d_cat d)))
            (swap_hosts j (d_cat (set_cat (ccat cat) d (swap_hosts j (d_cat d))))) = d.
  Proof. cbn [d_cat set_cat]. rewrite swap_hosts_involutive. destruct d. reflexivity. Qed.

  Definition cl_multi_g (c : cfg) :=
    multi_run (ccat cat) (cstmt stmt) (hexec c) (hpexec c) (cl_scripts scripts oncl c) c.

  Lemma same_host_is_multi_run c j : forall (runs : list (list outcome)) (d : db (ccat cat)),
    multi_run_at scripts oncl c (map (fun os => (j, os)) runs) d =
    (set_cat (ccat cat) (fst (cl_multi_g c runs (set_cat (ccat cat) d (swap_hosts j (d_cat d)))))
             (swap_hosts j (d_cat (fst (cl_multi_g c runs (set_cat (ccat cat) d (swap_hosts j (d_cat d))))))),
     snd (cl_multi_g c runs (set_cat (ccat cat) d (swap_hosts j (d_cat d))))).
  Proof.
    induction runs as [|os runs IH]; intros d.
    - cbn [map multi_run_at cl_multi_g multi_run fst snd]. rewrite swap_then_swap_back. reflexivity.
    - cbn [map multi_run_at fst snd]. unfold start_at.
      set (d' := set_cat (ccat cat) d (swap_hosts j (d_cat d))).
      set (u := ch_update scripts oncl c os d').
      rewrite IH. rewrite swap_then_swap_back.
      unfold cl_multi_g. cbn [multi_run]. fold d'.
      change (update (ccat cat) (cstmt stmt) (hexec c) (hpexec c) (cl_scripts scripts oncl c) c os d') with u.
      destruct (multi_run (ccat cat) (cstmt stmt) (hexec c) (hpexec c) (cl_scripts scripts oncl c) c runs (r_db u)) as [d2 l].
      reflexivity.
  Qed.

  Lemma swap_hosts_repeat (A : Type) (x : A) j n : swap_hosts j (repeat x n) = repeat x n.
  Proof.
    destruct n as [|n]; [destruct j; reflexivity|]. destruct j as [|j]; [reflexivity|].
    cbn [repeat]. unfold swap_hosts. destruct (nth_error (repeat x n) j) as [hj|] eqn:E; [|reflexivity].
    destruct (nth_split_at A (repeat x n) j hj E) as [P _].
    assert (hj = x) by (apply nth_error_In in E; apply repeat_spec in E; exact E). subst hj.
    rewrite <- P. reflexivity.
  Qed.
End AnyHost.

(* ---- the repository's scripts: every start through the same host j (any j) ---- *)
Lemma gen_converges_same_host : forall (c : cfg) (n j : nat) (runs : list (list outcome)),
  let d := fst (multi_run_at gen_scripts gen_oncluster c (map (fun os => (j, os)) runs) (db0 (ccat cat) (hosts0 (S n)))) in
  let m := fst (start_at gen_scripts gen_oncluster c j [] d) in
  let d1 := snd (start_at gen_scripts gen_oncluster c j [] d) in
  r_ok m = true /\
  d_cat d1 = swap_hosts j (d_cat (expected_final gen_scripts gen_oncluster c (S n))) /\
  (forall k, In k (streams_of c) -> d_vers d1 k = List.length (gen_scripts k)) /\
  (* ... and a further start, through ANY host j', under any failures, executes no script statement *)
  (forall j' os, filter is_script_event (r_log (fst (start_at gen_scripts gen_oncluster c j' os d1))) = []).
Proof.
  intros c n j runs d m d1.
  assert (Hd : set_cat (ccat cat) d (swap_hosts j (d_cat d)) = fst (cl_multi c runs (db0 (ccat cat) (hosts0 (S n))))).
  { unfold d. rewrite same_host_is_multi_run. cbn [fst d_cat set_cat].
    rewrite swap_hosts_involutive. unfold hosts0. cbn [db0 d_cat]. rewrite swap_hosts_repeat.
    unfold cl_multi, cl_multi_g.
    change (set_cat (ccat cat) (db0 (ccat cat) (repeat cat0 (S n))) (repeat cat0 (S n))) with (db0 (ccat cat) (repeat cat0 (S n))).
    destruct (fst (multi_run (ccat cat) (cstmt stmt) (cl_exec cat stmt (exec_ch (cloud c))) (cl_pexec cat stmt (exec_ch (cloud c)))
                     (cl_scripts gen_scripts gen_oncluster c) c runs (db0 (ccat cat) (repeat cat0 (S n))))). reflexivity. }
  destruct (gen_converges c n runs) as (Hok & Hcat & Hv & _). cbv zeta in Hok, Hcat, Hv.
  rewrite <- Hd in Hok, Hcat, Hv.
  assert (Hv1 : forall k, In k (streams_of c) -> d_vers d1 k = List.length (gen_scripts k)).
  { intros k Hk. unfold d1, start_at. cbn [snd set_cat d_vers]. exact (Hv k Hk). }
  split; [exact Hok|]. split; [|split; [exact Hv1|]].
  - unfold d1, start_at. cbn [snd set_cat d_cat]. rewrite Hcat. reflexivity.
  - intros j' os.
    destruct (noop_through_any_host gen_scripts gen_oncluster c j' os d1) as (_ & _ & Hn).
    + intros k Hk. rewrite (Hv1 k Hk), cl_scripts_len. lia.
    + exact Hn.
Qed.

(* ---- the guard "same host" cannot be dropped: a RESUMED start through another host ---- *)
Definition cfg_clustered : cfg := {| cloud := false; dist := true; clustered := true |}.
(* start 1 through host 0: create ver, create ver_dist, read, 25 scripts + their version rows (log.sql #0..#24; #24 is
   the first ALTER .. ADD COLUMN type_v2 .. ALIAS, sent WITHOUT ON CLUSTER), then the next call fails;
   start 2 through host 1, undisturbed *)
Definition elsewhere_runs : list (nat * list outcome) := [(0, repeat OOk 53 ++ [OBefore]); (1, [])].

Definition elsewhere_facts : bool * bool * bool * bool * bool * bool * bool :=
  let r := multi_run_at gen_scripts gen_oncluster cfg_clustered elsewhere_runs (db0 (ccat cat) (hosts0 2)) in
  let s := start_at gen_scripts gen_oncluster cfg_clustered 1 [] (fst r) in
  let e := d_cat (expected_final gen_scripts gen_oncluster cfg_clustered 2) in
  (mon_ok (snd r),
   r_ok (fst s),
   forallb (fun k => d_vers (snd s) k =? List.length (gen_scripts k)) (streams_of cfg_clustered),
   match filter is_script_event (r_log (fst s)) with [] => true | _ => false end,
   list_eqb cat_eqb (d_cat (snd s)) e,
   list_eqb cat_eqb (d_cat (snd s)) (swap_hosts 1 e),
   list_eqb cat_eqb (d_cat (fst r)) (d_cat (snd s))).

Lemma elsewhere_facts_value : elsewhere_facts = (true, true, true, true, false, false, true).
Proof. vm_compute. reflexivity. Qed.

Lemma resumed_elsewhere_witness :
  exists (c : cfg) (runs : list (nat * list outcome)) (j : nat),
    let r := multi_run_at gen_scripts gen_oncluster c runs (db0 (ccat cat) (hosts0 2)) in
    let s := start_at gen_scripts gen_oncluster c j [] (fst r) in
    mon_ok (snd r) = true /\ r_ok (fst s) = true /\
    (forall k, In k (streams_of c) -> d_vers (snd s) k = List.length (gen_scripts k)) /\
    filter is_script_event (r_log (fst s)) = [] /\
    forall j', list_eqb cat_eqb (d_cat (snd s)) (swap_hosts j' (d_cat (expected_final gen_scripts gen_oncluster c 2))) = false.
Proof.
  exists cfg_clustered, elsewhere_runs, 1. cbv zeta.
  split; [vm_compute; reflexivity|]. split; [vm_compute; reflexivity|]. split; [|split; [vm_compute; reflexivity|]].
  - assert (H : forallb (fun k => d_vers (snd (start_at gen_scripts gen_oncluster cfg_clustered 1 []
                   (fst (multi_run_at gen_scripts gen_oncluster cfg_clustered elsewhere_runs (db0 (ccat cat) (hosts0 2)))))) k
                                   =? List.length (gen_scripts k)) (streams_of cfg_clustered) = true) by (vm_compute; reflexivity).
    intros k Hk. apply Nat.eqb_eq. exact (proj1 (forallb_forall _ _) H k Hk).
  - intros j'. destruct j' as [|[|[|j']]]; vm_compute; reflexivity.
Qed.

(* hypotheses of gen_converges_same_host / never_ahead_any_host met by non-trivial values: replicated + clustered,
   3 hosts, every start through host 2, the first cut short by a partial ON CLUSTER application; and a history whose
   three starts go through hosts 0, 2, 1 (the monitor ends with all 28 scripts of log.sql applied and recorded) *)
Example any_host_examples :
  let c := {| cloud := true; dist := true; clustered := true |} in
  let r := multi_run_at gen_scripts gen_oncluster c [(0, repeat OOk 20 ++ [OPartial [false; true; false]]); (2, repeat OOk 60 ++ [OAfter]); (1, [])]
             (db0 (ccat cat) (hosts0 3)) in
  mon_ok (snd r) = true /\ d_vers (fst r) SLog = 28 /\ List.length (snd r) = 180 /\
  list_eqb cat_eqb
    (d_cat (fst (multi_run_at gen_scripts gen_oncluster c (map (fun os => (2, os)) [repeat OOk 20 ++ [OPartial [false; true; false]]; []]) (db0 (ccat cat) (hosts0 3)))))
    (swap_hosts 2 (d_cat (expected_final gen_scripts gen_oncluster c 3))) = true /\
  list_eqb cat_eqb (swap_hosts 2 (d_cat (expected_final gen_scripts gen_oncluster c 3))) (d_cat (expected_final gen_scripts gen_oncluster c 3)) = false.
Proof.
  cbv zeta. split; [vm_compute; reflexivity|]. split; [vm_compute; reflexivity|]. split; [vm_compute; reflexivity|].
  split; vm_compute; reflexivity.
Qed.
