From Coq Require Import List ZArith Bool Lia Arith.
From Qryn Require Import model.SeriesIt.
Import ListNotations.
Open Scope Z_scope.

Definition ascending (s : list Z) : Prop :=
  forall i j, (i <= j)%nat -> (j < length s)%nat -> nthZ s i <= nthZ s j.

(* ---------- characterisation of the specification position ---------- *)
Definition lower_bound (s : list Z) (t : Z) (from hi r : nat) : Prop :=
  (from <= r <= hi)%nat /\ (forall j, (from <= j < r)%nat -> nthZ s j < t) /\ ((r < hi)%nat -> t <= nthZ s r).

Lemma first_ge_lower_bound s t : forall k from, lower_bound s t from (from + k) (first_ge s t from k).
Proof.
  induction k as [|k IH]; intros from; cbn [first_ge].
  - unfold lower_bound. split; [lia|]. split; intros; lia.
  - destruct (Z.leb_spec t (nthZ s from)) as [Hle|Hlt].
    + unfold lower_bound. split; [lia|]. split; [intros; lia|]. intros _. exact Hle.
    + destruct (IH (S from)) as [Hr [Hlo Hhi]].
      unfold lower_bound. split; [lia|]. split.
      * intros j Hj. destruct (Nat.eq_dec j from) as [->|Hne]; [exact Hlt|]. apply Hlo. lia.
      * intros H. apply Hhi. lia.
Qed.

Lemma lower_bound_unique s t from hi r1 r2 :
  lower_bound s t from hi r1 -> lower_bound s t from hi r2 -> r1 = r2.
Proof.
  intros [Hr1 [Hlo1 Hhi1]] [Hr2 [Hlo2 Hhi2]].
  destruct (Nat.lt_trichotomy r1 r2) as [Hlt|[Heq|Hgt]]; [|exact Heq|].
  - assert (H1 : t <= nthZ s r1) by (apply Hhi1; lia).
    assert (H2 : nthZ s r1 < t) by (apply Hlo2; lia). lia.
  - assert (H1 : t <= nthZ s r2) by (apply Hhi2; lia).
    assert (H2 : nthZ s r2 < t) by (apply Hlo1; lia). lia.
Qed.

(* ---------- the binary search loop computes the lower bound on ascending input ---------- *)
Lemma div2_between l u : (l < u)%nat -> (l <= Nat.div (u + l) 2 < u)%nat.
Proof.
  intros H. split.
  - apply Nat.div_le_lower_bound; lia.
  - apply Nat.div_lt_upper_bound; lia.
Qed.

Lemma seek_loop_spec s t from : ascending s ->
  forall fuel l u, (u - l < fuel)%nat -> (from <= l <= u)%nat -> (u <= length s)%nat ->
    (forall j, (from <= j < l)%nat -> nthZ s j < t) ->
    ((u < length s)%nat -> t <= nthZ s u) ->
    lower_bound s t from (length s) (seek_loop fuel s t l u).
Proof.
  intros Hasc. induction fuel as [|f IH]; intros l u Hf Hlu Hu Hlo Hhi; [lia|].
  cbn [seek_loop]. destruct (Nat.ltb_spec l u) as [Hlt|Hge].
  - pose proof (div2_between l u Hlt) as Hm. remember (Nat.div (u + l) 2) as m eqn:Em. clear Em.
    destruct (Z.ltb_spec (nthZ s m) t) as [Hmt|Hmt].
    + apply IH; [lia|lia|lia| |exact Hhi].
      intros j Hj. destruct (Nat.lt_ge_cases j l) as [Hjl|Hjl]; [apply Hlo; lia|].
      assert (nthZ s j <= nthZ s m) by (apply Hasc; lia). lia.
    + apply IH; [lia|lia|lia|exact Hlo|]. intros _. exact Hmt.
  - assert (l = u) by lia. subst u.
    unfold lower_bound. repeat split; try lia; assumption.
Qed.

Lemma seek_loop_first_ge s t l0 : ascending s ->
  seek_loop (S (length s)) s t l0 (length s) = first_ge s t l0 (length s - l0).
Proof.
  intros Hasc. destruct (Nat.le_gt_cases l0 (length s)) as [Hle|Hgt].
  - apply (lower_bound_unique s t l0 (length s)).
    + apply seek_loop_spec; try assumption; try lia.
    + replace (length s) with (l0 + (length s - l0))%nat at 1 by lia. apply first_ge_lower_bound.
  - cbn [seek_loop]. destruct (Nat.ltb_spec l0 (length s)); [lia|].
    replace (length s - l0)%nat with 0%nat by lia. reflexivity.
Qed.

(* the loop never needs more fuel than the code gives it: extra fuel changes nothing *)
Lemma seek_loop_fuel s t : forall f1 f2 l u, (u - l < f1)%nat -> (u - l < f2)%nat ->
  seek_loop f1 s t l u = seek_loop f2 s t l u.
Proof.
  induction f1 as [|f1 IH]; intros f2 l u H1 H2; [lia|]. destruct f2 as [|f2]; [lia|].
  cbn [seek_loop]. destruct (Nat.ltb_spec l u) as [Hlt|Hge]; [|reflexivity].
  pose proof (div2_between l u Hlt). destruct (Z.ltb (nthZ s (Nat.div (u + l) 2)) t); apply IH; lia.
Qed.

(* ---------- one step of the model meets the specification ---------- *)
Lemma at_obs_ok s p : obs_ok s p (Obs (p <? Z.of_nat (length s)) (at_ {| samples := s; idx := p |})) = true.
Proof.
  unfold obs_ok, at_, len. cbn [samples idx]. rewrite Bool.eqb_reflx. cbn [andb].
  destruct ((0 <=? p) && (p <? Z.of_nat (length s))) eqn:E.
  - rewrite Z.eqb_refl. reflexivity.
  - reflexivity.
Qed.

Lemma step_meets_spec s p o : ascending s ->
  let '(c', ob) := step {| samples := s; idx := p |} o in
  samples c' = s /\ idx c' = spec_pos s p o /\ obs_ok s (spec_pos s p o) ob = true.
Proof.
  intros Hasc. destruct o as [|t]; unfold step, next, seek, len; cbn [samples idx spec_pos].
  - repeat split. apply at_obs_ok.
  - rewrite seek_loop_first_ge by assumption. repeat split. apply at_obs_ok.
Qed.

Lemma run_meets_spec s : ascending s -> forall ops p,
  spec_run_ok s p ops (run {| samples := s; idx := p |} ops) = true.
Proof.
  intros Hasc. induction ops as [|o r IH]; intros p; [reflexivity|].
  cbn [run]. pose proof (step_meets_spec s p o Hasc) as H.
  destruct (step {| samples := s; idx := p |} o) as [c' ob]. destruct H as [Hs [Hi Hob]].
  cbn [spec_run_ok]. rewrite Hob. cbn [andb]. destruct c' as [s' i']. cbn in Hs, Hi. subst. apply IH.
Qed.

(* ---------- the contract in words, for one Seek from any reachable position ---------- *)
Lemma seek_contract_step s p t : ascending s -> -1 <= p ->
  let '(c', ok) := seek {| samples := s; idx := p |} t in
  let start := Z.max p 0 in
  start <= idx c' /\
  (forall j, start <= Z.of_nat j < idx c' -> (j < length s)%nat -> nthZ s j < t) /\
  (ok = true -> idx c' < Z.of_nat (length s) /\ t <= nthZ s (Z.to_nat (idx c'))) /\
  (ok = false -> forall j, start <= Z.of_nat j -> (j < length s)%nat -> nthZ s j < t).
Proof.
  intros Hasc Hp. unfold seek, len. cbn [samples idx].
  rewrite seek_loop_first_ge by assumption.
  set (l0 := Z.to_nat (Z.max p 0)). set (n := length s).
  destruct (Nat.le_gt_cases l0 n) as [Hle|Hgt].
  - pose proof (first_ge_lower_bound s t (n - l0) l0) as [Hr [Hlo Hhi]].
    replace (l0 + (n - l0))%nat with n in * by lia.
    remember (first_ge s t l0 (n - l0)) as r eqn:Er. clear Er.
    split; [lia|]. split; [|split].
    + intros j Hj Hjn. apply Hlo. lia.
    + intros H. apply Z.ltb_lt in H. split; [exact H|]. rewrite Nat2Z.id. apply Hhi. lia.
    + intros Hf j Hj Hjn. apply Z.ltb_ge in Hf. apply Hlo. lia.
  - replace (n - l0)%nat with 0%nat by lia. cbn [first_ge].
    split; [lia|]. split; [|split].
    + intros j Hj Hjn. lia.
    + intros H. apply Z.ltb_lt in H. lia.
    + intros Hf j Hj Hjn. lia.
Qed.

(* non-vacuity: an ascending list with repeated timestamps, and a script that exercises
   seeking backwards, inside, onto a duplicate and past the end *)
Example ascending_example : ascending [10; 20; 20; 30].
Proof.
  intros i j Hij Hj. cbn in Hj.
  destruct j as [|[|[|[|j]]]]; try lia; destruct i as [|[|[|[|i]]]]; try lia; cbn; lia.
Qed.
Example run_example :
  run (iterator [10; 20; 20; 30]) [OSeek 15; OSeek 5; ONext; OSeek 20; OSeek 35; ONext]
  = [Obs true (Some 20); Obs true (Some 20); Obs true (Some 20); Obs true (Some 20); Obs false None; Obs false None].
Proof. vm_compute. reflexivity. Qed.
