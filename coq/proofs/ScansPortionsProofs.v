(* C13: the narrowing of the window between the portions of a portioned TraceQL search never leaves out a trace
   that can still belong to the answer (model/ScansPortions.v). *)
From Coq Require Import List ZArith Bool Lia Sorted.
From Qryn Require Import model.ScansPortions proofs.ScansProofs.
Import ListNotations.
Open Scope Z_scope.

(* rows ordered by start DESC: the loop ends with the last = the oldest start, whatever the whole-second quirk does *)
Lemma fold_step_sorted r : forall f, StronglySorted Z.ge (f :: r) -> fold_left step_from r (Some f) = Some (zmin_l r f).
Proof.
  induction r as [|s r IH]; intros f Hs; [reflexivity|].
  cbn [fold_left zmin_l]. unfold zmin_l in IH.
  inversion Hs as [|? ? Hr Hall]; subst. inversion Hall as [|? ? Hsf Hall']; subst.
  assert (E : step_from (Some f) s = Some (Z.min f s)).
  { unfold step_from. destruct ((f mod 1000000000 =? 0) || (s <? f)) eqn:B.
    - f_equal. lia.
    - apply orb_false_iff in B. destruct B as [_ B]. apply Z.ltb_ge in B. f_equal. lia. }
  rewrite E. replace (Z.min f s) with s by lia. apply IH. exact Hr.
Qed.

Lemma zmin_l_spec r x : zmin_l r x <= x /\ (forall y, List.In y r -> zmin_l r x <= y) /\ (zmin_l r x = x \/ List.In (zmin_l r x) r).
Proof.
  unfold zmin_l. destruct (fold_min_le r x) as [A B]. split; [exact A|]. split; [exact B | apply fold_min_in].
Qed.

(* one iteration: on rows sorted by start DESC that fill a positive limit, the next From is the oldest start kept *)
Theorem iteration_from_is_oldest ctx_from limit x r :
  StronglySorted Z.ge (x :: r) -> full limit (x :: r) = true ->
  iteration_from ctx_from limit (x :: r) = Some (zmin_l r x).
Proof.
  intros Hs Hf. unfold iteration_from. rewrite Hf. cbn [fold_left step_from]. apply fold_step_sorted, Hs.
Qed.

(* ... and the order matters: on rows that are NOT sorted the whole-second test `from.Nanosecond() == 0` (meant as
   "from is not set yet") moves From forward again - 10.5 s, 10 s, 12.3 s gives 12.3 s.  The statement orders its rows
   (ORDER BY start_time_unix_nano DESC), so this is not reachable; it is why the sortedness hypothesis is there. *)
Lemma iteration_from_unsorted_refuted :
  exists starts, iteration_from 0 3 starts = Some 12300000000 /\ List.In 10000000000 starts.
Proof. exists [10500000000; 10000000000; 12300000000]. split; [vm_compute; reflexivity | right; left; reflexivity]. Qed.

Definition rows_wf (req_from : Z) (rows : list (list Z)) : Prop :=
  Forall (fun r => StronglySorted Z.ge r /\ Forall (fun s => req_from <= s) r) rows.

Lemma portions_ok_gen req_from limit rows : 0 < limit -> rows_wf req_from rows ->
  forall cur need, req_from <= cur <= need ->
  exists obs, portion_froms (Some cur) limit rows = map Some obs /\
              (rows <> [] -> windows_ok req_from limit need rows obs = true) /\ List.length obs = List.length rows.
Proof.
  intros Hl Hwf. induction Hwf as [|r rest [Hs Hge] Hrest IH]; intros cur need Hc.
  - exists []. split; [reflexivity|]. split; [intros H; contradiction H; reflexivity | reflexivity].
  - cbn [portion_froms].
    assert (Hn : exists nxt, iteration_from cur limit r = Some nxt /\ req_from <= nxt <= next_need limit need r).
    { unfold iteration_from, next_need. destruct (full limit r) eqn:Hf.
      - destruct r as [|x t].
        + unfold full in Hf. cbn [List.length Z.of_nat] in Hf. apply Z.eqb_eq in Hf. lia.
        + cbn [fold_left step_from]. rewrite (fold_step_sorted t x Hs). eexists. split; [reflexivity|].
          destruct (zmin_l_spec t x) as [A [B [C|C]]].
          * rewrite C. inversion Hge; subst. lia.
          * rewrite Forall_forall in Hge. specialize (Hge _ (or_intror C)). lia.
      - exists cur. split; [reflexivity | lia]. }
    destruct Hn as [nxt [En Hn]]. rewrite En.
    destruct (IH nxt (next_need limit need r) Hn) as [obs [E1 [E2 E3]]].
    exists (cur :: obs). split; [cbn [map]; rewrite E1; reflexivity|]. split; [|cbn [List.length]; rewrite E3; reflexivity].
    intros _. cbn [windows_ok].
    replace (req_from <=? cur) with true by (symmetry; apply Z.leb_le; lia).
    replace (cur <=? need) with true by (symmetry; apply Z.leb_le; lia). cbn [andb].
    destruct rest as [|r' rest'].
    + destruct obs; [reflexivity | discriminate E3].
    + apply E2. discriminate.
Qed.

(* EVERY portioned search: whatever the number of portions, the limit and the rows the portions return (ordered as the
   statement orders them, inside the requested window), every portion is sent with a lower bound that is not below the
   requested From and not above the oldest trace the last full portion kept; until a portion fills the limit it is the
   requested From itself *)
Theorem portions_keep_every_candidate req_from limit rows :
  0 < limit -> rows_wf req_from rows -> rows <> [] ->
  exists obs, process_froms req_from limit rows = map Some obs /\ spec_ok req_from limit rows obs = true.
Proof.
  intros Hl Hwf Hne. destruct (portions_ok_gen req_from limit rows Hl Hwf req_from req_from ltac:(lia)) as [obs [E1 [E2 _]]].
  exists obs. split; [exact E1 | apply E2, Hne].
Qed.

(* the spec rejects the windows of seeded change C13-d (From moved to the NEWEST trace kept: +40 s instead of +30 s) and
   accepts the model's; the hypotheses of the theorem are met by this history (three portions, limit 2) *)
Definition demo_rows : list (list Z) := [[40000000000; 10000000000]; [40000000000; 30000000000]; [40000000000; 30000000000]].
Lemma portions_example :
  rows_wf 0 demo_rows /\
  process_froms 0 2 demo_rows = [Some 0; Some 10000000000; Some 30000000000] /\
  spec_ok 0 2 demo_rows [0; 10000000000; 30000000000] = true /\
  spec_ok 0 2 demo_rows [0; 40000000000; 40000000000] = false.
Proof.
  split; [|repeat split; vm_compute; reflexivity].
  unfold rows_wf, demo_rows. repeat constructor; lia.
Qed.
