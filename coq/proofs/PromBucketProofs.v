(* C17 part 2: the step-bucketing statement of processHints (instant-vector functions) under the
   reference interpreter.  eval_bucketed (GROUP BY (bucket, fingerprint) / argMax / ORDER BY) applied to
   process_hints q h answers bucket_rows of the rows of q; per series bucket_rows is bucket_series
   (the reading the look-back theorems of PromSelProofs are stated over); the answer is again ordered
   by fingerprint, then time, over the same fingerprints. *)
From Coq Require Import List ZArith NArith String Ascii Bool Lia Sorting.Sorted.
From Qryn Require Import lib.Strs model.Sql model.Logql model.LogqlPlan model.PromSelect model.PromSel model.PromSem
  proofs.PromSelProofs.
Import ListNotations.
Open Scope string_scope.
Open Scope list_scope.

(* rows as the samples query returns them: ordered by fingerprint, then time *)
Definition row_le (a b : row) : Prop := (r_fp a < r_fp b)%N \/ (r_fp a = r_fp b /\ (r_ts a <= r_ts b)%Z).
(* the strict version: what the ORDER BY of the grouped statement yields (its keys are distinct) *)
Definition row_lt (a b : row) : Prop := (r_fp a < r_fp b)%N \/ (r_fp a = r_fp b /\ (r_ts a < r_ts b)%Z).

Lemma instant_not_range f : is_instant f = true -> is_range f = false.
Proof.
  unfold is_instant. intros H. apply orb_true_iff in H. destruct H as [H|H].
  - unfold mem_str, instant_vectors in H. cbn [existsb] in H.
    repeat (apply orb_true_iff in H; destruct H as [H|H]; [apply String.eqb_eq in H; subst f; reflexivity|]).
    discriminate H.
  - apply String.eqb_eq in H. subst f. reflexivity.
Qed.

(* ====================================================================================== *)
(* generic list facts                                                                      *)
(* ====================================================================================== *)
Lemma bk_SS_impl {A} (R S : A -> A -> Prop) l : (forall a b, R a b -> S a b) -> StronglySorted R l -> StronglySorted S l.
Proof.
  intros HRS H. induction H as [|a l Hl IH Hf]; constructor; [exact IH|].
  apply Forall_forall. intros x Hx. apply HRS. revert x Hx. apply Forall_forall. exact Hf.
Qed.

Lemma bk_SS_app_mid {A} (R : A -> A -> Prop) acc x l : StronglySorted R (acc ++ x :: l) -> forall y, List.In y acc -> R y x.
Proof.
  induction acc as [|a acc IH]; cbn [app]; intros H y Hy; [contradiction|].
  inversion H as [|a' l' Hl Hf]; subst. destruct Hy as [<-|Hy].
  - revert Hf. rewrite Forall_forall. intros Hf. apply Hf. apply in_or_app. right. left. reflexivity.
  - apply IH; assumption.
Qed.

Lemma bk_insert_last {A} (lt : A -> A -> bool) x l : (forall y, List.In y l -> lt x y = false) -> insert_sorted lt x l = l ++ [x].
Proof.
  induction l as [|y l IH]; intros H; [reflexivity|]. cbn [insert_sorted app].
  rewrite (H y (or_introl eq_refl)). f_equal. apply IH. intros z Hz. apply H. right. exact Hz.
Qed.

Lemma bk_isort_acc {A} (lt : A -> A -> bool) (R : A -> A -> Prop) : (forall a b, R a b -> lt b a = false) ->
  forall l acc, StronglySorted R (acc ++ l) -> fold_left (fun acc x => insert_sorted lt x acc) l acc = acc ++ l.
Proof.
  intros HR. induction l as [|x l IH]; intros acc H; cbn [fold_left]; [now rewrite app_nil_r|].
  rewrite (bk_insert_last lt x acc).
  - rewrite IH; rewrite <- app_assoc; [reflexivity|exact H].
  - intros y Hy. apply HR. exact (bk_SS_app_mid R acc x l H y Hy).
Qed.

(* sorting a list that is already strictly sorted changes nothing *)
Lemma bk_isort_id {A} (lt : A -> A -> bool) (R : A -> A -> Prop) l : (forall a b, R a b -> lt b a = false) ->
  StronglySorted R l -> isort lt l = l.
Proof. intros HR H. unfold isort. exact (bk_isort_acc lt R HR l [] H). Qed.

Lemma bk_dedup_ext {A} (eqb : A -> A -> bool) l : forall s1 s2,
  (forall x, List.In x l -> existsb (eqb x) s1 = existsb (eqb x) s2) -> dedup eqb l s1 = dedup eqb l s2.
Proof.
  induction l as [|x l IH]; intros s1 s2 H; [reflexivity|]. cbn [dedup].
  rewrite <- (H x (or_introl eq_refl)). destruct (existsb (eqb x) s1).
  - apply IH. intros y Hy. apply H. right. exact Hy.
  - f_equal. apply IH. intros y Hy. cbn [existsb]. rewrite (H y (or_intror Hy)). reflexivity.
Qed.

Lemma bk_dedup_in {A} (eqb : A -> A -> bool) l : forall s x, List.In x (dedup eqb l s) -> List.In x l.
Proof.
  induction l as [|y l IH]; intros s x; cbn [dedup]; [tauto|].
  destruct (existsb (eqb y) s).
  - intros H. right. exact (IH _ _ H).
  - intros [<-|H]; [left; reflexivity|right; exact (IH _ _ H)].
Qed.

(* ====================================================================================== *)
(* bucket_of, bucket_rows                                                                  *)
(* ====================================================================================== *)
Local Open Scope Z_scope.

Lemma bk_bucket_mono start step a b : 0 < step -> a <= b -> bucket_of start step a <= bucket_of start step b.
Proof.
  intros Hs Hab. unfold bucket_of.
  assert (Z.quot (a - start + step - 1) step <= Z.quot (b - start + step - 1) step) by (apply Z.quot_le_mono; lia).
  nia.
Qed.

Section ROWS.
  Variables start step : Z.
  Hypothesis Hstep : 0 < step.
  Notation B := (fun r : row => bucket_of start step (r_ts r)).
  Definition bk_mk (r : row) : row := {| r_fp := r_fp r; r_val := r_val r; r_ts := bucket_of start step (r_ts r) |}.
  Definition bk_same (a b : row) : bool :=
    N.eqb (r_fp a) (r_fp b) && Z.eqb (bucket_of start step (r_ts a)) (bucket_of start step (r_ts b)).

  Lemma bk_same_true a b : bk_same a b = true <-> r_fp a = r_fp b /\ bucket_of start step (r_ts a) = bucket_of start step (r_ts b).
  Proof. unfold bk_same. rewrite andb_true_iff, N.eqb_eq, Z.eqb_eq. tauto. Qed.
  Lemma bk_same_false a b : bk_same a b = false <-> ~ (r_fp a = r_fp b /\ bucket_of start step (r_ts a) = bucket_of start step (r_ts b)).
  Proof. rewrite <- bk_same_true. destruct (bk_same a b); intuition congruence. Qed.

  (* the keys (fingerprint, bucket) do not decrease along rows ordered by (fingerprint, time) *)
  Lemma bk_row_le_key a b : row_le a b ->
    (r_fp a < r_fp b)%N \/ (r_fp a = r_fp b /\ bucket_of start step (r_ts a) <= bucket_of start step (r_ts b)).
  Proof. intros [H|[H1 H2]]; [left; exact H|right; split; [exact H1|apply bk_bucket_mono; assumption]]. Qed.

  Lemma bk_rows_cons r rest :
    bucket_rows start step (r :: rest) =
    match bucket_rows start step rest with
    | r' :: rest' =>
      if N.eqb (r_fp r') (r_fp r) && Z.eqb (r_ts r') (bucket_of start step (r_ts r)) then r' :: rest'
      else bk_mk r :: r' :: rest'
    | [] => [bk_mk r]
    end.
  Proof. reflexivity. Qed.

  Lemma bk_rows_head r rest : exists v rest',
    bucket_rows start step (r :: rest) = {| r_fp := r_fp r; r_val := v; r_ts := bucket_of start step (r_ts r) |} :: rest'.
  Proof.
    rewrite bk_rows_cons. destruct (bucket_rows start step rest) as [|r' rest'].
    - eexists _, _. reflexivity.
    - destruct (N.eqb_spec (r_fp r') (r_fp r)) as [E1|E1]; cbn [andb]; [|eexists _, _; reflexivity].
      destruct (Z.eqb_spec (r_ts r') (bucket_of start step (r_ts r))) as [E2|E2]; [|eexists _, _; reflexivity].
      destruct r' as [f v t]. cbn [r_fp r_ts] in E1, E2. subst f t. eexists _, _. reflexivity.
  Qed.

  Lemma bk_rows_step r r2 rest2 :
    bucket_rows start step (r :: r2 :: rest2) =
    if bk_same r2 r then bucket_rows start step (r2 :: rest2) else bk_mk r :: bucket_rows start step (r2 :: rest2).
  Proof.
    rewrite (bk_rows_cons r). destruct (bk_rows_head r2 rest2) as (v & rest' & E). rewrite E. reflexivity.
  Qed.

  Lemma bk_rows_in l y : List.In y (bucket_rows start step l) ->
    exists x, List.In x l /\ r_fp y = r_fp x /\ r_ts y = bucket_of start step (r_ts x).
  Proof.
    induction l as [|r rest IH]; [intros []|]. rewrite bk_rows_cons.
    destruct (bucket_rows start step rest) as [|r' rest'].
    - intros [<-|[]]. exists r. split; [left; reflexivity|split; reflexivity].
    - destruct (N.eqb (r_fp r') (r_fp r) && Z.eqb (r_ts r') (bucket_of start step (r_ts r))).
      + intros H. destruct (IH H) as (x & Hx & E). exists x. split; [right; exact Hx|exact E].
      + intros [<-|H].
        * exists r. split; [left; reflexivity|split; reflexivity].
        * destruct (IH H) as (x & Hx & E). exists x. split; [right; exact Hx|exact E].
  Qed.

  (* when the second row opens another key, no later row has the first row's key *)
  Lemma bk_separated r r2 rest2 : StronglySorted row_le (r :: r2 :: rest2) -> bk_same r2 r = false ->
    forall x, List.In x (r2 :: rest2) -> ~ (r_fp x = r_fp r /\ bucket_of start step (r_ts x) = bucket_of start step (r_ts r)).
  Proof.
    intros Hs Hd x Hx. apply bk_same_false in Hd.
    inversion Hs as [|a l Hs2 Hf]; subst. inversion Hs2 as [|a l Hs3 Hf2]; subst.
    rewrite Forall_forall in Hf, Hf2.
    destruct Hx as [<-|Hx]; [exact Hd|].
    pose proof (bk_row_le_key _ _ (Hf r2 (or_introl eq_refl))) as K1.
    pose proof (bk_row_le_key _ _ (Hf2 x Hx)) as K2.
    intros [E1 E2]. apply Hd. lia.
  Qed.

  Lemma bk_head_le r rest x : StronglySorted row_le (r :: rest) -> List.In x rest -> row_le r x.
  Proof. intros Hs Hx. inversion Hs as [|a l _ Hf]; subst. rewrite Forall_forall in Hf. apply Hf. exact Hx. Qed.

  Lemma bk_tail_sorted r rest : StronglySorted row_le (r :: rest) -> StronglySorted row_le rest.
  Proof. intros Hs. inversion Hs; assumption. Qed.

  (* the bucketed rows are strictly ordered by (fingerprint, time) *)
  Lemma bk_rows_strict rows : StronglySorted row_le rows -> StronglySorted row_lt (bucket_rows start step rows).
  Proof.
    induction rows as [|r rest IH]; intros Hs; [constructor|].
    pose proof (IH (bk_tail_sorted _ _ Hs)) as IH'.
    destruct rest as [|r2 rest2]; [cbn [bucket_rows]; constructor; constructor|].
    rewrite bk_rows_step. destruct (bk_same r2 r) eqn:Hd; [exact IH'|].
    constructor; [exact IH'|]. apply Forall_forall. intros y Hy.
    destruct (bk_rows_in _ _ Hy) as (x & Hx & E1 & E2).
    pose proof (bk_separated _ _ _ Hs Hd x Hx) as Hne.
    pose proof (bk_row_le_key _ _ (bk_head_le _ _ _ Hs Hx)) as K.
    unfold row_lt, bk_mk. cbn [r_fp r_ts]. rewrite E1, E2. lia.
  Qed.
End ROWS.

(* (3) the result is again ordered by fingerprint then time, with the same fingerprints *)
Lemma bucket_rows_sorted start step rows : (0 < step)%Z -> StronglySorted row_le rows ->
  StronglySorted row_le (bucket_rows start step rows).
Proof.
  intros Hs H. apply (bk_SS_impl row_lt row_le); [|apply bk_rows_strict; assumption].
  unfold row_lt, row_le. intros a b. lia.
Qed.

Lemma bucket_rows_fps start step rows fp : List.In fp (map r_fp (bucket_rows start step rows)) <-> List.In fp (map r_fp rows).
Proof.
  induction rows as [|r rest IH]; [tauto|]. rewrite bk_rows_cons. cbn [map List.In].
  destruct (bucket_rows start step rest) as [|r' rest'] eqn:E.
  - cbn [map List.In] in *. unfold bk_mk. cbn [r_fp]. tauto.
  - destruct (N.eqb_spec (r_fp r') (r_fp r)) as [E1|E1]; cbn [andb].
    + destruct (Z.eqb (r_ts r') (bucket_of start step (r_ts r))).
      * rewrite IH. split; [tauto|]. intros [H|H]; [|exact H]. apply IH. cbn [map List.In]. left. congruence.
      * cbn [map List.In] in *. unfold bk_mk at 1. cbn [r_fp]. tauto.
    + cbn [map List.In] in *. unfold bk_mk at 1. cbn [r_fp]. tauto.
Qed.

(* (2) per series, bucket_rows is bucket_series *)
Theorem bucket_rows_series start step rows fp : (0 < step)%Z -> StronglySorted row_le rows ->
  rows_of fp (bucket_rows start step rows) = bucket_series start step (rows_of fp rows).
Proof.
  intros Hstep. induction rows as [|r rest IH]; intros Hs; [reflexivity|].
  pose proof (IH (bk_tail_sorted _ _ Hs)) as IH'.
  destruct rest as [|r2 rest2].
  - cbn [bucket_rows]. rewrite !rows_of_cons. cbn [r_fp]. destruct (N.eqb (r_fp r) fp); reflexivity.
  - rewrite bk_rows_step. destruct (bk_same start step r2 r) eqn:Hd.
    + rewrite IH'. rewrite (rows_of_cons fp r). destruct (N.eqb_spec (r_fp r) fp) as [Ef|Ef]; [|reflexivity].
      apply bk_same_true in Hd. destruct Hd as [D1 D2].
      rewrite (rows_of_cons fp r2). replace (N.eqb (r_fp r2) fp) with true by (symmetry; apply N.eqb_eq; congruence).
      destruct (bucket_series_head start step (smp r2) (rows_of fp rest2)) as (v & r' & E).
      change (bucket_series start step (smp r :: smp r2 :: rows_of fp rest2)) with
        (match bucket_series start step (smp r2 :: rows_of fp rest2) with
         | s' :: r' => if Z.eqb (fst s') (bucket_of start step (fst (smp r))) then s' :: r'
                       else (bucket_of start step (fst (smp r)), snd (smp r)) :: s' :: r'
         | [] => [(bucket_of start step (fst (smp r)), snd (smp r))] end).
      rewrite E. cbn [fst smp]. rewrite D2, Z.eqb_refl. reflexivity.
    + rewrite (rows_of_cons fp (bk_mk start step r)), (rows_of_cons fp r). unfold bk_mk at 1. cbn [r_fp].
      destruct (N.eqb_spec (r_fp r) fp) as [Ef|Ef]; [|exact IH'].
      rewrite IH'.
      change (bucket_series start step (smp r :: rows_of fp (r2 :: rest2))) with
        (match bucket_series start step (rows_of fp (r2 :: rest2)) with
         | s' :: r' => if Z.eqb (fst s') (bucket_of start step (fst (smp r))) then s' :: r'
                       else (bucket_of start step (fst (smp r)), snd (smp r)) :: s' :: r'
         | [] => [(bucket_of start step (fst (smp r)), snd (smp r))] end).
      destruct (rows_of fp (r2 :: rest2)) as [|s t] eqn:Er; [reflexivity|].
      assert (exists x, List.In x (r2 :: rest2) /\ r_fp x = fp /\ s = smp x) as (x & Hx & Hfx & ->).
      { assert (List.In s (rows_of fp (r2 :: rest2))) as Hin by (rewrite Er; left; reflexivity).
        unfold rows_of in Hin. apply in_map_iff in Hin. destruct Hin as (x & <- & Hx). apply filter_In in Hx.
        destruct Hx as [Hx Hf]. apply N.eqb_eq in Hf. exists x. repeat split; assumption. }
      destruct (bucket_series_head start step (smp x) t) as (v & r' & E). rewrite E. cbn [fst smp snd].
      pose proof (bk_separated start step Hstep _ _ _ Hs Hd x Hx) as Hne.
      destruct (Z.eqb_spec (bucket_of start step (r_ts x)) (bucket_of start step (r_ts r))) as [E2|E2].
      * exfalso. apply Hne. split; [congruence|exact E2].
      * reflexivity.
Qed.

(* ====================================================================================== *)
(* the GROUP BY / argMax pipeline of eval_bucketed, as a function of the bucketed rows     *)
(* ====================================================================================== *)
Definition bk_key (br : Z * row) : N * Z := (r_fp (snd br), fst br).
Definition bk_pick (acc : option row) (br : Z * row) : option row :=
  match acc with
  | None => Some (snd br)
  | Some a => if Z.leb (r_ts a) (r_ts (snd br)) then Some (snd br) else acc
  end.
Definition bk_agg (brs : list (Z * row)) (k : N * Z) : row :=
  match fold_left bk_pick (filter (fun br => fpts_eqb (bk_key br) k) brs) None with
  | Some a => {| r_fp := fst k; r_val := r_val a; r_ts := snd k |}
  | None => {| r_fp := fst k; r_val := 0; r_ts := snd k |}
  end.
Definition bk_pipe (brs : list (Z * row)) : list row := map (bk_agg brs) (dedup fpts_eqb (map bk_key brs) []).
Definition bk_lt (a b : row) : bool := key_lt [Z.of_N (r_fp a); r_ts a] [Z.of_N (r_fp b); r_ts b].

Lemma bk_fpts_true a b : fpts_eqb a b = true <-> fst a = fst b /\ snd a = snd b.
Proof. unfold fpts_eqb. rewrite andb_true_iff, N.eqb_eq, Z.eqb_eq. tauto. Qed.
Lemma bk_fpts_refl a : fpts_eqb a a = true.
Proof. apply bk_fpts_true. split; reflexivity. Qed.
Lemma bk_fpts_false a b : fpts_eqb a b = false <-> ~ (fst a = fst b /\ snd a = snd b).
Proof.
  rewrite <- bk_fpts_true. destruct (fpts_eqb a b); intuition congruence.
Qed.

Lemma bk_lt_strict a b : row_lt a b -> bk_lt b a = false.
Proof.
  unfold row_lt, bk_lt, key_lt. intros H.
  destruct (Z.ltb_spec (Z.of_N (r_fp b)) (Z.of_N (r_fp a))); [lia|].
  destruct (Z.ltb_spec (Z.of_N (r_fp a)) (Z.of_N (r_fp b))); [reflexivity|].
  destruct (Z.ltb_spec (r_ts b) (r_ts a)); [lia|].
  destruct (Z.ltb_spec (r_ts a) (r_ts b)); reflexivity.
Qed.

Section PIPE.
  Variables start step : Z.
  Hypothesis Hstep : 0 < step.
  Definition bk_mkb (r : row) : Z * row := (bucket_of start step (r_ts r), r).

  Lemma bk_key_mkb r : bk_key (bk_mkb r) = (r_fp r, bucket_of start step (r_ts r)).
  Proof. reflexivity. Qed.

  Lemma bk_agg_skip r brs k : fpts_eqb (bk_key (bk_mkb r)) k = false -> bk_agg (bk_mkb r :: brs) k = bk_agg brs k.
  Proof. intros H. unfold bk_agg. cbn [filter]. rewrite H. reflexivity. Qed.

  Lemma bk_agg_absorb r r2 brs k : bk_key (bk_mkb r2) = bk_key (bk_mkb r) -> r_ts r <= r_ts r2 ->
    fpts_eqb (bk_key (bk_mkb r)) k = true -> bk_agg (bk_mkb r :: bk_mkb r2 :: brs) k = bk_agg (bk_mkb r2 :: brs) k.
  Proof.
    intros Hk Hts H. unfold bk_agg. cbn [filter]. rewrite Hk, H. cbn [fold_left]. unfold bk_pick at 2 4.
    unfold bk_pick at 2. cbn [snd bk_mkb]. replace (Z.leb (r_ts r) (r_ts r2)) with true by (symmetry; apply Z.leb_le; exact Hts).
    reflexivity.
  Qed.

  Theorem bk_pipe_rows rows : StronglySorted row_le rows -> bk_pipe (map bk_mkb rows) = bucket_rows start step rows.
  Proof.
    induction rows as [|r rest IH]; intros Hs; [reflexivity|].
    pose proof (IH (bk_tail_sorted _ _ Hs)) as IH'.
    destruct rest as [|r2 rest2].
    - unfold bk_pipe. cbn [map dedup existsb]. unfold bk_agg. cbn [filter]. rewrite bk_fpts_refl. reflexivity.
    - rewrite bk_rows_step. rewrite <- IH'. unfold bk_pipe.
      set (brs2 := map bk_mkb rest2).
      change (map bk_mkb (r :: r2 :: rest2)) with (bk_mkb r :: bk_mkb r2 :: brs2).
      change (map bk_mkb (r2 :: rest2)) with (bk_mkb r2 :: brs2).
      destruct (bk_same start step r2 r) eqn:Hd.
      + apply bk_same_true in Hd. destruct Hd as [D1 D2].
        assert (bk_key (bk_mkb r2) = bk_key (bk_mkb r)) as Hk by (rewrite !bk_key_mkb; congruence).
        assert (r_ts r <= r_ts r2) as Hts.
        { pose proof (bk_head_le _ _ r2 Hs (or_introl eq_refl)) as Hle. unfold row_le in Hle. lia. }
        cbn [map dedup existsb]. rewrite Hk. cbn [existsb]. rewrite bk_fpts_refl. cbn [orb].
        cbn [map]. f_equal.
        * apply bk_agg_absorb; [exact Hk|exact Hts|apply bk_fpts_refl].
        * apply map_ext. intros k. destruct (fpts_eqb (bk_key (bk_mkb r)) k) eqn:Ek.
          -- apply bk_agg_absorb; assumption.
          -- apply bk_agg_skip. exact Ek.
      + pose proof (bk_separated start step Hstep _ _ _ Hs Hd) as Hsep.
        assert (forall x, List.In x (r2 :: rest2) -> fpts_eqb (bk_key (bk_mkb x)) (bk_key (bk_mkb r)) = false) as Hsep1.
        { intros x Hx. apply bk_fpts_false. rewrite !bk_key_mkb. cbn [fst snd]. exact (Hsep x Hx). }
        assert (forall x, List.In x (r2 :: rest2) -> fpts_eqb (bk_key (bk_mkb r)) (bk_key (bk_mkb x)) = false) as Hsep2.
        { intros x Hx. apply bk_fpts_false. rewrite !bk_key_mkb. cbn [fst snd]. intros [E1 E2]. apply (Hsep x Hx). split; congruence. }
        change (bk_mkb r2 :: brs2) with (map bk_mkb (r2 :: rest2)) in *. clear brs2.
        remember (map bk_mkb (r2 :: rest2)) as brs' eqn:Ebrs.
        cbn [map dedup existsb].
        rewrite (bk_dedup_ext fpts_eqb (map bk_key brs') [bk_key (bk_mkb r)] []).
        * cbn [map]. f_equal.
          -- unfold bk_agg at 1. cbn [filter]. rewrite bk_fpts_refl.
             rewrite (filter_none (fun br => fpts_eqb (bk_key br) (bk_key (bk_mkb r)))).
             ++ reflexivity.
             ++ intros br Hbr. rewrite Ebrs in Hbr. apply in_map_iff in Hbr. destruct Hbr as (x & <- & Hx). apply Hsep1. exact Hx.
          -- apply map_ext_in. intros k Hk. apply bk_agg_skip.
             apply bk_dedup_in in Hk. rewrite Ebrs, map_map in Hk. apply in_map_iff in Hk. destruct Hk as (x & <- & Hx).
             apply Hsep2. exact Hx.
        * intros k Hk. rewrite Ebrs, map_map in Hk. apply in_map_iff in Hk. destruct Hk as (x & <- & Hx).
          cbn [existsb]. rewrite (Hsep1 x Hx). reflexivity.
  Qed.
End PIPE.

(* ====================================================================================== *)
(* (1) the statement of processHints under the interpreter                                 *)
(* ====================================================================================== *)
Section BUCKETQ.
  Variable re_match : string -> string -> bool.

  Lemma process_hints_instant q h : is_instant (h_func h) = true ->
    process_hints q h =
    set_orderby [Ord (Id "fingerprint") true; Ord (Id "timestamp_ms") true]
     (set_groupby [Id "timestamp_ms"; Id "fingerprint"]
      (set_from (WRef "spls" q)
       (set_cols [Id "fingerprint";
                  Col (Fn "argMax" [Id "spls.value"; Id "spls.timestamp_ms"]) "value";
                  Col (bucket_expr h) "timestamp_ms"]
        (with_ [("spls", q)] empty_select)))).
  Proof. intros H. unfold process_hints. rewrite H, (instant_not_range _ H). reflexivity. Qed.

  Lemma process_hints_fields q h : is_instant (h_func h) = true ->
    s_from (process_hints q h) = Some (WRef "spls" q) /\
    s_cols (process_hints q h) = [Id "fingerprint"; Col (Fn "argMax" [Id "spls.value"; Id "spls.timestamp_ms"]) "value";
                                  Col (bucket_expr h) "timestamp_ms"] /\
    s_groupby (process_hints q h) = [Id "timestamp_ms"; Id "fingerprint"].
  Proof. intros H. rewrite (process_hints_instant q h H). repeat split; reflexivity. Qed.

  (* eval_bucketed on a statement of that shape, the bucket column being a known function of the row's time *)
  Lemma eval_bucketed_shape q' w inner c1 f a1 a2 al b bl db rows (Bf : row -> Z) :
    s_from q' = Some (WRef w inner) -> s_cols q' = [c1; Col (Fn f [a1; a2]) al; Col b bl] ->
    eval_main re_match inner db = Some rows ->
    (forall r, ev re_match no_cte (fun n => if String.eqb n "spls.timestamp_ms" then Some (VI (r_ts r)) else None) b = Some (VI (Bf r))) ->
    eval_bucketed re_match q' db = Some (isort bk_lt (bk_pipe (map (fun r => (Bf r, r)) rows))).
  Proof.
    intros Hf Hc Hm Hb. unfold eval_bucketed. rewrite Hf, Hc. cbv beta iota. rewrite Hm. cbv beta iota zeta.
    match goal with |- context [all_some (map ?F rows)] =>
      assert (E : all_some (map F rows) = Some (map (fun r => (Bf r, r)) rows)) end.
    { rewrite <- (all_some_map_Some (fun r => (Bf r, r))). f_equal. apply map_ext. intros r. cbv beta. rewrite Hb. reflexivity. }
    rewrite E. reflexivity.
  Qed.

  (* (1) the GROUP BY / argMax / ORDER BY structure of the step-bucketing statement, under the interpreter *)
  Theorem eval_bucketed_process_hints q h db rows :
    is_instant (h_func h) = true -> (0 < h_step h)%Z ->
    eval_main re_match q db = Some rows -> StronglySorted row_le rows ->
    eval_bucketed re_match (process_hints q h) db = Some (bucket_rows (h_start h) (h_step h) rows).
  Proof.
    intros Hi Hs Hm Hsorted.
    destruct (process_hints_fields q h Hi) as (Hf & Hc & _).
    rewrite (eval_bucketed_shape _ _ _ _ _ _ _ _ _ _ db rows (fun r => bucket_of (h_start h) (h_step h) (r_ts r)) Hf Hc Hm).
    - change (map (fun r => (bucket_of (h_start h) (h_step h) (r_ts r), r)) rows) with (map (bk_mkb (h_start h) (h_step h)) rows).
      rewrite (bk_pipe_rows _ _ Hs rows Hsorted).
      rewrite (bk_isort_id bk_lt row_lt _ bk_lt_strict (bk_rows_strict _ _ Hs rows Hsorted)). reflexivity.
    - intros r. assert (h_step h <> 0) as Hne by lia.
      exact (ev_bucket_expr re_match no_cte h (r_ts r) Hne).
  Qed.

  (* and eval_prom takes that branch *)
  Corollary eval_prom_process_hints q h db rows :
    is_instant (h_func h) = true -> (0 < h_step h)%Z ->
    eval_main re_match q db = Some rows -> StronglySorted row_le rows ->
    eval_prom re_match (process_hints q h) db = Some (bucket_rows (h_start h) (h_step h) rows).
  Proof.
    intros Hi Hs Hm Hsorted. destruct (process_hints_fields q h Hi) as (_ & _ & Hg).
    unfold eval_prom. rewrite Hg. apply eval_bucketed_process_hints; assumption.
  Qed.
End BUCKETQ.

(* ====================================================================================== *)
(* a concrete instance: two series, step 5 s; series 31 has three samples in the first    *)
(* bucket (one of them on the bucket's end), two samples of one millisecond in the second *)
(* (the later row wins), one in the third; series 32 has one sample in the first and one  *)
(* in the third bucket                                                                    *)
(* ====================================================================================== *)
Definition bx_hints : hints := {| h_start := 1700000000000; h_end := 1700000060000; h_step := 5000; h_func := "abs"; h_range := 0 |}.
Definition bx_db : database :=
  {| d_gin := gin_of w_series;
     d_samples := [{| sm_fp := 32; sm_type := 2; sm_ts_ns := 1700000011000000000; sm_value := 22 |};
                   {| sm_fp := 31; sm_type := 2; sm_ts_ns := 1700000003000000000; sm_value := 2 |};
                   {| sm_fp := 31; sm_type := 2; sm_ts_ns := 1700000001000000000; sm_value := 1 |};
                   {| sm_fp := 31; sm_type := 2; sm_ts_ns := 1700000006000500000; sm_value := 5 |};
                   {| sm_fp := 31; sm_type := 2; sm_ts_ns := 1700000005000000000; sm_value := 3 |};
                   {| sm_fp := 32; sm_type := 2; sm_ts_ns := 1700000001000000000; sm_value := 21 |};
                   {| sm_fp := 31; sm_type := 2; sm_ts_ns := 1700000006000000000; sm_value := 4 |};
                   {| sm_fp := 31; sm_type := 2; sm_ts_ns := 1700000012000000000; sm_value := 6 |}];
     d_series := w_series |}.
Definition bx_query : select := raw_query re_lit (prom_ctx false "qryn" bx_hints) w_ms.
Definition bx_rows : list row :=
  [{| r_fp := 31; r_val := 1; r_ts := 1700000001000 |}; {| r_fp := 31; r_val := 2; r_ts := 1700000003000 |};
   {| r_fp := 31; r_val := 3; r_ts := 1700000005000 |}; {| r_fp := 31; r_val := 4; r_ts := 1700000006000 |};
   {| r_fp := 31; r_val := 5; r_ts := 1700000006000 |}; {| r_fp := 31; r_val := 6; r_ts := 1700000012000 |};
   {| r_fp := 32; r_val := 21; r_ts := 1700000001000 |}; {| r_fp := 32; r_val := 22; r_ts := 1700000011000 |}].
Definition bx_bucketed : list row :=
  [{| r_fp := 31; r_val := 3; r_ts := 1700000005000 |}; {| r_fp := 31; r_val := 5; r_ts := 1700000010000 |};
   {| r_fp := 31; r_val := 6; r_ts := 1700000015000 |};
   {| r_fp := 32; r_val := 21; r_ts := 1700000005000 |}; {| r_fp := 32; r_val := 22; r_ts := 1700000015000 |}].

(* the statement the transpiler emits for these hints is process_hints of the samples query *)
Example bx_statement : transpile_label_matchers re_lit bx_hints (prom_ctx false "qryn" bx_hints) w_ms = process_hints bx_query bx_hints.
Proof. reflexivity. Qed.
Example bx_main : eval_main re_lit bx_query bx_db = Some bx_rows.
Proof. vm_compute. reflexivity. Qed.
(* (1) by computation: the interpreter on the grouped statement ... *)
Example bx_eval_prom : eval_prom re_lit (process_hints bx_query bx_hints) bx_db = Some bx_bucketed.
Proof. vm_compute. reflexivity. Qed.
(* ... and the list reading on the rows of the samples query *)
Example bx_bucket_rows : bucket_rows (h_start bx_hints) (h_step bx_hints) bx_rows = bx_bucketed.
Proof. vm_compute. reflexivity. Qed.
(* (2) by computation, for both fingerprints *)
Example bx_series_31 :
  rows_of 31 bx_bucketed = bucket_series (h_start bx_hints) (h_step bx_hints) (rows_of 31 bx_rows) /\
  rows_of 31 bx_bucketed = [(1700000005000, 3); (1700000010000, 5); (1700000015000, 6)]%Z.
Proof. split; vm_compute; reflexivity. Qed.
Example bx_series_32 :
  rows_of 32 bx_bucketed = bucket_series (h_start bx_hints) (h_step bx_hints) (rows_of 32 bx_rows) /\
  rows_of 32 bx_bucketed = [(1700000005000, 21); (1700000015000, 22)]%Z.
Proof. split; vm_compute; reflexivity. Qed.
(* the same instance through the theorem: its hypotheses hold here *)
Example bx_rows_sorted : StronglySorted row_le bx_rows.
Proof. unfold bx_rows. repeat (constructor; [|repeat (constructor; [unfold row_le; cbn [r_fp r_ts]; lia|]); constructor]). constructor. Qed.
Example bx_by_theorem : eval_prom re_lit (process_hints bx_query bx_hints) bx_db = Some (bucket_rows (h_start bx_hints) (h_step bx_hints) bx_rows).
Proof. apply eval_prom_process_hints; [reflexivity|reflexivity|exact bx_main|exact bx_rows_sorted]. Qed.
