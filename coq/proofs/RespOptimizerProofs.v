(* C15 - ResponseOptimizerPlanner in front of exportStreamsValue: for every threshold, every split of the rows into
   channel batches and every map iteration order, every row is handed on exactly once and in the order of its stream;
   one object per stream as long as no window is closed before the input ends; refuted at the code's threshold. *)
From Coq Require Import List NArith ZArith Bool Ascii String Lia Permutation.
From Qryn Require Import model.GoFloat model.JsonStream model.RespOptimizer proofs.JsonStreamProofs.
Import ListNotations.

(* ------------------------------------------------------------------------------------------ *)
(* the map *)

Definition fm_wf (m : fpmap) : Prop :=
  NoDup (fm_keys m) /\ forall k l, In (k, l) m -> l <> [] /\ forall e, In e l -> e_fp e = k.

Lemma fm_wf_nil : fm_wf [].
Proof. split; [constructor|intros k l []]. Qed.

Lemma fm_add_in_keys : forall m e k, In k (fm_keys (fm_add m e)) <-> In k (fm_keys m) \/ k = e_fp e.
Proof.
  induction m as [|[k0 l0] r IH]; intros e k.
  - cbn. split; [intros [H|[]]; right; now symmetry|intros [[]|H]; left; now symmetry].
  - cbn [fm_add]. destruct (N.eqb_spec k0 (e_fp e)) as [E|E].
    + cbn [fm_keys map fst]. split; [intros H; left; exact H|intros [H|H]; [exact H|left; congruence]].
    + unfold fm_keys in *. cbn [map fst In]. rewrite IH. tauto.
Qed.

Lemma fm_add_wf : forall m e, fm_wf m -> fm_wf (fm_add m e).
Proof.
  induction m as [|[k0 l0] r IH]; intros e [Hn Hl].
  - cbn. split; [constructor; [intros []|constructor]|].
    intros k l [H|[]]. injection H as <- <-. split; [discriminate|]. intros x [<-|[]]. reflexivity.
  - assert (Hr : fm_wf r).
    { split; [now inversion Hn|]. intros k l H. apply Hl. now right. }
    cbn [fm_add]. destruct (N.eqb_spec k0 (e_fp e)) as [E|E].
    + split; [exact Hn|]. intros k l [H|H].
      * injection H as <- <-. destruct (Hl k0 l0 (or_introl eq_refl)) as [_ Hf]. split.
        -- intros C. apply app_eq_nil in C. destruct C as [_ C]. discriminate C.
        -- intros x Hx. apply in_app_or in Hx. destruct Hx as [Hx|[<-|[]]]; [now apply Hf|now symmetry].
      * apply Hl. now right.
    + specialize (IH e Hr). destruct IH as [IHn IHl]. split.
      * cbn [fm_keys map fst]. fold (fm_keys (fm_add r e)). constructor; [|exact IHn].
        intros C. apply fm_add_in_keys in C. destruct C as [C|C]; [|congruence].
        inversion Hn as [|? ? Hnot _]. apply Hnot. exact C.
      * intros k l [H|H]; [apply Hl; left; exact H|apply IHl; exact H].
Qed.

Lemma fold_add_wf : forall b m, fm_wf m -> fm_wf (fold_left fm_add b m).
Proof. induction b as [|e b IH]; intros m H; [exact H|]. cbn [fold_left]. apply IH, fm_add_wf, H. Qed.

Lemma fm_get_add : forall m e f, fm_get (fm_add m e) f = (fm_get m f ++ (if N.eqb (e_fp e) f then [e] else []))%list.
Proof.
  induction m as [|[k0 l0] r IH]; intros e f; [reflexivity|].
  cbn [fm_add]. destruct (N.eqb_spec k0 (e_fp e)) as [E|E]; cbn [fm_get].
  - destruct (N.eqb_spec k0 f) as [F|F].
    + rewrite <- E. destruct (N.eqb_spec k0 f); [reflexivity|contradiction].
    + rewrite <- E. destruct (N.eqb_spec k0 f); [contradiction|]. now rewrite app_nil_r.
  - destruct (N.eqb_spec k0 f) as [F|F]; [|apply IH].
    destruct (N.eqb_spec (e_fp e) f) as [G|G]; [congruence|]. now rewrite app_nil_r.
Qed.

Lemma fm_get_fold : forall b m f, fm_get (fold_left fm_add b m) f = (fm_get m f ++ filter (fp_is f) b)%list.
Proof.
  induction b as [|e b IH]; intros m f; [cbn; now rewrite app_nil_r|].
  cbn [fold_left filter]. rewrite IH, fm_get_add, <- app_assoc. unfold fp_is at 2. destruct (N.eqb (e_fp e) f); reflexivity.
Qed.

Lemma fm_get_notin : forall m k, ~ In k (fm_keys m) -> fm_get m k = [].
Proof.
  induction m as [|[k0 l0] r IH]; intros k H; [reflexivity|]. cbn [fm_get].
  destruct (N.eqb_spec k0 k) as [E|E]; [exfalso; apply H; left; exact E|]. apply IH. intros C. apply H. now right.
Qed.

Lemma fm_get_in : forall m k, In k (fm_keys m) -> In (k, fm_get m k) m.
Proof.
  induction m as [|[k0 l0] r IH]; intros k H; [destruct H|]. cbn [fm_get].
  destruct (N.eqb_spec k0 k) as [E|E]; [left; now rewrite E|]. right. apply IH. destruct H as [H|H]; [contradiction|exact H].
Qed.

Lemma filter_all : forall (A : Type) (p : A -> bool) l, (forall x, In x l -> p x = true) -> filter p l = l.
Proof.
  induction l as [|x l IH]; intros H; [reflexivity|]. cbn [filter]. rewrite (H x (or_introl eq_refl)). f_equal.
  apply IH. intros y Hy. apply H. now right.
Qed.
Lemma filter_none : forall (A : Type) (p : A -> bool) l, (forall x, In x l -> p x = false) -> filter p l = [].
Proof.
  induction l as [|x l IH]; intros H; [reflexivity|]. cbn [filter]. rewrite (H x (or_introl eq_refl)).
  apply IH. intros y Hy. apply H. now right.
Qed.

Lemma filter_get : forall m k f, fm_wf m -> filter (fp_is f) (fm_get m k) = if N.eqb k f then fm_get m k else [].
Proof.
  intros m k f [_ Hl]. destruct (in_dec N.eq_dec k (fm_keys m)) as [Hk|Hk].
  - destruct (Hl k _ (fm_get_in m k Hk)) as [_ Hf]. destruct (N.eqb_spec k f) as [E|E].
    + apply filter_all. intros x Hx. unfold fp_is. rewrite (Hf x Hx). apply N.eqb_eq, E.
    + apply filter_none. intros x Hx. unfold fp_is. rewrite (Hf x Hx). apply N.eqb_neq, E.
  - rewrite (fm_get_notin m k Hk). now destruct (N.eqb k f).
Qed.

Lemma filter_concat_get : forall m o f, fm_wf m -> NoDup o ->
  filter (fp_is f) (List.concat (map (fm_get m) o)) = if in_dec N.eq_dec f o then fm_get m f else [].
Proof.
  intros m o f Hw. induction o as [|k o IH]; intros Hn; [reflexivity|].
  cbn [map List.concat]. rewrite filter_app, filter_get by exact Hw. inversion Hn as [|? ? Hnot Hn']. subst.
  rewrite (IH Hn'). destruct (N.eqb_spec k f) as [E|E].
  - subst k. destruct (in_dec N.eq_dec f o) as [C|_]; [contradiction|].
    destruct (in_dec N.eq_dec f (f :: o)) as [_|C]; [apply app_nil_r|exfalso; apply C; now left].
  - destruct (in_dec N.eq_dec f o) as [C|C]; destruct (in_dec N.eq_dec f (k :: o)) as [D|D]; try reflexivity.
    + exfalso. apply D. now right.
    + destruct D as [D|D]; [congruence|contradiction].
Qed.

(* ------------------------------------------------------------------------------------------ *)
(* range over the map *)

Lemma nodupb_NoDup : forall l, nodupb l = true -> NoDup l.
Proof.
  induction l as [|x l IH]; intros H; [constructor|]. cbn [nodupb] in H. apply andb_prop in H. destruct H as [H1 H2].
  constructor; [|apply IH, H2]. intros C. apply negb_true_iff in H1.
  assert (E : existsb (N.eqb x) l = true) by (apply existsb_exists; exists x; split; [exact C|apply N.eqb_refl]). congruence.
Qed.
Lemma NoDup_nodupb : forall l, NoDup l -> nodupb l = true.
Proof.
  induction 1 as [|x l Hx Hn IH]; [reflexivity|]. cbn [nodupb]. rewrite IH, andb_true_r. apply negb_true_iff.
  destruct (existsb (N.eqb x) l) eqn:E; [|reflexivity]. apply existsb_exists in E. destruct E as [y [Hy E]].
  apply N.eqb_eq in E. subst y. contradiction.
Qed.

Lemma is_perm_of_spec : forall o keys, NoDup keys -> is_perm_of o keys = true ->
  NoDup o /\ forall k, In k o <-> In k keys.
Proof.
  intros o keys Hk H. unfold is_perm_of in H. apply andb_prop in H. destruct H as [H H3].
  apply andb_prop in H. destruct H as [H1 H2]. apply Nat.eqb_eq in H1. apply nodupb_NoDup in H2.
  assert (I : incl keys o).
  { intros k Hin. rewrite forallb_forall in H3. specialize (H3 k Hin). apply existsb_exists in H3.
    destruct H3 as [y [Hy E]]. apply N.eqb_eq in E. now subst y. }
  split; [exact H2|]. intros k. split; [|apply I].
  apply (NoDup_length_incl Hk); [lia|exact I].
Qed.

Lemma visit_spec : forall os m, fm_wf m -> NoDup (visit os m) /\ forall k, In k (visit os m) <-> In k (fm_keys m).
Proof.
  intros os m [Hn _]. unfold visit. destruct (is_perm_of _ _) eqn:E.
  - apply is_perm_of_spec; assumption.
  - split; [exact Hn|tauto].
Qed.

Lemma flush_filter : forall os m f, fm_wf m -> filter (fp_is f) (List.concat (flush os m)) = fm_get m f.
Proof.
  intros os m f Hw. destruct (visit_spec os m Hw) as [Hn Hi]. unfold flush.
  rewrite filter_concat_get by assumption. destruct (in_dec N.eq_dec f (visit os m)) as [C|C]; [reflexivity|].
  symmetry. apply fm_get_notin. intros D. apply C, Hi, D.
Qed.

(* ------------------------------------------------------------------------------------------ *)
(* every row once, in the order of its stream: for every threshold, batching and map order *)

Lemma opt_run_filter : forall thr bs m size os f, fm_wf m -> (0 <= size)%Z -> (size = 0%Z -> m = []) ->
  filter (fp_is f) (List.concat (opt_run thr m size os bs)) = (fm_get m f ++ filter (fp_is f) (List.concat bs))%list.
Proof.
  intros thr. induction bs as [|b r IH]; intros m size os f Hw H0 Hz.
  - cbn [opt_run List.concat filter]. rewrite app_nil_r. destruct (Z.eqb_spec size 0) as [E|E].
    + rewrite (Hz E). reflexivity.
    + apply flush_filter, Hw.
  - cbn [opt_run]. cbv zeta.
    assert (Hw' : fm_wf (fold_left fm_add b m)) by (apply fold_add_wf, Hw).
    destruct (Z.ltb_spec (size + Z.of_nat (List.length b)) thr) as [L|L].
    + rewrite IH; [|exact Hw'|lia|].
      * rewrite fm_get_fold. cbn [List.concat]. rewrite filter_app, app_assoc. reflexivity.
      * intros E. assert (Hb : b = []) by (destruct b; [reflexivity|cbn [List.length] in E; lia]).
        subst b. cbn [fold_left]. apply Hz. cbn [List.length] in E. lia.
    + rewrite concat_app, filter_app, flush_filter by exact Hw'.
      rewrite IH; [|apply fm_wf_nil|lia|reflexivity].
      rewrite fm_get_fold. cbn [List.concat fm_get app]. rewrite filter_app, app_assoc. reflexivity.
Qed.

Theorem optimize_rows_per_stream : forall thr os bs f,
  filter (fp_is f) (List.concat (optimize thr os bs)) = filter (fp_is f) (List.concat bs).
Proof. intros. unfold optimize. rewrite opt_run_filter; [reflexivity|apply fm_wf_nil|lia|reflexivity]. Qed.

Lemma filter_comm : forall (A : Type) (p q : A -> bool) l, filter p (filter q l) = filter q (filter p l).
Proof.
  induction l as [|x l IH]; [reflexivity|]. cbn [filter].
  destruct (p x) eqn:P; destruct (q x) eqn:Q; cbn [filter]; rewrite ?P, ?Q, IH; reflexivity.
Qed.

Theorem optimize_live_rows_per_stream : forall thr os bs f,
  filter (fp_is f) (rows_streams (optimize thr os bs)) = filter (fp_is f) (rows_streams bs).
Proof. intros. unfold rows_streams. rewrite !(filter_comm _ (fp_is f)), optimize_rows_per_stream. reflexivity. Qed.

Lemma optimize_in : forall thr os bs e, In e (List.concat (optimize thr os bs)) <-> In e (List.concat bs).
Proof.
  intros thr os bs e. pose proof (optimize_rows_per_stream thr os bs (e_fp e)) as H.
  assert (P : fp_is (e_fp e) e = true) by (unfold fp_is; apply N.eqb_refl).
  split; intros Hin.
  - assert (I : In e (filter (fp_is (e_fp e)) (List.concat (optimize thr os bs)))) by (apply filter_In; split; assumption).
    rewrite H in I. apply filter_In in I. tauto.
  - assert (I : In e (filter (fp_is (e_fp e)) (List.concat bs))) by (apply filter_In; split; assumption).
    rewrite <- H in I. apply filter_In in I. tauto.
Qed.

(* ... and as a multiset statement *)
Lemma perm_concat : forall (A : Type) (l l' : list (list A)), Permutation l l' -> Permutation (List.concat l) (List.concat l').
Proof.
  induction 1 as [|x l l' _ IH|x y l|l l' l'' _ IH1 _ IH2]; cbn [List.concat].
  - constructor.
  - apply Permutation_app_head, IH.
  - rewrite !app_assoc. apply Permutation_app_tail, Permutation_app_comm.
  - eapply Permutation_trans; eassumption.
Qed.

Lemma fm_add_perm : forall m e, Permutation (List.concat (map snd (fm_add m e))) (List.concat (map snd m) ++ [e]).
Proof.
  induction m as [|[k0 l0] r IH]; intros e; [cbn; constructor; constructor|].
  cbn [fm_add]. destruct (N.eqb k0 (e_fp e)); cbn [map snd List.concat].
  - rewrite <- !app_assoc. apply Permutation_app_head, Permutation_app_comm.
  - rewrite <- app_assoc. apply Permutation_app_head, IH.
Qed.
Lemma fold_add_perm : forall b m, Permutation (List.concat (map snd (fold_left fm_add b m))) (List.concat (map snd m) ++ b).
Proof.
  induction b as [|e b IH]; intros m; [cbn [fold_left]; rewrite app_nil_r; apply Permutation_refl|].
  cbn [fold_left]. eapply Permutation_trans; [apply IH|].
  eapply Permutation_trans; [apply Permutation_app_tail, fm_add_perm|]. rewrite <- app_assoc. apply Permutation_refl.
Qed.
Lemma map_get_keys : forall m, NoDup (fm_keys m) -> map (fm_get m) (fm_keys m) = map snd m.
Proof.
  induction m as [|[k0 l0] r IH]; intros Hn; [reflexivity|]. inversion Hn as [|? ? Hnot Hn']. subst.
  cbn [fm_keys map fst snd fm_get]. rewrite N.eqb_refl. f_equal. rewrite <- (IH Hn'). apply map_ext_in.
  intros k Hk. destruct (N.eqb_spec k0 k) as [E|E]; [subst; contradiction|reflexivity].
Qed.
Lemma flush_perm : forall os m, fm_wf m -> Permutation (List.concat (flush os m)) (List.concat (map snd m)).
Proof.
  intros os m Hw. destruct (visit_spec os m Hw) as [Hn Hi]. destruct Hw as [Hk _].
  unfold flush. rewrite <- (map_get_keys m Hk). apply perm_concat, Permutation_map, NoDup_Permutation; assumption.
Qed.
Lemma opt_run_perm : forall thr bs m size os, fm_wf m -> (0 <= size)%Z -> (size = 0%Z -> m = []) ->
  Permutation (List.concat (opt_run thr m size os bs)) (List.concat (map snd m) ++ List.concat bs).
Proof.
  intros thr. induction bs as [|b r IH]; intros m size os Hw H0 Hz.
  - cbn [opt_run List.concat]. rewrite app_nil_r. destruct (Z.eqb_spec size 0) as [E|E].
    + rewrite (Hz E). constructor.
    + apply flush_perm, Hw.
  - cbn [opt_run]. cbv zeta.
    assert (Hw' : fm_wf (fold_left fm_add b m)) by (apply fold_add_wf, Hw).
    destruct (Z.ltb_spec (size + Z.of_nat (List.length b)) thr) as [L|L].
    + eapply Permutation_trans; [apply IH; [exact Hw'|lia|]|].
      * intros E. assert (Hb : b = []) by (destruct b; [reflexivity|cbn [List.length] in E; lia]).
        subst b. cbn [fold_left]. apply Hz. cbn [List.length] in E. lia.
      * cbn [List.concat]. rewrite app_assoc. apply Permutation_app_tail, fold_add_perm.
    + rewrite concat_app. cbn [List.concat].
      eapply Permutation_trans; [apply Permutation_app; [apply flush_perm, Hw'|apply IH; [apply fm_wf_nil|lia|reflexivity]]|].
      cbn [map List.concat app]. rewrite app_assoc. apply Permutation_app_tail, fold_add_perm.
Qed.

Theorem optimize_rows_once : forall thr os bs, Permutation (List.concat (optimize thr os bs)) (List.concat bs).
Proof. intros. unfold optimize. apply (opt_run_perm thr bs [] 0%Z os); [apply fm_wf_nil|lia|reflexivity]. Qed.

Lemma perm_filter : forall (A : Type) (p : A -> bool) l l', Permutation l l' -> Permutation (filter p l) (filter p l').
Proof.
  induction 1 as [|x l l' _ IH|x y l|l l' l'' _ IH1 _ IH2]; cbn [filter].
  - constructor.
  - destruct (p x); [constructor|]; exact IH.
  - destruct (p x); destruct (p y); try apply Permutation_refl. constructor.
  - eapply Permutation_trans; eassumption.
Qed.
Theorem optimize_live_rows_once : forall thr os bs, Permutation (rows_streams (optimize thr os bs)) (rows_streams bs).
Proof. intros. apply perm_filter, optimize_rows_once. Qed.

(* ------------------------------------------------------------------------------------------ *)
(* every batch handed on is non-empty and carries one fingerprint *)

Lemma flush_batches : forall os m b, fm_wf m -> In b (flush os m) -> b <> [] /\ exists k, forall e, In e b -> e_fp e = k.
Proof.
  intros os m b Hw Hb. destruct (visit_spec os m Hw) as [_ Hi]. unfold flush in Hb. apply in_map_iff in Hb.
  destruct Hb as [k [<- Hk]]. apply Hi in Hk. destruct Hw as [_ Hl]. destruct (Hl k _ (fm_get_in m k Hk)) as [Hne Hf].
  split; [exact Hne|exists k; exact Hf].
Qed.
Lemma opt_run_batches : forall thr bs m size os b, fm_wf m -> In b (opt_run thr m size os bs) ->
  b <> [] /\ exists k, forall e, In e b -> e_fp e = k.
Proof.
  intros thr. induction bs as [|b0 r IH]; intros m size os b Hw Hb.
  - cbn [opt_run] in Hb. destruct (size =? 0)%Z; [destruct Hb|]. eapply flush_batches; eassumption.
  - cbn [opt_run] in Hb. cbv zeta in Hb. assert (Hw' : fm_wf (fold_left fm_add b0 m)) by (apply fold_add_wf, Hw).
    destruct (_ <? thr)%Z.
    + eapply IH; eassumption.
    + apply in_app_or in Hb. destruct Hb as [Hb|Hb]; [eapply flush_batches; eassumption|].
      eapply IH; [apply fm_wf_nil|exact Hb].
Qed.
Theorem optimize_batches_one_stream : forall thr os bs b, In b (optimize thr os bs) ->
  b <> [] /\ exists k, forall e, In e b -> e_fp e = k.
Proof. intros thr os bs b. apply opt_run_batches, fm_wf_nil. Qed.

(* ------------------------------------------------------------------------------------------ *)
(* one object per stream while no window is closed before the end of the input *)

Definition total_rows (bs : list (list entry)) : Z := Z.of_nat (List.length (List.concat bs)).
Definition fm_all (bs : list (list entry)) (m : fpmap) : fpmap := fold_left (fun m b => fold_left fm_add b m) bs m.

Lemma opt_run_single_window : forall thr bs m size os, (0 <= size)%Z -> (size + total_rows bs < thr)%Z ->
  opt_run thr m size os bs = if (size + total_rows bs =? 0)%Z then [] else flush os (fm_all bs m).
Proof.
  intros thr. induction bs as [|b r IH]; intros m size os H0 H.
  - unfold total_rows. cbn [List.concat List.length Z.of_nat opt_run fm_all fold_left]. now rewrite Z.add_0_r.
  - assert (T : total_rows (b :: r) = (Z.of_nat (List.length b) + total_rows r)%Z).
    { unfold total_rows. cbn [List.concat]. rewrite app_length. lia. }
    assert (Tr : (0 <= total_rows r)%Z) by (unfold total_rows; lia).
    cbn [opt_run]. cbv zeta. destruct (Z.ltb_spec (size + Z.of_nat (List.length b)) thr) as [L|L]; [|lia].
    rewrite IH by lia. rewrite T. cbn [fm_all fold_left]. now rewrite Z.add_assoc.
Qed.

Lemma fm_all_wf : forall bs m, fm_wf m -> fm_wf (fm_all bs m).
Proof. induction bs as [|b r IH]; intros m H; [exact H|]. cbn [fm_all fold_left]. apply IH, fold_add_wf, H. Qed.

Lemma concat_filter : forall (A : Type) (p : A -> bool) ls, filter p (List.concat ls) = List.concat (map (filter p) ls).
Proof. induction ls as [|l ls IH]; [reflexivity|]. cbn [List.concat map]. now rewrite filter_app, IH. Qed.

Lemma dedup_cons_notin : forall k L, ~ In k L -> dedup_adj (k :: L) = k :: dedup_adj L.
Proof.
  intros k L H. cbn [dedup_adj]. destruct (dedup_adj L) as [|h t] eqn:D; [reflexivity|].
  destruct (N.eqb_spec k h) as [E|E]; [|reflexivity]. exfalso. apply H. apply dedup_in. rewrite D. left. now symmetry.
Qed.
Lemma dedup_cons : forall f r, dedup_adj (f :: r) =
  match dedup_adj r with h :: t => if N.eqb f h then h :: t else f :: h :: t | [] => [f] end.
Proof. reflexivity. Qed.
Lemma dedup_block : forall k l L, (forall x, In x l -> x = k) -> l <> [] -> dedup_adj (l ++ L) = dedup_adj (k :: L).
Proof.
  intros k l L. induction l as [|x l IH]; intros Hk Hne; [contradiction|].
  assert (x = k) by (apply Hk; now left). subst x. destruct l as [|y l]; [reflexivity|].
  cbn [app]. rewrite (dedup_cons k (y :: l ++ L)). change (y :: l ++ L) with ((y :: l) ++ L).
  rewrite IH; [|intros z Hz; apply Hk; now right|discriminate].
  destruct (dedup_hd k L) as [t Ht]. rewrite Ht, N.eqb_refl. reflexivity.
Qed.

Lemma dedup_blocks : forall gs : list (N * list entry), NoDup (map fst gs) ->
  (forall k l, In (k, l) gs -> forall e, In e l -> e_fp e = k) ->
  NoDup (dedup_adj (map e_fp (List.concat (map snd gs)))) /\
  forall x, In x (map e_fp (List.concat (map snd gs))) -> In x (map fst gs).
Proof.
  induction gs as [|[k l] r IH]; intros Hn Hf; [split; [constructor|intros x []]|].
  inversion Hn as [|? ? Hnot Hn']. subst.
  destruct (IH Hn' (fun k' l' H => Hf k' l' (or_intror H))) as [IHn IHi].
  cbn [map snd fst List.concat]. rewrite map_app.
  assert (Hl : forall x, In x (map e_fp l) -> x = k).
  { intros x Hx. apply in_map_iff in Hx. destruct Hx as [e [<- He]]. apply (Hf k l (or_introl eq_refl) e He). }
  split.
  - destruct l as [|e0 l0]; [exact IHn|].
    rewrite (dedup_block k (map e_fp (e0 :: l0)) _ Hl) by discriminate.
    assert (Hk : ~ In k (map e_fp (List.concat (map snd r)))) by (intros C; apply Hnot, IHi, C).
    rewrite dedup_cons_notin by exact Hk. constructor; [|exact IHn]. intros C. apply Hk, dedup_in, C.
  - intros x Hx. apply in_app_or in Hx. destruct Hx as [Hx|Hx]; [left; symmetry; apply Hl, Hx|right; apply IHi, Hx].
Qed.

Lemma flush_heads_nodup : forall os m, fm_wf m -> NoDup (heads (rows_streams (flush os m))).
Proof.
  intros os m Hw. rewrite heads_dedup. unfold rows_streams, flush. rewrite concat_filter, map_map.
  destruct (visit_spec os m Hw) as [Hn Hi].
  pose (gs := map (fun k => (k, filter is_live (fm_get m k))) (visit os m)).
  assert (E1 : map snd gs = map (fun k => filter is_live (fm_get m k)) (visit os m)) by (unfold gs; rewrite map_map; reflexivity).
  assert (E2 : map fst gs = visit os m) by (unfold gs; rewrite map_map; cbn [fst]; apply map_id).
  rewrite <- E1. apply dedup_blocks; [rewrite E2; exact Hn|].
  intros k l Hin e He. unfold gs in Hin. apply in_map_iff in Hin. destruct Hin as [k' [Eq Hk']]. injection Eq as <- <-.
  apply filter_In in He. destruct He as [He _]. apply Hi in Hk'. destruct Hw as [_ Hl].
  destruct (Hl k' _ (fm_get_in m k' Hk')) as [_ Hf]. apply Hf, He.
Qed.

Theorem optimize_one_object_per_stream : forall thr os bs, (total_rows bs < thr)%Z ->
  NoDup (heads (rows_streams (optimize thr os bs))).
Proof.
  intros thr os bs H. unfold optimize. rewrite opt_run_single_window by (unfold total_rows in *; lia).
  destruct (_ =? 0)%Z; [constructor|]. apply flush_heads_nodup, fm_all_wf, fm_wf_nil.
Qed.

(* ------------------------------------------------------------------------------------------ *)
(* at the code's threshold the unconditional statement is false, whatever order the map is visited in:
   3000 rows of two streams in the first channel batch close a window, both streams have rows after it *)

Definition w_fps : list N := [11; 22]%N.
Definition w_b1 : list entry := (opt_rows w_fps 0 false (Z.to_nat 2999) 1 ++ opt_rows w_fps 1 false 1 3000)%list.
Definition w_b2 : list entry := (opt_rows w_fps 0 false 1 3001 ++ opt_rows w_fps 1 false 1 3002)%list.
Definition w_m1 : fpmap := fold_left fm_add w_b1 [].
Definition w_m2 : fpmap := fold_left fm_add w_b2 [].

Lemma optimize_two_windows : forall thr os b1 b2,
  (thr <= Z.of_nat (List.length b1))%Z -> (0 < Z.of_nat (List.length b2) < thr)%Z ->
  optimize thr os [b1; b2] =
  (map (fm_get (fold_left fm_add b1 [])) (visit os (fold_left fm_add b1 [])) ++
   map (fm_get (fold_left fm_add b2 [])) (visit (os_rest os (fold_left fm_add b1 [])) (fold_left fm_add b2 [])))%list.
Proof.
  intros thr os b1 b2 H1 H2. change (optimize thr os [b1; b2] =
    (flush os (fold_left fm_add b1 []) ++ flush (os_rest os (fold_left fm_add b1 [])) (fold_left fm_add b2 []))%list). unfold optimize. cbn [opt_run]. cbv zeta.
  destruct (Z.ltb_spec (0 + Z.of_nat (List.length b1)) thr) as [L|L]; [lia|]. f_equal.
  destruct (Z.ltb_spec (0 + Z.of_nat (List.length b2)) thr) as [L2|L2]; [|lia].
  destruct (Z.eqb_spec (0 + Z.of_nat (List.length b2)) 0) as [E|E]; [lia|reflexivity].
Qed.

Lemma visit_two : forall os m a b, a <> b -> fm_keys m = [a; b] -> visit os m = [a; b] \/ visit os m = [b; a].
Proof.
  intros os m a b Hab Hk. unfold visit. destruct (is_perm_of _ _) eqn:E; [|left; exact Hk].
  rewrite Hk in E. unfold is_perm_of in E. apply andb_prop in E. destruct E as [E E3]. apply andb_prop in E. destruct E as [E1 E2].
  apply Nat.eqb_eq in E1. destruct (firstn (List.length m) os) as [|x [|y [|z t]]]; try discriminate E1.
  cbn [forallb existsb] in E3. cbn [nodupb existsb] in E2.
  destruct (N.eqb_spec a x) as [Ax|Ax]; destruct (N.eqb_spec b x) as [Bx|Bx];
    destruct (N.eqb_spec a y) as [Ay|Ay]; destruct (N.eqb_spec b y) as [By|By];
    destruct (N.eqb_spec x y) as [Xy|Xy]; cbn in E3, E2; try discriminate; subst; try contradiction; auto.
Qed.

Lemma w_keys1 : fm_keys w_m1 = [11; 22]%N. Proof. vm_compute. reflexivity. Qed.
Lemma w_keys2 : fm_keys w_m2 = [11; 22]%N. Proof. vm_compute. reflexivity. Qed.

Lemma w_len1 : (flush_threshold <= Z.of_nat (List.length w_b1))%Z. Proof. apply Z.leb_le. vm_compute. reflexivity. Qed.
Lemma w_len2 : (0 < Z.of_nat (List.length w_b2) < flush_threshold)%Z. Proof. split; apply Z.ltb_lt; vm_compute; reflexivity. Qed.
Lemma w_optimize : forall os, optimize flush_threshold os [w_b1; w_b2] =
  (map (fm_get w_m1) (visit os w_m1) ++ map (fm_get w_m2) (visit (os_rest os w_m1) w_m2))%list.
Proof. intros os. unfold w_m1, w_m2. apply optimize_two_windows; [exact w_len1|exact w_len2]. Qed.

Definition w_heads (v1 v2 : list N) : list N := heads (rows_streams (map (fm_get w_m1) v1 ++ map (fm_get w_m2) v2)).
Lemma w_heads_dup : forall v1 v2, In v1 [[11; 22]; [22; 11]]%N -> In v2 [[11; 22]; [22; 11]]%N -> nodupb (w_heads v1 v2) = false.
Proof. intros v1 v2 [<-|[<-|[]]] [<-|[<-|[]]]; vm_compute; reflexivity. Qed.

Theorem optimize_splits_streams_at_3000 : forall os,
  ~ NoDup (heads (rows_streams (optimize flush_threshold os [w_b1; w_b2]))).
Proof.
  intros os Hn. apply NoDup_nodupb in Hn. rewrite w_optimize in Hn. fold (w_heads (visit os w_m1) (visit (os_rest os w_m1) w_m2)) in Hn.
  rewrite w_heads_dup in Hn; [discriminate Hn| |].
  - destruct (visit_two os w_m1 11%N 22%N ltac:(discriminate) w_keys1) as [-> | ->]; cbn; tauto.
  - destruct (visit_two (os_rest os w_m1) w_m2 11%N 22%N ltac:(discriminate) w_keys2) as [-> | ->]; cbn; tauto.
Qed.

(* ------------------------------------------------------------------------------------------ *)
(* the response of the pipeline *)

Lemma forallb2_concat : forall (p : entry -> bool) ls, forallb (forallb p) ls = true <-> forall e, In e (List.concat ls) -> p e = true.
Proof.
  intros p. induction ls as [|l ls IH]; [split; [intros _ e []|reflexivity]|].
  cbn [forallb List.concat]. rewrite andb_true_iff, IH, forallb_forall. split.
  - intros [H1 H2] e He. apply in_app_or in He. destruct He; auto.
  - intros H. split; intros e He; apply H, in_or_app; auto.
Qed.

Theorem optimized_streams_bytes : forall thr os bs, forallb (forallb no_fail) bs = true ->
  parse_bytes (render (enc_streams cur_hdr (optimize thr os bs))) = Some (doc_streams (optimize thr os bs)).
Proof.
  intros thr os bs H. apply streams_bytes. apply forallb2_concat. intros e He.
  apply optimize_in in He. revert e He. apply forallb2_concat, H.
Qed.

(* the rows listed in that document, in document order, are the rows the stage handed on (doc_content_rows), which are
   the rows it received: once each, those of one stream in their order *)
Theorem optimized_document_rows : forall thr os bs,
  (forall a b, In a (List.concat bs) -> In b (List.concat bs) -> e_fp a = e_fp b -> e_lbls a = e_lbls b) ->
  rows_of_result (map (series_doc "stream" log_value_doc) (group (rows_streams (optimize thr os bs)))) =
  map (row_doc log_value_doc) (rows_streams (optimize thr os bs)).
Proof.
  intros thr os bs H. apply rows_of_result_rows. intros a b Ha Hb. unfold rows_streams in Ha, Hb.
  apply filter_In in Ha. apply filter_In in Hb. destruct Ha as [Ha _]. destruct Hb as [Hb _].
  apply optimize_in in Ha. apply optimize_in in Hb. apply H; assumption.
Qed.

(* guards are satisfiable by non-trivial values *)
Definition ex_bs : list (list entry) :=
  [ (opt_rows w_fps 0 false 2 1 ++ opt_rows w_fps 1 false 1 3 ++ opt_rows w_fps 0 false 1 4)%list; [eof_row];
    (opt_rows w_fps 1 false 2 5 ++ opt_rows w_fps 0 false 1 7)%list ].
Example ex_single_window : (total_rows ex_bs < flush_threshold)%Z /\
  map (map e_ts) (optimize flush_threshold [22; 11; 0]%N ex_bs) = [[3; 5; 6]; [1; 2; 4; 7]; [0]]%Z /\
  map (map e_ts) (optimize flush_threshold [] ex_bs) = [[1; 2; 4; 7]; [3; 5; 6]; [0]]%Z /\
  heads (rows_streams (optimize flush_threshold [0; 22; 11]%N ex_bs)) = [22; 11]%N.
Proof. vm_compute. repeat split; reflexivity. Qed.
Example ex_two_windows : map (map e_ts) (optimize 4 [11; 22; 22; 11; 0]%N ex_bs) = [[1; 2; 4]; [3]; [5; 6]; [7]; [0]]%Z.
Proof. vm_compute. reflexivity. Qed.

(* ------------------------------------------------------------------------------------------ *)
(* channel batches never show: the bytes are a function of the row sequence alone. Two ways of cutting the same rows into
   batches (any boundaries, empty batches, io.EOF markers anywhere) give the same body, byte for byte *)
Theorem streams_batching_invisible : forall bs bs',
  forallb (forallb no_fail) bs = true -> forallb (forallb no_fail) bs' = true ->
  rows_streams bs = rows_streams bs' -> enc_streams cur_hdr bs = enc_streams cur_hdr bs'.
Proof.
  intros bs bs' H H' E. unfold cur_hdr. rewrite (enc_streams_canonical bs H), (enc_streams_canonical bs' H').
  unfold doc_streams. now rewrite E.
Qed.
Theorem tail_batching_invisible : forall bs bs',
  forallb (forallb no_fail) bs = true -> forallb (forallb no_fail) bs' = true ->
  rows_streams bs = rows_streams bs' -> enc_tail cur_hdr bs = enc_tail cur_hdr bs'.
Proof.
  intros bs bs' H H' E. unfold cur_hdr. rewrite (enc_tail_canonical bs H), (enc_tail_canonical bs' H').
  unfold doc_tail. now rewrite E.
Qed.
(* the matrix writer leaves a batch at its first io.EOF marker: the row sequence is [rows_matrix] *)
Theorem matrix_batching_invisible : forall bs bs',
  forallb (forallb no_fail) bs = true -> forallb (forallb no_fail) bs' = true ->
  rows_matrix bs = rows_matrix bs' -> enc_matrix bs = enc_matrix bs'.
Proof.
  intros bs bs' H H' E. rewrite (enc_matrix_canonical bs H), (enc_matrix_canonical bs' H').
  unfold doc_matrix. now rewrite E.
Qed.
Example batching_met :
  let a := opt_row [7%N] 0 1 in let b := opt_row [7%N] 0 2 in let c := opt_row [7%N; 9%N] 1 3 in
  rows_streams [[a; b; c]] = rows_streams [[a]; []; [eof_row; b]; [c; eof_row]] /\
  rows_matrix [[a; b; c]] = rows_matrix [[a; eof_row; c]; [b]; [c]].
Proof. split; reflexivity. Qed.
