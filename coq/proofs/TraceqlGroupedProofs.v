(* Property C11, bridge lemma 2: the statement of IndexGroupByPlanner (+ AggregatorPlanner's HAVING, + IndexLimitPlanner's
   LIMIT) -- the CTE index_grouped of a one-selector search -- run by the evaluator over ANY typed content of the CTE
   index_search, returns one row per trace: the trace id and groupArray(100)(span_id) of its rows, for the groups that
   pass HAVING; with a LIMIT, the first `limit` of them in the order of max(index_search.timestamp_ns) descending
   (stable insertion sort).  grouped_bridge.  Nothing here depends on how index_search was computed. *)
From Coq Require Import List ZArith NArith QArith String Ascii Bool Lia Permutation.
From Qryn Require Import model.TqSql model.Traceql model.TraceqlPlan model.TraceqlSem
     proofs.TraceqlEvalProofs proofs.TraceqlBridgeLib proofs.TraceqlIndexSearchProofs.
Import ListNotations.
Open Scope string_scope.
Open Scope list_scope.
Open Scope nat_scope.

(* ---------- max of a list of integers ---------- *)
Lemma fold_max_ge l : forall a, (a <= fold_left Z.max l a)%Z /\ (forall y, In y l -> (y <= fold_left Z.max l a)%Z).
Proof.
  induction l as [|x l IH]; intros a; cbn [fold_left].
  - split; [lia|intros y []].
  - destruct (IH (Z.max a x)) as [H1 H2]. split; [lia|]. intros y [<-|Hy]; [lia|now apply H2].
Qed.
Lemma fold_max_in l : forall a, fold_left Z.max l a = a \/ In (fold_left Z.max l a) l.
Proof.
  induction l as [|x l IH]; intros a; cbn [fold_left]; [now left|].
  destruct (IH (Z.max a x)) as [H|H].
  - rewrite H. destruct (Z.max_spec a x) as [[_ ->]|[_ ->]]; [right; now left|now left].
  - right. now right.
Qed.
Lemma Zmax_l_spec l : l <> [] -> In (Zmax_l l) l /\ forall y, In y l -> (y <= Zmax_l l)%Z.
Proof.
  destruct l as [|x l]; [congruence|]. intros _. unfold Zmax_l. split.
  - destruct (fold_max_in l x) as [->|H]; [now left|now right].
  - intros y [Hy|Hy]; [subst y; exact (proj1 (fold_max_ge l x))|exact (proj2 (fold_max_ge l x) y Hy)].
Qed.
(* the maximum only depends on the set of elements *)
Lemma Zmax_l_set a b : a <> [] -> (forall z, In z a <-> In z b) -> Zmax_l a = Zmax_l b.
Proof.
  intros Ha Hab. assert (Hb : b <> []). { destruct a as [|x a]; [congruence|]. intros ->. destruct (proj1 (Hab x) (or_introl eq_refl)). }
  destruct (Zmax_l_spec a Ha) as [A1 A2]. destruct (Zmax_l_spec b Hb) as [B1 B2].
  apply Z.le_antisymm; [apply B2; now apply Hab|apply A2; now apply Hab].
Qed.

Lemma vmax_l_ints (zs : list Z) : zs <> [] -> vmax_l (map VInt zs) = Some (VInt (Zmax_l zs)).
Proof.
  destruct zs as [|x zs]; [congruence|]. intros _. unfold vmax_l, Zmax_l. cbn [map].
  revert x. induction zs as [|y zs IH]; intros x; cbn [map fold_left]; [reflexivity|].
  cbn [vleb]. destruct (Z.leb x y) eqn:E.
  - replace (Z.max x y) with y by lia. apply IH.
  - replace (Z.max x y) with x by lia. apply IH.
Qed.

Lemma non_null_map_nn {A} (F : A -> value) l : (forall x, is_null (F x) = false) -> non_null (map F l) = map F l.
Proof.
  intros H. unfold non_null. induction l as [|x l IH]; [reflexivity|]. cbn [map filter]. now rewrite H, IH.
Qed.

Lemma having_aliases_nil_LOp2 fn a b :
  having_aliases 38 a = [] -> having_aliases 38 b = [] -> having_aliases ev_fuel (LOp OAnd [LOp fn [a; b]]) = [].
Proof.
  intros Ha Hb. unfold ev_fuel. change 40 with (S (S 38)).
  rewrite (ha_LOp (S 38)). cbn [flat_map]. rewrite (ha_LOp 38). cbn [flat_map]. now rewrite Ha, Hb.
Qed.

(* keep_true when the condition may also be NULL (a comparison with an aggregate over no value): NULL does not keep *)
Definition is_true3 (t : option bool) : bool := match t with Some true => true | _ => false end.
Lemma keep_true_map3 {A B} (f : A -> B) (cond : B -> option value) (p : A -> bool) l :
  (forall x, In x l -> exists v t, cond (f x) = Some v /\ truth v = Some t /\ is_true3 t = p x) ->
  keep_true cond (map f l) = Some (map f (filter p l)).
Proof.
  intros H. unfold keep_true. rewrite map_map.
  assert (E : exists ts, all_some (map (fun x => match cond (f x) with
                                                  | Some v => match truth v with Some t => Some (f x, t) | None => None end
                                                  | None => None end) l) = Some ts
                         /\ map fst (filter (fun p0 => match snd p0 with Some true => true | _ => false end) ts) = map f (filter p l)).
  { induction l as [|x l IH]; [exists []; split; reflexivity|].
    destruct IH as [ts [E1 E2]]; [intros y Hy; apply H; now right|].
    destruct (H x (or_introl eq_refl)) as [v [t [Hc [Ht Hp]]]].
    exists ((f x, t) :: ts). cbn [map all_some]. rewrite Hc, Ht, E1. split; [reflexivity|].
    cbn [filter snd]. unfold is_true3 in Hp. rewrite <- Hp.
    destruct t as [[|]|]; cbn [map fst]; now rewrite E2. }
  destruct E as [ts [E1 E2]]. now rewrite E1, E2.
Qed.

Local Infix "+++" := String.append (right associativity, at level 60).
(* ---------- qualified column names: a row of a CTE answers to `col` and to `alias.col` ---------- *)
Fixpoint has_dot (s : string) : bool := match s with EmptyString => false | String ch r => Ascii.eqb ch "." || has_dot r end.
Lemma has_dot_app a b : has_dot (a +++ b) = has_dot a || has_dot b.
Proof. induction a as [|ch a IH]; [reflexivity|]. cbn [append has_dot]. rewrite IH. now rewrite orb_assoc. Qed.
Lemma has_dot_suffix a s : has_dot s = true -> has_dot (a +++ s) = true.
Proof. intros H. rewrite has_dot_app, H. apply orb_true_r. Qed.
Lemma eqb_app_l a x y : String.eqb (a +++ x) (a +++ y) = String.eqb x y.
Proof. induction a as [|ch a IH]; [reflexivity|]. cbn [append String.eqb]. now rewrite Ascii.eqb_refl. Qed.
Lemma eqb_dot x y : has_dot x = true -> has_dot y = false -> String.eqb x y = false.
Proof. intros Hx Hy. destruct (String.eqb x y) eqn:E; [|reflexivity]. apply String.eqb_eq in E. subst y. congruence. Qed.
Lemma eqb_dot' x y : has_dot x = false -> has_dot y = true -> String.eqb x y = false.
Proof. intros Hx Hy. rewrite String.eqb_sym. now apply eqb_dot. Qed.
Definition plain (r : row) : bool := forallb (fun kv => negb (has_dot (fst kv))) r.
Lemma lookup_app k (r r' : row) : lookup k (r ++ r') = match lookup k r with Some v => Some v | None => lookup k r' end.
Proof. induction r as [|[k' v] r IH]; [reflexivity|]. cbn [app lookup]. destruct (String.eqb k k'); [reflexivity|exact IH]. Qed.
Lemma lookup_dotted_plain k r : has_dot k = true -> plain r = true -> lookup k r = None.
Proof.
  intros Hk. induction r as [|[k' v] r IH]; [reflexivity|]. cbn [plain forallb fst]. intros H. apply andb_true_iff in H. destruct H as [H1 H2].
  cbn [lookup]. rewrite (eqb_dot k k' Hk) by (now apply negb_true_iff in H1). now apply IH.
Qed.
Lemma lookup_qualified a k r : plain r = true -> lookup (a +++ "." +++ k) (qualify a r) = lookup k r.
Proof.
  intros Hp. unfold qualify. rewrite lookup_app.
  rewrite (lookup_dotted_plain (a +++ "." +++ k) r) by (try assumption; apply has_dot_suffix; reflexivity).
  clear Hp. induction r as [|[k' v] r IH]; [reflexivity|]. cbn [map lookup fst snd].
  rewrite eqb_app_l. cbn [append String.eqb]. rewrite Ascii.eqb_refl. destruct (String.eqb k k'); [reflexivity|exact IH].
Qed.
Lemma lookup_plain a k r : has_dot k = false -> lookup k (qualify a r) = lookup k r.
Proof.
  intros Hk. unfold qualify. rewrite lookup_app. destruct (lookup k r) as [v|]; [reflexivity|].
  induction r as [|[k' v] r IH]; [reflexivity|]. cbn [map lookup fst snd].
  rewrite (eqb_dot' k _ Hk) by (apply has_dot_suffix; reflexivity). exact IH.
Qed.
Lemma lookup_alias_dotted x (al : list (string * expr)) :
  has_dot x = true -> forallb (fun kv => negb (has_dot (fst kv))) al = true -> lookup_alias x al = None.
Proof.
  intros Hx. induction al as [|[k d] al IH]; [reflexivity|]. cbn [forallb fst]. intros H. apply andb_true_iff in H. destruct H as [H1 H2].
  cbn [lookup_alias]. rewrite (eqb_dot x k Hx) by (now apply negb_true_iff in H1). now apply IH.
Qed.

(* ---------- a row of <p>index_search as the outer statement sees it (p = the prefix of the operand; "" for a one-selector search) ---------- *)
Definition isx (p : string) : string := p +++ "index_search".
Definition qrow (p : string) (m : mspan) : row := qualify (isx p) (mspan_row m).
Definition same_tr (a b : mspan) : bool := String.eqb (m_trace a) (m_trace b).

Lemma mspan_row_plain m : plain (mspan_row m) = true.
Proof. unfold mspan_row. destruct (m_agg m); reflexivity. Qed.
Lemma q_trace p m : lookup "trace_id" (qrow p m) = Some (VStr (m_trace m)). Proof. reflexivity. Qed.
Lemma q_span p m : lookup "span_id" (qrow p m) = Some (VStr (m_span m)). Proof. reflexivity. Qed.
Lemma q_ts_plain p m : lookup "timestamp_ns" (qrow p m) = Some (VInt (m_ts m)). Proof. reflexivity. Qed.
Lemma q_ts p m : lookup (isx p +++ ".timestamp_ns") (qrow p m) = Some (VInt (m_ts m)).
Proof.
  unfold qrow. change (isx p +++ ".timestamp_ns") with (isx p +++ "." +++ "timestamp_ns").
  rewrite lookup_qualified by apply mspan_row_plain. reflexivity.
Qed.
Lemma q_qspan p m : lookup (isx p +++ ".span_id") (qrow p m) = Some (VStr (m_span m)).
Proof.
  unfold qrow. change (isx p +++ ".span_id") with (isx p +++ "." +++ "span_id").
  rewrite lookup_qualified by apply mspan_row_plain. reflexivity.
Qed.
Lemma q_agg p m : lookup "agg_val" (qrow p m) = m_agg m.
Proof. unfold qrow. rewrite lookup_plain by reflexivity. unfold mspan_row. destruct (m_agg m); reflexivity. Qed.

Lemma same_tr_refl a : same_tr a a = true. Proof. apply String.eqb_refl. Qed.
Lemma same_tr_sym a b : same_tr a b = same_tr b a. Proof. apply String.eqb_sym. Qed.
Lemma same_tr_trans a b x : same_tr a b = true -> same_tr b x = true -> same_tr a x = true.
Proof. unfold same_tr. intros H1 H2. apply String.eqb_eq in H1, H2. rewrite H1, H2. apply String.eqb_refl. Qed.

(* what a group of index_search rows (one trace) becomes; wts: the statement is an operand of && / ||, ComplexAnd/OrPlanner
   added the column max(timestamp_ns) as max_timestamp_ns *)
Definition g_trace (g : list mspan) : string := match g with m0 :: _ => m_trace m0 | [] => "" end.
Definition g_spans (g : list mspan) : list string := firstn 100 (map m_span g).
Definition g_key (g : list mspan) : Z := Zmax_l (map m_ts g).
Definition g_row (wts : bool) (g : list mspan) : row :=
  [("trace_id", VStr (g_trace g)); ("span_id", VArr (map VStr (g_spans g)))]
  ++ (if wts then [("max_timestamp_ns", VInt (g_key g))] else []).

Section GROUPED.
  Variable re_match : string -> string -> bool.
  Variable parse_float : string -> option Q.
  Variable hash64 : string -> Z.
  Variable tables : list (string * table).
  Notation EVW := (ev re_match parse_float hash64).
  Variable p : string.
  Variable wts : bool.

  Definition cols2 : list expr :=
    [Col (Id "trace_id") "trace_id"; Col (PFn FGroupArray [NumLit "100"] [Id "span_id"]) "span_id"]
    ++ (if wts then [Col (Fn FMax [Id "timestamp_ns"]) "max_timestamp_ns"] else []).
  Definition names2 : list string := ["trace_id"; "span_id"] ++ (if wts then ["max_timestamp_ns"] else []).
  Definition ob2 : list expr := [Ord (Fn FMax [Id (isx p +++ ".timestamp_ns")]) true].
  Definition grouped_stmt (withs : list (string * select)) (hv lim : option expr) : select :=
    Sel withs false cols2 (Some (WRef (isx p))) [] None None hv [Id "trace_id"] ob2 lim.

  Definition al2 : list (string * expr) := col_aliases cols2.
  Lemma al2_plain : forallb (fun kv : string * expr => negb (has_dot (fst kv))) al2 = true.
  Proof. unfold al2, cols2. destruct wts; reflexivity. Qed.
  Lemma al2_dotted x : has_dot x = true -> lookup_alias x al2 = None.
  Proof. intros H. apply lookup_alias_dotted; [assumption|apply al2_plain]. Qed.
  Lemma al2_agg_val : lookup_alias "agg_val" al2 = None.
  Proof. unfold al2, cols2. destruct wts; reflexivity. Qed.
  Lemma al2_ts : lookup_alias "timestamp_ns" al2 = None.
  Proof. unfold al2, cols2. destruct wts; reflexivity. Qed.
  Lemma isx_dotted s : has_dot s = true -> has_dot (isx p +++ s) = true.
  Proof. apply has_dot_suffix. Qed.

  Section EQS.
    Variable cte : env.
    Variable al : list (string * expr).
    Variable keys : list string.
    Notation EV := (ev re_match parse_float hash64 cte al keys).
    Lemma ev_Ord f agg self g r x dsc : EV (S f) agg self g r (Ord x dsc) = EV f agg self g r x.
    Proof. reflexivity. Qed.
    Lemma ev_FMax f self g r x :
      EV (S f) true self g r (Fn FMax [x]) =
      match all_some (map (fun r' => EV f false self [] r' x) g) with Some vs => vmax_l (non_null vs) | None => None end.
    Proof. reflexivity. Qed.
    Lemma ev_GroupArray100 f self g r x :
      EV (S f) true self g r (PFn FGroupArray [NumLit "100"] [x]) =
      match all_some (map (fun r' => EV f false self [] r' x) g) with
      | Some vs => Some (VArr (firstn 100 (non_null vs))) | None => None end.
    Proof.
      change (EV (S f) true self g r (PFn FGroupArray [NumLit "100"] [x])) with
        (match all_some (map (fun r' => EV f false self [] r' x) g), parse_dec "100" with
         | Some vs, Some d => Some (VArr (firstn (N.to_nat (d_int d)) (non_null vs)))
         | _, _ => None end).
      assert (E : parse_dec "100" = Some {| d_neg := false; d_int := 100; d_frac := 0; d_flen := 0 |}) by (vm_compute; reflexivity).
      rewrite E. cbn [d_int]. change (N.to_nat 100) with 100. reflexivity.
    Qed.
  End EQS.

  Variable rec : env -> bool -> select -> option table.
  Variable cte : env.
  Variable T : list mspan.
  Hypothesis Hcte : env_get (isx p) cte = Some (map mspan_row T).

  Variable hv : option expr.
  Variable P : list mspan -> bool.
  Hypothesis Hal : match hv with Some h => having_aliases ev_fuel h | None => [] end = [].
  Hypothesis Hhv : forall h m0 rest, hv = Some h -> In (m0 :: rest) (group_rows same_tr T) ->
    exists v t, EVW cte al2 ["trace_id"] ev_fuel true "" (map (qrow p) (m0 :: rest)) (qrow p m0) h = Some v
                /\ truth v = Some t /\ is_true3 t = P (m0 :: rest).
  Hypothesis Hnone : hv = None -> forall g, P g = true.

  Lemma stmt_aliases2 : stmt_aliases cols2 hv = al2.
  Proof. unfold stmt_aliases. fold al2. rewrite Hal. apply app_nil_r. Qed.

  Lemma eq_keys_tr a b : eq_keys ["trace_id"] (qrow p a) (qrow p b) = same_tr a b.
  Proof. unfold eq_keys, same_tr. cbn [forallb]. rewrite !q_trace. cbn [veqb]. now rewrite andb_true_r. Qed.

  Lemma rows_have_trace (l : list mspan) :
    forallb (fun r => forallb (fun k => match lookup k r with Some _ => true | None => false end) ["trace_id"]) (map (qrow p) l) = true.
  Proof. apply forallb_forall. intros r Hr. apply in_map_iff in Hr. destruct Hr as [x [<- _]]. cbn [forallb]. now rewrite q_trace. Qed.

  Lemma key_max f0 self m0 rest x : (forall f m, EVW cte al2 ["trace_id"] (S f) false self [] (qrow p m) x = Some (VInt (m_ts m))) ->
    EVW cte al2 ["trace_id"] (S (S f0)) true self (map (qrow p) (m0 :: rest)) (qrow p m0) (Fn FMax [x]) = Some (VInt (g_key (m0 :: rest))).
  Proof.
    intros Hx. rewrite ev_FMax. rewrite map_map.
    rewrite (all_some_map_ext _ (fun m => VInt (m_ts m))).
    - rewrite (non_null_map_nn (fun m => VInt (m_ts m))) by reflexivity.
      rewrite <- (map_map m_ts VInt). apply vmax_l_ints. discriminate.
    - intros m _. apply Hx.
  Qed.

  Lemma out_row2 m0 rest :
    out_row re_match parse_float hash64 cte al2 ["trace_id"] names2 cols2 (map (qrow p) (m0 :: rest))
    = Some (g_row wts (m0 :: rest)).
  Proof.
    set (G := map (qrow p) (m0 :: rest)).
    assert (H1 : evg re_match parse_float hash64 cte al2 ["trace_id"] "trace_id" G (Col (Id "trace_id") "trace_id") = Some (VStr (m_trace m0))).
    { unfold evg. change G with (qrow p m0 :: map (qrow p) rest) at 1. cbv beta iota. unfold ev_fuel.
      change 40 with (S (S 38)). rewrite ev_Col, ev_Id_agg, String.eqb_refl.
      change (existsb (String.eqb "trace_id") ["trace_id"]) with true. cbv iota. apply q_trace. }
    assert (H2 : evg re_match parse_float hash64 cte al2 ["trace_id"] "span_id" G (Col (PFn FGroupArray [NumLit "100"] [Id "span_id"]) "span_id")
                 = Some (VArr (map VStr (g_spans (m0 :: rest))))).
    { unfold evg. change G with (qrow p m0 :: map (qrow p) rest) at 1. cbv beta iota. unfold ev_fuel.
      change 40 with (S (S (S 37))). rewrite ev_Col, ev_GroupArray100. subst G. rewrite map_map.
      rewrite (all_some_map_ext _ (fun m => VStr (m_span m))).
      - rewrite (non_null_map_nn (fun m => VStr (m_span m))) by reflexivity.
        unfold g_spans. now rewrite <- (map_map m_span VStr), firstn_map.
      - intros m _. rewrite ev_Id_row, String.eqb_refl. apply q_span. }
    assert (H3 : evg re_match parse_float hash64 cte al2 ["trace_id"] "max_timestamp_ns" G (Col (Fn FMax [Id "timestamp_ns"]) "max_timestamp_ns")
                 = Some (VInt (g_key (m0 :: rest)))).
    { unfold evg. change G with (qrow p m0 :: map (qrow p) rest) at 1. cbv beta iota. unfold ev_fuel.
      change 40 with (S (S 38)). rewrite ev_Col. subst G. apply (key_max 37).
      intros f m. rewrite ev_Id_row. change (String.eqb "timestamp_ns" "max_timestamp_ns") with false. cbv iota.
      rewrite al2_ts. apply q_ts_plain. }
    unfold out_row, cols2, names2, g_row. destruct wts; cbn [combine map fst snd app]; rewrite H1, H2, ?H3; reflexivity.
  Qed.

  Lemma key2 m0 rest :
    evg re_match parse_float hash64 cte al2 ["trace_id"] "" (map (qrow p) (m0 :: rest)) (Ord (Fn FMax [Id (isx p +++ ".timestamp_ns")]) true)
    = Some (VInt (g_key (m0 :: rest))).
  Proof.
    unfold evg. cbn [map]. unfold ev_fuel.
    change 40 with (S (S 38)). rewrite ev_Ord. apply (key_max 37 "" m0 rest).
    intros f m. rewrite ev_Id_row. rewrite (eqb_dot _ "") by (try reflexivity; apply isx_dotted; reflexivity). cbv iota.
    rewrite al2_dotted by (apply isx_dotted; reflexivity). apply q_ts.
  Qed.

  Definition tgroups : list (list mspan) := filter P (group_rows same_tr T).

  Lemma tgroups_nonempty g : In g (group_rows same_tr T) -> g <> [].
  Proof. apply (group_nonempty same_tr same_tr_refl same_tr_sym same_tr_trans). Qed.

  (* the answer of the statement, typed: without LIMIT every kept group; with LIMIT k the first k in sorted order *)
  Definition grouped_answer (lim : option expr) : option (list (list mspan)) :=
    match lim with
    | None => Some tgroups
    | Some (IntV k) =>
        match sort_by [true] (map (fun g => ([VInt (g_key g)], g)) tgroups) with
        | Some sorted => Some (firstn (Z.to_nat k) (map snd sorted))
        | None => None
        end
    | Some _ => None
    end.

  Lemma ins_sorted_map {A B} (f : A -> B) dirs x : forall l,
    ins_sorted dirs (fst x, f (snd x)) (map (fun p => (fst p, f (snd p))) l)
    = option_map (map (fun p => (fst p, f (snd p)))) (ins_sorted dirs x l).
  Proof.
    induction l as [|y l IH]; [reflexivity|]. cbn [map ins_sorted fst].
    destruct (key_before dirs (fst x) (fst y)) as [[|]|]; [reflexivity| |reflexivity].
    rewrite IH. destruct (ins_sorted dirs x l); reflexivity.
  Qed.
  Lemma sort_by_map {A B} (f : A -> B) dirs (l : list (list value * A)) :
    sort_by dirs (map (fun p => (fst p, f (snd p))) l) = option_map (map (fun p => (fst p, f (snd p)))) (sort_by dirs l).
  Proof.
    unfold sort_by.
    change (Some (@nil (list value * B))) with (option_map (map (fun p : list value * A => (fst p, f (snd p)))) (Some [])).
    generalize (Some (@nil (list value * A))) as acc.
    induction l as [|x l IH]; intros acc; [reflexivity|]. cbn [map fold_left].
    rewrite <- IH. f_equal. destruct acc as [a|]; [|reflexivity]. cbn [option_map].
    exact (ins_sorted_map f dirs x a).
  Qed.

  Lemma names_cols2 : all_some (map col_name cols2) = Some names2.
  Proof. unfold cols2, names2. destruct wts; reflexivity. Qed.

  Theorem grouped_bridge withs lim :
    eval_body re_match parse_float hash64 tables rec cte false (grouped_stmt withs hv lim)
    = option_map (map (g_row wts)) (grouped_answer lim).
  Proof.
    unfold eval_body, grouped_stmt. cbv beta iota. unfold stage_with. cbv beta iota.
    assert (Hfrom : stage_joins re_match parse_float hash64 cte [] (stage_from tables rec cte (Some (WRef (isx p))))
                    = Some (map (qrow p) T)).
    { unfold stage_joins, stage_from. cbn [fold_left]. rewrite Hcte, map_map. reflexivity. }
    rewrite Hfrom. unfold stage_where. rewrite names_cols2. cbv beta iota. cbn [map all_some].
    unfold stage_group. rewrite rows_have_trace. cbn [negb].
    rewrite (group_rows_map (qrow p) same_tr _ eq_keys_tr), stmt_aliases2.
    assert (Hkept : match hv with
                    | None => Some (map (map (qrow p)) (group_rows same_tr T))
                    | Some h => keep_true (fun g => evg re_match parse_float hash64 cte al2 ["trace_id"] "" g h) (map (map (qrow p)) (group_rows same_tr T))
                    end = Some (map (map (qrow p)) tgroups)).
    { unfold tgroups. destruct hv as [h|] eqn:Eh.
      - apply keep_true_map3. intros g Hg. destruct g as [|m0 rest]; [exfalso; now apply (tgroups_nonempty [] Hg)|].
        unfold evg. cbn [map]. now apply Hhv.
      - f_equal. f_equal. symmetry. clear -Hnone. induction (group_rows same_tr T) as [|g l IH]; [reflexivity|].
        cbn [filter]. rewrite (Hnone eq_refl g). now rewrite IH. }
    rewrite Hkept.
    assert (Hne : forall g, In g tgroups -> g <> []).
    { intros g Hg. apply filter_In in Hg. destruct Hg as [Hg _]. exact (tgroups_nonempty g Hg). }
    assert (Hout : forall g, In g tgroups ->
              out_row re_match parse_float hash64 cte al2 ["trace_id"] names2 cols2 (map (qrow p) g) = Some (g_row wts g)).
    { intros g Hg. destruct g as [|m0 rest]; [exfalso; now apply (Hne [] Hg)|]. apply out_row2. }
    unfold grouped_answer. destruct lim as [l|].
    - destruct l; try reflexivity. rewrite map_map.
      rewrite (all_some_map_ext _ (fun g => ([VInt (g_key g)], g_row wts g))).
      + change (map (fun o => match o with Ord _ d => d | _ => false end) ob2) with [true].
        rewrite <- (map_map (fun g => ([VInt (g_key g)], g)) (fun p => (fst p, g_row wts (snd p)))).
        rewrite (sort_by_map (g_row wts)).
        destruct (sort_by [true] (map (fun g => ([VInt (g_key g)], g)) tgroups)) as [sorted|]; [|reflexivity].
        cbn [option_map]. rewrite map_map. cbn [snd]. rewrite <- (map_map snd (g_row wts)), firstn_map. reflexivity.
      + intros g Hg. destruct g as [|m0 rest]; [exfalso; now apply (Hne [] Hg)|].
        set (G := map (qrow p) (m0 :: rest)). unfold ob2. cbn [map all_some]. subst G. rewrite key2. cbn [all_some]. now rewrite out_row2.
    - cbn [option_map]. rewrite map_map. apply all_some_map_ext. exact Hout.
  Qed.
End GROUPED.
