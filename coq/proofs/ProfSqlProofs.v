(* Proofs about the grouped hand-over of the read path (property C16): GROUP BY (parent, function, node) with
   wrapping sums keeps the three conservation sums, so the merged tree of the rows the statement returns conserves
   like the merged tree of the stored rows themselves. *)
From Coq Require Import List NArith ZArith Bool Lia Permutation Morphisms.
From Qryn Require Import model.Pprof model.ProfTree model.ProfSql proofs.PprofProofs proofs.ProfTreeProofs.
Import ListNotations.
Open Scope Z_scope.

Section GroupStep.
  Variable sel : row -> N.
  Variable comp : Z * Z -> Z.
  Hypothesis Hsel : forall a b, r_parent a = r_parent b -> r_id a = r_id b -> sel a = sel b.
  Hypothesis Hcomp : forall s t a b, eqm (comp (wrap64 (s + a), wrap64 (t + b))) (comp (s, t) + comp (a, b)).

  Lemma gkey_eqb_true a b : gkey_eqb a b = true -> r_parent a = r_parent b /\ r_fn a = r_fn b /\ r_id a = r_id b.
  Proof.
    unfold gkey_eqb. intros H. apply andb_prop in H. destruct H as [H H3]. apply andb_prop in H. destruct H as [H1 H2].
    apply N.eqb_eq in H1, H2, H3. tauto.
  Qed.

  Lemma group_insert_rsum gs r x :
    eqm (rsum sel comp (group_insert gs r) x) (rsum sel comp gs x + if N.eqb (sel r) x then comp (r_self r, r_total r) else 0).
  Proof.
    induction gs as [|g gs IH]; cbn [group_insert].
    - rewrite rsum_cons, !rsum_nil. apply eqm_of_eq. lia.
    - destruct (gkey_eqb g r) eqn:E.
      + apply gkey_eqb_true in E. destruct E as (E1 & _ & E3). rewrite !rsum_cons. cbn [r_self r_total].
        assert (Hs1 : sel {| r_parent := r_parent g; r_fn := r_fn g; r_id := r_id g;
                             r_self := wrap64 (r_self g + r_self r); r_total := wrap64 (r_total g + r_total r) |} = sel r)
          by (apply Hsel; cbn; assumption).
        assert (Hs2 : sel g = sel r) by (apply Hsel; assumption).
        rewrite Hs1, Hs2. destruct (N.eqb (sel r) x); [|apply eqm_of_eq; lia].
        rewrite Hcomp. apply eqm_of_eq. lia.
      + rewrite !rsum_cons, IH. apply eqm_of_eq. lia.
  Qed.

  Lemma group_rows_rsum rows x : eqm (rsum sel comp (group_rows rows) x) (rsum sel comp rows x).
  Proof.
    unfold group_rows.
    assert (G : forall rows gs, eqm (rsum sel comp (fold_left group_insert rows gs) x) (rsum sel comp gs x + rsum sel comp rows x)).
    { clear rows. induction rows as [|r rows IH]; intros gs; cbn [fold_left].
      - rewrite rsum_nil. apply eqm_of_eq. lia.
      - rewrite IH, group_insert_rsum, rsum_cons. apply eqm_of_eq. lia. }
    rewrite G, rsum_nil. apply eqm_of_eq. lia.
  Qed.
End GroupStep.

Lemma group_rows_conserves rows : rconserves rows -> rconserves (group_rows rows).
Proof.
  intros Hc x Hx. rewrite rtot_at_rsum, rself_at_rsum, rchild_tot_rsum.
  rewrite (group_rows_rsum r_id snd sel_id_ok comp_snd), (group_rows_rsum r_id fst sel_id_ok comp_fst),
          (group_rows_rsum r_parent snd sel_parent_ok comp_snd).
  rewrite <- rtot_at_rsum, <- rself_at_rsum, <- rchild_tot_rsum. exact (Hc x Hx).
Qed.

(* grouping never lengthens the list: the LIMIT of the statement is met whenever the raw rows meet it *)
Lemma group_insert_length gs r : (length (group_insert gs r) <= S (length gs))%nat.
Proof.
  induction gs as [|g gs IH]; cbn [group_insert length]; [lia|].
  destruct (gkey_eqb g r); cbn [length]; lia.
Qed.
Lemma group_rows_length rows : (length (group_rows rows) <= length rows)%nat.
Proof.
  unfold group_rows.
  assert (G : forall rows gs, (length (fold_left group_insert rows gs) <= length gs + length rows)%nat).
  { clear rows. induction rows as [|r rows IH]; intros gs; cbn [fold_left length]; [lia|].
    pose proof (IH (group_insert gs r)). pose proof (group_insert_length gs r). lia. }
  apply (G rows []).
Qed.

Lemma grouping_facts rows :
  (rconserves rows -> rconserves (group_rows rows)) /\ (length (group_rows rows) <= length rows)%nat.
Proof. split; [apply group_rows_conserves|apply group_rows_length]. Qed.

(* The read path as the service runs it: the profiles stored inside the time window of the statement, each projected on
   the selected sample type (or lacking it), ARRAY JOINed, grouped by (parent, function, node) with wrapping sums and
   returned in ANY order (ORDER BY parent only; groupArray keeps no promise), folded by MergeTrie: the flame graph tree
   conserves and the bars under its root add up to the weights of the profiles in the window. *)
Definition in_window (from to : Z) (P : Z * stored) : bool := Z.leb from (fst P) && Z.ltb (fst P) to.

Theorem read_path_conserves h na limit (db : list (Z * stored)) (from to : Z) rows fs :
  let Ps := map snd (filter (in_window from to) db) in
  Forall (stored_ok h na) Ps ->
  Permutation rows (group_rows (concat (map (stored_rows h na) Ps))) ->
  Z.of_nat (length rows) <= limit ->
  let out := rows_of (m_nodes (merge_trie limit new_tree rows fs)) in
  rconserves out /\ eqm (rchild_tot out 0%N) (sumZ (map stored_weight Ps)).
Proof.
  intros Ps Hok Hperm Hlim out.
  pose proof (merged_profiles_conserve h na (Z.of_nat (length (concat (map (stored_rows h na) Ps)))) Ps
                (concat (map (stored_rows h na) Ps)) [] Hok (Permutation_refl _) ltac:(lia)) as [Hraw Hroot].
  cbn zeta in Hraw, Hroot.
  set (raw := concat (map (stored_rows h na) Ps)) in *.
  assert (Hc : rconserves raw).
  { apply rconserves_concat. apply Forall_map. eapply Forall_impl; [|exact Hok].
    intros P HP. exact (proj1 (stored_rows_conserve h na P HP)). }
  split.
  - apply merged_conserves_rows; [exact Hlim|].
    apply (rconserves_perm _ _ (Permutation_sym Hperm)). apply group_rows_conserves. exact Hc.
  - destruct (merged_sums limit rows fs 0%N Hlim) as (_ & _ & H3). fold out in H3. rewrite H3.
    rewrite rchild_tot_rsum, (rsum_perm _ _ _ _ _ Hperm).
    rewrite (group_rows_rsum r_parent snd sel_parent_ok comp_snd).
    destruct (merged_sums (Z.of_nat (length raw)) raw [] 0%N ltac:(lia)) as (_ & _ & H4).
    rewrite <- rchild_tot_rsum, <- H4. exact Hroot.
Qed.

(* the hypotheses of read_path_conserves are met by a database of two stored copies of ex_profile (two sample types,
   recursion, shared prefixes) read on different sample types through one window: 12 raw rows, 6 groups *)
Definition ex_db : list (Z * stored) :=
  [ (0, {| sp_nt := 2; sp_samples := ex_profile; sp_sel := Some 0%nat |});
    (1000000000, {| sp_nt := 2; sp_samples := ex_profile; sp_sel := Some 1%nat |});
    (5000000000, {| sp_nt := 2; sp_samples := ex_profile; sp_sel := None |}) ].
Lemma ex_db_hypotheses :
  let Ps := map snd (filter (in_window 0 2000000000) ex_db) in
  length Ps = 2%nat /\ Forall (stored_ok city16 0%N) Ps /\
  length (concat (map (stored_rows city16 0%N) Ps)) = 12%nat /\
  length (group_rows (concat (map (stored_rows city16 0%N) Ps))) = 6%nat.
Proof.
  cbn zeta. split; [vm_compute; reflexivity|]. split.
  - change (map snd (filter (in_window 0 2000000000) ex_db))
      with [ {| sp_nt := 2; sp_samples := ex_profile; sp_sel := Some 0%nat |};
             {| sp_nt := 2; sp_samples := ex_profile; sp_sel := Some 1%nat |} ].
    repeat constructor; cbn [stored_ok sp_samples sp_sel sp_nt];
      try (apply parent_determined_b_sound; vm_compute; reflexivity); lia.
  - split; vm_compute; reflexivity.
Qed.

(* ------------------------------------------------------------------ what the statement computes (bridge)
   For a statement of the shape stmt_ok accepts, the generic evaluator eval_merge_stmt returns, up to order, the
   GROUP BY (parent, function, node) sums of the stored elements projected on the selected type. *)
Definition tuple_of (r : row) : list val := [VU (r_parent r); VU (r_fn r); VU (r_id r); VI (r_self r); VI (r_total r)].
Definition proj_elem (tok : Z) (x : selem) : row :=
  let y := array_first tok (e_vals x) in
  {| r_parent := e_p x; r_fn := e_f x; r_id := e_i x; r_self := fst (snd y); r_total := snd (snd y) |}.
Definition key_of (r : row) : list val := [VU (r_parent r); VU (r_fn r); VU (r_id r)].
Definition the_proj (ty : nat) : list tsel := [TField 1; TField 2; TField 3; TFirst ty 4 1 2; TAf 3].
Definition the_out : list gsel := [GKey 1; GKey 2; GKey 3; GSum 4; GSum 5].

Lemma eval_proj_ok toks ty x : eval_proj toks x None (the_proj ty) = tuple_of (proj_elem (nth ty toks (-2)) x).
Proof. reflexivity. Qed.

Lemma key_of_tuple r : map (field (tuple_of r)) [1; 2; 3]%N = key_of r.
Proof. reflexivity. Qed.

Lemma key_eq_gkey a b : key_eq (key_of a) (key_of b) = gkey_eqb a b.
Proof.
  unfold key_eq, key_of, gkey_eqb. cbn. rewrite andb_true_r, andb_assoc. reflexivity.
Qed.

Definition lsum (l : list Z) : Z := fold_left (fun a b => wrap64 (a + b)) l 0.
Lemma lsum_snoc l x : lsum (l ++ [x]) = wrap64 (lsum l + x).
Proof. unfold lsum. rewrite fold_left_app. reflexivity. Qed.

(* group g of the evaluator represents row r of the specification *)
Definition rep (g : list val * list (list val)) (r : row) : Prop :=
  exists m0 ms, g = (key_of r, map tuple_of (m0 :: ms)) /\ key_of m0 = key_of r /\
                r_self r = lsum (map r_self (m0 :: ms)) /\ r_total r = lsum (map r_total (m0 :: ms)).

Lemma group_step gs rs r : Forall2 rep gs rs -> row_in_range r ->
  Forall2 rep (add_to_group gs (key_of r) (tuple_of r)) (group_insert rs r).
Proof.
  intros H Hr. induction H as [|g q gs rs Hg Hrest IH]; cbn [add_to_group group_insert].
  - constructor; [|constructor]. exists r, []. split; [reflexivity|]. split; [reflexivity|].
    destruct Hr as [H1 H2]. unfold lsum. cbn [map fold_left]. rewrite !Z.add_0_l.
    split; symmetry; apply wrap64_small; [exact H1|exact H2].
  - destruct Hg as (m0 & ms & -> & Hk & Hs & Ht). rewrite key_eq_gkey.
    destruct (gkey_eqb q r) eqn:E.
    + constructor; [|exact Hrest].
      exists m0, (ms ++ [r]). 
      assert (Hkey : key_of q = key_of r).
      { unfold gkey_eqb in E. apply andb_prop in E. destruct E as [E E3]. apply andb_prop in E. destruct E as [E1 E2].
        apply N.eqb_eq in E1, E2, E3. unfold key_of. congruence. }
      split.
      * unfold key_of at 1. cbn [r_parent r_fn r_id]. fold (key_of q).
        change (m0 :: ms ++ [r]) with ((m0 :: ms) ++ [r]). rewrite map_app. reflexivity.
      * split; [unfold key_of at 2; cbn [r_parent r_fn r_id]; exact Hk|].
        cbn [r_self r_total]. change (m0 :: ms ++ [r]) with ((m0 :: ms) ++ [r]).
        rewrite !map_app. change (map r_self [r]) with [r_self r]. change (map r_total [r]) with [r_total r].
        rewrite !lsum_snoc, <- Hs, <- Ht. split; reflexivity.
    + constructor; [|exact IH]. exists m0, ms. repeat split; assumption.
Qed.

Lemma groups_rep rows : Forall row_in_range rows ->
  Forall2 rep (fold_left (fun gs t => add_to_group gs (map (field t) [1; 2; 3]%N) t) (map tuple_of rows) []) (group_rows rows).
Proof.
  unfold group_rows. intros Hr.
  assert (G : forall rows gs rs, Forall row_in_range rows -> Forall2 rep gs rs ->
    Forall2 rep (fold_left (fun gs t => add_to_group gs (map (field t) [1; 2; 3]%N) t) (map tuple_of rows) gs)
                (fold_left group_insert rows rs)).
  { clear rows Hr. induction rows as [|r rows IH]; intros gs rs Hr H; [exact H|].
    change (map tuple_of (r :: rows)) with (tuple_of r :: map tuple_of rows). cbn [fold_left].
    inversion Hr as [|? ? Hr1 Hr2]; subst. apply IH; [exact Hr2|]. rewrite key_of_tuple. apply group_step; assumption. }
  apply G; [exact Hr|constructor].
Qed.

Lemma sum_field_tuples n (sel : row -> Z) ms :
  (forall r, field (tuple_of r) n = VI (sel r)) ->
  forall a, fold_left (fun acc t => match acc, field t n with VI a, VI b => VI (wrap64 (a + b)) | _, _ => VErr end)
              (map tuple_of ms) (VI a) = VI (fold_left (fun a b => wrap64 (a + b)) (map sel ms) a).
Proof.
  intros Hf. induction ms as [|m ms IH]; intros a; cbn [map fold_left]; [reflexivity|]. rewrite Hf. apply IH.
Qed.

Lemma rep_row g r : rep g r -> row_of_tuple (map (eval_gsel (snd g)) the_out) = Some r.
Proof.
  intros (m0 & ms & -> & Hk & Hs & Ht). cbn [snd the_out map eval_gsel].
  unfold sum_field. rewrite (sum_field_tuples 4 r_self (m0 :: ms) (fun _ => eq_refl)).
  rewrite (sum_field_tuples 5 r_total (m0 :: ms) (fun _ => eq_refl)).
  fold (lsum (map r_self (m0 :: ms))). fold (lsum (map r_total (m0 :: ms))). rewrite <- Hs, <- Ht.
  cbn [map hd]. unfold key_of in Hk. inversion Hk as [[H1 H2 H3]].
  change (field (tuple_of m0) 1) with (VU (r_parent m0)). change (field (tuple_of m0) 2) with (VU (r_fn m0)).
  change (field (tuple_of m0) 3) with (VU (r_id m0)). rewrite H1, H2, H3. destruct r. reflexivity.
Qed.

Lemma insert_sorted_perm n g l : Permutation (insert_sorted n g l) (g :: l).
Proof.
  induction l as [|h r IH]; cbn [insert_sorted]; [reflexivity|].
  destruct (val_le _ _); [|reflexivity]. rewrite IH. apply perm_swap.
Qed.
Lemma sort_perm n (gs : list (list val * list (list val))) :
  Permutation (fold_left (fun acc g => insert_sorted n g acc) gs []) gs.
Proof.
  assert (G : forall gs acc, Permutation (fold_left (fun acc g => insert_sorted n g acc) gs acc) (acc ++ gs)).
  { clear gs. induction gs as [|g gs IH]; intros acc; cbn [fold_left]; [rewrite app_nil_r; reflexivity|].
    rewrite IH, insert_sorted_perm. apply Permutation_middle. }
  apply (G gs []).
Qed.

Lemma forall2_perm {A B} (R : A -> B -> Prop) l1 l1' : Permutation l1 l1' ->
  forall l2, Forall2 R l1 l2 -> exists l2', Permutation l2 l2' /\ Forall2 R l1' l2'.
Proof.
  induction 1 as [|x l l' _ IH|x y l|l l' l'' _ IH1 _ IH2]; intros l2 H.
  - inversion H; subst. exists []. split; constructor.
  - inversion H as [|? b ? l2t Hx Ht]; subst. destruct (IH _ Ht) as (l2' & Hp & Hf).
    exists (b :: l2'). split; [constructor; exact Hp|constructor; assumption].
  - inversion H as [|? b1 ? t1 Hy H']; subst. inversion H' as [|? b2 ? t2 Hx Ht]; subst.
    exists (b2 :: b1 :: t2). split; [apply perm_swap|repeat constructor; assumption].
  - destruct (IH1 _ H) as (m & Hp1 & Hf1). destruct (IH2 _ Hf1) as (m' & Hp2 & Hf2).
    exists m'. split; [etransitivity; eassumption|exact Hf2].
Qed.

Lemma forall2_length {A B} (R : A -> B -> Prop) l l' : Forall2 R l l' -> length l = length l'.
Proof. induction 1; cbn [length]; congruence. Qed.

Lemma take_z_all {A} (l : list A) n : Z.of_nat (length l) <= n -> take_z n l = l.
Proof.
  revert n. induction l as [|x l IH]; intros n H; cbn [take_z]; [reflexivity|].
  cbn [length] in H. destruct (Z.leb n 0) eqn:E; [apply Z.leb_le in E; lia|]. rewrite IH by lia. reflexivity.
Qed.

Lemma all_some_map {A B} (f : A -> option B) l l' : Forall2 (fun a b => f a = Some b) l l' -> all_some (map f l) = Some l'.
Proof.
  induction 1 as [|a b l l' Hab _ IH]; cbn [map all_some]; [reflexivity|]. rewrite Hab, IH. reflexivity.
Qed.

Lemma leqb_eq {A} (eqb : A -> A -> bool) : (forall a b, eqb a b = true -> a = b) ->
  forall a b, leqb eqb a b = true -> a = b.
Proof.
  intros He. induction a as [|x a IH]; intros [|y b] H; cbn [leqb] in H; try discriminate; [reflexivity|].
  apply andb_prop in H. destruct H as [H1 H2]. f_equal; [apply He; exact H1|apply IH; exact H2].
Qed.
Lemma tsel_eqb_eq a b : tsel_eqb a b = true -> a = b.
Proof.
  destruct a, b; cbn [tsel_eqb]; intros H; try discriminate.
  - apply N.eqb_eq in H. congruence.
  - apply andb_prop in H. destruct H as [H H4]. apply andb_prop in H. destruct H as [H H3]. apply andb_prop in H. destruct H as [H1 H2].
    apply Nat.eqb_eq in H1. apply N.eqb_eq in H2, H3, H4. congruence.
  - apply N.eqb_eq in H. congruence.
Qed.
Lemma gsel_eqb_eq a b : gsel_eqb a b = true -> a = b.
Proof.
  destruct a as [n|n|f n], b as [m|m|g m]; cbn [gsel_eqb]; intros H; try discriminate;
    try (apply N.eqb_eq in H; congruence).
  destruct f, g; try discriminate; apply N.eqb_eq in H; congruence.
Qed.

Definition pre_rows (tok : Z) (s : merge_stmt) (db : list sprof) : list row :=
  flat_map (fun p => map (proj_elem tok) (sp_tree p))
           (filter (fun p => Z.leb (ms_from s) (sp_ts p) && Z.ltb (sp_ts p) (ms_to s)) db).

Theorem stmt_semantics toks ty s db :
  stmt_ok ty s = true ->
  let pre := pre_rows (nth ty toks (-2)) s db in
  Forall row_in_range pre -> Z.of_nat (length (group_rows pre)) <= ms_limit s ->
  exists rows, eval_merge_stmt toks s db = Some rows /\ Permutation rows (group_rows pre).
Proof.
  intros Hok pre Hr Hlim. unfold stmt_ok in Hok.
  repeat (apply andb_prop in Hok; destruct Hok as [Hok ?]).
  apply (leqb_eq tsel_eqb tsel_eqb_eq) in Hok.
  match goal with H : leqb gsel_eqb _ _ = true |- _ => apply (leqb_eq gsel_eqb gsel_eqb_eq) in H; rename H into Hout end.
  match goal with H : leqb N.eqb (ms_group s) _ = true |- _ => apply (leqb_eq N.eqb (fun a b => proj1 (N.eqb_eq a b))) in H; rename H into Hgrp end.
  match goal with H : leqb N.eqb (ms_order s) _ = true |- _ => apply (leqb_eq N.eqb (fun a b => proj1 (N.eqb_eq a b))) in H; rename H into Hord end.
  match goal with H : match ms_tree_agg s with _ => _ end = true |- _ => rename H into Hagg end.
  match goal with H : negb (ms_distinct s) = true |- _ => apply negb_true_iff in H; rename H into Hdist end.
  match goal with H : negb (ms_distinct_pre s) = true |- _ => apply negb_true_iff in H; rename H into Hdp end.
  match goal with H : negb (ms_from_strict s) = true |- _ => apply negb_true_iff in H; rename H into Hfs end.
  match goal with H : negb (ms_to_incl s) = true |- _ => apply negb_true_iff in H; rename H into Hti end.
  unfold eval_merge_stmt. rewrite Hok, Hout, Hgrp, Hord, Hdist, Hdp.
  destruct (ms_tree_agg s); [|discriminate].
  fold (the_proj ty). fold the_out.
  assert (Ewin : filter (in_win s) db = filter (fun p => Z.leb (ms_from s) (sp_ts p) && Z.ltb (sp_ts p) (ms_to s)) db).
  { apply filter_ext. intros p. unfold in_win. rewrite Hfs, Hti. reflexivity. }
  rewrite Ewin. clear Ewin.
  assert (Epre : flat_map fst (map (raw_of toks (the_proj ty))
                   (filter (fun p => Z.leb (ms_from s) (sp_ts p) && Z.ltb (sp_ts p) (ms_to s)) db)) = map tuple_of pre).
  { unfold pre, pre_rows. induction (filter _ db) as [|p l IH]; [reflexivity|]. cbn [flat_map map]. rewrite map_app, IH. f_equal.
    unfold raw_of. cbn [fst]. rewrite map_map. apply map_ext. intros x. apply eval_proj_ok. }
  rewrite Epre.
  pose proof (groups_rep pre Hr) as Hrep.
  set (groups := fold_left (fun gs t => add_to_group gs (map (field t) [1; 2; 3]%N) t) (map tuple_of pre) []) in *.
  destruct (forall2_perm rep _ _ (Permutation_sym (sort_perm 1%N groups)) _ Hrep) as (rows & Hp & Hf).
  exists rows. split; [|symmetry; exact Hp].
  assert (Hlen : length (fold_left (fun acc g => insert_sorted 1 g acc) groups []) = length (group_rows pre)).
  { rewrite (Permutation_length (sort_perm 1%N groups)). apply (forall2_length rep). exact Hrep. }
  rewrite take_z_all by (rewrite Hlen; exact Hlim).
  apply all_some_map. clear - Hf. induction Hf as [|g r l l' Hg _ IH]; constructor; [apply rep_row; exact Hg|exact IH].
Qed.

(* ------------------------------------------------------------------ from the stored profiles to the statement's answer *)
Fixpoint first_index (tok : Z) (names : list Z) : option nat :=
  match names with
  | [] => None
  | x :: r => if Z.eqb x tok then Some O else option_map S (first_index tok r)
  end.

Lemma af_combine tok : forall names (vals : list (Z * Z)),
  snd (array_first tok (combine names vals)) =
  match first_index tok names with Some k => nth k vals (0, 0) | None => (0, 0) end.
Proof.
  induction names as [|x names IH]; intros vals; [reflexivity|].
  destruct vals as [|v vals]; cbn [combine array_first first_index].
  - destruct (Z.eqb x tok); [reflexivity|]. destruct (first_index tok names) as [k|]; [destruct k|]; reflexivity.
  - cbn [fst]. destruct (Z.eqb x tok); [reflexivity|]. rewrite IH.
    destruct (first_index tok names) as [k|]; reflexivity.
Qed.

(* the element of the `tree` column the writer stores for a row: the values carry the names of the sample types *)
Definition elem_of (names : list Z) (n : node) : selem :=
  {| e_p := n_parent n; e_f := n_fn n; e_i := n_id n; e_vals := combine names (n_vals n) |}.

Lemma proj_elem_project tok names n : proj_elem tok (elem_of names n) = project_row (first_index tok names) n.
Proof.
  unfold proj_elem, elem_of, project_row. cbn [e_p e_f e_i e_vals]. rewrite af_combine. unfold val_at.
  destruct (first_index tok names); reflexivity.
Qed.

(* a stored profile: timestamp, names of its sample types, number of sample types, samples *)
Definition pentry : Type := Z * list Z * nat * list sample.
(* [fcol]: the `functions` column of the entry (any: a statement of the accepted shape never looks at it) *)
Definition sprof_of (h : N -> N -> N) (na : N) (fcol : pentry -> list (N * Z)) (e : pentry) : sprof :=
  let '(ts, names, nt, ss) := e in
  {| sp_ts := ts; sp_tree := map (elem_of names) (stored_tree h na nt ss); sp_funcs := fcol e |}.
Definition stored_of (tok : Z) (e : pentry) : Z * stored :=
  let '(ts, names, nt, ss) := e in (ts, {| sp_nt := nt; sp_samples := ss; sp_sel := first_index tok names |}).

Lemma pre_rows_stored h na fcol tok s (D : list pentry) :
  pre_rows tok s (map (sprof_of h na fcol) D) =
  concat (map (stored_rows h na) (map snd (filter (in_window (ms_from s) (ms_to s)) (map (stored_of tok) D)))).
Proof.
  unfold pre_rows. induction D as [|e D IH]; [reflexivity|].
  destruct e as [[[ts names] nt] ss]. cbn [map filter sprof_of stored_of sp_ts].
  replace (in_window (ms_from s) (ms_to s) (ts, {| sp_nt := nt; sp_samples := ss; sp_sel := first_index tok names |}))
    with (Z.leb (ms_from s) ts && Z.ltb ts (ms_to s)) by reflexivity.
  destruct (Z.leb (ms_from s) ts && Z.ltb ts (ms_to s)); [|exact IH].
  cbn [flat_map map concat snd sp_tree]. rewrite IH. f_equal.
  unfold stored_rows. cbn [sp_sel sp_nt sp_samples]. rewrite map_map. apply map_ext. intros n. apply proj_elem_project.
Qed.

Lemma stored_rows_in_range h na P : Forall row_in_range (stored_rows h na P).
Proof.
  unfold stored_rows, stored_tree. apply Forall_forall. intros r Hr. apply in_map_iff in Hr. destruct Hr as [n [<- Hn]].
  destruct (post_process_nodup_range h (sp_nt P) (normalize na (sp_samples P))) as [_ Hrange].
  unfold row_in_range, in_range, project_row. destruct (sp_sel P) as [k|]; cbn [r_self r_total fst snd].
  - exact (val_at_in_range k _ n Hrange Hn).
  - unfold two63. split; lia.
Qed.

(* The whole read path under the statement the service really sends: for a statement of the accepted shape, the
   evaluator's answer on the stored database exists, and whatever MergeTrie makes of it conserves and totals the
   weights of the profiles in the statement's window. *)
Theorem statement_read_path h na fcol toks ty s (D : list pentry) :
  stmt_ok ty s = true ->
  let tok := nth ty toks (-2) in
  let Ps := map snd (filter (in_window (ms_from s) (ms_to s)) (map (stored_of tok) D)) in
  Forall (stored_ok h na) Ps ->
  Z.of_nat (length (concat (map (stored_rows h na) Ps))) <= ms_limit s ->
  exists rows, eval_merge_stmt toks s (map (sprof_of h na fcol) D) = Some rows /\
    forall fs, let out := rows_of (m_nodes (merge_trie (ms_limit s) new_tree rows fs)) in
               rconserves out /\ eqm (rchild_tot out 0%N) (sumZ (map stored_weight Ps)).
Proof.
  intros Hok tok Ps Hst Hlim.
  pose proof (pre_rows_stored h na fcol tok s D) as Epre. fold Ps in Epre.
  assert (Hrange : Forall row_in_range (pre_rows tok s (map (sprof_of h na fcol) D))).
  { rewrite Epre. apply Forall_forall. intros r Hr. apply in_concat in Hr. destruct Hr as [l [Hl Hr]].
    apply in_map_iff in Hl. destruct Hl as [P [<- _]]. pose proof (stored_rows_in_range h na P) as HP.
    rewrite Forall_forall in HP. apply HP. exact Hr. }
  assert (Hglen : Z.of_nat (length (group_rows (pre_rows tok s (map (sprof_of h na fcol) D)))) <= ms_limit s).
  { pose proof (group_rows_length (pre_rows tok s (map (sprof_of h na fcol) D))) as H. rewrite Epre in *. lia. }
  destruct (stmt_semantics toks ty s (map (sprof_of h na fcol) D) Hok Hrange Hglen) as (rows & Hev & Hperm).
  exists rows. split; [exact Hev|]. intros fs.
  fold tok in Hperm. rewrite Epre in Hperm.
  apply (read_path_conserves h na (ms_limit s) (map (stored_of tok) D) (ms_from s) (ms_to s) rows fs Hst Hperm).
  rewrite (Permutation_length Hperm). rewrite <- Epre. exact Hglen.
Qed.

(* the hypotheses of statement_read_path are met: a statement of the accepted shape (opaque parts shortened), a
   database of three stored copies of ex_profile with their sample types named 0 and 1, the third outside the window *)
From Coq Require Import String.
Definition ex_stmt : merge_stmt :=
  {| ms_fp := "SELECT fingerprint FROM profiles_series_gin"%string; ms_table := "profiles"%string; ms_matchers := "1 == 1"%string;
     ms_types := ["cpu:nanoseconds"%string];
     ms_proj := the_proj 0; ms_from := 0; ms_to := 2000000000; ms_out := the_out; ms_group := [1; 2; 3]%N;
     ms_order := [1%N]; ms_limit := the_limit; ms_tree_agg := GroupArray; ms_fn_agg := GroupUniqArrayArray; ms_distinct := false;
     ms_distinct_pre := false; ms_from_strict := false; ms_to_incl := false |}.
Definition ex_D : list pentry :=
  [ (0, [0; 1], 2%nat, ex_profile); (1000000000, [1; 0], 2%nat, ex_profile); (5000000000, [0; 1], 2%nat, ex_profile) ].
Lemma ex_stmt_hypotheses :
  stmt_ok 0 ex_stmt = true /\
  let Ps := map snd (filter (in_window (ms_from ex_stmt) (ms_to ex_stmt)) (map (stored_of 0) ex_D)) in
  Forall (stored_ok city16 0%N) Ps /\ List.length (List.concat (map (stored_rows city16 0%N) Ps)) = 12%nat /\
  option_map (@List.length row) (eval_merge_stmt [0] ex_stmt (map (sprof_of city16 0%N (fun _ => [])) ex_D)) = Some 6%nat.
Proof.
  split; [vm_compute; reflexivity|]. cbn zeta. split; [|split; vm_compute; reflexivity].
  change (map snd (filter (in_window (ms_from ex_stmt) (ms_to ex_stmt)) (map (stored_of 0) ex_D)))
    with [ {| sp_nt := 2; sp_samples := ex_profile; sp_sel := Some 0%nat |};
           {| sp_nt := 2; sp_samples := ex_profile; sp_sel := Some 1%nat |} ].
  repeat constructor; cbn [stored_ok sp_samples sp_sel sp_nt];
    try (apply parent_determined_b_sound; vm_compute; reflexivity); lia.
Qed.

(* ------------------------------------------------------------------ SELECT DISTINCT in the raw select
   A raw select that is a SELECT DISTINCT (refused by stmt_ok) collapses the stored profiles of the window whose
   projected tree array and functions array are equal, BEFORE the ARRAY JOIN / GROUP BY sum: the statement answers
   what the same statement without DISTINCT answers on the window with the repeated profiles removed. *)
Definition undistinct (s : merge_stmt) : merge_stmt :=
  {| ms_fp := ms_fp s; ms_table := ms_table s; ms_matchers := ms_matchers s; ms_types := ms_types s;
     ms_proj := ms_proj s; ms_from := ms_from s; ms_to := ms_to s; ms_out := ms_out s; ms_group := ms_group s;
     ms_order := ms_order s; ms_limit := ms_limit s; ms_tree_agg := ms_tree_agg s; ms_fn_agg := ms_fn_agg s;
     ms_distinct := false; ms_distinct_pre := ms_distinct_pre s; ms_from_strict := ms_from_strict s; ms_to_incl := ms_to_incl s |}.
Lemma in_win_ok ty s p : stmt_ok ty s = true -> in_win s p = Z.leb (ms_from s) (sp_ts p) && Z.ltb (sp_ts p) (ms_to s).
Proof.
  unfold stmt_ok. intros Hok. repeat (apply andb_prop in Hok; destruct Hok as [Hok ?]).
  match goal with H : negb (ms_from_strict s) = true |- _ => apply negb_true_iff in H; rename H into Hfs end.
  match goal with H : negb (ms_to_incl s) = true |- _ => apply negb_true_iff in H; rename H into Hti end.
  unfold in_win. rewrite Hfs, Hti. reflexivity.
Qed.
Definition same_raw (toks : list Z) (s : merge_stmt) (p q : sprof) : bool :=
  raw_eqb (raw_of toks (ms_proj s) p) (raw_of toks (ms_proj s) q).
(* the profiles of the window a SELECT DISTINCT still reads: the first of every class of equal raw rows *)
Definition distinct_profiles (toks : list Z) (s : merge_stmt) (db : list sprof) : list sprof :=
  distinct_by (same_raw toks s) (filter (in_win s) db).

Lemma filter_map_comm {A B} (f : A -> B) (P : B -> bool) l : filter P (map f l) = map f (filter (fun a => P (f a)) l).
Proof. induction l as [|a l IH]; cbn [map filter]; [reflexivity|]. destruct (P (f a)); cbn [map]; rewrite IH; reflexivity. Qed.

Lemma distinct_by_map {A B} (f : A -> B) (e : B -> B -> bool) l :
  distinct_by e (map f l) = map f (distinct_by (fun a b => e (f a) (f b)) l).
Proof.
  induction l as [|a l IH]; cbn [map distinct_by]; [reflexivity|]. rewrite IH, filter_map_comm. reflexivity.
Qed.

Lemma distinct_by_forall {A} (e : A -> A -> bool) (P : A -> bool) l :
  forallb P l = true -> forallb P (distinct_by e l) = true.
Proof.
  induction l as [|a l IH]; cbn [distinct_by forallb]; [reflexivity|]. intros H. apply andb_prop in H. destruct H as [Ha Hl].
  rewrite Ha. cbn [andb]. specialize (IH Hl). revert IH. generalize (distinct_by e l). intros m.
  induction m as [|b m IHm]; cbn [filter forallb]; [reflexivity|]. intros H. apply andb_prop in H. destruct H as [Hb Hm].
  destruct (negb (e a b)); cbn [forallb]; [rewrite Hb|]; auto.
Qed.

Lemma filter_all {A} (P : A -> bool) l : forallb P l = true -> filter P l = l.
Proof.
  induction l as [|a l IH]; cbn [forallb filter]; [reflexivity|]. intros H. apply andb_prop in H. destruct H as [Ha Hl].
  rewrite Ha, IH by exact Hl. reflexivity.
Qed.
Lemma forallb_filter {A} (P : A -> bool) l : forallb P (filter P l) = true.
Proof. induction l as [|a l IH]; cbn [filter]; [reflexivity|]. destruct (P a) eqn:E; cbn [forallb]; [rewrite E|]; exact IH. Qed.

Theorem eval_distinct toks s db : ms_distinct s = true ->
  eval_merge_stmt toks s db = eval_merge_stmt toks (undistinct s) (distinct_profiles toks s db).
Proof.
  intros Hd. unfold eval_merge_stmt. cbn [undistinct ms_proj ms_distinct ms_distinct_pre ms_group ms_order ms_limit ms_tree_agg ms_out].
  rewrite Hd. change (in_win (undistinct s)) with (in_win s).
  assert (E : filter (in_win s) (distinct_profiles toks s db) = distinct_profiles toks s db).
  { apply filter_all. unfold distinct_profiles. apply distinct_by_forall. apply forallb_filter. }
  rewrite E. unfold distinct_profiles, same_raw. rewrite <- distinct_by_map. reflexivity.
Qed.

Lemma stmt_ok_not_distinct ty s : stmt_ok ty s = true -> ms_distinct s = false.
Proof.
  unfold stmt_ok. intros Hok. repeat (apply andb_prop in Hok; destruct Hok as [Hok ?]).
  match goal with H : negb (ms_distinct s) = true |- _ => apply negb_true_iff in H; exact H end.
Qed.

(* what a statement with DISTINCT (otherwise of the accepted shape) computes: the GROUP BY sums over the window
   WITHOUT its repeated profiles *)
Theorem stmt_semantics_distinct toks ty s db :
  ms_distinct s = true -> stmt_ok ty (undistinct s) = true ->
  let pre := pre_rows (nth ty toks (-2)) (undistinct s) (distinct_profiles toks s db) in
  Forall row_in_range pre -> Z.of_nat (List.length (group_rows pre)) <= ms_limit s ->
  exists rows, eval_merge_stmt toks s db = Some rows /\ Permutation rows (group_rows pre).
Proof.
  intros Hd Hok pre Hr Hlim. rewrite (eval_distinct toks s db Hd).
  apply (stmt_semantics toks ty (undistinct s) (distinct_profiles toks s db) Hok Hr Hlim).
Qed.

(* DISTINCT is harmless exactly on windows without repeated raw rows *)
Lemma distinct_by_id {A} (e : A -> A -> bool) l :
  ForallOrdPairs (fun x y => e x y = false) l -> distinct_by e l = l.
Proof.
  induction 1 as [|a l Ha Hl IH]; cbn [distinct_by]; [reflexivity|]. rewrite IH. f_equal.
  apply filter_all. apply forallb_forall. intros y Hy. rewrite Forall_forall in Ha. rewrite (Ha y Hy). reflexivity.
Qed.
Theorem distinct_harmless_without_repeats toks s db :
  ForallOrdPairs (fun p q => same_raw toks s p q = false) (filter (in_win s) db) ->
  eval_merge_stmt toks s db = eval_merge_stmt toks (undistinct s) db.
Proof.
  intros H. destruct (ms_distinct s) eqn:Hd.
  - rewrite (eval_distinct toks s db Hd). unfold distinct_profiles. rewrite (distinct_by_id _ _ H).
    unfold eval_merge_stmt. cbn [undistinct ms_proj ms_distinct ms_distinct_pre ms_group ms_order ms_limit ms_tree_agg ms_out].
    change (in_win (undistinct s)) with (in_win s). rewrite (filter_all (in_win s) (filter (in_win s) db) (forallb_filter _ _)). reflexivity.
  - unfold eval_merge_stmt. cbn [undistinct ms_proj ms_distinct ms_distinct_pre ms_group ms_order ms_limit ms_tree_agg ms_out].
    change (in_win (undistinct s)) with (in_win s). rewrite Hd. reflexivity.
Qed.

(* the same profile stored twice: under DISTINCT the second copy is not read *)
Lemma leqb_refl {A} (e : A -> A -> bool) l : (forall x, In x l -> e x x = true) -> leqb e l l = true.
Proof.
  induction l as [|x l IH]; intros H; cbn [leqb]; [reflexivity|]. rewrite (H x (or_introl eq_refl)). cbn [andb].
  apply IH. intros y Hy. apply H. right. exact Hy.
Qed.
Lemma key_eq_tuple_refl r : key_eq (tuple_of r) (tuple_of r) = true.
Proof. unfold key_eq, tuple_of. cbn. rewrite !N.eqb_refl, !Z.eqb_refl. reflexivity. Qed.
Lemma fn_eqb_refl x : fn_eqb x x = true.
Proof. unfold fn_eqb. rewrite N.eqb_refl, Z.eqb_refl. reflexivity. Qed.

Lemma same_raw_copy toks ty s p q :
  ms_proj s = the_proj ty -> sp_tree p = sp_tree q -> sp_funcs p = sp_funcs q -> same_raw toks s p q = true.
Proof.
  intros Hp Ht Hf. unfold same_raw, raw_eqb, raw_of. cbn [fst snd]. rewrite Hp, Ht, Hf.
  rewrite (leqb_refl fn_eqb (sp_funcs q) (fun x _ => fn_eqb_refl x)), andb_true_r.
  apply leqb_refl. intros t Ht'. apply in_map_iff in Ht'. destruct Ht' as [x [<- _]].
  rewrite eval_proj_ok. apply key_eq_tuple_refl.
Qed.

Theorem distinct_drops_repeated_profile h na fcol toks ty s ts1 ts2 names nt ss :
  ms_distinct s = true -> stmt_ok ty (undistinct s) = true ->
  ms_from s <= ts1 < ms_to s -> ms_from s <= ts2 < ms_to s ->
  fcol (ts1, names, nt, ss) = fcol (ts2, names, nt, ss) ->
  eval_merge_stmt toks s (map (sprof_of h na fcol) [(ts1, names, nt, ss); (ts2, names, nt, ss)]) =
  eval_merge_stmt toks (undistinct s) (map (sprof_of h na fcol) [(ts1, names, nt, ss)]).
Proof.
  intros Hd Hok H1 H2 Hf. rewrite (eval_distinct toks _ _ Hd). f_equal.
  assert (Hproj : ms_proj s = the_proj ty).
  { unfold stmt_ok in Hok. repeat (apply andb_prop in Hok; destruct Hok as [Hok ?]).
    apply (leqb_eq tsel_eqb tsel_eqb_eq) in Hok. exact Hok. }
  unfold distinct_profiles. cbn [map sprof_of filter].
  change (in_win s) with (in_win (undistinct s)). rewrite !(in_win_ok ty (undistinct s) _ Hok). cbn [sp_ts undistinct ms_from ms_to].
  replace (Z.leb (ms_from s) ts1 && Z.ltb ts1 (ms_to s)) with true
    by (symmetry; apply andb_true_intro; split; [apply Z.leb_le|apply Z.ltb_lt]; lia).
  replace (Z.leb (ms_from s) ts2 && Z.ltb ts2 (ms_to s)) with true
    by (symmetry; apply andb_true_intro; split; [apply Z.leb_le|apply Z.ltb_lt]; lia).
  cbn [distinct_by filter].
  rewrite (same_raw_copy toks ty s _ _ Hproj) by (cbn [sp_tree sp_funcs]; first [reflexivity|exact Hf]).
  reflexivity.
Qed.

(* hence the flame graph of a profile stored twice carries the weight of ONE copy: the statement with DISTINCT
   violates the conclusion of statement_read_path whenever that weight is not 0 modulo 2^64 *)
Theorem distinct_statement_refuted h na fcol toks ty s ts1 ts2 names nt ss :
  ms_distinct s = true -> stmt_ok ty (undistinct s) = true ->
  ms_from s <= ts1 < ms_to s -> ms_from s <= ts2 < ms_to s ->
  fcol (ts1, names, nt, ss) = fcol (ts2, names, nt, ss) ->
  let tok := nth ty toks (-2) in
  let P := {| sp_nt := nt; sp_samples := ss; sp_sel := first_index tok names |} in
  stored_ok h na P -> Z.of_nat (List.length (stored_rows h na P)) <= ms_limit s ->
  ~ eqm (stored_weight P) 0 ->
  exists rows, eval_merge_stmt toks s (map (sprof_of h na fcol) [(ts1, names, nt, ss); (ts2, names, nt, ss)]) = Some rows /\
    forall fs, let out := rows_of (m_nodes (merge_trie (ms_limit s) new_tree rows fs)) in
               eqm (rchild_tot out 0%N) (stored_weight P) /\
               ~ eqm (rchild_tot out 0%N) (stored_weight P + stored_weight P).
Proof.
  intros Hd Hok H1 H2 Hf tok P HP Hlen Hw.
  rewrite (distinct_drops_repeated_profile h na fcol toks ty s ts1 ts2 names nt ss Hd Hok H1 H2 Hf).
  destruct (statement_read_path h na fcol toks ty (undistinct s) [(ts1, names, nt, ss)] Hok) as (rows & Hev & Hrows).
  - cbn [map stored_of filter]. fold tok. unfold in_window. cbn [fst undistinct ms_from ms_to].
    replace (Z.leb (ms_from s) ts1 && Z.ltb ts1 (ms_to s)) with true
      by (symmetry; apply andb_true_intro; split; [apply Z.leb_le|apply Z.ltb_lt]; lia).
    cbn [map snd]. constructor; [exact HP|constructor].
  - cbn [map stored_of filter]. fold tok. unfold in_window. cbn [fst undistinct ms_from ms_to ms_limit].
    replace (Z.leb (ms_from s) ts1 && Z.ltb ts1 (ms_to s)) with true
      by (symmetry; apply andb_true_intro; split; [apply Z.leb_le|apply Z.ltb_lt]; lia).
    cbn [map snd List.concat]. rewrite app_nil_r. exact Hlen.
  - exists rows. split; [exact Hev|]. intros fs. specialize (Hrows fs). cbn zeta in Hrows. destruct Hrows as [_ Hsum].
    cbn [map stored_of filter] in Hsum. fold tok in Hsum. unfold in_window in Hsum. cbn [fst undistinct ms_from ms_to ms_limit] in Hsum.
    replace (Z.leb (ms_from s) ts1 && Z.ltb ts1 (ms_to s)) with true in Hsum
      by (symmetry; apply andb_true_intro; split; [apply Z.leb_le|apply Z.ltb_lt]; lia).
    cbn [map snd sumZ fold_right] in Hsum. rewrite Z.add_0_r in Hsum. fold P in Hsum.
    cbn zeta. split; [exact Hsum|]. intros Hc. apply Hw. unfold eqm in *. rewrite Hsum in Hc.
    rewrite Z.mod_0_l by (unfold two64; lia).
    rewrite Z.add_mod in Hc by (unfold two64; lia).
    pose proof (Z.mod_pos_bound (stored_weight P) two64 ltac:(unfold two64; lia)) as Hb.
    set (w := stored_weight P mod two64) in *.
    destruct (Z.eq_dec w 0) as [E|E]; [exact E|exfalso].
    assert (Hcase : (w + w) mod two64 = w + w \/ (w + w) mod two64 = w + w - two64).
    { destruct (Z_lt_ge_dec (w + w) two64) as [L|G].
      - left. apply Z.mod_small. lia.
      - right. symmetry. apply Z.mod_unique with (q := 1); lia. }
    destruct Hcase as [Hm|Hm]; rewrite Hm in Hc; lia.
Qed.

(* the hypotheses are met: ex_profile (two sample types, recursion, shared prefixes) scraped twice, read on its first type *)
Definition ex_stmt_distinct : merge_stmt :=
  {| ms_fp := ms_fp ex_stmt; ms_table := ms_table ex_stmt; ms_matchers := ms_matchers ex_stmt; ms_types := ms_types ex_stmt;
     ms_proj := ms_proj ex_stmt; ms_from := ms_from ex_stmt; ms_to := ms_to ex_stmt; ms_out := ms_out ex_stmt;
     ms_group := ms_group ex_stmt; ms_order := ms_order ex_stmt; ms_limit := ms_limit ex_stmt;
     ms_tree_agg := ms_tree_agg ex_stmt; ms_fn_agg := ms_fn_agg ex_stmt; ms_distinct := true;
     ms_distinct_pre := false; ms_from_strict := false; ms_to_incl := false |}.
Lemma distinct_statement_refuted_applies :
  let P := {| sp_nt := 2; sp_samples := ex_profile; sp_sel := first_index 0 [0; 1] |} in
  ms_distinct ex_stmt_distinct = true /\ stmt_ok 0 (undistinct ex_stmt_distinct) = true /\
  stored_ok city16 0%N P /\ Z.of_nat (List.length (stored_rows city16 0%N P)) <= ms_limit ex_stmt_distinct /\
  stored_weight P mod two64 = 12 /\
  option_map (fun rows => rchild_tot (rows_of (m_nodes (merge_trie the_limit new_tree rows []))) 0%N)
    (eval_merge_stmt [0] ex_stmt_distinct
       (map (sprof_of city16 0%N (fun _ => [])) [(0, [0; 1], 2%nat, ex_profile); (1000000000, [0; 1], 2%nat, ex_profile)]))
  = Some 12 /\
  option_map (fun rows => rchild_tot (rows_of (m_nodes (merge_trie the_limit new_tree rows []))) 0%N)
    (eval_merge_stmt [0] ex_stmt
       (map (sprof_of city16 0%N (fun _ => [])) [(0, [0; 1], 2%nat, ex_profile); (1000000000, [0; 1], 2%nat, ex_profile)]))
  = Some 24.
Proof.
  cbn zeta. split; [reflexivity|]. split; [vm_compute; reflexivity|]. split.
  - change (first_index 0 [0; 1]) with (Some 0%nat). cbn [stored_ok sp_samples sp_sel sp_nt].
    split; [apply parent_determined_b_sound; vm_compute; reflexivity|cbn; lia].
  - split; [vm_compute; intros H; discriminate H|]. split; [vm_compute; reflexivity|]. split; vm_compute; reflexivity.
Qed.

(* the other shapes the evaluator interprets and stmt_ok refuses, on ex_profile scraped twice (a third copy exactly at the
   end of the window for the inclusive upper bound): each changes the flame graph total *)
Definition ex_variant (d dp fs ti : bool) (out : list gsel) : merge_stmt :=
  {| ms_fp := ms_fp ex_stmt; ms_table := ms_table ex_stmt; ms_matchers := ms_matchers ex_stmt; ms_types := ms_types ex_stmt;
     ms_proj := ms_proj ex_stmt; ms_from := ms_from ex_stmt; ms_to := ms_to ex_stmt; ms_out := out;
     ms_group := ms_group ex_stmt; ms_order := ms_order ex_stmt; ms_limit := ms_limit ex_stmt;
     ms_tree_agg := ms_tree_agg ex_stmt; ms_fn_agg := ms_fn_agg ex_stmt; ms_distinct := d;
     ms_distinct_pre := dp; ms_from_strict := fs; ms_to_incl := ti |}.
Definition ex_total (s : merge_stmt) (D : list pentry) : option Z :=
  option_map (fun rows => rchild_tot (rows_of (m_nodes (merge_trie the_limit new_tree rows []))) 0%N)
             (eval_merge_stmt [0] s (map (sprof_of city16 0%N (fun _ => [])) D)).
Definition ex_D2 : list pentry := [(0, [0; 1], 2%nat, ex_profile); (1000000000, [0; 1], 2%nat, ex_profile)].
Definition ex_D3 : list pentry := ex_D2 ++ [(2000000000, [0; 1], 2%nat, ex_profile)].
Definition max_out : list gsel := [GKey 1; GKey 2; GKey 3; GAgg AMax 4; GAgg AMax 5].
Lemma refused_shapes_change_the_total :
  ex_total ex_stmt ex_D2 = Some 24 /\ ex_total ex_stmt ex_D3 = Some 24 /\
  (stmt_ok 0 (ex_variant false true false false the_out) = false /\ ex_total (ex_variant false true false false the_out) ex_D2 = Some 12) /\
  (stmt_ok 0 (ex_variant false false false false max_out) = false /\ ex_total (ex_variant false false false false max_out) ex_D2 = Some 12) /\
  (stmt_ok 0 (ex_variant false false true false the_out) = false /\ ex_total (ex_variant false false true false the_out) ex_D2 = Some 12) /\
  (stmt_ok 0 (ex_variant false false false true the_out) = false /\ ex_total (ex_variant false false false true the_out) ex_D3 = Some 36).
Proof. vm_compute. repeat split; reflexivity. Qed.
