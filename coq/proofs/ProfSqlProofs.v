(* Proofs about the grouped hand-over of the read path (property C16): GROUP BY (parent, function, node) with
   wrapping sums keeps the three conservation sums, so the merged tree of the rows the statement returns conserves
   like the merged tree of the stored rows themselves. *)
From Coq Require Import List NArith ZArith Bool Lia Permutation Morphisms.
From Qryn Require Import model.Pprof model.ProfTree model.ProfSql proofs.PprofProofs proofs.ProfTreeProofs.
Import ListNotations.
Open Scope Z_scope.

Section GroupStep.
  Variable sel : row -> N.
  Variable comp : Z * Z -> Z.
  Hypothesis Hsel : forall a b, r_parent a = r_parent b -> r_id a = r_id b -> sel a = sel b.
  Hypothesis Hcomp : forall s t a b, eqm (comp (wrap64 (s + a), wrap64 (t + b))) (comp (s, t) + comp (a, b)).

  Lemma gkey_eqb_true a b : gkey_eqb a b = true -> r_parent a = r_parent b /\ r_fn a = r_fn b /\ r_id a = r_id b.
  Proof.
    unfold gkey_eqb. intros H. apply andb_prop in H. destruct H as [H H3]. apply andb_prop in H. destruct H as [H1 H2].
    apply N.eqb_eq in H1, H2, H3. tauto.
  Qed.

  Lemma group_insert_rsum gs r x :
    eqm (rsum sel comp (group_insert gs r) x) (rsum sel comp gs x + if N.eqb (sel r) x then comp (r_self r, r_total r) else 0).
  Proof.
    induction gs as [|g gs IH]; cbn [group_insert].
    - rewrite rsum_cons, !rsum_nil. apply eqm_of_eq. lia.
    - destruct (gkey_eqb g r) eqn:E.
      + apply gkey_eqb_true in E. destruct E as (E1 & _ & E3). rewrite !rsum_cons. cbn [r_self r_total].
        assert (Hs1 : sel {| r_parent := r_parent g; r_fn := r_fn g; r_id := r_id g;
                             r_self := wrap64 (r_self g + r_self r); r_total := wrap64 (r_total g + r_total r) |} = sel r)
          by (apply Hsel; cbn; assumption).
        assert (Hs2 : sel g = sel r) by (apply Hsel; assumption).
        rewrite Hs1, Hs2. destruct (N.eqb (sel r) x); [|apply eqm_of_eq; lia].
        rewrite Hcomp. apply eqm_of_eq. lia.
      + rewrite !rsum_cons, IH. apply eqm_of_eq. lia.
  Qed.

  Lemma group_rows_rsum rows x : eqm (rsum sel comp (group_rows rows) x) (rsum sel comp rows x).
  Proof.
    unfold group_rows.
    assert (G : forall rows gs, eqm (rsum sel comp (fold_left group_insert rows gs) x) (rsum sel comp gs x + rsum sel comp rows x)).
    { clear rows. induction rows as [|r rows IH]; intros gs; cbn [fold_left].
      - rewrite rsum_nil. apply eqm_of_eq. lia.
      - rewrite IH, group_insert_rsum, rsum_cons. apply eqm_of_eq. lia. }
    rewrite G, rsum_nil. apply eqm_of_eq. lia.
  Qed.
End GroupStep.

Lemma group_rows_conserves rows : rconserves rows -> rconserves (group_rows rows).
Proof.
  intros Hc x Hx. rewrite rtot_at_rsum, rself_at_rsum, rchild_tot_rsum.
  rewrite (group_rows_rsum r_id snd sel_id_ok comp_snd), (group_rows_rsum r_id fst sel_id_ok comp_fst),
          (group_rows_rsum r_parent snd sel_parent_ok comp_snd).
  rewrite <- rtot_at_rsum, <- rself_at_rsum, <- rchild_tot_rsum. exact (Hc x Hx).
Qed.

(* grouping never lengthens the list: the LIMIT of the statement is met whenever the raw rows meet it *)
Lemma group_insert_length gs r : (length (group_insert gs r) <= S (length gs))%nat.
Proof.
  induction gs as [|g gs IH]; cbn [group_insert length]; [lia|].
  destruct (gkey_eqb g r); cbn [length]; lia.
Qed.
Lemma group_rows_length rows : (length (group_rows rows) <= length rows)%nat.
Proof.
  unfold group_rows.
  assert (G : forall rows gs, (length (fold_left group_insert rows gs) <= length gs + length rows)%nat).
  { clear rows. induction rows as [|r rows IH]; intros gs; cbn [fold_left length]; [lia|].
    pose proof (IH (group_insert gs r)). pose proof (group_insert_length gs r). lia. }
  apply (G rows []).
Qed.

(* The read path as the service runs it: the profiles stored inside the time window of the statement, each projected on
   the selected sample type (or lacking it), ARRAY JOINed, grouped by (parent, function, node) with wrapping sums and
   returned in ANY order (ORDER BY parent only; groupArray keeps no promise), folded by MergeTrie: the flame graph tree
   conserves and the bars under its root add up to the weights of the profiles in the window. *)
Definition in_window (from to : Z) (P : Z * stored) : bool := Z.leb from (fst P) && Z.ltb (fst P) to.

Theorem read_path_conserves h na limit (db : list (Z * stored)) (from to : Z) rows fs :
  let Ps := map snd (filter (in_window from to) db) in
  Forall (stored_ok h na) Ps ->
  Permutation rows (group_rows (concat (map (stored_rows h na) Ps))) ->
  Z.of_nat (length rows) <= limit ->
  let out := rows_of (m_nodes (merge_trie limit new_tree rows fs)) in
  rconserves out /\ eqm (rchild_tot out 0%N) (sumZ (map stored_weight Ps)).
Proof.
  intros Ps Hok Hperm Hlim out.
  pose proof (merged_profiles_conserve h na (Z.of_nat (length (concat (map (stored_rows h na) Ps)))) Ps
                (concat (map (stored_rows h na) Ps)) [] Hok (Permutation_refl _) ltac:(lia)) as [Hraw Hroot].
  cbn zeta in Hraw, Hroot.
  set (raw := concat (map (stored_rows h na) Ps)) in *.
  assert (Hc : rconserves raw).
  { apply rconserves_concat. apply Forall_map. eapply Forall_impl; [|exact Hok].
    intros P HP. exact (proj1 (stored_rows_conserve h na P HP)). }
  split.
  - apply merged_conserves_rows; [exact Hlim|].
    apply (rconserves_perm _ _ (Permutation_sym Hperm)). apply group_rows_conserves. exact Hc.
  - destruct (merged_sums limit rows fs 0%N Hlim) as (_ & _ & H3). fold out in H3. rewrite H3.
    rewrite rchild_tot_rsum, (rsum_perm _ _ _ _ _ Hperm).
    rewrite (group_rows_rsum r_parent snd sel_parent_ok comp_snd).
    destruct (merged_sums (Z.of_nat (length raw)) raw [] 0%N ltac:(lia)) as (_ & _ & H4).
    rewrite <- rchild_tot_rsum, <- H4. exact Hroot.
Qed.

(* the hypotheses of read_path_conserves are met by a database of two stored copies of ex_profile (two sample types,
   recursion, shared prefixes) read on different sample types through one window: 12 raw rows, 6 groups *)
Definition ex_db : list (Z * stored) :=
  [ (0, {| sp_nt := 2; sp_samples := ex_profile; sp_sel := Some 0%nat |});
    (1000000000, {| sp_nt := 2; sp_samples := ex_profile; sp_sel := Some 1%nat |});
    (5000000000, {| sp_nt := 2; sp_samples := ex_profile; sp_sel := None |}) ].
Lemma ex_db_hypotheses :
  let Ps := map snd (filter (in_window 0 2000000000) ex_db) in
  length Ps = 2%nat /\ Forall (stored_ok city16 0%N) Ps /\
  length (concat (map (stored_rows city16 0%N) Ps)) = 12%nat /\
  length (group_rows (concat (map (stored_rows city16 0%N) Ps))) = 6%nat.
Proof.
  cbn zeta. split; [vm_compute; reflexivity|]. split.
  - change (map snd (filter (in_window 0 2000000000) ex_db))
      with [ {| sp_nt := 2; sp_samples := ex_profile; sp_sel := Some 0%nat |};
             {| sp_nt := 2; sp_samples := ex_profile; sp_sel := Some 1%nat |} ].
    repeat constructor; cbn [stored_ok sp_samples sp_sel sp_nt];
      try (apply parent_determined_b_sound; vm_compute; reflexivity); lia.
  - split; vm_compute; reflexivity.
Qed.
