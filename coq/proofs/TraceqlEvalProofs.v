(* Property C11, part 2 of the proofs: the SQL that AttrConditionPlanner emits for a selector, run
   by the evaluator of model/TraceqlSem.v, computes the meaning of the selector.
     ev_get_term      each term's SQL condition is true of an index row iff the term is (term_sem)
     ev_having        the HAVING tree over groupBitOr(bit set) is true of a span's rows iff the
                      analysed condition is (cond_sem)
   No blind simplification of [ev] (it is one large fixpoint): one unfolding equation per
   constructor, proved by reflexivity, then rewriting. *)
From Coq Require Import List ZArith NArith QArith String Ascii Bool Lia.
From Qryn Require Import model.TqSql model.Traceql model.TraceqlPlan model.TraceqlSem
     proofs.TraceqlBitsetProofs proofs.TraceqlAnalyzeProofs.
Import ListNotations.
Open Scope string_scope.
Open Scope list_scope.

(* ---------- booleans over Q and Z ---------- *)
Lemma Qeq_bool_le x y : Qeq_bool x y = Qle_bool x y && Qle_bool y x.
Proof.
  apply eq_true_iff_eq. rewrite andb_true_iff, Qeq_bool_iff, !Qle_bool_iff. split.
  - intros E. split; rewrite E; apply Qle_refl.
  - intros [A B]. now apply Qle_antisym.
Qed.

Definition lop_of (c : cmp) : lop :=
  match c with CEq => OEq | CNeq => ONeq | CLt => OLt | CLe => OLe | CGt => OGt | CGe => OGe | _ => OEq end.
Definition ordered (c : cmp) : bool := match c with CRe | CNre => false | _ => true end.

Lemma vbool_inj a b : a = b -> vbool a = vbool b. Proof. now intros ->. Qed.

Section EV.
  Variable re_match : string -> string -> bool.
  Variable parse_float : string -> option Q.
  Variable hash64 : string -> Z.
  Notation tsem := (term_sem re_match parse_float true).
  Notation csem := (cond_sem re_match parse_float true).

  Lemma vcmp_num c x th : ordered c = true ->
    vcmp (lop_of c) (VNum x) (VNum th) = Some (vbool (cmp_Q c x th)).
  Proof.
    intros Ho. unfold vcmp. cbn [is_null orb vleb]. f_equal. apply vbool_inj.
    destruct c; try discriminate; cbn [lop_of cmp_Q]; rewrite ?Qeq_bool_le;
      destruct (Qle_bool x th), (Qle_bool th x); reflexivity.
  Qed.

  Lemma vcmp_int c a b : ordered c = true ->
    vcmp (lop_of c) (VInt a) (VInt b) = Some (vbool (cmp_Z c a b)).
  Proof.
    intros Ho. unfold vcmp. cbn [is_null orb vleb]. f_equal. apply vbool_inj.
    destruct c; try discriminate; cbn [lop_of cmp_Z];
      destruct (Z.leb_spec a b), (Z.leb_spec b a), (Z.eqb_spec a b), (Z.ltb_spec a b), (Z.ltb_spec b a); cbn; try reflexivity; lia.
  Qed.

  Lemma vcmp_str_eq a b : vcmp OEq (VStr a) (VStr b) = Some (vbool (String.eqb a b)).
  Proof.
    unfold vcmp. cbn [is_null orb vleb]. f_equal. apply vbool_inj.
    revert b. induction a as [|x a IH]; intros [|y b]; cbn [str_leb String.eqb]; try reflexivity.
    destruct (Ascii.eqb_spec x y) as [->|Hne].
    - rewrite N.ltb_irrefl. apply IH.
    - assert (Hn : N_of_ascii x <> N_of_ascii y) by (intros E; apply Hne; rewrite <- (ascii_N_embedding x), <- (ascii_N_embedding y), E; reflexivity).
      destruct (N.ltb_spec (N_of_ascii x) (N_of_ascii y)), (N.ltb_spec (N_of_ascii y) (N_of_ascii x)); cbn; try reflexivity; lia.
  Qed.
  Lemma vcmp_str_neq a b : vcmp ONeq (VStr a) (VStr b) = Some (vbool (negb (String.eqb a b))).
  Proof.
    pose proof (vcmp_str_eq a b) as H. unfold vcmp in *. cbn [is_null orb] in *.
    destruct (vleb (VStr a) (VStr b)) as [le|], (vleb (VStr b) (VStr a)) as [ge|]; try discriminate.
    injection H as H. f_equal. apply vbool_inj. f_equal.
    destruct (le && ge), (String.eqb a b); cbn in H; try reflexivity; discriminate.
  Qed.
  Lemma vcmp_b1 b : vcmp OEq (vbool b) (VInt 1) = Some (vbool b).
  Proof. destruct b; reflexivity. Qed.
  Lemma vcmp_b0 b : vcmp OEq (vbool b) (VInt 0) = Some (vbool (negb b)).
  Proof. destruct b; reflexivity. Qed.

  Lemma truth_vbool b : truth (vbool b) = Some (Some b).
  Proof. destruct b; reflexivity. Qed.
  Lemma and3_2 a b : of3 (and3 [Some a; Some b]) = vbool (a && b).
  Proof. destruct a, b; reflexivity. Qed.
  Lemma and3_3 a b c : of3 (and3 [Some a; Some b; Some c]) = vbool (a && b && c).
  Proof. destruct a, b, c; reflexivity. Qed.

  Section ROW.
    Variable cte : env.
    Variable al : list (string * expr).
    Variable keys : list string.
    Notation EV := (ev re_match parse_float hash64 cte al keys).

    (* ---------- unfolding equations ---------- *)
    Lemma ev_Id_row f self g r x :
      EV (S f) false self g r (Id x) =
      match (if String.eqb x self then None else lookup_alias x al) with
      | Some (Id y) => if String.eqb y x then lookup x r else EV f false x g r (Id y)
      | Some d => if has_agg 20 d then None else EV f false x g r d
      | None => lookup x r
      end.
    Proof. reflexivity. Qed.
    Lemma ev_Id_agg f self g r x :
      EV (S f) true self g r (Id x) =
      match (if String.eqb x self then None else lookup_alias x al) with
      | Some d => EV f true x g r d
      | None => if existsb (String.eqb x) keys then lookup x r else None
      end.
    Proof. reflexivity. Qed.
    Lemma ev_StrV f agg self g r s : EV (S f) agg self g r (StrV s) = Some (VStr s).
    Proof. reflexivity. Qed.
    Lemma ev_IntV f agg self g r z : EV (S f) agg self g r (IntV z) = Some (VInt z).
    Proof. reflexivity. Qed.
    Lemma ev_FloatV f agg self g r s :
      EV (S f) agg self g r (FloatV s) = match num_of_text s with Some q => Some (VNum q) | None => None end.
    Proof. reflexivity. Qed.
    Lemma ev_LOp f agg self g r fn cl :
      EV (S f) agg self g r (LOp fn cl) =
      match all_some (map (fun x => EV f agg self g r x) cl) with
      | None => None
      | Some vs =>
        match fn with
        | OAnd => match all_some (map truth vs) with Some ts => Some (of3 (and3 ts)) | None => None end
        | OOr => match all_some (map truth vs) with Some ts => Some (of3 (or3 ts)) | None => None end
        | _ => match vs with [a; b] => vcmp fn a b | _ => None end
        end
      end.
    Proof. reflexivity. Qed.
    Lemma ev_LOp_cmp f agg self g r c a b : ordered c = true ->
      EV (S f) agg self g r (LOp (lop_of c) [a; b]) =
      match EV f agg self g r a, EV f agg self g r b with Some x, Some y => vcmp (lop_of c) x y | _, _ => None end.
    Proof.
      intros Ho. rewrite ev_LOp. cbn [map all_some].
      destruct c; try discriminate; cbn [lop_of];
        destruct (EV f agg self g r a); try reflexivity; destruct (EV f agg self g r b); reflexivity.
    Qed.
    Lemma ev_MatchRe f agg self g r fe re :
      EV (S f) agg self g r (MatchRe fe re) =
      match EV f agg self g r fe with Some (VStr s) => Some (vbool (re_match re s)) | Some VNull => Some VNull | _ => None end.
    Proof. reflexivity. Qed.
    Lemma ev_IsNotNull f agg self g r x :
      EV (S f) agg self g r (Fn FIsNotNull [x]) =
      match EV f agg self g r x with Some v => Some (vbool (negb (is_null v))) | None => None end.
    Proof. reflexivity. Qed.
    Lemma ev_OrNull f agg self g r x :
      EV (S f) agg self g r (Fn FToFloat64OrNull [x]) =
      match EV f agg self g r x with
      | Some (VStr s) => Some (match parse_float s with Some q => VNum q | None => VNull end)
      | _ => None end.
    Proof. reflexivity. Qed.
    Lemma ev_OrZero f agg self g r x :
      EV (S f) agg self g r (Fn FToFloat64OrZero [x]) =
      match EV f agg self g r x with
      | Some (VStr s) => Some (VNum (match parse_float s with Some q => q | None => 0%Q end))
      | _ => None end.
    Proof. reflexivity. Qed.
    Lemma ev_BitSet f agg self g r terms :
      EV (S f) agg self g r (BitSet terms) =
      match all_some (map (fun x => EV f agg self g r x) terms) with
      | None => None
      | Some vs => bitset_sum vs 0%Z 0%Z
      end.
    Proof. reflexivity. Qed.
    Lemma ev_BitAnd f agg self g r a b :
      EV (S f) agg self g r (BitAnd a b) =
      match EV f agg self g r a, EV f agg self g r b with
      | Some (VInt x), Some (VInt y) => Some (VInt (Z.land (u64 x) (u64 y)))
      | Some VNull, Some _ | Some _, Some VNull => Some VNull
      | _, _ => None
      end.
    Proof. reflexivity. Qed.
    Lemma ev_GroupBitOr f self g r x a :
      EV (S f) true self g r (GroupBitOr x a) =
      match all_some (map (fun r' => EV f false self [] r' x) g) with
      | Some vs => bitor_fold vs 0%Z
      | None => None
      end.
    Proof. reflexivity. Qed.

    (* ---------- index rows ---------- *)
    Definition irow_row (r : irow) : row := qualify "traces_idx" (row_of_irow r).
    Lemma lookup_key r : lookup "key" (irow_row r) = Some (VStr (r_key r)). Proof. reflexivity. Qed.
    Lemma lookup_val r : lookup "val" (irow_row r) = Some (VStr (r_val r)). Proof. reflexivity. Qed.
    Lemma lookup_dur r : lookup "traces_idx.duration" (irow_row r) = Some (VInt (r_dur r)). Proof. reflexivity. Qed.

    (* the three identifiers the terms read are not SELECT aliases of the statement *)
    Hypothesis al_key : lookup_alias "key" al = None.
    Hypothesis al_val : lookup_alias "val" al = None.
    Hypothesis al_dur : lookup_alias "traces_idx.duration" al = None.

    Lemma no_alias x self : lookup_alias x al = None -> (if String.eqb x self then None else lookup_alias x al) = None.
    Proof. intros ->. now destruct (String.eqb x self). Qed.

    Lemma ev_key f self g r : EV (S f) false self g (irow_row r) (Id "key") = Some (VStr (r_key r)).
    Proof. now rewrite ev_Id_row, (no_alias _ _ al_key), lookup_key. Qed.
    Lemma ev_val f self g r : EV (S f) false self g (irow_row r) (Id "val") = Some (VStr (r_val r)).
    Proof. now rewrite ev_Id_row, (no_alias _ _ al_val), lookup_val. Qed.
    Lemma ev_dur f self g r : EV (S f) false self g (irow_row r) (Id "traces_idx.duration") = Some (VInt (r_dur r)).
    Proof. now rewrite ev_Id_row, (no_alias _ _ al_dur), lookup_dur. Qed.

    Lemma ev_key_clause f self g r k :
      EV (S (S f)) false self g (irow_row r) (key_clause k) = Some (vbool (String.eqb (r_key r) k)).
    Proof.
      unfold key_clause. rewrite ev_LOp. cbn [map]. rewrite ev_key, ev_StrV. cbn [all_some]. apply vcmp_str_eq.
    Qed.

    (* the literal of a numeric term must be readable back from its %f text (it always is: %f prints digits) *)
    Definition term_lit_ok (t : attr_sel) : bool :=
      match num_text (a_val t) with Some txt => match num_of_text txt with Some _ => true | None => false end | None => true end.

    Lemma ev_term_str f self g r t key e :
      get_term_str t key = Ok e ->
      EV (4 + f) false self g (irow_row r) e =
      Some (vbool (String.eqb (r_key r) key &&
                   match unquoted (a_val t) with
                   | Some s => match a_op t with
                               | CEq => String.eqb (r_val r) s | CNeq => negb (String.eqb (r_val r) s)
                               | CRe => re_match s (r_val r) | CNre => negb (re_match s (r_val r)) | _ => false end
                   | None => false end)).
    Proof.
      unfold get_term_str. intros H.
      destruct (a_op t) eqn:Eo; try discriminate;
        (destruct (unquoted (a_val t)) as [s|]; [|discriminate]); injection H as <-;
        change (4 + f)%nat with (S (S (S (S f)))); rewrite ev_LOp; cbn [map]; rewrite ev_key_clause.
      - rewrite ev_LOp. cbn [map]. rewrite ev_val, ev_StrV. cbn [all_some]. rewrite vcmp_str_eq.
        cbn [all_some map]. rewrite !truth_vbool. cbn [all_some]. now rewrite and3_2.
      - rewrite ev_LOp. cbn [map]. rewrite ev_val, ev_StrV. cbn [all_some]. rewrite vcmp_str_neq.
        cbn [all_some map]. rewrite !truth_vbool. cbn [all_some]. now rewrite and3_2.
      - rewrite ev_LOp. cbn [map]. rewrite ev_MatchRe, ev_val, ev_IntV. cbn [all_some]. rewrite vcmp_b1.
        cbn [all_some map]. rewrite !truth_vbool. cbn [all_some]. now rewrite and3_2.
      - rewrite ev_LOp. cbn [map]. rewrite ev_MatchRe, ev_val, ev_IntV. cbn [all_some]. rewrite vcmp_b0.
        cbn [all_some map]. rewrite !truth_vbool. cbn [all_some]. now rewrite and3_2.
    Qed.

    Lemma ev_term_num f self g r t key e :
      term_lit_ok t = true -> get_term_num t key = Ok e ->
      EV (5 + f) false self g (irow_row r) e =
      Some (vbool (String.eqb (r_key r) key &&
                   match lit_value true (a_val t), parse_float (r_val r) with
                   | Some th, Some x => cmp_Q (a_op t) x th
                   | _, _ => false end)).
    Proof.
      unfold get_term_num, term_lit_ok, lit_value. intros Hl H.
      assert (Ho : ordered (a_op t) = true /\
                   match a_op t with CEq => Ok OEq | CNeq => Ok ONeq | CGt => Ok OGt | CLt => Ok OLt | CGe => Ok OGe | CLe => Ok OLe
                                | CRe | CNre => Err ENotSupportedOp end = Ok (lop_of (a_op t))).
      { destruct (a_op t); try (split; reflexivity); discriminate. }
      destruct Ho as [Ho Hfn]. rewrite Hfn in H. cbn [bind] in H.
      destruct (num_text (a_val t)) as [txt|]; [|discriminate]. injection H as <-.
      destruct (num_of_text txt) as [th|] eqn:Eth; [|discriminate].
      change (5 + f)%nat with (S (S (S (S (S f))))). rewrite ev_LOp. cbn [map]. rewrite ev_key_clause.
      rewrite ev_LOp. cbn [map]. rewrite ev_IsNotNull, ev_OrNull, ev_val, ev_IntV.
      rewrite (ev_LOp_cmp _ _ _ _ _ _ _ _ Ho). rewrite ev_OrZero, ev_val, ev_FloatV, Eth.
      destruct (parse_float (r_val r)) as [x|]; cbn [is_null negb all_some].
      - rewrite vcmp_b1, (vcmp_num _ _ _ Ho). cbn [all_some map]. rewrite !truth_vbool. cbn [all_some]. rewrite and3_3.
        now rewrite andb_true_r.
      - rewrite vcmp_b1, (vcmp_num _ _ _ Ho). cbn [all_some map]. rewrite !truth_vbool. cbn [all_some]. rewrite and3_3.
        now rewrite andb_false_r.
    Qed.

    Lemma ev_term_duration f self g r t e :
      get_term_duration t = Ok e ->
      EV (2 + f) false self g (irow_row r) e =
      Some (vbool (match dur_ns (a_val t) with Some ns => cmp_Z (a_op t) (r_dur r) ns | None => false end)).
    Proof.
      unfold get_term_duration. intros H.
      destruct (String.eqb (v_time (a_val t)) ""); [discriminate|].
      destruct (dur_ns (a_val t)) as [ns|]; [|discriminate].
      assert (Ho : ordered (a_op t) = true /\ comparison_fn (a_op t) = Ok (lop_of (a_op t))).
      { destruct (a_op t); try (split; reflexivity); discriminate. }
      destruct Ho as [Ho Hfn]. rewrite Hfn in H. cbn [bind] in H. injection H as <-.
      change (2 + f)%nat with (S (S f)). rewrite (ev_LOp_cmp _ _ _ _ _ _ _ _ Ho). rewrite ev_dur, ev_IntV.
      now apply vcmp_int.
    Qed.

    (* fuel is only ever too small, never harmful: the three lemmas above at a common fuel *)
    Lemma has_prefix_duration_not_scoped : strip_scope "duration" = None.
    Proof. reflexivity. Qed.

    (* T1: the SQL condition of a term is true of an index row exactly when the term is *)
    Theorem ev_get_term f self g r t e :
      term_lit_ok t = true -> get_term t = Ok e ->
      EV (5 + f) false self g (irow_row r) e = Some (vbool (tsem t r)).
    Proof.
      intros Hl H. unfold get_term in H. unfold term_sem, label_key.
      destruct (strip_scope (a_label t)) as [key|] eqn:Es.
      - destruct (v_str (a_val t)) as [s0|] eqn:Ev.
        + change (5 + f)%nat with (4 + S f)%nat. now rewrite (ev_term_str _ _ _ _ _ _ _ H).
        + destruct (negb (String.eqb (v_f (a_val t)) "")); [|discriminate].
          now rewrite (ev_term_num _ _ _ _ _ _ _ Hl H).
      - destruct (String.eqb (a_label t) "duration") eqn:Ed.
        + apply String.eqb_eq in Ed. rewrite Ed. cbn [String.eqb Ascii.eqb Bool.eqb andb].
          change (5 + f)%nat with (2 + (3 + f))%nat. rewrite (ev_term_duration _ _ _ _ _ _ H).
          destruct (dur_ns (a_val t)); reflexivity.
        + destruct (String.eqb (a_label t) "name") eqn:En; [|discriminate].
          destruct (v_str (a_val t)) as [s0|] eqn:Ev.
          * change (5 + f)%nat with (4 + S f)%nat. now rewrite (ev_term_str _ _ _ _ _ _ _ H).
          * destruct (negb (String.eqb (v_f (a_val t)) "")); [|discriminate].
            now rewrite (ev_term_num _ _ _ _ _ _ _ Hl H).
    Qed.

    (* ---------- T2: the bit set and the HAVING tree ---------- *)
    Lemma or3_2 a b : of3 (or3 [Some a; Some b]) = vbool (a || b).
    Proof. destruct a, b; reflexivity. Qed.

    Lemma map_res_Forall2 {A B} (fn : A -> result B) l l' :
      map_res fn l = Ok l' -> Forall2 (fun x y => fn x = Ok y) l l'.
    Proof.
      revert l'. induction l as [|x l IH]; cbn [map_res]; intros l' H.
      - injection H as <-. constructor.
      - destruct (fn x) as [y| |] eqn:Ex; cbn [bind] in H; try discriminate.
        destruct (map_res fn l) as [ys| |]; cbn [bind] in H; try discriminate.
        injection H as <-. constructor; [assumption|now apply IH].
    Qed.

    Variable terms : list attr_sel.
    Variable conds : list expr.
    Hypothesis Hconds : map_res get_term terms = Ok conds.
    Hypothesis Hlits : forallb term_lit_ok terms = true.
    Hypothesis Hlen : (List.length terms <= 64)%nat.
    Let ts : list (irow -> bool) := map (fun t => tsem t) terms.

    (* every term condition evaluates, on an index row, to the truth of its term *)
    Lemma ev_conds f self g r :
      all_some (map (fun x => EV (5 + f) false self g (irow_row r) x) conds) = Some (map (fun t => vbool (t r)) ts).
    Proof.
      subst ts. pose proof (map_res_Forall2 _ _ _ Hconds) as HF. clear Hconds.
      induction HF as [|t e l l' Ht HF IH]; [reflexivity|].
      cbn [forallb] in Hlits. apply andb_true_iff in Hlits. destruct Hlits as [Hl Hls].
      cbn [map all_some]. rewrite (ev_get_term _ _ _ _ _ _ Hl Ht).
      cbn [List.length] in Hlen.
      rewrite IH; [reflexivity|assumption|lia].
    Qed.

    Lemma u64_small z : (0 <= z < 2 ^ 64)%Z -> u64 z = z.
    Proof. intros H. unfold u64. now apply Z.mod_small. Qed.

    (* the UInt64 sum of the shifted term values is the row mask of the design probe *)
    Lemma bitset_sum_mask (l : list (irow -> bool)) r : forall i acc,
      (0 <= i)%Z -> (0 <= acc < 2 ^ i)%Z -> (i + Z.of_nat (List.length l) <= 64)%Z ->
      exists v, bitset_sum (map (fun t => vbool (t r)) l) i acc = Some (VInt v)
                /\ v = (acc + Z.of_N (rowmask irow l (Z.to_N i) r))%Z
                /\ (0 <= v < 2 ^ (i + Z.of_nat (List.length l)))%Z.
    Proof.
      induction l as [|t l IH]; intros i acc Hi Hacc Hb; cbn [map bitset_sum rowmask List.length].
      - exists acc. split; [reflexivity|]. split; [cbn; lia|]. rewrite Z.add_0_r. assumption.
      - cbn [List.length] in Hb. rewrite Nat2Z.inj_succ in Hb.
        set (b := (if t r then 1 else 0)%Z).
        assert (Hb01 : (0 <= b <= 1)%Z) by (subst b; destruct (t r); lia).
        assert (Hvb : vbool (t r) = VInt b) by reflexivity. rewrite Hvb.
        assert (Hi64 : (i <? 64)%Z = true) by (apply Z.ltb_lt; lia). rewrite Hi64.
        assert (Hpow : (2 ^ i < 2 ^ 64)%Z) by (apply Z.pow_lt_mono_r; lia).
        assert (Hpow1 : (2 ^ (i + 1) <= 2 ^ 64)%Z) by (apply Z.pow_le_mono_r; lia).
        assert (Hpi : (2 ^ (i + 1) = 2 * 2 ^ i)%Z) by (rewrite Z.pow_add_r by lia; lia).
        assert (Hub : u64 b = b) by (apply u64_small; lia). rewrite Hub.
        assert (Hsh : Z.shiftl b i = (b * 2 ^ i)%Z) by (apply Z.shiftl_mul_pow2; lia). rewrite Hsh.
        assert (Hbp : (0 <= b * 2 ^ i <= 2 ^ i)%Z) by nia.
        rewrite (u64_small (b * 2 ^ i)) by lia.
        rewrite (u64_small (acc + b * 2 ^ i)) by lia.
        destruct (IH (i + 1)%Z (acc + b * 2 ^ i)%Z) as [v [Hv [Hval Hbound]]]; [lia|lia|lia|].
        exists v. split; [assumption|]. split.
        + rewrite Hval. rewrite N2Z.inj_add. rewrite Z2N.inj_add by lia.
          assert (Z.of_N (N.shiftl (b2n (t r)) (Z.to_N i)) = (b * 2 ^ i)%Z) as ->.
          { rewrite N.shiftl_mul_pow2, N2Z.inj_mul, N2Z.inj_pow, Z2N.id by lia.
            subst b. unfold b2n. destruct (t r); reflexivity. }
          change (Z.to_N 1) with 1%N. lia.
        + rewrite Nat2Z.inj_succ. replace (i + Z.succ (Z.of_nat (List.length l)))%Z with (i + 1 + Z.of_nat (List.length l))%Z by lia. assumption.
    Qed.

    Definition rowmaskZ (r : irow) : Z := Z.of_N (rowmask irow ts 0 r).

    Lemma ev_bitset f self g r :
      EV (6 + f) false self g (irow_row r) (BitSet conds) = Some (VInt (rowmaskZ r)).
    Proof.
      change (6 + f)%nat with (S (5 + f)). rewrite ev_BitSet, ev_conds.
      destruct (bitset_sum_mask ts r 0%Z 0%Z) as [v [Hv [Hval _]]]; [lia|cbn; lia| |].
      - subst ts. rewrite map_length. lia.
      - rewrite Hv, Hval. reflexivity.
    Qed.

    Lemma rowmaskZ_bit r k : (0 <= k)%Z ->
      Z.testbit (rowmaskZ r) k = match nth_error ts (Z.to_nat k) with Some t => t r | None => false end.
    Proof.
      intros Hk. unfold rowmaskZ. rewrite Z.testbit_of_N' by assumption.
      rewrite rowmask_testbit. rewrite N.sub_0_r, Z_N_nat.
      destruct (nth_error ts (Z.to_nat k)); [|reflexivity].
      assert (H0 : (0 <=? Z.to_N k)%N = true) by (apply N.leb_le; lia). now rewrite H0.
    Qed.

    (* groupBitOr: below bit 64, the bit k of the result is the or of the bits k of the values *)
    Lemma bitor_fold_bits (zs : list Z) : forall acc,
      exists v, bitor_fold (map VInt zs) acc = Some (VInt v)
                /\ forall k, (0 <= k < 64)%Z -> Z.testbit v k = Z.testbit acc k || existsb (fun z => Z.testbit z k) zs.
    Proof.
      induction zs as [|z zs IH]; intros acc; cbn [map bitor_fold existsb].
      - exists acc. split; [reflexivity|]. intros k _. now rewrite orb_false_r.
      - destruct (IH (Z.lor acc (u64 z))) as [v [Hv Hbits]]. exists v. split; [assumption|].
        intros k Hk. rewrite (Hbits k Hk), Z.lor_spec. unfold u64.
        rewrite Z.mod_pow2_bits_low by lia. now rewrite orb_assoc.
    Qed.

    Lemma land_pow2_Z b i : (0 <= i)%Z -> negb (Z.land b (2 ^ i) =? 0)%Z = Z.testbit b i.
    Proof.
      intros Hi. destruct (Z.testbit b i) eqn:E.
      - apply negb_true_iff, Z.eqb_neq. intros H.
        assert (T : Z.testbit (Z.land b (2 ^ i)) i = true) by (rewrite Z.land_spec, E, Z.pow2_bits_true by assumption; reflexivity).
        rewrite H, Z.bits_0 in T. discriminate.
      - apply negb_false_iff, Z.eqb_eq. apply Z.bits_inj_0. intros k. rewrite Z.land_spec.
        destruct (Z.eq_dec k i) as [->|Hne]; [now rewrite E|].
        destruct (Z.neg_nonneg_cases k) as [Hneg|Hnn]; [now rewrite !Z.testbit_neg_r by assumption|].
        rewrite Z.pow2_bits_false by (try assumption; congruence). apply andb_false_r.
    Qed.

    Lemma u64_shl64 idx : (idx < 64)%nat -> u64 (shl64 idx) = (2 ^ Z.of_nat idx)%Z.
    Proof.
      intros H. unfold shl64, u64.
      assert (Hp : (0 < 2 ^ Z.of_nat idx < 2 ^ 64)%Z) by (split; [apply Z.pow_pos_nonneg; lia|apply Z.pow_lt_mono_r; lia]).
      rewrite (Z.mod_small (2 ^ Z.of_nat idx)) by lia.
      destruct (Z.ltb_spec (2 ^ Z.of_nat idx) (2 ^ 63)) as [Hlt|Hge].
      - apply Z.mod_small. lia.
      - replace (2 ^ Z.of_nat idx - 2 ^ 64)%Z with (2 ^ Z.of_nat idx + (-1) * 2 ^ 64)%Z by lia.
        rewrite Z.mod_add by lia. apply Z.mod_small. lia.
    Qed.

    Lemma vcmp_neq0 z : vcmp ONeq (VInt z) (VInt 0) = Some (vbool (negb (z =? 0)%Z)).
    Proof.
      unfold vcmp. cbn [is_null orb vleb]. f_equal. apply vbool_inj. f_equal.
      destruct (Z.leb_spec z 0), (Z.leb_spec 0 z), (Z.eqb_spec z 0); cbn; try reflexivity; lia.
    Qed.

    (* the alias that HAVING itself defines *)
    Hypothesis al_bs : lookup_alias "bsCond" al = Some (GroupBitOr (BitSet conds) "").

    Lemma ev_bitset_all f self (l : list irow) :
      all_some (map (fun x => EV (6 + f) false self [] (irow_row x) (BitSet conds)) l) = Some (map VInt (map rowmaskZ l)).
    Proof. induction l as [|r rs IH]; [reflexivity|]. cbn [map all_some]. now rewrite ev_bitset, IH. Qed.

    Lemma existsb_rowmask k (l : list irow) : (0 <= k)%Z ->
      existsb (fun z => Z.testbit z k) (map rowmaskZ l) =
      match nth_error ts (Z.to_nat k) with Some t => existsb t l | None => false end.
    Proof.
      intros Hk. induction l as [|r rs IH]; cbn [map existsb].
      - destruct (nth_error ts (Z.to_nat k)); reflexivity.
      - rewrite IH, rowmaskZ_bit by lia. destruct (nth_error ts (Z.to_nat k)); reflexivity.
    Qed.

    Variable rows : list irow.
    Let g : list row := map irow_row rows.

    Lemma ev_groupbitor f self r0 a :
      exists v, EV (7 + f) true self g r0 (GroupBitOr (BitSet conds) a) = Some (VInt v)
                /\ forall k, (0 <= k < 64)%Z ->
                             Z.testbit v k = match nth_error ts (Z.to_nat k) with Some t => existsb t rows | None => false end.
    Proof.
      change (7 + f)%nat with (S (6 + f)). rewrite ev_GroupBitOr. subst g. rewrite map_map.
      rewrite ev_bitset_all. destruct (bitor_fold_bits (map rowmaskZ rows) 0%Z) as [v [Hv Hbits]].
      exists v. split; [assumption|]. intros k Hk. rewrite (Hbits k Hk), Z.bits_0. cbn [orb].
      apply existsb_rowmask. lia.
    Qed.

    Lemma ev_leaf f idx left r0 :
      left = GroupBitOr (BitSet conds) "bsCond" \/ left = Id "bsCond" -> (idx < 64)%nat ->
      EV (10 + f) true "" g r0 (LOp ONeq [BitAnd left (IntV (shl64 idx)); IntV 0]) =
      Some (vbool (match nth_error ts idx with Some t => existsb t rows | None => false end)).
    Proof.
      intros Hleft Hidx.
      change (10 + f)%nat with (S (S (S (7 + f)))). set (n := (7 + f)%nat).
      assert (HL : exists v, EV (S n) true "" g r0 left = Some (VInt v)
                     /\ forall k, (0 <= k < 64)%Z ->
                                  Z.testbit v k = match nth_error ts (Z.to_nat k) with Some t => existsb t rows | None => false end).
      { destruct Hleft as [-> | ->].
        - subst n. change (S (7 + f)) with (7 + (1 + f))%nat. apply ev_groupbitor.
        - rewrite ev_Id_agg. change (String.eqb "bsCond" "") with false. cbv iota. rewrite al_bs. subst n. apply ev_groupbitor. }
      destruct HL as [v [Hv Hbits]].
      change ONeq with (lop_of CNeq).
      rewrite (ev_LOp_cmp _ _ _ _ _ CNeq _ _ eq_refl). rewrite ev_BitAnd, Hv, !ev_IntV.
      cbn [lop_of]. rewrite vcmp_neq0. f_equal. apply vbool_inj.
      rewrite u64_shl64 by assumption. rewrite land_pow2_Z by lia.
      unfold u64. rewrite Z.mod_pow2_bits_low by lia. rewrite Hbits by lia. now rewrite Nat2Z.id.
    Qed.

    Fixpoint cond_depth (c : condition) : nat :=
      match c with CTerm _ => O | CBin _ l r => S (Nat.max (cond_depth l) (cond_depth r)) end.

    Lemma nth_ts i : nth_error ts i = option_map (fun t => tsem t) (nth_error terms i).
    Proof. subst ts. apply nth_error_map. Qed.

    (* T2: the HAVING tree built by getCond, evaluated over the rows of one span, is the analysed condition *)
    Theorem ev_cond c : forall aliased f r0,
      cond_wf (List.length terms) c ->
      EV (cond_depth c + 10 + f) true "" g r0 (fst (get_cond conds c aliased)) = Some (vbool (csem terms rows c)).
    Proof.
      induction c as [idx|op l IHl r IHr]; intros aliased f r0 Hwf; cbn [cond_wf cond_depth get_cond cond_sem fst] in *.
      - change (0 + 10 + f)%nat with (10 + f)%nat.
        rewrite (ev_leaf f idx (if aliased then Id "bsCond" else GroupBitOr (BitSet conds) "bsCond") r0);
          [|destruct aliased; [right|left]; reflexivity|lia].
        rewrite nth_ts. destruct (nth_error terms idx); reflexivity.
      - destruct Hwf as [Hl Hr].
        destruct (get_cond conds l aliased) as [el a1] eqn:El.
        destruct (get_cond conds r a1) as [er a2] eqn:Er. cbn [fst].
        change (S (Nat.max (cond_depth l) (cond_depth r)) + 10 + f)%nat with (S (Nat.max (cond_depth l) (cond_depth r) + 10 + f)).
        rewrite ev_LOp. cbn [map].
        replace (Nat.max (cond_depth l) (cond_depth r) + 10 + f)%nat
          with (cond_depth l + 10 + (f + (Nat.max (cond_depth l) (cond_depth r) - cond_depth l)))%nat at 1 by lia.
        pose proof (IHl aliased (f + (Nat.max (cond_depth l) (cond_depth r) - cond_depth l))%nat r0 Hl) as H1.
        rewrite El in H1. cbn [fst] in H1. rewrite H1.
        replace (Nat.max (cond_depth l) (cond_depth r) + 10 + f)%nat
          with (cond_depth r + 10 + (f + (Nat.max (cond_depth l) (cond_depth r) - cond_depth r)))%nat by lia.
        pose proof (IHr a1 (f + (Nat.max (cond_depth l) (cond_depth r) - cond_depth r))%nat r0 Hr) as H2.
        rewrite Er in H2. cbn [fst] in H2. rewrite H2.
        cbn [all_some]. destruct op; cbn [map]; rewrite !truth_vbool; cbn [all_some]; rewrite ?and3_2, ?or3_2; reflexivity.
    Qed.

    (* as it stands in the statement: AndHaving wraps the tree into a one-element "and" *)
    Corollary ev_having c f r0 :
      cond_wf (List.length terms) c ->
      EV (S (cond_depth c + 10 + f)) true "" g r0 (LOp OAnd [fst (get_cond conds c false)]) = Some (vbool (csem terms rows c)).
    Proof.
      intros Hwf. rewrite ev_LOp. cbn [map]. rewrite (ev_cond c false f r0 Hwf). cbn [all_some map].
      rewrite truth_vbool. cbn [all_some]. destruct (csem terms rows c); reflexivity.
    Qed.
  End ROW.
End EV.
