(* C01: liveness of the WRAPPED system (with ConfirmSeries, model/PushConfirm.v) -- the scheduler next_act_c never gets
   stuck, every step it takes decreases the variant mu_c = mu + (pushes that have neither answered nor confirmed), and the
   schedule ends with every push answered, every worker empty, and the confirmations matching the answers. *)
From Coq Require Import List NArith ZArith Bool Lia.
From Qryn Require Import model.Ingest model.PushHandler model.IngestSpec model.PushConfirm model.IngestSched model.IngestConfirmSched
  proofs.IngestBase proofs.IngestAck proofs.IngestSpecProofs proofs.IngestHandler proofs.IngestLive proofs.IngestLiveAll
  proofs.IngestConfirm proofs.IngestConfirmInv proofs.IngestShapes.
Import ListNotations.

(* ---------------------------------------------------------------- ConfirmSeries does not panic on safe requests *)
Lemma series_keys_safe l : Forall (fun sp => confirm_safe (sp_kind sp) (sp_req sp) = true) l -> series_keys (reqs_of l) <> None.
Proof.
  induction 1 as [|sp l Hs _ IH]; [cbn; intros X; discriminate X|]. unfold confirm_safe in Hs.
  unfold reqs_of in *. cbn [map series_keys].
  destruct (sp_kind sp); try exact IH. destruct (confirm_keys (sp_req sp)); [|discriminate].
  destruct (series_keys (map (fun sp0 => (sp_kind sp0, sp_req sp0)) l)); [intros X; discriminate X|contradiction].
Qed.
Lemma wf_confirm_safe k r : wf_reqb k r = true -> confirm_safe k r = true.
Proof.
  intros H. unfold confirm_safe. destruct k; try reflexivity.
  destruct (IngestShapes.tables_reach_no_panic _ _ H) as [_ B]. now rewrite (B eq_refl).
Qed.

(* ---------------------------------------------------------------- the extra term of the variant *)
Lemma unconf_upd conf l : forall h0 i hd hd', nth_error l i = Some hd -> (h_answer hd' = None -> h_answer hd = None) ->
  unconf conf h0 (upd i hd' l) <= unconf conf h0 l.
Proof.
  induction l as [|x l IH]; intros h0 i hd hd' Hi Ha; [destruct i; discriminate|]. destruct i as [|i]; cbn in Hi |- *.
  - inversion Hi; subst x. destruct (h_answer hd') eqn:E; [lia|]. rewrite (Ha eq_refl). lia.
  - specialize (IH (S h0) i hd hd' Hi Ha). lia.
Qed.
Lemma unconf_add conf x l : forall h0, unconf (x :: conf) h0 l <= unconf conf h0 l.
Proof.
  induction l as [|y l IH]; intros h0; cbn [unconf]; [lia|]. specialize (IH (S h0)). rewrite mem_nat_cons.
  destruct (h_answer y); [lia|]. destruct (Nat.eqb h0 x); cbn [orb]; [destruct (mem_nat h0 conf); lia|]. destruct (mem_nat h0 conf); lia.
Qed.
Lemma unconf_confirm conf l : forall h0 i hd, nth_error l i = Some hd -> h_answer hd = None -> mem_nat (h0 + i) conf = false ->
  unconf ((h0 + i) :: conf) h0 l < unconf conf h0 l.
Proof.
  induction l as [|y l IH]; intros h0 i hd Hi Ha M; [destruct i; discriminate|]. destruct i as [|i]; cbn in Hi.
  - inversion Hi; subst y. rewrite Nat.add_0_r in *. cbn [unconf]. rewrite Ha, M, mem_nat_cons, Nat.eqb_refl. cbn [orb].
    pose proof (unconf_add conf h0 l (S h0)). lia.
  - cbn [unconf]. replace (h0 + S i) with (S h0 + i) in * by lia. specialize (IH (S h0) i hd Hi Ha M).
    rewrite mem_nat_cons. destruct (h_answer y); [lia|]. destruct (Nat.eqb h0 (S h0 + i)); cbn [orb]; destruct (mem_nat h0 conf); lia.
Qed.
Lemma unconf_app conf a b : forall h0, unconf conf h0 (a ++ b) = unconf conf h0 a + unconf conf (h0 + length a) b.
Proof.
  induction a as [|x a IH]; intros h0; cbn [app unconf length]; [now rewrite Nat.add_0_r|]. rewrite IH. replace (S h0 + length a) with (h0 + S (length a)) by lia. lia.
Qed.

(* a step that brings no new work does not raise it *)
Lemma internal_unconf conf g a g' es : gstep g a = Some (g', es) -> internal a = true ->
  unconf conf 0 (hs g') <= unconf conf 0 (hs g).
Proof.
  intros G I. destruct (gstep_hs _ _ _ _ G) as [[E _]|[(items & -> & _)|(h & hd & hd' & Hh & E & S)]]; [rewrite E; lia|discriminate|].
  rewrite E. eapply unconf_upd; [exact Hh|]. intros N. destruct (h_answer hd) as [b|] eqn:Ea; [|reflexivity].
  rewrite (hstep_answer_stable _ _ _ _ _ _ S Ea) in N. discriminate.
Qed.

(* ---------------------------------------------------------------- progress *)
Definition safe_state (g : gstate) : Prop := HQ confirm_safe g.

Lemma base_step c b g' es : gstep (base c) b = Some (g', es) -> (forall h, b <> GAnswer h) ->
  cstep c (CBase b) = Some ({| base := g'; fpcache := fpcache c; confirmed := confirmed c |}, map CE es).
Proof. intros G N. cbn. destruct b; try (rewrite G; reflexivity). exfalso. eapply N. reflexivity. Qed.

Theorem sched_c_progress sig db c : PI sig (base c) -> safe_state (base c) ->
  match next_act_c db c with
  | Some a => (forall b, a = CBase b -> internal b = true /\ act_live sig b = true /\
                                        (forall s ok, b = GSvc s (SDoReturn ok) -> ok = db (base c) s)) /\
              exists c' es, cstep c a = Some (c', es) /\ mu_c c' < mu_c c
  | None => all_done (base c) = true
  end.
Proof.
  intros P Q. pose proof (sched_progress sig db (base c) P) as SP. unfold next_act_c.
  destruct (next_act db (base c)) as [a|]; [|exact SP].
  destruct SP as (I1 & I2 & DB & g' & es & G & L).
  assert (GEN : forall b, a = b -> (forall h, b <> GAnswer h) ->
            (forall b0, CBase b = CBase b0 -> internal b0 = true /\ act_live sig b0 = true /\ (forall s ok, b0 = GSvc s (SDoReturn ok) -> ok = db (base c) s)) /\
            exists c' es0, cstep c (CBase b) = Some (c', es0) /\ mu_c c' < mu_c c).
  { intros b -> N. split; [intros b0 E; inversion E; subst; auto|].
    eexists _, _. split; [apply base_step; eauto|]. unfold mu_c. cbn [base confirmed].
    pose proof (internal_unconf (confirmed c) _ _ _ _ G I1). lia. }
  destruct a as [s a|s k n r sz|items|h|h i s|h i|h]; try (apply GEN; [reflexivity|intros ? ?; discriminate]).
  (* doParse of push h is past the Get() loop *)
  pose proof G as G0. cbn in G0. destruct (nth_error (hs (base c)) h) as [hd|] eqn:Hh; [|discriminate].
  destruct (h_items hd) eqn:Hit; [|discriminate]. destruct (h_answer hd) eqn:Ha; [discriminate|].
  destruct (verdict (h_subs hd)) as [ok|] eqn:Hv; [|discriminate].
  assert (ANS : forall (gate : mem_nat h (confirmed c) = true \/ ok = false),
            (forall b0, CBase (GAnswer h) = CBase b0 -> internal b0 = true /\ act_live sig b0 = true /\ (forall s ok, b0 = GSvc s (SDoReturn ok) -> ok = db (base c) s)) /\
            exists c' es0, cstep c (CBase (GAnswer h)) = Some (c', es0) /\ mu_c c' < mu_c c).
  { intros gate. split; [intros b0 E; inversion E; subst; auto|].
    exists {| base := g'; fpcache := fpcache c; confirmed := confirmed c |}, (map CE es). split.
    - cbn [cstep]. rewrite Hh, Hv. destruct gate as [M| ->]; [destruct ok; rewrite ?M|]; rewrite G; reflexivity.
    - unfold mu_c. cbn [base confirmed]. pose proof (internal_unconf (confirmed c) _ _ _ _ G I1). lia. }
  destruct ok; [|apply ANS; now right].
  destruct (mem_nat h (confirmed c)) eqn:M; [apply ANS; now left|].
  split; [intros b0 E; discriminate|].
  destruct (Q _ _ Hh) as [Qs _]. pose proof (series_keys_safe _ Qs) as K.
  destruct (series_keys (reqs_of (h_subs hd))) as [keys|] eqn:Ek; [|contradiction].
  eexists _, _. split; [cbn [cstep]; rewrite Hh, Hit, Ha, Hv, M, Ek; reflexivity|].
  unfold mu_c. cbn [base confirmed]. pose proof (unconf_confirm (confirmed c) (hs (base c)) 0 h hd Hh Ha M). cbn [Nat.add] in H. lia.
Qed.

(* the invariants the progress theorem needs are kept by the steps the scheduler takes *)
Lemma cstep_keeps sig c a c' es : PI sig (base c) -> safe_state (base c) -> cstep c a = Some (c', es) ->
  (forall b, a = CBase b -> internal b = true /\ act_live sig b = true) -> PI sig (base c') /\ safe_state (base c').
Proof.
  intros P Q Hs Hb. destruct a as [b|h].
  - destruct (cstep_base _ _ _ _ Hs) as (eb & G & _). destruct (Hb b eq_refl) as [I Lv]. split; [eapply gstep_PI; eauto|].
    eapply (HQ_step confirm_safe); [exact Q| |exact G]. destruct b; try reflexivity; discriminate.
  - destruct (confirm_as_answer _ _ _ _ Hs) as (keys & hd & _ & _ & _ & _ & _ & _ & _ & Eb & _). rewrite Eb. auto.
Qed.

Definition cinternal (a : cact) : bool := match a with CBase b => internal b | CConfirm _ => true end.

Theorem sched_c_completes sig db : forall fuel c, PI sig (base c) -> safe_state (base c) -> mu_c c <= fuel ->
  exists c' tr ces, run_sched_c db fuel c = (c', tr, ces) /\ crun c tr = Some (c', ces) /\ all_done (base c') = true /\
    forallb cinternal tr = true /\ follows db (base c) (base_trace tr) = true /\ length tr <= mu_c c.
Proof.
  induction fuel as [|f IH]; intros c P Q Hm.
  - exists c, [], []. cbn. pose proof (sched_c_progress sig db c P Q) as SP. destruct (next_act_c db c) as [a|].
    + destruct SP as (_ & c' & es & _ & L). lia.
    + split; [reflexivity|]. split; [reflexivity|]. split; [exact SP|]. split; [reflexivity|]. split; [reflexivity|cbn; lia].
  - pose proof (sched_c_progress sig db c P Q) as SP. cbn [run_sched_c]. destruct (next_act_c db c) as [a|].
    + destruct SP as (HB & c1 & e1 & Hst & L). rewrite Hst.
      destruct (cstep_keeps sig _ _ _ _ P Q Hst) as [P1 Q1]; [intros b E; destruct (HB b E) as (A & B & _); auto|].
      destruct (IH c1 P1 Q1 ltac:(lia)) as (c2 & tr & e2 & R & Hrun & D & I & F & Len). rewrite R.
      exists c2, (a :: tr), (e1 ++ e2). split; [reflexivity|]. split; [cbn; rewrite Hst, Hrun; reflexivity|]. split; [assumption|].
      split; [|split; [|cbn; lia]].
      * cbn [forallb]. rewrite I, andb_true_r. destruct a as [b|h]; [|reflexivity]. destruct (HB b eq_refl) as (A & _). exact A.
      * destruct a as [b|h]; cbn [base_trace].
        -- destruct (cstep_base _ _ _ _ Hst) as (eb & G & _). destruct (HB b eq_refl) as (_ & _ & DB).
           cbn [follows]. rewrite (follows_head _ _ _ DB), G, F. reflexivity.
        -- destruct (confirm_as_answer _ _ _ _ Hst) as (keys & hd & _ & _ & _ & _ & _ & _ & _ & Eb & _). rewrite <- Eb. exact F.
    + exists c, [], []. split; [reflexivity|]. split; [reflexivity|]. split; [exact SP|]. split; [reflexivity|]. split; [reflexivity|cbn; lia].
Qed.

(* reachable states of the wrapped system satisfy what the scheduler needs *)
Lemma crun_reach cfg n tr c ces : crun (cinit cfg n) tr = Some (c, ces) ->
  forallb (act_live (sig_of_cfg cfg)) (base_trace tr) = true -> forallb (act_q confirm_safe) (base_trace tr) = true ->
  PI (sig_of_cfg cfg) (base c) /\ safe_state (base c).
Proof.
  intros R Lv Sf. pose proof (crun_refines _ _ _ _ R) as G. cbn [cinit base] in G. split.
  - eapply reachable_PI; eauto.
  - clear Lv R. revert G Sf. generalize (base_trace tr) (base_events ces) (base c). intros tr0 es0 g0 G Sf.
    assert (H0 : HQ confirm_safe (ginit cfg n)) by apply HQ_init.
    revert H0 G. generalize (ginit cfg n). revert es0 g0. induction tr0 as [|a t IH]; intros es0 g0 g H0 G; cbn in G.
    + inversion G; subst. exact H0.
    + cbn in Sf. apply andb_true_iff in Sf as [Sa St]. destruct (gstep g a) as [[g1 e1]|] eqn:Es; [|discriminate].
      destruct (grun g1 t) as [[g2 e2]|] eqn:Er; [|discriminate]. inversion G; subst. eapply IH; [exact St| |exact Er].
      eapply (HQ_step confirm_safe); eauto.
Qed.

(* From every state the wrapped system reaches by a trace without Stop whose sub-requests are routed, do not make
   ProcessRequest panic and do not make ConfirmSeries panic, for every policy of INSERT outcomes: a schedule of at most
   mu_c system steps (no new work) ends with every worker empty and every push answered; there, a push answered success
   has confirmed its series and a push answered an error has not; every push has exactly one answer in the whole log. *)
Theorem wrapped_system_completes cfg n tr c ces (db : gstate -> nat -> bool) :
  crun (cinit cfg n) tr = Some (c, ces) ->
  forallb (act_live (sig_of_cfg cfg)) (base_trace tr) = true -> forallb (act_q confirm_safe) (base_trace tr) = true ->
  exists tr' c' ces', crun c tr' = Some (c', ces') /\ forallb cinternal tr' = true /\ follows db (base c) (base_trace tr') = true /\
    length tr' <= mu_c c /\
    all_done (base c') = true /\
    (forall h hd, nth_error (hs (base c')) h = Some hd ->
       (h_answer hd = Some true -> mem_nat h (confirmed c') = true) /\ (h_answer hd = Some false -> mem_nat h (confirmed c') = false)) /\
    one_answer_b (base_events (ces ++ ces')) = true.
Proof.
  intros R Lv Sf. destruct (crun_reach _ _ _ _ _ R Lv Sf) as [P Q].
  destruct (sched_c_completes _ db (mu_c c) c P Q (le_n _)) as (c' & tr' & ces' & _ & R' & D & I & F & Len).
  exists tr', c', ces'. split; [assumption|]. split; [assumption|]. split; [assumption|]. split; [assumption|]. split; [assumption|].
  assert (Rall : crun (cinit cfg n) (tr ++ tr') = Some (c', ces ++ ces')).
  { clear - R R'. revert R. generalize (cinit cfg n). revert ces. induction tr as [|a t IH]; intros ces c0 R; cbn in R.
    - inversion R; subst. exact R'.
    - cbn. destruct (cstep c0 a) as [[c1 e1]|]; [|discriminate]. destruct (crun c1 t) as [[c2 e2]|] eqn:Er; [|discriminate].
      inversion R; subst. rewrite (IH _ _ Er). now rewrite app_assoc. }
  split.
  - intros h hd Hh. destruct (confirmation_matches_the_answer _ _ _ _ _ Rall _ _ Hh) as (A & B & _). auto.
  - pose proof (crun_refines _ _ _ _ Rall) as G. cbn [cinit base] in G. eapply one_answer_holds; eauto.
Qed.

(* ---------------------------------------------------------------- non-vacuity *)
(* the state of live_demo (an open push behind a failed INSERT) in the wrapped system: variant 43 = 42 + 1 for the push
   that has not confirmed.  When the database accepts every INSERT the schedule runs the confirmation loop (series row 5
   enters the cache) and then answers success; when it refuses every INSERT the push answers an error and never confirms. *)
Example wrapped_live_demo :
  let tr := map CBase (firstn 9 demo_trace) in
  forallb (act_live (sig_of_cfg demo_cfg)) (base_trace tr) = true /\ forallb (act_q confirm_safe) (base_trace tr) = true /\
  exists c ces, crun (cinit demo_cfg 2) tr = Some (c, ces) /\ mu_c c = 43 /\
    (let '(c1, tr1, es1) := run_sched_c (fun _ _ => true) (mu_c c) c in
       all_done (base c1) = true /\ length tr1 = 16 /\ confirmed c1 = [0] /\ fpcache c1 = [5%N] /\
       confirm_events es1 = [(0, [5%N])] /\
       In (EAnswer 0 [(KSeries, table_of 4 [5%N]); (KSamples, table_of 5 [1%N; 2%N])] true) (base_events es1)) /\
    (let '(c2, tr2, es2) := run_sched_c (fun _ _ => false) (mu_c c) c in
       all_done (base c2) = true /\ confirmed c2 = [] /\ fpcache c2 = [] /\
       In (EAnswer 0 [(KSeries, table_of 4 [5%N]); (KSamples, table_of 5 [1%N; 2%N])] false) (base_events es2)).
Proof.
  cbv zeta. split; [vm_compute; reflexivity|]. split; [vm_compute; reflexivity|].
  destruct (crun (cinit demo_cfg 2) (map CBase (firstn 9 demo_trace))) as [[c ces]|] eqn:E; [|vm_compute in E; discriminate].
  exists c, ces. split; [reflexivity|]. vm_compute in E. inversion E; subst. clear E.
  split; [vm_compute; reflexivity|]. split.
  - vm_compute. split; [reflexivity|]. split; [reflexivity|]. split; [reflexivity|]. split; [reflexivity|]. split; [reflexivity|].
    repeat (first [left; reflexivity|right]).
  - vm_compute. split; [reflexivity|]. split; [reflexivity|]. split; [reflexivity|]. repeat (first [left; reflexivity|right]).
Qed.
