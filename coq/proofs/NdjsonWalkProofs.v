(* Proofs about model/NdjsonWalk.v: bulk bodies and Cloudflare lines written by a client are walked into the records they
   were written from (property C03). *)
From Coq Require Import List ZArith NArith Bool Ascii String Lia.
From Qryn Require Import gen.DecodeConsts model.Decode proofs.DecodeProofs model.LokiLabels model.LokiTime model.LokiJson model.NdjsonWalk.
Import ListNotations.
Open Scope Z_scope.

(* ---------------------------------------------------------------- Elasticsearch bulk *)
(* an index / create action line with its document line: the action object has any members, the document ANY members
   (fields named index / create / update / delete included) *)
Record wpair := WP { wp_create : bool; wp_atext : string; wp_ams : list (string * jv); wp_dtext : string; wp_dms : list (string * jv) }.
Definition wp_lines (w : wpair) : list (string * option jv) :=
  [(wp_atext w, Some (JObj [((if wp_create w then "create" else "index")%string, JObj (wp_ams w))]));
   (wp_dtext w, Some (JObj (wp_dms w)))].
Definition wp_eslines (target : string) (w : wpair) : list esline :=
  [EL (wp_atext w) (EsSet (es_action_labels target (wp_ams w))); EL (wp_dtext w) EsDoc].

Lemma es_walk_pairs target : forall ws,
  es_walk target false (flat_map wp_lines ws) = Some (flat_map (wp_eslines target) ws).
Proof.
  induction ws as [|w ws IH]; [reflexivity|].
  cbn [flat_map]. unfold wp_lines at 1. cbn [app es_walk snd fst].
  unfold es_line. cbn [snd fst].
  assert (Hm : es_members target [((if wp_create w then "create" else "index")%string, JObj (wp_ams w))] = Some (EsSet (es_action_labels target (wp_ams w)))).
  { destruct (wp_create w); reflexivity. }
  rewrite Hm. cbn [option_map el_kind]. rewrite IH. reflexivity.
Qed.

Lemma es_action_labels_nonempty target ams : es_action_labels target ams <> [].
Proof. unfold es_action_labels. cbn [app]. discriminate. Qed.

Lemma es_entry_lines_pairs target : forall ws bf,
  es_entry_lines bf (flat_map (wp_eslines target) ws) = map (fun w => (es_action_labels target (wp_ams w), wp_dtext w)) ws.
Proof.
  induction ws as [|w ws IH]; intro bf; [reflexivity|].
  cbn [flat_map map]. unfold wp_eslines at 1. cbn [app es_entry_lines].
  unfold es_is_entry. cbn [el_kind app].
  rewrite (last_action_snoc bf (EL (wp_atext w) (EsSet (es_action_labels target (wp_ams w)))) []). cbn [el_kind].
  destruct (es_action_labels target (wp_ams w)) as [|kv lb] eqn:E; [exfalso; exact (es_action_labels_nonempty _ _ E)|].
  cbn [negb app]. f_equal. apply IH.
Qed.

(* ---------------------------------------------------------------- Cloudflare *)
Definition cf_known (k : string) : bool :=
  cf_str_key k || String.eqb k "EventTimestampMs" || String.eqb k "When" || String.eqb k "ActionResult".
Lemma cf_members_unknown : forall extra l, forallb (fun kv => negb (cf_known (fst kv))) extra = true -> cf_members extra l = Some l.
Proof.
  induction extra as [|[k v] r IH]; intros l H; [reflexivity|].
  cbn [forallb fst] in H. apply andb_prop in H. destruct H as [Hk Hr]. apply negb_true_iff in Hk.
  unfold cf_known in Hk. apply orb_false_iff in Hk. destruct Hk as [Hk H4]. apply orb_false_iff in Hk. destruct Hk as [Hk H3].
  apply orb_false_iff in Hk. destruct Hk as [H1 H2].
  cbn [cf_members cf_member]. rewrite H1, H2, H3, H4. apply IH. exact Hr.
Qed.

(* a line as a Worker trace event is written: an optional millisecond timestamp, script name, outcome, event type, an optional
   action result, any members the decoder does not know *)
Record wcf := WCF { wc_text : string; wc_ms : option Z; wc_script : string; wc_outcome : string; wc_event : string;
                    wc_actres : option bool; wc_extra : list (string * jv) }.
Definition wcf_doc (ints : Z -> N) (w : wcf) : jv :=
  JObj ((match wc_ms w with Some z => [("EventTimestampMs"%string, JNum (ints z) (Some z))] | None => [] end) ++
        [("ScriptName"%string, JStr (wc_script w)); ("Outcome"%string, JStr (wc_outcome w)); ("EventType"%string, JStr (wc_event w))] ++
        (match wc_actres w with Some b => [("ActionResult"%string, JBool b)] | None => [] end) ++ wc_extra w).
Definition wcf_line (w : wcf) : cfline :=
  CF (wc_text w) (wc_script w) (wc_outcome w) (wc_event w) (match wc_ms w with Some z => wrap64 (z * 1000000) | None => 0 end)
     (wc_actres w) "" "" "".

Lemma cf_line_written ints w : forallb (fun kv => negb (cf_known (fst kv))) (wc_extra w) = true ->
  cf_line (wc_text w, Some (wcf_doc ints w)) = Some (wcf_line w).
Proof.
  intro H. unfold cf_line, wcf_doc, wcf_line. cbn [snd fst].
  destruct (wc_ms w) as [z|], (wc_actres w) as [b|]; cbn [app cf_members cf_member cf_str_key String.eqb Ascii.eqb Bool.eqb orb cf_set_str cf_set_ts
    cf_text cf_script cf_outcome cf_event cf_ts cf_actres cf_acttype cf_actor cf_restype];
    rewrite (cf_members_unknown _ _ H); reflexivity.
Qed.

Lemma all_some_map' : forall (A B C : Type) (f : B -> option C) (g : A -> B) (h : A -> C) (l : list A),
  (forall x, In x l -> f (g x) = Some (h x)) -> all_some f (map g l) = Some (map h l).
Proof.
  intros A B C f g h. induction l as [|x l IH]; intro H; [reflexivity|].
  cbn [map all_some]. rewrite (H x (or_introl eq_refl)). rewrite IH; [reflexivity|].
  intros y Hy. apply H. right. exact Hy.
Qed.

Lemma cf_lines_written ints ws : Forall (fun w => forallb (fun kv => negb (cf_known (fst kv))) (wc_extra w) = true) ws ->
  all_some cf_line (map (fun w => (wc_text w, Some (wcf_doc ints w))) ws) = Some (map wcf_line ws).
Proof.
  intro H. apply all_some_map'. intros w Hw. apply cf_line_written. rewrite Forall_forall in H. exact (H w Hw).
Qed.
