(* Gregorian calendar from days since 1970-01-01 (Go's time.Format("2006-01-02") on a UTC time).
   Algorithm: Howard Hinnant's civil_from_days, valid for all Z days. *)
From Coq Require Import ZArith String.
From Qryn Require Import lib.Strs.
Open Scope Z_scope.

Definition civil_from_days (d : Z) : Z * Z * Z :=
  let z := d + 719468 in
  let era := z / 146097 in
  let doe := z - era * 146097 in
  let yoe := (doe - doe / 1460 + doe / 36524 - doe / 146096) / 365 in
  let y := yoe + era * 400 in
  let doy := doe - (365 * yoe + yoe / 4 - yoe / 100) in
  let mp := (5 * doy + 2) / 153 in
  let dd := doy - (153 * mp + 2) / 5 + 1 in
  let m := if mp <? 10 then mp + 3 else mp - 9 in
  (if m <=? 2 then y + 1 else y, m, dd).

(* "2006-01-02" for years 0..9999 *)
Definition date_string (day : Z) : string :=
  let '(y, m, d) := civil_from_days day in
  (dec_pad 4 (Z.to_N y) ++ "-" ++ dec_pad 2 (Z.to_N m) ++ "-" ++ dec_pad 2 (Z.to_N d))%string.

(* day number of a unix time given in seconds (floor division: also right before 1970) *)
Definition day_of_seconds (s : Z) : Z := s / 86400.
