(* Decimal parsing, left inverse of the decimal printers of lib/Strs.v: string_of_N and string_of_Z are
   injective, their output is a non-empty string of digits.  Everything here is executable. *)
From Coq Require Import List ZArith NArith String Ascii Bool Lia.
From Qryn Require Import lib.Strs.
Open Scope string_scope.

(* value of a decimal digit; None when the byte is not a digit *)
Definition digit_val (c : ascii) : option N :=
  let n := N_of_ascii c in if (N.leb 48 n && N.leb n 57)%bool then Some (n - 48)%N else None.

(* value of a decimal digit string on top of an accumulator: None when a byte is not a digit *)
Fixpoint N_of_dec_aux (s : string) (acc : N) : option N :=
  match s with
  | EmptyString => Some acc
  | String c r => match digit_val c with Some d => N_of_dec_aux r (10 * acc + d)%N | None => None end
  end.

(* None when empty or when a byte is not a digit *)
Definition N_of_dec (s : string) : option N :=
  match s with EmptyString => None | _ => N_of_dec_aux s 0%N end.

(* optional leading "-", then N_of_dec; "-0" reads as 0 *)
Definition Z_of_dec (s : string) : option Z :=
  match s with
  | EmptyString => None
  | String c r =>
      if Ascii.eqb c "-"%char
      then match N_of_dec r with Some n => Some (Z.opp (Z.of_N n)) | None => None end
      else match N_of_dec s with Some n => Some (Z.of_N n) | None => None end
  end.

Fixpoint all_digits (s : string) : bool :=
  match s with
  | EmptyString => true
  | String c r => match digit_val c with Some _ => all_digits r | None => false end
  end.

(* ---------- one digit ---------- *)
Lemma digit_val_digit_char r : (r < 10)%N -> digit_val (digit_char r) = Some r.
Proof.
  intros H.
  assert (r = 0 \/ r = 1 \/ r = 2 \/ r = 3 \/ r = 4 \/ r = 5 \/ r = 6 \/ r = 7 \/ r = 8 \/ r = 9)%N as D by lia.
  repeat (destruct D as [-> | D]; [reflexivity|]). subst r. reflexivity.
Qed.

(* ---------- the printer, any fuel ---------- *)
Lemma N_dec_aux_ne fuel : forall n acc, acc <> "" -> N_dec_aux fuel n acc <> "".
Proof.
  induction fuel as [|f IH]; intros n acc H; cbn [N_dec_aux]; [assumption|].
  destruct (N.eqb (n / 10) 0); [discriminate|]. apply IH. discriminate.
Qed.

Lemma N_dec_aux_digits fuel : forall n acc, all_digits acc = true -> all_digits (N_dec_aux fuel n acc) = true.
Proof.
  induction fuel as [|f IH]; intros n acc H; cbn [N_dec_aux]; [assumption|].
  assert (all_digits (String (digit_char (n mod 10)) acc) = true) as H'.
  { cbn [all_digits]. rewrite digit_val_digit_char by (apply N.mod_lt; discriminate). assumption. }
  destruct (N.eqb (n / 10) 0); [assumption|]. apply IH. assumption.
Qed.

(* ---------- the printer, enough fuel: read back ---------- *)
Lemma N_dec_aux_read fuel : forall n acc, (n < 2 ^ N.of_nat fuel)%N ->
  exists p, forall k, N_of_dec_aux (N_dec_aux fuel n acc) k = N_of_dec_aux acc (k * p + n)%N.
Proof.
  induction fuel as [|f IH]; intros n acc Hn.
  - exists 1%N. intros k. cbn [N_dec_aux]. change (2 ^ N.of_nat 0)%N with 1%N in Hn. f_equal. lia.
  - rewrite Nat2N.inj_succ, N.pow_succ_r' in Hn.
    cbn [N_dec_aux].
    pose proof (N.div_mod n 10 ltac:(discriminate)) as Hdm.
    pose proof (N.mod_lt n 10 ltac:(discriminate)) as Hr.
    set (q := (n / 10)%N) in *. set (r := (n mod 10)%N) in *.
    destruct (N.eqb_spec q 0) as [Hq | Hq].
    + exists 10%N. intros k. cbn [N_of_dec_aux]. rewrite digit_val_digit_char by assumption. f_equal. lia.
    + destruct (IH q (String (digit_char r) acc)) as [p Hp]; [lia|].
      exists (10 * p)%N. intros k. rewrite Hp. cbn [N_of_dec_aux]. rewrite digit_val_digit_char by assumption.
      f_equal. lia.
Qed.

Lemma string_of_N_fuel n : (n < 2 ^ N.of_nat (S (N.to_nat (N.log2 n))))%N.
Proof.
  rewrite Nat2N.inj_succ, N2Nat.id.
  destruct n as [|p]; [reflexivity|]. apply N.log2_spec. reflexivity.
Qed.

(* ---------- string_of_N ---------- *)
Lemma string_of_N_nonempty n : string_of_N n <> "".
Proof.
  unfold string_of_N. cbn [N_dec_aux]. destruct (N.eqb (n / 10) 0); [discriminate|]. apply N_dec_aux_ne. discriminate.
Qed.

Lemma string_of_N_digits n : all_digits (string_of_N n) = true.
Proof. unfold string_of_N. apply N_dec_aux_digits. reflexivity. Qed.

Lemma N_of_dec_string_of_N n : N_of_dec (string_of_N n) = Some n.
Proof.
  pose proof (string_of_N_nonempty n) as Hne.
  assert (N_of_dec_aux (string_of_N n) 0 = Some n) as H.
  { unfold string_of_N. destruct (N_dec_aux_read _ n "" (string_of_N_fuel n)) as [p Hp]. rewrite Hp. reflexivity. }
  unfold N_of_dec. destruct (string_of_N n); [congruence|assumption].
Qed.

Lemma string_of_N_inj a b : string_of_N a = string_of_N b -> a = b.
Proof.
  intros H. pose proof (N_of_dec_string_of_N a) as Ha. rewrite H, N_of_dec_string_of_N in Ha. congruence.
Qed.

Lemma string_of_N_eqb a b : String.eqb (string_of_N a) (string_of_N b) = N.eqb a b.
Proof.
  destruct (N.eqb_spec a b) as [-> | Hab].
  - apply String.eqb_refl.
  - apply String.eqb_neq. intros H. apply Hab, string_of_N_inj, H.
Qed.

(* the first byte of string_of_N is a digit, so never the sign *)
Lemma string_of_N_head n : exists c r d, string_of_N n = String c r /\ digit_val c = Some d.
Proof.
  pose proof (string_of_N_nonempty n) as Hne. pose proof (string_of_N_digits n) as Hd.
  destruct (string_of_N n) as [|c r]; [congruence|]. cbn [all_digits] in Hd.
  destruct (digit_val c) as [d|] eqn:E; [|discriminate]. exists c, r, d. split; [reflexivity|assumption].
Qed.

Lemma Z_of_dec_string_of_N n : Z_of_dec (string_of_N n) = Some (Z.of_N n).
Proof.
  pose proof (N_of_dec_string_of_N n) as Hn.
  destruct (string_of_N_head n) as [c [r [d [E Hc]]]]. rewrite E in *.
  unfold Z_of_dec. destruct (Ascii.eqb_spec c "-"%char) as [-> | _]; [discriminate Hc|].
  rewrite Hn. reflexivity.
Qed.

(* ---------- string_of_Z ---------- *)
Lemma Z_of_dec_string_of_Z z : Z_of_dec (string_of_Z z) = Some z.
Proof.
  destruct z as [|p|p]; cbn [string_of_Z].
  - reflexivity.
  - apply (Z_of_dec_string_of_N (Npos p)).
  - cbn [append]. cbn [Z_of_dec]. change (Ascii.eqb "-" "-") with true. cbv iota.
    rewrite N_of_dec_string_of_N. reflexivity.
Qed.

Lemma string_of_Z_inj a b : string_of_Z a = string_of_Z b -> a = b.
Proof.
  intros H. pose proof (Z_of_dec_string_of_Z a) as Ha. rewrite H, Z_of_dec_string_of_Z in Ha. congruence.
Qed.

Lemma string_of_Z_eqb a b : String.eqb (string_of_Z a) (string_of_Z b) = Z.eqb a b.
Proof.
  destruct (Z.eqb_spec a b) as [-> | Hab].
  - apply String.eqb_refl.
  - apply String.eqb_neq. intros H. apply Hab, string_of_Z_inj, H.
Qed.

Lemma string_of_Z_nonempty z : string_of_Z z <> "".
Proof. destruct z; cbn [string_of_Z]; [discriminate|apply string_of_N_nonempty|discriminate]. Qed.

(* ---------- examples ---------- *)
Example N_of_dec_max64 : N_of_dec "18446744073709551615" = Some 18446744073709551615%N.
Proof. vm_compute. reflexivity. Qed.
Example N_of_dec_round_trips :
  map (fun n => N_of_dec (string_of_N n)) (0 :: 7 :: 10 :: 18446744073709551615 :: nil)%N
  = map Some (0 :: 7 :: 10 :: 18446744073709551615 :: nil)%N.
Proof. vm_compute. reflexivity. Qed.
Example N_of_dec_rejects : map N_of_dec ("" :: "-1" :: "1a" :: " 1" :: "007" :: nil) = None :: None :: None :: None :: Some 7%N :: nil.
Proof. vm_compute. reflexivity. Qed.
Example Z_of_dec_examples :
  map Z_of_dec ("0" :: "-12" :: "42" :: "-" :: "" :: "--1" :: string_of_Z (-9223372036854775808) :: nil)
  = Some 0%Z :: Some (-12)%Z :: Some 42%Z :: None :: None :: None :: Some (-9223372036854775808)%Z :: nil.
Proof. vm_compute. reflexivity. Qed.
