(* String helpers shared by the SQL models: decimal printing, join, byte tests. *)
From Coq Require Import List ZArith NArith String Ascii Bool.
Import ListNotations.
Open Scope string_scope.

Definition digit_char (n : N) : ascii := ascii_of_N (48 + n).

(* decimal digits of n, most significant first; fuel = number of binary digits + 1 is enough *)
Fixpoint N_dec_aux (fuel : nat) (n : N) (acc : string) : string :=
  match fuel with
  | O => acc
  | S f => let q := N.div n 10 in let r := N.modulo n 10 in
           let acc' := String (digit_char r) acc in
           if N.eqb q 0 then acc' else N_dec_aux f q acc'
  end.
Definition string_of_N (n : N) : string := N_dec_aux (S (N.to_nat (N.log2 n))) n "".
Definition string_of_Z (z : Z) : string :=
  match z with Z0 => "0" | Zpos p => string_of_N (Npos p) | Zneg p => "-" ++ string_of_N (Npos p) end.

(* zero-padded decimal of width w (for dates) *)
Fixpoint pad_left (w : nat) (s : string) : string :=
  if Nat.leb w (String.length s) then s else
  match w with O => s | S w' => pad_left w' ("0" ++ s) end.
Definition dec_pad (w : nat) (n : N) : string :=
  let s := string_of_N n in
  (fix go (k : nat) (s : string) := match k with O => s | S k' => go k' ("0" ++ s) end) (w - String.length s) s.

Fixpoint join (sep : string) (l : list string) : string :=
  match l with [] => "" | [x] => x | x :: r => x ++ sep ++ join sep r end.

Fixpoint map_string (f : ascii -> string) (s : string) : string :=
  match s with EmptyString => EmptyString | String c r => f c ++ map_string f r end.

Definition ch (c : ascii) : string := String c EmptyString.

Fixpoint rev_s (s acc : string) : string :=
  match s with EmptyString => acc | String c r => rev_s r (String c acc) end.

(* strings.Trim(s, cutset) for a one-byte cutset *)
Fixpoint trim_left1 (x : ascii) (s : string) : string :=
  match s with String c r => if Ascii.eqb c x then trim_left1 x r else s | _ => s end.
Definition trim1 (x : ascii) (s : string) : string := rev_s (trim_left1 x (rev_s (trim_left1 x s) "")) "".

Fixpoint prefixb (p s : string) : bool :=
  match p, s with
  | EmptyString, _ => true
  | String a p', String b s' => Ascii.eqb a b && prefixb p' s'
  | _, _ => false
  end.
Fixpoint containsb (fuel : nat) (needle s : string) : bool :=
  prefixb needle s ||
  match s with EmptyString => false | String _ r => match fuel with O => false | S f => containsb f needle r end end.
Definition contains (needle s : string) : bool := containsb (String.length s) needle s.

Definition is_lower (c : ascii) : bool := let n := N_of_ascii c in (N.leb 97 n && N.leb n 122)%N.
Definition is_upper (c : ascii) : bool := let n := N_of_ascii c in (N.leb 65 n && N.leb n 90)%N.
Definition is_digit (c : ascii) : bool := let n := N_of_ascii c in (N.leb 48 n && N.leb n 57)%N.
Definition to_lower_c (c : ascii) : ascii := if is_upper c then ascii_of_N (N_of_ascii c + 32) else c.
Definition to_lower (s : string) : string := map_string (fun c => ch (to_lower_c c)) s.

Fixpoint forall_chars (p : ascii -> bool) (s : string) : bool :=
  match s with EmptyString => true | String c r => p c && forall_chars p r end.
