(* Model of the in-process LogQL engine: reader/logql/logql_transpiler_v2/internal_planner/*.go
   (every stage built by internal_planner.Plan, the channel pipeline of planner_generic.go
   WrapProcess, the bucket arrays of planner_generic_aggregator.go, hash.go) and of the batching
   of shared/planner_clickhouse_getter.go.  Executable definitions only; proofs are in
   proofs/InternalEngineProofs.v.

   A channel of []LogEntry is a list of batches (list (list entry)).  Every stage is a function
   from the list of batches it receives to the list of batches it sends.  Go maps are association
   lists kept sorted by key (lset/ldel), a nil map is None.  float64 is an abstract type V with
   abstract operations (Section variables); generated case files instantiate it with Coq's
   primitive binary64 floats.  Library calls are oracles (Section variables): the per-stage
   json/logfmt decoders, text/template evaluation, regexp matching, strconv.ParseFloat and the
   fingerprint function of hash.go (which is itself modelled below over an oracle for CityHash64). *)
From Coq Require Import List ZArith NArith Bool String Ascii.
Import ListNotations.
Open Scope Z_scope.

(* ------------------------------------------------------------------------------------------ *)
(* label maps                                                                                   *)
Definition lbls := list (string * string).

Fixpoint lget (m : lbls) (k : string) : string :=
  match m with
  | [] => EmptyString
  | (k', v) :: r => if String.eqb k k' then v else lget r k
  end.

Fixpoint lset (m : lbls) (k v : string) : lbls :=
  match m with
  | [] => [(k, v)]
  | (k', v') :: r =>
    match String.compare k k' with
    | Eq => (k, v) :: r
    | Lt => (k, v) :: m
    | Gt => (k', v') :: lset r k v
    end
  end.

Definition loverride (m kvs : lbls) : lbls := fold_left (fun a kv => lset a (fst kv) (snd kv)) kvs m.

Definition pair_eqb (a b : string * string) : bool := String.eqb (fst a) (fst b) && String.eqb (snd a) (snd b).
Fixpoint lbls_eqb (a b : lbls) : bool :=
  match a, b with
  | [], [] => true
  | x :: r, y :: r' => pair_eqb x y && lbls_eqb r r'
  | _, _ => false
  end.

Fixpoint mem_str (s : string) (l : list string) : bool :=
  match l with [] => false | x :: r => String.eqb s x || mem_str s r end.

(* strings.Contains *)
Fixpoint prefixb (p s : string) : bool :=
  match p, s with
  | EmptyString, _ => true
  | String a p', String b s' => Ascii.eqb a b && prefixb p' s'
  | _, _ => false
  end.
Fixpoint containsb (s sub : string) : bool :=
  prefixb sub s || match s with EmptyString => false | String _ s' => containsb s' sub end.

(* ------------------------------------------------------------------------------------------ *)
(* hash.go: fingerprint(labels) over an oracle for city.CH64.  uint64 arithmetic wraps.        *)
Section FINGERPRINT.
  Variable ch64 : string -> N.
  Definition m64 : N := 18446744073709551616%N.
  Definition w64 (x : N) : N := N.modulo x m64.
  (* the 8 little-endian bytes of a uint64 *)
  Fixpoint le_bytes (n : nat) (x : N) : string :=
    match n with
    | O => EmptyString
    | S n' => String (ascii_of_N (N.modulo x 256)) (le_bytes n' (N.div x 256))
    end.
  Definition descr_bytes (a b c : N) : string := (le_bytes 8 a ++ le_bytes 8 b ++ le_bytes 8 c)%string.
  (* cityhash102.Hash128to64 (Murmur-inspired mix of two 64-bit words) *)
  Definition kmul : N := 11376068507788127593%N.               (* 0x9ddfea08eb382d69 *)
  Definition h128 (u v : N) : N :=
    let a := w64 (N.lxor u v * kmul) in
    let a := N.lxor a (N.shiftr a 47) in
    let b := w64 (N.lxor v a * kmul) in
    let b := N.lxor b (N.shiftr b 47) in
    w64 (b * kmul).
  (* after the fix: key and value are hashed separately and mixed, as the writer's fingerprintLabels does
     (before it: CH64 of k ++ v, which made {a:"bc"} and {ab:"c"} one series) *)
  Definition pair_hash (kv : string * string) : N := h128 (w64 (ch64 (fst kv))) (w64 (ch64 (snd kv))).
  (* descr[0] += h; descr[1] ^= h; descr[2] *= 1779033703 + 2*h *)
  Definition fp_step (d : N * N * N) (kv : string * string) : N * N * N :=
    let '(a, b, c) := d in
    let h := pair_hash kv in
    (w64 (a + h), N.lxor b h, w64 (c * w64 (1779033703 + 2 * h)))%N.
  Definition fp_descr (m : lbls) : N * N * N := fold_left fp_step m (0, 0, 1)%N.
  Definition fingerprint (m : lbls) : N :=
    let '(a, b, c) := fp_descr m in w64 (ch64 (descr_bytes a b c)).
End FINGERPRINT.

(* ------------------------------------------------------------------------------------------ *)
(* enumerations of the operators                                                               *)
(* ENone: no error; EEof: io.EOF; EErr: any other error value; EPanic: an error entry made from a recovered panic
   ("panic: ..."); ECrash: the process died (a panic that nothing recovered)                          *)
Inductive errk := ENone | EEof | EErr | EPanic | ECrash.
Definition errk_eqb (a b : errk) : bool :=
  match a, b with ENone, ENone | EEof, EEof | EErr, EErr | EPanic, EPanic | ECrash, ECrash => true | _, _ => false end.

Inductive lf_op := LfContains | LfNotContains | LfRe | LfNotRe.          (* |=  !=  |~  !~ *)
Inductive str_op := SoEq | SoNe | SoRe | SoNre.                         (* =  !=  =~  !~ *)
Inductive cmp := CGt | CGe | CLt | CLe | CEq | CNe.
Inductive lra_fn := LRate | LCount | LBytesRate | LBytesOver | LAbsent | LOther.
Inductive uagg_fn := URate | USum | UAvg | UMax | UMin | UFirst | ULast | UOther.
Inductive aggop_fn := ASum | AMin | AMax | AAvg | ACount | AUnsupported | AOther.
Inductive lfmt_op := LFConst (label val : string) | LFCopy (label src : string).

(* result of a callback: Fail ECrash = it panicked; Fail k = it returned an error of kind k *)
Inductive res (A : Type) := Ok (a : A) | Fail (k : errk).
Arguments Ok {A} a.
Arguments Fail {A} k.

Section ENGINE.
  (* float64 *)
  Variable V : Type.
  Variables (v0 v1 : V) (vadd vdiv : V -> V -> V) (vltb vleb veqb : V -> V -> bool) (vofZ : Z -> V).
  (* how a panic inside a stage goroutine ends: true = the process dies (shared.TamePanic called from inside a
     deferred closure recovers nothing), false = TamePanic recovers it into an error entry           *)
  Variable panic_kills : bool.
  (* oracles *)
  Variable fpf : lbls -> N.                                  (* hash.go fingerprint *)
  Variable re_match : string -> string -> bool.              (* regexp.MatchString pattern subject *)
  Variable pfloat : string -> option V.                      (* strconv.ParseFloat(s, 64) *)
  Variable parse : N -> string -> option lbls.               (* parser stage id -> line -> label assignments; None = decode error *)
  Variable tmpl : N -> lbls -> option string.                (* line_format stage id -> labels incl. _entry -> rendered line *)

  Record entry := { e_ts : Z; e_fp : N; e_lbl : option lbls; e_msg : string; e_val : V; e_err : errk }.

  Definition set_lbl (e : entry) (l : option lbls) : entry :=
    {| e_ts := e_ts e; e_fp := e_fp e; e_lbl := l; e_msg := e_msg e; e_val := e_val e; e_err := e_err e |}.
  Definition set_fp (e : entry) (f : N) : entry :=
    {| e_ts := e_ts e; e_fp := f; e_lbl := e_lbl e; e_msg := e_msg e; e_val := e_val e; e_err := e_err e |}.
  Definition set_msg (e : entry) (m : string) : entry :=
    {| e_ts := e_ts e; e_fp := e_fp e; e_lbl := e_lbl e; e_msg := m; e_val := e_val e; e_err := e_err e |}.
  Definition set_val (e : entry) (v : V) : entry :=
    {| e_ts := e_ts e; e_fp := e_fp e; e_lbl := e_lbl e; e_msg := e_msg e; e_val := v; e_err := e_err e |}.
  Definition err_entry (k : errk) : entry :=
    {| e_ts := 0; e_fp := 0%N; e_lbl := None; e_msg := EmptyString; e_val := v0; e_err := k |}.
  (* a lookup in a nil Go map yields "" *)
  Definition olget (l : option lbls) (k : string) : string := match l with None => EmptyString | Some m => lget m k end.
  Definition ofp (l : option lbls) : N := fpf match l with None => [] | Some m => m end.

  Definition batches := list (list entry).

  (* ---------------------------------------------------------------------------------------- *)
  (* planner_generic.go WrapProcess: OnEntry on every entry of a batch (mutating it in place),
     OnAfterEntriesSlice once per batch, OnAfterEntries at the end of the input.  An error from a
     callback (other than io.EOF) sends one batch holding one error entry and ends the output; a
     panic does the same through TamePanic.                                                      *)
  Record ops (S : Type) := {
    on_entry : S -> entry -> res (S * entry);
    on_slice : S -> list entry -> res (S * batches);
    on_end : S -> res batches
  }.
  Arguments on_entry {S}. Arguments on_slice {S}. Arguments on_end {S}.

  Fixpoint fold_entries {S} (o : ops S) (s : S) (b : list entry) : res (S * list entry) :=
    match b with
    | [] => Ok (s, [])
    | e :: r =>
      match on_entry o s e with
      | Fail k => Fail k
      | Ok (s1, e1) =>
        match fold_entries o s1 r with
        | Fail k => Fail k
        | Ok (s2, r2) => Ok (s2, e1 :: r2)
        end
      end
    end.

  Definition fail_entry (k : errk) : entry :=
    err_entry match k with ECrash => if panic_kills then ECrash else EPanic | _ => k end.

  Fixpoint wrap {S} (o : ops S) (s : S) (bs : batches) : batches :=
    match bs with
    | [] => match on_end o s with Ok out => out | Fail k => [[fail_entry k]] end
    | b :: r =>
      match fold_entries o s b with
      | Fail k => [[fail_entry k]]
      | Ok (s1, b1) =>
        match on_slice o s1 b1 with
        | Fail k => [[fail_entry k]]
        | Ok (s2, out) => out ++ wrap o s2 r
        end
      end
    end.

  (* the state a stage goroutine ends with (None: it failed before the end of its input) *)
  Fixpoint wrap_final {S} (o : ops S) (s : S) (bs : batches) : option S :=
    match bs with
    | [] => match on_end o s with Ok _ => Some s | Fail _ => None end
    | b :: r =>
      match fold_entries o s b with
      | Fail _ => None
      | Ok (s1, b1) =>
        match on_slice o s1 b1 with
        | Fail _ => None
        | Ok (s2, _) => wrap_final o s2 r
        end
      end
    end.

  (* ---------------------------------------------------------------------------------------- *)
  (* stages that keep or drop entries: `_entries = append(_entries, *entry)` in OnEntry,
     `c <- _entries; _entries = nil` in OnAfterEntriesSlice                                       *)
  Definition filter_ops (keep : entry -> bool) : ops (list entry) := {|
    on_entry := fun acc e => Ok (if keep e then acc ++ [e] else acc, e);
    on_slice := fun acc _ => Ok ([], [acc]);
    on_end := fun _ => Ok []
  |}.
  (* stages that rewrite entries in place and forward the batch they received *)
  Definition map_ops (f : entry -> res entry) : ops unit := {|
    on_entry := fun _ e => match f e with Ok e' => Ok (tt, e') | Fail k => Fail k end;
    on_slice := fun _ b => Ok (tt, [b]);
    on_end := fun _ => Ok []
  |}.

  (* planner_line_filter.go *)
  Definition line_keep (op : lf_op) (val : string) (e : entry) : bool :=
    negb (errk_eqb (e_err e) ENone) ||
    match op with
    | LfContains => containsb (e_msg e) val
    | LfNotContains => negb (containsb (e_msg e) val)
    | LfRe => re_match val (e_msg e)
    | LfNotRe => negb (re_match val (e_msg e))
    end.

  (* planner_label_filter.go *)
  Inductive simple_filter :=
  | SfStr (op : str_op) (name val : string)
  | SfNum (op : cmp) (name : string) (val : V)
  | SfIll.            (* a string operator with a numeric literal (`| n = 5`, `| n =~ 5`): Process() refuses the stage *)
  Inductive lfilter := LF (h : lhead) (t : option (bool * lfilter))     (* true = and, false = or *)
  with lhead := HSimple (s : simple_filter) | HComplex (f : lfilter).

  Definition cmp_val (op : cmp) (x y : V) : bool :=      (* x op y *)
    match op with
    | CGt => vltb y x | CGe => vleb y x | CLt => vltb x y | CLe => vleb x y
    | CEq => veqb x y | CNe => negb (veqb x y)
    end.
  Definition simple_eval (s : simple_filter) (l : option lbls) : bool :=
    match s with
    | SfStr op name val =>
      let x := olget l name in
      match op with
      | SoEq => String.eqb val x | SoNe => negb (String.eqb val x)
      | SoRe => re_match val x | SoNre => negb (re_match val x)
      end
    | SfNum op name val =>
      let x := olget l name in
      if String.eqb x EmptyString then false
      else match pfloat x with None => false | Some f => cmp_val op f val end
    | SfIll => false
    end.
  Fixpoint lfilter_eval (f : lfilter) (l : option lbls) : bool :=
    match f with
    | LF h t =>
      let r := match h with HSimple s => simple_eval s l | HComplex g => lfilter_eval g l end in
      match t with
      | None => r
      | Some (true, g) => r && lfilter_eval g l
      | Some (false, g) => r || lfilter_eval g l
      end
    end.

  (* makeFilter: stringSimpleFilter refuses a head without a string value (after the fix; it dereferenced the nil
     *QuotedString before and the request ended in the controller's recover with status 500) *)
  Fixpoint lfilter_ok (f : lfilter) : bool :=
    match f with
    | LF h t =>
      match h with HSimple SfIll => false | HSimple _ => true | HComplex g => lfilter_ok g end &&
      match t with None => true | Some (_, g) => lfilter_ok g end
    end.

  (* after the fix an entry carrying an error passes the label filter, as it always passed the line filter *)
  Definition label_keep (f : lfilter) (e : entry) : bool :=
    negb (errk_eqb (e_err e) ENone) || lfilter_eval f (e_lbl e).

  (* planner_parser.go (after the fix): entries carrying an error pass; the decoded pairs are collected in a fresh map and
     assigned into the entry's own map only when the line decodes (a nil map is replaced by the fresh one); a line that
     does not decode keeps its labels (before the fix the decode error ended the stream); the fingerprint is recomputed    *)
  Definition parser_f (id : N) (e : entry) : res entry :=
    if negb (errk_eqb (e_err e) ENone) then Ok e
    else match parse id (e_msg e) with
         | None => Ok (set_fp e (ofp (e_lbl e)))
         | Some kvs =>
           let m' := loverride match e_lbl e with None => [] | Some m => m end kvs in
           Ok (set_fp (set_lbl e (Some m')) (fpf m'))
         end.

  (* planner_label_format.go: an entry without a label map (the closing io.EOF / error entry) is
     left alone (after the fix; before it `m[label] = str` panicked on the nil map); no error
     check otherwise; the fingerprint is recomputed (after the fix; before it the stale one was kept)   *)
  Definition lfmt_apply (m : lbls) (op : lfmt_op) : lbls :=
    match op with
    | LFConst label val => lset m label val
    | LFCopy label src => let x := lget m src in if String.eqb x EmptyString then m else lset m label x
    end.
  Definition label_format_f (fs : list lfmt_op) (e : entry) : res entry :=
    match e_lbl e with
    | None => Ok e
    | Some m => let m' := fold_left lfmt_apply fs m in Ok (set_fp (set_lbl e (Some m')) (fpf m'))
    end.

  (* planner_line_format.go: an entry whose template fails to execute is dropped *)
  Definition entry_key : string := "_entry".
  Definition line_format_ops (id : N) : ops (list entry) := {|
    on_entry := fun acc e =>
      if negb (errk_eqb (e_err e) ENone) then Ok (acc ++ [e], e) else      (* after the fix: error entries pass *)
      let l := lset match e_lbl e with None => [] | Some m => m end entry_key (e_msg e) in
      match tmpl id l with
      | None => Ok (acc, e)
      | Some s => let e' := set_msg e s in Ok (acc ++ [e'], e')
      end;
    on_slice := fun acc _ => Ok ([], [acc]);
    on_end := fun _ => Ok []
  |}.

  (* planner_unwrap.go *)
  Definition unwrap_f (label : string) (e : entry) : res entry :=
    if negb (errk_eqb (e_err e) ENone) then Ok e
    else let x := if String.eqb label entry_key then e_msg e else olget (e_lbl e) label in
         if String.eqb x EmptyString then Ok e
         else match pfloat x with None => Ok e | Some f => Ok (set_val e f) end.

  (* planner_drop.go: the fingerprint is always recomputed (after the fix; before it only when a label was removed, so an
     entry that lost nothing kept its incoming ClickHouse fingerprint and stayed apart from an entry reaching the same
     label set by a deletion) *)
  Fixpoint drop_hit (k v : string) (names vals : list string) : bool :=
    match names, vals with
    | n :: nr, x :: xr => (String.eqb k n && (String.eqb x EmptyString || String.eqb v x)) || drop_hit k v nr xr
    | _, _ => false
    end.
  Definition drop_f (names vals : list string) (e : entry) : res entry :=
    match e_lbl e with
    | None => Ok e
    | Some m =>
      let m' := filter (fun kv => negb (drop_hit (fst kv) (snd kv) names vals)) m in
      Ok (set_fp (set_lbl e (Some m')) (fpf m'))
    end.

  (* planner_by_without.go *)
  Definition bw_keep (by_ : bool) (names : list string) (k : string) : bool :=
    if by_ then mem_str k names else negb (mem_str k names).
  Definition by_without_f (by_ : bool) (names : list string) (e : entry) : res entry :=
    match e_lbl e with
    | None => Ok e
    | Some m => let m' := filter (fun kv => bw_keep by_ names (fst kv)) m in
                Ok (set_fp (set_lbl e (Some m')) (fpf m'))
    end.

  (* planner_comparison.go *)
  (* after the fix an entry carrying an error passes (it used to be compared like a data entry of value 0 and dropped) *)
  Definition comparison_keep (op : cmp) (val : V) (e : entry) : bool :=
    negb (errk_eqb (e_err e) ENone) || cmp_val op (e_val e) val.

  (* planner_limit.go (after the fix of limit = 0: forward everything, like the SQL path which
     emits no LIMIT clause for 0)                                                                *)
  (* the state is (sent, cancelled): `ctx.CancelCtx()` is called in the branch that fills the limit (the upstream
     ClickHouse query is cancelled); a negative limit sends nothing (sent >= limit from the start) and never cancels *)
  Definition limit_ops (limit : Z) : ops (Z * bool) := {|
    on_entry := fun st e => Ok (st, e);
    on_slice := fun st b =>
      let sent := fst st in
      let n := Z.of_nat (List.length b) in
      if limit =? 0 then Ok (st, [b])
      else if limit <=? sent then Ok (st, [])
      else if sent + n <? limit then Ok ((sent + n, snd st), [b])
      else Ok ((limit, true), [firstn (Z.to_nat (limit - sent)) b]);
    on_end := fun _ => Ok []
  |}.

  (* planner_fingerprint_optimizer.go ResponseOptimizerPlanner: entries regrouped by fingerprint.
     Go iterates the map in an unspecified order; the model emits the groups by ascending
     fingerprint (observations are compared after a stable sort by fingerprint).                  *)
  Definition groups := list (N * list entry).
  Fixpoint group_add (g : groups) (e : entry) : groups :=
    match g with
    | [] => [(e_fp e, [e])]
    | (f, l) :: r =>
      match N.compare (e_fp e) f with
      | Eq => (f, l ++ [e]) :: r
      | Lt => (e_fp e, [e]) :: g
      | Gt => (f, l) :: group_add r e
      end
    end.
  Definition optimizer_ops : ops (groups * Z) := {|
    on_entry := fun st e => Ok ((group_add (fst st) e, snd st + 1), e);
    on_slice := fun st _ => if snd st <? 3000 then Ok (st, []) else Ok (([], 0), map snd (fst st));
    on_end := fun st => if snd st =? 0 then Ok [] else Ok (map snd (fst st))
  |}.

  (* ---------------------------------------------------------------------------------------- *)
  (* planner_generic_aggregator.go: one bucket array per fingerprint, two cells per bucket
     (value, counter).  Indexing outside the array is a Go panic.                                *)
  Record ctx := { c_from : Z; c_to : Z; c_limit : Z }.
  Record stream := { s_labels : option lbls; s_values : list V }.
  Definition streams := list (N * stream).                    (* ascending fingerprint *)

  Definition getv (l : list V) (i : nat) : V := nth i l v0.
  Fixpoint setv (l : list V) (i : nat) (x : V) : list V :=
    match l, i with
    | [], _ => []
    | _ :: r, O => x :: r
    | y :: r, S i' => y :: setv r i' x
    end.
  (* the two cells of the bucket starting at cell index i (a Z, as computed in Go) *)
  Definition in_range (l : list V) (i : Z) : bool := (0 <=? i) && (i + 1 <? Z.of_nat (List.length l)).

  Definition bucket_upd (l : list V) (i : Z) (f : V -> V -> V * V) : res (list V) :=
    if in_range l i then
      let n := Z.to_nat i in
      let '(a, b) := f (getv l n) (getv l (S n)) in Ok (setv (setv l n a) (S n) b)
    else Fail ECrash.

  Definition lra_add (fn : lra_fn) (c : ctx) (dur : Z) (e : entry) (l : list V) : res (list V) :=
    let idx := Z.quot (e_ts e - c_from c) dur * 2 in
    match fn with
    | LRate | LCount => bucket_upd l idx (fun a _ => (vadd a v1, v1))
    | LBytesRate | LBytesOver => bucket_upd l idx (fun a _ => (vadd a (vofZ (Z.of_nat (String.length (e_msg e)))), v1))
    | LAbsent => if (0 <=? idx) && (idx <? Z.of_nat (List.length l)) then bucket_upd l idx (fun _ _ => (v0, v0)) else Ok l   (* `idx >= 0` after the fix *)
    | LOther => Ok l                                        (* the switch matches nothing: no array access *)
    end.

  Fixpoint map_even (f : V -> V -> V) (l : list V) : list V :=      (* values[i] = f values[i] values[i+1], i even *)
    match l with
    | a :: b :: r => f a b :: b :: map_even f r
    | _ => l
    end.
  (* the range in seconds, `float64(l.Duration.Nanoseconds()) / 1e9` (since the round-6 fix; it was
     `float64(l.Duration.Milliseconds()) / 1000`: the range truncated to whole milliseconds, [999us] = 0).
     dur is the range in nanoseconds; the reference semantics divides by the same number: the LogQL rate is
     per second of the range, and the ClickHouse path prints the range exactly (LogqlPlan.secs_text). *)
  Definition dur_seconds (dur : Z) : V := vdiv (vofZ dur) (vofZ 1000000000).
  (* what the code computed before the fix (kept for the refutation in the proofs, not used by the model) *)
  Definition dur_seconds_ms (dur : Z) : V := vdiv (vofZ (Z.quot dur 1000000)) (vofZ 1000).
  Definition lra_fin (fn : lra_fn) (dur : Z) (l : list V) : list V :=
    match fn with
    | LRate | LBytesRate => map_even (fun a _ => vdiv a (dur_seconds dur)) l
    | _ => l
    end.

  (* planner_unwrap_agg.go (after the fix: min_over_time keeps the smaller value; first_over_time
     keeps the first value of the bucket, whatever it is)                                         *)
  Definition uagg_add (fn : uagg_fn) (c : ctx) (dur : Z) (e : entry) (l : list V) : res (list V) :=
    let idx := Z.quot (e_ts e - c_from c) dur * 2 in
    let x := e_val e in
    match fn with
    | URate | USum => bucket_upd l idx (fun a _ => (vadd a x, v1))
    | UAvg => bucket_upd l idx (fun a n => (vadd a x, vadd n v1))
    | UMax => bucket_upd l idx (fun a n => if vltb a x || veqb n v0 then (x, v1) else (a, n))
    | UMin => bucket_upd l idx (fun a n => if vltb x a || veqb n v0 then (x, v1) else (a, n))
    | UFirst => bucket_upd l idx (fun a n => if veqb n v0 then (x, v1) else (a, n))
    | ULast => bucket_upd l idx (fun _ _ => (x, v1))
    | UOther => Ok l
    end.
  Definition uagg_fin (fn : uagg_fn) (dur : Z) (l : list V) : list V :=
    match fn with
    | URate => map_even (fun a _ => vdiv a (dur_seconds dur)) l
    | UAvg => map_even (fun a n => if veqb n v0 then a else vdiv a n) l
    | _ => l
    end.

  (* planner_agg_op.go: `if idx < 0 || idx*2 > len(values) { return }` *)
  Definition aggop_add (fn : aggop_fn) (c : ctx) (dur : Z) (e : entry) (l : list V) : res (list V) :=
    let idx := Z.quot (e_ts e - c_from c) dur in
    if (idx <? 0) || (Z.of_nat (List.length l) <? idx * 2) then Ok l
    else
      let x := e_val e in
      match fn with
      | ASum => bucket_upd l (idx * 2) (fun a _ => (vadd a x, v1))
      | AMin => bucket_upd l (idx * 2) (fun a n => if vltb x a || veqb n v0 then (x, v1) else (a, n))
      | AMax => bucket_upd l (idx * 2) (fun a n => if vltb a x || veqb n v0 then (x, v1) else (a, n))
      | AAvg => bucket_upd l (idx * 2) (fun a n => (vadd a x, vadd n v1))
      | ACount => bucket_upd l (idx * 2) (fun a _ => (vadd a v1, v1))
      | AUnsupported | AOther => Ok l
      end.
  Definition aggop_fin (fn : aggop_fn) (l : list V) : list V :=
    match fn with
    | AAvg => map_even (fun a n => if vltb v0 n then vdiv a n else a) l
    | _ => l
    end.

  Inductive agg_kind := KLra (fn : lra_fn) | KUnwrap (fn : uagg_fn) | KAggOp (fn : aggop_fn).
  Definition agg_add (k : agg_kind) := match k with KLra f => lra_add f | KUnwrap f => uagg_add f | KAggOp f => aggop_add f end.
  Definition agg_fin (k : agg_kind) (dur : Z) (l : list V) : list V :=
    match k with KLra f => lra_fin f dur l | KUnwrap f => uagg_fin f dur l | KAggOp f => aggop_fin f l end.

  (* streamLen := ctx.To.Sub(ctx.From).Nanoseconds() / p.Duration.Nanoseconds() *)
  Definition stream_len (c : ctx) (dur : Z) : Z := Z.quot (c_to c - c_from c) dur.
  (* make([]float64, streamLen*2) (+ AbsentOverTimePlanner.initStream: every cell becomes 1, and
     values[0] = 1 panics on an empty array)                                                      *)
  Definition new_values (k : agg_kind) (c : ctx) (dur : Z) : res (list V) :=
    let n := stream_len c dur * 2 in
    if n <? 0 then Fail ECrash
    else match k with
         | KLra LAbsent => if n =? 0 then Fail ECrash else Ok (repeat v1 (Z.to_nat n))
         | _ => Ok (repeat v0 (Z.to_nat n))
         end.

  Fixpoint streams_find (ss : streams) (f : N) : option stream :=
    match ss with
    | [] => None
    | (g, s) :: r => if N.eqb f g then Some s else streams_find r f
    end.
  Fixpoint streams_put (ss : streams) (f : N) (s : stream) : streams :=
    match ss with
    | [] => [(f, s)]
    | (g, s') :: r =>
      match N.compare f g with
      | Eq => (f, s) :: r
      | Lt => (f, s) :: ss
      | Gt => (g, s') :: streams_put r f s
      end
    end.

  Definition agg_on_entry (k : agg_kind) (c : ctx) (dur : Z) (ss : streams) (e : entry) : res (streams * entry) :=
    match e_err e with
    | EEof => Ok (ss, e)                                   (* `return entry.Err`, and io.EOF is not an error for WrapProcess *)
    | EErr => Fail EErr                                    (* the entry's own error value is returned and re-sent *)
    | EPanic => Fail EPanic
    | ECrash => Fail EErr
    | ENone =>
      let found := streams_find ss (e_fp e) in
      match match found with
            | Some s => Ok s
            | None =>
              if 2000 <=? Z.of_nat (List.length ss) then Fail EErr
              else match new_values k c dur with
                   | Ok vs => Ok {| s_labels := e_lbl e; s_values := vs |}
                   | Fail x => Fail x
                   end
            end with
      | Fail x => Fail x
      | Ok s =>
        match agg_add k c dur e (s_values s) with
        | Fail x => Fail x
        | Ok vs => Ok (streams_put ss (e_fp e) {| s_labels := s_labels s; s_values := vs |}, e)
        end
      end
    end.

  (* the entries of one series: one per bucket whose counter cell is > 0 *)
  Fixpoint emit (c : ctx) (dur : Z) (f : N) (lb : option lbls) (i : Z) (l : list V) : list entry :=
    match l with
    | a :: n :: r =>
      let rest := emit c dur f lb (i + 1) r in
      if vltb v0 n
      then {| e_ts := c_from c + i * dur; e_fp := f; e_lbl := lb; e_msg := EmptyString; e_val := a; e_err := ENone |} :: rest
      else rest
    | _ => []
    end.
  Definition agg_on_end (k : agg_kind) (c : ctx) (dur : Z) (ss : streams) : batches :=
    filter (fun b => negb (Nat.eqb (List.length b) 0))
           (map (fun fs => emit c dur (fst fs) (s_labels (snd fs)) 0 (agg_fin k dur (s_values (snd fs)))) ss).

  Definition agg_ops (k : agg_kind) (c : ctx) (dur : Z) : ops streams := {|
    on_entry := agg_on_entry k c dur;
    on_slice := fun ss _ => Ok (ss, []);
    on_end := fun ss => Ok (agg_on_end k c dur ss)
  |}.

  (* ---------------------------------------------------------------------------------------- *)
  (* the chain of processors built by internal_planner.Plan, innermost first *)
  Inductive stage :=
  | SLineFilter (op : lf_op) (val : string)
  | SLabelFilter (f : lfilter)
  | SParser (id : N)
  | SLabelFormat (fs : list lfmt_op)
  | SLineFormat (id : N)
  | SUnwrap (label : string)
  | SDrop (names vals : list string)
  | SByWithout (by_ : bool) (names : list string)
  | SAgg (k : agg_kind) (dur : Z)
  | SComparison (op : cmp) (val : V)
  | SLimit
  | SOptimizer.

  (* Process() of a stage; None = Process itself returns an error (nothing is started) *)
  Definition stage_plan_ok (c : ctx) (s : stage) : bool :=
    match s with
    | SAgg k dur =>
      negb (dur =? 0) && (Z.quot (c_to c - c_from c) dur <=? 100000) &&     (* 100000 range windows since 5180be1; it was 4000000000 *)
      match k with KAggOp AUnsupported => false | _ => true end
    | SLabelFilter f => lfilter_ok f
    | _ => true
    end.

  Definition run_stage (c : ctx) (s : stage) (bs : batches) : batches :=
    match s with
    | SLineFilter op val => wrap (filter_ops (line_keep op val)) [] bs
    | SLabelFilter f => wrap (filter_ops (label_keep f)) [] bs
    | SParser id => wrap (map_ops (parser_f id)) tt bs
    | SLabelFormat fs => wrap (map_ops (label_format_f fs)) tt bs
    | SLineFormat id => wrap (line_format_ops id) [] bs
    | SUnwrap label => wrap (map_ops (unwrap_f label)) tt bs
    | SDrop names vals => wrap (map_ops (drop_f names vals)) tt bs
    | SByWithout by_ names => wrap (map_ops (by_without_f by_ names)) tt bs
    | SAgg k dur => wrap (agg_ops k c dur) [] bs
    | SComparison op val => wrap (filter_ops (comparison_keep op val)) [] bs
    | SLimit => wrap (limit_ops (c_limit c)) (0, false) bs
    | SOptimizer => wrap optimizer_ops ([], 0) bs
    end.

  (* once the process has died nothing runs any more *)
  Definition has_crash (bs : batches) : bool := existsb (existsb (fun e => errk_eqb (e_err e) ECrash)) bs.
  Definition run_chain (c : ctx) (ch : list stage) (bs : batches) : batches :=
    fold_left (fun b s => if has_crash b then b else run_stage c s b) ch bs.

  (* the side effect of the limit stage: was ctx.CancelCtx called while the stage consumed bs *)
  Definition limit_cancelled (c : ctx) (bs : batches) : bool :=
    match wrap_final (limit_ops (c_limit c)) (0, false) bs with Some st => snd st | None => false end.
  Fixpoint chain_cancelled (c : ctx) (ch : list stage) (bs : batches) : bool :=
    match ch with
    | [] => false
    | s :: r =>
      if has_crash bs then false
      else (match s with SLimit => limit_cancelled c bs | _ => false end) || chain_cancelled c r (run_stage c s bs)
    end.

  (* shared/planner_clickhouse_getter.go Scan: batches of 100 rows, the last batch ends with an
     entry carrying io.EOF (nil label map)                                                        *)
  Fixpoint chunk (fuel : nat) (rows : list entry) : batches :=
    match fuel with
    | O => []
    | S f => if Nat.ltb (List.length rows) 100 then [rows ++ [err_entry EEof]]
             else firstn 100 rows :: chunk f (skipn 100 rows)
    end.
  Definition getter (rows : list entry) : batches := chunk (S (List.length rows)) rows.

  (* ---------------------------------------------------------------------------------------- *)
  (* what a consumer of the output channel sees (service/queryRangeService.go): entries carrying
     io.EOF are skipped, any other error fails the request                                        *)
  Inductive obs := ObsErr (k : errk) | ObsOk (l : list entry).
  Fixpoint first_err (l : list entry) : option errk :=
    match l with
    | [] => None
    | e :: r => match e_err e with EErr => Some EErr | EPanic => Some EPanic | ECrash => Some ECrash | _ => first_err r end
    end.
  Definition data_of (l : list entry) : list entry := filter (fun e => errk_eqb (e_err e) ENone) l.
  Definition observe (bs : batches) : obs :=
    let l := List.concat bs in
    if has_crash bs then ObsErr ECrash else
    match first_err l with Some k => ObsErr k | None => ObsOk (data_of l) end.

  (* what the client experiences: the process died / the request failed / a result *)
  Inductive outcome := OCrash | OFailed | OResult (l : list entry).
  Definition outcome_of (bs : batches) : outcome :=
    match observe bs with
    | ObsErr ECrash => OCrash
    | ObsErr _ => OFailed
    | ObsOk l => OResult l
    end.
  Definition no_crash_in (bs : batches) : Prop := has_crash bs = false.

  (* stable sort by fingerprint (canonical order of an output whose series order is unspecified) *)
  Fixpoint ins_fp (e : entry) (l : list entry) : list entry :=
    match l with
    | [] => [e]
    | x :: r => if N.ltb (e_fp e) (e_fp x) then e :: l else x :: ins_fp e r
    end.
  Definition sort_fp (l : list entry) : list entry := fold_right ins_fp [] l.

  (* ========================================================================================== *)
  (* Reference semantics ("LogQL definition", in the bucket framing both engines share): every
     stage as a function on the flat list of entries; series are identified by their label SET.   *)
  Definition sem_parser (id : N) (e : entry) : entry :=
    match parse id (e_msg e), e_lbl e with
    | Some kvs, Some m => let m' := loverride m kvs in set_fp (set_lbl e (Some m')) (fpf m')
    | _, _ => e                                              (* a line that does not decode keeps its labels *)
    end.
  Definition sem_lfmt (l : lbls) (op : lfmt_op) : lbls :=
    match op with
    | LFConst label val => lset l label val
    | LFCopy label src => let x := lget l src in if String.eqb x EmptyString then l else lset l label x
    end.
  Definition lbl_of (e : entry) : lbls := match e_lbl e with None => [] | Some m => m end.
  Definition with_lbl (e : entry) (m : lbls) : entry := set_fp (set_lbl e (Some m)) (fpf m).

  Definition sem_limit (limit : Z) (l : list entry) : list entry :=
    if limit =? 0 then l else firstn (Z.to_nat limit) l.

  (* range / vector aggregation: per label set, per bucket k (From + k*dur <= ts < From + (k+1)*dur) *)
  Definition bucket_of (c : ctx) (dur : Z) (e : entry) : Z := Z.quot (e_ts e - c_from c) dur.
  Fixpoint distinct_lbls (l : list entry) (seen : list lbls) : list lbls :=
    match l with
    | [] => rev seen
    | e :: r => if existsb (lbls_eqb (lbl_of e)) seen then distinct_lbls r seen else distinct_lbls r (lbl_of e :: seen)
    end.
  Definition vmin (a b : V) : V := if vltb b a then b else a.
  Definition vmax (a b : V) : V := if vltb a b then b else a.
  Definition vsum (l : list V) : V := fold_left vadd l v0.
  Definition vcount (l : list V) : V := fold_left (fun a _ => vadd a v1) l v0.
  Definition sem_bucket_value (k : agg_kind) (dur : Z) (es : list entry) : option V :=
    match es with
    | [] => None
    | e0 :: r =>
      let vals := map e_val es in
      match k with
      | KLra LCount => Some (vcount vals)
      | KLra LRate => Some (vdiv (vcount vals) (dur_seconds dur))
      | KLra LBytesOver => Some (vsum (map (fun e => vofZ (Z.of_nat (String.length (e_msg e)))) es))
      | KLra LBytesRate => Some (vdiv (vsum (map (fun e => vofZ (Z.of_nat (String.length (e_msg e)))) es)) (dur_seconds dur))
      | KLra _ => None
      | KUnwrap USum => Some (vsum vals)
      | KUnwrap URate => Some (vdiv (vsum vals) (dur_seconds dur))
      | KUnwrap UAvg => Some (vdiv (vsum vals) (vcount vals))
      | KUnwrap UMax => Some (fold_left vmax (map e_val r) (e_val e0))
      | KUnwrap UMin => Some (fold_left vmin (map e_val r) (e_val e0))
      | KUnwrap UFirst => Some (e_val e0)
      | KUnwrap ULast => Some (last vals (e_val e0))
      | KUnwrap UOther => None
      | KAggOp ASum => Some (vsum vals)
      | KAggOp AAvg => Some (vdiv (vsum vals) (vcount vals))
      | KAggOp AMax => Some (fold_left vmax (map e_val r) (e_val e0))
      | KAggOp AMin => Some (fold_left vmin (map e_val r) (e_val e0))
      | KAggOp ACount => Some (vcount vals)
      | KAggOp _ => None
      end
    end.
  Fixpoint sem_buckets (k : agg_kind) (c : ctx) (dur : Z) (m : lbls) (es : list entry) (i : Z) (n : nat) : list entry :=
    match n with
    | O => []
    | S n' =>
      let rest := sem_buckets k c dur m es (i + 1) n' in
      match k with
      | KLra LAbsent =>          (* absent_over_time: 1 for every bucket of a seen series that holds no entry *)
        match filter (fun e => bucket_of c dur e =? i) es with
        | [] => {| e_ts := c_from c + i * dur; e_fp := fpf m; e_lbl := Some m; e_msg := EmptyString; e_val := v1; e_err := ENone |} :: rest
        | _ :: _ => rest
        end
      | _ =>
      match sem_bucket_value k dur (filter (fun e => bucket_of c dur e =? i) es) with
      | Some v => {| e_ts := c_from c + i * dur; e_fp := fpf m; e_lbl := Some m; e_msg := EmptyString; e_val := v; e_err := ENone |} :: rest
      | None => rest
      end
      end
    end.
  (* number of buckets that can hold an entry of [From, To): ceil((To-From)/dur) *)
  Definition sem_nbuckets (c : ctx) (dur : Z) : nat := Z.to_nat (Z.quot (c_to c - c_from c + dur - 1) dur).
  Definition sem_agg (k : agg_kind) (c : ctx) (dur : Z) (l : list entry) : list entry :=
    let l := filter (fun e => (c_from c <=? e_ts e) && (e_ts e <? c_to c)) l in
    List.concat (map (fun m => sem_buckets k c dur m (filter (fun e => lbls_eqb (lbl_of e) m) l) 0 (sem_nbuckets c dur))
                (distinct_lbls l [])).

  Definition sem_stage (c : ctx) (s : stage) (l : list entry) : list entry :=
    match s with
    | SLineFilter op val => filter (line_keep op val) l
    | SLabelFilter f => filter (label_keep f) l
    | SParser id => map (sem_parser id) l
    | SLabelFormat fs => map (fun e => with_lbl e (fold_left sem_lfmt fs (lbl_of e))) l
    | SLineFormat id =>
      flat_map (fun e => match tmpl id (lset (lbl_of e) entry_key (e_msg e)) with
                         | Some s => [set_msg e s] | None => [] end) l
    | SUnwrap label =>
      map (fun e => let x := if String.eqb label entry_key then e_msg e else lget (lbl_of e) label in
                    if String.eqb x EmptyString then e else match pfloat x with Some f => set_val e f | None => e end) l
    | SDrop names vals =>
      map (fun e => with_lbl e (filter (fun kv => negb (drop_hit (fst kv) (snd kv) names vals)) (lbl_of e))) l
    | SByWithout by_ names => map (fun e => with_lbl e (filter (fun kv => bw_keep by_ names (fst kv)) (lbl_of e))) l
    | SAgg k dur => sem_agg k c dur l
    | SComparison op val => filter (comparison_keep op val) l
    | SLimit => sem_limit (c_limit c) l
    | SOptimizer => l
    end.
  (* the reference works on data entries only *)
  Definition sem_chain (c : ctx) (ch : list stage) (l : list entry) : list entry :=
    fold_left (fun x s => sem_stage c s x) ch (data_of l).

  (* what the client is given for an entry: everything but the fingerprint (series are label sets) *)
  Definition erase (e : entry) : Z * option lbls * string * V * errk := (e_ts e, e_lbl e, e_msg e, e_val e, e_err e).
  (* a data row as the ClickHouse getter delivers it: no error mark, a (non-nil) label map *)
  Definition data_row (e : entry) : Prop := e_err e = ENone /\ exists m, e_lbl e = Some m.
  (* the stages whose reference semantics is per entry / positional *)
  Definition simple_stage (s : stage) : bool :=
    match s with
    | SLineFilter _ _ | SLabelFilter _ | SParser _ | SLabelFormat _ | SLineFormat _ | SUnwrap _ | SDrop _ _ | SByWithout _ _
    | SComparison _ _ | SLimit => true
    | _ => false
    end.
  Definition decodes (id : N) (e : entry) : Prop := parse id (e_msg e) <> None.
  (* what ends a stream: an entry carrying io.EOF or an error *)
  Definition terminator (e : entry) : Prop := e_err e <> ENone /\ e_err e <> ECrash.

  (* ---------------------------------------------------------------------------------------- *)
  (* comparison helpers for generated case files *)
  Definition olbls_eqb (a b : option lbls) : bool :=
    lbls_eqb match a with None => [] | Some m => m end match b with None => [] | Some m => m end.
  Definition entry_eqb (a b : entry) : bool :=
    (e_ts a =? e_ts b) && N.eqb (e_fp a) (e_fp b) && olbls_eqb (e_lbl a) (e_lbl b) &&
    String.eqb (e_msg a) (e_msg b) && veqb (e_val a) (e_val b).
  Fixpoint list_eqb {A} (eqb : A -> A -> bool) (a b : list A) : bool :=
    match a, b with
    | [], [] => true
    | x :: r, y :: r' => eqb x y && list_eqb eqb r r'
    | _, _ => false
    end.
  Definition obs_eqb (a b : obs) : bool :=
    match a, b with
    | ObsErr k, ObsErr k' => errk_eqb k k'
    | ObsOk l, ObsOk l' => list_eqb entry_eqb (sort_fp l) (sort_fp l')
    | _, _ => false
    end.
  (* the reference identifies series by label set: fingerprints are not compared, entries are
     ordered by (labels, position) through a stable sort on the label text done by the caller     *)
  Definition entry_sem_eqb (a b : entry) : bool :=
    (e_ts a =? e_ts b) && olbls_eqb (e_lbl a) (e_lbl b) && String.eqb (e_msg a) (e_msg b) && veqb (e_val a) (e_val b).

  (* ---------------------------------------------------------------------------------------- *)
  (* Specification oracle over the OBSERVED output of the real chain.
     domain: every aggregation stage has a window made of whole buckets that holds every input
     timestamp (what FixPeriodPlanner establishes before the chain runs), is a function the
     reference defines, and Process() accepts the chain.                                          *)
  Definition agg_specified (k : agg_kind) : bool :=
    match k with
    | KLra LAbsent | KLra LOther | KUnwrap UOther | KAggOp AUnsupported | KAggOp AOther => false
    | _ => true
    end.
  (* the aggregation functions the reference defines: the sixteen above and absent_over_time *)
  Definition agg_covered (k : agg_kind) : bool :=
    agg_specified k || match k with KLra LAbsent => true | _ => false end.
  Definition stage_in_domain (c : ctx) (l : list entry) (s : stage) : bool :=
    match s with
    | SAgg k dur =>
      (0 <? dur) && (c_from c <? c_to c) && (Z.rem (c_to c - c_from c) dur =? 0) &&
      agg_covered k &&
      forallb (fun e => (c_from c <=? e_ts e) && (e_ts e <? c_to c)) l
    | _ => true
    end.
  (* distinct label sets are distinct series, equal label sets one series *)
  Definition identity_ok (l : list entry) : bool :=
    forallb (fun a => forallb (fun b => Bool.eqb (N.eqb (e_fp a) (e_fp b)) (lbls_eqb (lbl_of a) (lbl_of b))) l) l.

  (* ... and the upstream is what ClickHouse delivers: one fingerprint per label set and one label set per fingerprint *)
  Definition in_domain (c : ctx) (ch : list stage) (bs : batches) : bool :=
    (0 <=? c_limit c) && forallb (stage_plan_ok c) ch && forallb (stage_in_domain c (data_of (List.concat bs))) ch &&
    identity_ok (data_of (List.concat bs)).

  (* order-insensitive comparison across series: stable sort by label text *)
  Fixpoint lbls_ltb (a b : lbls) : bool :=
    match a, b with
    | [], [] => false
    | [], _ :: _ => true
    | _ :: _, [] => false
    | (k, v) :: r, (k', v') :: r' =>
      match String.compare k k' with
      | Lt => true | Gt => false
      | Eq => match String.compare v v' with Lt => true | Gt => false | Eq => lbls_ltb r r' end
      end
    end.
  Fixpoint ins_lbl (e : entry) (l : list entry) : list entry :=
    match l with
    | [] => [e]
    | x :: r => if lbls_ltb (lbl_of e) (lbl_of x) then e :: l else x :: ins_lbl e r
    end.
  Definition sort_lbl (l : list entry) : list entry := fold_right ins_lbl [] l.

  Definition has_upstream_err (bs : batches) : bool :=
    match first_err (List.concat bs) with Some _ => true | None => false end.

  (* 0 = the observation is what the definition prescribes (or the case is outside the domain);
     1 = the request failed although the definition yields a result; 2 = entries/values differ;
     3 = series identity broken; 4 = an upstream error was swallowed                              *)
  Definition spec_code (c : ctx) (ch : list stage) (bs : batches) (o : obs) : Z :=
    if negb (in_domain c ch bs) then 0
    else if has_upstream_err bs then
      match o with
      | ObsErr _ => 0
      | ObsOk l =>   (* a log request whose limit was filled before the error arrived is complete *)
        if existsb (fun s => match s with SLimit => true | _ => false end) ch && (0 <? c_limit c) &&
           (Z.of_nat (List.length l) =? c_limit c) then 0 else 4
      end
    else match o with
         | ObsErr _ => 1
         | ObsOk l =>
           if negb (list_eqb entry_sem_eqb (sort_lbl (sem_chain c ch (List.concat bs))) (sort_lbl l)) then 2
           else if negb (identity_ok l) then 3 else 0
         end.

  Definition model_obs (c : ctx) (ch : list stage) (bs : batches) : obs :=
    if forallb (stage_plan_ok c) ch then observe (run_chain c ch bs) else ObsErr ENone.   (* ENone: Process() refused *)
  Definition model_cancel (c : ctx) (ch : list stage) (bs : batches) : bool :=
    forallb (stage_plan_ok c) ch && chain_cancelled c ch bs.
  (* the upstream query may only be cancelled by a positive limit that the entries which arrived can fill: the observed
     data entries, the non-data entries of the input and at most one error entry made by a stage *)
  Definition cancel_code (c : ctx) (bs : batches) (o : obs) (cancelled : bool) : Z :=
    if cancelled then
      match o with
      | ObsOk l =>
        let nondata := List.length (filter (fun e => negb (errk_eqb (e_err e) ENone)) (List.concat bs)) in
        if (c_limit c <=? 0) || (Z.of_nat (List.length l + nondata + 1) <? c_limit c) then 5 else 0
      | ObsErr _ => 0
      end
    else 0.
End ENGINE.

(* ============================================================================================ *)
(* Instantiation used by generated case files: binary64 floats, oracles as finite tables.        *)
From Coq Require Import Floats Uint63.

Definition fofZ (z : Z) : float := PrimFloat.of_uint63 (Uint63.of_Z z).

Fixpoint assoc {A B} (eqb : A -> A -> bool) (t : list (A * B)) (d : B) (a : A) : B :=
  match t with
  | [] => d
  | (x, y) :: r => if eqb a x then y else assoc eqb r d a
  end.

Record tables := {
  t_fp : list (lbls * N);
  t_re : list ((string * string) * bool);
  t_pf : list (string * float);
  t_parse : list ((N * string) * option lbls);
  t_tmpl : list ((N * lbls) * option string)
}.
Definition str2_eqb (a b : string * string) : bool := String.eqb (fst a) (fst b) && String.eqb (snd a) (snd b).
Definition nstr_eqb (a b : N * string) : bool := N.eqb (fst a) (fst b) && String.eqb (snd a) (snd b).
Definition nlbl_eqb (a b : N * lbls) : bool := N.eqb (fst a) (fst b) && lbls_eqb (snd a) (snd b).

Definition fentry := entry float.
Definition fstage := stage float.
Record fcase := {
  f_id : Z;
  f_tab : tables;
  f_ctx : ctx;
  f_chain : list fstage;
  f_in : list (list fentry);
  f_kills : bool;                    (* panic_kills, read from the source of planner_generic.go *)
  f_obs : obs float;                 (* what the real chain sent, canonicalised by the harness *)
  f_cancel : bool                    (* ctx.CancelCtx was called during the run *)
}.

Section FCASE.
  Variable k : fcase.
  Let t := f_tab k.
  Definition o_fpf (m : lbls) : N := assoc lbls_eqb (t_fp t) 0%N m.
  Definition o_re (p s : string) : bool := assoc str2_eqb (t_re t) false (p, s).
  Definition o_pf (s : string) : option float := assoc String.eqb (map (fun x => (fst x, Some (snd x))) (t_pf t)) None s.
  Definition o_parse (id : N) (s : string) : option lbls := assoc nstr_eqb (t_parse t) None (id, s).
  Definition o_tmpl (id : N) (m : lbls) : option string := assoc nlbl_eqb (t_tmpl t) None (id, m).

  Definition f_model_obs : obs float :=
    model_obs float 0%float 1%float PrimFloat.add PrimFloat.div PrimFloat.ltb PrimFloat.leb PrimFloat.eqb fofZ
              (f_kills k) o_fpf o_re o_pf o_parse o_tmpl (f_ctx k) (f_chain k) (f_in k).
  Definition f_model_cancel : bool :=
    model_cancel float 0%float 1%float PrimFloat.add PrimFloat.div PrimFloat.ltb PrimFloat.leb PrimFloat.eqb fofZ
                 (f_kills k) o_fpf o_re o_pf o_parse o_tmpl (f_ctx k) (f_chain k) (f_in k).
  Definition f_mismatch : bool :=
    negb (obs_eqb float PrimFloat.eqb f_model_obs (f_obs k)) ||
    match f_obs k with ObsErr _ ECrash => false | _ => negb (Bool.eqb f_model_cancel (f_cancel k)) end.
  Definition f_spec_code : Z :=
    spec_code float 0%float 1%float PrimFloat.add PrimFloat.div PrimFloat.ltb PrimFloat.leb PrimFloat.eqb fofZ
              o_fpf o_re o_pf o_parse o_tmpl (f_ctx k) (f_chain k) (f_in k) (f_obs k).
  Definition f_code : Z :=
    if f_spec_code =? 0 then cancel_code float (f_ctx k) (f_in k) (f_obs k) (f_cancel k) else f_spec_code.
  (* what the reference semantics prescribes for the case (the list spec_code compares the observation with), for replays *)
  Definition f_expected : list fentry :=
    sort_lbl float (sem_chain float 0%float 1%float PrimFloat.add PrimFloat.div PrimFloat.ltb PrimFloat.leb PrimFloat.eqb fofZ
                              o_fpf o_re o_pf o_parse o_tmpl (f_ctx k) (f_chain k) (List.concat (f_in k))).
End FCASE.

(* the expected entries of a case as rows (timestamp - From, position of the label set in lpool, position of the line in spool,
   value): the replay file names label sets and lines through the pools of the generated file; -1 = not in the pool *)
Fixpoint pos_in {A} (eqb : A -> A -> bool) (l : list A) (a : A) (i : Z) : Z :=
  match l with
  | [] => -1
  | x :: r => if eqb a x then i else pos_in eqb r a (i + 1)
  end.
Definition expected_rows (lpool : list lbls) (spool : list string) (k : fcase) : list (Z * Z * Z * float) :=
  map (fun e : fentry => (e_ts float e - c_from (f_ctx k), pos_in lbls_eqb lpool (lbl_of float e) 0, pos_in String.eqb spool (e_msg float e) 0,
                          e_val float e))
      (f_expected k).

Definition mismatches (cs : list fcase) : list Z := map f_id (filter f_mismatch cs).
Definition spec_violations (cs : list fcase) : list (Z * Z) :=
  filter (fun p => negb (snd p =? 0)) (map (fun c => (f_id c, f_code c)) cs).

(* ============================================================================================ *)
(* reader/logql/logql_transpiler_v2/planner.go: GetBreakpoint / breakScript — where a pipeline is split between ClickHouse
   and the in-process engine                                                                                            *)
Inductive pipe := PLineFilter | PLabelFilter | PJson | PJsonParams | PLogfmt | PRegexp | PLineFormat | PLabelFormat | PUnwrap | PDrop.
Definition breaking (p : pipe) : bool := match p with PJson | PLogfmt | PLineFormat => true | _ => false end.
Fixpoint first_break (ps : list pipe) (i : Z) : Z :=
  match ps with
  | [] => -1
  | p :: r => if breaking p then i else first_break r (i + 1)
  end.
(* BreakpointNo = -1, BreakpointLra = -2 (absent_over_time over a pipeline ClickHouse can run entirely) *)
Definition get_breakpoint (absent : bool) (ps : list pipe) : Z :=
  let b := first_break ps 0 in if absent && (b <? 0) then -2 else b.
(* the pipeline stages handed to the in-process engine (breakScript): those from the breakpoint on; none for -1; for -2
   the whole pipeline stays in ClickHouse and only the range aggregation runs in process                             *)
Definition internal_pipes (absent : bool) (ps : list pipe) : list pipe :=
  let b := get_breakpoint absent ps in if b <? 0 then [] else skipn (Z.to_nat b) ps.
Definition clickhouse_pipes (absent : bool) (ps : list pipe) : list pipe :=
  let b := get_breakpoint absent ps in if b <? 0 then ps else firstn (Z.to_nat b) ps.
Definition pipe_eqb (a b : pipe) : bool :=
  match a, b with
  | PLineFilter, PLineFilter | PLabelFilter, PLabelFilter | PJson, PJson | PJsonParams, PJsonParams | PLogfmt, PLogfmt
  | PRegexp, PRegexp | PLineFormat, PLineFormat | PLabelFormat, PLabelFormat | PUnwrap, PUnwrap | PDrop, PDrop => true
  | _, _ => false
  end.
(* q_internal = None when planning failed after the breakpoint was computed *)
Record plancase := { q_id : Z; q_absent : bool; q_pipes : list pipe; q_bp : Z; q_internal : option (list pipe) }.
Definition plan_mismatch (c : plancase) : bool :=
  negb ((get_breakpoint (q_absent c) (q_pipes c) =? q_bp c) &&
        match q_internal c with
        | None => true
        | Some l => list_eqb pipe_eqb (internal_pipes (q_absent c) (q_pipes c)) l
        end).
Definition plan_mismatches (cs : list plancase) : list Z := map q_id (filter plan_mismatch cs).

(* hash.go structure cases: CH64 of every k+v and of the descriptor bytes as a table *)
Record fpcase := { p_id : Z; p_labels : lbls; p_ch : list (string * N); p_out : N }.
Definition fp_mismatch (c : fpcase) : bool :=
  negb (N.eqb (fingerprint (assoc String.eqb (p_ch c) 0%N) (p_labels c)) (p_out c)).
Definition fp_mismatches (cs : list fpcase) : list Z := map p_id (filter fp_mismatch cs).
