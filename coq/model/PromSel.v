(* Transcription of reader/promql/transpiler (transpiler.go, shared.go, init_clickhouse_planner.go,
   init_downsample_clickhouse_planner.go, stream_select_combiner.go, hints_downsample_planner.go,
   transpilerDownsample.go) and of the decision made by CLokiQuerier.transpileLabelMatchers
   (reader/service/promQueryable.go): Prometheus label matchers + select hints -> the SQL object
   tree sent to ClickHouse.  Function names travel as strings exactly as in storage.SelectHints.Func
   and are looked up in the same tables as the Go maps.  Executable definitions only. *)
From Coq Require Import List ZArith NArith String Ascii Bool.
From Qryn Require Import lib.Strs lib.CivilDate model.Sql model.SqlRender model.Logql model.LogqlPlan.
Import ListNotations.
Open Scope string_scope.

(* storage.SelectHints, the fields the reader looks at (milliseconds) *)
Record hints := { h_start : Z; h_end : Z; h_step : Z; h_func : string; h_range : Z }.

Definition mem_str (s : string) (l : list string) : bool := existsb (String.eqb s) l.

(* processHints / DownsampleHintsPlanner.Process: the two local maps ("timestamp" is not an instant-vector
   function for processHints: it reads the sample's own time and must see the raw samples) *)
Definition instant_vectors : list string :=
  ["abs"; "absent"; "ceil"; "exp"; "floor"; "ln"; "log2"; "log10"; "round"; "scalar"; "sgn"; "sort"; "sqrt";
   "atan"; "cos"; "cosh"; "sin"; "sinh"; "tan"; "tanh"; "deg"; "rad"].
Definition range_vectors : list string :=
  ["absent_over_time"; "deriv"; "idelta"; "irate"; "rate"; "resets"; "min_over_time"; "max_over_time";
   "sum_over_time"; "count_over_time"; "stddev_over_time"; "stdvar_over_time"; "last_over_time";
   "present_over_time"; "delta"; "increase"; "avg_over_time"].

(* promQueryable.go supportedFunctions : map[string]bool *)
Definition supported_functions : list (string * bool) :=
  [("avg_over_time", true); ("min_over_time", true); ("max_over_time", true); ("sum_over_time", true);
   ("count_over_time", true); ("quantile_over_time", false); ("stddev_over_time", false);
   ("stdvar_over_time", false); ("last_over_time", true); ("present_over_time", true);
   ("absent_over_time", true);
   ("", true);
   ("abs", true); ("absent", true); ("ceil", true); ("exp", true); ("floor", true);
   ("ln", true); ("log2", true); ("log10", true); ("round", true); ("scalar", true);
   ("sgn", true); ("sort", true); ("sqrt", true); ("timestamp", true); ("atan", true);
   ("cos", true); ("cosh", true); ("sin", true); ("sinh", true); ("tan", true);
   ("tanh", true); ("deg", true); ("rad", true);
   ("sum", true); ("min", true); ("max", true); ("group", true); ("avg", true)].
Fixpoint map_get (k : string) (m : list (string * bool)) : option bool :=
  match m with [] => None | (k', v) :: r => if String.eqb k k' then Some v else map_get k r end.

(* isSupported, ok := supportedFunctions[hints.Func]
   useRawData := Start%15000 != 0 || Step < 15000 || (Range > 0 && Range < 15000) || !(isSupported || !ok)
   (Go's % is the truncated remainder: Z.rem) *)
Definition use_raw_data (h : hints) : bool :=
  let '(is_supported, ok) := match map_get (h_func h) supported_functions with
                             | Some b => (b, true) | None => (false, false) end in
  negb (Z.eqb (Z.rem (h_start h) 15000) 0)
  || (h_step h <? 15000)%Z
  || ((0 <? h_range h)%Z && (h_range h <? 15000)%Z)
  || negb (is_supported || negb ok).

(* ---------- InitClickhousePlanner.Process ----------
   the window is [hints.Start, hints.End] in milliseconds, both ends included (fix f155c1f):
   timestamp_ns >= From and timestamp_ns < To + 1 ms *)
Definition ts_ms_col : expr := Col (Fn "intDiv" [Id "samples.timestamp_ns"; IntV 1000000]) "timestamp_ms".
Definition with_limit (c : pctx) (s : select) : select :=
  if (0 <? c_limit c)%Z then set_limit (Some (IntV (c_limit c))) s else s.
Definition init_clickhouse (c : pctx) : select :=
  with_limit c
   (set_orderby [Ord (Id "fingerprint") true; Ord (Id "samples.timestamp_ns") true]
    (and_where [Ge (Id "samples.timestamp_ns") (IntV (c_from_ns c));
                Lt (Id "samples.timestamp_ns") (IntV (c_to_ns c + 1000000)); get_types c]
     (set_from (SimpleCol (t_samples c) "samples")
      (set_cols [SimpleCol "samples.fingerprint" "fingerprint"; SimpleCol "samples.value" "value"; ts_ms_col]
        empty_select)))).

(* fingerprintsQuery / transpiler.StreamSelectPlanner: parser.LabelMatcher getters feed the LogQL
   StreamSelectPlanner (model: LogqlPlan.stream_select).  LabelMatcher.GetVal anchors the value of a
   regex matcher the way labels.NewMatcher compiles it: ClickHouse match() searches. *)
Definition anchor (p : string) : string := "^(?:" ++ p ++ ")$".
Definition prom_matcher (m : matcher) : matcher :=
  match m_op m with
  | MRe | MNre => {| m_name := m_name m; m_op := m_op m; m_val := anchor (m_val m) |}
  | _ => m
  end.

(* labels.Matcher.Matches: the Prometheus meaning of one matcher on a label value (regexes anchored);
   `re_full v p` is the oracle for "v matches ^(?:p)$" *)
Definition prom_match_val (re_full : string -> string -> bool) (op : mop) (x v : string) : bool :=
  match op with
  | MEq => String.eqb v x
  | MNeq => negb (String.eqb v x)
  | MRe => re_full v x
  | MNre => negb (re_full v x)
  end.
(* _matcher.Matches(""): a series without the label satisfies the matcher *)
Definition accepts_empty (re_full : string -> string -> bool) (m : matcher) : bool :=
  prom_match_val re_full (m_op m) (m_val m) "".
(* labels.Matcher.Inverse *)
Definition inverse (m : matcher) : matcher :=
  {| m_name := m_name m;
     m_op := match m_op m with MEq => MNeq | MNeq => MEq | MRe => MNre | MNre => MRe end;
     m_val := m_val m |}.
(* the series that carry the label with a value the matcher rejects *)
Definition rejected_query (c : pctx) (m : matcher) : select := stream_select c [prom_matcher (inverse m)].
Definition not_rejected (c : pctx) (m : matcher) : expr :=
  Eq (In (Id "fingerprint") [SubQ (rejected_query c m)]) (IntV 0).
(* fingerprintsQuery: the matchers that reject "" go through the label-index planner (one index row has to
   witness each); every matcher that accepts "" only excludes: fingerprint IN (<rejected>) == 0 is appended
   to the WHERE, in the order of the matchers *)
Definition fingerprints_query (re_full : string -> string -> bool) (c : pctx) (ms : list matcher) : select :=
  fold_left (fun q m => and_where [not_rejected c m] q)
            (filter (accepts_empty re_full) ms)
            (stream_select c (map prom_matcher (filter (fun m => negb (accepts_empty re_full m)) ms))).

(* ---------- processHints ---------- *)
Definition is_instant (f : string) : bool := mem_str f instant_vectors || String.eqb f "".
Definition is_range (f : string) : bool := mem_str f range_vectors.

(* fmt.Sprintf("intDiv(spls.timestamp_ms - %d + %d - 1, %d) * %d + %d", Start, Step, Step, Step, Start) *)
Definition bucket_expr (h : hints) : expr :=
  Sep " + " [Sep " * " [Fn "intDiv" [Sep " - " [Sep " + " [Sep " - " [Id "spls.timestamp_ms"; IntV (h_start h)];
                                                       IntV (h_step h)]; IntV 1];
                                     IntV (h_step h)];
                        IntV (h_step h)];
             IntV (h_start h)].
Definition ms_in_step (col : string) (m : Z) : expr := Sep " % " [Id col; IntV m].

Definition process_hints (q : select) (h : hints) : select :=
  let q1 :=
    if is_instant (h_func h) then
      set_orderby [Ord (Id "fingerprint") true; Ord (Id "timestamp_ms") true]
       (set_groupby [Id "timestamp_ms"; Id "fingerprint"]
        (set_from (WRef "spls" q)
         (set_cols [Id "fingerprint";
                    Col (Fn "argMax" [Id "spls.value"; Id "spls.timestamp_ms"]) "value";
                    Col (bucket_expr h) "timestamp_ms"]
          (with_ [("spls", q)] empty_select))))
    else q in
  if is_range (h_func h) && (h_range h <? h_step h)%Z then
    and_where [Or [Eq (ms_in_step "timestamp_ms" (h_step h)) (IntV 0);
                   Ge (ms_in_step "timestamp_ms" (h_step h)) (IntV (h_step h - h_range h))]] q1
  else q1.

(* ---------- TranspileLabelMatchers ---------- *)
Definition transpile_label_matchers (re_full : string -> string -> bool) (h : hints) (c : pctx) (ms : list matcher) : select :=
  let fpq := fingerprints_query re_full c ms in
  let q := and_where [In (Id "samples.fingerprint") [WRef "fp_sel" fpq]]
             (add_withs [("fp_sel", fpq)] (init_clickhouse c)) in
  if Z.eqb (h_step h) 0 then q else process_hints q h.

(* ---------- the down-sampled path ---------- *)
(* InitDownsamplePlanner.Process (timestamp_ns >= From since fix 24e9bdc; it was > From) *)
Definition init_downsample (c : pctx) : select :=
  with_limit c
   (set_groupby [Id "timestamp_ms"; Id "fingerprint"]
    (set_orderby [Ord (Id "fingerprint") true; Ord (Id "timestamp_ms") true]
     (and_where [Ge (Id "samples.timestamp_ns") (IntV (c_from_ns c));
                 Le (Id "samples.timestamp_ns") (IntV (c_to_ns c)); get_types c]
      (set_from (SimpleCol (t_m15 c) "samples")
       (set_cols [SimpleCol "samples.fingerprint" "fingerprint";
                  Col (Fn "argMaxMerge" [Id "samples.last"]) "value"; ts_ms_col]
         empty_select))))).

(* StreamSelectCombiner.Process *)
Definition stream_select_combiner (re_full : string -> string -> bool) (c : pctx) (ms : list matcher) : select :=
  let fpq := fingerprints_query re_full c ms in
  and_where [In (Id "fingerprint") [WRef "fp_sel" fpq]] (add_withs [("fp_sel", fpq)] (init_downsample c)).

(* DownsampleHintsPlanner.getValueMerge, Partial = false *)
Definition value_merge (f : string) : expr :=
  if String.eqb f "absent_over_time" then IntV 1
  else if String.eqb f "min_over_time" then Fn "min" [Id "min"]
  else if String.eqb f "max_over_time" then Fn "max" [Id "max"]
  else if String.eqb f "sum_over_time" then Fn "sum" [Id "sum"]
  else if String.eqb f "count_over_time" then Fn "countMerge" [Id "count"]
  else if String.eqb f "last_over_time" then Fn "argMaxMerge" [Id "samples.last"]
  else if String.eqb f "present_over_time" then IntV 1
  else if String.eqb f "avg_over_time" then Sep " / " [Fn "sum" [Id "sum"]; Fn "countMerge" [Id "count"]]
  else Fn "argMaxMerge" [Id "samples.last"].

(* patchField: replaces the column carrying the alias (every column of these queries is Aliased) *)
Definition patch_field (alias : string) (new_field : expr) (q : select) : select :=
  set_cols (map (fun f => match alias_of f with
                          | Some (_, a) => if String.eqb a alias then new_field else f
                          | None => f end) (s_cols q)) q.

(* "%d * 1000000" and "%d000000" are text splices of the decimal number *)
Definition times_million (z : Z) : expr := Sep " * " [IntV z; IntV 1000000].
Definition with_six_zeros (z : Z) : expr := Raw (string_of_Z z ++ "000000").

(* DownsampleHintsPlanner.Process *)
Definition downsample_hints (q : select) (h : hints) : select :=
  if Z.eqb (h_step h) 0 then q else
  let q1 := patch_field "value" (Col (value_merge (h_func h)) "value") q in
  if is_range (h_func h) && (h_range h <? h_step h)%Z then
    let tf := Sep " - " [Sep " * " [Fn "intDiv" [Sep " + " [Id "samples.timestamp_ns"; with_six_zeros (h_range h)];
                                                 times_million (h_step h)];
                                    IntV (h_step h)]; IntV 1] in
    let q2 := patch_field "timestamp_ms" (Col tf "timestamp_ms") q1 in
    let m := Sep " % " [Id "timestamp_ns"; with_six_zeros (h_step h)] in
    and_where [Or [Eq m (IntV 0); Gt m (IntV (h_step h * 1000000 - h_range h * 1000000))]] q2
  else
    let tf := Sep " - " [Sep " * " [Fn "intDiv" [Id "samples.timestamp_ns"; times_million (h_step h)];
                                    IntV (h_step h)]; IntV 1] in
    patch_field "timestamp_ms" (Col tf "timestamp_ms") q1.

Definition transpile_label_matchers_downsample (re_full : string -> string -> bool) (h : hints) (c : pctx) (ms : list matcher) : select :=
  downsample_hints (stream_select_combiner re_full c ms) h.

(* TranspileResponse.MapResult: only the down-sampled count_over_time sets it (the function itself is
   PromSelect.map_result_count: one sample of value 1 per counted raw sample) *)
Definition has_map_result (raw : bool) (h : hints) : bool := negb raw && String.eqb (h_func h) "count_over_time".

(* ---------- CLokiQuerier.transpileLabelMatchers ---------- *)
(* tables.PopulateTableNames for the tables these planners read *)
Definition prom_tables (cluster : bool) (dbname : string) : string * string * string :=
  if cluster then ("`" ++ dbname ++ "`.time_series_gin", "`" ++ dbname ++ "`.samples_v3_dist", "`" ++ dbname ++ "`.metrics_15s_dist")
  else ("time_series_gin", "samples_v3", "metrics_15s").
Definition prom_ctx (cluster : bool) (dbname : string) (h : hints) : pctx :=
  let '(gin, spl, m15) := prom_tables cluster dbname in
  {| c_from_ns := h_start h * 1000000; c_to_ns := h_end h * 1000000; c_limit := 0; c_asc := false;
     c_cluster := cluster; c_type := 2; c_finalize := false; c_step_ns := h_step h * 1000000;
     t_gin := gin; t_samples := spl;
     t_ts := (if cluster then "`" ++ dbname ++ "`.time_series" else "time_series");
     t_ts_dist := (if cluster then "`" ++ dbname ++ "`.time_series_dist" else "time_series");
     t_m15 := m15 |}.

Definition querier_transpile (re_full : string -> string -> bool) (cluster : bool) (dbname : string) (h : hints) (ms : list matcher) : select * bool :=
  let c := prom_ctx cluster dbname h in
  if use_raw_data h then (transpile_label_matchers re_full h c ms, false)
  else (transpile_label_matchers_downsample re_full h c ms, has_map_result false h).

(* what Select sends: q.Query.String(ctx, INLINE_WITH when clustered) *)
Definition select_sql (re_full : string -> string -> bool) (cluster : bool) (dbname : string) (h : hints) (ms : list matcher) : option string :=
  render (fst (querier_transpile re_full cluster dbname h ms)) cluster.

(* ---------- labelsGetter.getFetchRequest ---------- *)
(* fingerprints in the order given (Go iterates a map: the harness sorts the IN list of both sides).
   date >= FormatFromDate(from) ; date <= to.Format("2006-01-02") in the process's zone (UTC here);
   type IN (2,0) since the fix of prom-labels-fetch-untyped: the series rows of a log stream are not read *)
Definition labels_fetch (cluster : bool) (fps : list N) (from_ms to_ms : Z) : select :=
  and_where [In (Id "fingerprint") (map (fun fp => Raw (string_of_N fp)) fps);
             Ge (Id "date") (DateV (from_day (from_ms * 1000000)));
             Le (Id "date") (DateV (to_ms / 86400000));
             In (Id "type") [IntV 2; IntV 0]]
   (set_from (Id (if cluster then "time_series_dist" else "time_series"))
    (set_cols [Id "fingerprint"; Col (Fn "JSONExtractKeysAndValues" [Id "labels"; StrV "String"]) "labels"] empty_select)).

(* ---------- comparison functions used by generated case files ---------- *)
Inductive pkind := KRaw | KDownsample | KQuerier.
(* pc_full: (pattern, value, anchored match) as answered by labels.Matcher.Matches in the harness; the planner
   only asks about the value "" *)
Fixpoint tbl_lookup (t : list (string * string * bool)) (v p : string) : bool :=
  match t with
  | [] => false
  | (p', v', b) :: r => if String.eqb p p' && String.eqb v v' then b else tbl_lookup r v p
  end.
Record pcase := { pc_id : Z; pc_kind : pkind; pc_hints : hints; pc_ctx : pctx; pc_ms : list matcher;
                  pc_full : list (string * string * bool) }.
Definition pcase_sql (c : pcase) : option string * bool :=
  let full := tbl_lookup (pc_full c) in
  match pc_kind c with
  | KRaw => (render (transpile_label_matchers full (pc_hints c) (pc_ctx c) (pc_ms c)) (c_cluster (pc_ctx c)), false)
  | KDownsample => (render (transpile_label_matchers_downsample full (pc_hints c) (pc_ctx c) (pc_ms c)) (c_cluster (pc_ctx c)),
                    has_map_result false (pc_hints c))
  | KQuerier => let '(q, mr) := querier_transpile full (c_cluster (pc_ctx c)) "qryn" (pc_hints c) (pc_ms c) in
                (render q (c_cluster (pc_ctx c)), mr)
  end.
