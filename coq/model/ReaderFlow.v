(* C12 -- control-flow model of a Go function body with respect to ONE resource that must be given back on every way
   out: a mutex (Lock ... Unlock / defer Unlock) or the duty of a goroutine to close the channel it sends on
   (close(ch) / defer close(ch)). The bodies are generated from reader/ by translate/goinv_reader
   (gen/GenGoroutinesReader.v: reader_lock_flows, reader_close_flows); `exec` is the set of paths through a body,
   `post` the executable analysis, proofs/ReaderFlowProofs.v shows post sound for every path (loops included).

   State: (h, d) = (times the resource is held, deferred releases registered). Defers run when the function leaves
   (return, falling off the end, panic): the resource is free afterwards iff h = d. *)
From Coq Require Import List Bool Arith String.
Import ListNotations.

Inductive stmt :=
| SSkip
| SSeq (a b : stmt)
| SAcq                 (* X.Lock() / X.RLock() *)
| SRel                 (* X.Unlock() / close(ch) *)
| SDefer               (* defer X.Unlock() / defer close(ch) / a deferred closure doing it *)
| SOther (p : bool)    (* any other simple statement; p: it may panic (call, index, slice, division, assertion, send) *)
| SReturn
| SBreak               (* unlabelled: leaves the innermost for / switch / select *)
| SContinue            (* unlabelled *)
| SJump                (* goto, labelled break / continue, fallthrough: not analysed (the check fails) *)
| SIf (a b : stmt)
| SLoop (b : stmt)     (* for / range: any number of iterations *)
| SSwitch (b : stmt).  (* switch / select: b chooses a clause (nested SIf); a break inside ends the switch *)

Inductive outcome := ONormal | OBreak | OContinue | OReturn | OPanic
| OFault   (* release of a resource that is not held: unlock of an unlocked mutex, close of a closed channel *)
| OJump.

Definition fst_ := (nat * nat)%type.

(* every path through a statement *)
Inductive exec : stmt -> fst_ -> outcome -> fst_ -> Prop :=
| ESkip : forall s, exec SSkip s ONormal s
| ESeqN : forall a b s s1 o s2, exec a s ONormal s1 -> exec b s1 o s2 -> exec (SSeq a b) s o s2
| ESeqX : forall a b s o s1, exec a s o s1 -> o <> ONormal -> exec (SSeq a b) s o s1
| EAcq : forall h d, exec SAcq (h, d) ONormal (S h, d)
| ERel : forall h d, exec SRel (S h, d) ONormal (h, d)
| ERelFault : forall d, exec SRel (0, d) OFault (0, d)
| EDefer : forall h d, exec SDefer (h, d) ONormal (h, S d)
| EOther : forall p s, exec (SOther p) s ONormal s
| EOtherPanic : forall s, exec (SOther true) s OPanic s
| EReturn : forall s, exec SReturn s OReturn s
| EBreak : forall s, exec SBreak s OBreak s
| EContinue : forall s, exec SContinue s OContinue s
| EJump : forall s, exec SJump s OJump s
| EIfL : forall a b s o s1, exec a s o s1 -> exec (SIf a b) s o s1
| EIfR : forall a b s o s1, exec b s o s1 -> exec (SIf a b) s o s1
| ELoop0 : forall b s, exec (SLoop b) s ONormal s
| ELoopNext : forall b s o s1 o2 s2, exec b s o s1 -> (o = ONormal \/ o = OContinue) ->
    exec (SLoop b) s1 o2 s2 -> exec (SLoop b) s o2 s2
| ELoopBreak : forall b s s1, exec b s OBreak s1 -> exec (SLoop b) s ONormal s1
| ELoopExit : forall b s o s1, exec b s o s1 -> (o = OReturn \/ o = OPanic \/ o = OFault \/ o = OJump) ->
    exec (SLoop b) s o s1
| ESwitchBreak : forall b s s1, exec b s OBreak s1 -> exec (SSwitch b) s ONormal s1
| ESwitch : forall b s o s1, exec b s o s1 -> o <> OBreak -> exec (SSwitch b) s o s1.

(* what must hold when the function is left: strict = also when it is left by a panic (a handler's deferred recover
   keeps the process alive, so a mutex kept by a panicking request blocks every later one) *)
Definition safe_exit (strict : bool) (o : outcome) (s : fst_) : Prop :=
  match o with
  | ONormal | OReturn => fst s = snd s
  | OPanic => if strict then fst s = snd s else True
  | _ => False
  end.

(* ------------------------------------------------------------------ the analysis: sets of states per outcome *)
Definition eqb_st (a b : fst_) : bool := Nat.eqb (fst a) (fst b) && Nat.eqb (snd a) (snd b).
Definition mem (x : fst_) (l : list fst_) : bool := existsb (eqb_st x) l.
Definition subset (a b : list fst_) : bool := forallb (fun x => mem x b) a.

Record res := mkRes { r_n : list fst_; r_b : list fst_; r_c : list fst_; r_r : list fst_; r_p : list fst_; r_bad : bool }.

(* sets are kept duplicate-free (a sequence of k branches would otherwise carry 2^k copies) *)
Fixpoint dedup (l : list fst_) : list fst_ :=
  match l with [] => [] | x :: tl => let r := dedup tl in if mem x r then r else x :: r end.
Definition mkR (n b c r p : list fst_) (bad : bool) : res := mkRes (dedup n) (dedup b) (dedup c) (dedup r) (dedup p) bad.

Definition sel (o : outcome) (r : res) : list fst_ :=
  match o with ONormal => r_n r | OBreak => r_b r | OContinue => r_c r | OReturn => r_r r | OPanic => r_p r | _ => [] end.

Definition loop_rounds : nat := 4.
Fixpoint iter (f : list fst_ -> list fst_) (k : nat) (Y : list fst_) : list fst_ :=
  match k with O => Y | S k' => iter f k' (f Y) end.

Fixpoint post (s : stmt) (X : list fst_) : res :=
  match s with
  | SSkip => mkR X [] [] [] [] false
  | SSeq a b => let ra := post a X in let rb := post b (r_n ra) in
      mkR (r_n rb) (r_b ra ++ r_b rb) (r_c ra ++ r_c rb) (r_r ra ++ r_r rb) (r_p ra ++ r_p rb) (r_bad ra || r_bad rb)
  | SAcq => mkR (map (fun s => (S (fst s), snd s)) X) [] [] [] [] (existsb (fun s => negb (Nat.eqb (fst s) 0)) X)
  | SRel => mkR (map (fun s => (pred (fst s), snd s)) X) [] [] [] [] (existsb (fun s => Nat.eqb (fst s) 0) X)
  | SDefer => mkR (map (fun s => (fst s, S (snd s))) X) [] [] [] [] (existsb (fun s => negb (Nat.eqb (snd s) 0)) X)
  | SOther p => mkR X [] [] [] (if p then X else []) false
  | SReturn => mkR [] [] [] X [] false
  | SBreak => mkR [] X [] [] [] false
  | SContinue => mkR [] [] X [] [] false
  | SJump => mkR [] [] [] [] [] true
  | SIf a b => let ra := post a X in let rb := post b X in
      mkR (r_n ra ++ r_n rb) (r_b ra ++ r_b rb) (r_c ra ++ r_c rb) (r_r ra ++ r_r rb) (r_p ra ++ r_p rb) (r_bad ra || r_bad rb)
  | SLoop b =>
      let inv := iter (fun Y => let r := post b Y in dedup (Y ++ r_n r ++ r_c r)) loop_rounds X in
      let r := post b inv in
      mkR (inv ++ r_b r) [] [] (r_r r) (r_p r)
            (r_bad r || negb (subset X inv) || negb (subset (r_n r ++ r_c r) inv))
  | SSwitch b => let r := post b X in mkR (r_n r ++ r_b r) [] (r_c r) (r_r r) (r_p r) (r_bad r)
  end.

Definition exit_ok (s : fst_) : bool := Nat.eqb (fst s) (snd s).

(* h0 = 0 for a mutex, 1 for a goroutine that owes the close of the channel it sends on *)
Definition body_ok (strict : bool) (h0 : nat) (body : stmt) : bool :=
  let r := post body [(h0, 0)] in
  negb (r_bad r) && forallb exit_ok (r_n r) && forallb exit_ok (r_r r) && (if strict then forallb exit_ok (r_p r) else true) &&
  match r_b r, r_c r with [], [] => true | _, _ => false end.

(* ------------------------------------------------------------------ generated inventory *)
Inductive fkind := FLock | FClose.
Record flow := { f_file : string; f_func : string; f_unit : nat (* 0 = the declaration, n = its n-th function literal *);
                 f_res : string; f_kind : fkind; f_recovers : bool; f_body : stmt }.

Definition h0_of (k : fkind) : nat := match k with FLock => 0 | FClose => 1 end.

Fixpoint count_acq (s : stmt) : nat :=
  match s with
  | SAcq => 1
  | SSeq a b | SIf a b => count_acq a + count_acq b
  | SLoop b | SSwitch b => count_acq b
  | _ => 0
  end.

(* explicitly paired Lock/Unlock regions that contain a statement the translator cannot show panic-free, reviewed:
   GetVersionInfo reads / writes the versions map with db.GetName() (a getter of a field of the wrapper, db is the
   non-nil session every caller took from the registry) *)
Definition panic_reviewed : list (string * string * nat) := [
  ("utils/dbVersion/version.go", "GetVersionInfo", 0)
]%string.

Definition reviewed (f : flow) : bool :=
  existsb (fun a => let '(fl, fn, u) := a in String.eqb (f_file f) fl && String.eqb (f_func f) fn && Nat.eqb (f_unit f) u) panic_reviewed.

(* a mutex must be free also after a panic unless reviewed; a goroutine that recovers must close also after a panic, one
   that does not recover takes the process down with it (that is the subject of reader_unrecovered_goroutines_accounted) *)
Definition strict_of (f : flow) : bool :=
  match f_kind f with FLock => negb (reviewed f) | FClose => f_recovers f end.

Definition flow_ok (f : flow) : bool := body_ok (strict_of f) (h0_of (f_kind f)) (f_body f).
Definition flows_ok (fs : list flow) : bool := forallb flow_ok fs.
Definition failing_flows (fs : list flow) : list (string * string * nat * string) :=
  map (fun f => (f_file f, f_func f, f_unit f, f_res f)) (filter (fun f => negb (flow_ok f)) fs).
Definition stale_reviews (fs : list flow) : list (string * string * nat) :=
  filter (fun a => negb (existsb (fun f => let '(fl, fn, u) := a in
     String.eqb (f_file f) fl && String.eqb (f_func f) fn && Nat.eqb (f_unit f) u && negb (body_ok true (h0_of (f_kind f)) (f_body f))) fs)) panic_reviewed.
Definition total_acq (fs : list flow) : nat := fold_right (fun f n => count_acq (f_body f) + n) 0 fs.
