(* C13: every base-table read of a statement, and the window / signal-type oracle.

   scans s enumerates every base-table read of the Sql.v object tree s: through the WITH list,
   WithRef objects, joins, UNION ALL members and selects nested anywhere inside an expression,
   each with the conjuncts of its PREWHERE and WHERE (nested `and`s flattened).
   scan_failures decides, per scan, what the property demands of it (window bounds on the
   timestamp column of data tables, a covering date range on index tables, the type conjunct on
   tables shared by logs and metrics); every_scan_bounded_b is the oracle evaluated on the planner
   model's trees (proved, props/C13.v) and on every statement recorded from the real reader
   (harness readscan, parsed by harness/sqlparse and validated by render (parse s) = s).
   Executable definitions only. *)
From Coq Require Import List ZArith NArith String Ascii Bool.
From Qryn Require Import lib.Strs lib.CivilDate model.Sql.
Import ListNotations.
Open Scope string_scope.
Open Scope list_scope.

(* ------------------------------------------------------------------ the scans of a statement *)

Record scan := {
  sc_table : string;           (* text of the FROM object *)
  sc_alias : string;           (* "" when the table is not aliased *)
  sc_tsn : list string;        (* unqualified names that denote the timestamp column inside this select *)
  sc_conj : list expr          (* conjuncts of PREWHERE then WHERE *)
}.

(* conjuncts of a condition: nested LogicalOp "and" flattened (conjunction is associative) *)
Fixpoint conjs (e : expr) : list expr :=
  match e with
  | LOp OAnd l => flat_map conjs l
  | _ => [e]
  end.
Definition oconjs (o : option expr) : list expr := match o with Some e => conjs e | None => [] end.

Definition ends_with (suf s : string) : bool :=
  let n := String.length s in let k := String.length suf in
  Nat.leb k n && String.eqb (substring (n - k) k s) suf.

(* a name of the timestamp column: timestamp_ns, or <qualifier>.timestamp_ns *)
Definition is_ts_path (s : string) : bool := String.eqb s "timestamp_ns" || ends_with ".timestamp_ns" s.

(* unqualified names usable for the timestamp column in WHERE: SELECT aliases of the column itself
   (ClickHouse resolves aliases in WHERE), and timestamp_ns unless an alias of that name is defined
   as something else (intDiv(samples.timestamp_ns, ...) * ... as timestamp_ns) *)
Definition ts_alias_of (c : expr) : list string :=
  match c with
  | Col (Id x) a => if is_ts_path x && negb (String.eqb a "") then [a] else []
  | _ => []
  end.
Definition shadows_ts (c : expr) : bool :=
  match c with
  | Col (Id x) a => String.eqb a "timestamp_ns" && negb (is_ts_path x)
  | Col _ a => String.eqb a "timestamp_ns"
  | _ => false
  end.
Definition ts_names (cols : list expr) : list string :=
  (if existsb shadows_ts cols then [] else ["timestamp_ns"]) ++ flat_map ts_alias_of cols.

(* the FROM object of a base-table read: identifier, identifier with alias, raw text *)
Definition base_table (f : expr) : option (string * string) :=
  match f with
  | Id t => Some (t, "")
  | Raw t => Some (t, "")
  | Col (Id t) a => Some (t, a)
  | Col (Raw t) a => Some (t, a)
  | _ => None
  end.

Definition own_scan (s : select) : list scan :=
  match s_from s with
  | Some f => match base_table f with
              | Some (t, a) => [{| sc_table := t; sc_alias := a; sc_tsn := ts_names (s_cols s);
                                   sc_conj := oconjs (s_prewhere s) ++ oconjs (s_where s) |}]
              | None => []
              end
  | None => []
  end.

(* a base table joined directly has no WHERE of its own: reported with no conjuncts.
   ARRAY JOIN takes an array expression, not a table. *)
Definition join_scan (j : string * expr * option expr) : list scan :=
  let '(tp, tbl, _) := j in
  if String.eqb (to_lower (trim1 " " tp)) "array" then [] else
  match base_table tbl with
  | Some (t, a) => [{| sc_table := t; sc_alias := a; sc_tsn := []; sc_conj := [] |}]
  | None => []
  end.

Section SEL.
  Variable esc : expr -> list scan.
  Definition oesc (o : option expr) : list scan := match o with Some e => esc e | None => [] end.
  Definition jesc (j : string * expr * option expr) : list scan := esc (snd (fst j)) ++ oesc (snd j).
  Fixpoint sscans (s : select) {struct s} : list scan :=
    (fix ws (l : list (string * select)) : list scan :=
       match l with [] => [] | (_, q) :: r => sscans q ++ ws r end) (s_withs s)
    ++ own_scan s
    ++ flat_map join_scan (s_joins s)
    ++ (flat_map esc (s_cols s) ++ oesc (s_from s) ++ flat_map jesc (s_joins s)
        ++ oesc (s_prewhere s) ++ oesc (s_where s) ++ flat_map esc (s_groupby s) ++ oesc (s_having s)
        ++ flat_map esc (s_orderby s) ++ oesc (s_limit s) ++ oesc (s_offset s))
    ++ (fix us (l : list select) : list scan :=
          match l with [] => [] | q :: r => sscans q ++ us r end) (s_unions s).
End SEL.

(* selects nested in an object. A WithId object draws a fresh id for a name only: id 0 stands for all. *)
Fixpoint escans (e : expr) : list scan :=
  match e with
  | WRef _ q => sscans escans q
  | SubQ q => sscans escans q
  | LOp _ l => flat_map escans l
  | Fn _ l => flat_map escans l
  | Sep _ l => flat_map escans l
  | BitSetAnd l => flat_map escans l
  | In l r => escans l ++ flat_map escans r
  | Idx a b => escans a ++ escans b
  | Not x => escans x
  | NotNull x => escans x
  | Col x _ => escans x
  | Ord x _ => escans x
  | WithId f => escans (f 0%N)
  | _ => []
  end.

Definition scans (s : select) : list scan := sscans escans s.

(* ------------------------------------------------------------------ tables *)

(* CSlot S: a data table whose rows are stamped with the START of a slot of S nanoseconds (timestamp_ns is a
   multiple of S) and hold what was written during [stamp, stamp + S): the roll-up table metrics_15s.  A bound on the
   stamp is therefore a bound on the data at slot granularity: `timestamp_ns >= lo` first reads the row stamped
   cl_slot S lo - a lower bound inside a slot leaves out the data of that slot that lies behind it. *)
Inductive tclass := CData | CIndex | COther | CSlot (width : Z).
Record tinfo := { ti_class : tclass; ti_typed : bool (* has the `type` column shared by logs and metrics *) }.

(* `db`.name -> name ; name_dist -> name *)
Fixpoint after_last_dot (s acc : string) : string :=
  match s with
  | EmptyString => acc
  | String c r => if Ascii.eqb c "." then after_last_dot r r else after_last_dot r acc
  end.
Definition strip_dist (s : string) : string :=
  if ends_with "_dist" s then substring 0 (String.length s - 5) s else s.
Definition table_base (t : string) : string := strip_dist (after_last_dot t t).

Definition table_info (t : string) : tinfo :=
  let b := table_base t in
  if String.eqb b "samples_v3" || String.eqb b "samples_v4"
  then {| ti_class := CData; ti_typed := true |}
  else if String.eqb b "metrics_15s"
  then {| ti_class := CSlot 15000000000; ti_typed := true |}
  else if String.eqb b "tempo_traces" || String.eqb b "profiles"
  then {| ti_class := CData; ti_typed := false |}
  else if String.eqb b "time_series" || String.eqb b "time_series_gin"
  then {| ti_class := CIndex; ti_typed := true |}
  else if String.eqb b "tempo_traces_attrs_gin" || String.eqb b "tempo_traces_kv"
       || String.eqb b "profiles_series" || String.eqb b "profiles_series_gin" || String.eqb b "profiles_series_keys"
  then {| ti_class := CIndex; ti_typed := false |}
  else {| ti_class := COther; ti_typed := false |}.

(* ------------------------------------------------------------------ the requested window *)

Record window := {
  w_from : Z; w_to : Z;              (* requested window, unix ns *)
  w_lo_min : Z; w_hi_max : Z;        (* the widest data bounds the request allows (range bucket / 15 s / lookback) *)
  w_type : Z                         (* type value of the API: 1 logs, 2 metrics; 0 = the API has no type column *)
}.
Definition ns_per_day : Z := 86400 * 1000000000.
Definition day_of_ns (t : Z) : Z := t / ns_per_day.

(* ------------------------------------------------------------------ classification of conjuncts *)

Inductive bnd :=
 | TsLo (z : Z)          (* timestamp >= z *)
 | TsHi (z : Z)          (* timestamp < z *)
 | DLo (d : Z)           (* date >= day d *)
 | DHi (d : Z)           (* date <= day d *)
 | Ty (l : list Z)       (* type IN (l) *)
 | TyOther.              (* a type conjunct of another shape *)

Definition qualifier_ok (sc : scan) (q : string) : bool :=
  (negb (String.eqb (sc_alias sc) "") && String.eqb q (sc_alias sc)) || String.eqb q (sc_table sc).

(* split "q.name" at the last dot *)
Definition split_path (s : string) : option (string * string) :=
  let name := after_last_dot s s in
  if String.eqb name s then None
  else Some (substring 0 (String.length s - String.length name - 1) s, name).

Definition col_is (sc : scan) (name : string) (unq : list string) (s : string) : bool :=
  match split_path s with
  | None => existsb (String.eqb s) unq
  | Some (q, n) => String.eqb n name && qualifier_ok sc q
  end.
(* 'YYYY-MM-DD' -> day number, validated through date_string *)
Definition digits_val (s : string) : option Z :=
  if forall_chars is_digit s && negb (String.eqb s "") then
    Some ((fix go (s : string) (acc : Z) : Z :=
             match s with EmptyString => acc
             | String c r => go r (acc * 10 + (Z.of_N (N_of_ascii c) - 48))%Z end) s 0%Z)
  else None.
Definition days_from_civil (y m d : Z) : Z :=
  let y' := if (m <=? 2)%Z then (y - 1)%Z else y in
  let era := (y' / 400)%Z in
  let yoe := (y' - era * 400)%Z in
  let mp := (if (m >? 2)%Z then m - 3 else m + 9)%Z in
  let doy := ((153 * mp + 2) / 5 + d - 1)%Z in
  let doe := (yoe * 365 + yoe / 4 - yoe / 100 + doy)%Z in
  (era * 146097 + doe - 719468)%Z.
Definition parse_date (s : string) : option Z :=
  if negb (Nat.eqb (String.length s) 10) then None else
  match digits_val (substring 0 4 s), digits_val (substring 5 2 s), digits_val (substring 8 2 s) with
  | Some y, Some m, Some d =>
      let n := days_from_civil y m d in
      if String.eqb (date_string n) s then Some n else None
  | _, _, _ => None
  end.
Definition date_val (e : expr) : option Z :=
  match e with
  | DateV d => Some d
  | StrV s => parse_date s
  | Fn n [StrV s] => if String.eqb n "toDate" then parse_date s else None
  | _ => None
  end.

Definition ints_of (l : list expr) : option (list Z) :=
  fold_right (fun e acc => match e, acc with IntV z, Some r => Some (z :: r) | _, _ => None end) (Some []) l.

Definition ts_bnd (op : lop) (b : expr) : list bnd :=
  match b, op with
  | IntV z, OGe => [TsLo z]
  | IntV z, OGt => [TsLo (z + 1)]
  | IntV z, OLt => [TsHi z]
  | IntV z, OLe => [TsHi (z + 1)]
  | _, _ => []
  end.
Definition date_bnd (op : lop) (b : expr) : list bnd :=
  match date_val b, op with
  | Some d, OGe => [DLo d]
  | Some d, OGt => [DLo (d + 1)]
  | Some d, OLe => [DHi d]
  | Some d, OLt => [DHi (d - 1)]
  | _, _ => []
  end.
(* a conjunct says something about the window only when it compares a column NAME with a value:
   date / type by name (or qualified by this scan's alias or table), the timestamp column by
   timestamp_ns qualified, or unqualified through sc_tsn *)
Definition classify (sc : scan) (e : expr) : list bnd :=
  match e with
  | LOp op [Id s; b] =>
    if col_is sc "date" ["date"] s then date_bnd op b
    else if col_is sc "type" ["type"] s then [TyOther]
    else if col_is sc "timestamp_ns" (sc_tsn sc) s then ts_bnd op b
    else []
  | In (Id s) r =>
    if col_is sc "type" ["type"] s then match ints_of r with Some l => [Ty l] | None => [TyOther] end else []
  | _ => []
  end.

Definition bounds (sc : scan) : list bnd := flat_map (classify sc) (sc_conj sc).

Definition ts_los (l : list bnd) : list Z := flat_map (fun b => match b with TsLo z => [z] | _ => [] end) l.
Definition ts_his (l : list bnd) : list Z := flat_map (fun b => match b with TsHi z => [z] | _ => [] end) l.
Definition d_los (l : list bnd) : list Z := flat_map (fun b => match b with DLo z => [z] | _ => [] end) l.
Definition d_his (l : list bnd) : list Z := flat_map (fun b => match b with DHi z => [z] | _ => [] end) l.
Definition tys (l : list bnd) : list (option (list Z)) :=
  flat_map (fun b => match b with Ty z => [Some z] | TyOther => [None] | _ => [] end) l.

Definition zmax_list (l : list Z) : option Z :=
  match l with [] => None | x :: r => Some (fold_left Z.max r x) end.
Definition zmin_list (l : list Z) : option Z :=
  match l with [] => None | x :: r => Some (fold_left Z.min r x) end.

(* ------------------------------------------------------------------ what can be wrong with a scan *)

Inductive failure :=
 | FNoTsLower | FTsLowerTight | FTsLowerWide
 | FNoTsUpper | FTsUpperTight | FTsUpperWide
 | FNoDateLower | FDateLowerTight | FDateUpperTight
 | FNoType | FTypeMisses | FTypeOtherSignal
 | FUnknownTable.

Definition failure_code (f : failure) : Z :=
  match f with
  | FNoTsLower => 1 | FTsLowerTight => 2 | FTsLowerWide => 3
  | FNoTsUpper => 4 | FTsUpperTight => 5 | FTsUpperWide => 6
  | FNoDateLower => 7 | FDateLowerTight => 8 | FDateUpperTight => 9
  | FNoType => 10 | FTypeMisses => 11 | FTypeOtherSignal => 12
  | FUnknownTable => 13
  end%Z.

(* timestamp bounds: the effective lower bound is the largest one, the effective upper the smallest *)
Definition ts_lower_failures (w : window) (l : list bnd) (required : bool) : list failure :=
  match zmax_list (ts_los l) with
  | None => if required then [FNoTsLower] else []
  | Some lo => (if (lo >? w_from w)%Z then [FTsLowerTight] else [])
               ++ (if required && (lo <? w_lo_min w)%Z then [FTsLowerWide] else [])
  end.
Definition ts_upper_failures (w : window) (l : list bnd) (required : bool) : list failure :=
  match zmin_list (ts_his l) with
  | None => if required then [FNoTsUpper] else []
  | Some hi => (if (hi <? w_to w)%Z then [FTsUpperTight] else [])
               ++ (if required && (hi >? w_hi_max w + 1)%Z then [FTsUpperWide] else [])
  end.
(* date bounds: a lower bound not after the day of `from`; an upper bound, if any, not before the
   day of the last instant inside the window *)
Definition date_failures (w : window) (l : list bnd) : list failure :=
  (match zmax_list (d_los l) with
   | None => [FNoDateLower]
   | Some d => if (d >? day_of_ns (w_from w))%Z then [FDateLowerTight] else []
   end)
  ++ (match zmin_list (d_his l) with
      | None => []
      | Some d => if (d <? day_of_ns (w_to w - 1))%Z then [FDateUpperTight] else []
      end).
Definition type_list_failures (t : Z) (o : option (list Z)) : list failure :=
  match o with
  | None => [FTypeMisses]
  | Some l => (if existsb (Z.eqb t) l then [] else [FTypeMisses])
              ++ (if forallb (fun z => Z.eqb z t || Z.eqb z 0) l then [] else [FTypeOtherSignal])
  end.
Definition type_failures (w : window) (l : list bnd) : list failure :=
  if Z.eqb (w_type w) 0 then [] else
  match tys l with
  | [] => [FNoType]
  | ts => (flat_map (type_list_failures (w_type w)) ts)
  end.

(* slot tables: the largest multiple of S not above x, the smallest multiple of S not below x *)
Definition fl_slot (k x : Z) : Z := (x / k * k)%Z.
Definition cl_slot (k x : Z) : Z := (Z.opp (Z.opp x / k) * k)%Z.
(* rows stamped on multiples of S that pass `stamp >= lo` are the rows with stamp >= cl_slot S lo, and they hold data from
   cl_slot S lo on; rows that pass `stamp < hi` have stamp <= cl_slot S hi - S and hold data below cl_slot S hi: the
   timestamp bounds of a scan of a slot table, read as bounds on the data *)
Definition slot_bnds (k : Z) (l : list bnd) : list bnd :=
  map (fun b => match b with TsLo z => TsLo (cl_slot k z) | TsHi z => TsHi (cl_slot k z) | _ => b end) l.
(* what may be read is widened to whole slots (the storage boundaries), what must be read is not narrowed *)
Definition slot_win (k : Z) (w : window) : window :=
  {| w_from := w_from w; w_to := w_to w; w_lo_min := fl_slot k (w_lo_min w);
     w_hi_max := (cl_slot k (w_hi_max w + 1) - 1)%Z; w_type := w_type w |}.

Section ORACLE.
  Variable info : string -> tinfo.       (* table_info for recorded statements; abstract in the planner theorem *)

  Definition scan_failures (w : window) (sc : scan) : list failure :=
    let l := bounds sc in
    let ti := info (sc_table sc) in
    match ti_class ti with
    | CData => ts_lower_failures w l true ++ ts_upper_failures w l true
    | CIndex => date_failures w l ++ ts_lower_failures w l false ++ ts_upper_failures w l false
    | COther => [FUnknownTable]
    | CSlot k => ts_lower_failures (slot_win k w) (slot_bnds k l) true ++ ts_upper_failures (slot_win k w) (slot_bnds k l) true
    end
    ++ (if ti_typed ti then type_failures w l else []).

  Definition scan_bounded_b (w : window) (sc : scan) : bool :=
    match scan_failures w sc with [] => true | _ => false end.
  Definition every_scan_bounded_b (w : window) (s : select) : bool := forallb (scan_bounded_b w) (scans s).
End ORACLE.

(* ------------------------------------------------------------------ the declarative reading *)

(* what the conjuncts of a scan say, as facts about the rows they keep *)
Definition has_bnd (sc : scan) (b : bnd) : Prop := exists e, List.In e (sc_conj sc) /\ List.In b (classify sc e).

Record ts_bounded (w : window) (sc : scan) : Prop := {
  tb_lo_ex : exists lo, has_bnd sc (TsLo lo) /\ (w_lo_min w <= lo)%Z;                  (* confined below *)
  tb_lo_all : forall lo, has_bnd sc (TsLo lo) -> (lo <= w_from w)%Z;                    (* nothing inside is cut off *)
  tb_hi_ex : exists hi, has_bnd sc (TsHi hi) /\ (hi <= w_hi_max w + 1)%Z;
  tb_hi_all : forall hi, has_bnd sc (TsHi hi) -> (w_to w <= hi)%Z
}.
Record date_covers (w : window) (sc : scan) : Prop := {
  dc_lo_ex : exists d, has_bnd sc (DLo d);
  dc_lo_all : forall d, has_bnd sc (DLo d) -> (d <= day_of_ns (w_from w))%Z;
  dc_hi_all : forall d, has_bnd sc (DHi d) -> (day_of_ns (w_to w - 1) <= d)%Z;
  dc_ts_lo : forall lo, has_bnd sc (TsLo lo) -> (lo <= w_from w)%Z;
  dc_ts_hi : forall hi, has_bnd sc (TsHi hi) -> (w_to w <= hi)%Z
}.
Record type_confined (w : window) (sc : scan) : Prop := {
  tc_ex : exists l, has_bnd sc (Ty l);
  tc_no_other : ~ has_bnd sc TyOther;
  tc_all : forall l, has_bnd sc (Ty l) -> List.In (w_type w) l /\ (forall z, List.In z l -> z = w_type w \/ z = 0%Z)
}.

(* a slot table (rows stamped with the start of their slot of S ns): the first row read is stamped cl_slot S lo and
   the data of the rows read ends before cl_slot S hi *)
Record slot_bounded (k : Z) (w : window) (sc : scan) : Prop := {
  sb_lo_ex : exists lo, has_bnd sc (TsLo lo) /\ (fl_slot k (w_lo_min w) <= cl_slot k lo)%Z;   (* confined below, to the slot boundary *)
  sb_lo_all : forall lo, has_bnd sc (TsLo lo) -> (cl_slot k lo <= w_from w)%Z;               (* the slot holding `from` is read *)
  sb_hi_ex : exists hi, has_bnd sc (TsHi hi) /\ (cl_slot k hi <= cl_slot k (w_hi_max w + 1))%Z;
  sb_hi_all : forall hi, has_bnd sc (TsHi hi) -> (w_to w <= cl_slot k hi)%Z                  (* the slot holding the last instant is read *)
}.

Definition scan_bounded (info : string -> tinfo) (w : window) (sc : scan) : Prop :=
  match ti_class (info (sc_table sc)) with
  | CData => ts_bounded w sc
  | CIndex => date_covers w sc
  | COther => False
  | CSlot k => slot_bounded k w sc
  end
  /\ (ti_typed (info (sc_table sc)) = true -> w_type w <> 0%Z -> type_confined w sc).

(* ------------------------------------------------------------------ well-formedness of a PARSED tree
   (harness/sqlparse is untrusted). render (parse s) = s ties the tree to the text; these checks make
   sure no table read hides in a leaf of the tree:
   - a Raw/Id/QRaw leaf contains no FROM / JOIN keyword (any case, as a word), except a Raw leaf that
     ends in "from " directly before a WithRef sibling (a hand-written lower-case sub-select reading a CTE);
   - every WithRef alias (printed as the bare alias) is bound by an enclosing WITH, whose body is enumerated. *)
Definition is_ident_char (c : ascii) : bool := is_lower c || is_upper c || is_digit c || Ascii.eqb c "_".
Fixpoint has_word_from (w : string) (s : string) (prev_ident : bool) : bool :=
  match s with
  | EmptyString => false
  | String c r =>
    (negb prev_ident && prefixb w (to_lower s)
     && match substring (String.length w) 1 s with
        | String c' _ => negb (is_ident_char c')
        | EmptyString => true
        end)
    || has_word_from w r (is_ident_char c)
  end.
Definition has_word (w s : string) : bool := has_word_from w s false.
Definition leaf_clean (s : string) : bool := negb (has_word "from" s) && negb (has_word "join" s).
(* "... from " : clean except for that last word *)
Definition raw_from_prefix (s : string) : bool :=
  let n := String.length s in
  Nat.leb 5 n && String.eqb (to_lower (substring (n - 5) 5 s)) "from "
  && leaf_clean (substring 0 (n - 5) s ++ " ")%string.

Section WF.
  Variable ewf : list string -> expr -> bool.
  Definition owf (env : list string) (o : option expr) : bool := match o with Some e => ewf env e | None => true end.
  Fixpoint swf (env : list string) (s : select) {struct s} : bool :=
    let env' := map fst (s_withs s) ++ env in
    (fix ws (l : list (string * select)) : bool :=
       match l with [] => true | (_, q) :: r => swf env' q && ws r end) (s_withs s)
    && forallb (ewf env') (s_cols s) && owf env' (s_from s)
    && forallb (fun j => ewf env' (snd (fst j)) && owf env' (snd j) && leaf_clean (fst (fst j))) (s_joins s)
    && owf env' (s_prewhere s) && owf env' (s_where s) && forallb (ewf env') (s_groupby s) && owf env' (s_having s)
    && forallb (ewf env') (s_orderby s) && owf env' (s_limit s) && owf env' (s_offset s)
    && forallb (fun kv => leaf_clean (fst kv) && leaf_clean (snd kv)) (s_settings s)
    && (fix us (l : list select) : bool :=
          match l with [] => true | q :: r => swf env q && us r end) (s_unions s).
End WF.

Fixpoint ewf (env : list string) (e : expr) {struct e} : bool :=
  match e with
  | Raw s => leaf_clean s
  | Id s => leaf_clean s
  | QRaw s => leaf_clean s && negb (contains "'" s)
  | WRef a q => existsb (String.eqb a) env && swf ewf env q
  | SubQ q => swf ewf env q
  | LOp (OOther o) l => leaf_clean o && forallb (ewf env) l
  | LOp _ l => forallb (ewf env) l
  | Fn n l => leaf_clean n && forallb (ewf env) l
  | BitSetAnd l => forallb (ewf env) l
  | Sep sep l =>
    (* a WITH list printed by hand in front of its select (planner-local objects inside a WITH body):
       the select's aliases are in scope for the hand-printed bodies *)
    let env := match List.last l (Raw "") with SubQ q => map fst (s_withs q) ++ env | _ => env end in
    leaf_clean sep &&
    (fix go (l : list expr) : bool :=
       match l with
       | [] => true
       | Raw r :: ((WRef a _ :: _) as rest) => (leaf_clean r || raw_from_prefix r) && go rest
       | x :: rest => ewf env x && go rest
       end) l
  | In l r => ewf env l && forallb (ewf env) r
  | Idx a b => ewf env a && ewf env b
  | Not x => ewf env x
  | NotNull x => ewf env x
  | Col x a => ewf env x && leaf_clean a
  | Ord x _ => ewf env x
  | CtxParam _ (Some d) => leaf_clean d
  | WithId _ => false                    (* never produced by the parser *)
  | FloatV t => leaf_clean t
  | _ => true
  end.
Definition wf_parsed (s : select) : bool := swf ewf [] s.

(* ------------------------------------------------------------------ per-statement evaluation *)

(* informational: the scan is restricted to keys drawn from another select (100) or from a literal list (101) *)
Definition is_subselect (e : expr) : bool :=
  match e with
  | WRef _ _ => true | SubQ _ => true | LOp _ [SubQ _] => true
  | Col (LOp _ [SubQ _]) _ => true | Col (SubQ _) _ => true     (* an inlined WITH (cluster layout): (select) as alias *)
  | _ => false
  end.
Definition key_codes (sc : scan) : list Z :=
  (if existsb (fun e => match e with In _ [x] => is_subselect x | _ => false end) (sc_conj sc) then [100%Z] else [])
  ++ (if existsb (fun e => match e with
                           | In (Id _) (IntV _ :: _) => true | In (Id _) (Raw _ :: _) => true
                           | _ => false end) (sc_conj sc) then [101%Z] else []).
Definition scan_report (w : window) (sc : scan) : string * list Z :=
  (sc_table sc, map failure_code (scan_failures table_info w sc) ++ key_codes sc).
Definition report (w : window) (s : select) : list (string * list Z) := map (scan_report w) (scans s).
