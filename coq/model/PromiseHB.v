(* C01: writer/utils/promise/promise.go at the grain of its synchronisation operations.

   model/PushHandler.v takes the completion of a promise as ONE step (`Promise.Done` = a once-only CAS whose effect the waiting
   Get() calls see as a whole).  In the code Done is four operations -- CompareAndSwap on `pending`, the store of `res`, the
   store of `err`, close(lock) -- and Get is a receive on `lock` followed by two reads.  What makes the four look like one is
   the happens-before edge of the channel: every read of res / err is ordered after the close, which is ordered after the
   stores.  The seeded change C01-e adds a fast path to Get (`if atomic.LoadInt32(&p.pending) == 0 { return p.res, p.err }`):
   the load is ordered after the CAS only, the stores come later -- a Get landing in between returns (0, nil), success for a
   failed INSERT.

   Here: the micro-operation programs of the methods (regenerated from promise.go by translate/gen_c01_promise and compared with
   done_model / get_model / getctx_model on every run), a small-step semantics of any number of threads running such programs
   on one promise under sequentially consistent atomics and Go's channel rules, and the syntactic happens-before check hb_ok.
   proofs/PromiseHBProofs.v: for ALL programs passing hb_ok, all thread counts and all interleavings, every value a Get / GetCtx
   returns is the one the winning Done stored (promise_completion_is_atomic); the fast-path program is refuted. *)
From Coq Require Import List String ZArith Bool.
Import ListNotations.
Open Scope string_scope.

Inductive pop :=
 | PCas (f : string) (old new : Z)            (* if !atomic.CompareAndSwapInt32(&p.f, old, new) { return } *)
 | PFastRet (f : string) (v : Z) (reads : list string)   (* if atomic.LoadInt32(&p.f) == v { return <reads> } *)
 | PStore (f : string)                        (* p.f = <argument of the call> *)
 | PClose (f : string)                        (* close(p.f) *)
 | PRecv (f : string)                         (* <-p.f *)
 | PSelectRet (creads : list string) (ch : string)
       (* select { case <-ctx.Done(): return <creads> (fields of p read; [] = constants only)   case <-p.ch: <the rest> } *)
 | PRet (reads : list string)                 (* return <fields of p read, in order>; [] = constants only *)
 | PUnknown (t : string).                     (* a statement the translator does not understand *)

Definition done_model : list pop := [PCas "pending" 1 0; PStore "res"; PStore "err"; PClose "lock"].
Definition get_model : list pop := [PRecv "lock"; PRet ["res"; "err"]].
Definition getctx_model : list pop := [PSelectRet [] "lock"; PRet ["res"; "err"]].
(* seeded C01-e *)
Definition get_fast : list pop := [PFastRet "pending" 0 ["res"; "err"]; PRecv "lock"; PRet ["res"; "err"]].
Definition getctx_fast : list pop := [PFastRet "pending" 0 ["res"; "err"]; PSelectRet [] "lock"; PRet ["res"; "err"]].

(* ---------------------------------------------------------------- semantics
   One promise made by promise.New(): pending = 1, res / err zero (0), lock open.  Thread number i stores the value i+1 (the
   arguments of ITS Done call); 0 is the zero value.  A thread that cannot move (receive on the open channel, finished) is
   skipped.  `alt` chooses the ctx.Done() case of a select (the context may be cancelled at any time). *)
Record pst := { pend : Z; flds : string -> nat; closed : bool }.
Record thr := { t_wr : bool; t_code : list pop; t_rcv : bool; t_out : option (list nat) }.
Definition upd (m : string -> nat) (f : string) (v : nat) : string -> nat := fun g => if String.eqb g f then v else m g.
Definition pinit : pst := {| pend := 1; flds := fun _ => O; closed := false |}.
Definition goto (t : thr) (k : list pop) : thr := {| t_wr := t_wr t; t_code := k; t_rcv := t_rcv t; t_out := t_out t |}.
Definition rcvd (t : thr) (k : list pop) : thr := {| t_wr := t_wr t; t_code := k; t_rcv := true; t_out := t_out t |}.
Definition ret (s : pst) (t : thr) (reads : list string) : thr :=
  {| t_wr := t_wr t; t_code := []; t_rcv := t_rcv t; t_out := Some (map (flds s) reads) |}.

Definition tstep (i : nat) (alt : bool) (s : pst) (t : thr) : option (pst * thr) :=
  match t_code t with
  | [] => None
  | PCas _ o n :: k =>
      if Z.eqb (pend s) o then Some ({| pend := n; flds := flds s; closed := closed s |}, goto t k) else Some (s, goto t [])
  | PFastRet _ v reads :: k => if Z.eqb (pend s) v then Some (s, ret s t reads) else Some (s, goto t k)
  | PStore f :: k => Some ({| pend := pend s; flds := upd (flds s) f (S i); closed := closed s |}, goto t k)
  | PClose _ :: k => if closed s then None else Some ({| pend := pend s; flds := flds s; closed := true |}, goto t k)
  | PRecv _ :: k => if closed s then Some (s, rcvd t k) else None
  | PSelectRet cr _ :: k => if alt then Some (s, ret s t cr) else if closed s then Some (s, rcvd t k) else None
  | PRet reads :: _ => Some (s, ret s t reads)
  | PUnknown _ :: _ => None
  end.

Fixpoint set_nth {A} (i : nat) (x : A) (l : list A) : list A :=
  match l, i with
  | [], _ => []
  | _ :: r, O => x :: r
  | y :: r, S j => y :: set_nth j x r
  end.
Definition sys_step (s : pst) (ts : list thr) (m : nat * bool) : pst * list thr :=
  match nth_error ts (fst m) with
  | Some t => match tstep (fst m) (snd m) s t with
              | Some (s', t') => (s', set_nth (fst m) t' ts)
              | None => (s, ts)
              end
  | None => (s, ts)
  end.
Fixpoint sys_run (s : pst) (ts : list thr) (sched : list (nat * bool)) : pst * list thr :=
  match sched with
  | [] => (s, ts)
  | m :: r => let '(s', ts') := sys_step s ts m in sys_run s' ts' r
  end.
Definition writer (p : list pop) : thr := {| t_wr := true; t_code := p; t_rcv := false; t_out := None |}.
Definition reader (p : list pop) : thr := {| t_wr := false; t_code := p; t_rcv := false; t_out := None |}.

(* ---------------------------------------------------------------- the syntactic happens-before check *)
Definition is_nilb {A} (l : list A) : bool := match l with [] => true | _ => false end.
Definition subsetb (a b : list string) : bool := forallb (fun x => existsb (String.eqb x) b) a.
Definition plain_field (f : string) : bool := negb (String.eqb f "pending") && negb (String.eqb f "lock").
(* Done: the winning CAS first, then only stores of plain fields, then the close of the channel, nothing after it *)
Fixpoint wpost (c : list pop) : bool :=
  match c with
  | [PClose f] => String.eqb f "lock"
  | PStore f :: k => plain_field f && wpost k
  | _ => false
  end.
Definition wok (c : list pop) : bool :=
  match c with
  | PCas f o n :: k => String.eqb f "pending" && Z.eqb o 1 && Z.eqb n 0 && wpost k
  | _ => false
  end.
Fixpoint stored (c : list pop) : list string :=
  match c with
  | [] => []
  | PStore f :: k => f :: stored k
  | _ :: k => stored k
  end.
(* Get / GetCtx: fields are read only AFTER a receive on the channel (b = a receive has happened on this path), and only
   fields Done stores; an atomic load of `pending` orders nothing (the stores come after the CAS): a fast path may only return
   constants.  Readers do not write. *)
Definition reads_ok (sf : list string) (b : bool) (reads : list string) : bool := if b then subsetb reads sf else is_nilb reads.
Fixpoint rok (sf : list string) (b : bool) (c : list pop) : bool :=
  match c with
  | [] => true
  | PRecv f :: k => String.eqb f "lock" && rok sf true k
  | PSelectRet cr ch :: k => String.eqb ch "lock" && reads_ok sf b cr && rok sf true k
  | PFastRet _ _ reads :: k => reads_ok sf b reads && rok sf b k
  | PRet reads :: _ => reads_ok sf b reads
  | _ => false
  end.
Definition hb_ok (done : list pop) (getters : list (list pop)) : bool :=
  wok done && forallb (rok (stored done) false) getters.
(* the violations, for the report: the fields a getter reads without a receive before *)
Fixpoint unordered_reads (b : bool) (c : list pop) : list string :=
  match c with
  | [] => []
  | PRecv _ :: k => unordered_reads true k
  | PSelectRet cr _ :: k => (if b then [] else cr) ++ unordered_reads true k
  | PFastRet _ _ reads :: k => (if b then [] else reads) ++ unordered_reads b k
  | PRet reads :: _ => if b then [] else reads
  | _ :: k => unordered_reads b k
  end.

(* what a run shows: the outputs of the threads, and the demand on them: every getter that returned field values returned the
   value w of ONE Done call in every position, and the channel had been closed *)
Definition outs (ts : list thr) : list (list nat) := flat_map (fun t => match t_out t with Some o => [o] | None => [] end) ts.
Definition all_eq (w : nat) (o : list nat) : bool := forallb (Nat.eqb w) o.

(* ---------------------------------------------------------------- comparison with the regenerated programs *)
Fixpoint strs_eqb (a b : list string) : bool :=
  match a, b with [], [] => true | x :: r, y :: r' => String.eqb x y && strs_eqb r r' | _, _ => false end.
Definition pop_eqb (a b : pop) : bool :=
  match a, b with
  | PCas f o n, PCas f' o' n' => String.eqb f f' && Z.eqb o o' && Z.eqb n n'
  | PFastRet f v r, PFastRet f' v' r' => String.eqb f f' && Z.eqb v v' && strs_eqb r r'
  | PStore f, PStore f' | PClose f, PClose f' | PRecv f, PRecv f' | PUnknown f, PUnknown f' => String.eqb f f'
  | PSelectRet c h, PSelectRet c' h' => strs_eqb c c' && String.eqb h h'
  | PRet r, PRet r' => strs_eqb r r'
  | _, _ => false
  end.
Fixpoint prog_eqb (a b : list pop) : bool :=
  match a, b with [], [] => true | x :: r, y :: r' => pop_eqb x y && prog_eqb r r' | _, _ => false end.
Definition methods_model : list (string * list pop) := [("Done", done_model); ("Get", get_model); ("GetCtx", getctx_model)].
Fixpoint methods_eqb (a b : list (string * list pop)) : bool :=
  match a, b with
  | [], [] => true
  | x :: r, y :: r' => String.eqb (fst x) (fst y) && prog_eqb (snd x) (snd y) && methods_eqb r r'
  | _, _ => false
  end.
(* the constructors: New makes the state pinit (pending 1, channel open, res / err zero); Fulfilled makes a state in which the
   channel is closed and res / err hold the arguments -- the state after a complete Done, where every getter passes at once *)
Definition ctors_model : list (string * list (string * string)) :=
  [("Fulfilled", [("lock", "closed channel"); ("err", "argument"); ("res", "argument"); ("pending", "0")]);
   ("New", [("lock", "open channel"); ("pending", "1")])].
Fixpoint pairs_eqb (a b : list (string * string)) : bool :=
  match a, b with [], [] => true | x :: r, y :: r' => String.eqb (fst x) (fst y) && String.eqb (snd x) (snd y) && pairs_eqb r r' | _, _ => false end.
Fixpoint ctors_eqb (a b : list (string * list (string * string))) : bool :=
  match a, b with
  | [], [] => true
  | x :: r, y :: r' => String.eqb (fst x) (fst y) && pairs_eqb (snd x) (snd y) && ctors_eqb r r'
  | _, _ => false
  end.
(* the check run on the regenerated methods: the one called Done is the writer, every other method a getter *)
Definition method (ms : list (string * list pop)) (n : string) : list pop :=
  match find (fun m => String.eqb (fst m) n) ms with Some m => snd m | None => [] end.
Definition getters_of (ms : list (string * list pop)) : list (string * list pop) := filter (fun m => negb (String.eqb (fst m) "Done")) ms.
Definition gen_hb_ok (ms : list (string * list pop)) : bool := hb_ok (method ms "Done") (map snd (getters_of ms)).
Definition gen_unordered (ms : list (string * list pop)) : list (string * list string) :=
  filter (fun x => negb (is_nilb (snd x))) (map (fun m => (fst m, unordered_reads false (snd m))) (getters_of ms)).
