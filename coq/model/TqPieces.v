(* C10 — the TraceQL renderer of C11 (model/TqSql.v rexpr/rsel, byte-exact model of Select.String and of the
   planner-local SQL objects of clickhouse_transpiler) factored through the segmented text of model/SqlPieces.v:
   StringVal nodes, the regular expression of matchRe and the attribute name of sqlAttrValue (all printed by
   StringVal.String) stay value pieces; RawStr ('s' written by fmt.Sprintf without escaping) is a raw-quoted piece.
   Executable definitions only. *)
From Coq Require Import List ZArith NArith String Ascii Bool.
From Qryn Require Import model.ChLex model.SqlPieces model.TqSql.
Import ListNotations.
Open Scope string_scope.
Open Scope list_scope.

Fixpoint tq_bitset (l : list rtext) (i : N) : list rtext :=
  match l with
  | [] => []
  | c :: r => (RTxt "bitShiftLeft(toUInt64(" :: c ++ [RTxt "),"; RTxt (TqSql.string_of_N i); RTxt ")"]) :: tq_bitset r (i + 1)%N
  end.
Fixpoint tq_bitset8 (l : list rtext) (i : N) : list rtext :=
  match l with
  | [] => []
  | c :: r => (RTxt "bitShiftLeft(" :: c ++ [RTxt ","; RTxt (TqSql.string_of_N i); RTxt ")"]) :: tq_bitset8 r (i + 1)%N
  end.

Definition tq_popt (f : expr -> rtext) (kw : string) (o : option expr) : rtext :=
  match o with None => [] | Some e => RTxt kw :: f e end.
Definition tq_plist (f : expr -> rtext) (kw : string) (l : list expr) : rtext :=
  match l with [] => [] | _ => RTxt kw :: pjoin ", " (map f l) end.

Fixpoint tq_pexpr (e : expr) : rtext :=
  match e with
  | Id s => [RTxt s]
  | Raw s => [RTxt s]
  | NumLit s => [RTxt s]
  | RawStr s => [RQid s]
  | StrV s => [RLit s]
  | IntV z => [RTxt (TqSql.string_of_Z z)]
  | FloatV s => [RTxt s]
  | LOp fn cl => pjoin (" " ++ lop_str fn ++ " ")%string (map (fun c => paren (tq_pexpr c)) cl)
  | InE l r => tq_pexpr l ++ RTxt " IN (" :: pjoin "," (map tq_pexpr r) ++ [RTxt ")"]
  | WRef a => [RTxt a]
  | Col e a => if String.eqb a "" then tq_pexpr e else tq_pexpr e ++ [RTxt " as "; RTxt a]
  | Ord e desc => tq_pexpr e ++ [RTxt (if desc then " desc" else " asc")]
  | Fn f args => RTxt (fname_str f) :: RTxt "(" :: pjoin ", " (map tq_pexpr args) ++ [RTxt ")"]
  | PFn f ps args => RTxt (fname_str f) :: RTxt "(" :: pjoin ", " (map tq_pexpr ps) ++ RTxt ")(" :: pjoin ", " (map tq_pexpr args) ++ [RTxt ")"]
  | Distinct e => RTxt "distinct " :: tq_pexpr e
  | Bin op a b => tq_pexpr a ++ RTxt " " :: RTxt (binop_str op) :: RTxt " " :: tq_pexpr b
  | EqBare a b => tq_pexpr a ++ RTxt " == " :: tq_pexpr b
  | Tuple l => RTxt "(" :: pjoin ", " (map tq_pexpr l) ++ [RTxt ")"]
  | Lambda x b => RTxt x :: RTxt " -> " :: tq_pexpr b
  | BitSet terms => pjoin "+" (tq_bitset (map tq_pexpr terms) 0%N)
  | BitSet8 terms => pjoin "+" (tq_bitset8 (map tq_pexpr terms) 0%N)
  | BitAnd l r => RTxt "bitAnd(" :: tq_pexpr l ++ RTxt "," :: tq_pexpr r ++ [RTxt ")"]
  | GroupBitOr e a => let s := RTxt "groupBitOr(" :: tq_pexpr e ++ [RTxt ")"] in
                      if String.eqb a "" then s else s ++ [RTxt " as "; RTxt a]
  | MatchRe f re => RTxt "match(" :: tq_pexpr f ++ [RTxt ","; RLit re; RTxt ")"]
  | AttrValue attr => [RTxt "anyIf(toFloat64OrNull(val), key == "; RLit attr; RTxt ")"]
  | Intersect l => RTxt "(" :: pjoin " INTERSECT " (map (tq_psel true) l) ++ [RTxt ")"]
  | Union l => RTxt "(" :: pjoin " UNION ALL " (map (tq_psel true) l) ++ [RTxt ")"]
  end
with tq_psel (top : bool) (s : select) : rtext :=
  match s with
  | Sel withs distinct cols from joins pw wh hv gb ob lim =>
    (if top then match withs with [] => [] | _ =>
        RTxt "WITH " :: pjoin "," (map (fun w => RTxt (fst w) :: RTxt " as (" :: tq_psel false (snd w) ++ [RTxt ")"]) withs) end
     else [])
    ++ RTxt " SELECT " :: RTxt (if distinct then " DISTINCT " else "") :: pjoin ", " (map tq_pexpr cols)
    ++ match from with None => [] | Some f =>
         RTxt " FROM " :: tq_pexpr f ++
         List.concat (map (fun j => RTxt " " :: RTxt (jkind_str (fst (fst j))) :: RTxt " JOIN " :: tq_pexpr (snd (fst j)) ++ RTxt " " ::
                                         match snd j with Some on => RTxt "ON " :: tq_pexpr on | None => [] end) joins)
       end
    ++ tq_popt tq_pexpr " PREWHERE " pw ++ tq_popt tq_pexpr " WHERE " wh ++ tq_plist tq_pexpr " GROUP BY " gb
    ++ tq_popt tq_pexpr " HAVING " hv ++ tq_plist tq_pexpr " ORDER BY " ob ++ tq_popt tq_pexpr " LIMIT " lim
  end.

Definition tq_pieces (s : select) : rtext := tq_psel true s.
