(* C10 — the TraceQL renderer of C11 (model/TqSql.v rexpr/rsel, byte-exact model of Select.String and of the
   planner-local SQL objects of clickhouse_transpiler) factored through the segmented text of model/SqlPieces.v:
   StringVal nodes, the regular expression of matchRe and the attribute name of sqlAttrValue (all printed by
   StringVal.String) stay value pieces; RawStr ('s' written by fmt.Sprintf without escaping) is a raw-quoted piece.
   Executable definitions only. *)
From Coq Require Import List ZArith NArith String Ascii Bool.
From Qryn Require Import model.ChLex model.SqlPieces model.TqSql.
From Qryn Require model.Quote.   (* qualified: Quote.replace_all *)
Import ListNotations.
Open Scope string_scope.
Open Scope list_scope.

Fixpoint tq_bitset (l : list rtext) (i : N) : list rtext :=
  match l with
  | [] => []
  | c :: r => (RTxt "bitShiftLeft(toUInt64(" :: c ++ [RTxt "),"; RTxt (TqSql.string_of_N i); RTxt ")"]) :: tq_bitset r (i + 1)%N
  end.
Fixpoint tq_bitset8 (l : list rtext) (i : N) : list rtext :=
  match l with
  | [] => []
  | c :: r => (RTxt "bitShiftLeft(" :: c ++ [RTxt ","; RTxt (TqSql.string_of_N i); RTxt ")"]) :: tq_bitset8 r (i + 1)%N
  end.

Definition tq_popt (f : expr -> rtext) (kw : string) (o : option expr) : rtext :=
  match o with None => [] | Some e => RTxt kw :: f e end.
Definition tq_plist (f : expr -> rtext) (kw : string) (l : list expr) : rtext :=
  match l with [] => [] | _ => RTxt kw :: pjoin ", " (map f l) end.

Fixpoint tq_pexpr (e : expr) : rtext :=
  match e with
  | Id s => [RTxt s]
  | Raw s => [RTxt s]
  | NumLit s => [RTxt s]
  | RawStr s => [RQid s]
  | StrV s => [RLit s]
  | IntV z => [RTxt (TqSql.string_of_Z z)]
  | FloatV s => [RTxt s]
  | LOp fn cl => pjoin (" " ++ lop_str fn ++ " ")%string (map (fun c => paren (tq_pexpr c)) cl)
  | InE l r => tq_pexpr l ++ RTxt " IN (" :: pjoin "," (map tq_pexpr r) ++ [RTxt ")"]
  | WRef a => [RTxt a]
  | Col e a => if String.eqb a "" then tq_pexpr e else tq_pexpr e ++ [RTxt " as "; RTxt a]
  | Ord e desc => tq_pexpr e ++ [RTxt (if desc then " desc" else " asc")]
  | Fn f args => RTxt (fname_str f) :: RTxt "(" :: pjoin ", " (map tq_pexpr args) ++ [RTxt ")"]
  | PFn f ps args => RTxt (fname_str f) :: RTxt "(" :: pjoin ", " (map tq_pexpr ps) ++ RTxt ")(" :: pjoin ", " (map tq_pexpr args) ++ [RTxt ")"]
  | Distinct e => RTxt "distinct " :: tq_pexpr e
  | Bin op a b => tq_pexpr a ++ RTxt " " :: RTxt (binop_str op) :: RTxt " " :: tq_pexpr b
  | EqBare a b => tq_pexpr a ++ RTxt " == " :: tq_pexpr b
  | Tuple l => RTxt "(" :: pjoin ", " (map tq_pexpr l) ++ [RTxt ")"]
  | Lambda x b => RTxt x :: RTxt " -> " :: tq_pexpr b
  | BitSet terms => pjoin "+" (tq_bitset (map tq_pexpr terms) 0%N)
  | BitSet8 terms => pjoin "+" (tq_bitset8 (map tq_pexpr terms) 0%N)
  | BitAnd l r => RTxt "bitAnd(" :: tq_pexpr l ++ RTxt "," :: tq_pexpr r ++ [RTxt ")"]
  | GroupBitOr e a => let s := RTxt "groupBitOr(" :: tq_pexpr e ++ [RTxt ")"] in
                      if String.eqb a "" then s else s ++ [RTxt " as "; RTxt a]
  | MatchRe f re => RTxt "match(" :: tq_pexpr f ++ [RTxt ","; RLit re; RTxt ")"]
  | AttrValue attr => [RTxt "anyIf(toFloat64OrNull(val), key == "; RLit attr; RTxt ")"]
  | Intersect l => RTxt "(" :: pjoin " INTERSECT " (map (tq_psel true) l) ++ [RTxt ")"]
  | Union l => RTxt "(" :: pjoin " UNION ALL " (map (tq_psel true) l) ++ [RTxt ")"]
  end
with tq_psel (top : bool) (s : select) : rtext :=
  match s with
  | Sel withs distinct cols from joins pw wh hv gb ob lim =>
    (if top then match withs with [] => [] | _ =>
        RTxt "WITH " :: pjoin "," (map (fun w => RTxt (fst w) :: RTxt " as (" :: tq_psel false (snd w) ++ [RTxt ")"]) withs) end
     else [])
    ++ RTxt " SELECT " :: RTxt (if distinct then " DISTINCT " else "") :: pjoin ", " (map tq_pexpr cols)
    ++ match from with None => [] | Some f =>
         RTxt " FROM " :: tq_pexpr f ++
         List.concat (map (fun j => RTxt " " :: RTxt (jkind_str (fst (fst j))) :: RTxt " JOIN " :: tq_pexpr (snd (fst j)) ++ RTxt " " ::
                                         match snd j with Some on => RTxt "ON " :: tq_pexpr on | None => [] end) joins)
       end
    ++ tq_popt tq_pexpr " PREWHERE " pw ++ tq_popt tq_pexpr " WHERE " wh ++ tq_plist tq_pexpr " GROUP BY " gb
    ++ tq_popt tq_pexpr " HAVING " hv ++ tq_plist tq_pexpr " ORDER BY " ob ++ tq_popt tq_pexpr " LIMIT " lim
  end.

Definition tq_pieces (s : select) : rtext := tq_psel true s.

(* ---------- replacing the content of every value of a TraceQL tree ---------- *)
(* [tq_subst f e]: e with the content s of every StringVal node, of the regular expression of every matchRe and of the
   attribute name of every sqlAttrValue replaced by f s (the three things StringVal.String prints).  With
   f = "replace the harmless marker by the request string" this is the tree the planners build for the request string from
   the tree they build for the marker (checked per case on the real trees by checks/c10.py run_tq_tree_tie). *)
Fixpoint tq_subst (f : string -> string) (e : expr) {struct e} : expr :=
  match e with
  | Id s => Id s
  | Raw s => Raw s
  | NumLit s => NumLit s
  | RawStr s => RawStr s
  | StrV s => StrV (f s)
  | IntV z => IntV z
  | FloatV s => FloatV s
  | LOp fn cl => LOp fn (map (tq_subst f) cl)
  | InE l r => InE (tq_subst f l) (map (tq_subst f) r)
  | WRef a => WRef a
  | Col e a => Col (tq_subst f e) a
  | Ord e d => Ord (tq_subst f e) d
  | Fn g args => Fn g (map (tq_subst f) args)
  | PFn g ps args => PFn g (map (tq_subst f) ps) (map (tq_subst f) args)
  | Distinct e => Distinct (tq_subst f e)
  | Bin op a b => Bin op (tq_subst f a) (tq_subst f b)
  | EqBare a b => EqBare (tq_subst f a) (tq_subst f b)
  | Tuple l => Tuple (map (tq_subst f) l)
  | Lambda x b => Lambda x (tq_subst f b)
  | BitSet terms => BitSet (map (tq_subst f) terms)
  | BitSet8 terms => BitSet8 (map (tq_subst f) terms)
  | BitAnd l r => BitAnd (tq_subst f l) (tq_subst f r)
  | GroupBitOr e a => GroupBitOr (tq_subst f e) a
  | MatchRe fl re => MatchRe (tq_subst f fl) (f re)
  | AttrValue attr => AttrValue (f attr)
  | Intersect l => Intersect (map (tq_subst_sel f) l)
  | Union l => Union (map (tq_subst_sel f) l)
  end
with tq_subst_sel (f : string -> string) (s : select) {struct s} : select :=
  match s with
  | Sel withs distinct cols from joins pw wh hv gb ob lim =>
    Sel (map (fun w => (fst w, tq_subst_sel f (snd w))) withs) distinct (map (tq_subst f) cols) (map_opt (tq_subst f) from)
        (map (fun j => (fst (fst j), tq_subst f (snd (fst j)), map_opt (tq_subst f) (snd j))) joins)
        (map_opt (tq_subst f) pw) (map_opt (tq_subst f) wh) (map_opt (tq_subst f) hv)
        (map (tq_subst f) gb) (map (tq_subst f) ob) (map_opt (tq_subst f) lim)
  end.

(* what the per-case tie evaluates (extracted to OCaml): the segmented text of a real tree, the value-independent check,
   the flattened text (compared with the SQL the real planner printed) and the renderer's own text *)
Record tq_stmt := { tq_ok : bool; tq_flat : string; tq_render : string; tq_ps : rtext }.
Definition tq_stmt_of (s : select) : tq_stmt :=
  let p := tq_pieces s in {| tq_ok := pok QN p; tq_flat := flat p; tq_render := TqSql.render s; tq_ps := p |}.
(* the tree for the request string is the tree for the marker with the marker replaced by the intended bytes in every value *)
Definition tq_marker_subst (marker want : string) (base : select) : select :=
  tq_subst_sel (Quote.replace_all marker want) base.

(* ---------- TraceQL trees that differ only in their values ---------- *)
Definition tq_erase : expr -> expr := tq_subst (fun _ => EmptyString).
Definition tq_erase_sel : select -> select := tq_subst_sel (fun _ => EmptyString).
