(* The remaining fields of the stored OTLP span on the wire (property C06): extension of model/SpansWireX.v.

   OTLPDecoder.Decode re-marshals the span it was sent with its attribute list extended; every other field a client
   sets travels through untouched and is part of the stored payload, and the read path (proto.Unmarshal, parseOTLP)
   hands it on.  Besides the fields of Spans.ospan and SpansWireX.oextra a trace.v1.Span carries

     trace_state = 3 (string), dropped_attributes_count = 10 (uint32), dropped_events_count = 12 (uint32),
     links = 13 (repeated Link), dropped_links_count = 14 (uint32), flags = 16 (fixed32)
     Span.Link : trace_id = 1, span_id = 2, trace_state = 3, attributes = 4 (repeated KeyValue),
                 dropped_attributes_count = 5 (uint32), flags = 6 (fixed32)

   proto.Marshal emits known fields in field-number order: trace_state sits BETWEEN span_id and parent_span_id, the
   dropped counts between attributes, events, links and status.  [pieces] lists the fields of the whole span by
   number; [enc_spany] serialises them in that order.  The decoders of SpansWire / SpansWireX skip every field number
   they do not know, so they read their part from these bytes (proofs/SpansWireYProofs.v).

   Executable definitions only. *)
From Coq Require Import List ZArith NArith Bool String Ascii Uint63.
From Qryn Require Import model.Spans model.SpansChunk model.SpansWire model.SpansStore model.SpansWireX.
Import ListNotations.
Open Scope string_scope.
Open Scope Z_scope.

Record olink := { l_trace : string; l_span : string; l_state : string; l_attrs : attrs; l_dropped : Z; l_flags : Z }.
Record omore := { y_state : string; y_dattrs : Z; y_devents : Z; y_links : list olink; y_dlinks : Z; y_flags : Z }.
Definition no_more : omore := {| y_state := ""; y_dattrs := 0; y_devents := 0; y_links := []; y_dlinks := 0; y_flags := 0 |}.

Definition fixed32_field (n : N) (z : Z) : list field := if z =? 0 then [] else [(n, RFixed32 (Z.to_N z))].

Definition fields_link (l : olink) : list field :=
  (bytes_field 1 (l_trace l) ++ bytes_field 2 (l_span l) ++ bytes_field 3 (l_state l)
   ++ map (fun kv => (4%N, RBytes (enc_kv kv))) (l_attrs l)
   ++ varint_field 5 (l_dropped l) ++ fixed32_field 6 (l_flags l))%list.
Definition enc_link (l : olink) : string := ser_fields (fields_link l).

(* the fields of the whole span, by field number, in the order proto.Marshal writes them *)
Definition pieces (s : ospan) (x : oextra) (y : omore) : list (N * list field) :=
  [ (1%N, bytes_field 1 (o_trace s)); (2%N, bytes_field 2 (o_span s)); (3%N, bytes_field 3 (y_state y));
    (4%N, bytes_field 4 (o_parent s)); (5%N, bytes_field 5 (o_name s)); (6%N, varint_field 6 (o_kind s));
    (7%N, fixed64_field 7 (o_start s)); (8%N, fixed64_field 8 (o_end s)); (9%N, fields_attrs (o_attrs s));
    (10%N, varint_field 10 (y_dattrs y));
    (11%N, map (fun e => (11%N, RBytes (enc_event e))) (x_events x));
    (12%N, varint_field 12 (y_devents y));
    (13%N, map (fun l => (13%N, RBytes (enc_link l))) (y_links y));
    (14%N, varint_field 14 (y_dlinks y));
    (15%N, match x_status x with Some st => [(15%N, RBytes (enc_status st))] | None => [] end);
    (16%N, fixed32_field 16 (y_flags y)) ].
Definition fields_spany (s : ospan) (x : oextra) (y : omore) : list field := List.concat (map snd (pieces s x y)).
Definition enc_spany (s : ospan) (x : oextra) (y : omore) : string := ser_fields (fields_spany s x y).

(* ------------------------------------------------------------------ decoding *)
Definition uint32_of (n : N) : Z := Z.of_N n mod 4294967296.

Definition link0 : olink := {| l_trace := EmptyString; l_span := EmptyString; l_state := EmptyString; l_attrs := []; l_dropped := 0; l_flags := 0 |}.
Definition link_step (st : olink) (f : field) : option olink :=
  let '(n, v) := f in
  match v with
  | RBytes b =>
      if (n =? 1)%N then Some {| l_trace := b; l_span := l_span st; l_state := l_state st; l_attrs := l_attrs st; l_dropped := l_dropped st; l_flags := l_flags st |}
      else if (n =? 2)%N then Some {| l_trace := l_trace st; l_span := b; l_state := l_state st; l_attrs := l_attrs st; l_dropped := l_dropped st; l_flags := l_flags st |}
      else if (n =? 3)%N then Some {| l_trace := l_trace st; l_span := l_span st; l_state := b; l_attrs := l_attrs st; l_dropped := l_dropped st; l_flags := l_flags st |}
      else Some st
  | RVarint x =>
      if (n =? 5)%N then Some {| l_trace := l_trace st; l_span := l_span st; l_state := l_state st; l_attrs := l_attrs st; l_dropped := uint32_of x; l_flags := l_flags st |}
      else Some st
  | RFixed32 x =>
      if (n =? 6)%N then Some {| l_trace := l_trace st; l_span := l_span st; l_state := l_state st; l_attrs := l_attrs st; l_dropped := l_dropped st; l_flags := Z.of_N x |}
      else Some st
  | RFixed64 _ => Some st
  end.
Definition dec_link (fuel : nat) (b : string) : option olink :=
  match raw_fields b with
  | None => None
  | Some fs =>
      match fold_opt link_step fs link0, dec_kvs (dec_any_f fuel) 4 fs with
      | Some st, Some a => Some {| l_trace := l_trace st; l_span := l_span st; l_state := l_state st; l_attrs := a;
                                   l_dropped := l_dropped st; l_flags := l_flags st |}
      | _, _ => None
      end
  end.
Fixpoint dec_links (fuel : nat) (fs : list field) : option (list olink) :=
  match fs with
  | [] => Some []
  | (n, v) :: r =>
      match v with
      | RBytes b =>
          if (n =? 13)%N then
            match dec_link fuel b with
            | Some l => match dec_links fuel r with Some ls => Some (l :: ls) | None => None end
            | None => None
            end
          else dec_links fuel r
      | _ => dec_links fuel r
      end
  end.
Definition more_step (st : omore) (f : field) : option omore :=
  let '(n, v) := f in
  match v with
  | RBytes b =>
      if (n =? 3)%N then Some {| y_state := b; y_dattrs := y_dattrs st; y_devents := y_devents st; y_links := y_links st; y_dlinks := y_dlinks st; y_flags := y_flags st |}
      else Some st
  | RVarint x =>
      if (n =? 10)%N then Some {| y_state := y_state st; y_dattrs := uint32_of x; y_devents := y_devents st; y_links := y_links st; y_dlinks := y_dlinks st; y_flags := y_flags st |}
      else if (n =? 12)%N then Some {| y_state := y_state st; y_dattrs := y_dattrs st; y_devents := uint32_of x; y_links := y_links st; y_dlinks := y_dlinks st; y_flags := y_flags st |}
      else if (n =? 14)%N then Some {| y_state := y_state st; y_dattrs := y_dattrs st; y_devents := y_devents st; y_links := y_links st; y_dlinks := uint32_of x; y_flags := y_flags st |}
      else Some st
  | RFixed32 x =>
      if (n =? 16)%N then Some {| y_state := y_state st; y_dattrs := y_dattrs st; y_devents := y_devents st; y_links := y_links st; y_dlinks := y_dlinks st; y_flags := Z.of_N x |}
      else Some st
  | RFixed64 _ => Some st
  end.
Definition dec_spany (b : string) : option (ospan * oextra * omore) :=
  match dec_spanx b, raw_fields b with
  | Some (s, x), Some fs =>
      match fold_opt more_step fs no_more, dec_links (String.length b) fs with
      | Some st, Some ls => Some (s, x, {| y_state := y_state st; y_dattrs := y_dattrs st; y_devents := y_devents st; y_links := ls;
                                           y_dlinks := y_dlinks st; y_flags := y_flags st |})
      | _, _ => None
      end
  | _, _ => None
  end.

(* ------------------------------------------------------------------ the domain of the round trip: uint32 counts and flags *)
Definition u32_ok (z : Z) : bool := (0 <=? z) && (z <? 4294967296).
Definition link_ok (l : olink) : bool :=
  u32_ok (l_dropped l) && u32_ok (l_flags l) && forallb (fun kv => any_ok (snd kv)) (l_attrs l).
Definition more_ok (y : omore) : bool :=
  u32_ok (y_dattrs y) && u32_ok (y_devents y) && u32_ok (y_dlinks y) && u32_ok (y_flags y) && forallb link_ok (y_links y).

(* ------------------------------------------------------------------ cases *)
Definition olink_eqb (a b : olink) : bool :=
  String.eqb (l_trace a) (l_trace b) && String.eqb (l_span a) (l_span b) && String.eqb (l_state a) (l_state b)
  && list_eqb attr_eqb (l_attrs a) (l_attrs b) && (l_dropped a =? l_dropped b) && (l_flags a =? l_flags b).
Definition omore_eqb (a b : omore) : bool :=
  String.eqb (y_state a) (y_state b) && (y_dattrs a =? y_dattrs b) && (y_devents a =? y_devents b)
  && list_eqb olink_eqb (y_links a) (y_links b) && (y_dlinks a =? y_dlinks b) && (y_flags a =? y_flags b).

(* per OTLP request: the xcase (extras, observed payload lengths / fingerprints, observed events and status), the remaining fields of
   its spans in batch order, and per stored row what OutputQuery returned of them *)
(* yc_read: per stored row the further fields and the dropped_attributes_count of every event of the span OutputQuery returned *)
Record ycase := { yc_x : xcase; yc_more : list omore; yc_read : list (option (omore * list Z)) }.

Fixpoint zip_more {A} (zs : list A) (ys : list omore) : list (A * omore) :=
  match zs with
  | [] => []
  | z :: zs' => match ys with y :: ys' => (z, y) :: zip_more zs' ys' | [] => (z, no_more) :: zip_more zs' [] end
  end.
Definition wirey_of (p : span_rows * oextra * omore) : option (Z * (int * int)) :=
  match t_payload (fst (fst (fst p))) with
  | POtlp s => let b := enc_spany s (snd (fst p)) (snd p) in Some (zlen b, fp61 b)
  | _ => None
  end.
Definition ycase_rows (c : ycase) : list (span_rows * oextra * omore) :=
  zip_more (zip_extra (fst (decode_stream fixed (xc_in (yc_x c)))) (xc_extra (yc_x c))) (yc_more c).
Definition wirey_matches (c : ycase) : bool :=
  let zs := ycase_rows c in
  let obs := xc_obs (yc_x c) in
  all2 (fun o z => match wirey_of z with Some w => obs_eqb w o | None => false end) obs (firstn (List.length obs) zs)
  && Nat.leb (List.length obs) (List.length zs)
  && all2 (fun o z => match o with
                      | Some (y, d) => omore_eqb y (snd z) && list_eqb Z.eqb d (map e_dropped (x_events (snd (fst z))))
                      | None => true
                      end)
          (yc_read c) (firstn (List.length (yc_read c)) zs).
(* the read-back half of SpansWireX.wirex_matches (its byte half is superseded by wirey_matches: the bytes now carry the further fields) *)
Definition wirex_read_matches (c : xcase) : bool :=
  let zs := zip_extra (fst (decode_stream fixed (xc_in c))) (xc_extra c) in
  all2 (fun o z => match o with
                   | Some (ev, code) => list_eqb ev_eqb ev (fst (read_extra (snd z))) && (code =? snd (read_extra (snd z)))
                   | None => true
                   end)
       (xc_read c) (firstn (List.length (xc_read c)) zs).
Definition wirex_read_mismatches (cs : list xcase) : list Z := map xc_id (filter (fun c => negb (wirex_read_matches c)) cs).
Definition wirey_mismatches (cs : list ycase) : list Z := map (fun c => xc_id (yc_x c)) (filter (fun c => negb (wirey_matches c)) cs).
(* the property's demand on the OBSERVED read-back, independent of the decoders' model: the k-th stored span of a request returns the
   trace state, dropped counts (its events' included), flags and links of the k-th pushed span *)
Fixpoint yread_ok (os : list (option (omore * list Z))) (xs : list oextra) (ys : list omore) : bool :=
  match os, xs, ys with
  | o :: os', x :: xs', y :: ys' =>
      match o with Some (r, d) => omore_eqb r y && list_eqb Z.eqb d (map e_dropped (x_events x)) | None => true end && yread_ok os' xs' ys'
  | _, _, _ => true
  end.
Definition yread_violations (cs : list ycase) : list Z :=
  map (fun c => xc_id (yc_x c)) (filter (fun c => negb (yread_ok (yc_read c) (xc_extra (yc_x c)) (yc_more c))) cs).
(* every payload of the run lies in the domain of the round-trip theorem and decodes to what was encoded *)
Definition wirey_roundtrips (c : ycase) : bool :=
  forallb (fun z => match t_payload (fst (fst (fst z))) with
                    | POtlp s => span_wire_ok s && extra_ok (snd (fst z)) && more_ok (snd z)
                                 && match dec_spany (enc_spany s (snd (fst z)) (snd z)) with
                                    | Some (s', x', y') => ospan_eqb s s' && oextra_eqb (snd (fst z)) x' && omore_eqb (snd z) y'
                                    | None => false
                                    end
                    | _ => true
                    end) (ycase_rows c).
Definition wirey_roundtrip_failures (cs : list ycase) : list Z :=
  map (fun c => xc_id (yc_x c)) (filter (fun c => negb (wirey_roundtrips c)) cs).
