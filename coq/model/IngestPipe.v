(* Property C05, second model file -- the request pipeline AROUND the decoders as executable programs:

     1. the parser goroutines of writer/utils/unmarshal/builder.go (doParseSpans / doParseLogs / doParseProfile, the
        deferred tamePanic, the PreParse-error goroutine of Do) as small PROGRAMS (regenerated from the source by
        translate/gen_goroutines_writer: gen_parser_programs, gen_tame_panic) with an interpreter: statements are
        channel operations (send, close), `err := parser.Decode()`, `if err != nil {..}`, `return`, and deferred calls
        with Go's panic/recover discipline.  The decoder is an ORACLE: it may hand any number of responses to the
        channel (flushes of the batching handlers) and then return nil, return an error, or panic;
     2. the consumer (controller/builder.go doParse: `for response := range res`, early return on an error response
        with or without the drain goroutine) and the unbuffered channel between the two: a run of the system ends with
        everybody finished, or with the producer / the handler / the drain goroutine blocked forever, or with a crash;
     3. the batching handlers at COLUMN level (onSpan as a generated list of appends per table, with the index
        expressions that can panic): what is sent to the insert services is rectangular;
     4. a work measure: channel operations, handler iterations and goroutines per request are linear in the number
        of decoder events, flushes are bounded by the accumulated bytes;
     5. the per-route parser tables (Content-Type prefix dispatch by iteration over a Go map). *)
From Coq Require Import List String Ascii ZArith NArith Bool.
From Qryn Require Import model.IngestRobust.
Import ListNotations.
Open Scope string_scope.

(* ------------------------------------------------------------------------------------------ *)
(** * 1. Goroutine programs *)

Inductive gsimple :=
| GDecode            (* err := parser.Decode() *)
| GSendErr           (* p.res <- &model.ParserResponse{Error: err} *)
| GSendPanic         (* p.res <- &model.ParserResponse{Error: fmt.Errorf("panic: %v", err)} *)
| GSendBatch         (* p.res <- &model.ParserResponse{<requests of the batch>} *)
| GSendBatchIfRows   (* if len(p.profile.TimestampNs) > 0 { p.res <- ... } *)
| GFlush             (* p.tsSpl.flush(): sends the batch *)
| GReset             (* p.tsSpl.reset(): no channel operation *)
| GClose             (* close(p.res) *)
| GReturn
| GUnknown.          (* a statement the translator does not understand *)

Inductive gstmt := GS (x : gsimple) | GIfErr (b : list gsimple).   (* if err != nil { b } *)

(* deferred calls, in source order (they run last-in first-out) *)
Inductive gdefer :=
| DTame                  (* defer p.tamePanic(): `if err := recover(); err != nil { <tame body> }` *)
| DPlain (x : gsimple).  (* defer <statement> *)

Record gprog := { gp_defers : list gdefer; gp_body : list gstmt }.

Definition if_err_model : gstmt := GIfErr [GSendErr; GClose; GReturn].
Definition spans_prog : gprog :=
  {| gp_defers := [DTame]; gp_body := [GS GDecode; if_err_model; GS GSendBatch; GS GClose] |}.
Definition logs_prog : gprog :=
  {| gp_defers := [DTame]; gp_body := [GS GDecode; if_err_model; GS GFlush; GS GReset; GS GClose] |}.
Definition prof_prog : gprog :=
  {| gp_defers := [DTame]; gp_body := [GS GDecode; if_err_model; GS GSendBatchIfRows; GS GClose] |}.
(* parserDoer.Do: go func() { p.res <- &model.ParserResponse{Error: err}; close(p.res) }()  (no recover) *)
Definition pre_err_prog : gprog := {| gp_defers := []; gp_body := [GS GSendErr; GS GClose] |}.
(* the body of `if err := recover(); err != nil { .. }` in tamePanic (logging and the bare recover() call left out) *)
Definition tame_model : list gsimple := [GSendPanic; GClose].

(* (enclosing function, program) as the translator lists them *)
Definition parser_programs_model : list (string * gprog) := [
  ("parserDoer.Do", pre_err_prog);
  ("parserDoer.doParseProfile", prof_prog);
  ("parserDoer.doParseLogs", logs_prog);
  ("parserDoer.doParseSpans", spans_prog)
].

Definition gsimple_eqb (a b : gsimple) : bool :=
  match a, b with
  | GDecode, GDecode | GSendErr, GSendErr | GSendPanic, GSendPanic | GSendBatch, GSendBatch
  | GSendBatchIfRows, GSendBatchIfRows | GFlush, GFlush | GReset, GReset | GClose, GClose | GReturn, GReturn
  | GUnknown, GUnknown => true
  | _, _ => false
  end.
Fixpoint gsimples_eqb (a b : list gsimple) : bool :=
  match a, b with
  | [], [] => true
  | x :: r, y :: r' => gsimple_eqb x y && gsimples_eqb r r'
  | _, _ => false
  end.
Definition gstmt_eqb (a b : gstmt) : bool :=
  match a, b with
  | GS x, GS y => gsimple_eqb x y
  | GIfErr x, GIfErr y => gsimples_eqb x y
  | _, _ => false
  end.
Fixpoint gstmts_eqb (a b : list gstmt) : bool :=
  match a, b with
  | [], [] => true
  | x :: r, y :: r' => gstmt_eqb x y && gstmts_eqb r r'
  | _, _ => false
  end.
Definition gdefer_eqb (a b : gdefer) : bool :=
  match a, b with DTame, DTame => true | DPlain x, DPlain y => gsimple_eqb x y | _, _ => false end.
Fixpoint gdefers_eqb (a b : list gdefer) : bool :=
  match a, b with
  | [], [] => true
  | x :: r, y :: r' => gdefer_eqb x y && gdefers_eqb r r'
  | _, _ => false
  end.
Definition gprog_eqb (a b : gprog) : bool :=
  gdefers_eqb (gp_defers a) (gp_defers b) && gstmts_eqb (gp_body a) (gp_body b).
Fixpoint programs_eqb (a b : list (string * gprog)) : bool :=
  match a, b with
  | [], [] => true
  | (n, p) :: r, (n', p') :: r' => String.eqb n n' && gprog_eqb p p' && programs_eqb r r'
  | _, _ => false
  end.

(* ---- the decoder as an oracle ---- *)
Inductive dend := DEndOk | DEndErr (e : error) | DEndPanic.
Record dres := {
  d_flushed : list presp;   (* responses the batching handlers sent on the channel while Decode was running *)
  d_end : dend;             (* how Decode ended *)
  d_batch : presp;          (* the batch left in the doer when Decode returned *)
  d_rows : bool             (* profile: len(p.profile.TimestampNs) > 0 *)
}.

(* ---- interpreter ---- *)
Inductive chop := OSend (p : presp) | OClose.
Record gst := { gs_closed : bool; gs_err : option error; gs_trace : list chop }.
Inductive gres := GNormal | GRet | GPanic.

Definition resp_nil : presp :=
  {| p_err := None; p_ts := None; p_spl := None; p_tags := None; p_spans := None; p_prof := None |}.

(* a send on a closed channel panics *)
Definition g_send (s : gst) (p : presp) : gres * gst :=
  if gs_closed s then (GPanic, s)
  else (GNormal, {| gs_closed := false; gs_err := gs_err s; gs_trace := (gs_trace s ++ [OSend p])%list |}).

Fixpoint g_sends (s : gst) (ps : list presp) : gres * gst :=
  match ps with
  | [] => (GNormal, s)
  | p :: r => match g_send s p with (GNormal, s') => g_sends s' r | x => x end
  end.

Definition exec_simple (d : dres) (s : gst) (x : gsimple) : gres * gst :=
  match x with
  | GDecode =>
      match g_sends s (d_flushed d) with
      | (GNormal, s') =>
          match d_end d with
          | DEndOk => (GNormal, {| gs_closed := gs_closed s'; gs_err := None; gs_trace := gs_trace s' |})
          | DEndErr e => (GNormal, {| gs_closed := gs_closed s'; gs_err := Some e; gs_trace := gs_trace s' |})
          | DEndPanic => (GPanic, s')
          end
      | x => x
      end
  | GSendErr => g_send s (match gs_err s with Some e => resp_err e | None => resp_nil end)
  | GSendPanic => g_send s (resp_err e_panic)
  | GSendBatch | GFlush => g_send s (d_batch d)
  | GSendBatchIfRows => if d_rows d then g_send s (d_batch d) else (GNormal, s)
  | GReset => (GNormal, s)
  | GClose => if gs_closed s then (GPanic, s)         (* close of closed channel *)
              else (GNormal, {| gs_closed := true; gs_err := gs_err s; gs_trace := (gs_trace s ++ [OClose])%list |})
  | GReturn => (GRet, s)
  | GUnknown => (GPanic, s)
  end.

Fixpoint exec_block (d : dres) (s : gst) (b : list gsimple) : gres * gst :=
  match b with
  | [] => (GNormal, s)
  | x :: r => match exec_simple d s x with (GNormal, s') => exec_block d s' r | y => y end
  end.

Definition exec_stmt (d : dres) (s : gst) (x : gstmt) : gres * gst :=
  match x with
  | GS y => exec_simple d s y
  | GIfErr b => match gs_err s with Some _ => exec_block d s b | None => (GNormal, s) end
  end.

Fixpoint exec_body (d : dres) (s : gst) (b : list gstmt) : gres * gst :=
  match b with
  | [] => (GNormal, s)
  | x :: r => match exec_stmt d s x with (GNormal, s') => exec_body d s' r | y => y end
  end.

(* deferred calls, already reversed (the order they run in); `panicking` = a panic is in flight *)
Fixpoint run_defers (tame : list gsimple) (d : dres) (ds : list gdefer) (panicking : bool) (s : gst) : bool * gst :=
  match ds with
  | [] => (panicking, s)
  | DTame :: r =>
      if panicking
      then match exec_block d s tame with          (* recover() returned non-nil: the panic is stopped ... *)
           | (GPanic, s') => run_defers tame d r true s'      (* ... unless the body panics itself *)
           | (_, s') => run_defers tame d r false s'
           end
      else run_defers tame d r false s             (* recover() = nil: nothing *)
  | DPlain x :: r =>
      match exec_simple d s x with
      | (GPanic, s') => run_defers tame d r true s'
      | (_, s') => run_defers tame d r panicking s'
      end
  end.

(* a goroutine: (channel operations in order, the goroutine died of an un-recovered panic = the process exits) *)
Definition run_prog (tame : list gsimple) (p : gprog) (err0 : option error) (d : dres) : list chop * bool :=
  let s0 := {| gs_closed := false; gs_err := err0; gs_trace := [] |} in
  let '(r, s1) := exec_body d s0 (gp_body p) in
  let '(crashed, s2) := run_defers tame d (rev (gp_defers p)) (match r with GPanic => true | _ => false end) s1 in
  (gs_trace s2, crashed).

Fixpoint sends_of (t : list chop) : list presp :=
  match t with
  | [] => []
  | OSend p :: r => p :: sends_of r
  | OClose :: r => sends_of r
  end.

(* what the consumer must see: the flushed responses, then exactly one last response, then close *)
Definition last_responses (d : dres) (final : list presp) : list presp :=
  match d_end d with
  | DEndOk => final
  | DEndErr e => [resp_err e]
  | DEndPanic => [resp_err e_panic]
  end.
Definition protocol_trace (d : dres) (final : list presp) : list chop :=
  (map OSend (d_flushed d ++ last_responses d final) ++ [OClose])%list.

(* diagnosis for the check: does a (generated) program keep the protocol when the decoder returns nil / an error / panics
   after one flush?  (goroutine survives, sends then exactly one close at the end) *)
Definition probe_dres (e : dend) : dres := {| d_flushed := [resp_nil]; d_end := e; d_batch := resp_nil; d_rows := true |}.
Definition trace_wf (t : list chop) : bool :=
  match rev t with
  | OClose :: r => forallb (fun o => match o with OSend _ => true | OClose => false end) r
  | _ => false
  end.
Definition keeps_protocol (tame : list gsimple) (p : gprog) (e : dend) : bool :=
  let '(t, crashed) := run_prog tame p None (probe_dres e) in negb crashed && trace_wf t.
Definition prog_verdicts (tame : list gsimple) (ps : list (string * gprog)) : list (string * bool * bool * bool) :=
  map (fun np => (fst np, keeps_protocol tame (snd np) DEndOk, keeps_protocol tame (snd np) (DEndErr e_panic),
                  keeps_protocol tame (snd np) DEndPanic)) ps.

(* ---- the decoders of IngestRobust as oracles ---- *)
Section DECODE_SPANS.
  Variable handler : span_st -> span_in -> (span_st * list presp) + error.
  Fixpoint decode_spans_with (st : span_st) (evs : list span_event) : list presp * dend * span_st :=
    match evs with
    | [] => ([], DEndOk, st)
    | EvPanic :: _ => ([], DEndPanic, st)
    | EvErr e :: _ => ([], DEndErr e, st)
    | EvSpan r :: rest =>
        match handler st r with
        | inr e => ([], DEndErr e, st)
        | inl (st', out) => let '(f, e, s) := decode_spans_with st' rest in ((out ++ f)%list, e, s)
        end
    end.
End DECODE_SPANS.
Definition spans_dres (st : span_st) (evs : list span_event) : dres :=
  let '(f, e, s) := decode_spans_with on_span st evs in
  {| d_flushed := f; d_end := e; d_batch := resp_spans (ss_spans s) (ss_attrs s); d_rows := true |}.

Fixpoint decode_logs (st : logs_st) (evs : list logs_event) : list presp * dend * logs_st :=
  match evs with
  | [] => ([], DEndOk, st)
  | LvPanic :: _ => ([], DEndPanic, st)
  | LvErr e :: _ => ([], DEndErr e, st)
  | LvEntries r :: rest =>
      let '(st', out) := on_entries st r in
      let '(f, e, s) := decode_logs st' rest in ((out ++ f)%list, e, s)
  end.
Definition logs_dres (st : logs_st) (evs : list logs_event) : dres :=
  let '(f, e, s) := decode_logs st evs in
  {| d_flushed := f; d_end := e; d_batch := resp_logs (ls_ts s) (ls_rows s); d_rows := true |}.

Fixpoint decode_prof (rows : N) (evs : list prof_event) : list presp * dend * N :=
  match evs with
  | [] => ([], DEndOk, rows)
  | PvPanic :: _ => ([], DEndPanic, rows)
  | PvErr e :: _ => ([], DEndErr e, rows)
  | PvProfile b :: rest =>
      if (MiB <? b)%N
      then let '(f, e, s) := decode_prof 0 rest in (resp_prof (rows + 1) :: f, e, s)
      else decode_prof (rows + 1) rest
  end.
Definition prof_dres (rows : N) (evs : list prof_event) : dres :=
  let '(f, e, s) := decode_prof rows evs in
  {| d_flushed := f; d_end := e; d_batch := resp_prof s; d_rows := (0 <? s)%N |}.

(* ------------------------------------------------------------------------------------------ *)
(** * 2. The consumer and the channel *)

(* controller/builder.go doParse (regenerated: gen_consumer) *)
Record consumer := {
  cs_ranges : bool;          (* the receive loop is `for response := range res` (ends when the channel is closed) *)
  cs_early_returns : Z;      (* `return` statements inside that loop *)
  cs_drained_returns : Z     (* ... directly preceded by `go func() { for range res {} }()` *)
}.
Definition consumer_model : consumer := {| cs_ranges := true; cs_early_returns := 1; cs_drained_returns := 1 |}.
Definition consumer_eqb (a b : consumer) : bool :=
  Bool.eqb (cs_ranges a) (cs_ranges b) && Z.eqb (cs_early_returns a) (cs_early_returns b)
  && Z.eqb (cs_drained_returns a) (cs_drained_returns b).
Definition consumer_drains (c : consumer) : bool :=
  cs_ranges c && Z.eqb (cs_early_returns c) (cs_drained_returns c).

Inductive cmode :=
| CRecv (failed : bool)          (* the handler is inside the receive loop *)
| CDrain (r : parse_result)      (* the handler returned r; the drain goroutine receives until close *)
| CGone (r : parse_result).      (* the handler returned r; nobody receives *)

Inductive sys_end :=
| SAllDone (r : parse_result)          (* handler answered r; parser (and drain) goroutine finished *)
| SProducerBlocked (r : parse_result)  (* handler answered r, the parser goroutine is blocked in a send forever *)
| SHandlerBlocked                      (* the channel is never closed: the handler waits forever (no response) *)
| SDrainBlocked (r : parse_result)     (* handler answered r, the drain goroutine waits forever *)
| SCrash.                              (* an un-recovered panic in some goroutine *)

(* ops = the channel operations of the parser goroutine, in order; an unbuffered channel: every send is a rendezvous *)
Fixpoint sys_run (drains : bool) (c : ctx) (w : world) (m : cmode) (ops : list chop) : sys_end * world :=
  match ops with
  | [] =>
      (match m with CRecv _ => SHandlerBlocked | CDrain r => SDrainBlocked r | CGone r => SAllDone r end, w)
  | OClose :: _ =>
      (match m with
       | CRecv failed => SAllDone (if failed then PPushErr else PDone)      (* loop ends; the promises are awaited *)
       | CDrain r | CGone r => SAllDone r
       end, w)
  | OSend p :: rest =>
      match m with
      | CRecv failed =>
          match p_err p with
          | Some e => sys_run drains c w (if drains then CDrain (PStatus e) else CGone (PStatus e)) rest
          | None =>
              let '(r, w') := push_resp c w p in
              match r with
              | RPanic => (SCrash, w')
              | RErr => sys_run drains c w' (CRecv true) rest
              | ROk => sys_run drains c w' (CRecv failed) rest
              end
          end
      | CDrain r => sys_run drains c w (CDrain r) rest
      | CGone r => (SProducerBlocked r, w)
      end
  end.

(* one request through parser goroutine + channel + handler *)
Definition serve (tame : list gsimple) (p : gprog) (cons : consumer) (c : ctx) (w : world) (d : dres) : sys_end * world :=
  let '(ops, crashed) := run_prog tame p None d in
  if crashed then (SCrash, w) else sys_run (consumer_drains cons) c w (CRecv false) ops.

Definition answered (e : sys_end) : bool := match e with SAllDone r => negb (match r with PCrash => true | _ => false end) | _ => false end.

(* ------------------------------------------------------------------------------------------ *)
(** * 3. Column-level batching handlers (onSpan) *)

Inductive tbl := TSpans | TAttrs.
Definition tbl_eqb (a b : tbl) : bool := match a, b with TSpans, TSpans | TAttrs, TAttrs => true | _, _ => false end.

(* statements of onSpan after the width check, in order *)
Inductive cop :=
| CApp (t : tbl) (f : string) (idx : bool)   (* p.t.f = append(p.t.f, x); idx: x mentions val[i] *)
| CSize (t : tbl) (idx : bool).             (* p.t.Size += ...; idx: the expression mentions val[i] *)

Record handler_prog := {
  hp_width_check : bool;     (* the first statement rejects len(traceId) != 16 || len(spanId) != 8 with an error *)
  hp_once : list cop;        (* per span *)
  hp_loop : list cop;        (* per attribute key: for i, k := range key { ... } *)
  hp_flush_resets : bool     (* if size > 1 MiB { p.res <- batch; p.resetSpans() } *)
}.

Definition on_span_cols_model : handler_prog := {|
  hp_width_check := true;
  hp_once := [CApp TSpans "MTraceId" false; CApp TSpans "MSpanId" false; CApp TSpans "MTimestampNs" false;
              CApp TSpans "MDurationNs" false; CApp TSpans "MParentId" false; CApp TSpans "MName" false;
              CApp TSpans "MServiceName" false; CApp TSpans "MPayloadType" false; CApp TSpans "MPayload" false;
              CSize TSpans false];
  hp_loop := [CApp TAttrs "MTraceId" false; CApp TAttrs "MSpanId" false; CApp TAttrs "MTimestampNs" false;
              CApp TAttrs "MDurationNs" false; CApp TAttrs "MKey" false; CApp TAttrs "MVal" true;
              CApp TAttrs "MDate" false; CSize TAttrs true];
  hp_flush_resets := true
|}.

Definition cols := list (string * N).       (* slice field -> its length *)
Record batch := { b_spans : cols; b_attrs : cols; b_size : N }.
Definition zero_cols (fields : list string) : cols := map (fun f => (f, 0%N)) fields.
Definition batch0 (sf af : list string) : batch := {| b_spans := zero_cols sf; b_attrs := zero_cols af; b_size := 0 |}.

Definition bump (f : string) (m : cols) : cols :=
  map (fun kv => if String.eqb (fst kv) f then (fst kv, (snd kv + 1)%N) else kv) m.

(* one statement; i = index of the attribute key (loop only), nvals = len(val); None = index out of range: panic *)
Definition cop_panics (o : cop) (i nvals : nat) : bool :=
  match o with CApp _ _ idx | CSize _ idx => idx && negb (Nat.ltb i nvals) end.
Definition exec_cop (b : batch) (o : cop) (i nvals : nat) : option batch :=
  if cop_panics o i nvals then None
  else match o with
       | CApp TSpans f _ => Some {| b_spans := bump f (b_spans b); b_attrs := b_attrs b; b_size := b_size b |}
       | CApp TAttrs f _ => Some {| b_spans := b_spans b; b_attrs := bump f (b_attrs b); b_size := b_size b |}
       | CSize _ _ => Some b
       end.
Fixpoint exec_cops (b : batch) (os : list cop) (i nvals : nat) : option batch :=
  match os with
  | [] => Some b
  | o :: r => match exec_cop b o i nvals with Some b' => exec_cops b' r i nvals | None => None end
  end.
(* the loop over the keys: i = 0 .. nkeys-1 *)
Fixpoint exec_loop (b : batch) (os : list cop) (i todo nvals : nat) : option batch :=
  match todo with
  | O => Some b
  | S t => match exec_cops b os i nvals with Some b' => exec_loop b' os (S i) t nvals | None => None end
  end.

Record span_ev := {
  se_tid : N; se_sid : N;      (* len(traceId), len(spanId) *)
  se_keys : nat; se_vals : nat;   (* len(key), len(val) *)
  se_bytes : N                 (* what the span adds to Size *)
}.
Inductive col_event := CvSpan (s : span_ev) | CvPanic | CvErr (typed : bool).   (* typed: a QrynError (code 400) / a plain error *)

Inductive col_step := StOk (b : batch) (sent : list batch) | StErr | StPanic.
Definition on_span_cols (h : handler_prog) (sf af : list string) (b : batch) (s : span_ev) : col_step :=
  if hp_width_check h && negb ((se_tid s =? 16)%N && (se_sid s =? 8)%N) then StErr
  else match exec_cops b (hp_once h) O (se_vals s) with
       | None => StPanic
       | Some b1 =>
           match exec_loop b1 (hp_loop h) O (se_keys s) (se_vals s) with
           | None => StPanic
           | Some b2 =>
               let b3 := {| b_spans := b_spans b2; b_attrs := b_attrs b2; b_size := (b_size b2 + se_bytes s)%N |} in
               if (MiB <? b_size b3)%N
               then StOk (if hp_flush_resets h then batch0 sf af else b3) [b3]
               else StOk b3 []
           end
       end.

(* every batch that reaches the channel (flushes, and the last one when Decode returns nil) *)
Fixpoint sent_batches (h : handler_prog) (sf af : list string) (b : batch) (evs : list col_event) : list batch :=
  match evs with
  | [] => [b]                       (* doParseSpans: the batch is sent after Decode returned nil *)
  | CvPanic :: _ => []              (* tamePanic: only the error response is sent *)
  | CvErr _ :: _ => []
  | CvSpan s :: rest =>
      match on_span_cols h sf af b s with
      | StErr | StPanic => []
      | StOk b' sent => (sent ++ sent_batches h sf af b' rest)%list
      end
  end.

Definition rect (n : N) (m : cols) : bool := forallb (fun kv => (snd kv =? n)%N) m.
Definition rectangular (m : cols) : bool :=
  match m with [] => true | kv :: _ => rect (snd kv) m end.
Definition batch_rect (b : batch) : bool := rectangular (b_spans b) && rectangular (b_attrs b).

Definition count_app (t : tbl) (f : string) (os : list cop) : nat :=
  List.length (filter (fun o => match o with CApp t' f' _ => tbl_eqb t t' && String.eqb f f' | _ => false end) os).
Definition no_app (t : tbl) (os : list cop) : bool :=
  forallb (fun o => match o with CApp t' _ _ => negb (tbl_eqb t t') | _ => true end) os.
Fixpoint nodup_str (l : list string) : bool :=
  match l with [] => true | x :: r => negb (existsb (String.eqb x) r) && nodup_str r end.

(* the check on the generated handler: every slice field of TempoSamples is appended exactly once per span, every
   slice field of TempoTag exactly once per key, nothing else is appended to them; the columns the insert services
   read (consumed) are among those fields *)
Definition handler_ok (h : handler_prog) (sf af consumed_s consumed_a : list string) : bool :=
  hp_flush_resets h
  && nodup_str sf && nodup_str af
  && forallb (fun f => Nat.eqb (count_app TSpans f (hp_once h)) 1) sf
  && forallb (fun f => Nat.eqb (count_app TAttrs f (hp_loop h)) 1) af
  && no_app TAttrs (hp_once h) && no_app TSpans (hp_loop h)
  && forallb (fun f => existsb (String.eqb f) sf) consumed_s
  && forallb (fun f => existsb (String.eqb f) af) consumed_a.

Definition spans_fields_model : list string :=
  ["MTraceId"; "MSpanId"; "MTimestampNs"; "MDurationNs"; "MParentId"; "MName"; "MServiceName"; "MPayloadType"; "MPayload"].
Definition attrs_fields_model : list string :=
  ["MTraceId"; "MSpanId"; "MTimestampNs"; "MDurationNs"; "MDate"; "MKey"; "MVal"].

(* ------------------------------------------------------------------------------------------ *)
(** * 4. Work measure *)

(* bytes accounted by the events of a span stream *)
Fixpoint span_bytes (evs : list span_event) : N :=
  match evs with
  | EvSpan r :: rest => (si_bytes r + si_abytes r + span_bytes rest)%N
  | _ :: rest => span_bytes rest
  | [] => 0%N
  end.
Fixpoint logs_bytes (evs : list logs_event) : N :=
  match evs with
  | LvEntries r :: rest => (ei_bytes r + logs_bytes rest)%N
  | _ :: rest => logs_bytes rest
  | [] => 0%N
  end.

(* goroutines started for one request: the parser goroutine, at most one drain goroutine, five doPush calls per
   response without error (each starts at most one goroutine) *)
Definition goroutines_bound (responses : nat) : nat := 2 + 5 * responses.
Definition is_some {A : Type} (o : option A) : bool := match o with Some _ => true | None => false end.
Definition b2n (b : bool) : nat := if b then 1 else 0.
(* doPush starts a goroutine iff the request and the service are both there *)
Definition pushes_of (c : ctx) (p : presp) : nat :=
  b2n (has_ts c && is_some (p_ts p)) + b2n (has_spl c && is_some (p_spl p)) + b2n (has_tags c && is_some (p_tags p))
  + b2n (has_spans c && is_some (p_spans p)) + b2n (has_prof c && is_some (p_prof p)).
Fixpoint goroutines_after (c : ctx) (rs : list presp) : nat :=
  match rs with
  | [] => 0
  | p :: r => match p_err p with
              | Some _ => 1                                   (* the drain goroutine; the handler returns *)
              | None => pushes_of c p + goroutines_after c r
              end
  end.
Definition goroutines_of (c : ctx) (rs : list presp) : nat := 1 + goroutines_after c rs.   (* 1 = the parser goroutine *)

(* ------------------------------------------------------------------------------------------ *)
(** * 5. Per-route parser tables: Content-Type dispatch (PusherCtx.DoParse) *)

(* for k, p := range pusherCtx.Parser { if strings.HasPrefix(contentType, k) { parser = p; break } }
   if p, ok := pusherCtx.Parser["*"]; parser == nil && ok { parser = p }
   The iteration order of a Go map is unspecified: `order` is ANY enumeration of the table. *)
Definition dispatch_in_order (order : list (string * string)) (table : list (string * string)) (ct : string) : option string :=
  match find (fun kp => prefix (fst kp) ct) order with
  | Some kp => Some (snd kp)
  | None => match find (fun kp => String.eqb (fst kp) "*") table with
            | Some kp => Some (snd kp)
            | None => None            (* New400Error("Content-Type not supported") *)
            end
  end.

(* no key is a prefix of another key (then at most one key is a prefix of any content type), or both select the
   same parser *)
Definition table_unambiguous (table : list (string * string)) : bool :=
  forallb (fun a => forallb (fun b =>
    String.eqb (snd a) (snd b) || negb (prefix (fst a) (fst b) || prefix (fst b) (fst a))) table) table.

Record route := {
  rt_handler : string;                     (* controller constructor: PushStreamV2 ... *)
  rt_pre : list string;                    (* PreRequest middleware after cfg.ExtraMiddleware, in order *)
  rt_parsers : list (string * string);     (* Content-Type key -> parser (unmarshal.<name>) *)
  rt_nested_pre : list (string * string);  (* withComplexParser: (content-type key, its own PreRequest) *)
  rt_status : Z                            (* status written by the PostRequest list *)
}.

Definition routes_model : list route := [
  {| rt_handler := "PushDatadogV2"; rt_pre := ["withTSAndSampleService"; "withParserContext"];
     rt_parsers := [("application/json", "UnmarshallDatadogV2JSONV2")]; rt_nested_pre := []; rt_status := 202 |};
  {| rt_handler := "PushCfDatadogV2"; rt_pre := ["withTSAndSampleService"; "withParserContext"];
     rt_parsers := [("*", "UnmarshallDatadogCFJSONV2")]; rt_nested_pre := []; rt_status := 202 |};
  {| rt_handler := "PushDatadogMetricsV2"; rt_pre := ["withTSAndSampleService"];
     rt_parsers := [("application/json", "UnmarshallDatadogMetricsV2JSONV2")]; rt_nested_pre := []; rt_status := 202 |};
  {| rt_handler := "TargetDocV2"; rt_pre := ["withTSAndSampleService"; "withParserContext"];
     rt_parsers := [("*", "ElasticDocUnmarshalV2")]; rt_nested_pre := []; rt_status := 200 |};
  {| rt_handler := "TargetBulkV2"; rt_pre := ["withTSAndSampleService"; "withParserContext"];
     rt_parsers := [("*", "ElasticBulkUnmarshalV2")]; rt_nested_pre := []; rt_status := 200 |};
  {| rt_handler := "PushStreamV2"; rt_pre := ["withTSAndSampleService"];
     rt_parsers := [("*", "DecodePushRequestStringV2"); ("application/x-protobuf", "UnmarshalProtoV2")];
     rt_nested_pre := [("application/x-protobuf", "withUnsnappyRequest")]; rt_status := 204 |};
  {| rt_handler := "PushInfluxV2"; rt_pre := ["withTSAndSampleService"; "withParserContext"];
     rt_parsers := [("*", "UnmarshalInfluxDBLogsV2")]; rt_nested_pre := []; rt_status := 204 |};
  {| rt_handler := "OTLPLogsV2"; rt_pre := ["withTSAndSampleService"];
     rt_parsers := [("*", "UnmarshalOTLPLogsV2")]; rt_nested_pre := []; rt_status := 204 |};
  {| rt_handler := "PushProfileV2"; rt_pre := ["withTSAndSampleService"; "withParserContext"];
     rt_parsers := [("multipart/form-data", "UnmarshalProfileProtoV2"); ("binary/octet-stream", "UnmarshalBinaryStreamProfileProtoV2")];
     rt_nested_pre := []; rt_status := 200 |};
  {| rt_handler := "WriteStreamV2"; rt_pre := ["withTSAndSampleService"; "withUnsnappyRequest"];
     rt_parsers := [("*", "UnmarshallMetricsWriteProtoV2")]; rt_nested_pre := []; rt_status := 204 |};
  {| rt_handler := "PushV2"; rt_pre := ["withTracesService"];
     rt_parsers := [("ndjson", "UnmarshalZipkinNDJSONV2"); ("*", "UnmarshalZipkinJSONV2")]; rt_nested_pre := []; rt_status := 202 |};
  {| rt_handler := "OTLPPushV2"; rt_pre := ["withTracesService"; "WithPreRequest"];
     rt_parsers := [("*", "UnmarshalOTLPV2")]; rt_nested_pre := []; rt_status := 200 |}
].

Fixpoint strs_eqb (a b : list string) : bool :=
  match a, b with [] , [] => true | x :: r, y :: r' => String.eqb x y && strs_eqb r r' | _, _ => false end.
Fixpoint pairs_eqb (a b : list (string * string)) : bool :=
  match a, b with
  | [], [] => true
  | (x, y) :: r, (x', y') :: r' => String.eqb x x' && String.eqb y y' && pairs_eqb r r'
  | _, _ => false
  end.
Definition route_eqb (a b : route) : bool :=
  String.eqb (rt_handler a) (rt_handler b) && strs_eqb (rt_pre a) (rt_pre b) && pairs_eqb (rt_parsers a) (rt_parsers b)
  && pairs_eqb (rt_nested_pre a) (rt_nested_pre b) && Z.eqb (rt_status a) (rt_status b).
Fixpoint routes_eqb (a b : list route) : bool :=
  match a, b with [], [] => true | x :: r, y :: r' => route_eqb x y && routes_eqb r r' | _, _ => false end.

Definition find_route (rs : list route) (h : string) : option route := find (fun r => String.eqb (rt_handler r) h) rs.

(* what a request with this Content-Type gets on a route: the parser, or the 400 of DoParse *)
Definition route_dispatch (r : route) (ct : string) : option string := dispatch_in_order (rt_parsers r) (rt_parsers r) ct.

(* outcome class of a request to ANY ingest route whose body the selected decoder turns into events; used by the
   correspondence check for the routes that have no field-level model (datadog, cf, elastic, OTLP logs):
   unsupported content type -> 4xx; decoder accepts -> success status of the route; decoder rejects -> 4xx/5xx *)
Definition generic_outcome (rs : list route) (handler ct : string) (wire_ok : bool) : expect :=
  match find_route rs handler with
  | None => AnyResponse
  | Some r =>
      match route_dispatch r ct with
      | None => Exact C4xx
      | Some _ => if wire_ok then Exact (status_cls (Some (rt_status r))) else AnyError
      end
  end.

(* ---- cases of the routes predicted from the route table (harness stream "generic") ---- *)
Record greq := {
  g_handler : string;               (* controller constructor serving the path *)
  g_ce : string; g_gz_ok : bool;    (* Content-Encoding header; for gzip: the header parses *)
  g_ct : string;                    (* Content-Type header *)
  g_wire_ok : bool                  (* the decoder of the selected parser accepts the body *)
}.
Definition g_predict (rs : list route) (q : greq) : expect :=
  match content_encoding (g_ce q) (g_gz_ok q) with
  | CeStatus c => Exact c
  | CeContinue => generic_outcome rs (g_handler q) (g_ct q) (g_wire_ok q)
  end.
(* a description of the INPUT: unsupported/undecodable Content-Encoding, a Content-Type the route has no parser for,
   a body the decoder rejects *)
Definition g_malformed (rs : list route) (q : greq) : bool :=
  match content_encoding (g_ce q) (g_gz_ok q) with
  | CeStatus _ => true
  | CeContinue =>
      match find_route rs (g_handler q) with
      | None => false
      | Some r => match route_dispatch r (g_ct q) with None => true | Some _ => negb (g_wire_ok q) end
      end
  end.
Record gcase := { gc_id : Z; gc_req : greq; gc_obs : obs }.
Definition g_spec_ok (rs : list route) (q : greq) (ob : obs) : bool :=
  responded (ob_outcome ob) && ob_canary_ok ob
  && (ob_alloc_kb ob <=? alloc_bound_kb (served_kb ob))%Z
  && match ob_outcome ob with O2xx => negb (g_malformed rs q) | _ => true end.
Definition g_mismatches (rs : list route) (cs : list gcase) : list Z :=
  map gc_id (filter (fun c => negb (accepts (g_predict rs (gc_req c)) (ob_outcome (gc_obs c)))) cs).
Definition g_spec_violations (rs : list route) (cs : list gcase) : list Z :=
  map gc_id (filter (fun c => negb (g_spec_ok rs (gc_req c) (gc_obs c))) cs).
(* every modelled route answers 2xx on success *)
Definition routes_succeed_2xx (rs : list route) : bool :=
  forallb (fun r => (200 <=? rt_status r)%Z && (rt_status r <? 300)%Z) rs.

(* ------------------------------------------------------------------------------------------ *)
(** * 6. Expressions that can panic on the handler goroutine (outside the parser goroutines' tamePanic) *)

(* why an index / slice / single-value type assertion that runs on the HTTP handler goroutine cannot panic *)
Inductive site_cover :=
| SGeneric      (* instantiation of a generic function or type: not an index operation *)
| SMap          (* lookup in / assignment to a map made by make or a literal *)
| SGuarded      (* target[:firstSlash] under firstSlash != -1, firstSlash = strings.Index(target, "/") *)
| SCtxTyped     (* a context value stored with exactly this type by a middleware that runs before: DSN / META / TTL_DAYS by
                   WithOverallContextMiddleware (cfg.ExtraMiddleware), "node" and the services by withTSAndSampleService /
                   withTracesService = the first PreRequest of every route (first_pre_is_service); ddsource/target/id strings *)
| SEmptySlice   (* x[:0] *)
| SRangeRect    (* ConfirmSeries: i ranges over ts.MDate of a TimeSeriesData built by onEntries, which appends MDate, MLabels,
                   MFingerprint and MType together (IngestRobust.ts_add: the four lengths grow together) *)
| SConstArray.  (* constant bounds inside the fixed-size array bs [17]byte *)

Definition site_allow_list : list (string * string * string * string * site_cover) := [
  ("controller/builder.go", "ErrorHandler", "index", "customErrors.Unwrap[*customErrors.UnMarshalError]", SGeneric);
  ("controller/builder.go", "ErrorHandler", "index", "customErrors.Unwrap[customErrors.IQrynError]", SGeneric);
  ("controller/builder.go", "PusherCtx.DoParse", "index", "pusherCtx.Parser[""*""]", SMap);
  ("controller/builder.go", "getService", "assert", "svc.(service.IInsertServiceV2)", SCtxTyped);
  ("controller/builder.go", "doPush", "index", "promise.New[uint32]", SGeneric);
  ("controller/builder.go", "doPush", "index", "promise.Fulfilled[uint32]", SGeneric);
  ("controller/builder.go", "doParse", "assert", "r.Context().Value(""node"").(string)", SCtxTyped);
  ("controller/builder.go", "doParse", "index", "promise.Promise[uint32]", SGeneric);
  ("controller/elasticController.go", "TargetDocV2", "index", "params[""target""]", SMap);
  ("controller/elasticController.go", "TargetDocV2", "index", "params[""id""]", SMap);
  ("controller/elasticController.go", "TargetDocV2", "slice", "target[:firstSlash]", SGuarded);
  ("controller/elasticController.go", "TargetBulkV2", "index", "params[""target""]", SMap);
  ("controller/elasticController.go", "getRequestParams", "index", "params[key]", SMap);
  ("controller/middleware.go", "withSimpleParser", "index", "ctx.Parser[contentType]", SMap);
  ("controller/middleware.go", "withComplexParser", "index", "pusherCtx.Parser[""*""]", SMap);
  ("controller/middleware.go", "withComplexParser", "index", "ctx.Parser[contentType]", SMap);
  ("controller/middleware.go", "withTSAndSampleService", "assert", "dsn.(string)", SCtxTyped);
  ("controller/middleware.go", "withTracesService", "assert", "dsn.(string)", SCtxTyped);
  ("utils/unmarshal/builder.go", "parserDoer.doParseLogs", "assert", "_meta.(string)", SCtxTyped);
  ("utils/unmarshal/builder.go", "parserDoer.doParseLogs", "assert", "ttlDays.(uint16)", SCtxTyped);
  ("utils/unmarshal/builder.go", "Build", "index", "numbercache.ICache[uint64]", SGeneric);
  ("utils/unmarshal/builder.go", "<PreParse closure>", "index", "ctx.ctxMap[key]", SMap);
  ("utils/unmarshal/builder.go", "<PreParse closure>", "assert", "res.(string)", SCtxTyped);
  ("utils/unmarshal/zipkinJsonUnmarshal.go", "zipkinDecoderV2.reset", "slice", "z.key[:0]", SEmptySlice);
  ("utils/unmarshal/zipkinJsonUnmarshal.go", "zipkinDecoderV2.reset", "slice", "z.val[:0]", SEmptySlice);
  ("utils/unmarshal/builder.go", "ConfirmSeries", "index", "ts.MFingerprint[i]", SRangeRect);
  ("utils/unmarshal/builder.go", "ConfirmSeries", "index", "ts.MType[i]", SRangeRect);
  ("utils/unmarshal/builder.go", "fpsCache.CheckAndSet", "index", "c[date.Unix()]", SMap);
  ("utils/unmarshal/builder.go", "fpsCache.CheckAndSet", "index", "c[date.Unix()][fp]", SMap);
  ("utils/unmarshal/builder.go", "fpCacheKey", "slice", "bs[0:8]", SConstArray);
  ("utils/unmarshal/builder.go", "fpCacheKey", "slice", "bs[8:16]", SConstArray);
  ("utils/unmarshal/builder.go", "fpCacheKey", "index", "bs[16]", SConstArray);
  ("utils/unmarshal/builder.go", "fpCacheKey", "slice", "bs[:]", SConstArray)
].

Definition site_allowed (s : string * string * string * string) : bool :=
  let '(f, fn, k, e) := s in
  existsb (fun a => let '(f', fn', k', e', _) := a in
    String.eqb f f' && String.eqb fn fn' && String.eqb k k' && String.eqb e e') site_allow_list.
Definition sites_ok (ss : list (string * string * string * string)) : bool := forallb site_allowed ss.
Definition unaccounted_sites (ss : list (string * string * string * string)) : list (string * string * string * string) :=
  filter (fun s => negb (site_allowed s)) ss.

(* the functions of package unmarshal that may run on the handler goroutine: setters, resets, constructors, and
   ConfirmSeries (called by controller doParse after the inserts; since 00ba95e) with the cache-key helpers *)
Definition handler_side_functions_model : list string := [
  "Build"; "ConfirmSeries"; "fpCacheKey"; "fpsCache.CheckAndSet"; "ElasticUnmarshal.SetOnEntries"; "NewDecompressor"; "OTLPDecoder.SetOnEntry"; "datadogCFRequestDec.SetOnEntries";
  "datadogMetricsRequestDec.SetOnEntries"; "datadogRequestDec.SetOnEntries"; "elasticBulkDec.SetOnEntries"; "influxDec.SetOnEntries";
  "logsProtoDec.SetOnEntries"; "newTimeSeriesAndSamples"; "otlpLogDec.SetOnEntries"; "pProfProtoDec.SetOnProfile"; "parserDoer.Do";
  "parserDoer.doParseLogs"; "parserDoer.doParseProfile"; "parserDoer.doParseSpans"; "parserDoer.resetProfile"; "parserDoer.resetSpans";
  "promMetricsProtoDec.SetOnEntries"; "pushRequestDec.SetOnEntries"; "timeSeriesAndSamples.reset"; "zipkinDecoderV2.SetOnEntry";
  "zipkinDecoderV2.reset"].
Definition strs_subset (a b : list string) : bool := forallb (fun x => existsb (String.eqb x) b) a.

(* every route looks its services (and "node") up before anything else of its own *)
Definition first_pre_is_service (r : route) : bool :=
  match rt_pre r with
  | p :: _ => String.eqb p "withTSAndSampleService" || String.eqb p "withTracesService"
  | [] => false
  end.

(* ------------------------------------------------------------------------------------------ *)
(** * 7. How many bytes a request makes the server read: Content-Encoding without a limit on the decoded size *)

(* WithOverallContextMiddleware: r.Body = gzip.NewReader(r.Body) / snappy.NewReader(r.Body); the routes then read the
   DECODED stream whole (io.ReadAll in withUnsnappyRequest / withBufferedBody / the OTLP PreRequest; jx buffers a
   whole string).  deflate expands at most 1032:1; body_len, decoded_len in bytes. *)
Definition gzip_max_ratio : Z := 1032.
Definition bytes_read (ce : string) (body_len decoded_len : Z) : Z :=
  if String.eqb ce "" then body_len else decoded_len.
(* the allocation the property's oracle tolerates for a body of that size (spec_ok), in bytes *)
Definition alloc_bound_bytes (body_len : Z) : Z := (1024 * alloc_bound_kb (body_len / 1024))%Z.

(* ------------------------------------------------------------------------------------------ *)
(** * 8. Cases of harness pipefuzz: the REAL Build/doParse/doPush/parserDoer/onSpan/onProfile around a SCRIPTED decoder *)

(* status class of a span request at column level *)
Fixpoint col_status (h : handler_prog) (sf af : list string) (b : batch) (evs : list col_event) : cls :=
  match evs with
  | [] => C2xx
  | CvPanic :: _ => C5xx                                   (* fmt.Errorf("panic: %v"): plain *)
  | CvErr typed :: _ => if typed then C4xx else C5xx
  | CvSpan s :: rest =>
      match on_span_cols h sf af b s with
      | StErr => C4xx                                      (* New400Error: id widths *)
      | StPanic => C5xx
      | StOk b' _ => col_status h sf af b' rest
      end
  end.

(* onProfile: Size = calculateProfileSize() = 16 + one per row for each of the six per-row columns it counts
   (len of the SLICES Ptype, ServiceName, PeriodType, PeriodUnit, PayloadType, Payload) + the bytes of the
   sample-type and tag strings of the LAST profile; flush and reset above 1 MiB.  tags = those bytes per profile. *)
Inductive pend := PendNil | PendErr (typed : bool) | PendPanic.
Definition pend_cls (e : pend) : cls :=
  match e with PendNil => C2xx | PendErr true => C4xx | PendErr false => C5xx | PendPanic => C5xx end.
Fixpoint prof_batches (rows : N) (tags : list N) (e : pend) : list N :=      (* rows of every ProfileData sent *)
  match tags with
  | [] => match e with PendNil => if (0 <? rows)%N then [rows] else [] | _ => [] end
  | t :: rest =>
      let rows' := (rows + 1)%N in
      if (MiB <? 16 + 6 * rows' + t)%N then rows' :: prof_batches 0 rest e else prof_batches rows' rest e
  end.

Definition pend_event (e : pend) : list col_event :=
  match e with PendNil => [] | PendErr t => [CvErr t] | PendPanic => [CvPanic] end.

(* an observed request at an insert service: (service: 0 spans, 1 attributes, 2 profiles, 3 anything else; column lengths) *)
Definition obatch := (Z * list N)%type.
Record pcase := {
  pc_id : Z;
  pc_spans : option (list span_ev);     (* Some: span route; None: profile route *)
  pc_tags : list N;                     (* profile route: tag bytes per profile *)
  pc_end : pend;
  pc_outcome : outcome;
  pc_batches : list obatch
}.

Fixpoint list_N_eqb (a b : list N) : bool :=
  match a, b with [], [] => true | x :: r, y :: r' => (x =? y)%N && list_N_eqb r r' | _, _ => false end.
Definition obatch_eqb (a b : obatch) : bool := Z.eqb (fst a) (fst b) && list_N_eqb (snd a) (snd b).
Definition count_ob (x : obatch) (l : list obatch) : nat := List.length (filter (obatch_eqb x) l).
(* same multiset: the doPush goroutines of different responses reach the services in any order *)
Definition same_batches (a b : list obatch) : bool :=
  Nat.eqb (List.length a) (List.length b) && forallb (fun x => Nat.eqb (count_ob x a) (count_ob x b)) a.

Definition pipe_expected (h : handler_prog) (sf af : list string) (c : pcase) : cls * list obatch :=
  match pc_spans c with
  | Some spans =>
      let evs := (map CvSpan spans ++ pend_event (pc_end c))%list in
      let sent := sent_batches h sf af (batch0 sf af) evs in
      (col_status h sf af (batch0 sf af) evs,
       (map (fun b => (0%Z, map snd (b_spans b))) sent ++ map (fun b => (1%Z, map snd (b_attrs b))) sent)%list)
  | None =>
      (pend_cls (pc_end c), map (fun rows => (2%Z, repeat rows 8)) (prof_batches 0 (pc_tags c) (pc_end c)))
  end.

Definition all_equal (l : list N) : bool := match l with [] => true | x :: r => forallb (N.eqb x) r end.

Definition pipe_mismatch (h : handler_prog) (sf af : list string) (c : pcase) : bool :=
  let '(k, bs) := pipe_expected h sf af c in
  negb (accepts (Exact k) (pc_outcome c) && same_batches bs (pc_batches c)).
(* the property over what was OBSERVED: answered (no abort, hang, goroutine left behind), and every request that
   reached an insert service is rectangular and of a known type *)
Definition pipe_spec_violation (c : pcase) : bool :=
  negb (responded (pc_outcome c) && forallb (fun ob => all_equal (snd ob) && (fst ob <? 3)%Z) (pc_batches c)).
Definition pipe_mismatches (h : handler_prog) (sf af : list string) (cs : list pcase) : list Z :=
  map pc_id (filter (pipe_mismatch h sf af) cs).
Definition pipe_spec_violations (cs : list pcase) : list Z := map pc_id (filter pipe_spec_violation cs).

(* ------------------------------------------------------------------------------------------ *)
(** * 9. onEntries at column level (logs and metrics: every route except traces and profiles) *)

(* where the appended values come from: the four slices handed over by the decoder *)
Inductive lsrc := SrcMsg | SrcVal | SrcTs | SrcFillTs | SrcTypes.
(* p.tsSpl.spl.<f> = append(p.tsSpl.spl.<f>, <src>...)   (SrcFillTs: fastFillArray(len(timestampsNS), x)...) *)
Inductive lop := LApp (f : string) (src : lsrc).
Definition lop_field (o : lop) : string := match o with LApp f _ => f end.
Definition lop_src (o : lop) : lsrc := match o with LApp _ s => s end.

Record entries_prog := {
  ep_spl : list lop;            (* the appends to the samples request, in order *)
  ep_ts : list string;          (* the fields of the time-series request appended once per announced (day, type) *)
  ep_flush_resets : bool;       (* if spl.Size+ts.Size > 1 MiB { flush(); reset() } *)
  ep_unknown : Z                (* statements of the append block the translator does not understand *)
}.
Definition on_entries_cols_model : entries_prog := {|
  ep_spl := [LApp "MMessage" SrcMsg; LApp "MValue" SrcVal; LApp "MTimestampNS" SrcTs; LApp "MFingerprint" SrcFillTs;
             LApp "MTTLDays" SrcFillTs; LApp "MType" SrcTypes];
  ep_ts := ["MDate"; "MLabels"; "MFingerprint"; "MType"; "MTTLDays"];
  ep_flush_resets := true; ep_unknown := 0
|}.
Definition spl_fields_model : list string := ["MFingerprint"; "MTimestampNS"; "MMessage"; "MValue"; "MTTLDays"; "MType"].
Definition tsd_fields_model : list string := ["MDate"; "MLabels"; "MFingerprint"; "MTTLDays"; "MType"].

(* one call of onEntries as the decoder makes it *)
Record ent_ev := {
  en_lbl_short : bool;                     (* a label pair with fewer than two strings: lbl[0] / lbl[1] panics before any append *)
  en_ts : nat; en_msg : nat; en_val : nat; en_types : nat;    (* len(timestampsNS), len(message), len(value), len(types) *)
  en_bad_type : bool;                      (* some types[i] >= 3: tps[t] panics (after the appends) *)
  en_series : nat;                         (* (day, type) pairs announced by this call: rows for the time-series request *)
  en_bytes : N                             (* what the call adds to spl.Size + ts.Size *)
}.
Definition src_len (e : ent_ev) (s : lsrc) : nat :=
  match s with SrcMsg => en_msg e | SrcVal => en_val e | SrcTs | SrcFillTs => en_ts e | SrcTypes => en_types e end.
(* the decoders' side of the contract: the four slices have one length *)
Definition ent_consistent (e : ent_ev) : bool :=
  Nat.eqb (en_msg e) (en_ts e) && Nat.eqb (en_val e) (en_ts e) && Nat.eqb (en_types e) (en_ts e).

Record lbatch := { lb_spl : cols; lb_ts : cols; lb_size : N }.
Definition lbatch0 (sf tf : list string) : lbatch := {| lb_spl := zero_cols sf; lb_ts := zero_cols tf; lb_size := 0 |}.
Definition bump_by (f : string) (k : nat) (m : cols) : cols :=
  map (fun kv => if String.eqb (fst kv) f then (fst kv, (snd kv + N.of_nat k)%N) else kv) m.

Inductive lstep := LOk (b : lbatch) (sent : list lbatch) | LPanic.
Definition on_entries_cols (p : entries_prog) (sf tf : list string) (b : lbatch) (e : ent_ev) : lstep :=
  if en_lbl_short e then LPanic
  else
    let spl1 := fold_left (fun m o => bump_by (lop_field o) (src_len e (lop_src o)) m) (ep_spl p) (lb_spl b) in
    (* for _, t := range types { tps[t] = true };  for i := range timestampsNS { .. len(message[i]) .. } *)
    if en_bad_type e || Nat.ltb (en_msg e) (en_ts e) then LPanic
    else
      let ts1 := fold_left (fun m f => bump_by f (en_series e) m) (ep_ts p) (lb_ts b) in
      let b3 := {| lb_spl := spl1; lb_ts := ts1; lb_size := (lb_size b + en_bytes e)%N |} in
      if (MiB <? lb_size b3)%N then LOk (if ep_flush_resets p then lbatch0 sf tf else b3) [b3] else LOk b3 [].

Inductive lcol_event := LcEntries (e : ent_ev) | LcPanic | LcErr (typed : bool).
Fixpoint sent_lbatches (p : entries_prog) (sf tf : list string) (b : lbatch) (evs : list lcol_event) : list lbatch :=
  match evs with
  | [] => [b]                      (* doParseLogs: p.tsSpl.flush() after Decode returned nil, also when empty *)
  | LcPanic :: _ => []
  | LcErr _ :: _ => []
  | LcEntries e :: rest =>
      match on_entries_cols p sf tf b e with
      | LPanic => []
      | LOk b' sent => (sent ++ sent_lbatches p sf tf b' rest)%list
      end
  end.
Fixpoint lcol_status (p : entries_prog) (sf tf : list string) (b : lbatch) (evs : list lcol_event) : cls :=
  match evs with
  | [] => C2xx
  | LcPanic :: _ => C5xx
  | LcErr typed :: _ => if typed then C4xx else C5xx
  | LcEntries e :: rest =>
      match on_entries_cols p sf tf b e with
      | LPanic => C5xx
      | LOk b' _ => lcol_status p sf tf b' rest
      end
  end.

Definition lbatch_rect (b : lbatch) : bool := rectangular (lb_spl b) && rectangular (lb_ts b).
Definition count_str (f : string) (fs : list string) : nat := List.length (filter (String.eqb f) fs).
Definition entries_ok (p : entries_prog) (sf tf cons_s cons_t : list string) : bool :=
  ep_flush_resets p && Z.eqb (ep_unknown p) 0
  && nodup_str sf && nodup_str tf
  && forallb (fun f => Nat.eqb (count_str f (map lop_field (ep_spl p))) 1) sf
  && forallb (fun f => Nat.eqb (count_str f (ep_ts p)) 1) tf
  && forallb (fun f => existsb (String.eqb f) sf) cons_s
  && forallb (fun f => existsb (String.eqb f) tf) cons_t.
Definition events_consistent (evs : list lcol_event) : bool :=
  forallb (fun ev => match ev with LcEntries e => ent_consistent e | _ => true end) evs.

(* pipefuzz, logs route *)
Record lcase := {
  lc_id : Z; lc_events : list ent_ev; lc_end : pend;
  lc_outcome : outcome; lc_batches : list obatch          (* service 3 = samples, 4 = time series *)
}.
Definition lend_event (e : pend) : list lcol_event :=
  match e with PendNil => [] | PendErr t => [LcErr t] | PendPanic => [LcPanic] end.
Definition lpipe_expected (p : entries_prog) (sf tf : list string) (c : lcase) : cls * list obatch :=
  let evs := (map LcEntries (lc_events c) ++ lend_event (lc_end c))%list in
  let sent := sent_lbatches p sf tf (lbatch0 sf tf) evs in
  (lcol_status p sf tf (lbatch0 sf tf) evs,
   (map (fun b => (3%Z, map snd (lb_spl b))) sent ++ map (fun b => (4%Z, map snd (lb_ts b))) sent)%list).
Definition lpipe_mismatch (p : entries_prog) (sf tf : list string) (c : lcase) : bool :=
  let '(k, bs) := lpipe_expected p sf tf c in
  negb (accepts (Exact k) (lc_outcome c) && same_batches bs (lc_batches c)).
(* rectangularity is demanded of the observation only when the scripted decoder kept its side (equal lengths) *)
Definition lpipe_spec_violation (c : lcase) : bool :=
  negb (responded (lc_outcome c)
        && (negb (forallb ent_consistent (lc_events c)) || forallb (fun ob => all_equal (snd ob)) (lc_batches c))).
Definition lpipe_mismatches (p : entries_prog) (sf tf : list string) (cs : list lcase) : list Z :=
  map lc_id (filter (lpipe_mismatch p sf tf) cs).
Definition lpipe_spec_violations (cs : list lcase) : list Z := map lc_id (filter lpipe_spec_violation cs).

(* call sites of onEntries whose four slices are not one-element literals: equal lengths by construction (read):
   datadog metrics: tsNs and values are appended together per point, message/types are made with len(values);
   Loki protobuf: tsns, msgs, values, types are all made with len(stream.GetEntries());
   remote write (two calls): tsns, value, msg are appended together per sample, types = fastFillArray(len(tsns));
   Loki JSON: TsNs, String, Value, Types are appended together per entry (decodeEntry) -- C03's correspondence runs it *)
Definition entries_call_allow : list (string * string) := [
  ("utils/unmarshal/datadogMetricsJsonUnmarshal.go", "datadogMetricsRequestDec.Decode");
  ("utils/unmarshal/logsProtobuf.go", "logsProtoDec.Decode");
  ("utils/unmarshal/metricsProtobuf.go", "promMetricsProtoDec.Decode");
  ("utils/unmarshal/unmarshal.go", "pushRequestDec.Decode")
].
Definition entries_call_ok (c : string * string * string * string) : bool :=
  let '(f, fn, shape, _) := c in
  String.eqb shape "singletons" || existsb (fun a => String.eqb f (fst a) && String.eqb fn (snd a)) entries_call_allow.
Definition entries_calls_ok (cs : list (string * string * string * string)) : bool := forallb entries_call_ok cs.

(* the recover scopes of writer/: the only functions that call recover(), and how many `defer` statements name them
   (by bare name: the three parser goroutines defer p.tamePanic(); controller/shared.go tamePanic is the fiber-era
   handler wrapper, deferred nowhere).  A recover() added elsewhere would swallow panics silently; one removed here
   is a crash. *)
Definition recover_scopes_model : list (string * string * Z) :=
  [("controller/shared.go", "tamePanic", 3%Z); ("utils/unmarshal/builder.go", "parserDoer.tamePanic", 3%Z)].
Fixpoint scopes_eqb (a b : list (string * string * Z)) : bool :=
  match a, b with
  | [], [] => true
  | (f, fn, n) :: r, (f', fn', n') :: r' => String.eqb f f' && String.eqb fn fn' && Z.eqb n n' && scopes_eqb r r'
  | _, _ => false
  end.

(* ---- the column-level span model refines the id-level one of IngestRobust.v ---- *)
Definition cop_idx (o : cop) : bool := match o with CApp _ _ i | CSize _ i => i end.
Definition has_idx (os : list cop) : bool := existsb cop_idx os.
Definition abs_span (s : span_ev) : span_in :=
  {| si_tid := se_tid s; si_sid := se_sid s; si_keys := se_keys s; si_bytes := se_bytes s; si_abytes := 0 |}.
(* what a column-level event is at the id level: a span with fewer values than keys is a decoder-side panic *)
Definition abs_event (ev : col_event) : span_event :=
  match ev with
  | CvSpan s =>
      if negb ((se_tid s =? 16) && (se_sid s =? 8))%N then EvSpan (abs_span s)
      else if Nat.ltb (se_vals s) (se_keys s) then EvPanic else EvSpan (abs_span s)
  | CvPanic => EvPanic
  | CvErr t => EvErr (if t then e400 "decoder" else e_plain "decoder")
  end.
(* the shape of onSpan the refinement needs: width check first, val[i] only inside the loop over the keys *)
Definition handler_shape_ok (h : handler_prog) : bool :=
  hp_width_check h && hp_flush_resets h && negb (has_idx (hp_once h)) && has_idx (hp_loop h).

(* package unmarshal is entered from controller/ only: through the ParsingFunction values made by Build (handler side up
   to parserDoer.Do, then the parser goroutine) and through the functions controllers call directly (handler side) *)
Definition importers_ok (fs : list string) : bool := forallb (prefix "controller/") fs.

(* what a column-level onEntries call is at the row level of IngestRobust.v: a call that panics is a decoder-side panic *)
Definition abs_lev (ev : lcol_event) : logs_event :=
  match ev with
  | LcEntries e =>
      if en_lbl_short e || (en_bad_type e || Nat.ltb (en_msg e) (en_ts e)) then LvPanic
      else LvEntries {| ei_rows := N.of_nat (en_ts e); ei_series := N.of_nat (en_series e); ei_bytes := en_bytes e |}
  | LcPanic => LvPanic
  | LcErr t => LvErr (if t then e400 "decoder" else e_plain "decoder")
  end.

(* request-context values that are type-asserted WITHOUT the comma-ok form, and every place that stores them: the
   stored expressions have the asserted static type (dsn, meta := strings.Clone(header): string; TTLDays := uint16(0);
   nodeName := svc.GetNodeName(): string; `var precision time.Duration`) -- read once, pinned by text: a changed
   writer or a new asserted read falsifies the equality and has to be read again *)
Definition ctx_reads_model : list (string * string * string) := [
  ("DSN", "controller/middleware.go", "string");
  ("META", "utils/unmarshal/builder.go", "string");
  ("TTL_DAYS", "utils/unmarshal/builder.go", "uint16");
  ("node", "controller/builder.go", "string");
  ("precision", "utils/unmarshal/influxUnmarshal.go", "time.Duration")].
Definition ctx_writers_model : list (string * string * string) := [
  ("DSN", "controller/middleware.go", "dsn");
  ("META", "controller/middleware.go", "meta");
  ("TTL_DAYS", "controller/middleware.go", "TTLDays");
  ("node", "controller/middleware.go", "nodeName");
  ("node", "controller/middleware.go", "svc.GetNodeName()");
  ("precision", "controller/insertController.go", "precision")].
Fixpoint triples_eqb (a b : list (string * string * string)) : bool :=
  match a, b with
  | [], [] => true
  | (x, y, z) :: r, (x', y', z') :: r' => String.eqb x x' && String.eqb y y' && String.eqb z z' && triples_eqb r r'
  | _, _ => false
  end.
Definition ctx_contract_ok (writes reads : list (string * string * string)) : bool :=
  triples_eqb reads ctx_reads_model
  && triples_eqb (filter (fun w => existsb (fun r => String.eqb (fst (fst w)) (fst (fst r))) ctx_reads_model) writes) ctx_writers_model.

(* pipefuzz with an insert service that answers every request with an error: the handler still receives every response,
   awaits the promises and answers 500 (plain error, wrapped by retry.Do) -- unless an error response came first, which
   is returned at once; what was pushed stays pushed.  fail = code of the failing service, -1 = none. *)
Definition with_failing_service (fail : Z) (x : cls * list obatch) : cls * list obatch :=
  let '(k, bs) := x in
  (match k with
   | C2xx => if existsb (fun ob => Z.eqb (fst ob) fail) bs then C5xx else C2xx
   | _ => k
   end, bs).
Definition pipe_mismatch_f (h : handler_prog) (sf af : list string) (fail : Z) (c : pcase) : bool :=
  let '(k, bs) := with_failing_service fail (pipe_expected h sf af c) in
  negb (accepts (Exact k) (pc_outcome c) && same_batches bs (pc_batches c)).
Definition lpipe_mismatch_f (p : entries_prog) (sf tf : list string) (fail : Z) (c : lcase) : bool :=
  let '(k, bs) := with_failing_service fail (lpipe_expected p sf tf c) in
  negb (accepts (Exact k) (lc_outcome c) && same_batches bs (lc_batches c)).
Definition pipe_mismatches_f (h : handler_prog) (sf af : list string) (cs : list (Z * pcase)) : list Z :=
  map (fun fc => pc_id (snd fc)) (filter (fun fc => pipe_mismatch_f h sf af (fst fc) (snd fc)) cs).
Definition lpipe_mismatches_f (p : entries_prog) (sf tf : list string) (cs : list (Z * lcase)) : list Z :=
  map (fun fc => lc_id (snd fc)) (filter (fun fc => lpipe_mismatch_f p sf tf (fst fc) (snd fc)) cs).
