(* The global ingest system: all insert services, the promise store (utils/promise/promise.go) and the
   HTTP push handlers of writer/controller/builder.go (doParse / doPush with avast/retry-go v3).
   Executable definitions only. *)
From Coq Require Import List NArith ZArith Bool.
From Qryn Require Import model.Ingest.
Import ListNotations.

Definition pid_eqb (a b : pid) : bool :=
  match a, b with
  | PEnv n, PEnv m => N.eqb n m
  | PSub h i k, PSub h' i' k' => Nat.eqb h h' && Nat.eqb i i' && N.eqb k k'
  | _, _ => false
  end.

(* doPush: one goroutine per non-nil sub-request of a parser chunk.
   retry.Do(f, Attempts(n), Delay(d), FixedDelay): calls f until it returns nil, at most n times; the result is
   nil on the first success, otherwise the (non-nil) error log -- also when n = 0, without any call. *)
Record subpush := {
  sp_svc : nat;                (* the service (round-robin group) the route wired for this sub-request *)
  sp_kind : kind;              (* ... and its kind *)
  sp_req : req;
  sp_sz : Z;                   (* req.GetSize() *)
  sp_used : N;                 (* attempts started *)
  sp_cur : option N;           (* Some k: blocked in reqPromise.Get() of attempt k *)
  sp_result : option bool      (* what doPush's promise was completed with: Some true = nil error *)
}.

(* what the parser goroutine sends on its channel *)
Inductive item := IChunk (c : list (nat * kind * req * Z)) | IError.

Record handler := {
  h_items : list item;         (* not yet received by doParse *)
  h_subs : list subpush;       (* `promises`, in append order *)
  h_answer : option bool       (* the status written: Some true = the success status *)
}.

Record gstate := {
  svcs : list svc;
  store : list (pid * (kind * req * bool));   (* completed promises (Promise.Done is a once-only CAS) *)
  hs : list handler;
  attempts : N                                 (* SYSTEM_SETTINGS.RetryAttempts *)
}.

Inductive event :=
 | EReq (s : nat) (p : pid) (k : kind) (r : req) (sz : Z) (imm : option bool)
        (* svc.Request(r) was called with promise p; imm = how Request itself completed p, if it did *)
 | EDial (s : nat) (ok : bool)
 | ESwap (s : nat)                              (* swapBuffers took a non-empty portion (OnBeforeInsert is about to run) *)
 | ESend (s : nat) (k : kind) (b : block)       (* client.Do called with this block *)
 | EDone (s : nat) (ok : bool)                  (* that Do returned *)
 | EResolve (p : pid) (k : kind) (r : req) (ok : bool)   (* promise p completed *)
 | EAnswer (h : nat) (reqs : list (kind * req)) (ok : bool).  (* handler h wrote its status; reqs = every sub-request of its chunks *)

Definition in_store (p : pid) (st : list (pid * (kind * req * bool))) : bool :=
  existsb (fun e => pid_eqb p (fst e)) st.
Fixpoint lookup_store (p : pid) (st : list (pid * (kind * req * bool))) : option (kind * req * bool) :=
  match st with
  | [] => None
  | (q, v) :: t => if pid_eqb p q then Some v else lookup_store p t
  end.

(* turn the effects of a service step into events; Done on a completed promise does nothing *)
Fixpoint apply_sevs (s : nat) (k : kind) (st : list (pid * (kind * req * bool))) (vs : list sev)
  : list (pid * (kind * req * bool)) * list event :=
  match vs with
  | [] => (st, [])
  | VSwap :: r => let '(st', es) := apply_sevs s k st r in (st', ESwap s :: es)
  | VSend b :: r => let '(st', es) := apply_sevs s k st r in (st', ESend s k b :: es)
  | VRet ok :: r => let '(st', es) := apply_sevs s k st r in (st', EDone s ok :: es)
  | VDone p rq ok :: r =>
      if in_store p st then apply_sevs s k st r
      else let '(st', es) := apply_sevs s k ((p, (k, rq, ok)) :: st) r in (st', EResolve p k rq ok :: es)
  end.

Definition set_svcs (g : gstate) (l : list svc) (st : list (pid * (kind * req * bool))) : gstate :=
  {| svcs := l; store := st; hs := hs g; attempts := attempts g |}.
Definition set_hs (g : gstate) (l : list handler) : gstate :=
  {| svcs := svcs g; store := store g; hs := l; attempts := attempts g |}.

Definition imm_of (vs : list sev) : option bool :=
  match vs with VDone _ _ ok :: _ => Some ok | _ => None end.

(* one step of service s inside the system *)
Definition svc_act (g : gstate) (s : nat) (a : sact) : option (gstate * list event) :=
  match nth_error (svcs g) s with
  | None => None
  | Some sv =>
      match sstep sv a with
      | None => None
      | Some (sv', vs) =>
          let '(st', es) := apply_sevs s (kd sv) (store g) vs in
          let pre := match a with
                     | SRequest p r sz => [EReq s p (kd sv) r sz (imm_of vs)]
                     | SDial ok => [EDial s ok]
                     | _ => []
                     end in
          Some (set_svcs g (upd s sv' (svcs g)) st', pre ++ es)
      end
  end.

Definition mk_sub (n : N) (c : nat * kind * req * Z) : subpush :=
  let '(s, k, r, sz) := c in
  {| sp_svc := s; sp_kind := k; sp_req := r; sp_sz := sz; sp_used := 0; sp_cur := None;
     sp_result := if N.eqb n 0 then Some false else None |}.

(* the final loop of doParse: Get() the promises in order, return the first error *)
Fixpoint verdict (l : list subpush) : option bool :=
  match l with
  | [] => Some true
  | sp :: t => match sp_result sp with
               | None => None
               | Some false => Some false
               | Some true => verdict t
               end
  end.

Definition reqs_of (l : list subpush) : list (kind * req) :=
  map (fun sp => (sp_kind sp, sp_req sp)) l.
Definition kind_eqb (a b : kind) : bool :=
  match a, b with
  | KSamples, KSamples | KSeries, KSeries | KMetrics, KMetrics | KSpans, KSpans | KTags, KTags | KProfile, KProfile => true
  | _, _ => false
  end.
(* InsertServiceV2RoundRobin.Request: GetState of a worker is INSERTING from just before client.Do is called until
   fetchLoopIteration returns, IDLE otherwise.  The request goes to a worker of the group that is INSERTING if there is
   one, otherwise to any worker of the group; which one (the random index) is left open: it is the `s` of the action. *)
Definition inserting (sv : svc) : bool :=
  match inflight sv with Some po => p_sent po | None => false end.
Definition rr_pick_ok (g : gstate) (s : nat) : bool :=
  match nth_error (svcs g) s with
  | Some sv => inserting sv || negb (existsb (fun sv' => Nat.eqb (grp sv') (grp sv) && inserting sv') (svcs g))
  | None => false
  end.
Definition may_take (g : gstate) (s : nat) (sp : subpush) : bool :=
  match nth_error (svcs g) s with
  | Some sv => Nat.eqb (grp sv) (sp_svc sp) && kind_eqb (kd sv) (sp_kind sp) && rr_pick_ok g s
  | None => false
  end.

Inductive gact :=
 | GSvc (s : nat) (a : sact)             (* a must not be SRequest: requests come from GEnvReq / GSubReq *)
 | GEnvReq (s : nat) (k : kind) (n : N) (r : req) (sz : Z)   (* svc.Request (promise PEnv n) on the service of kind k to which worker s
                                                                belongs; the round robin picked s *)
 | GNewHandler (items : list item)       (* an HTTP push arrives; its parser will emit these items *)
 | GItem (h : nat)                       (* doParse receives the next item *)
 | GSubReq (h i s : nat)                 (* the doPush goroutine of sub-push i starts its next attempt; the round robin picks worker s *)
 | GSubGet (h i : nat)                   (* ... returns from reqPromise.Get() *)
 | GAnswer (h : nat).                    (* doParse returned after the parser closed its channel *)

Definition is_request (a : sact) : bool := match a with SRequest _ _ _ => true | _ => false end.

Definition gstep (g : gstate) (a : gact) : option (gstate * list event) :=
  match a with
  | GSvc s a => if is_request a then None else svc_act g s a
  | GEnvReq s k n r sz =>
      match nth_error (svcs g) s with
      | Some sv => if kind_eqb (kd sv) k && rr_pick_ok g s then svc_act g s (SRequest (PEnv n) r sz) else None
      | None => None
      end
  | GNewHandler items =>
      Some (set_hs g (hs g ++ [{| h_items := items; h_subs := []; h_answer := None |}]), [])
  | GItem h =>
      match nth_error (hs g) h with
      | None => None
      | Some hd =>
          match h_items hd with
          | [] => None
          | IChunk c :: rest =>
              Some (set_hs g (upd h {| h_items := rest; h_subs := h_subs hd ++ map (mk_sub (attempts g)) c;
                                       h_answer := h_answer hd |} (hs g)), [])
          | IError :: _ =>
              (* `return response.Error`: the rest of the channel is drained and dropped *)
              match h_answer hd with
              | Some _ => Some (set_hs g (upd h {| h_items := []; h_subs := h_subs hd; h_answer := h_answer hd |} (hs g)), [])
              | None => Some (set_hs g (upd h {| h_items := []; h_subs := h_subs hd; h_answer := Some false |} (hs g)),
                              [EAnswer h (reqs_of (h_subs hd)) false])
              end
          end
      end
  | GSubReq h i s =>
      match nth_error (hs g) h with
      | None => None
      | Some hd =>
          match nth_error (h_subs hd) i with
          | None => None
          | Some sp =>
              if is_none (sp_result sp) && is_none (sp_cur sp) && N.ltb (sp_used sp) (attempts g) && may_take g s sp then
                match svc_act g s (SRequest (PSub h i (sp_used sp)) (sp_req sp) (sp_sz sp)) with
                | None => None
                | Some (g', es) =>
                    let sp' := {| sp_svc := sp_svc sp; sp_kind := sp_kind sp; sp_req := sp_req sp; sp_sz := sp_sz sp;
                                  sp_used := N.succ (sp_used sp); sp_cur := Some (sp_used sp); sp_result := None |} in
                    Some (set_hs g' (upd h {| h_items := h_items hd; h_subs := upd i sp' (h_subs hd);
                                              h_answer := h_answer hd |} (hs g')), es)
                end
              else None
          end
      end
  | GSubGet h i =>
      match nth_error (hs g) h with
      | None => None
      | Some hd =>
          match nth_error (h_subs hd) i with
          | None => None
          | Some sp =>
              match sp_cur sp with
              | None => None
              | Some k =>
                  match lookup_store (PSub h i k) (store g) with
                  | None => None                                   (* Get() still blocks *)
                  | Some (_, _, ok) =>
                      let res := if ok then Some true
                                 else if N.ltb (sp_used sp) (attempts g) then None else Some false in
                      let sp' := {| sp_svc := sp_svc sp; sp_kind := sp_kind sp; sp_req := sp_req sp; sp_sz := sp_sz sp;
                                    sp_used := sp_used sp; sp_cur := None; sp_result := res |} in
                      Some (set_hs g (upd h {| h_items := h_items hd; h_subs := upd i sp' (h_subs hd);
                                               h_answer := h_answer hd |} (hs g)), [])
                  end
              end
          end
      end
  | GAnswer h =>
      match nth_error (hs g) h with
      | None => None
      | Some hd =>
          match h_items hd, h_answer hd, verdict (h_subs hd) with
          | [], None, Some ok =>
              Some (set_hs g (upd h {| h_items := []; h_subs := h_subs hd; h_answer := Some ok |} (hs g)),
                    [EAnswer h (reqs_of (h_subs hd)) ok])
          | _, _, _ => None
          end
      end
  end.

Fixpoint grun (g : gstate) (tr : list gact) : option (gstate * list event) :=
  match tr with
  | [] => Some (g, [])
  | a :: tr' =>
      match gstep g a with
      | None => None
      | Some (g', e1) =>
          match grun g' tr' with
          | None => None
          | Some (g'', e2) => Some (g'', e1 ++ e2)
          end
      end
  end.

(* configuration: the workers (kind, group, maxQueueSize) and the retry count *)
Definition ginit (cfg : list (kind * nat * Z)) (n : N) : gstate :=
  {| svcs := map (fun c => svc_init (fst (fst c)) (snd (fst c)) (snd c)) cfg; store := []; hs := []; attempts := n |}.
