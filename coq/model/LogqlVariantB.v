(* C10 — the variant relations of model/LogqlVariant.v as boolean functions, evaluated (OCaml extraction) by the tree-level tie on the
   ASTs the real LogQL parser produced for a hostile request and for its baseline: the hypothesis of
   logql_requests_differing_only_in_values_have_the_same_structure, checked per pair.  Executable definitions only
   (proofs/LogqlVariantBProofs.v: each function implies its relation). *)
From Qryn Require Import lib.Strs model.Sql model.SqlRender.
From Coq Require Import List ZArith NArith String Ascii Bool.
From Qryn Require Import model.Logql model.LogqlRegexp model.LogqlTemplate model.LogqlPlan model.ChLex model.SqlPieces
  model.SqlPiecesCases model.SqlPiecesSel model.LogqlVariant.
Import ListNotations.
Open Scope string_scope.

Scheme Equality for mop.
Scheme Equality for lfop.
Scheme Equality for lblop.
Scheme Equality for parser_fn.
Scheme Equality for cmpop.
Scheme Equality for lra_fn.
Scheme Equality for agg_fn.

(* equality of SQL objects on the fragment without closures and sub-selects (what json_path_sql builds); false elsewhere *)
Fixpoint expr_eqb (a b : expr) {struct a} : bool :=
  let fix go (l l' : list expr) {struct l} : bool :=
      match l, l' with
      | [], [] => true
      | x :: r, y :: r' => expr_eqb x y && go r r'
      | _, _ => false
      end in
  match a, b with
  | Raw s, Raw s' => String.eqb s s'
  | Id s, Id s' => String.eqb s s'
  | QRaw s, QRaw s' => String.eqb s s'
  | StrV s, StrV s' => String.eqb s s'
  | FloatV s, FloatV s' => String.eqb s s'
  | IntV z, IntV z' => Z.eqb z z'
  | Idx x k, Idx x' k' => expr_eqb x x' && expr_eqb k k'
  | Fn n l, Fn n' l' => String.eqb n n' && go l l'
  | Sep n l, Sep n' l' => String.eqb n n' && go l l'
  | _, _ => false
  end.

Definition same_someb {A B} (x : option A) (y : option B) : bool :=
  match x, y with Some _, Some _ => true | None, None => true | _, _ => false end.
Definition opt_eqb {A} (eqb : A -> A -> bool) (x y : option A) : bool :=
  match x, y with Some a, Some b => eqb a b | None, None => true | _, _ => false end.
Fixpoint forall2b {A} (f : A -> A -> bool) (l l' : list A) : bool :=
  match l, l' with
  | [], [] => true
  | x :: r, y :: r' => f x y && forall2b f r r'
  | _, _ => false
  end.

Definition slf_variantb (s s' : simple_lf) : bool :=
  String.eqb (slf_label s) (slf_label s') && lblop_beq (slf_fn s) (slf_fn s') &&
  opt_eqb (fun a b => String.eqb (fst a) (fst b) && String.eqb (snd a) (snd b)) (slf_num s) (slf_num s') &&
  same_someb (slf_str s) (slf_str s').
Fixpoint lf_variantb (f f' : label_filter) {struct f} : bool :=
  match f, f' with
  | LF h op t, LF h' op' t' =>
      (match h, h' with
       | HSimple s, HSimple s' => slf_variantb s s'
       | HComplex g, HComplex g' => lf_variantb g g'
       | _, _ => false
       end) && opt_eqb Bool.eqb op op' &&
      match t, t' with Some a, Some b => lf_variantb a b | None, None => true | _, _ => false end
  end.
Definition relit_variantb (r r' : option (string * bool)) : bool :=
  match r, r' with Some (_, i), Some (_, i') => Bool.eqb i i' | None, None => true | _, _ => false end.
Definition path_variantb (p p' : parser_param) : bool :=
  match pp_path p, pp_path p' with
  | Some x, Some x' => expr_eqb (erase (json_path_sql x)) (erase (json_path_sql x'))
  | None, None => true
  | _, _ => false
  end.
Definition re_variantb (v v' : string) : bool :=
  match re_plan v, re_plan v' with
  | Some (_, names), Some (_, names') => Nat.eqb (List.length names) (List.length names')
  | None, None => true
  | _, _ => false
  end.
Definition parser_variantb (fn : parser_fn) (ps ps' : list parser_param) : bool :=
  match fn with
  | PJson => forall2b path_variantb ps ps'
  | PRegexp => match ps, ps' with [], [] => true | p0 :: _, p0' :: _ => re_variantb (pp_val p0) (pp_val p0') | _, _ => false end
  | PLogfmt => true
  end.
Definition drop_variantb (ps ps' : list (string * option string)) : bool :=
  forall2b (fun p p' => Bool.eqb (drop_key_only p) (drop_key_only p')) ps ps'.
Definition tpl_variantb (t t' : string) : bool :=
  match tpl_parse t, tpl_parse t' with
  | TOk ns, TOk ns' => expr_eqb (erase (tpl_sql ns)) (erase (tpl_sql ns'))
  | TOk _, _ => false
  | _, TOk _ => false
  | _, _ => true
  end.
Definition stage_variantb (s s' : stage) : bool :=
  match s, s' with
  | PLineFilter op v rl, PLineFilter op' v' rl' => lfop_beq op op' && relit_variantb rl rl' && Bool.eqb (String.eqb v "") (String.eqb v' "")
  | PLabelFilter f, PLabelFilter f' => lf_variantb f f'
  | PParser fn ps, PParser fn' ps' => parser_fn_beq fn fn' && parser_variantb fn ps ps'
  | PLineFormat t, PLineFormat t' => tpl_variantb t t'
  | PLabelFormat, PLabelFormat => true
  | PUnwrap l, PUnwrap l' => Bool.eqb (String.eqb l "_entry") (String.eqb l' "_entry")
  | PDrop ps, PDrop ps' => drop_variantb ps ps'
  | _, _ => false
  end.
Definition strsel_variantb (s s' : strsel) : bool :=
  forall2b (fun m m' => mop_beq (m_op m) (m_op m')) (sel_matchers s) (sel_matchers s') &&
  forall2b stage_variantb (sel_pipeline s) (sel_pipeline s').

Definition bw_variantb (b b' : by_without) : bool :=
  Bool.eqb (bw_by b) (bw_by b') && Nat.eqb (List.length (bw_labels b)) (List.length (bw_labels b')).
Definition cmp_eqb (c c' : comparison) : bool := cmpop_beq (cmp_fn c) (cmp_fn c') && String.eqb (cmp_val c) (cmp_val c').
Definition lra_variantb (l l' : lra) : bool :=
  lra_fn_beq (lra_f l) (lra_f l') && opt_eqb bw_variantb (lra_prefix l) (lra_prefix l') && strsel_variantb (lra_sel l) (lra_sel l') &&
  Z.eqb (lra_dur_ns l) (lra_dur_ns l') && opt_eqb bw_variantb (lra_suffix l) (lra_suffix l') && opt_eqb cmp_eqb (lra_cmp l) (lra_cmp l').
Definition agg_variantb (a a' : aggop) : bool :=
  agg_fn_beq (agg_f a) (agg_f a') && opt_eqb bw_variantb (agg_prefix a) (agg_prefix a') && lra_variantb (agg_lra a) (agg_lra a') &&
  opt_eqb bw_variantb (agg_suffix a) (agg_suffix a') && opt_eqb cmp_eqb (agg_cmp a) (agg_cmp a').
Definition quantile_variantb (q q' : quantile) : bool :=
  opt_eqb bw_variantb (q_prefix q) (q_prefix q') && String.eqb (q_param q) (q_param q') && strsel_variantb (q_sel q) (q_sel q') &&
  Z.eqb (q_dur_ns q) (q_dur_ns q') && opt_eqb bw_variantb (q_suffix q) (q_suffix q') && opt_eqb cmp_eqb (q_cmp q) (q_cmp q').
Definition topk_variantb (t t' : topk) : bool :=
  Bool.eqb (tk_top t) (tk_top t') && Z.eqb (tk_len t) (tk_len t') &&
  (match tk_arg t, tk_arg t' with
   | TKLra l, TKLra l' => lra_variantb l l'
   | TKAgg a, TKAgg a' => agg_variantb a a'
   | TKQuantile q, TKQuantile q' => quantile_variantb q q'
   | _, _ => false
   end) && opt_eqb cmp_eqb (tk_cmp t) (tk_cmp t').
Definition script_variantb (s s' : script) : bool :=
  match s, s' with
  | SLog x, SLog x' => strsel_variantb x x'
  | SLra l, SLra l' => lra_variantb l l'
  | SAgg a, SAgg a' => agg_variantb a a'
  | STopK t, STopK t' => topk_variantb t t'
  | SQuantile q, SQuantile q' => quantile_variantb q q'
  | SMacros, SMacros => true
  | _, _ => false
  end.
