(* The statement of the flame-graph read path (property C16):
     reader/prof/transpiler  PlanMergeTraces = MergeRawPlanner -> MergeJoinedPlanner -> MergeAggregatedPlanner
   as a small syntax tree with a byte-exact renderer and an evaluator over the rows the writer stored.

   WITH fp as ( <fingerprint selection: property C17> ),
        raw as ( SELECT [ DISTINCT ]arrayMap(x -> (<ms_proj>), tree) as tree, functions FROM <table>
                 WHERE ((timestamp_ns) >= (<from>)) and ((timestamp_ns) < (<to>)) and (fingerprint IN (fp)) and (<matchers>)),
        pre_joined as ( SELECT rtree FROM raw array JOIN raw.tree as rtree ),
        joined as ( SELECT (<ms_out>) as tree FROM pre_joined GROUP BY <ms_group> ORDER BY <ms_order> LIMIT <ms_limit>)
   SELECT (select <agg>(tree) from joined) as _tree, (select <agg>(functions) from raw ) as _functions

   The check parses every statement the real ProfService sends into [merge_stmt] (python, untrusted: the model's
   rendering of the parsed tree must equal the text byte for byte), evaluates it here on the stored rows of the case and
   compares with the rows that were handed to the service.  The fingerprint selection and the label matchers are opaque
   texts here (they select WHICH profiles are read: property C17); the time window is evaluated.
   [ms_distinct]: the raw select is a SELECT DISTINCT (the sql builder writes " SELECT " ++ " DISTINCT "): rows of
   `raw` -- one per stored profile: (projected tree array, functions array) -- that are equal collapse into one BEFORE the
   ARRAY JOIN / GROUP BY sum.  PlanMergeTraces does not set it today and [stmt_ok] refuses it; the evaluator interprets
   it, so that a statement carrying it is judged on databases with repeated profiles (it loses their weight).
   Likewise interpreted and refused: DISTINCT in pre_joined (equal tree elements of different profiles collapse), max / min /
   any in place of sum, a window written with > or <= (a profile on the boundary is lost / read on both sides of a diff).
   Executable definitions only. *)
From Coq Require Import List NArith ZArith Bool String Ascii.
From Qryn Require Import model.Pprof model.ProfTree.
Import ListNotations.

(* an element of the tuple built by the arrayMap lambda over one element x of the stored `tree` array *)
Inductive tsel :=
| TField (n : N)                         (* x.n *)
| TFirst (ty : nat) (arr kf n : N)       (* (arrayFirst(y -> y.kf == '<type ty>', x.arr) as af).n *)
| TAf (n : N).                           (* af.n *)
Inductive afn := AMax | AMin | AAny.
Inductive gsel := GKey (n : N) | GSum (n : N)       (* rtree.n | sum(rtree.n) *)
                | GAgg (f : afn) (n : N).            (* max(rtree.n) | min(rtree.n) | any(rtree.n): refused by stmt_ok, evaluated *)
Inductive aggfn := GroupArray | GroupUniqArrayArray.

Record merge_stmt := {
  ms_fp : string; ms_table : string; ms_matchers : string;       (* opaque *)
  ms_types : list string;                                        (* the 'type:unit' literals, by index *)
  ms_proj : list tsel; ms_from : Z; ms_to : Z;
  ms_out : list gsel; ms_group : list N; ms_order : list N; ms_limit : Z;
  ms_tree_agg : aggfn; ms_fn_agg : aggfn;
  ms_distinct : bool;                                            (* raw is a SELECT DISTINCT *)
  ms_distinct_pre : bool;                                        (* pre_joined is a SELECT DISTINCT *)
  ms_from_strict : bool; ms_to_incl : bool }.                    (* the window is written with > / <= instead of >= / < *)

(* ------------------------------------------------------------------ rendering *)
Open Scope string_scope.
Definition digit (n : N) : string := String (ascii_of_N (48 + n)) EmptyString.
Fixpoint n_to_str (fuel : nat) (n : N) (acc : string) : string :=
  match fuel with
  | O => acc
  | S f => let acc' := digit (n mod 10) ++ acc in
           if N.ltb n 10 then acc' else n_to_str f (n / 10) acc'
  end.
Definition str_of_N (n : N) : string := n_to_str 25 n "".
Definition str_of_Z (z : Z) : string := if Z.ltb z 0 then "-" ++ str_of_N (Z.to_N (- z)) else str_of_N (Z.to_N z).

Fixpoint join (sep : string) (l : list string) : string :=
  match l with
  | [] => ""
  | [x] => x
  | x :: r => x ++ sep ++ join sep r
  end.

Definition render_tsel (types : list string) (t : tsel) : string :=
  match t with
  | TField n => "x." ++ str_of_N n
  | TFirst ty arr kf n => "(arrayFirst(y -> y." ++ str_of_N kf ++ " == '" ++ nth ty types "?" ++ "', x." ++ str_of_N arr ++ ") as af)." ++ str_of_N n
  | TAf n => "af." ++ str_of_N n
  end.
Definition render_afn (f : afn) : string := match f with AMax => "max" | AMin => "min" | AAny => "any" end.
Definition render_gsel (g : gsel) : string :=
  match g with
  | GKey n => "rtree." ++ str_of_N n
  | GSum n => "sum(rtree." ++ str_of_N n ++ ")"
  | GAgg f n => render_afn f ++ "(rtree." ++ str_of_N n ++ ")"
  end.
Definition render_agg (a : aggfn) : string :=
  match a with GroupArray => "groupArray" | GroupUniqArrayArray => "groupUniqArrayArray" end.

Definition render_stmt (s : merge_stmt) : string :=
  "WITH fp as ( " ++ ms_fp s ++ "),raw as ( SELECT " ++ (if ms_distinct s then " DISTINCT " else "") ++ "arrayMap(x -> (" ++ join ", " (map (render_tsel (ms_types s)) (ms_proj s)) ++
  "), tree) as tree, functions FROM " ++ ms_table s ++ " WHERE ((timestamp_ns) " ++ (if ms_from_strict s then ">" else ">=") ++ " (" ++ str_of_Z (ms_from s) ++
  ")) and ((timestamp_ns) " ++ (if ms_to_incl s then "<=" else "<") ++ " (" ++ str_of_Z (ms_to s) ++ ")) and (fingerprint IN (fp)) and (" ++ ms_matchers s ++
  ")),pre_joined as ( SELECT " ++ (if ms_distinct_pre s then " DISTINCT " else "") ++
  "rtree FROM raw array JOIN raw.tree as rtree ),joined as ( SELECT (" ++
  join ", " (map render_gsel (ms_out s)) ++ ") as tree FROM pre_joined GROUP BY " ++
  join ", " (map (fun n => "rtree." ++ str_of_N n) (ms_group s)) ++ " ORDER BY " ++
  join ", " (map (fun n => "rtree." ++ str_of_N n) (ms_order s)) ++ " LIMIT " ++ str_of_Z (ms_limit s) ++
  ") SELECT (select " ++ render_agg (ms_tree_agg s) ++ "(tree) from joined) as _tree, (select " ++
  render_agg (ms_fn_agg s) ++ "(functions) from raw ) as _functions".
Close Scope string_scope.

(* ------------------------------------------------------------------ evaluation
   a stored element of the `tree` column: (parent_id, function_id, node_id, [(type name, self, total)]);
   type names are tokens (the index of the 'type:unit' string in the case's table) *)
Record selem := { e_p : N; e_f : N; e_i : N; e_vals : list (Z * (Z * Z)) }.
(* a stored profile: timestamp, the `tree` column, the `functions` column (function id, name token) *)
Record sprof := { sp_ts : Z; sp_tree : list selem; sp_funcs : list (N * Z) }.

Inductive val := VU (u : N) | VI (z : Z) | VErr.
Definition val_eqb (a b : val) : bool :=
  match a, b with
  | VU x, VU y => N.eqb x y
  | VI x, VI y => Z.eqb x y
  | _, _ => false
  end.

(* arrayFirst: the first element satisfying the lambda, else the default tuple ('', 0, 0) *)
Fixpoint array_first (tok : Z) (l : list (Z * (Z * Z))) : Z * (Z * Z) :=
  match l with
  | [] => ((-1)%Z, (0, 0)%Z)
  | y :: r => if Z.eqb (fst y) tok then y else array_first tok r
  end.
Definition af_field (y : Z * (Z * Z)) (n : N) : val :=
  if N.eqb n 2 then VI (fst (snd y)) else if N.eqb n 3 then VI (snd (snd y)) else VErr.

Fixpoint eval_proj (toks : list Z) (x : selem) (af : option (Z * (Z * Z))) (ts : list tsel) : list val :=
  match ts with
  | [] => []
  | TField n :: r =>
      (if N.eqb n 1 then VU (e_p x) else if N.eqb n 2 then VU (e_f x) else if N.eqb n 3 then VU (e_i x) else VErr)
      :: eval_proj toks x af r
  | TFirst ty arr kf n :: r =>
      if N.eqb arr 4 && N.eqb kf 1
      then let y := array_first (nth ty toks (-2)%Z) (e_vals x) in af_field y n :: eval_proj toks x (Some y) r
      else VErr :: eval_proj toks x af r
  | TAf n :: r =>
      (match af with Some y => af_field y n | None => VErr end) :: eval_proj toks x af r
  end.

Definition field (t : list val) (n : N) : val := if N.eqb n 0 then VErr else nth (N.to_nat (n - 1)) t VErr.

Definition key_eq (a b : list val) : bool :=
  Nat.eqb (List.length a) (List.length b) && forallb (fun p => val_eqb (fst p) (snd p)) (combine a b).

(* GROUP BY: groups in order of first appearance, members in order *)
Fixpoint add_to_group (gs : list (list val * list (list val))) (k : list val) (t : list val) :=
  match gs with
  | [] => [(k, [t])]
  | (k', ms) :: r => if key_eq k' k then (k', ms ++ [t]) :: r else (k', ms) :: add_to_group r k t
  end.

Definition sum_field (ms : list (list val)) (n : N) : val :=
  fold_left (fun acc t => match acc, field t n with VI a, VI b => VI (wrap64 (a + b)) | _, _ => VErr end) ms (VI 0).
(* max / min / any over the members of a group (signed fields; any = the first member's) *)
Definition agg_field (f : afn) (ms : list (list val)) (n : N) : val :=
  match ms with
  | [] => VErr
  | m :: r => fold_left (fun acc t => match acc, field t n with
                                      | VI a, VI b => VI (match f with AMax => Z.max a b | AMin => Z.min a b | AAny => a end)
                                      | _, _ => VErr
                                      end) r (match field m n with VI a => VI a | _ => VErr end)
  end.
Definition eval_gsel (ms : list (list val)) (g : gsel) : val :=
  match g with
  | GKey n => field (hd [] ms) n
  | GSum n => sum_field ms n
  | GAgg f n => agg_field f ms n
  end.

(* ORDER BY one key (stable insertion sort on an unsigned field), LIMIT *)
Definition val_le (a b : val) : bool := match a, b with VU x, VU y => N.leb x y | _, _ => true end.
Fixpoint insert_sorted (n : N) (g : list val * list (list val)) (l : list (list val * list (list val))) :=
  match l with
  | [] => [g]
  | h :: r => if val_le (field (hd [] (snd h)) n) (field (hd [] (snd g)) n) then h :: insert_sorted n g r else g :: l
  end.
Fixpoint take_z {A} (n : Z) (l : list A) : list A :=
  match l with
  | [] => []
  | x :: r => if Z.leb n 0 then [] else x :: take_z (n - 1) r
  end.

Definition row_of_tuple (t : list val) : option row :=
  match t with
  | [VU p; VU f; VU i; VI s; VI t2] => Some {| r_parent := p; r_fn := f; r_id := i; r_self := s; r_total := t2 |}
  | _ => None
  end.
Fixpoint all_some {A} (l : list (option A)) : option (list A) :=
  match l with
  | [] => Some []
  | Some a :: r => match all_some r with Some r' => Some (a :: r') | None => None end
  | None :: _ => None
  end.

Fixpoint leqb {A} (eqb : A -> A -> bool) (a b : list A) : bool :=
  match a, b with
  | [], [] => true
  | x :: a', y :: b' => eqb x y && leqb eqb a' b'
  | _, _ => false
  end.

(* SELECT DISTINCT over the rows of `raw` (one row per stored profile of the window): two rows are the same row when
   their projected tree arrays are equal element by element, in order, and their functions arrays are; the first
   occurrence of every row is kept *)
Definition raw_row : Type := list (list val) * list (N * Z).
Definition fn_eqb (a b : N * Z) : bool := N.eqb (fst a) (fst b) && Z.eqb (snd a) (snd b).
Definition raw_eqb (a b : raw_row) : bool := leqb key_eq (fst a) (fst b) && leqb fn_eqb (snd a) (snd b).
Fixpoint distinct_by {A} (e : A -> A -> bool) (l : list A) : list A :=
  match l with
  | [] => []
  | x :: r => x :: filter (fun y => negb (e x y)) (distinct_by e r)
  end.
(* the time window as the statement writes it *)
Definition in_win (s : merge_stmt) (p : sprof) : bool :=
  (if ms_from_strict s then Z.ltb (ms_from s) (sp_ts p) else Z.leb (ms_from s) (sp_ts p)) &&
  (if ms_to_incl s then Z.leb (sp_ts p) (ms_to s) else Z.ltb (sp_ts p) (ms_to s)).
Definition raw_of (toks : list Z) (proj : list tsel) (p : sprof) : raw_row :=
  (map (fun x => eval_proj toks x None proj) (sp_tree p), sp_funcs p).

(* the rows of `_tree` (None: the statement does not produce 5-tuples of the expected types, or uses an aggregate
   other than groupArray for the tree) *)
Definition eval_merge_stmt (toks : list Z) (s : merge_stmt) (db : list sprof) : option (list row) :=
  let window := filter (in_win s) db in
  let raw := map (raw_of toks (ms_proj s)) window in
  let joined := flat_map fst (if ms_distinct s then distinct_by raw_eqb raw else raw) in
  let pre := if ms_distinct_pre s then distinct_by key_eq joined else joined in
  let groups := fold_left (fun gs t => add_to_group gs (map (field t) (ms_group s)) t) pre [] in
  let sorted := match ms_order s with
                | [n] => fold_left (fun acc g => insert_sorted n g acc) groups []
                | _ => groups
                end in
  let cut := take_z (ms_limit s) sorted in
  match ms_tree_agg s with
  | GroupArray => all_some (map (fun g => row_of_tuple (map (eval_gsel (snd g)) (ms_out s))) cut)
  | _ => None
  end.

(* the shape PlanMergeTraces has today; [ty] = index of the selected type *)
Definition tsel_eqb (a b : tsel) : bool :=
  match a, b with
  | TField n, TField m => N.eqb n m
  | TFirst t a1 k n, TFirst t' a2 k' n' => Nat.eqb t t' && N.eqb a1 a2 && N.eqb k k' && N.eqb n n'
  | TAf n, TAf m => N.eqb n m
  | _, _ => false
  end.
Definition gsel_eqb (a b : gsel) : bool :=
  match a, b with
  | GKey n, GKey m => N.eqb n m
  | GSum n, GSum m => N.eqb n m
  | GAgg f n, GAgg g m => match f, g with AMax, AMax | AMin, AMin | AAny, AAny => N.eqb n m | _, _ => false end
  | _, _ => false
  end.
Definition stmt_ok (ty : nat) (s : merge_stmt) : bool :=
  leqb tsel_eqb (ms_proj s) [TField 1; TField 2; TField 3; TFirst ty 4 1 2; TAf 3] &&
  leqb gsel_eqb (ms_out s) [GKey 1; GKey 2; GKey 3; GSum 4; GSum 5] &&
  leqb N.eqb (ms_group s) [1; 2; 3]%N && leqb N.eqb (ms_order s) [1%N] &&
  Z.eqb (ms_limit s) the_limit && negb (ms_distinct s) && negb (ms_distinct_pre s) &&
  negb (ms_from_strict s) && negb (ms_to_incl s) &&
  match ms_tree_agg s, ms_fn_agg s with GroupArray, GroupUniqArrayArray => true | _, _ => false end.

(* ------------------------------------------------------------------ specification side
   GROUP BY (parent, function, node) with wrapping sums, groups in order of first appearance *)
Definition gkey_eqb (a b : row) : bool :=
  N.eqb (r_parent a) (r_parent b) && N.eqb (r_fn a) (r_fn b) && N.eqb (r_id a) (r_id b).
Fixpoint group_insert (gs : list row) (r : row) : list row :=
  match gs with
  | [] => [r]
  | g :: rest =>
      if gkey_eqb g r
      then {| r_parent := r_parent g; r_fn := r_fn g; r_id := r_id g;
              r_self := wrap64 (r_self g + r_self r); r_total := wrap64 (r_total g + r_total r) |} :: rest
      else g :: group_insert rest r
  end.
Definition group_rows (rows : list row) : list row := fold_left group_insert rows [].

(* two row lists agree as multisets of (parent, function, node) groups: same length, every row of [a] has its
   values at its key in [b] (keys of [a] distinct is checked by the caller when needed) *)
Definition find_group (l : list row) (r : row) : option row := List.find (gkey_eqb r) l.
Definition rows_same (a b : list row) : bool :=
  Nat.eqb (List.length a) (List.length b) &&
  forallb (fun r => match find_group b r with
                    | Some g => Z.eqb (r_self g) (r_self r) && Z.eqb (r_total g) (r_total r)
                    | None => false
                    end) a &&
  forallb (fun r => match find_group a r with Some _ => true | None => false end) b.
