(* Model of parseLabelsLokiFormat (writer/utils/unmarshal/unmarshal.go): the parser of Loki label strings
   {name=''value'', ...} used by the protobuf push decoder for every stream and by the JSON decoder for the
   ''labels'' member (property C03).  Executable definitions only; proofs are in proofs/LokiLabelsProofs.v.

   The Go function drives a text/scanner.Scanner (default mode GoTokens, Go white space, comments skipped) and
   calls strconv.Unquote on every string token.  Both are transcribed here as far as the parser can observe them:
     skip_blank   white space, // and /* */ comments (Scan's redo loop, scanComment)
     ident_len    scanIdentifier with the default isIdentRune ('_', unicode letters, unicode digits after the first rune)
     scan_str     scanString + scanEscape + scanDigits: where a ''...'' token ends
     unq          strconv.Unquote on a double-quoted token (UnquoteChar for every escape form, U+FFFD for bytes that
                  are not UTF-8, syntax error for a bare quote / newline / bad escape)
     next_tok     Scan: EOF | identifier | string | one of { } = , | anything else (numbers, chars, raw strings, ...)
     parse_labels the loop of parseLabelsLokiFormat; None = an error is returned
   Every token kind the parser does not expect makes it return an error at once, so ''anything else'' needs no extent.
   unicode.IsLetter / unicode.IsDigit on runes outside ASCII are oracles (Section variables), given the UTF-8 bytes. *)
From Coq Require Import List ZArith NArith Bool Ascii String.
From Qryn Require Import model.Decode.
Import ListNotations.
Open Scope N_scope.

Definition bstr (l : list N) : string := fold_right (fun n acc => String (ascii_of_N n) acc) EmptyString l.
Fixpoint sdrop (n : nat) (s : string) : string :=
  match n, s with O, _ => s | S k, String _ r => sdrop k r | S _, EmptyString => EmptyString end.

(* ---------------------------------------------------------------- strconv.Unquote (double-quoted form) *)
Definition hex_val (b : N) : option N :=
  if inr 48 57 b then Some (b - 48) else if inr 97 102 b then Some (b - 87) else if inr 65 70 b then Some (b - 55) else None.
Definition oct_val (b : N) : option N := if inr 48 55 b then Some (b - 48) else None.
Definition hexN (l : list ascii) : option N :=
  fold_left (fun acc h => match acc, hex_val (byte h) with Some a, Some d => Some (a * 16 + d) | _, _ => None end) l (Some 0).

(* utf8.AppendRune; utf8.ValidRune *)
Definition utf8_encode (v : N) : string :=
  if v <? 128 then bstr [v]
  else if v <? 2048 then bstr [192 + v / 64; 128 + v mod 64]
  else if v <? 65536 then bstr [224 + v / 4096; 128 + (v / 64) mod 64; 128 + v mod 64]
  else bstr [240 + v / 262144; 128 + (v / 4096) mod 64; 128 + (v / 64) mod 64; 128 + v mod 64].
Definition valid_rune (v : N) : bool := (v <? 55296) || ((57343 <? v) && (v <=? 1114111)).

(* \a \b \f \n \r \t \v \\ \''  (\' is a syntax error inside double quotes) *)
Definition simple_escape (b : N) : option N :=
  if b =? 97 then Some 7 else if b =? 98 then Some 8 else if b =? 102 then Some 12 else if b =? 110 then Some 10
  else if b =? 114 then Some 13 else if b =? 116 then Some 9 else if b =? 118 then Some 11 else if b =? 92 then Some 92
  else if b =? 34 then Some 34 else None.

Definition ocons (a : ascii) (o : option string) : option string :=
  match o with Some s => Some (String a s) | None => None end.
Definition oapp (p : string) (o : option string) : option string :=
  match o with Some s => Some (p ++ s)%string | None => None end.

(* s = the token text behind the opening quote (closing quote included).  skip = bytes of a multi-byte rune still
   to be copied.  Some v only when the first unescaped quote is the last byte of the token. *)
Fixpoint unq (skip : nat) (s : string) : option string :=
  match s with
  | EmptyString => None
  | String a r =>
    match skip with
    | S k => ocons a (unq k r)
    | O =>
      let b := byte a in
      if b =? 34 then (match r with EmptyString => Some EmptyString | _ => None end)
      else if b =? 10 then None
      else if b =? 92 then
        match r with
        | EmptyString => None
        | String c r1 =>
          let cb := byte c in
          match simple_escape cb with
          | Some v => ocons (ascii_of_N v) (unq 0 r1)
          | None =>
            if cb =? 120 then                                         (* \xHH: one byte, possibly not UTF-8 *)
              match r1 with
              | String h1 (String h2 r2) =>
                match hexN [h1; h2] with Some v => ocons (ascii_of_N v) (unq 0 r2) | None => None end
              | _ => None
              end
            else if cb =? 117 then                                    (* \uXXXX *)
              match r1 with
              | String h1 (String h2 (String h3 (String h4 r2))) =>
                match hexN [h1; h2; h3; h4] with
                | Some v => if valid_rune v then oapp (utf8_encode v) (unq 0 r2) else None
                | None => None
                end
              | _ => None
              end
            else if cb =? 85 then                                     (* \UXXXXXXXX *)
              match r1 with
              | String h1 (String h2 (String h3 (String h4 (String h5 (String h6 (String h7 (String h8 r2))))))) =>
                match hexN [h1; h2; h3; h4; h5; h6; h7; h8] with
                | Some v => if valid_rune v then oapp (utf8_encode v) (unq 0 r2) else None
                | None => None
                end
              | _ => None
              end
            else
              match oct_val cb with                                   (* \ooo, at most 255 *)
              | Some o1 =>
                match r1 with
                | String c2 (String c3 r2) =>
                  match oct_val (byte c2), oct_val (byte c3) with
                  | Some o2, Some o3 =>
                    let v := o1 * 64 + o2 * 8 + o3 in
                    if v <=? 255 then ocons (ascii_of_N v) (unq 0 r2) else None
                  | _, _ => None
                  end
                | _ => None
                end
              | None => None
              end
          end
        end
      else if b <? 128 then ocons a (unq 0 r)
      else
        match rune_width b r with
        | S (S k) => ocons a (unq (S k) r)                            (* a well-formed sequence is copied *)
        | _ => oapp (bstr [239; 191; 189]) (unq 0 r)                  (* utf8.RuneError re-encoded: U+FFFD *)
        end
    end
  end.

(* ---------------------------------------------------------------- text/scanner *)
Definition is_ws (b : N) : bool := (b =? 9) || (b =? 10) || (b =? 13) || (b =? 32).

(* Scan's redo loop: white space; ''//'' up to the end of the line; ''/*'' up to the first ''*/'' (or the end of the
   text: ''comment not terminated'', then EOF).  A '/' followed by anything else is a token. *)
Inductive bmode := BM0 | BMLine | BMBlock | BMBlockStar.
Fixpoint skip_blank (m : bmode) (s : string) : string :=
  match s with
  | EmptyString => EmptyString
  | String a r =>
    let b := byte a in
    match m with
    | BM0 =>
      if is_ws b then skip_blank BM0 r
      else if b =? 47 then
        match r with
        | String c r' => if byte c =? 47 then skip_blank BMLine r' else if byte c =? 42 then skip_blank BMBlock r' else s
        | EmptyString => s
        end
      else s
    | BMLine => if b =? 10 then skip_blank BM0 r else skip_blank BMLine r
    | BMBlock => if b =? 42 then skip_blank BMBlockStar r else skip_blank BMBlock r
    | BMBlockStar => if b =? 47 then skip_blank BM0 r else if b =? 42 then skip_blank BMBlockStar r else skip_blank BMBlock r
    end
  end.

(* scanString('''') with scanEscape / scanDigits: the token text behind the opening quote (up to and including the
   closing quote, or the newline / end of text of a literal that is not terminated) and the text behind it.
   An escape the scanner does not know is reported and scanning goes on with the same character. *)
Definition digit_val (b : N) : N :=
  if inr 48 57 b then b - 48 else if inr 97 102 (N.lor b 32) then N.lor b 32 - 87 else 16.
Inductive sstate := SS | SE | SD (base : N) (left : nat).
Definition tcons (a : ascii) (p : string * string) : string * string := (String a (fst p), snd p).
Fixpoint scan_str (st : sstate) (s : string) : string * string :=
  match s with
  | EmptyString => (EmptyString, EmptyString)
  | String a r =>
    let b := byte a in
    let plain :=
      if (b =? 34) || (b =? 10) then (String a EmptyString, r)
      else if b =? 92 then tcons a (scan_str SE r)
      else tcons a (scan_str SS r) in
    match st with
    | SS => plain
    | SE =>
      match simple_escape b with
      | Some _ => tcons a (scan_str SS r)
      | None =>
        if inr 48 55 b then tcons a (scan_str (SD 8 2) r)
        else if b =? 120 then tcons a (scan_str (SD 16 2) r)
        else if b =? 117 then tcons a (scan_str (SD 16 4) r)
        else if b =? 85 then tcons a (scan_str (SD 16 8) r)
        else plain
      end
    | SD base (S k) => if digit_val b <? base then tcons a (scan_str (SD base k) r) else plain
    | SD _ O => plain
    end
  end.

Section LABELS.
  Variable uletter : string -> bool.       (* unicode.IsLetter on a rune outside ASCII, given by its UTF-8 bytes *)
  Variable udigit : string -> bool.        (* unicode.IsDigit *)

  (* scanIdentifier: number of bytes of the longest identifier at the start of s (0: s does not start with one) *)
  Fixpoint ident_len (skip : nat) (first : bool) (s : string) : nat :=
    match s with
    | EmptyString => O
    | String a r =>
      match skip with
      | S k => S (ident_len k false r)
      | O =>
        let b := byte a in
        if b <? 128 then (if is_alpha_ b || (negb first && is_digit b) then S (ident_len 0 false r) else O)
        else
          match rune_width b r with
          | S (S k) =>
            let rn := String a (substring 0 (S k) r) in
            if uletter rn || (negb first && udigit rn) then S (ident_len (S k) false r) else O
          | _ => O                              (* not UTF-8: utf8.RuneError is neither a letter nor a digit *)
          end
      end
    end.

  Inductive tok := TEOF | TIdent (name : string) | TStr (text : string) | TCh (b : N) | TOther.

  Definition is_punct (b : N) : bool := (b =? 123) || (b =? 125) || (b =? 61) || (b =? 44).

  Definition next_tok (s : string) : tok * string :=
    match skip_blank BM0 s with
    | EmptyString => (TEOF, EmptyString)
    | String a r as s' =>
      let b := byte a in
      if b =? 34 then let p := scan_str SS r in (TStr (fst p), snd p)
      else
        match ident_len 0 true s' with
        | S k => (TIdent (substring 0 (S k) s'), sdrop (S k) s')
        | O => if is_punct b then (TCh b, r) else (TOther, r)
        end
    end.

  (* for tok != EOF { ident; '='; string; Unquote; append; '}' -> return buf; ',' -> again }; anything else is an error.
     The text behind the closing brace is not looked at. *)
  Fixpoint parse_pairs (fuel : nat) (s : string) (buf : labels) : option labels :=
    match fuel with
    | O => None
    | S f =>
      match next_tok s with
      | (TIdent name, s1) =>
        match next_tok s1 with
        | (TCh eq, s2) =>
          if eq =? 61 then
            match next_tok s2 with
            | (TStr text, s3) =>
              match unq 0 text with
              | None => None
              | Some v =>
                match next_tok s3 with
                | (TCh c, s4) =>
                  if c =? 125 then Some (buf ++ [(name, v)])
                  else if c =? 44 then parse_pairs f s4 (buf ++ [(name, v)])
                  else None
                | _ => None
                end
              end
            | _ => None
            end
          else None
        | _ => None
        end
      | _ => None
      end
    end.

  (* Peek: a byte order mark in front of the text is ignored *)
  Definition strip_bom (s : string) : string :=
    match s with
    | String a (String b (String c r)) => if (byte a =? 239) && (byte b =? 187) && (byte c =? 191) then r else s
    | _ => s
    end.

  Definition parse_labels (text : string) (buf : labels) : option labels :=
    match next_tok (strip_bom text) with
    | (TCh b, s1) => if b =? 123 then parse_pairs (S (String.length text)) s1 buf else None
    | _ => None
    end.
End LABELS.

(* ---------------------------------------------------------------- writing label strings (specification side) *)
(* the ways a value can be written between double quotes *)
Inductive qel :=
| QByte (a : ascii)            (* an ASCII byte other than the quote, the backslash and the newline, as itself *)
| QRune (s : string)           (* a well-formed multi-byte UTF-8 sequence, as itself *)
| QSimple (c : ascii)          (* \a \b \f \n \r \t \v \\ \'' *)
| QHex (b : N)                 (* \xHH: any byte *)
| QOct (b : N)                 (* \ooo: any byte *)
| QU4 (v : N)                  (* \uXXXX: a rune below 65536 that is no surrogate; its UTF-8 encoding *)
| QU8 (v : N).                 (* \UXXXXXXXX: any rune that is no surrogate, up to U+10FFFF; its UTF-8 encoding *)

Fixpoint all_bytes (p : N -> bool) (s : string) : bool :=
  match s with EmptyString => true | String a r => p (byte a) && all_bytes p r end.
Definition hexdigit (d : N) : ascii := ascii_of_N (if d <? 10 then 48 + d else 87 + d).
Definition qel_ok (e : qel) : bool :=
  match e with
  | QByte a => (byte a <? 128) && negb (byte a =? 34) && negb (byte a =? 92) && negb (byte a =? 10)
  | QRune s => match s with
               | String a t => (128 <=? byte a) && Nat.ltb 0 (String.length t) && Nat.eqb (rune_width (byte a) t) (S (String.length t))
                               && all_bytes (fun x => 128 <=? x) t
               | EmptyString => false
               end
  | QSimple c => match simple_escape (byte c) with Some _ => true | None => false end
  | QHex b => b <? 256
  | QOct b => b <? 256
  | QU4 v => valid_rune v && (v <? 65536)
  | QU8 v => valid_rune v
  end.
Definition hex4_text (v : N) (rest : string) : string :=
  String (hexdigit (v / 4096)) (String (hexdigit ((v / 256) mod 16)) (String (hexdigit ((v / 16) mod 16)) (String (hexdigit (v mod 16)) rest))).
Definition octdigit (d : N) : ascii := ascii_of_N (48 + d).
Definition qel_text (e : qel) : string :=
  match e with
  | QByte a => String a EmptyString
  | QRune s => s
  | QSimple c => String "\" (String c EmptyString)
  | QHex b => String "\" (String "x" (String (hexdigit (b / 16)) (String (hexdigit (b mod 16)) EmptyString)))
  | QOct b => String "\" (String (octdigit (b / 64)) (String (octdigit ((b / 8) mod 8)) (String (octdigit (b mod 8)) EmptyString)))
  | QU4 v => String "\" (String "u" (String (hexdigit (v / 4096)) (String (hexdigit ((v / 256) mod 16))
             (String (hexdigit ((v / 16) mod 16)) (String (hexdigit (v mod 16)) EmptyString)))))
  | QU8 v => String "\" (String "U" (hex4_text (v / 65536) (hex4_text (v mod 65536) EmptyString)))
  end.
Definition qel_value (e : qel) : string :=
  match e with
  | QByte a => String a EmptyString
  | QRune s => s
  | QSimple c => match simple_escape (byte c) with Some v => String (ascii_of_N v) EmptyString | None => EmptyString end
  | QHex b => String (ascii_of_N b) EmptyString
  | QOct b => String (ascii_of_N b) EmptyString
  | QU4 v => utf8_encode v
  | QU8 v => utf8_encode v
  end.
Definition sconcat (l : list string) : string := fold_right append EmptyString l.
Definition quoted_text (els : list qel) : string := sconcat (map qel_text els).
Definition quoted_value (els : list qel) : string := sconcat (map qel_value els).

(* a label name of the Loki / Prometheus syntax: [a-zA-Z_][a-zA-Z0-9_]* *)
Definition label_name_ok (s : string) : bool :=
  match s with
  | EmptyString => false
  | String a r => is_alpha_ (byte a) && all_bytes (fun b => is_alpha_ b || is_digit b) r
  end.

(* {n1=''v1'',<blank>n2=''v2'',<blank>...} *)
Definition print_pair (l : string * list qel) : string :=
  (fst l ++ String "=" (String """" (quoted_text (snd l) ++ String """" EmptyString)))%string.
Fixpoint print_pairs (blank : string) (ls : list (string * list qel)) : string :=
  match ls with
  | [] => EmptyString
  | [l] => print_pair l
  | l :: r => (print_pair l ++ String "," (blank ++ print_pairs blank r))%string
  end.
Definition print_labels (blank : string) (ls : list (string * list qel)) : string :=
  String "{" (print_pairs blank ls ++ String "}" EmptyString).
Definition labels_written (ls : list (string * list qel)) : labels := map (fun l => (fst l, quoted_value (snd l))) ls.

(* label names beyond ASCII: the whole of s is identifier material for scanIdentifier -- ASCII letters, digits (not first) and the
   underscore, and well-formed multi-byte runes the letter / digit oracles accept (unicode.IsLetter; unicode.IsDigit not first) *)
Fixpoint name_scan (uletter udigit : string -> bool) (skip : nat) (first : bool) (s : string) : bool :=
  match s with
  | EmptyString => Nat.eqb skip 0
  | String a r =>
    match skip with
    | S k => name_scan uletter udigit k false r
    | O =>
      let b := byte a in
      if b <? 128 then (is_alpha_ b || (negb first && is_digit b)) && name_scan uletter udigit 0 false r
      else match rune_width b r with
           | S (S k) =>
             let t := substring 0 (S k) r in
             Nat.eqb (rune_width b t) (S (S k)) && (uletter (String a t) || (negb first && udigit (String a t))) &&
             name_scan uletter udigit (S k) false r
           | _ => false
           end
    end
  end.
Definition uname_ok (uletter udigit : string -> bool) (s : string) : bool :=
  match s with EmptyString => false | _ => name_scan uletter udigit 0 true s end.
Definition upair_ok (uletter udigit : string -> bool) (l : string * list qel) : bool :=
  uname_ok uletter udigit (fst l) && forallb qel_ok (snd l).

(* ---------------------------------------------------------------- the Loki protobuf push with its labels as text *)
(* logsProtobuf.go Decode: every stream carries its label set as a text in this syntax, parsed into an empty buffer;
   a text that is not accepted fails the request (None; chunks flushed earlier may have been sent already) *)
Section PBTEXT.
  Variable uletter udigit : string -> bool.
  Fixpoint pb_streams_of_texts (body : list (string * list lentry)) : option (list lstream) :=
    match body with
    | [] => Some []
    | s :: r =>
      match parse_labels uletter udigit (fst s) [], pb_streams_of_texts r with
      | Some l, Some rs => Some (LS l (snd s) :: rs)
      | _, _ => None
      end
    end.
End PBTEXT.
Definition pair_ok (l : string * list qel) : bool := label_name_ok (fst l) && forallb qel_ok (snd l).
(* a stream as a client writes it: a non-empty list of (name, value as written) and the entries *)
Definition wstream_ok (s : list (string * list qel) * list lentry) : bool :=
  negb (Nat.eqb (List.length (fst s)) 0) && forallb pair_ok (fst s).

(* ---------------------------------------------------------------- generated case files *)
(* the unicode oracle of a case: the runes outside ASCII that occur in the text, with unicode.IsLetter / IsDigit *)
Definition in_tab (tab : list string) (rn : string) : bool := existsb (String.eqb rn) tab.

Definition labels_eqb (a b : labels) : bool := list_eqb kv_eqb a b.
Definition olabels_eqb (a b : option labels) : bool :=
  match a, b with Some x, Some y => labels_eqb x y | None, None => true | _, _ => false end.

(* src = Some ls: the text was written from the label list ls (by the harness's own writers of the Loki syntax), so
   the property demands that it is read back as buf ++ ls; None: a text of unknown status (mutated, random) *)
Record lcase := LCase { lc_id : Z; lc_text : string; lc_buf : labels; lc_letters : list string; lc_digits : list string;
                        lc_src : option labels; lc_obs : option labels }.
Definition lc_model (c : lcase) : option labels :=
  parse_labels (in_tab (lc_letters c)) (in_tab (lc_digits c)) (lc_text c) (lc_buf c).
Definition lc_mismatch (c : lcase) : bool := negb (olabels_eqb (lc_model c) (lc_obs c)).
Definition lc_spec_violation (c : lcase) : bool :=
  match lc_src c with
  | Some ls => negb (olabels_eqb (Some (lc_buf c ++ ls)%list) (lc_obs c))
  | None =>
    (* whatever is accepted leaves the labels already in the buffer alone *)
    match lc_obs c with
    | Some out => negb (labels_eqb (firstn (List.length (lc_buf c)) out) (lc_buf c))
    | None => false
    end
  end.
Definition lc_check_all (cs : list lcase) : list Z * list Z :=
  (map lc_id (filter lc_mismatch cs), map lc_id (filter lc_spec_violation cs)).
