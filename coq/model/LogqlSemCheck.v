(* C07 - executable side of the failing-input search: everything the check evaluates (through the
   OCaml extraction) on generated queries and small databases.
   * prep: turns the tree that harness/sqlparse recovers from the IMPLEMENTATION's SQL text into the
     form SqlEval interprets (WITH references resolved to their queries; the groupBitOr(...) text
     folded back into BitSetAnd; the labels-map fragment; date literals). prep is untrusted: the check
     requires render (prep tree) = the implementation's text, byte for byte.
   * boolean versions of the reference semantics (sem_b decides logql_sem), of db_ok and of the guards.
   * check_case: evaluates the implementation's SELECT and the model's SELECT over each database and
     runs the spec oracle on both.
   Executable definitions only. *)
From Coq Require Import List ZArith NArith QArith String Ascii Bool.
From Qryn Require Import lib.Strs lib.CivilDate model.Sql model.SqlRender model.Logql model.LogqlRegexp model.LogqlPlan model.SqlEval model.LogqlSem.
Import ListNotations.
Open Scope string_scope.

(* ---------- prep ---------- *)
Fixpoint assoc_sel (a : string) (env : list (string * select)) : option select :=
  match env with
  | [] => None
  | (k, q) :: r => if String.eqb k a then Some q else assoc_sel a r
  end.

Fixpoint suffixb (suf s : string) : bool :=
  String.eqb suf s || match s with String _ r => suffixb suf r | EmptyString => false end.
Definition date_lit (days : list Z) (s : string) : expr :=
  match find (fun d => String.eqb (date_string d) s) days with Some d => DateV d | None => StrV s end.

(* bitShiftLeft(toUInt64(c0), 0) + bitShiftLeft(toUInt64(c1), 1) + ... : the conditions, when the indexes are 0,1,2,... *)
Fixpoint bitset_conds (parts : list expr) (i : Z) : option (list expr) :=
  match parts with
  | [] => Some []
  | Fn name [Fn wide [c]; IntV k] :: r =>
    if String.eqb name "bitShiftLeft" && String.eqb wide "toUInt64" && Z.eqb k i then
      match bitset_conds r (i + 1) with Some cs => Some (c :: cs) | None => None end
    else None
  | _ => None
  end.

(* digits '.' digits, with an optional sign: the text of a FloatVal with a fraction *)
Fixpoint all_digits (s : string) : bool :=
  match s with EmptyString => true | String c r => is_digit c && all_digits r end.
Fixpoint float_tail (s : string) (seen : bool) : bool :=
  match s with
  | EmptyString => false
  | String c r => if Ascii.eqb c "." then seen && negb (String.eqb r "") && all_digits r
                  else is_digit c && float_tail r true
  end.
Definition is_float_lit (s : string) : bool :=
  match s with String c r => if Ascii.eqb c "-" then float_tail r false else float_tail s false | EmptyString => false end.

(* texts are compared up to the numbers drawn from sql.Ctx.Id(): jp_12 -> jp_ *)
Fixpoint strip_jp (st : nat) (s : string) : string :=
  match s with
  | EmptyString => EmptyString
  | String c r =>
    if Nat.eqb st 3 && is_digit c then strip_jp 3 r
    else String c (strip_jp (if Ascii.eqb c "j" then 1
                             else if Nat.eqb st 1 && Ascii.eqb c "p" then 2
                             else if Nat.eqb st 2 && Ascii.eqb c "_" then 3 else 0)%nat r)
  end.
Definition expr_text (e : expr) : string := strip_jp 0 (fst (rexpr e no_opts rst0)).
(* the planner-local objects of a query whose text SqlEval interprets as a whole and that prep recognises through the
   model's own text: the json extraction map of every `| json` stage. (The lambda of a `| drop` stage and the map of a
   `| regexp` stage are PARSED from the implementation's text - parse_drop_lambda, parse_regex_map - whatever labels,
   values, names and expression it carries.) *)
Definition frag_cands (q : strsel) : list (string * expr) :=
  flat_map (fun s => match s with
                     | PParser PJson ps =>
                       match all_paths ps with
                       | Some paths => let e := sql_json_parser (map pp_label ps) paths in [(expr_text e, e)]
                       | None => [] end
                     | _ => [] end) (sel_pipeline q).
Fixpoint cand_lookup (t : string) (cs : list (string * expr)) : option expr :=
  match cs with [] => None | (t', e) :: r => if String.eqb t t' then Some e else cand_lookup t r end.

(* ---------- planner-local objects read back from their TEXT (any names / values the implementation printed) ---------- *)
(* a quoted string literal (StringVal.String) in front of s, after its opening quote: the value and the rest *)
Definition unesc_char (d : ascii) : ascii :=
  if Ascii.eqb d "0" then "000" else if Ascii.eqb d "n" then "010" else if Ascii.eqb d "r" then "013"
  else if Ascii.eqb d "b" then "008" else if Ascii.eqb d "t" then "009" else d.
Fixpoint quoted_body (s acc : string) : option (string * string) :=
  match s with
  | EmptyString => None
  | String c r =>
    if Ascii.eqb c "'" then Some (rev_s acc "", r)
    else if Ascii.eqb c "\" then
      match r with
      | String d r2 =>
        if Ascii.eqb d "x" then match r2 with String _ (String _ r3) => quoted_body r3 (String "026" acc) | _ => None end
        else quoted_body r2 (String (unesc_char d) acc)
      | EmptyString => None
      end
    else quoted_body r (String c acc)
  end.
Definition take_quoted (s : string) : option (string * string) :=
  match s with String c r => if Ascii.eqb c "'" then quoted_body r "" else None | EmptyString => None end.
Fixpoint after_prefix (p s : string) : option string :=
  match p with
  | EmptyString => Some s
  | String c p' => match s with String d s' => if Ascii.eqb c d then after_prefix p' s' else None | EmptyString => None end
  end.
(* 'a','b',...  up to a closing bracket; fuel = length of the text *)
Fixpoint quoted_list (fuel : nat) (s : string) : option (list string * string) :=
  match fuel with
  | O => None
  | S f =>
    match take_quoted s with
    | Some (v, rest) =>
      match rest with
      | String c r => if Ascii.eqb c "," then match quoted_list f r with Some (vs, r2) => Some (v :: vs, r2) | None => None end
                      else Some ([v], rest)
      | EmptyString => Some ([v], rest)
      end
    | None => Some ([], s)
    end
  end.
(* the parts of a json path as printed: 'key' or a bare number (an [n] part); the number is kept as the byte 0 followed by
   its digits, a key that begins with the byte 0 with that byte doubled (SqlEval.key_lit): the forms LogqlPlan.json_part
   prints back *)
Fixpoint take_digits (s : string) : string * string :=
  match s with
  | String c r => if is_digit c then let (d, rest) := take_digits r in (String c d, rest) else (EmptyString, s)
  | EmptyString => (EmptyString, s)
  end.
Definition take_part (s : string) : option (string * string) :=
  match take_quoted s with
  | Some (k, rest) => Some (key_lit k, rest)
  | None => match take_digits s with
            | (EmptyString, _) => None
            | (d, rest) => Some (String "000"%char d, rest)
            end
  end.
Fixpoint part_list (fuel : nat) (s : string) : option (list string * string) :=
  match fuel with
  | O => None
  | S f =>
    match take_part s with
    | Some (v, rest) =>
      match rest with
      | String c r => if Ascii.eqb c "," then match part_list f r with Some (vs, r2) => Some (v :: vs, r2) | None => None end
                      else Some ([v], rest)
      | EmptyString => Some ([v], rest)
      end
    | None => Some ([], s)
    end
  end.
Fixpoint skip_digits (s : string) : string :=
  match s with String c r => if is_digit c then skip_digits r else s | EmptyString => s end.
(* regexMap.String: mapFromArrays(arrayFilter( (x,y) -> ..., [<names>] as re_lbls_N, arrayMap(..., extractAllGroupsHorizontal(string, <re>)) as re_vals_N), ...) *)
Definition parse_regex_map (t : string) : option expr :=
  match after_prefix regex_map_t1 t with
  | Some r1 =>
    match quoted_list (S (String.length r1)) r1 with
    | Some (names, r2) =>
      match after_prefix "] as re_lbls_" r2 with
      | Some r3 =>
        match after_prefix ",  arrayMap(x -> x[1], extractAllGroupsHorizontal(string, " (skip_digits r3) with
        | Some r4 => match take_quoted r4 with Some (re, _) => Some (regex_map names re) | None => None end
        | None => None end
      | None => None end
    | None => None end
  | None => None
  end.
(* sqlJsonParser.String: mapFilter((k,v) -> v != '', mapFromArrays(['l1',...], [if(JSONType(string, <path>) == 'String',
   JSONExtractString(string, <path>), JSONExtractRaw(string, <path>)),...])) - read back only when the three paths of an item agree *)
Definition json_item (s : string) : option (list string * string) :=
  match after_prefix "if(JSONType(string, " s with
  | Some r1 =>
    match part_list (S (String.length r1)) r1 with
    | Some (p1, r2) =>
      match after_prefix ") == 'String', JSONExtractString(string, " r2 with
      | Some r3 =>
        match part_list (S (String.length r3)) r3 with
        | Some (p2, r4) =>
          match after_prefix "), JSONExtractRaw(string, " r4 with
          | Some r5 =>
            match part_list (S (String.length r5)) r5 with
            | Some (p3, r6) =>
              match after_prefix "))" r6 with
              | Some rest => if strs_eqb p1 p2 && strs_eqb p1 p3 then Some (p1, rest) else None
              | None => None end
            | None => None end
          | None => None end
        | None => None end
      | None => None end
    | None => None end
  | None => None
  end.
Fixpoint json_items (fuel : nat) (s : string) : option (list (list string) * string) :=
  match fuel with
  | O => None
  | S f =>
    match json_item s with
    | Some (p, rest) =>
      match rest with
      | String c r => if Ascii.eqb c "," then match json_items f r with Some (ps, r2) => Some (p :: ps, r2) | None => None end
                      else Some ([p], rest)
      | EmptyString => Some ([p], rest)
      end
    | None => Some ([], s)
    end
  end.
Definition parse_json_map (t : string) : option expr :=
  match after_prefix "mapFilter((k,v) -> v != '', mapFromArrays([" t with
  | Some r1 =>
    match quoted_list (S (String.length r1)) r1 with
    | Some (labels, r2) =>
      match after_prefix "], [" r2 with
      | Some r3 =>
        match json_items (S (String.length r3)) r3 with
        | Some (paths, r4) =>
          if String.eqb r4 "]))" && Nat.eqb (List.length labels) (List.length paths) then Some (sql_json_parser labels paths) else None
        | None => None end
      | None => None end
    | None => None end
  | None => None
  end.
(* mapDropFilter's lambda: (k,v) -> k!='a' and (k, v)!=('b', 'c') and ... *)
Fixpoint drop_lambda_clauses (fuel : nat) (s : string) : option (list expr) :=
  match fuel with
  | O => None
  | S f =>
    let next (cl : expr) (rest : string) :=
      match rest with
      | EmptyString => Some [cl]
      | _ => match after_prefix " and " rest with
             | Some r => match drop_lambda_clauses f r with Some cs => Some (cl :: cs) | None => None end
             | None => None end
      end in
    match after_prefix "k!=" s with
    | Some r => match take_quoted r with Some (k, rest) => next (Sep "" [Raw "k!="; StrV k]) rest | None => None end
    | None =>
      match after_prefix "(k, v)!=(" s with
      | Some r =>
        match take_quoted r with
        | Some (k, r2) =>
          match after_prefix ", " r2 with
          | Some r3 => match take_quoted r3 with
                       | Some (v, r4) => match after_prefix ")" r4 with
                                         | Some rest => next (Sep "" [Raw "(k, v)!=("; StrV k; Raw ", "; StrV v; Raw ")"]) rest
                                         | None => None end
                       | None => None end
          | None => None end
        | None => None end
      | None => None end
    end
  end.
Definition parse_drop_lambda (t : string) : option expr :=
  match after_prefix "(k,v) -> " t with
  | Some r => match drop_lambda_clauses (S (String.length r)) r with
              | Some cl => Some (Sep "" [Raw "(k,v) -> "; Sep " and " cl])
              | None => None end
  | None => None
  end.

(* name['key'] : a map subscript printed by fmt.Sprintf (labels['level']) *)
Fixpoint split_at (sep s : string) (fuel : nat) : option (string * string) :=
  if prefixb sep s then Some (EmptyString, (fix drop (n : nat) (t : string) := match n, t with S n', String _ r => drop n' r | _, _ => t end) (String.length sep) s)
  else match s, fuel with
       | String c r, S f => match split_at sep r f with Some (a, b) => Some (String c a, b) | None => None end
       | _, _ => None
       end.
Definition subscript_of (t : string) : option expr :=
  match split_at "['" t (String.length t) with
  | Some (name, rest) =>
    match split_at "']" rest (String.length rest) with
    | Some (key, EmptyString) =>
      if negb (String.eqb name "") && forall_chars (fun c => is_lower c || is_upper c || is_digit c || Ascii.eqb c "_" || Ascii.eqb c ".") name
         && forall_chars (fun c => negb (Ascii.eqb c "'") && negb (Ascii.eqb c "\")) key
      then Some (Idx (Id name) (QRaw key)) else None
    | _ => None
    end
  | None => None
  end.

Section PREP.
  Variable days : list Z.
  Variable cands : list (string * expr).

  Section PSEL.
    Variable pe : list (string * select) -> expr -> expr.
    Fixpoint prep_sel (env : list (string * select)) (q : select_ expr) {struct q} : select_ expr :=
      let fix pwiths (ws : list (string * select_ expr)) (env : list (string * select)) : list (string * select) * list (string * select) :=
          match ws with
          | [] => ([], env)
          | (a, w) :: r => let w' := prep_sel env w in
                           let '(ws', env') := pwiths r ((a, w') :: env) in ((a, w') :: ws', env')
          end in
      let fix punions (us : list (select_ expr)) (env : list (string * select)) : list select :=
          match us with [] => [] | u :: r => prep_sel env u :: punions r env end in
      let '(ws, env') := pwiths (s_withs q) env in
      let f := pe env' in
      mkSel (s_distinct q) (map f (s_cols q)) (option_map f (s_from q)) (option_map f (s_where q))
            (option_map f (s_prewhere q)) (option_map f (s_having q)) (map f (s_groupby q)) (map f (s_orderby q))
            (option_map f (s_limit q)) (option_map f (s_offset q)) ws
            (map (fun j => (fst (fst j), f (snd (fst j)), option_map f (snd j))) (s_joins q))
            (s_settings q) (punions (s_unions q) env').
  End PSEL.

  Fixpoint prep_e (env : list (string * select)) (e : expr) {struct e} : expr :=
    match e with
    | WRef a q => match assoc_sel a env with Some q' => WRef a q' | None => WRef a q end
    | SubQ q => SubQ (prep_sel prep_e env q)
    | LOp op cl =>
      match cl with
      | [Id x; StrV s] => if suffixb "date" x then LOp op [Id x; date_lit days s] else e
      (* a FloatVal whose text has no fraction ("7") reads back as an integer: it is a float literal *)
      | [Fn name args; IntV z] =>
        if String.eqb name "toFloat64OrNull" then LOp op [Fn name (map (prep_e env) args); FloatV (string_of_Z z)]
        else LOp op (map (prep_e env) cl)
      | _ => LOp op (map (prep_e env) cl)
      end
    | Not x => Not (prep_e env x)
    | NotNull x => NotNull (prep_e env x)
    | In l r => In (prep_e env l) (map (prep_e env) r)
    (* cluster mode prints every WithRef inline, `(SELECT ...) as alias`: read it back as the reference *)
    | Col x a => match x with
                 | SubQ q | LOp OAnd [SubQ q] =>          (* harness/sqlparse reads the parentheses as a one-element group *)
                   if String.eqb a "" then Col (prep_e env x) a else WRef a (prep_sel prep_e env q)
                 | _ => Col (prep_e env x) a
                 end
    | Ord x asc => Ord (prep_e env x) asc
    | Idx x k => Idx (prep_e env x) (prep_e env k)
    | Fn name args =>
      if String.eqb name "mapFromArrays" && String.eqb (fst (rexpr e no_opts rst0)) labels_map_raw then Raw labels_map_raw
      else if String.eqb name "cityHash64" && String.eqb (fst (rexpr e no_opts rst0)) fp_labels_raw then Raw fp_labels_raw
      else if String.eqb name "mapFilter" && match parse_json_map (fst (rexpr e no_opts rst0)) with Some _ => true | None => false end
      then match parse_json_map (fst (rexpr e no_opts rst0)) with Some m => m | None => e end
      else if String.eqb name "mapFromArrays" && match parse_regex_map (fst (rexpr e no_opts rst0)) with Some _ => true | None => false end
      then match parse_regex_map (fst (rexpr e no_opts rst0)) with Some m => m | None => e end
      else if (String.eqb name "mapFromArrays" || String.eqb name "mapFilter") && match cand_lookup (expr_text e) cands with Some _ => true | None => false end
      then match cand_lookup (expr_text e) cands with Some m => m | None => e end
      else
        let args' := map (prep_e env) args in
        (* LineFormatPlanner's sqlFormat: format('<pattern>', labels['a'], ...) read back as the shape LogqlTemplate.tpl_sql
           builds and SqlEval interprets (pattern, at least one argument); the arguments are labels['name'] subscripts, read
           back by subscript_of. Whatever pattern and arguments the implementation printed are kept: render = text decides. *)
        if String.eqb name "format" then
          match args' with
          | StrV f :: ((_ :: _) as rest) => Sep "" [Raw "format("; StrV f; Raw ", "; Sep ", " rest; Raw ")"]
          | _ => Fn name args'
          end
        else if String.eqb name "groupBitOr" then
          match args' with
          | [Sep sep parts] =>
            if String.eqb sep " + " then
              match bitset_conds parts 0 with Some cs => BitSetAnd cs | None => Fn name args' end
            else Fn name args'
          | [one] => match bitset_conds [one] 0 with Some cs => BitSetAnd cs | None => Fn name args' end
          | _ => Fn name args'
          end
        else Fn name args'
    | Sep sep parts =>
      match parts with
      | [x; Raw t] => if String.eqb sep "" && String.eqb t " IS NOT NULL" then NotNull (prep_e env x)
                      else Sep sep (map (prep_e env) parts)
      | _ => Sep sep (map (prep_e env) parts)
      end
    | Raw t => if is_float_lit t then FloatV t
               else match parse_drop_lambda t with
                    | Some m => m
                    | None =>
                      match cand_lookup (expr_text e) cands with
                      | Some m => m
                      | None => match subscript_of t with Some i => i | None => e end
                      end
                    end
    | BitSetAnd cl => BitSetAnd (map (prep_e env) cl)
    | _ => e
    end.
  Definition prep (q : select) : select := prep_sel prep_e [] q.
End PREP.

(* ---------- every WithRef of a model SELECT carries the query its alias is bound to ----------
   SqlEval evaluates the query a WRef carries; the text sent to ClickHouse binds the alias in the WITH
   list of the outermost SELECT (add_with hoists, first binding of an alias wins). wrefs_bound compares,
   for every WRef reachable in the tree, the text of the carried query with the text of the bound one. *)
Section WREFS.
  Section WSEL.
    Variable we : expr -> list (string * select).
    Fixpoint wrefs_sel (q : select_ expr) {struct q} : list (string * select) :=
      let fix wwiths (ws : list (string * select_ expr)) : list (string * select) :=
          match ws with [] => [] | (_, w) :: r => (wrefs_sel w ++ wwiths r)%list end in
      let fix wunions (us : list (select_ expr)) : list (string * select) :=
          match us with [] => [] | u :: r => (wrefs_sel u ++ wunions r)%list end in
      let o (x : option expr) := match x with Some e => we e | None => [] end in
      (flat_map we (s_cols q) ++ o (s_from q) ++ o (s_where q) ++ o (s_prewhere q) ++ o (s_having q)
       ++ flat_map we (s_groupby q) ++ flat_map we (s_orderby q) ++ o (s_limit q) ++ o (s_offset q)
       ++ flat_map (fun j => (we (snd (fst j)) ++ o (snd j))%list) (s_joins q)
       ++ wwiths (s_withs q) ++ wunions (s_unions q))%list.
  End WSEL.
  Fixpoint wrefs_e (e : expr) {struct e} : list (string * select) :=
    match e with
    | WRef a q => ((a, q) :: wrefs_sel wrefs_e q)%list
    | SubQ q => wrefs_sel wrefs_e q
    | LOp _ cl | Fn _ cl | Sep _ cl | BitSetAnd cl => flat_map wrefs_e cl
    | Not x | NotNull x | Col x _ | Ord x _ => wrefs_e x
    | In l r => (wrefs_e l ++ flat_map wrefs_e r)%list
    | Idx x k => (wrefs_e x ++ wrefs_e k)%list
    | _ => []
    end.
End WREFS.
Definition sel_text (q : select) : option string :=
  let '(t, st) := render_select q (add_skip no_opts) rst0 in if r_err st then None else Some t.
Definition wrefs_bound (top : select) : bool :=
  forallb (fun aq => match assoc_sel (fst aq) (s_withs top), sel_text (snd aq) with
                     | Some b, Some t => match sel_text b with Some tb => String.eqb t tb | None => false end
                     | _, _ => false end)
          (wrefs_sel wrefs_e top).

(* ---------- oracle tables computed by the harness with Go's regexp / strconv / encoding/json ---------- *)
Definition jg_table := list (string * list string * string).   (* line, path, extracted value *)
Fixpoint jg_lookup (t : jg_table) (s : string) (p : list string) : string :=
  match t with
  | [] => ""
  | (s', p', v) :: r => if String.eqb s s' && strs_eqb p p' then v else jg_lookup r s p
  end.
(* a concrete stand-in for cityHash64 over the label map (the theorems hold for every function) *)
Definition str_hash (s : string) : Z :=
  (fix go (s : string) (acc : Z) : Z :=
     match s with EmptyString => acc | String c r => go r ((acc * 131 + Z.of_N (N_of_ascii c) + 1) mod 2305843009213693951)%Z end) s 7%Z.
Definition hash_concrete (ls : labels) : Z :=
  fold_left (fun acc kv => ((acc * 1000003 + str_hash (fst kv) * 31 + str_hash (snd kv)) mod 2305843009213693951)%Z) ls 17%Z.

(* regexp stage: (expression sent, line) -> the groups of the last match, computed with Go's regexp; an expression that does
   not compile or has no capture group has no rows (= ClickHouse exception) *)
Definition rg_table := list (string * string * list string).
Fixpoint rg_lookup (t : rg_table) (p l : string) : option (list string) :=
  match t with
  | [] => None
  | (p', l', vs) :: r => if String.eqb p p' && String.eqb l l' then Some vs else rg_lookup r p l
  end.
Definition re_table := list (string * string * bool).          (* subject, pattern, regexp.MatchString *)
Fixpoint re_lookup (t : re_table) (s p : string) : bool :=
  match t with
  | [] => false
  | (s', p', b) :: r => if String.eqb s s' && String.eqb p p' then b else re_lookup r s p
  end.
Definition pf_table := list (string * option Q).                (* text, strconv.ParseFloat as an exact rational *)
Fixpoint pf_lookup (t : pf_table) (s : string) : option Q :=
  match t with
  | [] => None
  | (s', v) :: r => if String.eqb s s' then v else pf_lookup r s
  end.

(* ---------- boolean reference semantics ---------- *)
Fixpoint labels_eqb (a b : labels) : bool :=
  match a, b with
  | [], [] => true
  | (k, v) :: a', (k', v') :: b' => String.eqb k k' && String.eqb v v' && labels_eqb a' b'
  | _, _ => false
  end.
Definition outrow_eqb (a b : outrow) : bool :=
  Z.eqb (o_fp a) (o_fp b) && Z.eqb (o_ts a) (o_ts b) && String.eqb (o_line a) (o_line b) && labels_eqb (o_labels a) (o_labels b).
Fixpoint remove_one (x : outrow) (l : list outrow) : option (list outrow) :=
  match l with
  | [] => None
  | y :: r => if outrow_eqb x y then Some r
              else match remove_one x r with Some r' => Some (y :: r') | None => None end
  end.
(* all minus res as multisets; None when res is not a sub-multiset *)
Fixpoint msub (all res : list outrow) : option (list outrow) :=
  match res with
  | [] => Some all
  | x :: r => match remove_one x all with Some all' => msub all' r | None => None end
  end.
Definition perm_b (a b : list outrow) : bool :=
  match msub a b with Some [] => true | _ => false end.
Definition topk_b (asc : bool) (k : Z) (all res : list outrow) : bool :=
  match msub all res with
  | None => false
  | Some rest =>
    Z.eqb (Z.of_nat (List.length res)) (Z.min k (Z.of_nat (List.length all)))
    && forallb (fun r => forallb (fun o => if asc then Z.leb (o_ts r) (o_ts o) else Z.leb (o_ts o) (o_ts r)) rest) res
  end.

Section CHECK.
  Context {RG : ReGroups}.
  Variable re_match : string -> string -> bool.
  Variable parse_float : string -> option Q.

  Definition sem_b (q : strsel) (c : pctx) (d : database) (res : list outrow) : bool :=
    if Z.eqb (c_limit c) 0 then perm_b res (log_rows re_match parse_float q c d)
    else topk_b (c_asc c) (c_limit c) (log_rows re_match parse_float q c d) res.

  Variable json_get : string -> list string -> string.
  Variable hash_labels : labels -> Z.
  (* the same for the whole SQL-planned pipeline (json / drop / filters in any order) *)
  Definition sem2_b (q : strsel) (c : pctx) (d : database) (res : list outrow) : bool :=
    if Z.eqb (c_limit c) 0 then perm_b res (log_rows2 re_match parse_float json_get hash_labels q c d)
    else topk_b (c_asc c) (c_limit c) (log_rows2 re_match parse_float json_get hash_labels q c d) res.

  (* the rows of Plan(script, false): every line the pipeline lets through, sorted by timestamp in the query direction *)
  Fixpoint ts_sorted_b (asc : bool) (l : list outrow) : bool :=
    match l with
    | a :: ((b :: _) as r) => (if asc then Z.leb (o_ts a) (o_ts b) else Z.leb (o_ts b) (o_ts a)) && ts_sorted_b asc r
    | _ => true
    end.
  Definition sem2_bp_b (q : strsel) (c : pctx) (d : database) (res : list outrow) : bool :=
    perm_b res (log_rows2 re_match parse_float json_get hash_labels q c d) && ts_sorted_b (c_asc c) res.

  (* fragment 3: the reference in which the LINE travels with the state (| line_format); on a pipeline without line_format
     log_rows3 = log_rows2 (LogqlSem2Proofs.log_rows3_no_lfmt), so these two judge every case of the search *)
  Definition sem3_b (q : strsel) (c : pctx) (d : database) (res : list outrow) : bool :=
    if Z.eqb (c_limit c) 0 then perm_b res (log_rows3 re_match parse_float json_get hash_labels q c d)
    else topk_b (c_asc c) (c_limit c) (log_rows3 re_match parse_float json_get hash_labels q c d) res.
  Definition sem3_bp_b (q : strsel) (c : pctx) (d : database) (res : list outrow) : bool :=
    perm_b res (log_rows3 re_match parse_float json_get hash_labels q c d) && ts_sorted_b (c_asc c) res.

  Definition gin_eqb (a b : gin_row) : bool :=
    Z.eqb (g_day a) (g_day b) && String.eqb (g_key a) (g_key b) && String.eqb (g_val a) (g_val b)
    && Z.eqb (g_fp a) (g_fp b) && Z.eqb (g_type a) (g_type b).
  Fixpoint nodup_strs (l : list string) : bool :=
    match l with [] => true | x :: r => negb (existsb (String.eqb x) r) && nodup_strs r end.
  Definition db_ok_b (c : pctx) (d : database) : bool :=
    let expansion := flat_map (fun s => map (gin_of s) (ts_labels s)) (d_series d) in
    forallb (fun g => existsb (gin_eqb g) expansion) (d_gin d)
    && forallb (fun g => existsb (gin_eqb g) (d_gin d)) expansion
    && forallb (fun s1 => forallb (fun s2 => negb (Z.eqb (ts_fp s1) (ts_fp s2)) || labels_eqb (ts_labels s1) (ts_labels s2))
                                  (d_series d)) (d_series d)
    && forallb (fun s => nodup_strs (map fst (ts_labels s))) (d_series d)
    && forallb (fun x => existsb (fun s => Z.eqb (ts_fp s) (x_fp x) && Z.eqb (ts_type s) (x_type x)
                                           && Z.leb (from_day (c_from_ns c)) (ts_day s)) (d_series d)) (d_samples d).
  Definition absent_guard_b (q : strsel) (d : database) : bool :=
    forallb (fun m => negb (matcher_val_ok re_match m "")
                      || forallb (fun s => existsb (String.eqb (m_name m)) (map fst (ts_labels s))) (d_series d))
            (sel_matchers q).

  (* the oracle fields of the query agree with the oracles, as far as the lines and labels of d can tell *)
  Definition simple_oracle_b (s : simple_lf) : bool :=
    if lblop_numeric s then
      match slf_num s with
      | Some (txt, f) =>
        match parse_float txt, parse_float f with
        | Some a, Some b => Qeq_bool a b && Z.eqb (Qnum a) (Qnum b) && Pos.eqb (Qden a) (Qden b)
        | _, _ => false
        end
      | None => true
      end
    else true.
  Fixpoint lf_oracle_b (f : label_filter) : bool :=
    match f with
    | LF head _ tail =>
      (match head with HSimple s => simple_oracle_b s | HComplex f' => lf_oracle_b f' end)
      && match tail with None => true | Some t => lf_oracle_b t end
    end.
  (* `more`: further lines the stage may meet - behind a line_format a line filter tests the FORMATTED line, which is no
     stored line (check_case passes every subject of the regexp table for such a query) *)
  Definition stage_oracle_b (d : database) (more : list string) (s : stage) : bool :=
    match s with
    | PLineFilter op val (Some (lit, insens)) =>
      match op with
      | LFRe | LFNre =>
        forallb (fun l => Bool.eqb (re_match l val)
                                   (if insens then contains (to_lower lit) (to_lower l) else contains lit l))
                (map x_line (d_samples d) ++ more)
      | _ => true
      end
    | PLabelFilter f => lf_oracle_b f
    | PParser PRegexp ps =>
      forallb (fun x => match re_groups (re_sent ps) (x_line x) with
                        | Some vs => Nat.eqb (List.length vs) (List.length (re_names ps))
                        | None => false end) (d_samples d)
    | _ => true
    end.
  Definition oracle_ok_more_b (q : strsel) (d : database) (more : list string) : bool := forallb (stage_oracle_b d more) (sel_pipeline q).
  Definition oracle_ok_b (q : strsel) (d : database) : bool := oracle_ok_more_b q d [].
End CHECK.

(* ---------- one case of the failing-input search ---------- *)
Record scase := {
  sc_id : Z;
  sc_q : strsel;
  sc_ctx : pctx;
  sc_fin : bool;                   (* Plan(script, sc_fin): false = the plan that feeds the in-process engine *)
  sc_sql : string;                 (* the implementation's SQL text *)
  sc_tree : select;                (* harness/sqlparse's reading of it *)
  sc_re : re_table;
  sc_pf : pf_table;
  sc_jg : jg_table;
  sc_rg : rg_table;
  sc_dbs : list database
}.

Definition tie_id (A : Type) (l : list A) : list A := l.
Definition tie_rev (A : Type) (l : list A) : list A := rev l.

Definition days_near (c : pctx) : list Z :=
  let d := from_day (c_from_ns c) in [d; d + 1; d - 1; d + 2; d - 2; d + 3; d - 3].

(* result of evaluating a SELECT on one database and judging it: 0 = reference answer, 1 = not the
   reference answer, 2 = does not evaluate inside the modelled subset *)
Definition judge (rg : ReGroups) (re : string -> string -> bool) (pf : string -> option Q) (jg : string -> list string -> string)
    (hl : labels -> Z) (tie : forall A : Type, list A -> list A) (fin : bool)
    (q : strsel) (c : pctx) (d : database) (sel : select) : Z * option (list (option outrow)) :=
  match eval (RG := rg) re pf jg hl tie (to_sqldb c d) sel with
  | None => (2, None)
  | Some rows =>
    let outs := map row_out rows in
    match map_opt (fun o => o) outs with
    | Some os => ((if (if fin then sem3_b (RG := rg) re pf jg hl q c d os else sem3_bp_b (RG := rg) re pf jg hl q c d os)
                   then 0 else 1)%Z, Some outs)
    | None => (1%Z, Some outs)
    end
  end.

Record dbverdict := {
  v_db_ok : bool; v_absent : bool; v_oracle : bool;
  v_impl : Z; v_impl_rev : Z; v_model : Z;
  v_same : bool;                   (* the implementation's SELECT and the model's SELECT return the same rows here *)
  v_got : option (list (option outrow)); v_want : list outrow; v_nsamples : Z
}.
Definition same_rows (a b : option (list (option outrow))) : bool :=
  match a, b with
  | None, None => true
  | Some x, Some y =>
    match map_opt (fun o => o) x, map_opt (fun o => o) y with
    | Some x', Some y' => perm_b x' y'
    | None, None => Nat.eqb (List.length x) (List.length y)
    | _, _ => false
    end
  | _, _ => false
  end.
Record cverdict := {
  cv_id : Z; cv_fragment : bool; cv_fragment2 : bool; cv_fragment3 : bool; cv_width : bool; cv_ctx_ok : bool;
  cv_text_ok : bool;               (* render (prep tree) = sc_sql *)
  cv_model_sel : bool;             (* the model planners produce a SELECT *)
  cv_wrefs : bool;                 (* ... whose WithRefs carry the queries their aliases are bound to *)
  cv_model_text : bool;            (* ... and whose text is the implementation's SQL, byte for byte *)
  cv_ref_defined : bool;           (* every line_format template has a reference value (tpl_plain): otherwise run_lstages answers
                                      None for every line and "no line" is not an expectation - the case is not judged *)
  cv_dbs : list dbverdict
}.

Definition check_case (s : scase) : cverdict :=
  let re := re_lookup (sc_re s) in
  let pf := pf_lookup (sc_pf s) in
  let jg := jg_lookup (sc_jg s) in
  let rg : ReGroups := rg_lookup (sc_rg s) in
  let hl := hash_concrete in
  let q := sc_q s in let c := sc_ctx s in
  let impl := prep (days_near c) (frag_cands q) (sc_tree s) in
  let text_ok := match render impl (c_cluster c) with Some t => String.eqb t (sc_sql s) | None => false end in
  let fin := sc_fin s in
  let more := if existsb (fun st => match st with PLineFormat _ => true | _ => false end) (sel_pipeline q)
              then map (fun e => fst (fst e)) (sc_re s) else [] in
  let msel := if fin then log_select q c else bp_select q c in
  {| cv_id := sc_id s; cv_fragment := in_fragment q; cv_fragment2 := in_fragment2 q; cv_fragment3 := in_fragment3 q; cv_width := width_guard q; cv_ctx_ok := ctx_ok c;
     cv_text_ok := text_ok;
     cv_model_sel := match msel with Some _ => true | None => false end;
     cv_wrefs := match msel with Some m => wrefs_bound m | None => true end;
     cv_model_text := match msel with
                      | Some m => match render m (c_cluster c) with Some t => String.eqb t (sc_sql s) | None => false end
                      | None => false end;
     cv_ref_defined := forallb (fun st => match st with PLineFormat t => tpl_plain t | _ => true end) (sel_pipeline q);
     cv_dbs := map (fun d =>
       let '(vi, got) := judge rg re pf jg hl tie_id fin q c d impl in
       let '(vr, _) := judge rg re pf jg hl tie_rev fin q c d impl in
       let '(vm, mgot) := match msel with Some m => judge rg re pf jg hl tie_id fin q c d m | None => (2%Z, None) end in
       {| v_db_ok := db_ok_b c d; v_absent := absent_guard_b re q d; v_oracle := oracle_ok_more_b (RG := rg) re pf q d more;
          v_impl := vi; v_impl_rev := vr; v_model := vm; v_same := same_rows got mgot; v_got := got;
          v_want := log_rows3 (RG := rg) re pf jg hl q c d; v_nsamples := Z.of_nat (List.length (d_samples d)) |}) (sc_dbs s) |}.
