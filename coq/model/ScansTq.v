(* C13 for the TraceQL planners (model/TraceqlPlan.v over the SQL objects of model/TqSql.v, tied byte for
   byte to reader/traceql/transpiler/clickhouse_transpiler by the traceql correspondence of C11).
   tq_scans enumerates every base-table read of a TqSql tree as a Scans.scan: through the WITH list,
   UNION ALL / INTERSECT operands and every expression position; a WithRef is a name only (its select
   sits in a WITH list, which is enumerated).  The conjuncts are carried over into the Sql.v alphabet
   by cv, which keeps what the window oracle looks at (column names, integer / string literals,
   comparisons, and / or, IN) and makes everything else an opaque leaf.
   Executable definitions only. *)
From Coq Require Import List ZArith NArith String Ascii Bool.
From Qryn Require Import lib.Strs lib.CivilDate model.Sql model.Scans.
From Qryn Require model.TqSql model.Traceql model.TraceqlPlan.
Import ListNotations.
Open Scope string_scope.
Open Scope list_scope.

Definition cv_lop (o : TqSql.lop) : lop :=
  match o with
  | TqSql.OAnd => OAnd | TqSql.OOr => OOr | TqSql.OEq => OEq | TqSql.ONeq => ONeq
  | TqSql.OLt => OLt | TqSql.OLe => OLe | TqSql.OGt => OGt | TqSql.OGe => OGe
  end.

Fixpoint cv (e : TqSql.expr) : expr :=
  match e with
  | TqSql.Id s => Id s
  | TqSql.IntV z => IntV z
  | TqSql.StrV s => StrV s
  | TqSql.WRef a => Raw a
  | TqSql.LOp op l => LOp (cv_lop op) (map cv l)
  | TqSql.InE l r => In (cv l) (map cv r)
  | TqSql.Col x a => Col (cv x) a
  | _ => Raw ""
  end.

Definition tq_base_table (f : TqSql.expr) : option (string * string) :=
  match f with
  | TqSql.Id t => Some (t, "")
  | TqSql.Raw t => Some (t, "")
  | TqSql.Col (TqSql.Id t) a => Some (t, a)
  | TqSql.Col (TqSql.Raw t) a => Some (t, a)
  | _ => None
  end.

Definition tq_ocv (o : option TqSql.expr) : option expr := match o with Some e => Some (cv e) | None => None end.

Definition tq_own_scan (cols : list TqSql.expr) (from pw wh : option TqSql.expr) : list scan :=
  match from with
  | Some f => match tq_base_table f with
              | Some (t, a) => [{| sc_table := t; sc_alias := a; sc_tsn := ts_names (map cv cols);
                                   sc_conj := oconjs (tq_ocv pw) ++ oconjs (tq_ocv wh) |}]
              | None => []
              end
  | None => []
  end.

(* ARRAY JOIN takes an array expression; a base table joined directly has no WHERE of its own *)
Definition tq_join_scan (j : TqSql.jkind * TqSql.expr * option TqSql.expr) : list scan :=
  match fst (fst j) with
  | TqSql.JArray => []
  | TqSql.JAnyLeft =>
      match tq_base_table (snd (fst j)) with
      | Some (t, a) => [{| sc_table := t; sc_alias := a; sc_tsn := []; sc_conj := [] |}]
      | None => []
      end
  end.

Fixpoint tq_escans (e : TqSql.expr) : list scan :=
  match e with
  | TqSql.LOp _ l => flat_map tq_escans l
  | TqSql.InE l r => tq_escans l ++ flat_map tq_escans r
  | TqSql.Col x _ => tq_escans x
  | TqSql.Ord x _ => tq_escans x
  | TqSql.Fn _ args => flat_map tq_escans args
  | TqSql.PFn _ ps args => flat_map tq_escans ps ++ flat_map tq_escans args
  | TqSql.Distinct x => tq_escans x
  | TqSql.Bin _ a b => tq_escans a ++ tq_escans b
  | TqSql.EqBare a b => tq_escans a ++ tq_escans b
  | TqSql.Tuple l => flat_map tq_escans l
  | TqSql.Lambda _ b => tq_escans b
  | TqSql.BitSet l => flat_map tq_escans l
  | TqSql.BitAnd a b => tq_escans a ++ tq_escans b
  | TqSql.GroupBitOr x _ => tq_escans x
  | TqSql.MatchRe x _ => tq_escans x
  | TqSql.Intersect l => flat_map tq_sscans l
  | TqSql.Union l => flat_map tq_sscans l
  | _ => []
  end
with tq_sscans (s : TqSql.select) : list scan :=
  match s with
  | TqSql.Sel withs _ cols from joins pw wh hv gb ob lim =>
    let oe := fun (o : option TqSql.expr) => match o with Some e => tq_escans e | None => [] end in
    flat_map (fun w => match w with (_, q) => tq_sscans q end) withs
    ++ tq_own_scan cols from pw wh
    ++ flat_map tq_join_scan joins
    ++ (flat_map tq_escans cols ++ oe from
        ++ flat_map (fun j => match j with (_, t, on) => tq_escans t ++ oe on end) joins
        ++ oe pw ++ oe wh ++ flat_map tq_escans gb ++ oe hv ++ flat_map tq_escans ob ++ oe lim)
  end.

Definition tq_scans (s : TqSql.select) : list scan := tq_sscans s.

(* the window of a TraceQL planner context: [from, to) in nanoseconds; trace tables carry no type column *)
Definition tq_win (c : TraceqlPlan.ctx) : window :=
  {| w_from := TraceqlPlan.from_ns c; w_to := TraceqlPlan.to_ns c;
     w_lo_min := TraceqlPlan.from_ns c; w_hi_max := TraceqlPlan.to_ns c; w_type := 0 |}.

(* ctx.From/To .UTC().Format("2006-01-02") and FormatFromDate, as the planners compute them *)
Definition tq_dates_utc (c : TraceqlPlan.ctx) : bool :=
  String.eqb (TraceqlPlan.from_date c) (date_string (day_of_ns (TraceqlPlan.from_ns c)))
  && String.eqb (TraceqlPlan.to_date c) (date_string (day_of_ns (TraceqlPlan.to_ns c)))
  && String.eqb (TraceqlPlan.ffd_from c) (date_string ((TraceqlPlan.from_ns c - 1800 * 1000000000) / ns_per_day)).

(* the final statement of a search reads the spans of the traces found, restricted only by their ids *)
Definition trace_restricted (sc : scan) : Prop :=
  List.In (In (Id "traces.trace_id") [Raw "trace_ids"]) (sc_conj sc).
Definition trace_restricted_b (sc : scan) : bool :=
  existsb (fun e => match e with
                    | In (Id x) [Raw r] => String.eqb x "traces.trace_id" && String.eqb r "trace_ids"
                    | _ => false end) (sc_conj sc).

(* ---------- the complexity estimate of a TraceQL request (planner.planEval: attr_condition_eval.go, attrless_eval.go,
   complex_eval_or.go, eval_finalizer.go, the planEval methods of the expression planners) and the two planners of
   /api/v2/search/tags and /tag/../values without a query (all_tags_request_planner.go; all_values is in TraceqlPlan.v).
   Transcribed here (C11's model has only the planners of the statements whose rows are returned). ---------- *)
Module TE.
  Import TraceqlPlan TqSql.
  (* AttrConditionEvaluatorPlanner wraps an AttrConditionPlanner over NewInitIndexPlanner(true): the distributed table *)
  Definition eval_ctx (c : ctx) : ctx :=
    {| from_ns := from_ns c; to_ns := to_ns c; from_date := from_date c; to_date := to_date c; ffd_from := ffd_from c; ffd_to := ffd_to c;
       limit := limit c; is_cluster := is_cluster c; rf_max := rf_max c; rf_i := rf_i c; cached := cached c;
       attrs_table := attrs_dist_table c; attrs_dist_table := attrs_dist_table c; traces_table := traces_table c;
       traces_dist_table := traces_dist_table c; kv_dist_table := kv_dist_table c |}.
  Definition set_having_none (s : select) : select :=
    match s with Sel w d c f j pw wh _ gb ob l => Sel w d c f j pw wh None gb ob l end.
  (* main.SetHaving(nil).GroupBy(&bitSet{sqlConds}, prefix).OrderBy().Select('<prefix>' as prefix, count() as _count) *)
  Definition attr_condition_eval (c : ctx) (terms : list Traceql.attr_sel) (cond : option condition) (agg : string)
             (prefix : string) (n : nat) : result select :=
    bind (attr_condition (eval_ctx c) terms cond agg n) (fun main =>
    bind (map_res get_term terms) (fun scs =>
    Ok (set_cols [Col (StrV prefix) "prefix"; Col (Id "count()") "_count"]
         (set_order [] (set_groupby [BitSet scs; Id "prefix"] (set_having_none main)))))).
  (* AttrlessEvaluatorPlanner: no table is read *)
  Definition attrless_eval (c : ctx) (prefix : string) : select :=
    Sel [] false [Col (StrV prefix) "prefix"; Col (IntV (limit c)) "_count"] None [] None None None [] [] None.
  (* simpleExpressionPlanner.planEval + Process *)
  Definition simple_eval (c : ctx) (s : Traceql.script) (prefix : string) (n : nat) : result select :=
    bind (check s) (fun _ =>
    let h := Traceql.sc_head s in
    let '(cond, terms) := analyze h in
    match Traceql.sel_attr h with
    | Some _ => attr_condition_eval c terms cond (agg_attr_of h) prefix n
    | None => Ok (attrless_eval c prefix)
    end).
  (* complexExpressionPlanner.planEval (ComplexEvalOrPlanner for && and || alike) + Process *)
  Fixpoint ep_eval (c : ctx) (n : nat) (t : ep) : result select :=
    match t with
    | EPSimple s prefix => simple_eval c s prefix n
    | EPComplex prefix _ ops =>
        bind ((fix go (l : list ep) : result (list select) :=
                 match l with
                 | [] => Ok []
                 | x :: r => bind (ep_eval c n x) (fun y => bind (go r) (fun ys => Ok (y :: ys)))
                 end) ops)
             (fun sels => Ok (Sel [] false [Id "*"] (Some (Col (Union sels) (prefix ++ "a"))) [] None None None [] [] None))
    end.
  Definition eval_finalizer (main : select) : select :=
    set_with [("pre_final", main)] (Sel [] false [Col (Id "_count") "_count"] (Some (WRef "pre_final")) [] None None None [] [] None).
  (* planner.planEval: a fresh planner object, so the prefixes are numbered from _1 again *)
  Definition plan_eval (q : Traceql.script) (c : ctx) (n : nat) : result select :=
    bind (match Traceql.sc_tail q with
          | None => simple_eval c q (prefix_of 1) n
          | Some _ => match plan_complex None 0 None q with
                      | Some (Some t, _) => ep_eval c n t
                      | _ => Panic
                      end
          end) (fun main => Ok (eval_finalizer main)).
  (* AllTagsRequestPlanner *)
  Definition all_tags (c : ctx) : select :=
    Sel [] true [Col (Id "key") "key"] (Some (Id (kv_dist_table c))) [] None
        (Some (LOp OAnd [LOp OGe [Id "date"; StrV (ffd_from c)]; LOp OLe [Id "date"; StrV (to_date c)]])) None [] [] None.
End TE.

(* verdict of the oracle on the statement of a plan (for generated / vm_compute cases) *)
Definition tq_report (c : TraceqlPlan.ctx) (s : TqSql.select) : list (string * list Z) :=
  map (fun sc => (sc_table sc, map failure_code (scan_failures table_info (tq_win c) sc))) (tq_scans s).

(* ---------- comparison with the statements recorded from the real router (checks/c13.py) ----------
   For the TraceQL requests of harness readscan the statement built by the planner model and the recorded
   statement (parsed into an Sql.v tree, judged by Scans.scan_failures) must give the same set of verdicts
   (table class, failure codes): ties tq_scans / cv to scans on the real text. *)
Module RQ.
  Import Traceql.
  Definition vstr (quoted unq : string) : value :=
    {| v_time := ""; v_f := ""; v_str := Some quoted; v_unq := Some unq; v_ffmt := None; v_dur := None |}.
  Definition vdur (txt : string) (ns : Z) : value :=
    {| v_time := txt; v_f := ""; v_str := None; v_unq := None; v_ffmt := None; v_dur := Some ns |}.
  Definition term (l : string) (op : cmp) (v : value) : attr_sel := {| a_label := l; a_op := op; a_val := v |}.
  Definition a_eq_b : attr_sel := term ".a" CEq (vstr """b""" "b").
  Definition c_re_d : attr_sel := term ".c" CRe (vstr """d.*""" "d.*").
  Definition dur_gt : attr_sel := term "duration" CGt (vdur "1ms" 1000000).
  Definition one (t : attr_sel) : attr_exp := AExp (HTerm t) AONone None.
  Definition sel (e : attr_exp) (g : option aggregator) : selector := {| sel_attr := Some e; sel_agg := g |}.
  (* {.a="b" && duration>1ms} *)
  Definition simple : script := Script (sel (AExp (HTerm a_eq_b) AOAnd (Some (one dur_gt))) None) AONone None.
  (* {duration>1ms} *)
  Definition attrless : script := Script (sel (one dur_gt) None) AONone None.
  (* {.a="b"} && {.c=~"d.*"} | count() > 1 *)
  Definition count_gt_1 : aggregator :=
    {| g_fn := AgCount; g_attr := ""; g_cmp := CGt; g_num := "1"; g_meas := ""; g_ffmt := Some "1"; g_durf := None |}.
  Definition complex : script :=
    Script (sel (one a_eq_b) None) AOAnd (Some (Script (sel (one c_re_d) (Some count_gt_1)) AONone None)).
  (* {.a="b"} *)
  Definition a_only : script := Script (sel (one a_eq_b) None) AONone None.
End RQ.

Definition tq_table_code (t : string) : Z :=
  let b := table_base t in
  if String.eqb b "tempo_traces" then 1%Z else if String.eqb b "tempo_traces_attrs_gin" then 2%Z
  else if String.eqb b "tempo_traces_kv" then 3%Z else 0%Z.
Definition tq_report_codes (c : TraceqlPlan.ctx) (s : TqSql.select) : list (Z * list Z) :=
  map (fun sc => (tq_table_code (sc_table sc), map failure_code (scan_failures table_info (tq_win c) sc))) (tq_scans s).

Record tq_case := { tc_id : Z; tc_ctx : TraceqlPlan.ctx; tc_q : Traceql.script; tc_mode : TraceqlPlan.mode;
                    tc_expected : list (Z * list Z) }.
Fixpoint zlist_eqb (a b : list Z) : bool :=
  match a, b with [], [] => true | x :: r, y :: r' => Z.eqb x y && zlist_eqb r r' | _, _ => false end.
Definition verdict_eqb (x y : Z * list Z) : bool := Z.eqb (fst x) (fst y) && zlist_eqb (snd x) (snd y).
Definition verdicts_subset (a b : list (Z * list Z)) : bool := forallb (fun x => existsb (verdict_eqb x) b) a.
Definition tq_case_mismatch (c : tq_case) : bool :=
  match TraceqlPlan.plan (tc_q c) (tc_mode c) (tc_ctx c) 1 with
  | TraceqlPlan.Ok s =>
      let r := tq_report_codes (tc_ctx c) s in
      negb (verdicts_subset r (tc_expected c) && verdicts_subset (tc_expected c) r)
  | _ => true
  end.
Definition tq_case_mismatches (cs : list tq_case) : list Z := map tc_id (filter tq_case_mismatch cs).
(* the hypothesis of the planner theorems, checked on the context of every compared request *)
Definition tq_ctx_ok_b (c : TraceqlPlan.ctx) : bool :=
  Z.leb (1800 * 1000000000) (TraceqlPlan.from_ns c) && Z.leb (TraceqlPlan.from_ns c) (TraceqlPlan.to_ns c)
  && Z.ltb (TraceqlPlan.to_ns c) (47482 * ns_per_day) && tq_dates_utc c.
Definition tq_ctx_not_ok (cs : list tq_case) : list Z := map tc_id (filter (fun c => negb (tq_ctx_ok_b (tc_ctx c))) cs).

(* the complexity estimate and the tags statement without a query: text of the model's statement vs the recorded one *)
Record te_case := { te_id : Z; te_ctx : TraceqlPlan.ctx; te_q : option Traceql.script; te_sql : string }.
Definition te_mismatch (c : te_case) : bool :=
  match te_q c with
  | Some q => match TE.plan_eval q (te_ctx c) 1 with
              | TraceqlPlan.Ok s => negb (String.eqb (TqSql.render s) (te_sql c))
              | _ => true end
  | None => negb (String.eqb (TqSql.render (TE.all_tags (te_ctx c))) (te_sql c))
  end.
Definition te_mismatches (cs : list te_case) : list Z := map te_id (filter te_mismatch cs).
Definition te_ctx_not_ok (cs : list te_case) : list Z := map te_id (filter (fun c => negb (tq_ctx_ok_b (te_ctx c))) cs).

(* the statements of a search / tags / values request with a query: text of C11's planner model vs the recorded one, inside C13's run *)
Record tt_case := { tt_id : Z; tt_ctx : TraceqlPlan.ctx; tt_q : Traceql.script; tt_mode : TraceqlPlan.mode; tt_sql : string }.
Definition tt_mismatch (c : tt_case) : bool :=
  match TraceqlPlan.plan (tt_q c) (tt_mode c) (tt_ctx c) 1 with
  | TraceqlPlan.Ok s => negb (String.eqb (TqSql.render s) (tt_sql c))
  | _ => true
  end.
Definition tt_mismatches (cs : list tt_case) : list Z := map tt_id (filter tt_mismatch cs).
